(* C01: the semaphore map over keys, with outputs.
   Semap.v (Appendix J) is the per-key machine (state only).  This file
   - adds the outputs of one critical section: which callers return from Acquire* in that step with
     success (the grant list, in hand-off order) and which return with the context error;
   - admits the race of the cancel path: a context that ends after its caller was already granted changes nothing
     (`Cancel t` for a holder is a no-op, the Acquire has returned / returns nil);
   - lifts the machine to a family indexed by the key (SemMap.m) - labels name their key;
   - proves the invariants for every label sequence of the keyed machine.
   Mirrors syncx/semap/semaphore.go (acquire / cancel path / release / notifyWaiters) and map.go (entry creation on
   first acquire, deletion in release when no waiter is left and cur = 0). *)
From Coq Require Import ZArith List Lia Bool Arith.
Require Import Semap.
Import ListNotations.
Open Scope Z_scope.

Definition qof (s : st) : list (nat * Z) := match ent s with Some e => q e | None => [] end.

Section Keyed.
Variable size : Z.            (* rwRatio *)

(* one critical section on one key: (new state, tids granted in hand-off order, tids returning ctx.Err()) *)
Definition stepo (s : st) (l : label) : option (st * list nat * list nat) :=
  match l with
  | Acq t n =>
      (* SemMap.acquire: look the entry up (or create it) and enter Weighted.acquire under the same lock *)
      match lookup t (held s) with Some _ => None | None =>
      let e := match ent s with Some e => e | None => {| cur := 0; q := [] |} end in
      match lookup t (q e) with Some _ => None | None =>
      if (n <=? size - cur e) && is_nil (q e)
      then Some ({| ent := Some {| cur := cur e + n; q := [] |}; held := held s ++ [(t, n)] |}, [t], [])
      else Some ({| ent := Some {| cur := cur e; q := q e ++ [(t, n)] |}; held := held s |}, [], [])
      end end
  | Cancel t =>
      (* the ctx.Done() branch of the select, after re-locking *)
      match ent s with None => None | Some e =>
      match lookup t (q e) with
      | None =>
          (* `case <-ready`: granted before the cancellation was noticed (or the context ended after Acquire
             returned): pretend we did not notice - nothing changes, the caller keeps what it holds *)
          match lookup t (held s) with Some _ => Some (s, [], []) | None => None end
      | Some _ =>
        let isfront := match q e with (t', _) :: _ => Nat.eqb t t' | [] => false end in
        let q' := remove_t t (q e) in
        if isfront && (cur e <? size)
        then let '(c, w, g) := notify size (cur e) q' [] in
             Some ({| ent := Some {| cur := c; q := w |}; held := held s ++ g |}, map fst g, [t])
        else Some ({| ent := Some {| cur := cur e; q := q' |}; held := held s |}, [], [t])
      end end
  | Rel t =>
      (* SemMap.release: Weighted.release (cur -= n; notifyWaiters) and delete when no waiter is left and cur = 0 *)
      match ent s, lookup t (held s) with
      | Some e, Some n =>
        let '(c, w, g) := notify size (cur e - n) (q e) [] in
        let h := remove_first t (held s) ++ g in
        if is_nil w && (c =? 0)
        then Some ({| ent := None; held := h |}, map fst g, [])
        else Some ({| ent := Some {| cur := c; q := w |}; held := h |}, map fst g, [])
      | _, _ => None
      end
  end.

(* ---------------- the family over keys ---------------- *)
Inductive lab := LAcq (t k : nat) (w : bool) | LCancel (t k : nat) | LRel (t k : nat).
Definition lab_key (l : lab) : nat := match l with LAcq _ k _ | LCancel _ k | LRel _ k => k end.
Definition wt (w : bool) : Z := if w then size else 1.      (* AcquireWrite asks for rwRatio tokens, AcquireRead for 1 *)
Definition lab_sem (l : lab) : label :=
  match l with LAcq t _ w => Acq t (wt w) | LCancel t _ => Cancel t | LRel t _ => Rel t end.

Definition kupd {A} (f : nat -> A) (k : nat) (v : A) : nat -> A := fun x => if Nat.eqb x k then v else f x.
Definition kst := nat -> st.
Definition kinit : kst := fun _ => init.

Definition kstep (S : kst) (l : lab) : option (kst * list nat * list nat) :=
  match stepo (S (lab_key l)) (lab_sem l) with
  | Some (s', g, c) => Some (kupd S (lab_key l) s', g, c)
  | None => None
  end.

Fixpoint krun (S : kst) (ls : list lab) : option kst :=
  match ls with
  | [] => Some S
  | l :: ls' => match kstep S l with Some (S', _, _) => krun S' ls' | None => None end
  end.

Lemma kupd_same {A} (f : nat -> A) k v : kupd f k v k = v.
Proof. unfold kupd. now rewrite Nat.eqb_refl. Qed.
Lemma kupd_other {A} (f : nat -> A) k v j : j <> k -> kupd f k v j = f j.
Proof. unfold kupd. intros H. apply Nat.eqb_neq in H. now rewrite H. Qed.

(* ---------------- relation to the state-only machine of Semap.v ---------------- *)
Lemma stepo_step s l s' g c : stepo s l = Some (s', g, c) ->
  step size true s l = Some s' \/ (s' = s /\ g = [] /\ c = [] /\ exists t n, l = Cancel t /\ lookup t (held s) = Some n /\ lookup t (qof s) = None).
Proof.
  destruct l as [t n|t|t]; cbn [stepo step]; intros H.
  - left. destruct (lookup t (held s)); [discriminate|].
    destruct (lookup t (q match ent s with Some e => e | None => {| cur := 0; q := [] |} end)); [discriminate|].
    destruct (_ && _); inversion H; reflexivity.
  - destruct (ent s) as [e|] eqn:Ee; [|discriminate].
    destruct (lookup t (q e)) eqn:El.
    + left. destruct (_ && _).
      * destruct (notify size (cur e) (remove_t t (q e)) []) as [[c0 w0] g0]. inversion H; reflexivity.
      * inversion H; reflexivity.
    + right. destruct (lookup t (held s)) as [n|] eqn:Eh; [|discriminate]. inversion H; subst.
      repeat split; auto. exists t, n. unfold qof. rewrite Ee. auto.
  - left. destruct (ent s) as [e|]; [|discriminate]. destruct (lookup t (held s)) as [n|]; [|discriminate].
    destruct (notify size (cur e - n) (q e) []) as [[c0 w0] g0].
    destruct (is_nil w0 && (c0 =? 0)); inversion H; reflexivity.
Qed.

Hypothesis size_pos : 1 <= size.

Definition lab_ok (l : label) : Prop := match l with Acq _ n => 1 <= n <= size | _ => True end.

Lemma stepo_inv s l s' g c : Inv size s -> lab_ok l -> stepo s l = Some (s', g, c) -> Inv size s'.
Proof.
  intros Hi Hl H. apply stepo_step in H as [H|(-> & _)]; [|exact Hi].
  apply (step_inv size size_pos s l s' Hi Hl H).
Qed.

Lemma wt_ok w : 1 <= wt w <= size.
Proof. destruct w; cbn; lia. Qed.
Lemma lab_sem_ok l : lab_ok (lab_sem l).
Proof. destruct l; cbn; auto using wt_ok. Qed.

Lemma init_inv : Inv size init.
Proof. unfold Inv, init. cbn. split; [constructor|reflexivity]. Qed.

Definition KInv (S : kst) : Prop := forall k, Inv size (S k).

Lemma kstep_inv S l S' g c : KInv S -> kstep S l = Some (S', g, c) -> KInv S'.
Proof.
  unfold kstep. intros Hi H k. destruct (stepo (S (lab_key l)) (lab_sem l)) as [[[s' g0] c0]|] eqn:E; [|discriminate].
  inversion H; subst. unfold kupd. destruct (Nat.eqb k (lab_key l)); [|apply Hi].
  apply (stepo_inv _ _ _ _ _ (Hi _) (lab_sem_ok l) E).
Qed.

Lemma krun_inv : forall ls S S', KInv S -> krun S ls = Some S' -> KInv S'.
Proof.
  induction ls as [|l ls IH]; intros S S' Hi H; cbn [krun] in H.
  - inversion H; subst; exact Hi.
  - destruct (kstep S l) as [[[S1 g] c]|] eqn:E; [|discriminate].
    apply (IH S1 S'); auto. apply (kstep_inv _ _ _ _ _ Hi E).
Qed.

Theorem reachable_inv ls S : krun kinit ls = Some S -> KInv S.
Proof. apply krun_inv. intros k. apply init_inv. Qed.

(* a step on one key leaves every other key alone *)
Lemma kstep_frame S l S' g c j : kstep S l = Some (S', g, c) -> j <> lab_key l -> S' j = S j.
Proof.
  unfold kstep. destruct (stepo _ _) as [[[s' g0] c0]|]; [|discriminate]. intros H Hj. inversion H; subst.
  now apply kupd_other.
Qed.

Lemma kstep_at S l S' g c : kstep S l = Some (S', g, c) -> stepo (S (lab_key l)) (lab_sem l) = Some (S' (lab_key l), g, c).
Proof.
  unfold kstep. destruct (stepo _ _) as [[[s' g0] c0]|]; [|discriminate]. intros H. inversion H; subst.
  now rewrite kupd_same.
Qed.

(* ---------------- what one step does to holders and queue (used by the monitor proof and the FIFO theorems) -------- *)
Lemma qof_wf s : Inv size s -> wf_w size (qof s).
Proof. intros [_ He]. unfold qof. destruct (ent s) as [e|]; [apply He|constructor]. Qed.

Lemma stepo_acq s t n s' g c : Inv size s -> stepo s (Acq t n) = Some (s', g, c) ->
  c = [] /\
  ((g = [t] /\ qof s = [] /\ n <= size - sumw (held s) /\ held s' = held s ++ [(t, n)] /\ qof s' = [])
   \/ (g = [] /\ (qof s <> [] \/ size - sumw (held s) < n) /\ held s' = held s /\ qof s' = qof s ++ [(t, n)])).
Proof.
  intros [Hh He] H. cbn [stepo] in H. destruct (lookup t (held s)); [discriminate|].
  assert (Hcur : match ent s with Some e => cur e | None => 0 end = sumw (held s)).
  { destruct (ent s) as [e|]; [apply He | rewrite He; reflexivity]. }
  unfold qof. destruct (ent s) as [e|]; cbn [cur q] in *.
  - destruct (lookup t (q e)); [discriminate|].
    destruct ((n <=? size - cur e) && is_nil (q e)) eqn:E; inversion H; subst; clear H; cbn [ent held q]; split; auto.
    + apply andb_prop in E as [E1 E2]. apply Z.leb_le in E1. left.
      destruct (q e); [|discriminate]. repeat split; auto. lia.
    + right. repeat split; auto. apply andb_false_iff in E as [E|E].
      * apply Z.leb_gt in E. right. lia.
      * left. destruct (q e); [discriminate|congruence].
  - cbn [lookup find option_map] in H.
    destruct ((n <=? size - 0) && is_nil (@nil (nat * Z))) eqn:E; inversion H; subst; clear H; cbn [ent held q]; split; auto.
    + apply andb_prop in E as [E1 _]. apply Z.leb_le in E1. left. repeat split; auto. lia.
    + right. repeat split; auto. apply andb_false_iff in E as [E|E]; [|discriminate].
      apply Z.leb_gt in E. right. lia.
Qed.

Lemma stepo_rel s t s' g c : Inv size s -> stepo s (Rel t) = Some (s', g, c) ->
  c = [] /\ exists n gw, lookup t (held s) = Some n /\ g = map fst gw /\ qof s = gw ++ qof s' /\
     held s' = remove_first t (held s) ++ gw.
Proof.
  intros [Hh He] H. cbn [stepo] in H. unfold qof. destruct (ent s) as [e|]; [|discriminate].
  destruct He as (Hc & Hb & Hq & Hu).
  destruct (lookup t (held s)) as [n|] eqn:El; [|discriminate].
  pose proof (lookup_weight size _ _ _ Hh El) as Hn.
  destruct (remove_first_spec size _ _ _ Hh El) as [Hsum Hwf].
  destruct (notify size (cur e - n) (q e) []) as [[c0 w0] g0] eqn:En.
  assert (Hcn : 0 <= cur e - n <= size) by (pose proof (sumw_pos size _ Hwf); lia).
  destruct (notify_spec size _ _ _ _ _ _ En Hq Hcn) as (g2 & -> & Hw & _).
  cbn [app] in *.
  destruct (is_nil w0 && (c0 =? 0)) eqn:E; inversion H; subst; clear H; cbn [ent held q]; split; auto; exists n, g2.
  - apply andb_prop in E as [E _]. destruct w0; [|discriminate]. repeat split; auto.
  - repeat split; auto.
Qed.

Lemma stepo_cancel s t s' g c : Inv size s -> stepo s (Cancel t) = Some (s', g, c) ->
  (exists n, lookup t (qof s) = Some n /\ c = [t] /\ exists gw, g = map fst gw /\
       remove_t t (qof s) = gw ++ qof s' /\ held s' = held s ++ gw)
  \/ (lookup t (qof s) = None /\ (exists n, lookup t (held s) = Some n) /\ s' = s /\ g = [] /\ c = []).
Proof.
  intros [Hh He] H. cbn [stepo] in H. unfold qof. destruct (ent s) as [e|] eqn:Ee; [|discriminate].
  destruct He as (Hc & Hb & Hq & Hu).
  destruct (lookup t (q e)) as [n|] eqn:El.
  - left. exists n. split; auto.
    destruct ((match q e with (t', _) :: _ => Nat.eqb t t' | [] => false end) && (cur e <? size)) eqn:E.
    + destruct (notify size (cur e) (remove_t t (q e)) []) as [[c0 w0] g0] eqn:En.
      destruct (notify_spec size _ _ _ _ _ _ En (wf_remove_t size t _ Hq) ltac:(lia)) as (g2 & -> & Hw & _).
      inversion H; subst; clear H. cbn [ent held q app]. split; auto. exists g2. repeat split; auto.
    + inversion H; subst; clear H. cbn [ent held q]. split; auto. exists []. cbn. rewrite app_nil_r. repeat split; auto.
  - right. destruct (lookup t (held s)) as [n|] eqn:Eh; [|discriminate]. inversion H; subst. repeat split; eauto.
Qed.

(* ---------------- tids are unique among holders and waiters of a key ---------------- *)
Definition tids (s : st) : list nat := map fst (held s ++ qof s).

Lemma lookup_none_notin t l : lookup t l = None -> ~ In t (map fst l).
Proof.
  unfold lookup. induction l as [|[t' n] l IH]; cbn; [tauto|].
  destruct (Nat.eqb t' t) eqn:E; cbn; [discriminate|]. intros H [Heq|Hin]; [subst; now rewrite Nat.eqb_refl in E | tauto].
Qed.
Lemma notin_lookup_none t l : ~ In t (map fst l) -> lookup t l = None.
Proof.
  unfold lookup. induction l as [|[t' n] l IH]; cbn; [reflexivity|]. intros H.
  destruct (Nat.eqb t' t) eqn:E; cbn.
  - apply Nat.eqb_eq in E. subst. tauto.
  - apply IH. tauto.
Qed.
Lemma lookup_some_in t l n : lookup t l = Some n -> In (t, n) l.
Proof.
  unfold lookup. destruct (find _ l) as [[t' n']|] eqn:F; cbn; [|discriminate]. intros [= ->].
  apply find_some in F as [Hin E]. cbn in E. apply Nat.eqb_eq in E. now subst.
Qed.

Lemma remove_t_fst t l : map fst (remove_t t l) = filter (fun x => negb (Nat.eqb x t)) (map fst l).
Proof. unfold remove_t. induction l as [|[t' n] l IH]; cbn; [reflexivity|]. destruct (Nat.eqb t' t); cbn; now rewrite IH. Qed.

Lemma NoDup_filter {A} (p : A -> bool) l : NoDup l -> NoDup (filter p l).
Proof.
  induction 1 as [|x l Hx Hl IH]; cbn; [constructor|]. destruct (p x); auto. constructor; auto.
  intros Hin. apply filter_In in Hin. tauto.
Qed.

Lemma remove_first_fst_incl t l x : In x (map fst (remove_first t l)) -> In x (map fst l).
Proof.
  induction l as [|[t' n] l IH]; cbn; [tauto|]. destruct (Nat.eqb t' t); cbn; [tauto|]. intros [H|H]; auto.
Qed.
Lemma remove_first_nodup t l : NoDup (map fst l) -> NoDup (map fst (remove_first t l)).
Proof.
  induction l as [|[t' n] l IH]; cbn; [auto|]. intros H. inversion H as [|? ? Hx Hl]; subst.
  destruct (Nat.eqb t' t); cbn; auto. constructor; auto. intros Hin. apply Hx. eapply remove_first_fst_incl; eauto.
Qed.
Lemma remove_first_notin t l : NoDup (map fst l) -> ~ In t (map fst (remove_first t l)).
Proof.
  induction l as [|[t' n] l IH]; cbn; [tauto|]. intros H. inversion H as [|? ? Hx Hl]; subst.
  destruct (Nat.eqb t' t) eqn:E; cbn.
  - apply Nat.eqb_eq in E. now subst.
  - apply Nat.eqb_neq in E. intros [Heq|Hin]; [congruence|]. now apply IH.
Qed.

Lemma NoDup_snoc {A} (l : list A) x : NoDup l -> ~ In x l -> NoDup (l ++ [x]).
Proof.
  induction l as [|y l IH]; cbn; intros Hn Hx; [constructor; [tauto|constructor]|].
  inversion Hn as [|? ? Hy Hl]; subst. constructor; [|apply IH; tauto].
  rewrite in_app_iff. cbn. intros [H|[H|[]]]; [tauto|]. subst. tauto.
Qed.

Lemma stepo_nodup s l s' g c : Inv size s -> NoDup (tids s) -> stepo s l = Some (s', g, c) -> NoDup (tids s').
Proof.
  intros Hi Hn H. unfold tids in *. destruct l as [t n|t|t].
  - pose proof H as H0. apply (stepo_acq _ _ _ _ _ _ Hi) in H as (_ & [(_ & Hq & _ & -> & ->)|(_ & _ & -> & ->)]).
    + rewrite Hq, app_nil_r in Hn. rewrite app_nil_r, map_app. cbn.
      apply NoDup_snoc; auto.
      cbn [stepo] in H0. destruct (lookup t (held s)) eqn:El; [discriminate|]. now apply lookup_none_notin.
    + rewrite app_assoc, map_app. cbn. apply NoDup_snoc; auto.
      cbn [stepo] in H0. destruct (lookup t (held s)) eqn:El; [discriminate|].
      rewrite map_app, in_app_iff. intros [Hin|Hin]; [now apply lookup_none_notin in El|].
      unfold qof in Hin. destruct (ent s) as [e|]; [|destruct Hin].
      destruct (lookup t (q e)) eqn:El2; [discriminate|]. now apply lookup_none_notin in El2.
  - apply (stepo_cancel _ _ _ _ _ Hi) in H as [(n & _ & _ & gw & _ & Hr & ->)|(_ & _ & -> & _)]; [|exact Hn].
    rewrite <- app_assoc, <- Hr. rewrite map_app, remove_t_fst. rewrite map_app in Hn.
    clear - Hn. induction (map fst (held s)) as [|x l IH]; cbn in *; [apply NoDup_filter; auto|].
    inversion Hn as [|? ? Hx Hl]; subst. constructor; auto. rewrite in_app_iff in *. intros [Hin|Hin]; [tauto|].
    apply filter_In in Hin. tauto.
  - apply (stepo_rel _ _ _ _ _ Hi) in H as (_ & n & gw & _ & _ & Hq & ->).
    rewrite Hq in Hn. rewrite <- app_assoc. rewrite !map_app in *.
    clear - Hn. induction (held s) as [|[t' n'] l IH]; cbn in *; [auto|].
    inversion Hn as [|? ? Hx Hl]; subst. destruct (Nat.eqb t' t); cbn; auto.
    constructor; auto. rewrite !in_app_iff in *. intros [Hin|Hin]; [|tauto]. apply Hx. left. eapply remove_first_fst_incl; eauto.
Qed.

Definition KNoDup (S : kst) : Prop := forall k, NoDup (tids (S k)).

Lemma kstep_nodup S l S' g c : KInv S -> KNoDup S -> kstep S l = Some (S', g, c) -> KNoDup S'.
Proof.
  intros Hi Hn H k. destruct (Nat.eq_dec k (lab_key l)) as [->|Hne].
  - apply kstep_at in H. eapply stepo_nodup; eauto.
  - rewrite (kstep_frame _ _ _ _ _ k H Hne). apply Hn.
Qed.

Lemma kinit_nodup : KNoDup kinit.
Proof. intros k. constructor. Qed.
End Keyed.
