(* C01: the clauses of the property over ALL label sequences of the keyed machine (C01_Model.v), for every rwRatio >= 1,
   and the reduction of the sharded containers to the single map for ANY routing function. *)
From Coq Require Import ZArith List Lia Bool Arith.
Require Import Semap Product C01_Model.
Import ListNotations.
Open Scope Z_scope.

Section Thm.
Variable size : Z.
Hypothesis size_pos : 1 <= size.

Notation kstep := (kstep size).
Notation krun := (krun size).
Notation stepo := (stepo size).
Definition reachable (S : kst) : Prop := exists ls, krun kinit ls = Some S.

Lemma reachable_KInv S : reachable S -> KInv size S.
Proof. intros [ls H]. exact (reachable_inv size size_pos ls S H). Qed.

Lemma reachable_step S l S' g c : reachable S -> kstep S l = Some (S', g, c) -> reachable S'.
Proof.
  intros [ls H] E. exists (ls ++ [l]). revert H. generalize kinit. induction ls as [|l0 ls IH]; intros S0 H; cbn [app krun] in *.
  - inversion H; subst. rewrite E. reflexivity.
  - destruct (C01_Model.kstep size S0 l0) as [[[S1 g1] c1]|]; [|discriminate]. apply IH, H.
Qed.

(* ---------------- tids are unique per key in every reachable state ---------------- *)
Lemma reachable_nodup S : reachable S -> KNoDup S.
Proof.
  intros [ls H]. assert (G : forall ls0 S0 S1, KInv size S0 -> KNoDup S0 -> krun S0 ls0 = Some S1 -> KNoDup S1).
  { clear H. induction ls0 as [|l ls1 IH]; intros S0 S1 Hi Hn H; cbn [C01_Model.krun] in H.
    - inversion H; subst; exact Hn.
    - destruct (kstep S0 l) as [[[S2 g] c]|] eqn:E; [|discriminate].
      apply (IH S2 S1); auto.
      + eapply kstep_inv; eauto.
      + eapply kstep_nodup; eauto. }
  apply (G ls kinit S); auto.
  - intros k. apply init_inv.
  - intros k. constructor.
Qed.

(* ---------------- accounting ---------------- *)
Theorem semap_accounting S k : reachable S ->
  match ent (S k) with
  | Some e => cur e = sumw (held (S k)) /\ 0 < cur e <= size
  | None => held (S k) = [] /\ qof (S k) = []
  end.
Proof.
  intros HR. destruct (reachable_KInv S HR k) as [_ He]. unfold qof. destruct (ent (S k)) as [e|]; [|auto]. tauto.
Qed.

(* every holder / waiter asks for 1 token (reader) or rwRatio tokens (writer) *)
Definition kind_w (p : nat * Z) : Prop := snd p = 1 \/ snd p = size.
Definition WInv (s : st) : Prop := Forall kind_w (held s) /\ Forall kind_w (qof s).

Lemma Forall_remove_first {P : nat * Z -> Prop} t l : Forall P l -> Forall P (remove_first t l).
Proof. induction 1 as [|[t' n] l Hx Hl IH]; cbn; [constructor|]. destruct (Nat.eqb t' t); auto. Qed.
Lemma Forall_remove_t {P : nat * Z -> Prop} t l : Forall P l -> Forall P (remove_t t l).
Proof. unfold remove_t. rewrite !Forall_forall. intros H x Hx. apply filter_In in Hx. apply H, Hx. Qed.

Lemma stepo_winv s l s' g c : Inv size s -> WInv s -> (match l with Acq _ n => n = 1 \/ n = size | _ => True end) ->
  stepo s l = Some (s', g, c) -> WInv s'.
Proof.
  intros Hi [Hh Hq] Hl H. unfold WInv. destruct l as [t n|t|t].
  - apply (stepo_acq size _ _ _ _ _ _ Hi) in H as (_ & [(_ & Hq0 & _ & -> & ->)|(_ & _ & -> & ->)]).
    + split; [apply Forall_app; split; auto|constructor].
    + split; auto. apply Forall_app; split; auto.
  - apply (stepo_cancel size _ _ _ _ _ Hi) in H as [(n & _ & _ & gw & _ & Hr & ->)|(_ & _ & -> & _)]; [|split; auto].
    pose proof (Forall_remove_t t _ Hq) as Hq'. rewrite Hr in Hq'. apply Forall_app in Hq' as [Hg Hw].
    split; auto. apply Forall_app; split; auto.
  - apply (stepo_rel size _ _ _ _ _ Hi) in H as (_ & n & gw & _ & _ & Hq0 & ->).
    rewrite Hq0 in Hq. apply Forall_app in Hq as [Hg Hw].
    split; auto. apply Forall_app; split; auto. now apply Forall_remove_first.
Qed.

Lemma reachable_winv S : reachable S -> forall k, WInv (S k).
Proof.
  intros [ls H]. assert (G : forall ls0 S0 S1, KInv size S0 -> (forall k, WInv (S0 k)) -> krun S0 ls0 = Some S1 -> forall k, WInv (S1 k)).
  { clear H. induction ls0 as [|l ls1 IH]; intros S0 S1 Hi Hn H; cbn [C01_Model.krun] in H.
    - inversion H; subst; exact Hn.
    - destruct (kstep S0 l) as [[[S2 g] c]|] eqn:E; [|discriminate].
      apply (IH S2 S1); auto.
      + eapply kstep_inv; eauto.
      + intros k. destruct (Nat.eq_dec k (lab_key l)) as [->|Hne].
        * apply kstep_at in E. eapply stepo_winv; eauto. destruct l as [t k0 w|t k0|t k0]; cbn; auto.
          destruct w; cbn; auto.
        * rewrite (kstep_frame size _ _ _ _ _ k E Hne). apply Hn. }
  apply (G ls kinit S); auto.
  - intros k. apply init_inv.
  - intros k. split; constructor.
Qed.

(* ---------------- exclusion ---------------- *)
Lemma wf_len_sum l : wf_w size l -> Z.of_nat (length l) <= sumw l.
Proof.
  unfold wf_w, sumw. induction 1 as [|[t n] l Hx Hl IH]; cbn [length fold_right snd]; [cbn; lia|].
  rewrite Nat2Z.inj_succ. cbn in Hx. lia.
Qed.
Lemma wf_in_sum l p : wf_w size l -> In p l -> snd p + Z.of_nat (length l) - 1 <= sumw l.
Proof.
  unfold wf_w. induction 1 as [|[t n] l Hx Hl IH]; intros Hin; [destruct Hin|].
  change (sumw ((t, n) :: l)) with (n + sumw l). cbn [length]. rewrite Nat2Z.inj_succ. cbn in Hx.
  destruct Hin as [<-|Hin].
  - pose proof (wf_len_sum l Hl). cbn. lia.
  - specialize (IH Hin). lia.
Qed.
Lemma inv_sum_le s : Inv size s -> sumw (held s) <= size.
Proof.
  intros [Hh He]. destruct (ent s) as [e|]; [destruct He as (-> & ? & _); lia | rewrite He; cbn; lia].
Qed.

(* the callers that have acquired a key and not released it are exactly one writer, or at most rwRatio readers *)
Theorem semap_exclusion S k : reachable S ->
  (exists t, held (S k) = [(t, size)]) \/
  (Forall (fun p => snd p = 1) (held (S k)) /\ Z.of_nat (length (held (S k))) <= size).
Proof.
  intros HR. pose proof (reachable_KInv S HR k) as Hi. destruct (reachable_winv S HR k) as [Hk _].
  pose proof (inv_sum_le _ Hi) as Hsum. destruct Hi as [Hh _].
  destruct (Exists_dec (fun p => snd p = size) (held (S k))) as [Hex|Hno].
  { intros p. apply Z.eq_dec. }
  - left. apply Exists_exists in Hex as ([t n] & Hin & Hn). cbn in Hn. subst n. exists t.
    pose proof (wf_in_sum _ _ Hh Hin) as Hb. cbn [snd] in Hb.
    destruct (held (S k)) as [|x [|y r]]; [destruct Hin| |cbn [length] in Hb; lia].
    destruct Hin as [->|[]]. reflexivity.
  - right. split.
    + rewrite Forall_forall in *. intros p Hp. destruct (Hk p Hp) as [H1|H1]; auto.
      exfalso. apply Hno. apply Exists_exists. eauto.
    + pose proof (wf_len_sum _ Hh). lia.
Qed.

(* a writer among the holders is alone (also when rwRatio = 1, where every caller is one) *)
Theorem semap_writer_alone S k t : reachable S -> In (t, size) (held (S k)) -> held (S k) = [(t, size)].
Proof.
  intros HR Hin. pose proof (reachable_KInv S HR k) as Hi. pose proof (inv_sum_le _ Hi) as Hsum. destruct Hi as [Hh _].
  pose proof (wf_in_sum _ _ Hh Hin) as Hb. cbn [snd] in Hb.
  destruct (held (S k)) as [|x [|y r]]; [destruct Hin| |cbn [length] in Hb; lia].
  destruct Hin as [->|[]]. reflexivity.
Qed.

(* ---------------- FIFO: one step ---------------- *)
(* arrival: admitted at once only when nobody waits and the tokens are there; otherwise appended at the tail *)
Theorem semap_fifo_arrival S t k w S' g c : reachable S -> kstep S (LAcq t k w) = Some (S', g, c) ->
  c = [] /\
  ((g = [t] /\ qof (S k) = [] /\ wt size w <= size - sumw (held (S k)) /\
      held (S' k) = held (S k) ++ [(t, wt size w)] /\ qof (S' k) = [])
   \/ (g = [] /\ (qof (S k) <> [] \/ size - sumw (held (S k)) < wt size w) /\
      held (S' k) = held (S k) /\ qof (S' k) = qof (S k) ++ [(t, wt size w)])).
Proof.
  intros HR H. apply kstep_at in H. cbn [lab_key lab_sem] in H.
  apply (stepo_acq size _ _ _ _ _ _ (reachable_KInv S HR k) H).
Qed.

(* whoever arrives while someone is waiting queues behind them: readers cannot overtake a waiting writer *)
Theorem semap_arrival_behind_waiter_queues S t k w S' g c : reachable S -> qof (S k) <> [] ->
  kstep S (LAcq t k w) = Some (S', g, c) -> g = [] /\ qof (S' k) = qof (S k) ++ [(t, wt size w)] /\ held (S' k) = held (S k).
Proof.
  intros HR Hq H. destruct (semap_fifo_arrival _ _ _ _ _ _ _ HR H) as (_ & [(_ & Hq0 & _)|(-> & _ & -> & ->)]); [congruence|auto].
Qed.

(* release: the callers admitted are a prefix of the queue, in queue order *)
Theorem semap_fifo_release S t k S' g c : reachable S -> kstep S (LRel t k) = Some (S', g, c) ->
  c = [] /\ exists n gw, lookup t (held (S k)) = Some n /\ g = map fst gw /\
     qof (S k) = gw ++ qof (S' k) /\ held (S' k) = remove_first t (held (S k)) ++ gw.
Proof.
  intros HR H. apply kstep_at in H. cbn [lab_key lab_sem] in H.
  apply (stepo_rel size _ _ _ _ _ (reachable_KInv S HR k) H).
Qed.

(* cancellation of a queued caller: it leaves the queue with the context error and the callers admitted are a prefix
   of the remaining queue; cancellation of a caller that already holds changes nothing *)
Theorem semap_fifo_cancel S t k S' g c : reachable S -> kstep S (LCancel t k) = Some (S', g, c) ->
  (exists n, lookup t (qof (S k)) = Some n /\ c = [t] /\ exists gw, g = map fst gw /\
       remove_t t (qof (S k)) = gw ++ qof (S' k) /\ held (S' k) = held (S k) ++ gw)
  \/ (lookup t (qof (S k)) = None /\ (exists n, lookup t (held (S k)) = Some n) /\ S' k = S k /\ g = [] /\ c = []).
Proof.
  intros HR H. apply kstep_at in H. cbn [lab_key lab_sem] in H.
  apply (stepo_cancel size _ _ _ _ _ (reachable_KInv S HR k) H).
Qed.

(* no missed hand-off at rest: the head of the queue does not fit beside the holders *)
Theorem semap_head_blocked_only_if_unfit S k t n r : reachable S -> qof (S k) = (t, n) :: r ->
  size - sumw (held (S k)) < n.
Proof.
  intros HR Hq. destruct (reachable_KInv S HR k) as [_ He]. unfold qof in Hq. destruct (ent (S k)) as [e|]; [|discriminate].
  destruct He as (Hc & _ & _ & Hu). rewrite Hq in Hu. cbn in Hu. lia.
Qed.

(* ---------------- FIFO over histories: nobody overtakes ---------------- *)
Definition before (t1 t2 : nat) (W : list (nat * Z)) : Prop :=
  exists A B C n1 n2, W = A ++ (t1, n1) :: B ++ (t2, n2) :: C.

Lemma in_fst {A B} (x : A * B) l : In x l -> In (fst x) (map fst l).
Proof. intros H. apply in_map_iff. eauto. Qed.

Lemma nodup_app_disj {A} (l1 l2 : list A) x : NoDup (l1 ++ l2) -> In x l1 -> In x l2 -> False.
Proof.
  induction l1 as [|y l1 IH]; cbn; [tauto|]. intros Hn [->|H1] H2.
  - inversion Hn as [|? ? Hx _]; subst. apply Hx. apply in_or_app. auto.
  - inversion Hn; subst. eauto.
Qed.

(* in a duplicate-free queue split as gw ++ w', an element of gw has everything in front of it in gw as well *)
Lemma prefix_closed (A B C gw w' : list (nat * Z)) x y :
  NoDup (map fst (gw ++ w')) -> A ++ x :: B ++ y :: C = gw ++ w' -> In (fst y) (map fst gw) -> In (fst x) (map fst gw).
Proof.
  intros Hn E Hy.
  assert (E' : (A ++ x :: B) ++ y :: C = gw ++ w') by (rewrite <- app_assoc; exact E).
  apply app_eq_app in E' as [l [[E1 E2]|[E1 E2]]].
  - exfalso. rewrite map_app in Hn. apply (nodup_app_disj _ _ (fst y) Hn Hy). rewrite E2. apply in_fst. apply in_or_app. right. left. reflexivity.
  - rewrite E1. apply in_fst. rewrite <- app_assoc. apply in_or_app. right. left. reflexivity.
Qed.

Lemma before_split (A B C gw w' : list (nat * Z)) x y :
  A ++ x :: B ++ y :: C = gw ++ w' -> In x gw \/ exists A', w' = A' ++ x :: B ++ y :: C.
Proof.
  intros E. apply app_eq_app in E as [l [[E1 E2]|[E1 E2]]].
  - right. exists l. exact E2.
  - destruct l as [|x' l].
    + right. exists []. cbn in *. now rewrite <- E2.
    + left. cbn in E2. inversion E2; subst. apply in_or_app. right. left. reflexivity.
Qed.

Lemma remove_t_app t a b : remove_t t (a ++ b) = remove_t t a ++ remove_t t b.
Proof. unfold remove_t. apply filter_app. Qed.
Lemma remove_t_keep t t' n l : t' <> t -> remove_t t ((t', n) :: l) = (t', n) :: remove_t t l.
Proof. intros H. unfold remove_t. cbn. apply Nat.eqb_neq in H. now rewrite H. Qed.

Lemma nodup_app_r {A} (a b : list A) : NoDup (a ++ b) -> NoDup b.
Proof. induction a as [|x a IH]; cbn; auto. intros H. inversion H; auto. Qed.
Lemma tids_q_nodup s : NoDup (tids s) -> NoDup (map fst (qof s)).
Proof. unfold tids. rewrite map_app. apply nodup_app_r. Qed.

(* if t2 is admitted in a step while t1 stands in front of it, t1 is admitted in the same step (or it is t1 whose
   context ended in this step) *)
Theorem semap_no_overtaking S l S' g c k t1 t2 : reachable S -> before t1 t2 (qof (S k)) ->
  kstep S l = Some (S', g, c) -> lab_key l = k -> In t2 g -> In t1 g \/ In t1 c.
Proof.
  intros HR (A & B & C & n1 & n2 & HW) H Hk Hin. subst k.
  pose proof (reachable_KInv S HR (lab_key l)) as Hi.
  pose proof (tids_q_nodup _ (reachable_nodup S HR (lab_key l))) as Hn.
  apply kstep_at in H. destruct l as [t k w|t k|t k]; cbn [lab_key lab_sem] in *.
  - apply (stepo_acq size _ _ _ _ _ _ Hi) in H as (_ & [(_ & Hq & _)|(-> & _)]); [|destruct Hin].
    rewrite Hq in HW. destruct A; discriminate.
  - apply (stepo_cancel size _ _ _ _ _ Hi) in H as [(n & _ & -> & gw & -> & Hr & _)|(_ & _ & _ & -> & _)]; [|destruct Hin].
    destruct (Nat.eq_dec t1 t) as [->|Hne1]; [right; left; reflexivity|left].
    assert (Hne2 : t2 <> t).
    { intros ->. assert (Hx : In t (map fst (remove_t t (qof (S k))))) by (rewrite Hr, map_app; apply in_or_app; auto).
      rewrite remove_t_fst in Hx. apply filter_In in Hx as [_ Hx]. rewrite Nat.eqb_refl in Hx. discriminate. }
    rewrite HW in Hr. rewrite remove_t_app, (remove_t_keep t t1) in Hr by auto.
    rewrite remove_t_app, (remove_t_keep t t2) in Hr by auto.
    assert (Hn' : NoDup (map fst (gw ++ qof (S' k)))).
    { rewrite <- Hr. rewrite <- (remove_t_keep t t2 n2) by auto. rewrite <- remove_t_app.
      rewrite <- (remove_t_keep t t1 n1) by auto. rewrite <- remove_t_app. rewrite <- HW.
      rewrite remove_t_fst. apply NoDup_filter. exact Hn. }
    apply (prefix_closed _ _ _ _ _ (t1, n1) (t2, n2) Hn' Hr Hin).
  - apply (stepo_rel size _ _ _ _ _ Hi) in H as (_ & n & gw & _ & -> & Hq & _). left.
    rewrite Hq in Hn. rewrite HW in Hq.
    apply (prefix_closed _ _ _ _ _ (t1, n1) (t2, n2) Hn Hq Hin).
Qed.

(* the order of two queued callers is kept until the first of them leaves *)
Theorem semap_order_kept S l S' g c k t1 t2 : reachable S -> before t1 t2 (qof (S k)) ->
  kstep S l = Some (S', g, c) -> l <> LCancel t1 k -> l <> LCancel t2 k ->
  before t1 t2 (qof (S' k)) \/ In t1 g.
Proof.
  intros HR (A & B & C & n1 & n2 & HW) H Hc1 Hc2.
  destruct (Nat.eq_dec k (lab_key l)) as [->|Hne].
  2:{ left. rewrite (kstep_frame size _ _ _ _ _ k H Hne). exists A, B, C, n1, n2. exact HW. }
  pose proof (reachable_KInv S HR (lab_key l)) as Hi.
  apply kstep_at in H. destruct l as [t k w|t k|t k]; cbn [lab_key lab_sem] in *.
  - apply (stepo_acq size _ _ _ _ _ _ Hi) in H as (_ & [(_ & Hq & _)|(_ & _ & _ & Hq')]).
    + rewrite Hq in HW. destruct A; discriminate.
    + left. rewrite Hq', HW. exists A, B, (C ++ [(t, wt size w)]), n1, n2.
      rewrite <- !app_assoc. cbn. rewrite <- !app_assoc. reflexivity.
  - apply (stepo_cancel size _ _ _ _ _ Hi) in H as [(n & _ & _ & gw & -> & Hr & _)|(_ & _ & -> & _)].
    2:{ left. exists A, B, C, n1, n2. exact HW. }
    assert (Hne1 : t1 <> t) by (intros ->; apply Hc1; reflexivity).
    assert (Hne2 : t2 <> t) by (intros ->; apply Hc2; reflexivity).
    rewrite HW in Hr. rewrite remove_t_app, (remove_t_keep t t1) in Hr by auto.
    rewrite remove_t_app, (remove_t_keep t t2) in Hr by auto.
    apply before_split in Hr as [Hin|[A' Hw']].
    + right. apply (in_fst (t1, n1)). exact Hin.
    + left. exists A', (remove_t t B), (remove_t t C), n1, n2. exact Hw'.
  - apply (stepo_rel size _ _ _ _ _ Hi) in H as (_ & n & gw & _ & -> & Hq & _).
    rewrite HW in Hq. apply before_split in Hq as [Hin|[A' Hw']].
    + right. apply (in_fst (t1, n1)). exact Hin.
    + left. exists A', B, C, n1, n2. exact Hw'.
Qed.

(* over whole histories: of two callers queued on a key, the one behind is never admitted before the one in front has
   been admitted or has left with the context error *)
Fixpoint ktrace (S : kst) (ls : list lab) : option (kst * list (lab * list nat * list nat)) :=
  match ls with
  | [] => Some (S, [])
  | l :: ls' => match kstep S l with
                | Some (S', g, c) => match ktrace S' ls' with Some (S2, tr) => Some (S2, (l, g, c) :: tr) | None => None end
                | None => None
                end
  end.
Fixpoint granted_on (k t : nat) (tr : list (lab * list nat * list nat)) : Prop :=
  match tr with [] => False | (l, g, _) :: r => (lab_key l = k /\ In t g) \/ granted_on k t r end.
Fixpoint served_first (k t1 t2 : nat) (tr : list (lab * list nat * list nat)) : Prop :=
  match tr with
  | [] => False
  | (l, g, c) :: r => (lab_key l = k /\ (In t1 g \/ In t1 c)) \/ (~ (lab_key l = k /\ In t2 g) /\ served_first k t1 t2 r)
  end.

Theorem semap_fifo_history k t1 t2 : forall ls S S' tr, reachable S -> ktrace S ls = Some (S', tr) ->
  before t1 t2 (qof (S k)) -> ~ In (LCancel t2 k) ls -> granted_on k t2 tr -> served_first k t1 t2 tr.
Proof.
  induction ls as [|l ls IH]; intros S S' tr HR H Hb Hnc Hg; cbn [ktrace] in H.
  - inversion H; subst. destruct Hg.
  - destruct (kstep S l) as [[[S1 g] c]|] eqn:E; [|discriminate].
    destruct (ktrace S1 ls) as [[S2 r]|] eqn:Er; [|discriminate]. inversion H; subst; clear H.
    cbn [granted_on served_first] in *.
    assert (HR1 : reachable S1) by (eapply reachable_step; eauto).
    assert (Hnc' : ~ In (LCancel t2 k) ls) by (intros Hx; apply Hnc; now right).
    destruct (Nat.eq_dec (lab_key l) k) as [Hk|Hk].
    + destruct (in_dec Nat.eq_dec t1 g) as [H1|H1]; [left; auto|].
      destruct (in_dec Nat.eq_dec t1 c) as [H2|H2]; [left; auto|].
      right.
      assert (Hn2 : ~ In t2 g).
      { intros Hx. destruct (semap_no_overtaking S l S1 g c k t1 t2 HR Hb E Hk Hx); contradiction. }
      split; [tauto|].
      assert (Hl1 : l <> LCancel t1 k).
      { intros ->. destruct (semap_fifo_cancel _ _ _ _ _ _ HR E) as [(n & _ & -> & _)|(Hl & _)]; [apply H2; now left|].
        destruct Hb as (A & B & C & n1 & n2 & HW). apply lookup_none_notin in Hl. apply Hl. rewrite HW, map_app.
        apply in_or_app. right. left. reflexivity. }
      assert (Hl2 : l <> LCancel t2 k) by (intros ->; apply Hnc; now left).
      destruct (semap_order_kept S l S1 g c k t1 t2 HR Hb E Hl1 Hl2) as [Hb1|Hx]; [|contradiction].
      apply (IH S1 S' r HR1 Er Hb1 Hnc'). destruct Hg as [[_ Hx]|Hx]; [contradiction|exact Hx].
    + right. split; [tauto|].
      apply (IH S1 S' r HR1 Er); auto.
      * rewrite (kstep_frame size _ _ _ _ _ k E); auto.
      * destruct Hg as [[Hx _]|Hx]; [contradiction|exact Hx].
Qed.

(* ---------------- cancellation and holding ---------------- *)
(* an acquire that fails because its context ended holds nothing and waits no longer; the holders are those of before
   plus the callers admitted in this step *)
Theorem semap_cancel_holds_nothing S t k S' g c : reachable S -> kstep S (LCancel t k) = Some (S', g, c) -> In t c ->
  ~ In t (map fst (held (S' k))) /\ ~ In t (map fst (qof (S' k))) /\ ~ In t g.
Proof.
  intros HR H Hc. pose proof (reachable_nodup S HR k) as Hn.
  destruct (semap_fifo_cancel _ _ _ _ _ _ HR H) as [(n & Hl & _ & gw & -> & Hr & Hh)|(_ & _ & _ & _ & ->)]; [|destruct Hc].
  assert (Hx : ~ In t (map fst (gw ++ qof (S' k)))).
  { rewrite <- Hr, remove_t_fst. intros Hx. apply filter_In in Hx as [_ Hx]. rewrite Nat.eqb_refl in Hx. discriminate. }
  rewrite map_app, in_app_iff in Hx.
  assert (Hh0 : ~ In t (map fst (held (S k)))).
  { intros Hin. unfold tids in Hn. rewrite map_app in Hn. apply (nodup_app_disj _ _ t Hn Hin).
    apply lookup_some_in in Hl. apply (in_fst (t, n)). exact Hl. }
  rewrite Hh, map_app, in_app_iff. tauto.
Qed.

Lemma in_remove_first t t' n l : t <> t' -> In (t, n) l -> In (t, n) (remove_first t' l).
Proof.
  intros Hne. induction l as [|[a b] l IH]; cbn; [tauto|]. destruct (Nat.eqb a t') eqn:E.
  - apply Nat.eqb_eq in E. subst. intros [Heq|Hin]; [inversion Heq; congruence|exact Hin].
  - intros [Heq|Hin]; [left; exact Heq|right; auto].
Qed.

(* a successful acquire holds until its own release: no other label removes a holder *)
Theorem semap_success_holds_until_release S l S' g c t n k : reachable S -> In (t, n) (held (S k)) ->
  kstep S l = Some (S', g, c) -> l <> LRel t k -> In (t, n) (held (S' k)).
Proof.
  intros HR Hin H Hl. destruct (Nat.eq_dec k (lab_key l)) as [->|Hne].
  2:{ now rewrite (kstep_frame size _ _ _ _ _ k H Hne). }
  pose proof (reachable_KInv S HR (lab_key l)) as Hi.
  apply kstep_at in H. destruct l as [t0 k w|t0 k|t0 k]; cbn [lab_key lab_sem] in *.
  - apply (stepo_acq size _ _ _ _ _ _ Hi) in H as (_ & [(_ & _ & _ & -> & _)|(_ & _ & -> & _)]); [apply in_or_app|]; auto.
  - apply (stepo_cancel size _ _ _ _ _ Hi) in H as [(n0 & _ & _ & gw & _ & _ & ->)|(_ & _ & -> & _)]; [apply in_or_app|]; auto.
  - apply (stepo_rel size _ _ _ _ _ Hi) in H as (_ & n0 & gw & _ & _ & _ & ->). apply in_or_app. left.
    apply in_remove_first; auto.
Qed.

(* whoever is admitted in a step is a holder after it *)
Theorem semap_granted_holds S l S' g c t : reachable S -> kstep S l = Some (S', g, c) -> In t g ->
  In t (map fst (held (S' (lab_key l)))).
Proof.
  intros HR H Hin. pose proof (reachable_KInv S HR (lab_key l)) as Hi.
  apply kstep_at in H. destruct l as [t0 k w|t0 k|t0 k]; cbn [lab_key lab_sem] in *.
  - apply (stepo_acq size _ _ _ _ _ _ Hi) in H as (_ & [(-> & _ & _ & -> & _)|(-> & _)]); [|destruct Hin].
    destruct Hin as [<-|[]]. rewrite map_app. apply in_or_app. right. left. reflexivity.
  - apply (stepo_cancel size _ _ _ _ _ Hi) in H as [(n0 & _ & _ & gw & -> & _ & ->)|(_ & _ & _ & -> & _)]; [|destruct Hin].
    rewrite map_app. apply in_or_app. auto.
  - apply (stepo_rel size _ _ _ _ _ Hi) in H as (_ & n0 & gw & _ & -> & _ & ->). rewrite map_app. apply in_or_app. auto.
Qed.

(* ---------------- no residue ---------------- *)
Theorem semap_no_residue S k : reachable S -> (ent (S k) <> None <-> held (S k) <> [] \/ qof (S k) <> []).
Proof.
  intros HR. pose proof (semap_accounting S k HR) as Ha. destruct (ent (S k)) as [e|] eqn:Ee.
  - split; [intros _|intros _; discriminate]. left. intros Hh. rewrite Hh in Ha. cbn in Ha. lia.
  - destruct Ha as [-> ->]. split; [congruence|intros [H|H]; congruence].
Qed.

(* waiting implies that somebody holds: a queue never stands in front of a free semaphore *)
Theorem semap_waiters_imply_holder S k : reachable S -> qof (S k) <> [] -> held (S k) <> [].
Proof.
  intros HR Hq Hh. pose proof (reachable_KInv S HR k) as Hi.
  destruct (qof (S k)) as [|[t' n'] r'] eqn:E; [congruence|].
  pose proof (semap_head_blocked_only_if_unfit S k t' n' r' HR E) as Hu. rewrite Hh in Hu. cbn in Hu.
  pose proof (qof_wf size _ Hi) as Hw. rewrite E in Hw. inversion Hw as [|? ? Hy _]; subst. cbn in Hy. lia.
Qed.

(* once every holder has released and nobody waits the container keeps no entry at all *)
Theorem semap_quiescent_empty S : reachable S -> (forall k, held (S k) = [] /\ qof (S k) = []) -> forall k, ent (S k) = None.
Proof.
  intros HR Hq k. destruct (ent (S k)) eqn:E; [|reflexivity]. exfalso.
  assert (Hne : ent (S k) <> None) by congruence. apply (semap_no_residue S k HR) in Hne. destruct (Hq k). tauto.
Qed.

(* a key nobody ever addressed has no entry *)
Theorem semap_untouched_absent ls S k : krun kinit ls = Some S -> (forall l, In l ls -> lab_key l <> k) -> S k = init.
Proof.
  revert S. generalize (eq_refl (kinit k)). generalize kinit at 1 3 as S0.
  induction ls as [|l ls IH]; intros S0 H0 S H Hno; cbn [C01_Model.krun] in H.
  - inversion H; subst. exact H0.
  - destruct (kstep S0 l) as [[[S1 g] c]|] eqn:E; [|discriminate].
    apply (IH S1); auto.
    + rewrite (kstep_frame size _ _ _ _ _ k E); auto. intros Hk. apply (Hno l); auto. now left.
    + intros l' Hin. apply Hno. now right.
Qed.

(* the doomed-request branch of Weighted.acquire (n > size) is unreachable: no call asks for more than rwRatio *)
Theorem semap_doomed_unreachable w : 1 <= wt size w <= size.
Proof. apply wt_ok. exact size_pos. Qed.

(* ---------------- the keyed machine is the product of Appendix AH ---------------- *)
Definition step1 (s : st) (l : label) : option st := option_map (fun x => fst (fst x)) (stepo s l).
Definition to_p (l : lab) : nat * label := (lab_key l, lab_sem size l).

Lemma krun_prun : forall ls S S', krun S ls = Some S' ->
  exists F, prun st label step1 S (map to_p ls) = Some F /\ forall k, F k = S' k.
Proof.
  induction ls as [|l ls IH]; intros S S' H; cbn [C01_Model.krun] in H.
  - inversion H; subst. exists S'. split; [reflexivity|auto].
  - destruct (kstep S l) as [[[S1 g] c]|] eqn:E; [|discriminate].
    destruct (IH _ _ H) as (F & HF & Heq).
    unfold prun. cbn [map fold_left]. unfold pstep at 2. cbn [to_p fst snd]. unfold step1 at 2.
    unfold C01_Model.kstep in E. destruct (stepo (S (lab_key l)) (lab_sem size l)) as [[[s' g0] c0]|]; [|discriminate].
    inversion E; subst. cbn [option_map fst]. exists F. split; [|exact Heq]. exact HF.
Qed.

(* every component of a reachable family state is the per-key machine run on the labels addressed to that key *)
Theorem semap_projection ls S k : krun kinit ls = Some S ->
  run1 st label step1 init (sub label k (map to_p ls)) = Some (S k).
Proof.
  intros H. destruct (krun_prun _ _ _ H) as (F & HF & Heq). rewrite <- Heq.
  apply (projection st label step1 k _ kinit F HF).
Qed.
End Thm.


(* ---------------- non-vacuity ---------------- *)
(* a reader holds, a writer waits, a later reader queues behind the writer; the release admits the writer alone *)
Example writer_not_starved :
  exists X, krun 3 kinit [LAcq 1 0 false; LAcq 2 0 true; LAcq 3 0 false; LRel 1 0] = Some X /\
            held (X 0%nat) = [(2%nat, 3)] /\ qof (X 0%nat) = [(3%nat, 1)].
Proof. eexists. split; [reflexivity|]. split; vm_compute; reflexivity. Qed.

(* the head of the queue is cancelled: the two readers behind it are admitted in that step, in queue order *)
Example cancel_head_hands_over :
  option_map snd (ktrace 3 kinit [LAcq 1 0 false; LAcq 2 0 true; LAcq 3 0 false; LAcq 4 0 false; LCancel 2 0]) =
  Some [(LAcq 1 0 false, [1%nat], []); (LAcq 2 0 true, [], []); (LAcq 3 0 false, [], []); (LAcq 4 0 false, [], []);
        (LCancel 2 0, [3%nat; 4%nat], [2%nat])].
Proof. vm_compute. reflexivity. Qed.

(* ---------------- the sharded containers: any routing function ---------------- *)
Section Wide.
Variable size : Z.
Variable route : nat -> nat.           (* key -> shard: modulo, xxhash partition, anything *)

Definition wst := nat -> kst.          (* shard -> key -> state *)
Definition winit : wst := fun _ => kinit.

(* WideSemMap: calculateKey(key).Acquire* / Release* *)
Definition wstep (W : wst) (l : lab) : option (wst * list nat * list nat) :=
  let i := route (lab_key l) in
  match kstep size (W i) l with
  | Some (S', g, c) => Some (kupd W i S', g, c)
  | None => None
  end.

Fixpoint wruno (W : wst) (ls : list lab) : option (wst * list (list nat * list nat)) :=
  match ls with
  | [] => Some (W, [])
  | l :: ls' => match wstep W l with
                | Some (W', g, c) => match wruno W' ls' with Some (W2, o) => Some (W2, (g, c) :: o) | None => None end
                | None => None
                end
  end.
Fixpoint kruno (S : kst) (ls : list lab) : option (kst * list (list nat * list nat)) :=
  match ls with
  | [] => Some (S, [])
  | l :: ls' => match kstep size S l with
                | Some (S', g, c) => match kruno S' ls' with Some (S2, o) => Some (S2, (g, c) :: o) | None => None end
                | None => None
                end
  end.

(* the sharded state, seen through the routing, is the state of the single map; cells off the route are never touched *)
Definition wrel (W : wst) (S : kst) : Prop :=
  (forall k, W (route k) k = S k) /\ (forall i k, i <> route k -> W i k = init).

Lemma wstep_sim W S l : wrel W S ->
  match wstep W l, kstep size S l with
  | Some (W', g, c), Some (S', g', c') => g = g' /\ c = c' /\ wrel W' S'
  | None, None => True
  | _, _ => False
  end.
Proof.
  intros [H1 H2]. unfold wstep, kstep. rewrite (H1 (lab_key l)).
  destruct (stepo size (S (lab_key l)) (lab_sem size l)) as [[[s' g] c]|]; [|exact I].
  split; [reflexivity|]. split; [reflexivity|]. split.
  - intros k. unfold kupd at 1. destruct (Nat.eqb (route k) (route (lab_key l))) eqn:Er.
    + unfold kupd. destruct (Nat.eqb k (lab_key l)) eqn:Ek; [reflexivity|].
      apply Nat.eqb_eq in Er. rewrite <- Er. apply H1.
    + unfold kupd. destruct (Nat.eqb k (lab_key l)) eqn:Ek; [|apply H1].
      apply Nat.eqb_eq in Ek. subst. rewrite Nat.eqb_refl in Er. discriminate.
  - intros i k Hne. unfold kupd at 1. destruct (Nat.eqb i (route (lab_key l))) eqn:Ei; [|apply H2; exact Hne].
    apply Nat.eqb_eq in Ei. subst i. unfold kupd. destruct (Nat.eqb k (lab_key l)) eqn:Ek.
    + apply Nat.eqb_eq in Ek. subst. congruence.
    + apply H2. exact Hne.
Qed.

(* for every label sequence the sharded container returns exactly what the single map returns (who is admitted and
   who is cancelled at every step), is enabled exactly when the single map is, and its state is the single map's
   state spread over the shards *)
Theorem semap_wide : forall ls W S, wrel W S ->
  match wruno W ls, kruno S ls with
  | Some (W', o), Some (S', o') => o = o' /\ wrel W' S'
  | None, None => True
  | _, _ => False
  end.
Proof.
  induction ls as [|l ls IH]; intros W S HR; cbn [wruno kruno]; [split; [reflexivity|exact HR]|].
  pose proof (wstep_sim W S l HR) as Hs.
  destruct (wstep W l) as [[[W1 g] c]|], (kstep size S l) as [[[S1 g'] c']|]; try contradiction; [|exact I].
  destruct Hs as (-> & -> & HR1). specialize (IH W1 S1 HR1).
  destruct (wruno W1 ls) as [[W2 o]|], (kruno S1 ls) as [[S2 o']|]; try contradiction; [|exact I].
  destruct IH as [-> HR2]. split; [reflexivity|exact HR2].
Qed.

Lemma winit_rel : wrel winit kinit.
Proof. split; reflexivity. Qed.

Lemma kruno_krun : forall ls S S' o, kruno S ls = Some (S', o) -> krun size S ls = Some S'.
Proof.
  induction ls as [|l ls IH]; intros S S' o H; cbn [kruno krun] in *; [inversion H; reflexivity|].
  destruct (kstep size S l) as [[[S1 g] c]|]; [|discriminate].
  destruct (kruno S1 ls) as [[S2 o2]|] eqn:E; [|discriminate]. inversion H; subst. apply (IH _ _ _ E).
Qed.

(* hence every per-key statement above holds in every shard of every reachable sharded state, and a shard holds
   entries only for keys routed to it (VerifEntries summed over the shards counts each live key once) *)
Theorem semap_wide_inv ls W o : 1 <= size -> wruno winit ls = Some (W, o) ->
  (forall i k, Inv size (W i k)) /\ (forall i k, ent (W i k) <> None -> i = route k).
Proof.
  intros Hs H. pose proof (semap_wide ls winit kinit winit_rel) as Hw. rewrite H in Hw.
  destruct (kruno kinit ls) as [[S o']|] eqn:E; [|contradiction]. destruct Hw as [_ [H1 H2]].
  pose proof (reachable_inv size Hs ls S (kruno_krun _ _ _ _ E)) as Hi.
  split.
  - intros i k. destruct (Nat.eq_dec i (route k)) as [->|Hne]; [rewrite H1; apply Hi|rewrite (H2 i k Hne); apply init_inv].
  - intros i k Hp. destruct (Nat.eq_dec i (route k)) as [->|Hne]; [reflexivity|]. rewrite (H2 i k Hne) in Hp. cbn in Hp. congruence.
Qed.
End Wide.
