(* C13: what the driver evaluates on every observed case *)
From Coq Require Import List Bool ZArith.
Require Export C13_Cond C13_Pri.
Require Import C13_CondSound C13_PriProofs.
Import ListNotations.

(* one forced schedule on one condition-variable queue (q.Q, async.Q, mux.Q: KPipe; mq.MQ: KMQ; syncq.SyncQueue:
   KSync), or on one priq.PriQueue: the fully resolved label sequence, the result of every call, and what was
   observed at every quiescent point *)
Inductive case :=
| CCond (c : cfg) (tr : list event)
| CPri (cap : Z) (n : nat) (tr : list pevent).

(* the implementation behaved exactly as a run of the model: the label sequence is enabled step by step, every call
   returned what the model returns, every quiescent observation (who has returned what, who is parked, Len /
   IsClosed / len(WaitCh())) is the one the model state implies *)
Definition case_accept (c : case) : bool :=
  match c with
  | CCond g tr => cond_accept g tr
  | CPri cap n tr => pri_accept cap n tr
  end.

(* the property's clauses on the observations alone *)
Definition case_holds (c : case) : bool :=
  match c with
  | CCond g tr => cond_holds g tr
  | CPri cap n tr => pri_holds tr
  end.

Theorem case_sound : forall c, case_accept c = true -> case_holds c = true.
Proof.
  intros [g tr|cap n tr] H; cbn in *; [now apply cond_accept_sound|now apply (pri_accept_sound cap n)].
Qed.
