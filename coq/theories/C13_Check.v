(* C13: what the driver evaluates on every observed case *)
From Coq Require Import List Bool ZArith.
Require Export C13_Cond C13_Pri.
Require Import C13_CondSound C13_PriProofs.
Import ListNotations.

(* one forced schedule on one condition-variable queue (q.Q, async.Q, mux.Q: KPipe; mq.MQ: KMQ; syncq.SyncQueue:
   KSync), or on one priq.PriQueue: the fully resolved label sequence, the result of every call, and what was
   observed at every quiescent point *)
(* the observation that ends (or interrupts) a protocol-following stress run - consumers running the documented
   protocol for millions of rounds, a producer adding the next item the moment the previous one was taken: how many
   items were accepted and not yet taken, how many of the consumers were positively seen parked (in cond.Wait inside
   the queue's package / in the select on WaitCh()) while no call was in progress, and whether the wait channel was
   readable (PriQueue; false for the condition-variable queues) *)
Record stress := { s_rounds : Z; s_consumers : nat; s_outstanding : nat; s_parked : nat; s_token : bool }.

(* what the models allow at such a point (c13_quiescent_parked_means_open_empty, c13_pri_no_lost_wakeup): an item is
   outstanding only if some consumer is not parked, or the token is readable *)
Definition stress_ok (o : stress) : bool :=
  Nat.eqb (s_outstanding o) 0 || s_token o || Nat.ltb (s_parked o) (s_consumers o).

(* compact traces: a run of n accepted ordinary adds (AddReq / Add / Push, or the last attempt of their ...Anyway
   variant) of the items x0, x0+1, ..., each answered o (OAdd AOk; ONone for SyncQueue.Push), is written CAdds o x0 n
   and stands for exactly those n labelled events *)
Inductive cev := CE (e : event) | CAdds (o : out) (x0 : Z) (n : nat).
Fixpoint adds_run (o : out) (x : Z) (n : nat) : list event :=
  match n with O => [] | S m => ELab (LAdd x None) o :: adds_run o (x + 1)%Z m end.
Definition expand (l : list cev) : list event :=
  flat_map (fun c => match c with CE e => [e] | CAdds o x n => adds_run o x n end) l.

Inductive case :=
| CCondR (c : cfg) (ctr : list cev)
| CCond (c : cfg) (tr : list event)
| CPri (cap : Z) (n : nat) (tr : list pevent)
| CStress (pri : bool) (o : stress).

(* the implementation behaved exactly as a run of the model: the label sequence is enabled step by step, every call
   returned what the model returns, every quiescent observation (who has returned what, who is parked, Len /
   IsClosed / len(WaitCh())) is the one the model state implies *)
Definition case_accept (c : case) : bool :=
  match c with
  | CCondR g ctr => cond_accept g (expand ctr)
  | CCond g tr => cond_accept g tr
  | CPri cap n tr => pri_accept cap n tr
  | CStress _ o => stress_ok o
  end.

(* the property's clauses on the observations alone *)
Definition case_holds (c : case) : bool :=
  match c with
  | CCondR g ctr => cond_holds g (expand ctr)
  | CCond g tr => cond_holds g tr
  | CPri cap n tr => pri_holds tr
  | CStress _ o => stress_ok o
  end.

Theorem case_sound : forall c, case_accept c = true -> case_holds c = true.
Proof.
  intros [g ctr|g tr|cap n tr|pri o] H; cbn in *;
    [now apply cond_accept_sound|now apply cond_accept_sound|now apply (pri_accept_sound cap n)|exact H].
Qed.
