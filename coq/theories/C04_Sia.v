(* C04: SetIfAbsent-only bursts.  When the only writes are SetIfAbsent calls and the capacity holds every key of the
   universe with the largest value, EVERY linearisation of the calls behaves as a first-insert-wins map: the first
   SetIfAbsent of a key decides its value, no later call replaces or evicts it, every Get / Peek answers from that map,
   the eviction counter stays 0 and Size is the sum of the winners' sizes.  This is what sia_ok (C04_Check.v) reads off a
   burst: per key, all reads that followed a SetIfAbsent and the value at quiescence are one and the same value. *)
From Coq Require Import ZArith List Lia Bool.
Require Import LRU Shard Cases_Common LRUOps C04_Model C04_Refine C04_Wide C04_Theorems C04_Check C04_Burst.
Import ListNotations.
Open Scope Z_scope.

(* ---------------- the first-insert-wins map ---------------- *)
Definition fmap := list (Z * (Z * Z)).                       (* key -> (value, size), latest insert first *)
Definition assoc (k : Z) (m : fmap) : option (Z * Z) := option_map snd (find (fun p => fst p =? k) m).
Definition fstep (m : fmap) (o : op) : fmap * res :=
  match o with
  | SetIfAbsent k x s => (match assoc k m with Some _ => m | None => (k, (x, s)) :: m end, RUnit)
  | Get k | Peek k => (m, RVal (option_map fst (assoc k m)))
  | Exist k => (m, RBool (is_some (assoc k m)))
  | _ => (m, RUnit)
  end.
Fixpoint frun (m : fmap) (ops : list op) : fmap * list res :=
  match ops with [] => (m, []) | o :: r => let '(m1, x) := fstep m o in let '(m2, xs) := frun m1 r in (m2, x :: xs) end.

(* a present key is never replaced *)
Lemma fstep_stable m o k p : assoc k m = Some p -> assoc k (fst (fstep m o)) = Some p.
Proof.
  intros H. destruct o as [k0|k0|k0|k0 x s|k0 x s|k0 x s|k0| |c0]; cbn [fstep fst]; try exact H.
  destruct (assoc k0 m) eqn:E0; [exact H|]. unfold assoc in *. cbn [find fst].
  destruct (k0 =? k) eqn:Ek; [apply Z.eqb_eq in Ek; subst; rewrite H in E0; discriminate|exact H].
Qed.
Lemma frun_stable ops : forall m k p, assoc k m = Some p -> assoc k (fst (frun m ops)) = Some p.
Proof.
  induction ops as [|o ops IH]; intros m k p H; [exact H|]. cbn [frun].
  pose proof (fstep_stable m o k p H) as H1. destruct (fstep m o) as [m1 x]. cbn [fst] in H1.
  specialize (IH m1 k p H1). destruct (frun m1 ops) as [m2 xs]. exact IH.
Qed.

(* ---------------- the calls of such a burst ---------------- *)
Section Sia.
Variables (v : variant) (univ : list Z) (smax cap0 : Z).
Hypothesis Hsmax : 0 <= smax.
Hypothesis Hfits : Z.of_nat (length univ) * smax <= cap0.

(* as the variant sees it: SetIfAbsent of a key of the universe with a size in [0, smax], or a read *)
Definition sia_op (o : op) : Prop :=
  match norm v o with
  | SetIfAbsent k _ s => In k univ /\ 0 <= s <= smax
  | Get _ | Peek _ | Exist _ => True
  | _ => False
  end.

Definition pairof (e : E) : Z * Z := (valof e, snd e).
Definition SInv (s : istate) (m : fmap) : Prop :=
  icap s = cap0 /\ snd s = 0 /\
  (forall k, option_map pairof (lookup k (ilist s)) = assoc k m) /\
  Forall (fun e => In (keyof e) univ /\ 0 <= snd e <= smax) (ilist s).

Lemma zsum_const (l : list Z) c : zsum (map (fun _ => c) l) = Z.of_nat (length l) * c.
Proof. induction l as [|x l IH]; [reflexivity|]. cbn [map length]. unfold zsum in *. cbn [fold_right]. rewrite IH. lia. Qed.

Lemma total_le_cap (l : list E) : NoDup (map keyof l) -> Forall (fun e => In (keyof e) univ /\ 0 <= snd e <= smax) l -> total l <= cap0.
Proof.
  intros Hk Hall. assert (Ht : total l <= zsum (map (fun _ => smax) (map keyof l))).
  { clear Hk. induction Hall as [|e l He _ IH]; [vm_compute; discriminate|]. rewrite total_cons. cbn [map]. unfold zsum in *. cbn [fold_right]. destruct He as [_ He]. lia. }
  pose proof (sum_incl (fun _ => smax) (fun _ => Hsmax) (map keyof l) univ Hk) as Hs.
  rewrite (zsum_const univ) in Hs. assert (Hincl : incl (map keyof l) univ).
  { intros k Hin. apply in_map_iff in Hin. destruct Hin as (e & <- & He). rewrite Forall_forall in Hall. apply (Hall e He). }
  specialize (Hs Hincl). lia.
Qed.

Lemma lookup_remove_other k k' (l : list E) : k' <> k -> lookup k' (remove_key k l) = lookup k' l.
Proof.
  intros Hne. unfold lookup, remove_key. induction l as [|e l IH]; [reflexivity|]. cbn [filter find].
  destruct (keyof e =? k) eqn:Ek; cbn [negb].
  - apply Z.eqb_eq in Ek. replace (keyof e =? k') with false by (symmetry; apply Z.eqb_neq; congruence). exact IH.
  - cbn [find]. destruct (keyof e =? k'); [reflexivity|exact IH].
Qed.
Lemma lookup_front k k' e (l : list E) : lookup k l = Some e -> lookup k' (e :: remove_key k l) = lookup k' l.
Proof.
  intros El. destruct (lookup_some _ _ _ El) as [_ Hk]. unfold lookup. cbn [find].
  destruct (keyof e =? k') eqn:E.
  - apply Z.eqb_eq in E. assert (Ekk : k' = k) by congruence. rewrite Ekk. symmetry. exact El.
  - apply Z.eqb_neq in E. apply (lookup_remove_other k k' l). congruence.
Qed.

Lemma sinv_step l ev m o : NoDup (map keyof l) -> SInv (l, cap0, ev) m -> sia_op o ->
  SInv (fst (istep (l, cap0, ev) (norm v o))) (fst (fstep m (norm v o))) /\
  snd (istep (l, cap0, ev) (norm v o)) = snd (fstep m (norm v o)).
Proof.
  intros Hk (Hc & Hev & Hlk & Hall) Hop. unfold icap, ilist in *. cbn [fst snd] in *. subst ev. unfold sia_op in Hop.
  assert (Hfront : forall k e, lookup k l = Some e -> SInv (e :: remove_key k l, cap0, 0) m).
  { intros k e El. destruct (lookup_some _ _ _ El) as [Hin _]. unfold SInv, icap, ilist. cbn [fst snd].
    split; [reflexivity|]. split; [reflexivity|]. split; [intros k'; rewrite (lookup_front k k' e l El); apply Hlk|].
    constructor; [rewrite Forall_forall in Hall; apply (Hall e Hin)|].
    apply Forall_forall. intros e' He'. rewrite Forall_forall in Hall. apply Hall, (remove_key_incl k l e' He'). }
  assert (Hsame : SInv (l, cap0, 0) m) by (split; [reflexivity|split; [reflexivity|split; assumption]]).
  destruct (norm v o) as [k|k|k|k x s|k x s|k x s|k| |c0]; cbn [istep fstep fst snd]; try contradiction.
  - pose proof (Hlk k) as Hl. destruct (lookup k l) as [e|] eqn:El; cbn [fst snd option_map] in *.
    + split; [apply (Hfront k e El)|]. rewrite <- Hl. reflexivity.
    + split; [exact Hsame|]. rewrite <- Hl. reflexivity.
  - split; [exact Hsame|]. rewrite <- (Hlk k). destruct (lookup k l); reflexivity.
  - split; [exact Hsame|]. rewrite <- (Hlk k). destruct (lookup k l); reflexivity.
  - destruct Hop as [Hku Hs]. pose proof (Hlk k) as Hl. destruct (lookup k l) as [e|] eqn:El; cbn [fst snd option_map] in *.
    + rewrite <- Hl. split; [apply (Hfront k e El)|reflexivity].
    + rewrite <- Hl. split; [|reflexivity]. cbn [settle fst].
      assert (Et : touch k x s l = ((k, x), s) :: l) by (unfold touch; rewrite remove_key_absent by (apply lookup_none_notin, El); reflexivity).
      assert (Hall' : Forall (fun e => In (keyof e) univ /\ 0 <= snd e <= smax) (touch k x s l)) by (rewrite Et; constructor; [cbn; auto|exact Hall]).
      pose proof (total_le_cap _ (nodup_touch k x s l Hk) Hall') as Ht.
      assert (Hn : nonneg (touch k x s l)) by (apply Forall_forall; intros e' He'; rewrite Forall_forall in Hall'; apply (Hall' e' He')).
      assert (Hc0 : 0 <= cap0) by (pose proof (Zle_0_nat (length univ)); nia).
      rewrite (trim_fits KV _ cap0 Hn Hc0 Ht), (dropped_fits _ cap0 Hn Hc0 Ht). cbn [length Z.of_nat]. rewrite Et.
      unfold SInv, icap, ilist. cbn [fst snd]. split; [reflexivity|]. split; [reflexivity|]. split; [|rewrite <- Et; exact Hall'].
      intros k'. unfold lookup, assoc. cbn [find fst]. change (keyof ((k, x), s)) with k.
      destruct (k =? k') eqn:E; [reflexivity|]. apply Hlk.
Qed.

Theorem sia_refines_first_wins ops : forall c m, MInv v c -> SInv (abs c) m -> Forall op_dom ops -> Forall sia_op ops ->
  snd (mrun v c ops) = map Some (snd (frun m (map (norm v) ops))) /\
  MInv v (fst (mrun v c ops)) /\ SInv (abs (fst (mrun v c ops))) (fst (frun m (map (norm v) ops))).
Proof.
  induction ops as [|o ops IH]; intros c m HI HS Hd Hs; [cbn; auto|].
  inversion Hd as [|? ? [Hok Hfit] Hd']; subst. inversion Hs as [|? ? Ho Hs']; subst.
  destruct (mstep_refines v c o HI Hok Hfit) as (A & R & I).
  pose proof HS as (Hc & _). unfold abs, icap in Hc. cbn [fst snd] in Hc.
  assert (Hstep := sinv_step (lst c) (evs c) m o (proj1 (proj2 (proj2 (MInv_Inv _ _ HI)))) ltac:(unfold abs in HS; rewrite Hc in HS; exact HS) Ho).
  unfold abs in A, R. rewrite Hc in A, R. destruct Hstep as [HS1 HR1]. rewrite <- A in HS1. rewrite HR1 in R.
  cbn [mrun map frun]. destruct (mstep v c o) as [c1 x]. cbn [fst snd] in *. destruct (fstep m (norm v o)) as [m1 y]. cbn [fst snd] in *. subst x.
  destruct (IH c1 m1 I HS1 Hd' Hs') as (R' & I' & S'). destruct (mrun v c1 ops) as [c2 xs]. destruct (frun m1 (map (norm v) ops)) as [m2 ys].
  cbn [fst snd map] in *. rewrite R'. auto.
Qed.
End Sia.

(* from a new cache: all outcomes are those of the first-insert-wins map; at quiescence the cache holds, for every key, the
   pair the map holds (the first SetIfAbsent's), nothing was evicted, and the running size is the sum of the entries' sizes
   <= capacity *)
Theorem sia_every_linearisation v univ smax cap0 ops :
  cap_dom cap0 -> 0 <= smax -> Z.of_nat (length univ) * smax <= cap0 ->
  Forall op_dom ops -> Forall (sia_op v univ smax) ops ->
  let c := fst (mrun v (new_lru cap0) ops) in
  let m := fst (frun [] (map (norm v) ops)) in
  snd (mrun v (new_lru cap0) ops) = map Some (snd (frun [] (map (norm v) ops))) /\
  (forall k, option_map pairof (lookup k (lst c)) = assoc k m) /\
  evs c = 0 /\ cap c = cap0 /\ size c = total (lst c) /\ size c <= cap0 /\ NoDup (keys_of c).
Proof.
  intros Hc Hs Hf Hd Hops. cbn zeta.
  assert (HS0 : SInv univ smax cap0 (abs (new_lru cap0)) []).
  { unfold SInv, abs, icap, ilist, new_lru. cbn. repeat split; auto. }
  destruct (sia_refines_first_wins v univ smax cap0 Hs Hf ops (new_lru cap0) [] (new_MInv v cap0 Hc) HS0 Hd Hops) as (R & I & (Sc & Sev & Slk & _)).
  pose proof (MInv_Inv _ _ I) as (Hsz & _ & Hk & _ & Hle). unfold abs, icap, ilist in *. cbn [fst snd] in *.
  split; [exact R|]. split; [exact Slk|]. split; [exact Sev|]. split; [exact Sc|]. split; [exact Hsz|]. split; [lia|exact Hk].
Qed.

Print Assumptions sia_every_linearisation.
Print Assumptions frun_stable.
