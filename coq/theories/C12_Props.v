(* C12 queues: FIFO/priority order, capacity, close semantics - the property, clause by clause, for every history of
   calls (lists of unbounded length), every capacity and every queue type.  Statements closed by `exact` only.
   Models: C12_Pipe.v (q.Q / async.Q / mux.Q), C12_MQ.v (mq.MQ), C12_Sync.v (SyncQueue), C12_Pri.v (PriQueue).
   `h_run step s ops` is the model's history (call, result) for the call list `ops` from state `s`, with the final state;
   `outs h` are the items handed out in the history `h`, in time order. *)
From Coq Require Import ZArith List Bool Sorting.Permutation.
Require Import C12_Base C12_Pipe C12_MQ C12_Sync C12_Pri C12_Check C12_Order C12_MQBound C12_More C12_Runs.
Import ListNotations.

(* ================= the tie: whatever the driver accepts satisfies the monitor ================= *)
Theorem c12_case_sound : forall c, case_accept c = true -> case_holds c = true.
Proof. exact case_sound. Qed.

(* the models satisfy the monitors (the property's clauses, call by call) on EVERY history, every constructor, every size *)
Theorem c12_pipe_model_holds : forall k n ops, p_holds n (fst (h_run p_step (p_new k n) ops)) = true.
Proof. exact p_model_holds. Qed.
Theorem c12_mq_model_holds : forall cm rm ops, m_holds cm rm (fst (h_run m_step (m_new cm rm) ops)) = true.
Proof. exact m_model_holds. Qed.
Theorem c12_sync_model_holds : forall ops, s_holds (fst (h_run s_step s_new ops)) = true.
Proof. exact s_model_holds. Qed.
Theorem c12_pri_model_holds : forall n ops, q_holds n (fst (h_run q_step (q_new n) ops)) = true.
Proof. exact q_model_holds. Qed.

(* ================= pipe queues q.Q / async.Q / mux.Q ================= *)
(* q_bound: an ordinary add to an open queue is refused exactly when the queue is bounded and already holds its capacity;
   otherwise it appends *)
Theorem c12_pipe_add_refused_iff_full : forall s x, closed s = false ->
  (snd (p_add s x) = RFull <-> (0 < cap s /\ cap s <= Z.of_nat (length (items s)))%Z) /\
  (snd (p_add s x) <> RFull -> p_add s x = (set_items s (items s ++ [x]), RDone)).
Proof. exact p_add_refused_iff_full. Qed.
(* a prior add is never refused by the bound and goes to the front *)
Theorem c12_pipe_prior_ignores_bound : forall s x, closed s = false -> p_prior s x = (set_items s (x :: items s), RDone).
Proof. exact p_prior_ignores_bound. Qed.
(* q_prior_front: the prior-added item is the next one handed out, and handing it out restores the queue *)
Theorem c12_pipe_prior_front : forall s x, closed s = false ->
  p_pop true (fst (p_prior s x)) = (set_items s (items s), RItem x) /\
  p_pop false (fst (p_prior s x)) = (set_items s (items s), RItem x).
Proof. exact p_prior_front. Qed.
(* q_closed_refuses: a closed queue refuses every add and is left unchanged *)
Theorem c12_pipe_closed_refuses : forall s x, closed s = true ->
  p_add s x = (s, RClosed) /\ p_add_anyway s x = (s, RClosed) /\ p_prior s x = (s, RClosed).
Proof. exact p_closed_refuses. Qed.
(* q_pop_vs_popanyway_after_close *)
Theorem c12_pipe_pop_after_close : forall s, closed s = true ->
  p_pop true s = (s, RClosed) /\
  match items s with
  | [] => p_pop false s = (s, RClosed)
  | x :: r => p_pop false s = (set_items s r, RItem x)
  end.
Proof. exact p_pop_after_close. Qed.
(* after close PopAnyway hands out exactly the remaining items in order and only then reports closed *)
Theorem c12_pipe_drain_anyway : forall l s, closed s = true -> items s = l ->
  h_run p_step s (repeat PPopAnyway (length l) ++ [PPopAnyway]) =
  (map (fun x => (PPopAnyway, RItem x)) l ++ [(PPopAnyway, RClosed)], set_items s []).
Proof. exact p_drain_anyway. Qed.
(* ... whereas Pop reports closed every time and removes nothing *)
Theorem c12_pipe_pop_closed_keeps : forall n s, closed s = true -> h_run p_step s (repeat PPop n) = (repeat (PPop, RClosed) n, s).
Proof. exact p_pop_closed_keeps. Qed.
(* q_conservation: never loses, duplicates or invents an item - over every history *)
Theorem c12_pipe_conservation : forall k n ops,
  let r := h_run p_step (p_new k n) ops in Permutation (outs (fst r) ++ items (snd r)) (p_accs (fst r)).
Proof. exact p_conservation_new. Qed.
Theorem c12_pipe_no_duplicates : forall k n ops,
  let r := h_run p_step (p_new k n) ops in NoDup (p_accs (fst r)) -> NoDup (outs (fst r) ++ items (snd r)).
Proof. exact p_no_duplicates. Qed.
(* q_fifo: without prior adds, handed out ++ still queued IS the acceptance order (from any state) *)
Theorem c12_pipe_fifo : forall ops s, forallb (fun o => negb (is_prior o)) ops = true ->
  outs (fst (h_run p_step s ops)) ++ items (snd (h_run p_step s ops)) = items s ++ p_accs (fst (h_run p_step s ops)).
Proof. exact p_fifo. Qed.
(* the bound over histories: never more than capacity + number of accepted prior adds *)
Theorem c12_pipe_bound : forall kd n ops, (0 < n)%Z ->
  let r := h_run p_step (p_new kd n) ops in
  (Z.of_nat (length (items (snd r))) <= n + Z.of_nat (p_npriors (fst r)))%Z.
Proof. exact p_bound_new. Qed.
(* closed stays closed: every later add and Pop is refused, nothing more is accepted *)
Theorem c12_pipe_closed_stays : forall ops s, closed s = true ->
  closed (snd (h_run p_step s ops)) = true /\ p_accs (fst (h_run p_step s ops)) = [] /\
  Forall (fun e => match fst e with
                   | PAdd _ | PAddAnyway _ | PPrior _ | PPop => snd e = RClosed
                   | _ => True end) (fst (h_run p_step s ops)).
Proof. exact p_closed_stays. Qed.

(* the specified order stated declaratively, prior adds included (ghost stamps: tag = (came by a prior add, acceptance time)):
   whenever a pop hands out an item in any history, that item is - if it came by a prior add - the most recently accepted
   prior add still pending, and otherwise no prior add is pending and it is the earliest accepted item still pending *)
Theorem c12_pipe_order : forall k n ops,
  Forall (fun e => match e with
                   | (RItem _, Some (g, rest)) => head_spec g rest
                   | (RItem _, None) => False
                   | _ => True
                   end) (t_run (t_new k n) ops).
Proof. exact p_order. Qed.
(* the stamps are ghosts: the stamped run returns exactly the model's results *)
Theorem c12_pipe_order_erasure : forall ops t, map fst (t_run t ops) = map snd (fst (h_run p_step (tst t) ops)).
Proof. exact t_run_results. Qed.

(* ================= the two-level queue mq.MQ ================= *)
(* mq_ctrl_before_req *)
Theorem c12_mq_ctrl_first : forall s x c, ctrl s = x :: c ->
  m_pop_anyway s = (set_lists s c (req s), RItem x) /\ (mclosed s = false -> m_pop s = (set_lists s c (req s), RItem x)).
Proof. exact m_ctrl_first. Qed.
Theorem c12_mq_req_when_no_ctrl : forall s x r, ctrl s = [] -> req s = x :: r ->
  m_pop_anyway s = (set_lists s [] r, RItem x) /\ (mclosed s = false -> m_pop s = (set_lists s [] r, RItem x)).
Proof. exact m_req_when_no_ctrl. Qed.
Theorem c12_mq_add_refused_iff_full : forall s x, mclosed s = false ->
  (snd (m_add_ctrl s x) = RCtrlFull <-> (0 < cmax s /\ cmax s <= Z.of_nat (length (ctrl s)))%Z) /\
  (snd (m_add_req s x) = RFull <-> (0 < rmax s /\ rmax s <= Z.of_nat (length (req s)))%Z) /\
  (snd (m_add_ctrl s x) <> RCtrlFull -> m_add_ctrl s x = (set_lists s (ctrl s ++ [x]) (req s), RDone)) /\
  (snd (m_add_req s x) <> RFull -> m_add_req s x = (set_lists s (ctrl s) (req s ++ [x]), RDone)).
Proof. exact m_add_refused_iff_full. Qed.
Theorem c12_mq_prior_ignores_bound : forall s x, mclosed s = false ->
  m_prior_ctrl s x = (set_lists s (x :: ctrl s) (req s), RDone) /\ m_prior_req s x = (set_lists s (ctrl s) (x :: req s), RDone).
Proof. exact m_prior_ignores_bound. Qed.
Theorem c12_mq_closed_refuses : forall s x, mclosed s = true ->
  m_add_ctrl s x = (s, RClosed) /\ m_add_req s x = (s, RClosed) /\ m_prior_ctrl s x = (s, RClosed) /\ m_prior_req s x = (s, RClosed) /\
  m_step s (MAddCtrlAnyway x) = (s, RClosed) /\ m_step s (MAddReqAnyway x) = (s, RClosed).
Proof. exact m_closed_refuses. Qed.
(* mq_tryclose: on an open queue it succeeds exactly when both lists are empty, a failed attempt changes nothing;
   on a closed queue it reports closed and changes nothing *)
Theorem c12_mq_tryclose : forall s, mclosed s = false ->
  (snd (m_tryclose s) = RFlag true <-> (ctrl s = [] /\ req s = [])) /\
  (snd (m_tryclose s) = RFlag true -> fst (m_tryclose s) = set_flags s true (cleared s)) /\
  (snd (m_tryclose s) <> RFlag true -> m_tryclose s = (s, RFlag false)).
Proof. exact m_tryclose_spec. Qed.
Theorem c12_mq_tryclose_closed : forall s, mclosed s = true -> m_tryclose s = (s, RFlag true).
Proof. exact m_tryclose_closed. Qed.
(* mq_tryclear: succeeds exactly when closed and empty *)
Theorem c12_mq_tryclear : forall s, cleared s = false ->
  (snd (m_tryclear s) = RFlag true <-> (mclosed s = true /\ ctrl s = [] /\ req s = [])) /\
  (snd (m_tryclear s) <> RFlag true -> m_tryclear s = (s, RFlag false)).
Proof. exact m_tryclear_spec. Qed.
Theorem c12_mq_tryclear_cleared : forall s, cleared s = true -> m_tryclear s = (s, RFlag true).
Proof. exact m_tryclear_cleared. Qed.
Theorem c12_mq_cleared_means_closed_and_empty : forall ops cm rm,
  let s := snd (h_run m_step (m_new cm rm) ops) in cleared s = true -> mclosed s = true /\ ctrl s = [] /\ req s = [].
Proof. exact m_cleared_means_closed_and_empty. Qed.
Theorem c12_mq_pop_after_close : forall s, mclosed s = true ->
  m_pop s = (s, RClosed) /\ (snd (m_pop_anyway s) = RClosed <-> (ctrl s = [] /\ req s = [])).
Proof. exact m_pop_after_close. Qed.
Theorem c12_mq_drain_anyway : forall c r s, mclosed s = true -> ctrl s = c -> req s = r ->
  h_run m_step s (repeat MPopAnyway (length c + length r) ++ [MPopAnyway]) =
  (map (fun x => (MPopAnyway, RItem x)) (c ++ r) ++ [(MPopAnyway, RClosed)], set_lists s [] []).
Proof. exact m_drain_anyway. Qed.
Theorem c12_mq_conservation : forall cm rm ops,
  let r := h_run m_step (m_new cm rm) ops in Permutation (outs (fst r) ++ ctrl (snd r) ++ req (snd r)) (m_accs (fst r)).
Proof. exact m_conservation_new. Qed.
(* per-level FIFO over histories (m_levels = the control messages / the requests handed out, each in time order) *)
Theorem c12_mq_fifo : forall ops s, forallb (fun o => negb (m_is_prior o)) ops = true ->
  let r := h_run m_step s ops in
  fst (m_levels s ops) ++ ctrl (snd r) = ctrl s ++ flat_map m_acc1c (fst r) /\
  snd (m_levels s ops) ++ req (snd r) = req s ++ flat_map m_acc1r (fst r).
Proof. exact m_fifo. Qed.
Theorem c12_mq_levels_are_the_outs : forall ops s,
  Permutation (fst (m_levels s ops) ++ snd (m_levels s ops)) (outs (fst (h_run m_step s ops))).
Proof. exact m_levels_outs. Qed.
(* the bounds over histories: a bounded level never holds more than its capacity plus the accepted prior adds to it *)
Theorem c12_mq_bound : forall cm rm ops,
  let r := h_run m_step (m_new cm rm) ops in
  ((0 < cm)%Z -> (Z.of_nat (length (ctrl (snd r))) <= cm + Z.of_nat (length (filter m_prior_c_ok (fst r))))%Z) /\
  ((0 < rm)%Z -> (Z.of_nat (length (req (snd r))) <= rm + Z.of_nat (length (filter m_prior_r_ok (fst r))))%Z).
Proof. exact m_bound_new. Qed.
Theorem c12_mq_closed_stays : forall ops s, mclosed s = true ->
  mclosed (snd (h_run m_step s ops)) = true /\ m_accs (fst (h_run m_step s ops)) = [] /\
  Forall (fun e => match fst e with
                   | MAddCtrl _ | MAddCtrlAnyway _ | MPriorCtrl _ | MAddReq _ | MAddReqAnyway _ | MPriorReq _ | MPop => snd e = RClosed
                   | MTryClose | MIsClosed => snd e = RFlag true
                   | _ => True end) (fst (h_run m_step s ops)).
Proof. exact m_closed_stays. Qed.

(* ================= SyncQueue ================= *)
Theorem c12_sync_closed_drops : forall s x, sclosed s = true -> s_step s (SPush x) = (s, RDone).
Proof. exact s_closed_drops. Qed.
Theorem c12_sync_open_push : forall s x, sclosed s = false -> s_step s (SPush x) = ({| buf := buf s ++ [x]; sclosed := false |}, RDone).
Proof. exact s_open_push. Qed.
Theorem c12_sync_fifo : forall ops s,
  outs (fst (h_run s_step s ops)) ++ buf (snd (h_run s_step s ops)) = buf s ++ s_accs s ops.
Proof. exact s_fifo. Qed.
Theorem c12_sync_closed_stays : forall ops s, sclosed s = true -> sclosed (snd (h_run s_step s ops)) = true /\ s_accs s ops = [].
Proof. exact s_closed_stays. Qed.
(* syncq_drain_then_closed *)
Theorem c12_sync_drain_pop : forall l s, sclosed s = true -> buf s = l ->
  h_run s_step s (repeat SPop (length l) ++ [SPop]) =
  (map (fun x => (SPop, RItem x)) l ++ [(SPop, RClosed)], {| buf := []; sclosed := true |}).
Proof. exact s_drain_pop. Qed.
Theorem c12_sync_drain_trypop : forall l s, sclosed s = true -> buf s = l ->
  h_run s_step s (repeat STryPop (length l) ++ [STryPop]) =
  (map (fun x => (STryPop, RItem x)) l ++ [(STryPop, RClosed)], {| buf := []; sclosed := true |}).
Proof. exact s_drain_trypop. Qed.
Theorem c12_sync_trypop_empty_open : forall s, buf s = [] -> sclosed s = false -> s_step s STryPop = (s, RNone).
Proof. exact s_trypop_empty_open. Qed.

(* ================= PriQueue ================= *)
(* priq_less_strict_total *)
Theorem c12_pri_less_irrefl : forall a, less a a = false.
Proof. exact less_irrefl. Qed.
Theorem c12_pri_less_trans : forall a b c, less a b = true -> less b c = true -> less a c = true.
Proof. exact less_trans. Qed.
Theorem c12_pri_less_total : forall a b, eseq a <> eseq b -> less a b = true \/ less b a = true.
Proof. exact less_total. Qed.
(* what container/heap promises - a Less-minimum - is the highest priority, then the oldest *)
Theorem c12_pri_min_is_highest_then_oldest : forall m l, is_min m l ->
  forall x, In x l -> (epri x <= epri m)%Z /\ (epri x = epri m -> (eseq m <= eseq x)%Z).
Proof. exact min_is_highest_then_oldest. Qed.
(* ... it is unique, the model returns it, hence ANY heap satisfying the contract returns what the model returns *)
Theorem c12_pri_min_unique : forall m m' l, NoDup (map eseq l) -> is_min m l -> is_min m' l -> m = m'.
Proof. exact min_unique. Qed.
Theorem c12_pri_best_is_min : forall l m, seq_sorted l -> best l = Some m -> is_min m l.
Proof. exact best_is_min. Qed.
Theorem c12_pri_heap_contract_determines_pop : forall s m, q_inv s -> is_min m (ents s) -> best (ents s) = Some m.
Proof. exact heap_contract_determines_pop. Qed.
Theorem c12_pri_reachable_inv : forall ops s, q_inv s -> q_inv (snd (h_run q_step s ops)).
Proof. exact q_reachable_inv. Qed.
(* priq_order: Pop hands out an entry of the highest queued priority; everything queued before it has a strictly lower
   priority (first-in-first-out among equals); nothing else moves *)
Theorem c12_pri_pop_order : forall s, q_inv s ->
  match best (ents s) with
  | None => ents s = [] /\ q_step s QPop = (s, RNone)
  | Some m => snd (q_step s QPop) = RItem (eid m) /\
      exists pre post, ents s = pre ++ m :: post /\ ents (fst (q_step s QPop)) = pre ++ post /\
        Forall (fun e => (epri e < epri m)%Z) pre /\ Forall (fun e => (epri e <= epri m)%Z) post /\
        Forall (fun e => (eseq e < eseq m)%Z) pre /\ Forall (fun e => (eseq m < eseq e)%Z) post
  end.
Proof. exact q_pop_order. Qed.
(* the monitor's specified order says the same thing on the observer's side *)
Theorem c12_pri_gtake_spec : forall l m rest, gtake l = Some (m, rest) ->
  exists pre post, l = pre ++ m :: post /\ rest = pre ++ post /\
    Forall (fun e => (fst e < fst m)%Z) pre /\ Forall (fun e => (fst e <= fst m)%Z) post.
Proof. exact gtake_spec. Qed.
(* priq_capacity *)
Theorem c12_pri_push_refused_iff_full : forall s p i,
  (snd (q_step s (QPush p i)) = RFull <-> (qcap s <= Z.of_nat (length (ents s)))%Z) /\
  (snd (q_step s (QPush p i)) <> RFull ->
   snd (q_step s (QPush p i)) = RDone /\ ents (fst (q_step s (QPush p i))) = ents s ++ [{| epri := p; eseq := (cur s + 1)%Z; eid := i |}]).
Proof. exact q_push_refused_iff_full. Qed.
Theorem c12_pri_capacity : forall ops s, (Z.of_nat (length (ents s)) <= Z.max 0 (qcap s))%Z ->
  (Z.of_nat (length (ents (snd (h_run q_step s ops)))) <= Z.max 0 (qcap s))%Z /\ qcap (snd (h_run q_step s ops)) = qcap s.
Proof. exact q_capacity. Qed.
Theorem c12_pri_conservation : forall ops s, q_inv s ->
  let r := h_run q_step s ops in
  Permutation (outs (fst r) ++ map eid (ents (snd r))) (map eid (ents s) ++ q_accs (fst r)).
Proof. exact q_conservation. Qed.

(* ================= the concurrent class "add versus close" (C12_Race.v) ================= *)
(* what the driver accepts for a concurrent round: the harness' witness is a permutation of the calls that respects real-time
   precedence and that the sequential model replays with exactly the observed results (the round is linearisable w.r.t. the
   model), AND the clauses that hold for every linearisation (r_holds) - for this class case_sound is by this conjunction *)
Theorem c12_race_accept_is_linearisable_and_holds : forall k n cs lin, pr_accept k n cs lin = true ->
  r_lin_ok p_step (p_new k n) cs lin = true /\ pr_holds cs = true.
Proof. exact pr_accept_spec. Qed.
(* the round of seeded change r3-m1: an AddReq overlapping Close returns nil although the drain after Close had already reported
   closed-and-empty, and the final drain finds the item - rejected by the monitor *)
Theorem c12_ex_race_m1_rejected :
  pr_holds [(PAdd 7%Z, RDone, 1%Z, 6%Z); (PClose, RDone, 2%Z, 3%Z); (PPopAnyway, RClosed, 4%Z, 5%Z);
            (PPopAnyway, RItem 7%Z, 7%Z, 8%Z); (PPopAnyway, RClosed, 9%Z, 10%Z)] = false.
Proof. exact ex_race_m1_rejected. Qed.
Theorem c12_ex_race_refused_accepted :
  pr_accept KMux 0%Z [(PAdd 7%Z, RClosed, 1%Z, 6%Z); (PClose, RDone, 2%Z, 3%Z); (PPopAnyway, RClosed, 4%Z, 5%Z);
                      (PPopAnyway, RClosed, 7%Z, 8%Z)] [1; 2; 0; 3]%nat = true.
Proof. exact ex_race_refused_accepted. Qed.
Theorem c12_ex_race_before_close_accepted :
  pr_accept KMux 0%Z [(PAdd 7%Z, RDone, 1%Z, 4%Z); (PClose, RDone, 2%Z, 3%Z); (PPopAnyway, RItem 7%Z, 5%Z, 6%Z);
                      (PPopAnyway, RClosed, 7%Z, 8%Z); (PPopAnyway, RClosed, 9%Z, 10%Z)] [0; 1; 2; 3; 4]%nat = true.
Proof. exact ex_race_before_close_accepted. Qed.
Theorem c12_ex_race_bad_witness :
  pr_accept KMux 0%Z [(PClose, RDone, 1%Z, 2%Z); (PAdd 7%Z, RDone, 3%Z, 4%Z); (PPopAnyway, RItem 7%Z, 5%Z, 6%Z)] [1; 0; 2]%nat = false.
Proof. exact ex_race_bad_witness. Qed.

(* ================= constructor histories and the parallel PriQueue class (C12_More.v) ================= *)
(* several queues built one after the other, each judged against the model of ITS OWN options: accepted groups satisfy the monitors *)
Theorem c12_group_pipe_sound : forall l, pg_accept l = true -> pg_holds l = true.
Proof. exact pg_accept_sound. Qed.
Theorem c12_group_mq_sound : forall l, mg_accept l = true -> mg_holds l = true.
Proof. exact mg_accept_sound. Qed.
(* a pipe queue built without a size option (capacity 0) never refuses an add as full, over every history *)
Theorem c12_pipe_unbounded_never_full : forall k ops,
  Forall (fun e => snd e <> RFull) (fst (h_run p_step (p_new k (optcap None)) ops)).
Proof. exact p_unbounded_never_full. Qed.
(* held calls (a blocking call started, then released by ONE further call): what the model says about the two-call patterns *)
Theorem c12_anyway_full_blocks : forall s x, closed s = false -> full (cap s) (length (items s)) = true -> p_add_anyway s x = (s, RNotIssued).
Proof. exact p_anyway_full_blocks. Qed.
Theorem c12_anyway_is_add : forall s x, closed s = true \/ full (cap s) (length (items s)) = false -> p_add_anyway s x = p_add s x.
Proof. exact p_anyway_is_add. Qed.
Theorem c12_held_anyway_released_by_pop : forall s x y r, closed s = false -> items s = y :: r ->
  (Z.of_nat (length (items s)) = cap s)%Z ->
  h_run p_step s [PPopAnyway; PAddAnyway x] = ([(PPopAnyway, RItem y); (PAddAnyway x, RDone)], set_items s (r ++ [x])) /\
  h_run p_step s [PPop; PAddAnyway x] = ([(PPop, RItem y); (PAddAnyway x, RDone)], set_items s (r ++ [x])).
Proof. exact p_held_anyway_released_by_pop. Qed.
Theorem c12_held_anyway_released_by_close : forall s x,
  h_run p_step s [PClose; PAddAnyway x] = ([(PClose, RDone); (PAddAnyway x, RClosed)], fst (p_close s)).
Proof. exact p_held_anyway_released_by_close. Qed.
Theorem c12_held_pop_released : forall (s : C12_Pipe.pq) (x : Z) (chk : bool), closed s = false -> items s = [] ->
  h_run p_step s [PAdd x; if chk then PPop else PPopAnyway] =
    ([(PAdd x, RDone); (if chk then PPop else PPopAnyway, RItem x)], set_items s []) /\
  h_run p_step s [PPrior x; if chk then PPop else PPopAnyway] =
    ([(PPrior x, RDone); (if chk then PPop else PPopAnyway, RItem x)], set_items s []) /\
  h_run p_step s [PClose; if chk then PPop else PPopAnyway] =
    ([(PClose, RDone); (if chk then PPop else PPopAnyway, RClosed)], {| items := []; closed := true; cap := cap s |}).
Proof. exact p_held_pop_released. Qed.
Theorem c12_ex_group_leaked_option :
  pg_holds [(KQ, Some 2%Z, [(PAdd 1%Z, RDone)]); (KQ, None, [(PAdd 2%Z, RDone); (PAdd 3%Z, RDone); (PAdd 4%Z, RFull)])] = false.
Proof. exact ex_pg_leaked_option. Qed.
Theorem c12_ex_group_ok :
  pg_accept [(KQ, Some 2%Z, [(PAdd 1%Z, RDone); (PAdd 5%Z, RDone); (PAdd 6%Z, RFull)]); (KQ, None, [(PAdd 2%Z, RDone); (PAdd 3%Z, RDone); (PAdd 4%Z, RDone)])] = true.
Proof. exact ex_pg_ok. Qed.
(* nil (written -1) is an item like any other for the pipe queues; reporting it as an error is rejected *)
Theorem c12_ex_nil_item :
  p_accept KMux 1%Z [(PAdd (-1)%Z, RDone); (PAdd 2%Z, RFull); (PPop, RItem (-1)%Z); (PPrior (-1)%Z, RDone); (PPrior (-1)%Z, RDone);
                     (PClose, RDone); (PPopAnyway, RItem (-1)%Z); (PPopAnyway, RItem (-1)%Z); (PPopAnyway, RClosed)] = true.
Proof. exact ex_nil_item. Qed.
Theorem c12_ex_nil_item_reported_as_error : p_holds 1%Z [(PAdd (-1)%Z, RDone); (PPop, ROther 1%Z)] = false.
Proof. exact ex_nil_item_reported_as_error. Qed.
(* parallel PriQueue rounds: the clauses accept a legal overlap and reject a recycled wrapper (item 1 lost, 3 handed out twice)
   and a lower priority jumping the queue *)
Theorem c12_ex_par_ok :
  pp_holds [(QPush 1%Z 1%Z, RDone, 1%Z, 4%Z); (QPush 5%Z 2%Z, RDone, 2%Z, 3%Z); (QPop, RItem 2%Z, 5%Z, 8%Z); (QPop, RItem 1%Z, 6%Z, 7%Z);
            (QPop, RNone, 9%Z, 10%Z)] = true.
Proof. exact ex_pp_ok. Qed.
Theorem c12_ex_par_recycled_wrapper :
  pp_holds [(QPush 1%Z 1%Z, RDone, 1%Z, 2%Z); (QPop, RItem 3%Z, 3%Z, 6%Z); (QPush 1%Z 3%Z, RDone, 4%Z, 5%Z); (QPop, RItem 3%Z, 7%Z, 8%Z);
            (QPop, RNone, 9%Z, 10%Z)] = false.
Proof. exact ex_pp_recycled_wrapper. Qed.
Theorem c12_ex_par_low_priority_first :
  pp_holds [(QPush 5%Z 1%Z, RDone, 1%Z, 2%Z); (QPush 1%Z 2%Z, RDone, 3%Z, 4%Z); (QPop, RItem 2%Z, 5%Z, 6%Z); (QPop, RItem 1%Z, 7%Z, 8%Z)] = false.
Proof. exact ex_pp_low_priority_first. Qed.

(* ================= backlog sizes x operation (C12_Runs.v) ================= *)
(* for EVERY backlog (any length, any content, whatever came and went before): a prior add goes in front of the whole backlog, an
   ordinary add behind it, and the drain hands out exactly that order *)
Theorem c12_backlog_prior : forall (l : list Z) (x : Z) s, closed s = false -> items s = l ->
  h_run p_step s (PPrior x :: repeat PPopAnyway (S (length l))) =
  ((PPrior x, RDone) :: map (fun y => (PPopAnyway, RItem y)) (x :: l), set_items s []).
Proof. exact p_backlog_prior. Qed.
Theorem c12_backlog_add : forall (l : list Z) (x : Z) s, closed s = false -> items s = l -> full (cap s) (length l) = false ->
  h_run p_step s (PAdd x :: repeat PPopAnyway (S (length l))) =
  ((PAdd x, RDone) :: map (fun y => (PPopAnyway, RItem y)) (l ++ [x]), set_items s []).
Proof. exact p_backlog_add. Qed.
(* run-length cases are judged by expanding them: sound by the sequential simulation theorems *)
Theorem c12_runs_pipe_sound : forall k n l, pl_accept k n l = true -> pl_holds n l = true.
Proof. exact pl_sound. Qed.
Theorem c12_runs_mq_sound : forall cm rm l, ml_accept cm rm l = true -> ml_holds cm rm l = true.
Proof. exact ml_sound. Qed.
Theorem c12_runs_sync_sound : forall l, sl_accept l = true -> sl_holds l = true.
Proof. exact sl_sound. Qed.
Theorem c12_runs_pri_sound : forall n l, ql_accept n l = true -> ql_holds n l = true.
Proof. exact ql_sound. Qed.
Theorem c12_ex_runs_ring_stale_mask :
  pl_holds 0%Z [((PAdd 1%Z, RDone), 16%nat); ((PPrior 99%Z, RDone), 1%nat); ((PPopAnyway, RItem (-1)%Z), 1%nat)] = false.
Proof. exact ex_runs_ring_stale_mask. Qed.
Theorem c12_ex_runs_backlog_ok :
  pl_accept KAsync 0%Z [((PAdd 1%Z, RDone), 19%nat); ((PPopAnyway, RItem 1%Z), 3%nat); ((PPrior 99%Z, RDone), 1%nat);
                        ((PPopAnyway, RItem 99%Z), 1%nat); ((PPopAnyway, RItem 4%Z), 16%nat); ((PPopAnyway, RNotIssued), 2%nat)] = true.
Proof. exact ex_runs_backlog_ok. Qed.

(* ================= non-vacuity ================= *)
Theorem c12_ex_pipe_accept :
  case_accept (CPipe KQ 2%Z [(PAdd 1%Z, RDone); (PAdd 2%Z, RDone); (PAdd 3%Z, RFull); (PPrior 9%Z, RDone); (PPop, RItem 9%Z);
                             (PClose, RDone); (PAdd 4%Z, RClosed); (PPrior 5%Z, RClosed); (PPop, RClosed);
                             (PPopAnyway, RItem 1%Z); (PPopAnyway, RItem 2%Z); (PPopAnyway, RClosed)]) = true.
Proof. exact ex_pipe_accept. Qed.
Theorem c12_ex_pipe_bound_off_by_one : case_holds (CPipe KQ 1%Z [(PAdd 1%Z, RDone); (PAdd 2%Z, RDone)]) = false.
Proof. exact ex_pipe_bound_off_by_one. Qed.
Theorem c12_ex_pipe_prior_at_back : case_holds (CPipe KMux 0%Z [(PAdd 1%Z, RDone); (PPrior 2%Z, RDone); (PPopAnyway, RItem 1%Z)]) = false.
Proof. exact ex_pipe_prior_at_back. Qed.
Theorem c12_ex_pipe_pop_ignores_close : case_holds (CPipe KAsync 0%Z [(PAdd 1%Z, RDone); (PClose, RDone); (PPop, RItem 1%Z)]) = false.
Proof. exact ex_pipe_pop_ignores_close. Qed.
Theorem c12_ex_mq_tryclose_ignores_requests : case_holds (CMQ 0%Z 0%Z [(MAddReq 1%Z, RDone); (MTryClose, RFlag true)]) = false.
Proof. exact ex_mq_tryclose_ignores_requests. Qed.
Theorem c12_ex_mq_request_before_control : case_holds (CMQ 0%Z 0%Z [(MAddReq 1%Z, RDone); (MAddCtrl 2%Z, RDone); (MPop, RItem 1%Z)]) = false.
Proof. exact ex_mq_request_before_control. Qed.
Theorem c12_ex_sync_push_after_close_kept : case_holds (CSync [(SClose, RDone); (SPush 1%Z, RDone); (STryPop, RItem 1%Z)]) = false.
Proof. exact ex_sync_push_after_close_kept. Qed.
Theorem c12_ex_pri_lifo_among_equals : case_holds (CPri 3%Z [(QPush 5%Z 1%Z, RDone); (QPush 5%Z 2%Z, RDone); (QPop, RItem 2%Z)]) = false.
Proof. exact ex_pri_lifo_among_equals. Qed.
Theorem c12_ex_pri_zero_capacity : case_accept (CPri 0%Z [(QPush 5%Z 1%Z, RFull); (QPop, RNone)]) = true.
Proof. exact ex_pri_zero_capacity. Qed.

Print Assumptions c12_case_sound.
Print Assumptions c12_pipe_model_holds.
Print Assumptions c12_mq_model_holds.
Print Assumptions c12_sync_model_holds.
Print Assumptions c12_pri_model_holds.
Print Assumptions c12_pipe_add_refused_iff_full.
Print Assumptions c12_pipe_prior_ignores_bound.
Print Assumptions c12_pipe_prior_front.
Print Assumptions c12_pipe_closed_refuses.
Print Assumptions c12_pipe_pop_after_close.
Print Assumptions c12_pipe_drain_anyway.
Print Assumptions c12_pipe_pop_closed_keeps.
Print Assumptions c12_pipe_conservation.
Print Assumptions c12_pipe_no_duplicates.
Print Assumptions c12_pipe_fifo.
Print Assumptions c12_pipe_bound.
Print Assumptions c12_pipe_closed_stays.
Print Assumptions c12_pipe_order.
Print Assumptions c12_pipe_order_erasure.
Print Assumptions c12_mq_ctrl_first.
Print Assumptions c12_mq_req_when_no_ctrl.
Print Assumptions c12_mq_add_refused_iff_full.
Print Assumptions c12_mq_prior_ignores_bound.
Print Assumptions c12_mq_closed_refuses.
Print Assumptions c12_mq_tryclose.
Print Assumptions c12_mq_tryclose_closed.
Print Assumptions c12_mq_tryclear.
Print Assumptions c12_mq_tryclear_cleared.
Print Assumptions c12_mq_cleared_means_closed_and_empty.
Print Assumptions c12_mq_pop_after_close.
Print Assumptions c12_mq_drain_anyway.
Print Assumptions c12_mq_conservation.
Print Assumptions c12_mq_fifo.
Print Assumptions c12_mq_levels_are_the_outs.
Print Assumptions c12_mq_closed_stays.
Print Assumptions c12_mq_bound.
Print Assumptions c12_sync_closed_drops.
Print Assumptions c12_sync_open_push.
Print Assumptions c12_sync_fifo.
Print Assumptions c12_sync_closed_stays.
Print Assumptions c12_sync_drain_pop.
Print Assumptions c12_sync_drain_trypop.
Print Assumptions c12_sync_trypop_empty_open.
Print Assumptions c12_pri_less_irrefl.
Print Assumptions c12_pri_less_trans.
Print Assumptions c12_pri_less_total.
Print Assumptions c12_pri_min_is_highest_then_oldest.
Print Assumptions c12_pri_min_unique.
Print Assumptions c12_pri_best_is_min.
Print Assumptions c12_pri_heap_contract_determines_pop.
Print Assumptions c12_pri_reachable_inv.
Print Assumptions c12_pri_pop_order.
Print Assumptions c12_pri_gtake_spec.
Print Assumptions c12_pri_push_refused_iff_full.
Print Assumptions c12_pri_capacity.
Print Assumptions c12_pri_conservation.
Print Assumptions c12_race_accept_is_linearisable_and_holds.
Print Assumptions c12_ex_race_m1_rejected.
Print Assumptions c12_ex_race_refused_accepted.
Print Assumptions c12_ex_race_before_close_accepted.
Print Assumptions c12_ex_race_bad_witness.
Print Assumptions c12_group_pipe_sound.
Print Assumptions c12_group_mq_sound.
Print Assumptions c12_pipe_unbounded_never_full.
Print Assumptions c12_ex_group_leaked_option.
Print Assumptions c12_ex_group_ok.
Print Assumptions c12_ex_nil_item.
Print Assumptions c12_ex_nil_item_reported_as_error.
Print Assumptions c12_ex_par_ok.
Print Assumptions c12_ex_par_recycled_wrapper.
Print Assumptions c12_ex_par_low_priority_first.
Print Assumptions c12_anyway_full_blocks.
Print Assumptions c12_anyway_is_add.
Print Assumptions c12_held_anyway_released_by_pop.
Print Assumptions c12_held_anyway_released_by_close.
Print Assumptions c12_held_pop_released.
Print Assumptions c12_backlog_prior.
Print Assumptions c12_backlog_add.
Print Assumptions c12_runs_pipe_sound.
Print Assumptions c12_runs_mq_sound.
Print Assumptions c12_runs_sync_sound.
Print Assumptions c12_runs_pri_sound.
Print Assumptions c12_ex_runs_ring_stale_mask.
Print Assumptions c12_ex_runs_backlog_ok.
Print Assumptions c12_ex_pipe_accept.
Print Assumptions c12_ex_pipe_bound_off_by_one.
Print Assumptions c12_ex_pipe_prior_at_back.
Print Assumptions c12_ex_pipe_pop_ignores_close.
Print Assumptions c12_ex_mq_tryclose_ignores_requests.
Print Assumptions c12_ex_mq_request_before_control.
Print Assumptions c12_ex_sync_push_after_close_kept.
Print Assumptions c12_ex_pri_lifo_among_equals.
Print Assumptions c12_ex_pri_zero_capacity.
