(* C06: non-vacuity.  The guard is satisfiable on the histories the property names (stall across the 4096 wrap, clock
   set back, restart), the monitor accepts what the model produces there and rejects broken id sequences. *)
From Coq Require Import ZArith List Lia Bool.
Require Import Gen C06_Model C06_Hist C06_Check.
Import ListNotations.
Open Scope Z_scope.

Definition ex_cfg : cfg := {| epoch := 1609430400000; nb := 10; lowest := false |}.
Definition ex_cfg_low : cfg := {| epoch := 1609430400000; nb := 8; lowest := true |}.
Definition ex_s0 : st := {| time := 0; step := 0 |}.

(* 5000 calls in one frozen millisecond, then the clock steps back a day: inside the guard, the step wraps with a carry *)
Definition ex_clock : list Z := repeat 1790000000000 5000 ++ [1790000000000 - 86400000; 1790000000001].

Lemma ex_dom : hard_dom ex_cfg ex_s0 ex_clock = true /\ hard_dom ex_cfg_low ex_s0 ex_clock = true.
Proof. split; vm_compute; reflexivity. Qed.

Lemma ex_wrap_carries :
  nth 4095 (hard_states ex_cfg ex_s0 ex_clock) ex_s0 = {| time := 180569600000; step := 4095 |} /\
  nth 4096 (hard_states ex_cfg ex_s0 ex_clock) ex_s0 = {| time := 180569600001; step := 0 |}.
Proof. split; vm_compute; reflexivity. Qed.

(* the monitor is not trivially true: a repeated id, an id whose time field is before the clock, a wrong node field and
   a restart that falls back below the seed id are all rejected *)
Definition ex_case (ids : list dobs) : case :=
  CHard ex_cfg 5 0 (0, 0, 0) [1790000000000; 0; 0] false [] [ids].

Lemma ex_monitor :
  case_holds (ex_case [O4 757363795558420480 180569600000 5 0; O4 1 0 5 1; O4 1 0 5 2]) = true /\
  case_accept (ex_case [O4 757363795558420480 180569600000 5 0; O4 1 0 5 1; O4 1 0 5 2]) = true /\
  case_holds (ex_case [O4 757363795558420480 180569600000 5 0; O4 0 0 5 0; O4 1 0 5 1]) = false /\
  case_holds (ex_case [O4 757363795554226176 180569599999 5 0; O4 1 0 5 1; O4 1 0 5 2]) = false /\
  case_holds (ex_case [O4 757363795558420480 180569600000 6 0; O4 1 0 6 1; O4 1 0 6 2]) = false /\
  case_holds (CHard ex_cfg 5 757363795558420485 (180569600000, 5, 5) [1790000000000] false []
                [[O4 757363795558420481 180569600000 5 1]]) = false /\
  case_holds (CNano 10 [] [[P2 10 10; P2 0 1]]) = false /\
  case_holds (CNano 10 [] [[P2 10 11; P2 0 1]]) = true /\
  case_holds (CMono ex_cfg 5 false [] [[O4 757363795558420480 180569600000 5 0; O4 0 0 5 0]]) = false.
Proof. repeat split; vm_compute; reflexivity. Qed.
