(* C03: the executable structure predicates evaluated on the implementation's actual nodes (C03_Spec.balanced,
   sortedb, as used by C03_Steps.struct_ok) are exactly the invariants of the theorems (shaped / occ / upper /
   StronglySorted): the monitor means what the theorems say, and every tree the theorems speak about passes it. *)
From Coq Require Import ZArith List Lia Bool Sorting.Sorted.
Require Import C03_Model C03_Spec C03_D C03_InsInv.
Import ListNotations.
Open Scope Z_scope.

(* ---- ordered ---- *)
Lemma sortedb_sound (l : list item) : sortedb l = true -> StronglySorted klt l.
Proof.
  induction l as [|x l IH]; intros H; [constructor|].
  destruct l as [|y l]; [constructor; constructor|].
  change (sortedb (x :: y :: l)) with ((key x <? key y) && sortedb (y :: l)) in H. apply andb_prop in H as [Hxy Hr]. apply Z.ltb_lt in Hxy. specialize (IH Hr).
  constructor; [exact IH|]. inversion IH as [|? ? Hs Hf]; subst. constructor; [exact Hxy|].
  rewrite Forall_forall in *. intros z Hz. specialize (Hf z Hz). unfold klt in *. lia.
Qed.
Lemma sortedb_complete (l : list item) : StronglySorted klt l -> sortedb l = true.
Proof.
  induction 1 as [|x l Hs IH Hf]; [reflexivity|]. destruct l as [|y l]; [reflexivity|].
  change (sortedb (x :: y :: l)) with ((key x <? key y) && sortedb (y :: l)). rewrite IH. inversion Hf; subst. unfold klt in *. replace (key x <? key y) with true by (symmetry; apply Z.ltb_lt; assumption). reflexivity.
Qed.

(* ---- balanced ---- *)
Lemma balb_sound minI : forall h isroot n, balb minI (maxI_of minI) h isroot n = true ->
  shaped h n /\ occ minI h n /\ upper minI h n /\ (length (iitems n) <= maxI_of minI)%nat /\
  (isroot = false -> (minI <= length (iitems n))%nat).
Proof.
  induction h as [|h IH]; intros isroot n H; cbn [balb] in H.
  - apply andb_prop in H as [H H3]. apply andb_prop in H as [H1 H2]. apply Nat.leb_le in H2.
    split; [cbn; apply is_nil_true, H3|]. split; [exact I|]. split; [exact I|]. split; [exact H2|].
    intros ->. cbn in H1. apply Nat.leb_le in H1. exact H1.
  - apply andb_prop in H as [H H3]. apply andb_prop in H as [H1 H2]. apply Nat.leb_le in H2.
    apply andb_prop in H3 as [H3 H4]. apply Nat.eqb_eq in H3. rewrite forallb_forall in H4.
    assert (Hc : forall c, In c (ichildren n) -> shaped h c /\ occ minI h c /\ upper minI h c /\ (length (iitems c) <= maxI_of minI)%nat /\ (minI <= length (iitems c))%nat).
    { intros c Hin. destruct (IH false c (H4 c Hin)) as (A & B & C & D & E). split; [exact A|split; [exact B|split; [exact C|split; [exact D|exact (E eq_refl)]]]]. }
    split; [split; [exact H3|apply Forall_forall; intros c Hin; apply (Hc c Hin)]|].
    split; [cbn [occ]; apply Forall_forall; intros c Hin; destruct (Hc c Hin) as (_ & B & _ & _ & E); auto|].
    split; [cbn [upper]; apply Forall_forall; intros c Hin; destruct (Hc c Hin) as (_ & _ & C & D & _); auto|].
    split; [exact H2|]. intros ->. cbn in H1. apply Nat.leb_le in H1. exact H1.
Qed.
Lemma balb_complete minI : forall h isroot n,
  shaped h n -> occ minI h n -> upper minI h n -> (length (iitems n) <= maxI_of minI)%nat ->
  (isroot = false -> (minI <= length (iitems n))%nat) -> balb minI (maxI_of minI) h isroot n = true.
Proof.
  induction h as [|h IH]; intros isroot n Hs Ho Hu Hl Hm; cbn [balb].
  - cbn in Hs. rewrite Hs. cbn [is_nil]. rewrite andb_true_r. apply andb_true_intro. split; [|apply Nat.leb_le, Hl].
    destruct isroot; [reflexivity|]. cbn. apply Nat.leb_le, Hm. reflexivity.
  - destruct Hs as [Hl1 Hf]. cbn [occ] in Ho. cbn [upper] in Hu. rewrite Forall_forall in Hf, Ho, Hu.
    apply andb_true_intro. split; [apply andb_true_intro; split; [|apply Nat.leb_le, Hl]|].
    + destruct isroot; [reflexivity|]. cbn. apply Nat.leb_le, Hm. reflexivity.
    + apply andb_true_intro. split; [apply Nat.eqb_eq, Hl1|]. apply forallb_forall. intros c Hin.
      destruct (Ho c Hin) as [Hcm Hco]. destruct (Hu c Hin) as [Hcx Hcu]. apply IH; auto.
Qed.

(* the height read off the leftmost path is the height of a shaped tree *)
Lemma iheight_shaped : forall h f n, shaped h n -> (h <= f)%nat -> iheight f n = h.
Proof.
  induction h as [|h IH]; intros f n Hs Hf.
  - cbn in Hs. destruct f; cbn [iheight]; [reflexivity|]. rewrite Hs. reflexivity.
  - destruct f as [|f]; [lia|]. destruct Hs as [Hl Hfa]. cbn [iheight]. destruct (ichildren n) as [|c ch]; [cbn in Hl; lia|].
    inversion Hfa; subst. f_equal. apply IH; [assumption|lia].
Qed.

(* degree form: balanced deg n, as the driver evaluates it on an observed root *)
Theorem balanced_sound deg n : (1 <= deg)%nat -> balanced deg n = true ->
  exists h, shaped h n /\ occ (deg - 1) h n /\ upper (deg - 1) h n /\ (length (iitems n) <= 2 * deg - 1)%nat.
Proof.
  intros Hd H. unfold balanced in H. replace (2 * deg - 1)%nat with (maxI_of (deg - 1)) in H by (unfold maxI_of; lia).
  destruct (balb_sound (deg - 1) _ true n H) as (A & B & C & D & _). exists (iheight IFUEL n).
  split; [exact A|]. split; [exact B|]. split; [exact C|]. unfold maxI_of in D. lia.
Qed.
Theorem balanced_complete deg h n : (1 <= deg)%nat -> (h <= IFUEL)%nat ->
  shaped h n -> occ (deg - 1) h n -> upper (deg - 1) h n -> (length (iitems n) <= 2 * deg - 1)%nat -> balanced deg n = true.
Proof.
  intros Hd Hh Hs Ho Hu Hl. unfold balanced. rewrite (iheight_shaped h IFUEL n Hs Hh).
  replace (2 * deg - 1)%nat with (maxI_of (deg - 1)) by (unfold maxI_of; lia).
  apply balb_complete; auto; [unfold maxI_of; lia|discriminate].
Qed.
