(* C20: executable model of the tex scalar wrappers, mirroring tex/jsi64.go, jsu64.go, jsbyte.go, jstime.go,
   timestamp.go, duration.go, base64.go, hex.go of /repo branch for branch (the repaired tree; the flag `checked`
   = false gives the pinned pre-fix behaviour, kept for the ..._refuted lemmas).  No proofs in this file. *)
From Coq Require Import ZArith List Lia Bool.
Require Export C20_Radix.
Import ListNotations.
Open Scope Z_scope.

Definition QUOTE := 34.
Definition SLASH := 47.
Definition E9 := 1000000000.

(* decoded values: integers (int64 / uint64 / duration), byte lists, instants (Unix seconds, nanosecond part) *)
Inductive val := VZ (z : Z) | VL (l : list Z) | VT (sec nsec : Z).

Definition wrap64 (x : Z) : Z := (x + 2 ^ 63) mod 2 ^ 64 - 2 ^ 63.      (* conversion to int64 *)

(* ---------------- slicing ---------------- *)
Definition inner (b : list Z) : list Z := removelast (tl b).                              (* b[1 : len(b)-1], len(b) >= 2 *)
Definition quoted_ends (b : list Z) : bool := (hd 0 b =? QUOTE) && (last b 0 =? QUOTE).   (* b[0] == '"' && b[lb-1] == '"' *)
Definition wrapq (s : list Z) : list Z := QUOTE :: s ++ [QUOTE].                          (* append('"', s..., '"') *)

(* ---------------- JsInt64 (tex/jsi64.go) ---------------- *)
Definition i64_marshal (v : Z) : list Z := wrapq (fmt_int 10 v).
Definition i64_unmarshal (b : list Z) : res Z :=
  match b with
  | [] => Err                                                     (* lb == 0 *)
  | _ =>
    if quoted_ends b then
      if Nat.eqb (length b) 1 then Panic                          (* the lone quote: b[1:0] is out of range *)
      else match inner b with
           | [] => Ok 0                                           (* strBuf == "" *)
           | s => parse_int 10 s                                  (* strconv.Atoi *)
           end
    else parse_int 10 b
  end.

(* ---------------- JsUInt64 (tex/jsu64.go); the lb == 2 branch behind lb <= 2 is unreachable ---------------- *)
Definition u64_marshal (v : Z) : list Z := wrapq (fmt_uint 10 v).
Definition u64_unmarshal (checked : bool) (b : list Z) : res Z :=
  if Nat.leb (length b) 2 then Err
  else if checked && negb (quoted_ends b) then Err
  else parse_uint 10 (inner b).

(* ---------------- the quoted signed integer of JsUnixTime, JsNanoTime, UnixStamp ---------------- *)
Definition qint_unmarshal (checked : bool) (b : list Z) : res Z :=
  if Nat.leb (length b) 2 then Err
  else if checked && negb (quoted_ends b) then Err
  else parse_int 10 (inner b).

(* time.Unix(sec, nsec) as observed through Unix() and Nanosecond() *)
Definition time_unix (sec nsec : Z) : Z * Z :=
  if (nsec <? 0) || (E9 <=? nsec) then
    let n := Z.quot nsec E9 in
    let sec' := sec + n in
    let nsec' := nsec - n * E9 in
    if nsec' <? 0 then (sec' - 1, nsec' + E9) else (sec', nsec')
  else (sec, nsec).
(* Time.UnixNano(): unixSec * 1e9 + nsec in int64 arithmetic *)
Definition unix_nano (sec nsec : Z) : Z := wrap64 (sec * E9 + nsec).
Definition vt (p : Z * Z) : val := VT (fst p) (snd p).

(* ---------------- JsByte (tex/jsbyte.go) ---------------- *)
(* strings.Split(s, "/") *)
Fixpoint split (l : list Z) : list (list Z) :=
  match l with
  | [] => [[]]
  | c :: r => if c =? SLASH then [] :: split r
              else match split r with h :: t => (c :: h) :: t | [] => [[c]] end
  end.
(* the conversion loop of FromString; rc = the range check of the repair *)
Fixpoint bytes_of (rc : bool) (parts : list (list Z)) : res (list Z) :=
  match parts with
  | [] => Ok []
  | p :: r =>
    match parse_int 10 p with
    | Ok t => if rc && ((t <? 0) || (255 <? t)) then Err
              else match bytes_of rc r with Ok l => Ok (t mod 256 :: l) | e => e end      (* byte(t) *)
    | _ => Err
    end
  end.
Definition byte_from_string (rc : bool) (s : list Z) : res (list Z) :=
  match s with [] => Ok [] | _ => bytes_of rc (split s) end.
Definition byte_unmarshal (qc rc : bool) (b : list Z) : res (list Z) :=
  if Nat.ltb (length b) 2 then Err
  else if qc && negb (quoted_ends b) then Err
  else byte_from_string rc (inner b).
(* splitBuilder: Itoa of every element, "/" between *)
Fixpoint join (l : list Z) : list Z :=
  match l with
  | [] => []
  | [x] => fmt_int 10 x
  | x :: r => fmt_int 10 x ++ SLASH :: join r
  end.
Definition byte_marshal (l : list Z) : list Z := wrapq (join l).

(* ---------------- hex.go: FormatInt/FormatUint/ParseInt/ParseUint in base 16 and 32 ---------------- *)
Definition hex_fmt (signed : bool) (base v : Z) : list Z := if signed then fmt_int base v else fmt_uint base v.
Definition hex_parse (signed : bool) (base : Z) (s : list Z) : res Z := if signed then parse_int base s else parse_uint base s.

(* ---------------- SQL arguments ---------------- *)
Inductive sqlv := SI32 (z : Z) | SU32 (z : Z) | SI64 (z : Z) | SU64 (z : Z) | SInt (z : Z) | SUint (z : Z)
                | STime (sec nsec : Z) | SBytes (l : list Z) | SStr (l : list Z) | SOther.
(* the type switch of Unix2Time.Scan / UnixNano2Time.Scan: six integer types, anything else leaves ts = 0 *)
Definition scan_ts (v : sqlv) : Z :=
  match v with
  | SI32 z | SU32 z | SI64 z | SInt z => z
  | SU64 z | SUint z => wrap64 z
  | _ => 0
  end.
(* UnixStamp.Scan / SQLTime2Unix.Scan: a time.Time is taken, anything else leaves the receiver as it was *)
Definition stamp_scan (old : Z) (v : sqlv) : Z := match v with STime s _ => s | _ => old end.

(* ---------------- the stdlib codecs the wrappers only call ---------------- *)
Section Std.
  Variable dur_parse : list Z -> res Z.          (* time.ParseDuration *)
  Variable dur_show : Z -> list Z.               (* time.Duration.String *)
  Variable b64_dec : list Z -> res (list Z).     (* base64.RawStdEncoding.DecodeString *)
  Variable b64_enc : list Z -> list Z.           (* base64.RawStdEncoding.EncodeToString *)

  (* Duration (tex/duration.go) *)
  Definition dur_marshal (d : Z) : list Z := wrapq (dur_show d).
  Definition dur_unmarshal (checked : bool) (b : list Z) : res Z :=
    if Nat.leb (length b) 2 then Err
    else if checked && negb (quoted_ends b) then Err
    else dur_parse (inner b).
  (* UnmarshalTOML(v interface{}): Some s = a string, None = any other dynamic type *)
  Definition dur_toml (v : option (list Z)) : res Z := match v with Some s => dur_parse s | None => Err end.

  (* text codecs: the seven JSON wrappers, JsByte.ToString/FromString, the hex functions *)
  Inductive cty := JI64 | JU64 | JUnixTime | JNanoTime | JStamp | JDur | JByte | XByteStr | XHex (signed : bool) (base : Z).

  Definition rmap {A B} (f : A -> B) (r : res A) : res B := match r with Ok v => Ok (f v) | Err => Err | Panic => Panic end.

  (* fx = true: the repaired tree *)
  Definition dec (fx : bool) (t : cty) (b : list Z) : res val :=
    match t with
    | JI64 => rmap VZ (i64_unmarshal b)
    | JU64 => rmap VZ (u64_unmarshal fx b)
    | JUnixTime => rmap (fun z => vt (time_unix z 0)) (qint_unmarshal fx b)       (* time.Unix(int64(t), 0) *)
    | JNanoTime => rmap (fun z => vt (time_unix 0 z)) (qint_unmarshal fx b)       (* time.Unix(0, int64(t)) *)
    | JStamp => rmap VZ (qint_unmarshal fx b)
    | JDur => rmap VZ (dur_unmarshal fx b)
    | JByte => rmap VL (byte_unmarshal fx fx b)
    | XByteStr => rmap VL (byte_from_string fx b)
    | XHex sg base => rmap VZ (hex_parse sg base b)
    end.

  (* None = a value of another shape than the type holds (modelling artefact, never produced by the harness) *)
  Definition enc (t : cty) (v : val) : option (list Z) :=
    match t, v with
    | JI64, VZ z => Some (i64_marshal z)
    | JU64, VZ z => Some (u64_marshal z)
    | JUnixTime, VT s n => Some (wrapq (fmt_int 10 s))                             (* FormatInt(t.Unix(), 10) *)
    | JNanoTime, VT s n => Some (wrapq (fmt_int 10 (unix_nano s n)))               (* FormatInt(t.UnixNano(), 10) *)
    | JStamp, VZ z => Some (wrapq (fmt_int 10 z))
    | JDur, VZ z => Some (dur_marshal z)
    | JByte, VL l => Some (byte_marshal l)
    | XByteStr, VL l => Some (join l)
    | XHex sg base, VZ z => Some (hex_fmt sg base z)
    | _, _ => None
    end.

  (* SQL forms *)
  Inductive sqlk := KUnix2Time | KNano2Time | KStamp | KSqlTime2Unix | KBase64.
  (* Scan: old = the receiver before the call *)
  Definition scan (k : sqlk) (old : val) (v : sqlv) : res val :=
    match k with
    | KUnix2Time => Ok (vt (time_unix (scan_ts v) 0))
    | KNano2Time => Ok (vt (time_unix 0 (scan_ts v)))
    | KStamp | KSqlTime2Unix => Ok (VZ (stamp_scan (match old with VZ o => o | _ => 0 end) v))
    | KBase64 => match v with SBytes l | SStr l => rmap VL (b64_dec l) | _ => Err end
    end.
  (* Value *)
  Definition value_of (k : sqlk) (v : val) : option sqlv :=
    match k, v with
    | KUnix2Time, VT s n => Some (SI64 s)                                          (* time.Time(s).Unix() *)
    | KNano2Time, VT s n => Some (SI64 (unix_nano s n))
    | KStamp, VZ z | KSqlTime2Unix, VZ z => Some (STime (fst (time_unix z 0)) (snd (time_unix z 0)))
    | KBase64, VL l => Some (SStr (b64_enc l))
    | _, _ => None
    end.
End Std.
