(* C03: the descending scan (DescendLessOrEqual / DescendLess / Descend): the `descend` branch of node.iterate,
   which is NOT the mirror image of the ascending branch (the skip test comes before the child is entered,
   the start index is computed differently, `hit` is set only on a visit), feeds the callback exactly the items
   at or below the pivot, in descending order, until the callback stops *)
From Coq Require Import ZArith List Lia Bool Sorting.Sorted.
Require Import BTI.
Import ListNotations.
Open Scope Z_scope.

Definition gt (x y : Z) : Prop := y < x.

(* the in-order list read from the right: last child, last item, ..., first child *)
Fixpoint dflat (f : nat) (n : node) : list Z :=
  match f with O => [] | S f' => inter (dflat f') (rev (items_of n)) (rev (children_of n)) end.

Lemma ssd_app_inv (l1 : list Z) x l2 :
  StronglySorted gt (l1 ++ x :: l2) ->
  StronglySorted gt l1 /\ StronglySorted gt l2 /\ Forall (fun y => x < y) l1 /\ Forall (fun y => y < x) l2.
Proof.
  induction l1 as [|y l1 IH]; cbn [app]; intros H.
  - inversion H; subst. repeat split; auto; constructor.
  - inversion H as [|? ? Hs Hf]; subst. destruct (IH Hs) as (S1 & S2 & F1 & F2).
    rewrite Forall_app in Hf. destruct Hf as [Hf1 Hf2]. inversion Hf2; subst.
    split; [constructor; assumption|]. split; [assumption|]. split; [constructor; assumption|assumption].
Qed.
Lemma ssd_app_inv_app (l1 l2 : list Z) : StronglySorted gt (l1 ++ l2) -> StronglySorted gt l1 /\ StronglySorted gt l2.
Proof.
  induction l1 as [|y l1 IH]; cbn [app]; intros H; [split; [constructor|assumption]|].
  inversion H as [|? ? Hs Hf]; subst. destruct (IH Hs). rewrite Forall_app in Hf. split; [constructor; tauto|assumption].
Qed.

Section Desc.
Variable A : Type.
Variable visit : A -> Z -> A * bool.
Variable start : option Z.
Variable incl : bool.
Notation feed := (feed A visit).

Definition gt_s (x : Z) : bool := match start with Some s => s <? x | None => false end.     (* start.Less(x) *)
Definition ge_s (x : Z) : bool := match start with Some s => s <=? x | None => false end.    (* start != nil && !x.Less(start) *)
(* the items a descending scan from the pivot must deliver *)
Definition keepd (x : Z) : bool := negb (gt_s x) && (incl || negb (ge_s x)).
(* the `continue` test at the top of the loop body, as coded *)
Definition skipd (hit : bool) (x : Z) : bool := ge_s x && (negb incl || hit || gt_s x).

Definition rec_t := node -> bool -> A -> A * bool * bool.

Fixpoint dloop (rc : rec_t) (its : list Z) (ch : list node) (hit : bool) (a : A) : A * bool * bool :=
  match its with
  | [] => hd_rec (fun c => rc c hit a) (a, hit, true) ch                    (* children[0] *)
  | x :: its' =>
     if skipd hit x then dloop rc its' (tl ch) hit a else                   (* continue: children[i+1] is not entered *)
     let '(a1, hit1, ok1) := hd_rec (fun c => rc c hit a) (a, hit, true) ch in
     if negb ok1 then (a1, hit1, false) else
     let '(a2, cont) := visit a1 x in
     if cont then dloop rc its' (tl ch) true a2 else (a2, true, false)
  end.

(* index = find(start), minus one when not found; nil start: the last item.  On the reversed lists:
   drop the items strictly above start, and as many children *)
Fixpoint ddrop (its : list Z) (ch : list node) : list Z * list node :=
  match its with
  | x :: r => if gt_s x then ddrop r (tl ch) else (its, ch)
  | [] => ([], ch)
  end.

Fixpoint desc (f : nat) (n : node) (hit : bool) (a : A) : A * bool * bool :=
  match f with O => (a, hit, false) | S f' =>
    let '(its, ch) := ddrop (rev (items_of n)) (rev (children_of n)) in
    dloop (desc f') its ch hit a
  end.

Definition keepH (hit : bool) (x : Z) : bool := if hit then true else keepd x.

(* ---------- the pivot-relative predicates ---------- *)
Lemma gt_ge x : gt_s x = true -> ge_s x = true.
Proof. unfold gt_s, ge_s. destruct start as [s|]; [|discriminate]. intros H. apply Z.ltb_lt in H. apply Z.leb_le. lia. Qed.
Lemma ge_false_gt x : ge_s x = false -> gt_s x = false.
Proof. intros H. destruct (gt_s x) eqn:E; [rewrite (gt_ge x E) in H; discriminate|reflexivity]. Qed.
Lemma below_stays x y : ge_s x = false -> y < x -> ge_s y = false.
Proof. unfold ge_s. destruct start as [s|]; [|reflexivity]. intros H Hxy. apply Z.leb_gt in H. apply Z.leb_gt. lia. Qed.
Lemma above_gt x y : ge_s x = true -> x < y -> gt_s y = true.
Proof. unfold ge_s, gt_s. destruct start as [s|]; [|discriminate]. intros H Hxy. apply Z.leb_le in H. apply Z.ltb_lt. lia. Qed.
Lemma notgt_below x y : gt_s x = false -> ge_s x = true -> y < x -> ge_s y = false.
Proof. unfold ge_s, gt_s. destruct start as [s|]; [|reflexivity]. intros H1 H2 Hxy. apply Z.ltb_ge in H1. apply Z.leb_gt. lia. Qed.
Lemma gt_above x y : gt_s x = true -> x < y -> gt_s y = true.
Proof. unfold gt_s. destruct start as [s|]; [|discriminate]. intros H Hxy. apply Z.ltb_lt in H. apply Z.ltb_lt. lia. Qed.
Lemma keepd_below x : ge_s x = false -> keepd x = true.
Proof. intros H. unfold keepd. rewrite (ge_false_gt _ H), H. cbn. apply orb_true_r. Qed.
Lemma keepd_above x : gt_s x = true -> keepd x = false.
Proof. intros H. unfold keepd. rewrite H. reflexivity. Qed.

(* ---------- specification of one (sub)scan ---------- *)
Definition spec_res (hit : bool) (L : list Z) (a : A) (r : A * bool * bool) : Prop :=
  let '(a', c) := feed (filter (keepH hit) L) a in
  fst (fst r) = a' /\ snd r = c /\ (c = true -> snd (fst r) = hit || existsb (keepH hit) L).

Definition all_lt (L : list Z) := Forall (fun x => ge_s x = false) L.

Definition rc_ok (f : nat) (rc : rec_t) : Prop :=
  forall c hit a, wf f c -> StronglySorted gt (dflat f c) ->
    (hit = true -> all_lt (dflat f c)) -> spec_res hit (dflat f c) a (rc c hit a).

Lemma filter_keepH_all hit L : all_lt L -> filter (keepH hit) L = L.
Proof.
  intros H. apply filter_all. unfold all_lt in H. rewrite Forall_forall in *. intros x Hx.
  unfold keepH. destruct hit; [reflexivity|]. apply keepd_below, H, Hx.
Qed.
Lemma filter_keepH_above L : Forall (fun x => gt_s x = true) L -> filter (keepH false) L = [] /\ existsb (keepH false) L = false.
Proof.
  intros H. split; [apply filter_none|apply existsb_none]; rewrite Forall_forall in *; intros x Hx; unfold keepH; apply keepd_above, H, Hx.
Qed.

Lemma spec_hd f rc (Hrc : rc_ok f rc) ch hit a :
  Forall (wf f) ch -> StronglySorted gt (hd_rec (dflat f) [] ch) ->
  (hit = true -> all_lt (hd_rec (dflat f) [] ch)) ->
  spec_res hit (hd_rec (dflat f) [] ch) a (hd_rec (fun c => rc c hit a) (a, hit, true) ch).
Proof.
  destruct ch as [|c ch]; cbn [hd_rec]; intros Hwf Hs Hh.
  - unfold spec_res; cbn. split; [reflexivity|split; [reflexivity|]]. intros _. symmetry. apply orb_false_r.
  - apply Hrc; [inversion Hwf; assumption|assumption|assumption].
Qed.

Lemma dloop_spec f rc (Hrc : rc_ok f rc) : forall its ch hit a,
  (ch = [] \/ length ch = S (length its)) -> Forall (wf f) ch ->
  StronglySorted gt (inter (dflat f) its ch) ->
  Forall (fun x => gt_s x = false) its ->
  (hit = true -> all_lt (inter (dflat f) its ch)) ->
  spec_res hit (inter (dflat f) its ch) a (dloop rc its ch hit a).
Proof.
  induction its as [|x its IH]; intros ch hit a Hshape Hwf Hs Hits Hh.
  - cbn [inter dloop]. apply spec_hd; assumption.
  - cbn [inter dloop] in *.
    set (Lc := hd_rec (dflat f) [] ch) in *.
    set (rest := inter (dflat f) its (tl ch)) in *.
    destruct (ssd_app_inv _ _ _ Hs) as (SLc & Srest & FLc & Frest).
    inversion Hits as [|? ? Hx Hits']; subst.
    assert (Hshape' : tl ch = [] \/ length (tl ch) = S (length its)).
    { destruct Hshape as [->|Hl]; [left; reflexivity|]. destruct ch; cbn in *; [discriminate|]. right. lia. }
    assert (Hwf' : Forall (wf f) (tl ch)) by (destruct ch; cbn; [constructor|inversion Hwf; assumption]).
    assert (Hh1 : hit = true -> all_lt Lc).
    { intros E. specialize (Hh E). unfold all_lt in *. rewrite Forall_app in Hh. tauto. }
    assert (Hhx : hit = true -> ge_s x = false).
    { intros E. specialize (Hh E). unfold all_lt in Hh. rewrite Forall_app in Hh. destruct Hh as [_ Hh]. inversion Hh; assumption. }
    unfold spec_res. rewrite filter_app. cbn [filter]. rewrite feed_app. rewrite existsb_app. cbn [existsb].
    destruct (ge_s x) eqn:Ege.
    + (* x is the pivot itself: nothing has been visited yet, and everything in the child on its right is above the pivot *)
      assert (Hhit : hit = false) by (destruct hit; [specialize (Hhx eq_refl); discriminate|reflexivity]). subst hit.
      assert (HLc : Forall (fun y => gt_s y = true) Lc).
      { rewrite Forall_forall in *. intros y Hy. apply (above_gt x y Ege (FLc y Hy)). }
      destruct (filter_keepH_above Lc HLc) as [FLc0 ELc0]. rewrite FLc0, ELc0. cbn [feed orb].
      assert (Hrest_lt : all_lt rest).
      { unfold all_lt. rewrite Forall_forall in *. intros y Hy. apply (notgt_below x y Hx Ege (Frest y Hy)). }
      assert (Hkx : keepH false x = incl) by (unfold keepH, keepd; rewrite Hx, Ege; cbn [negb andb]; apply orb_false_r).
      assert (Hsk : skipd false x = negb incl) by (unfold skipd; rewrite Ege, Hx; cbn [andb]; rewrite !orb_false_r; reflexivity).
      rewrite Hkx, Hsk.
      destruct incl; cbn [negb].
      * (* inclusive: the child is entered (and yields nothing), then the pivot is visited *)
        pose proof (spec_hd f rc Hrc ch false a Hwf SLc Hh1) as H1. fold Lc in H1. unfold spec_res in H1. rewrite FLc0 in H1. cbn [feed] in H1.
        destruct (hd_rec (fun c => rc c false a) (a, false, true) ch) as [[a1 h1] ok1]. cbn [fst snd] in H1.
        destruct H1 as (-> & -> & _). cbn [negb feed app].
        destruct (visit a x) as [a2 cont]. destruct cont.
        -- pose proof (IH (tl ch) true a2 Hshape' Hwf' Srest Hits' (fun _ => Hrest_lt)) as IHt. fold rest in IHt. unfold spec_res in IHt.
           rewrite (filter_keepH_all true rest Hrest_lt) in IHt. rewrite (filter_keepH_all false rest Hrest_lt).
           destruct (dloop rc its (tl ch) true a2) as [[a3 h3] ok3]. cbn [fst snd] in *.
           destruct (feed rest a2) as [a4 c4]. destruct IHt as (-> & -> & Hh3).
           split; [reflexivity|split; [reflexivity|]]. intros E. rewrite (Hh3 E). reflexivity.
        -- cbn. split; [reflexivity|split; [reflexivity|discriminate]].
      * (* exclusive: the pivot is skipped together with the child on its right *)
        cbn [app orb].
        pose proof (IH (tl ch) false a Hshape' Hwf' Srest Hits' (fun E => False_ind _ (Bool.diff_false_true E))) as IHt. fold rest in IHt.
        unfold spec_res in IHt. destruct (dloop rc its (tl ch) false a) as [[a3 h3] ok3]. cbn [fst snd] in *.
        destruct (feed (filter (keepH false) rest) a) as [a4 c4]. exact IHt.
    + (* x is below the pivot (or there is no pivot): the child, then x, then the rest, which is entirely delivered *)
      unfold skipd. rewrite Ege. cbn [andb].
      assert (Hrest_lt : all_lt rest).
      { unfold all_lt. rewrite Forall_forall in *. intros y Hy. apply (below_stays x y Ege (Frest y Hy)). }
      pose proof (spec_hd f rc Hrc ch hit a Hwf SLc Hh1) as H1. fold Lc in H1. unfold spec_res in H1.
      destruct (hd_rec (fun c => rc c hit a) (a, hit, true) ch) as [[a1 h1] ok1]. cbn [fst snd] in H1.
      destruct (feed (filter (keepH hit) Lc) a) as [a1' c1]. destruct H1 as (-> & -> & Hh1').
      assert (Hk : keepH hit x = true) by (unfold keepH; destruct hit; [reflexivity|apply keepd_below, Ege]).
      rewrite Hk. destruct c1; cbn [negb].
      2:{ cbn. split; [reflexivity|split; [reflexivity|discriminate]]. }
      cbn [feed app]. destruct (visit a1' x) as [a2 cont]. destruct cont.
      * pose proof (IH (tl ch) true a2 Hshape' Hwf' Srest Hits' (fun _ => Hrest_lt)) as IHt. fold rest in IHt. unfold spec_res in IHt.
        rewrite (filter_keepH_all true rest Hrest_lt) in IHt. rewrite (filter_keepH_all hit rest Hrest_lt).
        destruct (dloop rc its (tl ch) true a2) as [[a3 h3] ok3]. cbn [fst snd] in *.
        destruct (feed rest a2) as [a4 c4]. destruct IHt as (-> & -> & Hh3).
        split; [reflexivity|split; [reflexivity|]]. intros E. rewrite (Hh3 E). cbn [orb]. rewrite !orb_true_r. reflexivity.
      * cbn. split; [reflexivity|split; [reflexivity|discriminate]].
Qed.

(* ---------- dropping what lies strictly above the pivot ---------- *)
Lemma ddrop_spec f : forall its ch,
  (ch = [] \/ length ch = S (length its)) -> Forall (wf f) ch ->
  StronglySorted gt (inter (dflat f) its ch) ->
  exists dropped,
    let '(its', ch') := ddrop its ch in
    inter (dflat f) its ch = dropped ++ inter (dflat f) its' ch' /\
    Forall (fun x => gt_s x = true) dropped /\
    Forall (fun x => gt_s x = false) its' /\
    (ch' = [] \/ length ch' = S (length its')) /\ Forall (wf f) ch'.
Proof.
  induction its as [|x its IH]; intros ch Hshape Hwf Hs.
  - exists []. cbn. repeat split; auto.
  - cbn [ddrop]. destruct (gt_s x) eqn:Ex.
    + cbn [inter] in Hs. destruct (ssd_app_inv _ _ _ Hs) as (SLc & Srest & FLc & Frest).
      assert (Hshape' : tl ch = [] \/ length (tl ch) = S (length its)).
      { destruct Hshape as [->|Hl]; [left; reflexivity|]. destruct ch; cbn in *; [discriminate|]. right. lia. }
      assert (Hwf' : Forall (wf f) (tl ch)) by (destruct ch; cbn; [constructor|inversion Hwf; assumption]).
      destruct (IH (tl ch) Hshape' Hwf' Srest) as [d Hd].
      destruct (ddrop its (tl ch)) as [its' ch']. destruct Hd as (Heq & Hd1 & Hd2 & Hd3 & Hd4).
      exists (hd_rec (dflat f) [] ch ++ x :: d). cbn [inter]. rewrite Heq.
      split; [rewrite <- app_assoc; reflexivity|]. split; [|split; [exact Hd2|split; [exact Hd3|exact Hd4]]].
      rewrite Forall_app. split; [|constructor; assumption].
      rewrite Forall_forall in *. intros y Hy. apply (gt_above x y Ex (FLc y Hy)).
    + exists []. cbn [app]. split; [reflexivity|]. split; [constructor|]. split; [|split; assumption].
      constructor; [exact Ex|].
      cbn [inter] in Hs. destruct (ssd_app_inv _ _ _ Hs) as (_ & Srest & _ & Frest).
      clear IH Hshape Hwf Hs. revert ch Srest Frest. induction its as [|y its IH2]; intros ch Srest Frest; [constructor|].
      cbn [inter] in *. rewrite Forall_app in Frest. destruct Frest as [_ Fr]. inversion Fr as [|? ? Hy Fr']; subst.
      constructor.
      * destruct (gt_s y) eqn:Ey; [|reflexivity]. rewrite (gt_above y x Ey Hy) in Ex. discriminate.
      * destruct (ssd_app_inv _ _ _ Srest) as (_ & S2 & _ & _). apply (IH2 (tl ch) S2 Fr').
Qed.

Lemma wf_rev f n : wf (S f) n ->
  (rev (children_of n) = [] \/ length (rev (children_of n)) = S (length (rev (items_of n)))) /\ Forall (wf f) (rev (children_of n)).
Proof.
  cbn [wf]. intros [E|[Hl Hf]].
  - rewrite E. cbn. split; [left; reflexivity|constructor].
  - split; [right; rewrite !rev_length; exact Hl|]. apply Forall_rev, Hf.
Qed.

Lemma desc_spec : forall f, rc_ok f (desc f).
Proof.
  induction f as [|f IH]; intros n hit a Hwf Hs Hh; [destruct Hwf|].
  cbn [desc dflat] in *. destruct (wf_rev f n Hwf) as [Hshape Hwfc].
  destruct (ddrop_spec f _ _ Hshape Hwfc Hs) as [d Hd].
  destruct (ddrop (rev (items_of n)) (rev (children_of n))) as [its' ch'].
  destruct Hd as (Heq & Hd1 & Hd2 & Hd3 & Hd4). rewrite Heq in *.
  destruct (ssd_app_inv_app d (inter (dflat f) its' ch') Hs) as [Sd Sr].
  assert (Hd_nil : hit = true -> d = []).
  { intros E. specialize (Hh E). unfold all_lt in Hh. rewrite Forall_app in Hh. destruct Hh as [Hh _].
    destruct d as [|y d]; [reflexivity|]. inversion Hh; subst. inversion Hd1; subst.
    match goal with H1 : ge_s y = false, H2 : gt_s y = true |- _ => rewrite (gt_ge y H2) in H1; discriminate end. }
  assert (Hh' : hit = true -> all_lt (inter (dflat f) its' ch')).
  { intros E. specialize (Hh E). unfold all_lt in *. rewrite Forall_app in Hh. tauto. }
  pose proof (dloop_spec f (desc f) IH its' ch' hit a Hd3 Hd4 Sr Hd2 Hh') as HL.
  unfold spec_res in *. rewrite filter_app, existsb_app.
  assert (Hfd : filter (keepH hit) d = [] /\ existsb (keepH hit) d = false).
  { destruct hit; [rewrite (Hd_nil eq_refl); split; reflexivity|]. apply filter_keepH_above, Hd1. }
  destruct Hfd as [Hfd Hed]. rewrite Hfd, Hed. cbn [app orb]. exact HL.
Qed.
End Desc.

(* ---------- the descending list is the ascending one reversed ---------- *)
Lemma inter_leaf' F its : inter F its [] = its.
Proof. induction its as [|x its IH]; [reflexivity|]. cbn [inter hd_rec tl app]. rewrite IH. reflexivity. Qed.
Lemma inter_snoc' F : forall its ch x c, length ch = S (length its) -> inter F (its ++ [x]) (ch ++ [c]) = inter F its ch ++ x :: F c.
Proof.
  induction its as [|y its IH]; intros ch x c Hl.
  - destruct ch as [|c0 [|c1 ch]]; cbn in Hl; try lia. cbn. reflexivity.
  - destruct ch as [|c0 ch]; [cbn in Hl; lia|]. cbn [app inter hd_rec tl]. rewrite IH by (cbn in Hl; lia). rewrite <- app_assoc. reflexivity.
Qed.
Lemma inter_rev F G : (forall c, G c = rev (F c)) -> forall its ch, (ch = [] \/ length ch = S (length its)) ->
  inter G (rev its) (rev ch) = rev (inter F its ch).
Proof.
  intros HG. induction its as [|x its IH]; intros ch Hshape.
  - destruct Hshape as [->|Hl]; [reflexivity|]. destruct ch as [|c [|c1 ch]]; cbn in Hl; try lia. cbn. apply HG.
  - destruct Hshape as [->|Hl].
    + cbn [rev]. rewrite !inter_leaf'. reflexivity.
    + destruct ch as [|c ch]; [cbn in Hl; lia|]. cbn [rev inter hd_rec tl].
      rewrite inter_snoc' by (rewrite !rev_length; cbn in Hl; lia).
      rewrite IH by (right; cbn in Hl; lia). rewrite HG. rewrite rev_app_distr. cbn [rev]. rewrite <- app_assoc. reflexivity.
Qed.
Lemma dflat_rev : forall f n, wf f n -> dflat f n = rev (flat f n).
Proof.
  induction f as [|f IH]; intros n Hwf; [destruct Hwf|]. cbn [dflat flat]. cbn [wf] in Hwf.
  destruct Hwf as [E|[Hl Hf]].
  - rewrite E. cbn [rev]. rewrite !inter_leaf'. reflexivity.
  - (* children are well-formed one level down: use the induction hypothesis on them only *)
    assert (Hg : forall its ch, (ch = [] \/ length ch = S (length its)) -> Forall (wf f) ch ->
              inter (dflat f) (rev its) (rev ch) = rev (inter (flat f) its ch)).
    { induction its as [|x its IHi]; intros ch Hshape Hfa.
      - destruct Hshape as [->|Hl']; [reflexivity|]. destruct ch as [|c [|c1 ch]]; cbn in Hl'; try lia. cbn. inversion Hfa; subst. apply IH. assumption.
      - destruct Hshape as [->|Hl'].
        + cbn [rev]. rewrite !inter_leaf'. reflexivity.
        + destruct ch as [|c ch]; [cbn in Hl'; lia|]. inversion Hfa; subst. cbn [rev inter hd_rec tl].
          rewrite inter_snoc' by (rewrite !rev_length; cbn in Hl'; lia).
          rewrite IHi by (try (right; cbn in Hl'; lia); assumption). rewrite (IH c) by assumption.
          rewrite rev_app_distr. cbn [rev]. rewrite <- app_assoc. reflexivity. }
    apply Hg; [right; exact Hl|exact Hf].
Qed.

Lemma ss_rev (l : list Z) : StronglySorted Z.lt l -> StronglySorted gt (rev l).
Proof.
  induction 1 as [|x l Hs IH Hf]; [constructor|]. cbn [rev].
  assert (G : forall a b, StronglySorted gt a -> Forall (fun y => b < y) a -> StronglySorted gt (a ++ [b])).
  { induction a as [|y a IHa]; intros b Sa Fa; cbn [app]; [constructor; constructor|].
    inversion Sa; subst. inversion Fa; subst. constructor; [apply IHa; assumption|]. apply Forall_app. split; [assumption|constructor; [assumption|constructor]]. }
  apply G; [exact IH|]. apply Forall_rev. exact Hf.
Qed.

(* ---------- the property-level statement ---------- *)
Theorem descend_scan_correct A (visit : A -> Z -> A * bool) (start : option Z) (incl : bool) f n a :
  wf f n -> StronglySorted Z.lt (flat f n) ->
  let r := desc A visit start incl f n false a in
  (fst (fst r), snd r) = feed A visit (filter (keepd start incl) (rev (flat f n))) a.
Proof.
  intros Hwf Hs r. rewrite <- (dflat_rev f n Hwf).
  assert (Hsd : StronglySorted gt (dflat f n)) by (rewrite (dflat_rev f n Hwf); apply ss_rev, Hs).
  pose proof (desc_spec A visit start incl f n false a Hwf Hsd (fun E => False_ind _ (Bool.diff_false_true E))) as H.
  unfold spec_res, keepH in H. fold r in H.
  destruct (feed A visit (filter (keepd start incl) (dflat f n)) a) as [a' c].
  destruct H as (-> & -> & _). reflexivity.
Qed.
Print Assumptions descend_scan_correct.
