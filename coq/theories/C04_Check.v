(* C04: what the driver evaluates on every observed case.
   case_accept: the implementation did exactly what the machine-level model (C04_Model.v) does;
   case_holds : the property's observable clauses: every result, Keys/Items/Stats and the four counters equal those
                of the ideal LRU (recency list + trim) of the same capacity, and Size <= Capacity after every call. *)
From Coq Require Import ZArith List Lia Bool.
Require Import LRU Shard Cases_Common.
Require Export LRUOps C04_Model.
Require Import C04_Refine C04_Wide.
Import ListNotations.
Open Scope Z_scope.

(* ---------------- observations ---------------- *)
Definition stats := (Z * Z * Z * Z)%type.                               (* length, size, capacity, evictions *)
(* Keys(), Items(), Stats(), (Length(), Size(), Capacity(), Evictions()) taken after a call *)
Definition snap := (list Z * list (Z * Z) * stats * stats)%type.
Definition sstep := (op * gout * snap)%type.                            (* call, outcome (None = panic), snapshot after it *)
Definition probe := list (Z * Z).                                       (* Peek of every key of the universe: the hits *)
Definition wobs := (wop * gout * probe)%type.

(* calls of a concurrent run: the nine operations and the accessors, each one critical section *)
Inductive cop := COp (o : op) | CKeys | CItems | CStats | CLen | CSize | CCap | CEvs.
Inductive cres := CRes (r : gout) | CRKeys (l : list Z) | CRItems (l : list (Z * Z)) | CRStats (s : stats) | CRNum (z : Z).
(* invocation tick, response tick (one global atomic counter), call, result *)
Definition cevent := (Z * Z * cop * cres)%type.

(* compact ways of writing observations in case files (function application elaborates much faster than nested
   polymorphic pairs).  S1 is used by the harness when Keys() = the keys of Items() and the four single accessors
   = Stats(); S2 spells everything out. *)
Definition Q (a b c d : Z) : stats := (a, b, c, d).
Definition kv (k v : Z) : Z * Z := (k, v).
Definition S1 (items : list (Z * Z)) (s : stats) : snap := (map fst items, items, s, s).
Definition S2 (keys : list Z) (items : list (Z * Z)) (s t : stats) : snap := (keys, items, s, t).
Definition st (o : op) (r : gout) (sn : snap) : sstep := (o, r, sn).
Definition ws (o : wop) (r : gout) (p : probe) : wobs := (o, r, p).
Definition ce (inv resp : Z) (o : cop) (r : cres) : cevent := (inv, resp, o, r).
(* compact notation for bursts: lo, lo+1, .., lo+n-1; the n low base-8 digits of d, least significant first *)
Definition zrange (lo n : Z) : list Z := map (fun i => lo + Z.of_nat i) (seq 0 (Z.to_nat n)).
Fixpoint digs_aux (n : nat) (d : Z) : list Z := match n with O => [] | S m => Z.land d 7 :: digs_aux m (Z.shiftr d 3) end.
Definition digs (d n : Z) : list Z := digs_aux (Z.to_nat n) d.
(* the n low base-64 digits of d, least significant first *)
Fixpoint digs64_aux (n : nat) (d : Z) : list Z := match n with O => [] | S m => Z.land d 63 :: digs64_aux m (Z.shiftr d 6) end.
Definition digs64 (d n : Z) : list Z := digs64_aux (Z.to_nat n) d.
(* items whose key is value / 64 (the values written by bursts are key*64 + goroutine), written as the values alone *)
Definition vit (xs : list Z) : list (Z * Z) := map (fun x => (Z.shiftr x 6, x)) xs.
Definition hq (l : list Z) : list Z * list Z := (l, l).           (* kept slice unchanged *)
Definition hp (a b : list Z) : list Z * list Z := (a, b).         (* copy at return, re-read at the end *)
(* a goroutine's program written as r repetitions of a short cycle of calls *)
Definition rep (r : Z) (c : list op) : list op := concat (repeat c (Z.to_nat r)).
Definition rP : gout := None.                                  (* the call panicked *)
Definition rU : gout := Some RUnit.
Definition rM : gout := Some (RVal None).                      (* miss *)
Definition rV (v : Z) : gout := Some (RVal (Some v)).          (* hit *)
Definition rB (b : bool) : gout := Some (RBool b).
Definition rL (l : list Z) : gout := Some (RList l).

(* Exist(k), Peek(k) at quiescence *)
Definition bprobe := (Z * bool * option Z)%type.
Definition pH (k v : Z) : bprobe := (k, true, Some v).          (* found by both, value v *)
Definition pM (k : Z) : bprobe := (k, false, None).             (* missed by both *)
Definition pX (k : Z) (b : bool) (o : option Z) : bprobe := (k, b, o).

Inductive case :=
| CSeq (v : variant) (cap0 : Z) (steps : list sstep)
| CWide (v : variant) (capacity n : Z) (tab : option (list (Z * nat))) (univ : list Z) (steps : list wobs)
  (* a concurrent run, already linearised by the harness: events in linearisation order, final snapshot *)
| CConc (v : variant) (cap0 : Z) (events : list cevent) (final : snap)
  (* a same-key burst: goroutine g issues call progs[g][j] on key univ[j] (value k*64+g, size sizes[j]; codes: 0 SetIfAbsent
     1 Set 2 Get 3 Delete 4 SetAndGetRemoved 5 Peek), all goroutines concurrently on one fresh cache (wide = Some (shards,
     routing table) for a wide facade, where 0 and 4 are issued as Set); observed only at quiescence: did any call panic,
     Exist and Peek of every key of the universe, and for a single cache Keys/Items/Stats/the four single accessors *)
| CBurst (v : variant) (cap0 : Z) (wide : option (Z * option (list (Z * nat)))) (univ sizes : list Z) (progs : list (list Z))
         (panicked : bool) (probe : list bprobe) (final : option snap)
  (* a SetIfAbsent-only burst on one fresh single cache: ng goroutines, each doing, for every key k of univ in turn,
     SetIfAbsent(k, k*64+g) (size g+1; tiny: 1) immediately followed by Get(k) or Peek(k).  obs[g][j] = the goroutine whose
     value g saw for univ[j] in that read (63 = a miss or a foreign value).  At quiescence: Exist/Peek of every key, snapshot. *)
| CSia (v : variant) (cap0 : Z) (ng : Z) (univ : list Z) (obs : list (list Z)) (panicked : bool) (probe : list bprobe) (final : snap)
  (* a sequential history whose returned slices were kept by the caller (removed lists of SetAndGetRemoved, sampled Keys() and
     Items() flattened to k1,v1,k2,v2,..): held = (deep copy taken when the call returned, the same slice re-read at the end) *)
| CHeld (v : variant) (cap0 : Z) (steps : list sstep) (held : list (list Z * list Z))
  (* concurrent SetAndGetRemoved only: ng goroutines insert the fresh keys lo..lo+m-1 (goroutine g takes those with
     (k-lo) mod ng = g; value = key; size rsize), each keeping the removed lists it was given; at quiescence: per kept list
     (copy at return, re-read after the barrier), and the snapshot *)
| CRem (v : variant) (cap0 : Z) (lo m : Z) (lists : list (list Z * list Z)) (panicked : bool) (final : snap)
  (* readers calling Stats() while writers Set / SetIfAbsent / SetAndGetRemoved / Delete items that all have size c:
     reads[r] = the distinct answers reader r got, in order; snapshot at quiescence *)
| CStat (v : variant) (cap0 c : Z) (reads : list (list stats)) (panicked : bool) (final : snap)
  (* first touches of FRESH wide caches: a batch of trials; in each trial a new wide cache (capacity cap0, n shards, routing
     tab) is built and goroutine j issues, at the same instant as the others, its one call codes[j] on keys[j] (1 = Set with
     value keys[j]*64+j and size sizes[j]; 2 Get, 5 Peek, 6 Exist); after all goroutines have returned, bit j of the trial's
     mask says whether keys[j] is found by Exist and Peek with that value (mask -1: Exist and Peek disagree or a foreign
     value).  outcomes = the masks of all trials of the batch, run-length encoded (mask, number of trials). *)
| CFirst (v : variant) (cap0 n : Z) (tab : option (list (Z * nat))) (keys sizes codes : list Z) (outcomes : list (Z * Z)) (panicked : bool)
  (* a call that did not return: after the history `steps` one of the calls `pending` (or an accessor) was still blocked
     after the harness's generous bound (20 s; the calls take microseconds) *)
| CHung (v : variant) (cap0 : Z) (steps : list sstep) (pending : list op)
  (* own-key churn: goroutine g runs progs[g] on keys no other goroutine writes (Set / SetIfAbsent / SetAndGetRemoved / Delete
     / reads), all goroutines concurrently on one fresh cache (wide = Some (shards, routing table) for a facade) that can hold
     every key with its largest size; observed at quiescence: panics, Exist/Peek of every written key, and for a single cache
     Keys/Items/Stats/the single accessors *)
| CChurn (v : variant) (cap0 : Z) (wide : option (Z * option (list (Z * nat)))) (progs : list (list op))
         (panicked : bool) (probe : list bprobe) (final : option snap).

(* ---------------- decidable equalities ---------------- *)
Definition res_eqb (a b : res) : bool :=
  match a, b with
  | RVal x, RVal y => opt_eqb Z.eqb x y
  | RBool x, RBool y => Bool.eqb x y
  | RUnit, RUnit => true
  | RList x, RList y => zlist_eqb x y
  | _, _ => false
  end.
Definition gout_eqb : gout -> gout -> bool := opt_eqb res_eqb.
Definition zz_eqb (a b : Z * Z) : bool := Z.eqb (fst a) (fst b) && Z.eqb (snd a) (snd b).
Definition stats_eqb (a b : stats) : bool :=
  let '(a1, a2, a3, a4) := a in let '(b1, b2, b3, b4) := b in Z.eqb a1 b1 && Z.eqb a2 b2 && Z.eqb a3 b3 && Z.eqb a4 b4.
Definition snap_eqb (a b : snap) : bool :=
  let '(k1, i1, s1, t1) := a in let '(k2, i2, s2, t2) := b in
  zlist_eqb k1 k2 && list_eqb zz_eqb i1 i2 && stats_eqb s1 s2 && stats_eqb t1 t2.
Definition cres_eqb (a b : cres) : bool :=
  match a, b with
  | CRes x, CRes y => gout_eqb x y
  | CRKeys x, CRKeys y => zlist_eqb x y
  | CRItems x, CRItems y => list_eqb zz_eqb x y
  | CRStats x, CRStats y => stats_eqb x y
  | CRNum x, CRNum y => Z.eqb x y
  | _, _ => false
  end.

Lemma res_eqb_eq a b : res_eqb a b = true -> a = b.
Proof.
  destruct a, b; cbn; try discriminate; intros H.
  - f_equal. apply (opt_eqb_eq Z.eqb); [intros x y Hx; now apply Z.eqb_eq|exact H].
  - f_equal. now apply Bool.eqb_prop.
  - reflexivity.
  - f_equal. now apply zlist_eqb_eq.
Qed.
Lemma gout_eqb_eq a b : gout_eqb a b = true -> a = b.
Proof. apply opt_eqb_eq. exact res_eqb_eq. Qed.
Lemma zz_eqb_eq a b : zz_eqb a b = true -> a = b.
Proof. destruct a, b. unfold zz_eqb. cbn. intros H. apply andb_prop in H as [H1 H2]. apply Z.eqb_eq in H1, H2. now subst. Qed.
Lemma stats_eqb_eq a b : stats_eqb a b = true -> a = b.
Proof.
  destruct a as [[[a1 a2] a3] a4], b as [[[b1 b2] b3] b4]. cbn. intros H.
  apply andb_prop in H as [H H4]. apply andb_prop in H as [H H3]. apply andb_prop in H as [H1 H2].
  apply Z.eqb_eq in H1, H2, H3, H4. now subst.
Qed.
Lemma snap_eqb_eq a b : snap_eqb a b = true -> a = b.
Proof.
  destruct a as [[[k1 i1] s1] t1], b as [[[k2 i2] s2] t2]. cbn. intros H.
  apply andb_prop in H as [H H4]. apply andb_prop in H as [H H3]. apply andb_prop in H as [H1 H2].
  apply zlist_eqb_eq in H1. apply (list_eqb_eq zz_eqb zz_eqb_eq) in H2. apply stats_eqb_eq in H3, H4. now subst.
Qed.
Lemma cres_eqb_eq a b : cres_eqb a b = true -> a = b.
Proof.
  destruct a, b; cbn; try discriminate; intros H; f_equal.
  - now apply gout_eqb_eq.
  - now apply zlist_eqb_eq.
  - now apply (list_eqb_eq zz_eqb zz_eqb_eq).
  - now apply stats_eqb_eq.
  - now apply Z.eqb_eq.
Qed.

(* ---------------- the domain of the property, decidably ---------------- *)
Definition inB (z : Z) : bool := (0 <=? z) && (z <=? B).
Definition op_domb (o : op) : bool :=
  match o with Set_ _ _ sz | SetAndGetRemoved _ _ sz | SetIfAbsent _ _ sz => inB sz | SetCapacity c => inB c | _ => true end.
Lemma inB_spec z : inB z = true -> 0 <= z <= B.
Proof. unfold inB. intros H. apply andb_prop in H as [H1 H2]. apply Z.leb_le in H1, H2. lia. Qed.
Lemma op_domb_spec o : op_domb o = true -> op_dom o.
Proof. destruct o; cbn; intros H; split; cbn; auto; apply inB_spec in H; lia. Qed.

(* ---------------- one sequential history ---------------- *)
Definition snap_of (c : lru) : snap := (keys_of c, items_of c, stats_of c, stats_of c).
Definition isnap (s : istate) : snap := (ikeys s, iitems s, istats s, istats s).
(* clauses of the property that can be read off one snapshot: Size <= Capacity, Length = number of keys listed *)
Definition stats_bound (keys : list Z) (s : stats) : bool :=
  let '(len, sz, cp, _) := s in (sz <=? cp) && (len =? Z.of_nat (length keys)).
Definition snap_bound (sn : snap) : bool := let '(k, _, s, t) := sn in stats_bound k s && stats_bound k t.

Fixpoint seq_accept (v : variant) (c : lru) (steps : list sstep) : bool :=
  match steps with
  | [] => true
  | (o, r, sn) :: rest => let '(c', x) := mstep v c o in gout_eqb r x && snap_eqb sn (snap_of c') && seq_accept v c' rest
  end.

Fixpoint seq_holds (v : variant) (s : istate) (steps : list sstep) : bool :=
  match steps with
  | [] => true
  | (o, r, sn) :: rest =>
    let '(s', x) := istep s (norm v o) in
    gout_eqb r (Some x) && snap_eqb sn (isnap s') && snap_bound sn && seq_holds v s' rest
  end.

Definition seq_dom (cap0 : Z) (steps : list sstep) : bool := inB cap0 && forallb (fun st => op_domb (fst (fst st))) steps.

(* ---------------- one history through a wide facade ---------------- *)
Definition wroute (n : Z) (tab : option (list (Z * nat))) : Z -> nat :=
  match tab with None => route_simple n | Some t => route_tab t end.
Definition wprobe (route : Z -> nat) (sh : wstate) (univ : list Z) : probe :=
  flat_map (fun k => match lookup k (lst (sh (route k))) with Some e => [(k, valof e)] | None => [] end) univ.
Definition iwprobe (route : Z -> nat) (ish : iwstate) (univ : list Z) : probe :=
  flat_map (fun k => match lookup k (ilist (ish (route k))) with Some e => [(k, valof e)] | None => [] end) univ.

Fixpoint wide_accept (v : variant) (route : Z -> nat) (univ : list Z) (sh : wstate) (steps : list wobs) : bool :=
  match steps with
  | [] => true
  | (o, r, pr) :: rest =>
    let '(sh', x) := wide_step v route sh o in
    gout_eqb r x && list_eqb zz_eqb pr (wprobe route sh' univ) && wide_accept v route univ sh' rest
  end.
Fixpoint wide_holds (v : variant) (route : Z -> nat) (univ : list Z) (ish : iwstate) (steps : list wobs) : bool :=
  match steps with
  | [] => true
  | (o, r, pr) :: rest =>
    let '(ish', x) := iwide_step v route ish o in
    gout_eqb r (Some x) && list_eqb zz_eqb pr (iwprobe route ish' univ) && wide_holds v route univ ish' rest
  end.
Definition wide_domb (capacity n : Z) (steps : list wobs) : bool :=
  (1 <=? n) && (0 <=? capacity) && (capacity <? B) && forallb (fun st => op_domb (to_op (fst (fst st)))) steps.

(* ---------------- one concurrent run, linearised ---------------- *)
Definition cstep (v : variant) (c : lru) (o : cop) : lru * cres :=
  match o with
  | COp o' => let '(c', x) := mstep v c o' in (c', CRes x)
  | CKeys => (c, CRKeys (keys_of c))
  | CItems => (c, CRItems (items_of c))
  | CStats => (c, CRStats (stats_of c))
  | CLen => (c, CRNum (Z.of_nat (length (lst c))))
  | CSize => (c, CRNum (size c))
  | CCap => (c, CRNum (cap c))
  | CEvs => (c, CRNum (evs c))
  end.
Definition icstep (v : variant) (s : istate) (o : cop) : istate * cres :=
  match o with
  | COp o' => let '(s', x) := istep s (norm v o') in (s', CRes (Some x))
  | CKeys => (s, CRKeys (ikeys s))
  | CItems => (s, CRItems (iitems s))
  | CStats => (s, CRStats (istats s))
  | CLen => (s, CRNum (Z.of_nat (length (ilist s))))
  | CSize => (s, CRNum (total (ilist s)))
  | CCap => (s, CRNum (snd (fst s)))
  | CEvs => (s, CRNum (snd s))
  end.
(* the order respects real time: no call is placed after a call that was invoked only after it had returned.
   hi = the largest invocation tick so far; every later event must have responded after it. *)
Fixpoint rt_ok (hi : Z) (evs : list cevent) : bool :=
  match evs with
  | [] => true
  | (inv, resp, _, _) :: rest => (inv <? resp) && (hi <? resp) && rt_ok (Z.max hi inv) rest
  end.
Fixpoint conc_accept (v : variant) (c : lru) (evs : list cevent) (final : snap) : bool :=
  match evs with
  | [] => snap_eqb final (snap_of c)
  | (_, _, o, r) :: rest => let '(c', x) := cstep v c o in cres_eqb r x && conc_accept v c' rest final
  end.
Fixpoint conc_holds (v : variant) (s : istate) (evs : list cevent) (final : snap) : bool :=
  match evs with
  | [] => snap_eqb final (isnap s) && snap_bound final
  | (_, _, o, r) :: rest => let '(s', x) := icstep v s o in cres_eqb r x && conc_holds v s' rest final
  end.
Definition cop_domb (o : cop) : bool := match o with COp o' => op_domb o' | _ => true end.
Definition conc_dom (cap0 : Z) (evs : list cevent) : bool := inB cap0 && forallb (fun e => cop_domb (snd (fst e))) evs.

(* ---------------- a same-key burst, observed at quiescence ----------------
   What the ideal cache guarantees for EVERY linearisation of the burst (no linearisation is searched):
   Keys() has no duplicates; Keys() = keys of Items(); Length = len(Keys()); the single accessors repeat Stats(); the
   capacity is unchanged; every listed item was written by a call of the burst; Size = sum of the listed items' sizes
   (tiny: = Length) and 0 <= Size <= Capacity; a key of the universe Exists / Peeks iff it is listed, with the listed value;
   when the distinct keys written fit into the capacity nothing was evicted and, unless the burst deletes, every written key
   is present.  (Proved of every history of the model in C04_Burst.v.) *)
Definition is_bwrite (c : Z) : bool := (c =? 0) || (c =? 1) || (c =? 4).
Definition bval (g k : Z) : Z := k * 64 + g.
Definition bsize (v : variant) (sz : Z) : Z := match v with VTiny => 1 | VStd => sz end.
Definition bwrite := (Z * Z * Z)%type.                            (* key, value, size *)
Fixpoint row_writes (v : variant) (g : Z) (univ sizes row : list Z) : list bwrite :=
  match univ, sizes, row with
  | k :: u, sz :: ss, c :: r => (if is_bwrite c then [(k, bval g k, bsize v sz)] else []) ++ row_writes v g u ss r
  | _, _, _ => []
  end.
Fixpoint all_writes (v : variant) (g : Z) (univ sizes : list Z) (progs : list (list Z)) : list bwrite :=
  match progs with [] => [] | row :: r => row_writes v g univ sizes row ++ all_writes v (g + 1) univ sizes r end.
Definition has_delete (progs : list (list Z)) : bool := existsb (existsb (Z.eqb 3)) progs.
Definition wkeyb (k : Z) (w : bwrite) : bool := fst (fst w) =? k.
Definition wsize (k x : Z) (W : list bwrite) : option Z :=
  option_map snd (find (fun w => wkeyb k w && (snd (fst w) =? x)) W).
Definition written (k : Z) (W : list bwrite) : bool := existsb (wkeyb k) W.
Definition ksize (k : Z) (W : list bwrite) : Z := match find (wkeyb k) W with Some w => snd w | None => 0 end.
Definition zmem (k : Z) (l : list Z) : bool := existsb (Z.eqb k) l.
Fixpoint nodupb (l : list Z) : bool := match l with [] => true | x :: r => negb (zmem x r) && nodupb r end.
Definition zsum (l : list Z) : Z := fold_right Z.add 0 l.
(* the summed size of the distinct keys written, among ks *)
Definition need (W : list bwrite) (ks : list Z) : Z := zsum (map (fun k => ksize k W) ks).
Definition item_sizes (W : list bwrite) (items : list (Z * Z)) : list (option Z) := map (fun it => wsize (fst it) (snd it) W) items.
Definition osum (l : list (option Z)) : Z := zsum (map (fun o => match o with Some z => z | None => 0 end) l).
Definition bprobe_eqb (a b : bprobe) : bool :=
  let '(k1, b1, o1) := a in let '(k2, b2, o2) := b in (k1 =? k2) && Bool.eqb b1 b2 && opt_eqb Z.eqb o1 o2.
Definition expected_probe (items : list (Z * Z)) (univ : list Z) : list bprobe :=
  map (fun k => match find (fun it => fst it =? k) items with Some it => (k, true, Some (snd it)) | None => (k, false, None) end) univ.

Definition burst_single_ok (cap0 : Z) (W : list bwrite) (del : bool) (univ : list Z) (panicked : bool) (probe : list bprobe) (sn : snap) : bool :=
  let '(keys, items, s, t) := sn in
  let '(len, sz, cp, ev) := s in
  negb panicked
  && nodupb keys && zlist_eqb keys (map fst items) && stats_eqb s t && (len =? Z.of_nat (length keys)) && (cp =? cap0)
  && forallb is_some (item_sizes W items) && (sz =? osum (item_sizes W items)) && (0 <=? sz) && (sz <=? cap0) && (0 <=? ev)
  && list_eqb bprobe_eqb probe (expected_probe items univ)
  && (if need W univ <=? cap0 then (ev =? 0) && (del || forallb (fun k => negb (written k W) || zmem k keys) univ) else true).

(* wide facade: only Exist / Peek are observable; per shard the present keys fit, and a shard whose written keys all fit
   has lost none of them *)
Definition burst_wide_ok (cap0 n : Z) (route : Z -> nat) (W : list bwrite) (del : bool) (univ : list Z) (panicked : bool) (probe : list bprobe) : bool :=
  let present := flat_map (fun p => match p with (k, _, Some x) => [(k, x)] | _ => [] end) probe in
  let pkeys := map fst present in
  negb panicked
  && zlist_eqb (map (fun p => fst (fst p)) probe) univ
  && forallb (fun p => let '(k, b, o) := p in Bool.eqb b (is_some o) && match o with Some x => is_some (wsize k x W) | None => true end) probe
  && forallb (fun i =>
       let ks := filter (fun k => Nat.eqb (route k) i) univ in
       (osum (item_sizes W (filter (fun it => Nat.eqb (route (fst it)) i) present)) <=? shard_cap cap0 n)
       && (if need W ks <=? shard_cap cap0 n then del || forallb (fun k => negb (written k W) || zmem k pkeys) ks else true))
     (nodup Nat.eq_dec (map route univ)).

Definition burst_dom (cap0 : Z) (wide : option (Z * option (list (Z * nat)))) (univ sizes : list Z) (progs : list (list Z)) : bool :=
  inB cap0 && nodupb univ && forallb inB sizes && (length univ =? length sizes)%nat
  && forallb (fun row => (length row =? length univ)%nat) progs
  && match wide with Some (n, _) => (1 <=? n) && (cap0 <? B) | None => true end.

Definition burst_ok (v : variant) (cap0 : Z) (wide : option (Z * option (list (Z * nat)))) (univ sizes : list Z) (progs : list (list Z))
           (panicked : bool) (probe : list bprobe) (final : option snap) : bool :=
  let W := all_writes v 0 univ sizes progs in
  match wide, final with
  | None, Some sn => burst_single_ok cap0 W (has_delete progs) univ panicked probe sn
  | Some (n, tab), None => burst_wide_ok cap0 n (wroute n tab) W (has_delete progs) univ panicked probe
  | _, _ => false
  end.

(* ---------------- a SetIfAbsent-only burst ----------------
   The only writes are SetIfAbsent calls with pairwise distinct values, and the capacity holds every key with the largest
   value, so in EVERY linearisation the first SetIfAbsent of a key wins and nothing ever replaces or evicts it: per key, every
   read that followed a SetIfAbsent of that key during the burst and the value present at quiescence are one and the same
   value; every key is present; Size = the sum of the winners' sizes; nothing was evicted.  (C04_Sia.v) *)
Definition sia_size (v : variant) (w : Z) : Z := bsize v (w + 1).
Definition sia_ok (v : variant) (cap0 ng : Z) (univ : list Z) (obs : list (list Z)) (panicked : bool) (probe : list bprobe) (sn : snap) : bool :=
  let '(keys, items, s, t) := sn in
  let '(len, sz, cp, ev) := s in
  let winners := map (fun it => snd it - fst it * 64) items in
  negb panicked
  && nodupb keys && zlist_eqb keys (map fst items) && stats_eqb s t && (len =? Z.of_nat (length keys)) && (cp =? cap0) && (ev =? 0)
  && (length keys =? length univ)%nat
  && list_eqb bprobe_eqb probe (expected_probe items univ)
  && forallb (fun w => (0 <=? w) && (w <? ng)) winners
  && (sz =? zsum (map (sia_size v) winners))
  && forallb (fun jk =>
       match find (fun it => fst it =? snd jk) items with
       | Some it => let w := snd it - fst it * 64 in forallb (fun row => nth (fst jk) row (-1) =? w) obs
       | None => false
       end) (combine (seq 0 (length univ)) univ).
Definition sia_dom (v : variant) (cap0 ng : Z) (univ : list Z) (obs : list (list Z)) : bool :=
  inB cap0 && nodupb univ && (1 <=? ng) && (ng <=? 62) && (Z.of_nat (length obs) =? ng)
  && (Z.of_nat (length univ) * sia_size v (ng - 1) <=? cap0).

(* ---------------- results the caller keeps ---------------- *)
(* the cache is value-semantic: a slice it returned is the caller's and never changes afterwards *)
Definition held_ok (held : list (list Z * list Z)) : bool := forallb (fun p => zlist_eqb (fst p) (snd p)) held.

(* concurrent SetAndGetRemoved of pairwise distinct fresh keys: in EVERY linearisation each inserted value is reported removed
   by exactly one call or is still cached (C04_Rem.v); the eviction counter counts the reported values *)
Definition rsize (v : variant) (k : Z) : Z := bsize v (1 + k mod 3).
Definition rem_ok (v : variant) (cap0 lo m : Z) (lists : list (list Z * list Z)) (panicked : bool) (sn : snap) : bool :=
  let '(keys, items, s, t) := sn in
  let '(len, sz, cp, ev) := s in
  let removed := flat_map fst lists in
  let all := removed ++ keys in
  negb panicked && held_ok lists
  && nodupb all && (Z.of_nat (length all) =? m) && forallb (fun x => (lo <=? x) && (x <? lo + m)) all
  && list_eqb zz_eqb items (map (fun k => (k, k)) keys)
  && stats_eqb s t && (len =? Z.of_nat (length keys)) && (cp =? cap0) && (ev =? Z.of_nat (length removed))
  && (sz =? zsum (map (rsize v) keys)) && (0 <=? sz) && (sz <=? cap0).
Definition rem_dom (cap0 lo m : Z) : bool := inB cap0 && (0 <=? lo) && (0 <=? m) && (lo + m <? B).

(* ---------------- Stats() under concurrent writers, all items of one size ----------------
   Stats() is one critical section, so each answer is the cache's state at some point of the linearisation; when every item
   has size c every state has Size = c * Length <= Capacity (C04_Theorems.uniform_size), the capacity never changes, and the
   eviction counter never decreases. *)
Definition stat_one (v : variant) (cap0 c : Z) (s : stats) : bool :=
  let '(len, sz, cp, ev) := s in (sz =? bsize v c * len) && (0 <=? len) && (sz <=? cap0) && (cp =? cap0) && (0 <=? ev).
Fixpoint ev_mono (prev : Z) (l : list stats) : bool :=
  match l with [] => true | (_, _, _, ev) :: r => (prev <=? ev) && ev_mono ev r end.
Definition stat_ok (v : variant) (cap0 c : Z) (reads : list (list stats)) (panicked : bool) (sn : snap) : bool :=
  let '(keys, items, s, t) := sn in
  negb panicked && forallb (fun l => forallb (stat_one v cap0 c) l && ev_mono 0 l) reads
  && stat_one v cap0 c s && stats_eqb s t && nodupb keys && zlist_eqb keys (map fst items)
  && (let '(len, _, _, ev) := s in (len =? Z.of_nat (length keys)) && forallb (fun l => ev_mono 0 (l ++ [s])) reads).

(* ---------------- first touches of fresh wide caches ----------------
   The keys are pairwise distinct, nothing is deleted and for every shard the items Set into it fit (first_dom): whatever the
   schedule, at quiescence exactly the keys that were Set are present, with their values (C04_First.v). *)
Fixpoint expected_mask (codes : list Z) (bit : Z) : Z :=
  match codes with [] => 0 | c :: r => (if c =? 1 then bit else 0) + expected_mask r (2 * bit) end.
Definition first_sets (v : variant) (keys sizes codes : list Z) : list (Z * Z) :=      (* key, size of the Set calls *)
  flat_map (fun p => if snd p =? 1 then [fst p] else []) (combine (combine keys (map (bsize v) sizes)) codes).
Definition first_dom (v : variant) (cap0 n : Z) (route : Z -> nat) (keys sizes codes : list Z) : bool :=
  (1 <=? n) && (0 <=? cap0) && (cap0 <? B) && nodupb keys && forallb inB sizes
  && (length keys =? length sizes)%nat && (length keys =? length codes)%nat && (Z.of_nat (length keys) <=? 60)
  && forallb (fun i => zsum (map snd (filter (fun ks => Nat.eqb (route (fst ks)) i) (first_sets v keys sizes codes))) <=? shard_cap cap0 n)
       (nodup Nat.eq_dec (map route keys)).
Definition first_ok (codes : list Z) (outcomes : list (Z * Z)) (panicked : bool) : bool :=
  negb panicked && forallb (fun oc => (fst oc =? expected_mask codes 1) && (0 <? snd oc)) outcomes.

(* ---------------- own-key churn ----------------
   The goroutines write disjoint key sets and the cache can hold every key with its largest size, so nothing is ever evicted
   and what a key holds at the end depends only on the calls on that key, which all come from one goroutine in program order
   (C04_Churn.v).  Hence every linearisation ends with the same contents as the goroutines run one after the other: the same
   key -> value map, Length = number of surviving keys, Size = their summed size, Evictions = 0.  (The recency order does
   depend on the interleaving and is not compared.) *)
Definition op_key (o : op) : list Z :=
  match o with Get k | Peek k | Exist k | Set_ k _ _ | SetAndGetRemoved k _ _ | SetIfAbsent k _ _ | Delete k => [k] | _ => [] end.
Definition op_wsize (v : variant) (o : op) : list (Z * Z) :=
  match norm v o with Set_ k _ s | SetAndGetRemoved k _ s | SetIfAbsent k _ s => [(k, s)] | _ => [] end.
Definition is_write_op (o : op) : bool := match o with Set_ _ _ _ | SetAndGetRemoved _ _ _ | SetIfAbsent _ _ _ | Delete _ => true | _ => false end.
(* duplicates removed, the last occurrence of each key kept *)
Definition zdedup (l : list Z) : list Z := fold_right (fun k acc => if zmem k acc then acc else k :: acc) [] l.
Definition churn_keys (progs : list (list op)) : list Z := zdedup (flat_map op_key (concat progs)).
(* the largest size ever written to k *)
Definition kbound (v : variant) (ops : list op) (k : Z) : Z :=
  fold_right Z.max 0 (map snd (filter (fun p => fst p =? k) (flat_map (op_wsize v) ops))).
Definition churn_dom (v : variant) (cap0 : Z) (wide : option (Z * option (list (Z * nat)))) (progs : list (list op)) : bool :=
  let ops := concat progs in
  let cap := match wide with Some (n, _) => shard_cap cap0 n | None => cap0 end in
  inB cap0 && forallb op_domb ops
  && forallb (fun o => match o with Clear | SetCapacity _ => false | _ => true end) ops
  (* a key is written by at most one goroutine (others may read it) *)
  && forallb (fun k => (length (filter (fun p => zmem k (flat_map op_key (filter is_write_op p))) progs) <=? 1)%nat)
       (zdedup (flat_map op_key (filter is_write_op ops)))
  && (zsum (map (kbound v ops) (churn_keys progs)) <=? cap)
  && match wide with Some (n, _) => (1 <=? n) && (cap0 <? B) | None => true end.

Definition churn_ok (v : variant) (cap0 : Z) (wide : option (Z * option (list (Z * nat)))) (progs : list (list op))
           (panicked : bool) (probe : list bprobe) (final : option snap) : bool :=
  let ops := map (norm v) (concat progs) in
  let univ := churn_keys progs in
  negb panicked &&
  match wide, final with
  | None, Some (keys, items, s, t) =>
      let '(l, cp, ev) := fst (irun (new_istate cap0) ops) in
      let '(len, sz, cp', ev') := s in
      nodupb keys && zlist_eqb keys (map fst items) && stats_eqb s t
      && (len =? Z.of_nat (length keys)) && (Z.of_nat (length keys) =? Z.of_nat (length l))
      && forallb (fun it => match lookup (fst it) l with Some e => valof e =? snd it | None => false end) items
      && (sz =? total l) && (cp' =? cap0) && (ev' =? 0) && (ev =? 0)
      && list_eqb bprobe_eqb probe (expected_probe items univ)
  | Some (n, tab), None =>
      let route := wroute n tab in
      let run := fix go (ish : iwstate) (os : list op) : iwstate :=
        match os with
        | [] => ish
        | o :: r => let i := route (match op_key o with k :: _ => k | [] => 0 end) in
                    go (upd ish i (fst (istep (ish i) o))) r
        end in
      let ish := run (iwide_init cap0 n) ops in
      list_eqb bprobe_eqb probe
        (map (fun k => match lookup k (ilist (ish (route k))) with Some e => (k, true, Some (valof e)) | None => (k, false, None) end) univ)
  | _, _ => false
  end.

Definition hung_dom (cap0 : Z) (steps : list sstep) (pending : list op) : bool := seq_dom cap0 steps && forallb op_domb pending.

(* ---------------- the two functions the driver evaluates ---------------- *)
Definition case_accept (c : case) : bool :=
  match c with
  | CSeq v cap0 steps => seq_accept v (new_lru cap0) steps
  | CWide v capacity n tab univ steps => wide_accept v (wroute n tab) univ (wide_init capacity n) steps
  | CConc v cap0 evs final => rt_ok (-1) evs && conc_accept v (new_lru cap0) evs final
    (* a burst has no single model run to compare with: accepted = consistent with every linearisation's guarantees *)
  | CBurst v cap0 wide univ sizes progs panicked probe final => burst_ok v cap0 wide univ sizes progs panicked probe final
  | CSia v cap0 ng univ obs panicked probe final => sia_ok v cap0 ng univ obs panicked probe final
  | CHeld v cap0 steps held => seq_accept v (new_lru cap0) steps && held_ok held
  | CRem v cap0 lo m lists panicked final => rem_ok v cap0 lo m lists panicked final
  | CStat v cap0 c reads panicked final => stat_ok v cap0 c reads panicked final
  | CFirst v cap0 n tab keys sizes codes outcomes panicked => first_ok codes outcomes panicked
  | CHung _ _ _ _ => false                          (* the model's calls always return *)
  | CChurn v cap0 wide progs panicked probe final => churn_ok v cap0 wide progs panicked probe final
  end.

(* outside the property's quantifier (negative or absurdly large sizes / capacities) nothing is claimed *)
Definition case_holds (c : case) : bool :=
  match c with
  | CSeq v cap0 steps => if seq_dom cap0 steps then seq_holds v (new_istate cap0) steps else true
  | CWide v capacity n tab univ steps =>
      if wide_domb capacity n steps then wide_holds v (wroute n tab) univ (iwide_init capacity n) steps else true
  | CConc v cap0 evs final => if conc_dom cap0 evs then rt_ok (-1) evs && conc_holds v (new_istate cap0) evs final else true
  | CBurst v cap0 wide univ sizes progs panicked probe final =>
      if burst_dom cap0 wide univ sizes progs then burst_ok v cap0 wide univ sizes progs panicked probe final else true
  | CSia v cap0 ng univ obs panicked probe final =>
      if sia_dom v cap0 ng univ obs then sia_ok v cap0 ng univ obs panicked probe final else true
  | CHeld v cap0 steps held => if seq_dom cap0 steps then seq_holds v (new_istate cap0) steps && held_ok held else true
  | CRem v cap0 lo m lists panicked final => if rem_dom cap0 lo m then rem_ok v cap0 lo m lists panicked final else true
  | CStat v cap0 c reads panicked final => if inB cap0 && inB c then stat_ok v cap0 c reads panicked final else true
  | CFirst v cap0 n tab keys sizes codes outcomes panicked =>
      if first_dom v cap0 n (wroute n tab) keys sizes codes then first_ok codes outcomes panicked else true
  | CHung v cap0 steps pending => negb (hung_dom cap0 steps pending)   (* inside the domain every call returns (c04_no_panic) *)
  | CChurn v cap0 wide progs panicked probe final =>
      if churn_dom v cap0 wide progs then churn_ok v cap0 wide progs panicked probe final else true
  end.

(* ---------------- soundness ---------------- *)
Lemma snap_of_isnap v c : MInv v c -> snap_of c = isnap (abs c) /\ snap_bound (snap_of c) = true.
Proof.
  intros HI. pose proof (MInv_Inv _ _ HI) as (Hs & _ & _ & _ & Hle).
  destruct (observables_abs c Hs) as (A1 & A2 & A3). split.
  - unfold snap_of, isnap. now rewrite A1, A2, A3.
  - unfold snap_of, snap_bound, stats_of, stats_bound, keys_of. rewrite map_length.
    replace (size c <=? cap c) with true by (symmetry; apply Z.leb_le; lia). rewrite Z.eqb_refl. reflexivity.
Qed.

Lemma seq_sound v steps : forall c, MInv v c -> forallb (fun st => op_domb (fst (fst st))) steps = true ->
  seq_accept v c steps = true -> seq_holds v (abs c) steps = true.
Proof.
  induction steps as [|[[o r] sn] steps IH]; intros c HI Hd Ha; [reflexivity|].
  cbn [forallb fst] in Hd. apply andb_prop in Hd as [Ho Hd]. destruct (op_domb_spec o Ho) as [Hok Hfit].
  destruct (mstep_refines v c o HI Hok Hfit) as (A & R & I).
  cbn [seq_accept seq_holds] in *. destruct (mstep v c o) as [c' x]. destruct (istep (abs c) (norm v o)) as [s' y].
  cbn [fst snd] in A, R, I. subst s' x.
  apply andb_prop in Ha as [Ha Hrest]. apply andb_prop in Ha as [Hr Hs].
  apply snap_eqb_eq in Hs. destruct (snap_of_isnap v c' I) as [E Hb]. subst sn.
  rewrite Hr, Hb, <- E. cbn [andb].
  replace (snap_eqb (snap_of c') (snap_of c')) with true; [cbn [andb]; apply IH; assumption|].
  symmetry. clear. destruct (snap_of c') as [[[k i] [[[a1 a2] a3] a4]] [[[b1 b2] b3] b4]]. cbn.
  unfold zlist_eqb. rewrite !list_eqb_refl, !Z.eqb_refl; [reflexivity| |apply Z.eqb_refl].
  intros [p q]. unfold zz_eqb. cbn. now rewrite !Z.eqb_refl.
Qed.

Lemma zz_list_refl (l : list (Z * Z)) : list_eqb zz_eqb l l = true.
Proof. apply list_eqb_refl. intros [p q]. unfold zz_eqb. cbn. now rewrite !Z.eqb_refl. Qed.

Lemma wprobe_eq v route sh ish univ : wrel v sh ish -> wprobe route sh univ = iwprobe route ish univ.
Proof.
  intros HR. unfold wprobe, iwprobe. induction univ as [|k u IH]; [reflexivity|]. cbn [flat_map].
  destruct (HR (route k)) as [_ HA]. rewrite (abs_lst _ _ HA), IH. reflexivity.
Qed.

Lemma wide_sound v route univ steps : forall sh ish, wrel v sh ish ->
  forallb (fun st => op_domb (to_op (fst (fst st)))) steps = true ->
  wide_accept v route univ sh steps = true -> wide_holds v route univ ish steps = true.
Proof.
  induction steps as [|[[o r] pr] steps IH]; intros sh ish HR Hd Ha; [reflexivity|].
  cbn [forallb fst] in Hd. apply andb_prop in Hd as [Ho Hd].
  destruct (wide_step_refines v route sh ish o HR (op_domb_spec _ Ho)) as (R & HR').
  cbn [wide_accept wide_holds] in *. destruct (wide_step v route sh o) as [sh' x]. destruct (iwide_step v route ish o) as [ish' y].
  cbn [fst snd] in R, HR'. subst x.
  apply andb_prop in Ha as [Ha Hrest]. apply andb_prop in Ha as [Hr Hp].
  rewrite Hr, <- (wprobe_eq v route sh' ish' univ HR'), Hp. cbn [andb]. apply (IH sh' ish'); assumption.
Qed.

Lemma cstep_refines v c o : MInv v c -> cop_domb o = true ->
  snd (cstep v c o) = snd (icstep v (abs c) o) /\ abs (fst (cstep v c o)) = fst (icstep v (abs c) o) /\ MInv v (fst (cstep v c o)).
Proof.
  intros HI Hd. pose proof (MInv_Inv _ _ HI) as (Hs & _).
  destruct (observables_abs c Hs) as (A1 & A2 & A3).
  destruct o as [o| | | | | | | ]; cbn [cstep icstep cop_domb] in *.
  - destruct (op_domb_spec o Hd) as [Hok Hfit]. destruct (mstep_refines v c o HI Hok Hfit) as (A & R & I).
    destruct (mstep v c o) as [c' x]. destruct (istep (abs c) (norm v o)) as [s' y]. cbn [fst snd] in *. subst. auto.
  - cbn [fst snd]. rewrite A1. auto.
  - cbn [fst snd]. rewrite A2. auto.
  - cbn [fst snd]. rewrite A3. auto.
  - cbn [fst snd]. auto.
  - cbn [fst snd]. rewrite Hs. auto.
  - cbn [fst snd]. auto.
  - cbn [fst snd]. auto.
Qed.

Lemma conc_sound v final evs : forall c, MInv v c -> forallb (fun e => cop_domb (snd (fst e))) evs = true ->
  conc_accept v c evs final = true -> conc_holds v (abs c) evs final = true.
Proof.
  induction evs as [|[[[inv resp] o] r] evs IH]; intros c HI Hd Ha.
  - cbn [conc_accept conc_holds] in *. apply snap_eqb_eq in Ha. destruct (snap_of_isnap v c HI) as [E Hb]. subst final.
    rewrite Hb, <- E. destruct (snap_of c) as [[[k i] [[[a1 a2] a3] a4]] [[[b1 b2] b3] b4]]. cbn.
    unfold zlist_eqb. rewrite zz_list_refl, !Z.eqb_refl, list_eqb_refl; [reflexivity|apply Z.eqb_refl].
  - cbn [forallb fst snd] in Hd. apply andb_prop in Hd as [Ho Hd].
    destruct (cstep_refines v c o HI Ho) as (R & A & I).
    cbn [conc_accept conc_holds] in *. destruct (cstep v c o) as [c' x]. destruct (icstep v (abs c) o) as [s' y].
    cbn [fst snd] in *. subst. apply andb_prop in Ha as [Hr Hrest]. rewrite Hr. cbn [andb]. apply IH; assumption.
Qed.

Theorem case_sound : forall c, case_accept c = true -> case_holds c = true.
Proof.
  intros [v cap0 steps|v capacity n tab univ steps|v cap0 evs final|v cap0 wide univ sizes progs panicked probe final
         |v cap0 ng univ obs panicked probe final|v cap0 steps held|v cap0 lo m lists panicked final|v cap0 c reads panicked final
         |v cap0 n tab keys sizes codes outcomes panicked|v cap0 steps pending|v cap0 wide progs panicked probe final];
    cbn [case_accept case_holds]; intros Ha.
  - destruct (seq_dom cap0 steps) eqn:Ed; [|reflexivity]. unfold seq_dom in Ed. apply andb_prop in Ed as [Hc Hd].
    apply inB_spec in Hc. change (new_istate cap0) with (abs (new_lru cap0)).
    apply seq_sound; [apply new_MInv; exact Hc|exact Hd|exact Ha].
  - destruct (wide_domb capacity n steps) eqn:Ed; [|reflexivity]. unfold wide_domb in Ed.
    apply andb_prop in Ed as [Ed Hd]. apply andb_prop in Ed as [Ed H3]. apply andb_prop in Ed as [H1 H2].
    apply Z.leb_le in H1, H2. apply Z.ltb_lt in H3.
    apply (wide_sound v (wroute n tab) univ steps (wide_init capacity n) (iwide_init capacity n));
      [apply wide_init_rel; repeat split; assumption|exact Hd|exact Ha].
  - destruct (conc_dom cap0 evs) eqn:Ed; [|reflexivity]. unfold conc_dom in Ed. apply andb_prop in Ed as [Hc Hd].
    apply inB_spec in Hc. apply andb_prop in Ha as [Hrt Ha]. rewrite Hrt. cbn [andb].
    change (new_istate cap0) with (abs (new_lru cap0)).
    apply conc_sound; [apply new_MInv; exact Hc|exact Hd|exact Ha].
  - destruct (burst_dom cap0 wide univ sizes progs); [exact Ha|reflexivity].
  - destruct (sia_dom v cap0 ng univ obs); [exact Ha|reflexivity].
  - destruct (seq_dom cap0 steps) eqn:Ed; [|reflexivity]. unfold seq_dom in Ed. apply andb_prop in Ed as [Hc Hd].
    apply inB_spec in Hc. apply andb_prop in Ha as [Ha Hh]. rewrite Hh, andb_true_r. change (new_istate cap0) with (abs (new_lru cap0)).
    apply seq_sound; [apply new_MInv; exact Hc|exact Hd|exact Ha].
  - destruct (rem_dom cap0 lo m); [exact Ha|reflexivity].
  - destruct (inB cap0 && inB c); [exact Ha|reflexivity].
  - destruct (first_dom v cap0 n (wroute n tab) keys sizes codes); [exact Ha|reflexivity].
  - discriminate.
  - destruct (churn_dom v cap0 wide progs); [exact Ha|reflexivity].
Qed.
