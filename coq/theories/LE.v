(* C09 / C10: fixed-width little- and big-endian integers, and the dense (128-byte) form of Bit1024 *)
From Coq Require Import ZArith List Bool Lia.
Import ListNotations.
Open Scope Z_scope.

(* binary.LittleEndian.PutUintN: n bytes, least significant first *)
Fixpoint le_bytes (n : nat) (w : Z) : list Z :=
  match n with O => [] | S n' => w mod 256 :: le_bytes n' (w / 256) end.
(* binary.LittleEndian.UintN *)
Fixpoint le_val (bs : list Z) : Z :=
  match bs with [] => 0 | b :: r => b + 256 * le_val r end.
Definition be_bytes (n : nat) (w : Z) : list Z := rev (le_bytes n w).
Definition be_val (bs : list Z) : Z := le_val (rev bs).
Definition bytes_ok (bs : list Z) : Prop := Forall (fun b => 0 <= b < 256) bs.

Lemma le_bytes_length n : forall w, length (le_bytes n w) = n.
Proof. induction n as [|n IH]; intros w; cbn [le_bytes length]; [reflexivity|]. rewrite IH. reflexivity. Qed.
Lemma le_bytes_ok n : forall w, bytes_ok (le_bytes n w).
Proof. induction n as [|n IH]; intros w; cbn [le_bytes]; constructor; [apply Z.mod_pos_bound; lia|apply IH]. Qed.

Theorem le_roundtrip n : forall w, 0 <= w < 256 ^ Z.of_nat n -> le_val (le_bytes n w) = w.
Proof.
  induction n as [|n IH]; intros w Hw.
  - cbn in *. lia.
  - cbn [le_bytes le_val]. rewrite Nat2Z.inj_succ, Z.pow_succ_r in Hw by lia.
    rewrite IH by (split; [apply Z.div_pos; lia|apply Z.div_lt_upper_bound; lia]).
    pose proof (Z.div_mod w 256 ltac:(lia)). lia.
Qed.

Theorem le_decode_encode : forall bs, bytes_ok bs -> le_bytes (length bs) (le_val bs) = bs /\ 0 <= le_val bs < 256 ^ Z.of_nat (length bs).
Proof.
  intros bs H. unfold bytes_ok in H. induction H as [|b r Hb Hr IH]; [cbn; split; [reflexivity|lia]|]. destruct IH as [IH1 IH2].
  cbn [length le_bytes le_val]. rewrite Nat2Z.inj_succ, Z.pow_succ_r by lia.
  replace ((b + 256 * le_val r) mod 256) with b by (Z.div_mod_to_equations; lia).
  replace ((b + 256 * le_val r) / 256) with (le_val r) by (Z.div_mod_to_equations; lia).
  rewrite IH1. split; [reflexivity|lia].
Qed.

Corollary be_roundtrip n w : 0 <= w < 256 ^ Z.of_nat n -> be_val (be_bytes n w) = w.
Proof. intros H. unfold be_val, be_bytes. rewrite rev_involutive. apply le_roundtrip, H. Qed.

(* ---- the dense form: 16 words of 8 bytes ---- *)
Definition dense (ws : list Z) : list Z := flat_map (le_bytes 8) ws.
Fixpoint undense (k : nat) (bs : list Z) : list Z :=
  match k with O => [] | S k' => le_val (firstn 8 bs) :: undense k' (skipn 8 bs) end.

Lemma dense_length ws : length (dense ws) = (8 * length ws)%nat.
Proof. induction ws as [|w ws IH]; [reflexivity|]. unfold dense in *. cbn [flat_map]. rewrite app_length, le_bytes_length, IH. cbn [length]. lia. Qed.

Lemma firstn_exact {A} (a b : list A) n : length a = n -> firstn n (a ++ b) = a.
Proof. intros <-. rewrite firstn_app, Nat.sub_diag, firstn_all. cbn [firstn]. apply app_nil_r. Qed.
Lemma skipn_exact {A} (a b : list A) n : length a = n -> skipn n (a ++ b) = b.
Proof. intros <-. rewrite skipn_app, Nat.sub_diag, skipn_all. reflexivity. Qed.

Theorem dense_roundtrip : forall ws, Forall (fun w => 0 <= w < 2 ^ 64) ws -> undense (length ws) (dense ws) = ws.
Proof.
  induction 1 as [|w ws Hw _ IH]; [reflexivity|]. unfold dense in *. cbn [flat_map length undense].
  rewrite (firstn_exact _ _ 8 (le_bytes_length 8 w)), (skipn_exact _ _ 8 (le_bytes_length 8 w)).
  rewrite IH. f_equal. apply (le_roundtrip 8). change (256 ^ Z.of_nat 8) with (2 ^ 64). exact Hw.
Qed.

(* any 128 bytes denote 16 words below 2^64, and re-encoding them gives the same bytes (the dense form is a bijection) *)
Lemma undense_words : forall k bs, bytes_ok bs -> length bs = (8 * k)%nat ->
  Forall (fun w => 0 <= w < 2 ^ 64) (undense k bs) /\ dense (undense k bs) = bs.
Proof.
  induction k as [|k IH]; intros bs Hok Hl.
  - destruct bs; [cbn; auto|cbn in Hl; lia].
  - cbn [undense]. assert (Hf : bytes_ok (firstn 8 bs)) by (rewrite <- (firstn_skipn 8 bs) in Hok; apply Forall_app in Hok; tauto).
    assert (Hs : bytes_ok (skipn 8 bs)) by (rewrite <- (firstn_skipn 8 bs) in Hok; apply Forall_app in Hok; tauto).
    assert (Hfl : length (firstn 8 bs) = 8%nat) by (rewrite firstn_length; lia).
    destruct (le_decode_encode (firstn 8 bs) Hf) as [E1 E2]. rewrite Hfl in E1, E2.
    destruct (IH (skipn 8 bs) Hs ltac:(rewrite skipn_length; lia)) as [A B].
    split; [constructor; [change (2 ^ 64) with (256 ^ Z.of_nat 8); exact E2|exact A]|].
    unfold dense in *. cbn [flat_map]. rewrite E1, B. apply firstn_skipn.
Qed.

Example demo : dense [1; 258; 2 ^ 64 - 1] = [1;0;0;0;0;0;0;0; 2;1;0;0;0;0;0;0; 255;255;255;255;255;255;255;255]
  /\ be_bytes 4 305419896 = [18; 52; 86; 120] /\ le_bytes 2 1023 = [255; 3].
Proof. vm_compute. auto. Qed.

Print Assumptions dense_roundtrip.
Print Assumptions undense_words.
