(* C14: every complete model run with the prescribed observations satisfies the monitor.
   model_matches c = true  ->  case_holds c = true, for every schedule case: a simulation between the lane family
   replayed by C14_Case.replay and the monitor state of C14_Case.mon_step. *)
From Coq Require Import List Bool Arith ZArith Lia.
Require Import Slot C14_Exec C14_Multi C14_Case.
Import ListNotations.
Close Scope Z_scope.

(* ---------------- lists ---------------- *)
Lemma memb_In c l : memb c l = true <-> In c l.
Proof. unfold memb. rewrite existsb_exists. split; [intros (y & Hy & E); apply Nat.eqb_eq in E; subst; exact Hy|intros H; exists c; split; [exact H|apply Nat.eqb_refl]]. Qed.
Lemma memb_false c l : memb c l = false <-> ~ In c l.
Proof.
  rewrite <- memb_In. destruct (memb c l); split; intros H.
  - discriminate.
  - exfalso. apply H. reflexivity.
  - intros X. discriminate.
  - reflexivity.
Qed.
Lemma memb_cons c d l : memb c (d :: l) = Nat.eqb c d || memb c l.
Proof. reflexivity. Qed.
Lemma memb_app c a b : memb c (a ++ b) = memb c a || memb c b.
Proof. unfold memb. apply existsb_app. Qed.

Lemma nodupb_NoDup l : nodupb l = true -> NoDup l.
Proof.
  induction l as [|y l IH]; cbn [nodupb]; intros H; [constructor|]. apply andb_prop in H. destruct H as [A B].
  constructor; [apply memb_false; apply negb_true_iff in A; exact A|apply IH, B].
Qed.

Lemma subres_eqb_eq a b : subres_eqb a b = true -> a = b.
Proof. destruct a, b; cbn; intros H; try reflexivity; discriminate. Qed.
Lemma answer_eqb_eq a b : answer_eqb a b = true -> a = b.
Proof. destruct a, b; cbn; intros H; try discriminate; try reflexivity; apply Nat.eqb_eq in H; subst; reflexivity. Qed.

Lemma split_at_spec c : forall l l1 l2, split_at c l = Some (l1, l2) -> l = l1 ++ c :: l2 /\ ~ In c l1.
Proof.
  induction l as [|y l IH]; cbn [split_at]; intros l1 l2 H; [discriminate|].
  destruct (Nat.eqb y c) eqn:E.
  - inversion H; subst. apply Nat.eqb_eq in E. subst. split; [reflexivity|intros []].
  - destruct (split_at c l) as [[a b]|] eqn:Es; [|discriminate]. inversion H; subst. destruct (IH a l2 eq_refl) as [A B].
    split; [cbn [app]; rewrite A; reflexivity|]. intros [X|X]; [subst; rewrite Nat.eqb_refl in E; discriminate|exact (B X)].
Qed.
Lemma split_at_some c : forall l, In c l -> exists l1 l2, split_at c l = Some (l1, l2).
Proof.
  induction l as [|y l IH]; intros H; [destruct H|]. cbn [split_at]. destruct (Nat.eqb y c) eqn:E; [eexists; eexists; reflexivity|].
  destruct H as [H|H]; [subst; rewrite Nat.eqb_refl in E; discriminate|]. destruct (IH H) as (a & b & Es). rewrite Es. eexists; eexists; reflexivity.
Qed.
Lemma first_occ_unique (c : nat) : forall a a' b b', a ++ c :: b = a' ++ c :: b' -> ~ In c a -> ~ In c a' -> a = a' /\ b = b'.
Proof.
  induction a as [|y a IH]; intros a' b b' E Ha Ha'.
  - destruct a' as [|y' a']; cbn [app] in E; [inversion E; auto|]. inversion E; subst. exfalso. apply Ha'. left. reflexivity.
  - destruct a' as [|y' a']; cbn [app] in E.
    + inversion E; subst. exfalso. apply Ha. left. reflexivity.
    + inversion E; subst. destruct (IH a' b b' H1) as [A B]; [intros X; apply Ha; right; exact X|intros X; apply Ha'; right; exact X|].
      subst. auto.
Qed.

Lemma filter_filter_neg (p q : nat -> bool) l : (forall d, p d = true -> q d = true) -> filter p (filter q l) = filter p l.
Proof.
  intros H. induction l as [|y l IH]; [reflexivity|]. cbn [filter]. destruct (q y) eqn:Eq.
  - cbn [filter]. rewrite IH. reflexivity.
  - destruct (p y) eqn:Ep; [rewrite (H y Ep) in Eq; discriminate|exact IH].
Qed.
Lemma filter_none (p : nat -> bool) l : (forall d, In d l -> p d = false) -> filter p l = [].
Proof. induction l as [|y l IH]; intros H; [reflexivity|]. cbn [filter]. rewrite (H y (or_introl eq_refl)). apply IH. intros d Hd. apply H. right. exact Hd. Qed.

Lemma NoDup_app_disj (a b : list nat) c : NoDup (a ++ b) -> In c a -> In c b -> False.
Proof.
  induction a as [|y a IH]; cbn [app]; intros Hn Ha Hb; [destruct Ha|]. inversion Hn; subst. destruct Ha as [->|Ha].
  - apply H1. apply in_or_app. right. exact Hb.
  - apply (IH H2 Ha Hb).
Qed.

Lemma in_map_fst (c : nat) (b : bool) l : In (c, b) l -> In c (map fst l).
Proof. intros H. apply in_map_iff. exists (c, b). auto. Qed.
Lemma NoDup_map_fst_unique (l : list (nat * bool)) c b b' : NoDup (map fst l) -> In (c, b) l -> In (c, b') l -> b = b'.
Proof.
  induction l as [|y l IH]; cbn [map]; intros Hn H1 H2; [destruct H1|]. inversion Hn; subst.
  destruct H1 as [H1|H1], H2 as [H2|H2].
  - congruence.
  - subst y. exfalso. apply H3. apply (in_map_fst c b' l H2).
  - subst y. exfalso. apply H3. apply (in_map_fst c b l H1).
  - apply (IH H4 H1 H2).
Qed.
Lemma in_started s c : In c (started s) <-> In (c, true) (poplog s).
Proof.
  unfold started. rewrite in_map_iff. split.
  - intros ([d b] & E & H). apply filter_In in H. destruct H as [H Hb]. cbn in E, Hb. subst. exact H.
  - intros H. exists (c, true). split; [reflexivity|]. apply filter_In. auto.
Qed.

(* the monitor's pending list when the head of lane zi starts *)
Lemma pend_start (g : nat -> Z) (zi : Z) (pend sk q : list nat) (c : nat) :
  filter (fun d => (g d =? zi)%Z) pend = sk ++ c :: q -> ~ In c sk -> g c = zi ->
  exists before after, split_at c pend = Some (before, after) /\
    filter (fun d => (g d =? zi)%Z) before = sk /\
    filter (fun d => (g d =? zi)%Z) (filter (fun d => negb (g d =? zi)%Z) before ++ after) = q /\
    forall z', z' <> zi -> filter (fun d => (g d =? z')%Z) (filter (fun d => negb (g d =? zi)%Z) before ++ after) = filter (fun d => (g d =? z')%Z) pend.
Proof.
  intros Hf Hsk Hg.
  assert (Hin : In c pend).
  { assert (X : In c (filter (fun d => (g d =? zi)%Z) pend)) by (rewrite Hf; apply in_or_app; right; left; reflexivity). apply filter_In in X. apply X. }
  destruct (split_at_some c pend Hin) as (before & after & Es). exists before, after. split; [exact Es|].
  destruct (split_at_spec c pend before after Es) as [Ep Hnb]. subst pend.
  rewrite filter_app in Hf. cbn [filter] in Hf. rewrite Hg, Z.eqb_refl in Hf.
  assert (Hnf : ~ In c (filter (fun d => (g d =? zi)%Z) before)) by (intros X; apply filter_In in X; apply Hnb, X).
  destruct (first_occ_unique c _ _ _ _ Hf Hnf Hsk) as [A B]. split; [exact A|]. split.
  - rewrite filter_app, B. rewrite filter_none; [reflexivity|]. intros d Hd. apply filter_In in Hd. destruct Hd as [_ Hd].
    apply negb_true_iff in Hd. exact Hd.
  - intros z' Hz. rewrite !filter_app. cbn [filter]. replace (g c =? z')%Z with false by (symmetry; apply Z.eqb_neq; congruence).
    f_equal. apply filter_filter_neg. intros d Hd. apply Z.eqb_eq in Hd. apply negb_true_iff. apply Z.eqb_neq. congruence.
Qed.

(* ---------------- what one lane step does ---------------- *)
Section StepFacts.
Variable val : nat -> nat.

Lemma step_submit s c s' : step val s (Submit c) = Some s' ->
  ~ In c (seen s) /\
  ((closed s = true /\ s' = refuse s c SClosed) \/ (closed s = false /\ full s = true /\ s' = refuse s c SFull) \/
   (closed s = false /\ full s = false /\ s' = enqueue s c)).
Proof.
  cbn [step]. destruct (mem c (seen s)) eqn:Em; [discriminate|]. intros H.
  split; [intros X; apply mem_In in X; congruence|].
  destruct (closed s); [left; inversion H; auto|]. destruct (full s); inversion H; auto.
Qed.
Lemma step_pop s s' : step val s Pop = Some s' ->
  exists c q, worker s = None /\ exited s = false /\ queue s = c :: q /\ (kd s = KLine \/ cancelled s c = false) /\ s' = take s c q.
Proof.
  cbn [step]. destruct (worker s); [discriminate|]. destruct (exited s); [discriminate|]. destruct (queue s) as [|c q]; [discriminate|].
  destruct (is_line (kd s) || negb (cancelled s c)) eqn:E; [|discriminate]. intros H. inversion H. exists c, q.
  repeat split; try reflexivity. apply orb_prop in E. destruct E as [E|E]; [left; destruct (kd s); cbn in E; try discriminate; reflexivity|right; apply negb_true_iff in E; exact E].
Qed.
Lemma step_skip s s' : step val s Skip = Some s' ->
  exists c q, worker s = None /\ exited s = false /\ queue s = c :: q /\ cancelled s c = true /\ kd s <> KLine /\ s' = pass s c q.
Proof.
  cbn [step]. destruct (worker s); [discriminate|]. destruct (exited s); [discriminate|]. destruct (queue s) as [|c q]; [discriminate|].
  destruct (negb (is_line (kd s)) && cancelled s c) eqn:E; [|discriminate]. intros H. inversion H. exists c, q.
  apply andb_prop in E. destruct E as [E1 E2]. repeat split; try reflexivity; try exact E2. intros X. rewrite X in E1. discriminate.
Qed.
Lemma step_done s s' : step val s Done = Some s' -> exists c, worker s = Some c /\ s' = finish val s c.
Proof. cbn [step]. destruct (worker s) as [c|]; [|discriminate]. intros H. inversion H. exists c. auto. Qed.
Lemma step_exit s s' : step val s Exit = Some s' -> worker s = None /\ closed s = true /\ exited s = false /\ s' = leave s.
Proof.
  cbn [step]. destruct (worker s); [discriminate|]. destruct (closed s); [|discriminate]. destruct (exited s); [discriminate|].
  destruct (queue s); [intros H; inversion H; auto|]. destruct (is_proc (kd s)); [intros H; inversion H; auto|discriminate].
Qed.
Lemma step_recv s c f s' : step val s (Recv c f) = Some s' ->
  In c (accepted s) /\ got s c = None /\ exists a, ready s c f = Some a /\ s' = deliver s c a.
Proof.
  cbn [step]. destruct (mem c (accepted s)) eqn:Em; [|discriminate]. apply mem_In in Em. destruct (got s c); [discriminate|].
  destruct (ready s c f) as [a|]; [|discriminate]. intros H. inversion H. split; [exact Em|]. split; [reflexivity|]. exists a. auto.
Qed.
End StepFacts.

(* ---------------- the table ---------------- *)
Definition known (calls : list callinfo) (c : nat) : Prop := find_call calls c <> None.

Lemma find_call_id calls c : forall ci, find_call calls c = Some ci -> ci_id ci = c /\ In ci calls.
Proof.
  induction calls as [|y l IH]; cbn [find_call]; intros ci H; [discriminate|]. destruct (Nat.eqb (ci_id y) c) eqn:E.
  - inversion H; subst. apply Nat.eqb_eq in E. split; [exact E|left; reflexivity].
  - destruct (IH ci H) as [A B]. split; [exact A|right; exact B].
Qed.

Section Table.
Variables (x : exec) (lanes : Z) (calls : list callinfo).
Hypothesis Htab : table_ok x lanes calls = true.
Let hf := hash_of x calls.
Let ln (c : nat) : nat := lane_of lanes hf c.

Lemma tab_lanes : (1 <= lanes <= MaxInt)%Z.
Proof.
  unfold table_ok in Htab. apply andb_prop in Htab. destruct Htab as [H _]. apply andb_prop in H. destruct H as [H _].
  apply andb_prop in H. destruct H as [H H1]. apply andb_prop in H. destruct H as [_ H2]. unfold in64b in H2. apply andb_prop in H2.
  destruct H2 as [_ H2]. apply Z.leb_le in H1, H2. lia.
Qed.
Lemma tab_nodup : NoDup (map ci_id calls).
Proof.
  unfold table_ok in Htab. apply andb_prop in Htab. destruct Htab as [H _]. apply andb_prop in H. destruct H as [H _].
  apply andb_prop in H. destruct H as [H _]. apply andb_prop in H. destruct H as [H _]. apply nodupb_NoDup, H.
Qed.
Lemma tab_entry ci : In ci calls ->
  in64 (ci_hash ci) /\ match x with XMulti => ci_idx ci = slot_new (ci_hash ci) lanes | _ => ci_idx ci = 0%Z /\ lanes = 1%Z end.
Proof.
  intros Hin. unfold table_ok in Htab. apply andb_prop in Htab. destruct Htab as [H Hx]. apply andb_prop in H. destruct H as [_ H].
  rewrite forallb_forall in H. specialize (H ci Hin). apply andb_prop in H. destruct H as [H1 H2].
  split; [unfold in64b in H1; apply andb_prop in H1; destruct H1 as [A B]; apply Z.leb_le in A, B; unfold in64; lia|].
  destruct x; try (apply Z.eqb_eq in H2, Hx; auto). apply Z.eqb_eq in H2. exact H2.
Qed.

Lemma known_lane c ci : find_call calls c = Some ci ->
  idx_of calls c = Z.of_nat (ln c) /\ ln c < nlanes lanes /\ In (ln c) (interest x lanes calls).
Proof.
  intros Hf. destruct (find_call_id calls c ci Hf) as [Eid Hin]. destruct (tab_entry ci Hin) as [H64 Hx]. pose proof tab_lanes as Hl.
  assert (Ei : In (ln c) (interest x lanes calls)).
  { unfold interest. right. apply in_map_iff. exists ci. rewrite Eid. auto. }
  assert (El : exists v, (0 <= v < lanes)%Z /\ ln c = Z.to_nat v /\ ci_idx ci = v).
  { unfold ln, lane_of, hf, hash_of. destruct x.
    - destruct Hx as [E0 E1]. exists 0%Z. subst lanes. split; [lia|]. split; [reflexivity|exact E0].
    - rewrite Hf. exists (slot_new (ci_hash ci) lanes). split; [apply (slot_in_range (ci_hash ci) lanes H64 Hl)|]. split; [reflexivity|exact Hx].
    - destruct Hx as [E0 E1]. exists 0%Z. subst lanes. split; [lia|]. split; [reflexivity|exact E0].
    - destruct Hx as [E0 E1]. exists 0%Z. subst lanes. split; [lia|]. split; [reflexivity|exact E0]. }
  destruct El as (v & Hv & El & Ev). split; [|split; [|exact Ei]].
  - unfold idx_of. rewrite Hf, Ev, El, Z2Nat.id by lia. reflexivity.
  - rewrite El. unfold nlanes. lia.
Qed.

Lemma same_hash_ok : same_hash_same_lane calls = true.
Proof.
  unfold same_hash_same_lane. apply forallb_forall. intros a Ha. apply forallb_forall. intros b Hb.
  destruct (ci_hash a =? ci_hash b)%Z eqn:E; [|reflexivity]. cbn [negb orb]. apply Z.eqb_eq in E. apply Z.eqb_eq.
  destruct (tab_entry a Ha) as [_ A]. destruct (tab_entry b Hb) as [_ B]. destruct x; try (destruct A as [A _]; destruct B as [B _]; congruence).
  rewrite A, B, E. reflexivity.
Qed.
End Table.

(* ---------------- the simulation ---------------- *)
Lemma if_false {A} (b : bool) (u v : A) : b = false -> (if b then u else v) = v.
Proof. intros ->. reflexivity. Qed.
Lemma if_true {A} (b : bool) (u v : A) : b = true -> (if b then u else v) = u.
Proof. intros ->. reflexivity. Qed.
Lemma upd_neq {A} (f : nat -> A) j v i : i <> j -> upd f j v i = f i.
Proof. intros H. unfold upd. destruct (Nat.eqb i j) eqn:E; [apply Nat.eqb_eq in E; contradiction|reflexivity]. Qed.

Lemma may_skip_kind x : kind_of x <> KLine -> may_skip x = true.
Proof. destruct x; cbn; intros H; try reflexivity; contradiction. Qed.
Lemma is_xproc_kind x : kind_of x = KProc -> is_xproc x = true.
Proof. destruct x; cbn; intros H; try reflexivity; discriminate. Qed.
Lemma not_xproc_kind x : is_xproc x = false -> kind_of x <> KProc.
Proof. destruct x; cbn; intros H; try discriminate; intros X; discriminate. Qed.

Section Simulation.
Variables (x : exec) (lanes : Z) (qsize : nat) (fifo : bool) (calls : list callinfo).
Hypothesis Htab : table_ok x lanes calls = true.
Let val := valf calls.
Let hf := hash_of x calls.
Let ln (c : nat) : nat := lane_of lanes hf c.
Let idx := idx_of calls.

Record Sim (F : fam) (m : mon) : Prop := {
  s_ok : m_ok m = true;
  s_inv : forall i, Inv val (F i);
  s_kd : forall i, kd (F i) = kind_of x;
  s_routed : forall i c, In c (accepted (F i)) -> i = ln c /\ known calls c;
  s_stop1 : m_stopped m = true -> forall i, closed (F i) = true;
  s_stop2 : forall i, closed (F i) = true -> m_stopped m = true;
  s_subm : forall c, memb c (m_subm m) = true -> In c (seen (F (ln c)));
  s_acc : forall c, memb c (m_acc m) = true <-> In c (accepted (F (ln c)));
  s_canc : forall c, memb c (m_canc m) = true <-> cancelled (F (ln c)) c = true;
  s_begun : forall c, memb c (m_begun m) = true <-> In c (started (F (ln c)));
  s_ended : forall c, memb c (m_ended m) = true <-> In c (finished (F (ln c)));
  s_got : forall c, memb c (m_got m) = true <-> got (F (ln c)) c <> None;
  s_open1 : forall z c, In (z, c) (m_open m) -> (0 <= z)%Z /\ worker (F (Z.to_nat z)) = Some c;
  s_open2 : forall i c, worker (F i) = Some c -> In (Z.of_nat i, c) (m_open m);
  s_pend : fifo = true -> forall j, exists sk,
             filter (fun d => (idx d =? Z.of_nat j)%Z) (m_pend m) = sk ++ queue (F j) /\ forall d, In d sk -> In (d, false) (poplog (F j))
}.

Lemma sim_init : Sim (init (kind_of x) qsize) mon0.
Proof.
  constructor.
  - reflexivity.
  - intros i. apply new_inv.
  - intros i. reflexivity.
  - intros i c [].
  - cbn. discriminate.
  - cbn. intros i H. discriminate.
  - cbn. intros c H. discriminate.
  - cbn. intros c. split; [discriminate|intros []].
  - cbn. intros c. split; discriminate.
  - cbn. intros c. split; [discriminate|intros []].
  - cbn. intros c. split; [discriminate|intros []].
  - cbn. intros c. split; [discriminate|intros H; exfalso; apply H; reflexivity].
  - cbn. intros z c [].
  - cbn. intros i c H. discriminate.
  - cbn. intros _ j. exists []. split; [reflexivity|intros d []].
Qed.

Ltac fields := cbn [kd cap queue closed worker exited slot cancelled got seen outcome accepted poplog finished events
                     refuse enqueue take pass finish close leave cancel deliver].

Lemma on_spec F j l F' : on val F j l = Some F' -> exists s', step val (F j) l = Some s' /\ F' = upd F j s'.
Proof. unfold on. destruct (step val (F j) l) as [s'|]; [|discriminate]. intros H. inversion H. exists s'. auto. Qed.

Lemma known_idx c : known calls c -> idx c = Z.of_nat (ln c) /\ ln c < nlanes lanes /\ In (ln c) (interest x lanes calls).
Proof. unfold known. destruct (find_call calls c) as [ci|] eqn:E; [intros _; apply (known_lane x lanes calls Htab c ci E)|intros H; contradiction]. Qed.

(* a lane step leaves kind and, Stop apart, the closed flag alone *)
Lemma step_closed_same s l s' : step val s l = Some s' -> l <> Stop -> closed s' = closed s.
Proof.
  destruct l as [c| | | | | |c|c fs]; intros H Hl; try contradiction.
  - destruct (step_submit val s c s' H) as [_ [[_ ->]|[[_ [_ ->]]|[_ [_ ->]]]]]; reflexivity.
  - destruct (step_pop val s s' H) as (c & q & _ & _ & _ & _ & ->). reflexivity.
  - destruct (step_skip val s s' H) as (c & q & _ & _ & _ & _ & _ & ->). reflexivity.
  - destruct (step_done val s s' H) as (c & _ & ->). reflexivity.
  - destruct (step_exit val s s' H) as (_ & Hc & _ & ->). cbn. symmetry. exact Hc.
  - cbn [step] in H. inversion H. reflexivity.
  - destruct (step_recv val s c fs s' H) as (_ & _ & a & _ & ->). reflexivity.
Qed.

(* every clause of Sim that speaks about lane (ln c0) of an updated family: split on whether that is the updated lane *)
Ltac split_lane c0 j E := destruct (Nat.eq_dec (ln c0) j) as [E|E]; [rewrite E, upd_same|rewrite (upd_neq _ _ _ _ E)].
Ltac split_idx i j E := destruct (Nat.eq_dec i j) as [E|E]; [rewrite E, upd_same|rewrite (upd_neq _ _ _ _ E)].

Lemma sim_refuse F m c r : Sim F m -> known calls c -> ~ In c (seen (F (ln c))) -> r <> SAcc ->
  Inv val (refuse (F (ln c)) c r) ->
  Sim (upd F (ln c) (refuse (F (ln c)) c r))
      {| m_ok := m_ok m; m_stopped := m_stopped m; m_subm := c :: m_subm m; m_acc := m_acc m; m_pend := m_pend m;
         m_canc := m_canc m; m_begun := m_begun m; m_ended := m_ended m; m_got := m_got m; m_open := m_open m; m_waited := m_waited m |}.
Proof.
  intros S Hk Hfresh Hr HI'. set (j := ln c). constructor; cbn [m_ok m_stopped m_subm m_acc m_pend m_canc m_begun m_ended m_got m_open m_waited].
  - apply (s_ok _ _ S).
  - intros i. split_idx i j E; [exact HI'|apply (s_inv _ _ S)].
  - intros i. split_idx i j E; [fields; apply (s_kd _ _ S)|apply (s_kd _ _ S)].
  - intros i c0. split_idx i j E; [fields; rewrite <- E; apply (s_routed _ _ S)|apply (s_routed _ _ S)].
  - intros H i. split_idx i j E; [fields|]; apply (s_stop1 _ _ S H).
  - intros i. split_idx i j E; [fields|]; apply (s_stop2 _ _ S).
  - intros c0. rewrite memb_cons. split_lane c0 j E; fields.
    + intros H. apply orb_prop in H. destruct H as [H|H]; [left; apply Nat.eqb_eq in H; auto|right; rewrite <- E; apply (s_subm _ _ S c0 H)].
    + intros H. apply orb_prop in H. destruct H as [H|H]; [apply Nat.eqb_eq in H; subst c0; contradiction|apply (s_subm _ _ S c0 H)].
  - intros c0. split_lane c0 j E; [fields; rewrite <- E|]; apply (s_acc _ _ S).
  - intros c0. split_lane c0 j E; [fields; rewrite <- E|]; apply (s_canc _ _ S).
  - intros c0. split_lane c0 j E; [unfold started; fields; rewrite <- E|]; apply (s_begun _ _ S).
  - intros c0. split_lane c0 j E; [fields; rewrite <- E|]; apply (s_ended _ _ S).
  - intros c0. split_lane c0 j E; [fields; rewrite <- E|]; apply (s_got _ _ S).
  - intros z c0 Hin. destruct (s_open1 _ _ S z c0 Hin) as [A B]. split; [exact A|]. split_idx (Z.to_nat z) j E; [fields; rewrite <- E|]; exact B.
  - intros i c0. split_idx i j E; [fields; rewrite <- E|]; apply (s_open2 _ _ S).
  - intros Hf i. destruct (s_pend _ _ S Hf i) as (sk & A & B). exists sk. split_idx i j E; [fields; rewrite <- E|]; auto.
Qed.

Lemma sim_enqueue F m c : Sim F m -> known calls c -> ~ In c (seen (F (ln c))) -> Inv val (enqueue (F (ln c)) c) ->
  Sim (upd F (ln c) (enqueue (F (ln c)) c))
      {| m_ok := m_ok m; m_stopped := m_stopped m; m_subm := c :: m_subm m; m_acc := m_acc m ++ [c]; m_pend := m_pend m ++ [c];
         m_canc := m_canc m; m_begun := m_begun m; m_ended := m_ended m; m_got := m_got m; m_open := m_open m; m_waited := m_waited m |}.
Proof.
  intros S Hk Hfresh HI'. set (j := ln c). destruct (known_idx c Hk) as (Eidx & _ & _).
  constructor; cbn [m_ok m_stopped m_subm m_acc m_pend m_canc m_begun m_ended m_got m_open m_waited].
  - apply (s_ok _ _ S).
  - intros i. split_idx i j E; [exact HI'|apply (s_inv _ _ S)].
  - intros i. split_idx i j E; [fields; apply (s_kd _ _ S)|apply (s_kd _ _ S)].
  - intros i c0. split_idx i j E; [fields|apply (s_routed _ _ S)].
    intros Hin. apply in_app_or in Hin. destruct Hin as [Hin|[<-|[]]]; [apply (s_routed _ _ S _ _ Hin)|split; [reflexivity|exact Hk]].
  - intros H i. split_idx i j E; [fields|]; apply (s_stop1 _ _ S H).
  - intros i. split_idx i j E; [fields|]; apply (s_stop2 _ _ S).
  - intros c0. rewrite memb_cons. split_lane c0 j E; fields.
    + intros H. apply orb_prop in H. destruct H as [H|H]; [left; apply Nat.eqb_eq in H; auto|right; rewrite <- E; apply (s_subm _ _ S c0 H)].
    + intros H. apply orb_prop in H. destruct H as [H|H]; [apply Nat.eqb_eq in H; subst c0; contradiction|apply (s_subm _ _ S c0 H)].
  - intros c0. rewrite memb_app. split_lane c0 j E; fields.
    + rewrite in_app_iff, <- E, <- (s_acc _ _ S c0). cbn [memb existsb In]. rewrite orb_false_r, orb_true_iff, Nat.eqb_eq.
      split; (intros [H|H]; [left; exact H|right; auto]). destruct H as [H|[]]. auto.
    + assert (Hne : c0 <> c) by (intros X; subst c0; contradiction). cbn [memb existsb]. apply Nat.eqb_neq in Hne. rewrite Hne. cbn [orb].
      rewrite orb_false_r. apply (s_acc _ _ S).
  - intros c0. split_lane c0 j E; [fields; rewrite <- E|]; apply (s_canc _ _ S).
  - intros c0. split_lane c0 j E; [unfold started; fields; rewrite <- E|]; apply (s_begun _ _ S).
  - intros c0. split_lane c0 j E; [fields; rewrite <- E|]; apply (s_ended _ _ S).
  - intros c0. split_lane c0 j E; [fields; rewrite <- E|]; apply (s_got _ _ S).
  - intros z c0 Hin. destruct (s_open1 _ _ S z c0 Hin) as [A B]. split; [exact A|]. split_idx (Z.to_nat z) j E; [fields; rewrite <- E|]; exact B.
  - intros i c0. split_idx i j E; [fields; rewrite <- E|]; apply (s_open2 _ _ S).
  - intros Hf i. split_idx i j E; fields.
    + destruct (s_pend _ _ S Hf j) as (sk & A & B). exists sk. rewrite filter_app. cbn [filter]. fold idx. rewrite Eidx. fold j.
      rewrite Z.eqb_refl, A, app_assoc. split; [reflexivity|exact B].
    + destruct (s_pend _ _ S Hf i) as (sk & A & B). exists sk. rewrite filter_app. cbn [filter]. fold idx. rewrite Eidx. fold j.
      replace (Z.of_nat j =? Z.of_nat i)%Z with false by (symmetry; apply Z.eqb_neq; lia). rewrite app_nil_r. auto.
Qed.

Lemma sim_sub F m c r F' : Sim F m -> replay_item x lanes calls F (ISub c r) = Some F' -> Sim F' (mon_step x lanes fifo calls m (ISub c r)).
Proof.
  intros S H. cbn [replay_item] in H. destruct (find_call calls c) as [ci|] eqn:Ef; [|discriminate].
  destruct (mstep (valf calls) lanes (hash_of x calls) F (MSub c)) as [F1|] eqn:Em; [|discriminate]. cbn [mstep] in Em.
  apply on_spec in Em. destruct Em as (s' & Hs & ->). fold hf in H. fold (ln c) in H. rewrite upd_same in H.
  destruct (outcome s' c) as [r'|] eqn:Eo; [|discriminate]. destruct (subres_eqb r r') eqn:Er; [|discriminate].
  apply subres_eqb_eq in Er. subst r'. inversion H; subst F'. clear H.
  fold hf in Hs. fold (ln c) in Hs. fold (ln c).
  destruct (step_submit val _ c s' Hs) as [Hfresh Hcases].
  assert (Hk : known calls c) by (unfold known; rewrite Ef; discriminate).
  assert (Hns : memb c (m_subm m) = false).
  { destruct (memb c (m_subm m)) eqn:E; [|reflexivity]. exfalso. apply Hfresh. apply (s_subm _ _ S c E). }
  assert (HI' : Inv val s') by (apply (inv_step val _ _ _ (s_inv _ _ S (ln c)) Hs)).
  unfold mon_step. rewrite Ef, Hns. cbn [negb orb].
  destruct Hcases as [[Hc ->]|[[Hc [Hfu ->]]|[Hc [Hfu ->]]]]; cbn [outcome refuse enqueue] in Eo; rewrite upd_same in Eo; inversion Eo; subst r.
  - apply sim_refuse; [exact S|exact Hk|exact Hfresh|discriminate|exact HI'].
  - apply sim_refuse; [exact S|exact Hk|exact Hfresh|discriminate|exact HI'].
  - assert (Est : m_stopped m = false) by (destruct (m_stopped m) eqn:Est; [rewrite (s_stop1 _ _ S Est (ln c)) in Hc; discriminate|reflexivity]).
    rewrite (if_false _ _ _ Est). apply sim_enqueue; [exact S|exact Hk|exact Hfresh|exact HI'].
Qed.

(* a lane step the monitor does not see (Skip, Exit) *)
Lemma sim_silent F m j s' : Sim F m -> Inv val s' -> kd s' = kd (F j) -> accepted s' = accepted (F j) -> closed s' = closed (F j) ->
  seen s' = seen (F j) -> cancelled s' = cancelled (F j) -> started s' = started (F j) -> finished s' = finished (F j) ->
  got s' = got (F j) -> worker s' = worker (F j) ->
  (forall sk, (forall d, In d sk -> In (d, false) (poplog (F j))) ->
     exists sk', sk ++ queue (F j) = sk' ++ queue s' /\ forall d, In d sk' -> In (d, false) (poplog s')) ->
  Sim (upd F j s') m.
Proof.
  intros S HI' Ekd Eacc Ecl Eseen Ecan Est Efin Egot Ew Hq. constructor.
  - apply (s_ok _ _ S).
  - intros i. split_idx i j E; [exact HI'|apply (s_inv _ _ S)].
  - intros i. split_idx i j E; [rewrite Ekd|]; apply (s_kd _ _ S).
  - intros i c0. split_idx i j E; [rewrite Eacc|]; apply (s_routed _ _ S).
  - intros H i. split_idx i j E; [rewrite Ecl|]; apply (s_stop1 _ _ S H).
  - intros i. split_idx i j E; [rewrite Ecl|]; apply (s_stop2 _ _ S).
  - intros c0. split_lane c0 j E; [rewrite Eseen, <- E|]; apply (s_subm _ _ S).
  - intros c0. split_lane c0 j E; [rewrite Eacc, <- E|]; apply (s_acc _ _ S).
  - intros c0. split_lane c0 j E; [rewrite Ecan, <- E|]; apply (s_canc _ _ S).
  - intros c0. split_lane c0 j E; [rewrite Est, <- E|]; apply (s_begun _ _ S).
  - intros c0. split_lane c0 j E; [rewrite Efin, <- E|]; apply (s_ended _ _ S).
  - intros c0. split_lane c0 j E; [rewrite Egot, <- E|]; apply (s_got _ _ S).
  - intros z c0 Hin. destruct (s_open1 _ _ S z c0 Hin) as [A B]. split; [exact A|]. split_idx (Z.to_nat z) j E; [rewrite Ew, <- E|]; exact B.
  - intros i c0. split_idx i j E; [rewrite Ew, <- E|]; apply (s_open2 _ _ S).
  - intros Hf i. split_idx i j E.
    + destruct (s_pend _ _ S Hf j) as (sk & A & B). destruct (Hq sk B) as (sk' & A' & B'). exists sk'. rewrite A, A'. auto.
    + apply (s_pend _ _ S Hf i).
Qed.

Lemma sim_skip F m j c F' : Sim F m -> replay_item x lanes calls F (ISkip j c) = Some F' -> Sim F' (mon_step x lanes fifo calls m (ISkip j c)).
Proof.
  intros S H. cbn [replay_item mon_step] in *. destruct (queue (F j)) as [|c' q0] eqn:Eq; [discriminate|].
  destruct (Nat.eqb c c'); [|discriminate]. cbn [mstep] in H. destruct (lane_local Skip && Nat.ltb j (nlanes lanes)); [|discriminate].
  apply on_spec in H. destruct H as (s' & Hs & ->). pose proof (inv_step val _ _ _ (s_inv _ _ S j) Hs) as HI'.
  destruct (step_skip val _ _ Hs) as (c1 & q & Hw & _ & Hq & Hcn & Hk & ->).
  apply sim_silent; try reflexivity; try exact S; try exact HI'.
  - unfold started. fields. rewrite filter_app, map_app. cbn. rewrite app_nil_r. reflexivity.
  - fields. symmetry. exact Hw.
  - intros sk Hsk. exists (sk ++ [c1]). fields. rewrite Hq, <- app_assoc. split; [reflexivity|].
    intros d Hd. apply in_or_app. apply in_app_or in Hd. destruct Hd as [Hd|[<-|[]]]; [left; apply Hsk, Hd|right; left; reflexivity].
Qed.

Lemma sim_exit F m j F' : Sim F m -> replay_item x lanes calls F (IExit j) = Some F' -> Sim F' (mon_step x lanes fifo calls m (IExit j)).
Proof.
  intros S H. cbn [replay_item mon_step] in *. cbn [mstep] in H. destruct (lane_local Exit && Nat.ltb j (nlanes lanes)); [|discriminate].
  apply on_spec in H. destruct H as (s' & Hs & ->). pose proof (inv_step val _ _ _ (s_inv _ _ S j) Hs) as HI'.
  destruct (step_exit val _ _ Hs) as (Hw & Hc & _ & ->).
  apply sim_silent; try reflexivity; try exact S; try exact HI'.
  - fields. symmetry. exact Hc.
  - fields. symmetry. exact Hw.
  - intros sk Hsk. exists sk. fields. auto.
Qed.

Lemma sim_start F m i c F' : Sim F m -> replay_item x lanes calls F (IStart i c) = Some F' -> Sim F' (mon_step x lanes fifo calls m (IStart i c)).
Proof.
  intros S H. cbn [replay_item] in H. destruct (0 <=? i)%Z eqn:Ei; [|discriminate]. apply Z.leb_le in Ei. set (j := Z.to_nat i) in *.
  destruct (mstep (valf calls) lanes (hash_of x calls) F (MOn j Pop)) as [F1|] eqn:Em; [|discriminate]. cbn [mstep] in Em.
  destruct (lane_local Pop && Nat.ltb j (nlanes lanes)) eqn:Eg; [|discriminate]. apply andb_prop in Eg. destruct Eg as [_ Hlt]. apply Nat.ltb_lt in Hlt.
  apply on_spec in Em. destruct Em as (s' & Hs & ->). rewrite upd_same in H.
  pose proof (s_inv _ _ S j) as HI. pose proof (inv_step val _ _ _ HI Hs) as HI'.
  destruct (step_pop val _ _ Hs) as (c1 & q & Hw & _ & Hq & _ & ->). cbn [worker take] in H. destruct (Nat.eqb c c1) eqn:Ec; [|discriminate].
  apply Nat.eqb_eq in Ec. subst c1. inversion H; subst F'. clear H.
  destruct HI as (I1 & I2 & _ & I4 & _ & _ & _ & _ & _ & _ & I11).
  assert (Hacc : In c (accepted (F j))) by (rewrite I1, Hq; apply in_or_app; right; left; reflexivity).
  destruct (s_routed _ _ S j c Hacc) as [Ej Hk]. destruct (known_idx c Hk) as (Eidx & _ & _).
  assert (Ezi : Z.of_nat j = i) by (unfold j; apply Z2Nat.id; exact Ei).
  assert (Hnp : ~ In c (map fst (poplog (F j)))).
  { intros X. rewrite I1, Hq in I4. apply (NoDup_app_disj _ _ c I4 X). left. reflexivity. }
  assert (B1 : memb c (m_acc m) = true) by (apply (s_acc _ _ S c); rewrite <- Ej; exact Hacc).
  assert (B2 : memb c (m_begun m) = false).
  { apply memb_false. intros X. apply memb_In in X. apply (s_begun _ _ S c) in X. rewrite <- Ej in X. apply in_started in X. apply Hnp. apply (in_map_fst c true _ X). }
  assert (B3 : (i =? idx c)%Z = true) by (apply Z.eqb_eq; rewrite Eidx, <- Ej; symmetry; exact Ezi).
  assert (B4 : ((0 <=? i) && (i <? lanes))%Z = true).
  { apply andb_true_intro. split; [apply Z.leb_le; exact Ei|]. apply Z.ltb_lt. unfold nlanes in Hlt. unfold j in Hlt. pose proof (tab_lanes x lanes calls Htab). lia. }
  assert (B5 : lane_busy i (m_open m) = false).
  { unfold lane_busy. destruct (existsb (fun e => (fst e =? i)%Z) (m_open m)) eqn:E; [|reflexivity]. apply existsb_exists in E.
    destruct E as ([z c0] & Hin & Ez). cbn [fst] in Ez. apply Z.eqb_eq in Ez. subst z. destruct (s_open1 _ _ S i c0 Hin) as [_ X]. fold j in X. congruence. }
  (* the pending list *)
  assert (Hp : exists p,
     (if fifo then match split_at c (m_pend m) with
                   | Some (before, after) =>
                       if forallb (fun d => negb (idx d =? i)%Z || (may_skip x && memb d (m_canc m))) before
                       then Some (filter (fun d => negb (idx d =? i)%Z) before ++ after) else None
                   | None => None end
      else Some (m_pend m)) = Some p /\
     (fifo = true -> forall j0, exists sk, filter (fun d => (idx d =? Z.of_nat j0)%Z) p = sk ++ queue (upd F j (take (F j) c q) j0) /\
                                           forall d, In d sk -> In (d, false) (poplog (upd F j (take (F j) c q) j0)))).
  { destruct (Bool.bool_dec fifo true) as [Ef|Ef];
      [rewrite (if_true _ _ _ Ef)|apply not_true_is_false in Ef; rewrite (if_false _ _ _ Ef); exists (m_pend m); split; [reflexivity|intros X; congruence]].
    destruct (s_pend _ _ S Ef j) as (sk & A & B). rewrite Hq, Ezi in A.
    assert (Hsk : ~ In c sk) by (intros X; apply Hnp; apply (in_map_fst c false _ (B c X))).
    destruct (pend_start idx i (m_pend m) sk q c A Hsk) as (before & after & Es & Fb & Fq & Fo); [rewrite Eidx, <- Ej; exact Ezi|].
    rewrite Es.
    assert (Hall : forallb (fun d => negb (idx d =? i)%Z || (may_skip x && memb d (m_canc m))) before = true).
    { apply forallb_forall. intros d Hd. destruct (idx d =? i)%Z eqn:Ed; [|reflexivity]. cbn [negb orb].
      assert (Hds : In d sk) by (rewrite <- Fb; apply filter_In; auto). pose proof (B d Hds) as Hpl. destruct (I11 d Hpl) as [Hcn Hkl].
      assert (Hdl : j = ln d). { apply (s_routed _ _ S j d). rewrite I1. apply in_or_app. left. apply (in_map_fst d false _ Hpl). }
      apply andb_true_intro. split.
      - rewrite (s_kd _ _ S j) in Hkl. apply may_skip_kind, Hkl.
      - apply (s_canc _ _ S d). rewrite <- Hdl. exact Hcn. }
    rewrite Hall. eexists. split; [reflexivity|]. intros _ j0. split_idx j0 j E; fields.
    + exists []. rewrite Ezi, Fq. split; [reflexivity|intros d []].
    + destruct (s_pend _ _ S Ef j0) as (sk0 & A0 & B0). exists sk0. rewrite Fo by lia. auto. }
  destruct Hp as (p & Hp1 & Hp2).
  unfold mon_step. fold idx. rewrite B1, B2, B3, B4, B5. cbn [negb orb]. rewrite Hp1.
  constructor; cbn [m_ok m_stopped m_subm m_acc m_pend m_canc m_begun m_ended m_got m_open m_waited].
  - apply (s_ok _ _ S).
  - intros i0. split_idx i0 j E; [exact HI'|apply (s_inv _ _ S)].
  - intros i0. split_idx i0 j E; [fields|]; apply (s_kd _ _ S).
  - intros i0 c0. split_idx i0 j E; [fields|]; apply (s_routed _ _ S).
  - intros Hst i0. split_idx i0 j E; [fields|]; apply (s_stop1 _ _ S Hst).
  - intros i0. split_idx i0 j E; [fields|]; apply (s_stop2 _ _ S).
  - intros c0. split_lane c0 j E; [fields; rewrite <- E|]; apply (s_subm _ _ S).
  - intros c0. split_lane c0 j E; [fields; rewrite <- E|]; apply (s_acc _ _ S).
  - intros c0. split_lane c0 j E; [fields; rewrite <- E|]; apply (s_canc _ _ S).
  - intros c0. rewrite memb_cons. split_lane c0 j E.
    + unfold started. fields. rewrite started_app. cbn [snd fst]. rewrite in_app_iff, <- E, <- (s_begun _ _ S c0), orb_true_iff, Nat.eqb_eq.
      cbn [In]. split; [intros [X|X]; [right; left; symmetry; exact X|left; exact X]|intros [X|[X|[]]]; [right; exact X|left; symmetry; exact X]].
    + assert (Hne : c0 <> c) by (intros X; subst c0; apply E; symmetry; exact Ej). apply Nat.eqb_neq in Hne. rewrite Hne. cbn [orb]. apply (s_begun _ _ S).
  - intros c0. split_lane c0 j E; [fields; rewrite <- E|]; apply (s_ended _ _ S).
  - intros c0. split_lane c0 j E; [fields; rewrite <- E|]; apply (s_got _ _ S).
  - intros z c0 [Hin|Hin].
    + inversion Hin; subst z c0. split; [exact Ei|]. fold j. rewrite upd_same. reflexivity.
    + destruct (s_open1 _ _ S z c0 Hin) as [A B]. split; [exact A|]. split_idx (Z.to_nat z) j E; [rewrite E in B; congruence|exact B].
  - intros i0 c0. split_idx i0 j E; fields.
    + intros X. inversion X; subst c0. left. rewrite Ezi. reflexivity.
    + intros X. right. apply (s_open2 _ _ S _ _ X).
  - exact Hp2.
Qed.

Lemma inv_started_accepted s c : Inv val s -> In c (started s) -> In c (accepted s).
Proof. intros (I1 & _) H. rewrite I1. apply in_or_app. left. apply in_started in H. apply (in_map_fst c true _ H). Qed.

Lemma sim_end F m i c F' : Sim F m -> replay_item x lanes calls F (IEnd i c) = Some F' -> Sim F' (mon_step x lanes fifo calls m (IEnd i c)).
Proof.
  intros S H. cbn [replay_item] in H. destruct (0 <=? i)%Z eqn:Ei; [|discriminate]. apply Z.leb_le in Ei. set (j := Z.to_nat i) in *.
  destruct (worker (F j)) as [c1|] eqn:Ew; [|discriminate]. destruct (Nat.eqb c c1) eqn:Ec; [|discriminate]. apply Nat.eqb_eq in Ec. subst c1.
  cbn [mstep] in H. destruct (lane_local Done && Nat.ltb j (nlanes lanes)); [|discriminate].
  apply on_spec in H. destruct H as (s' & Hs & ->).
  pose proof (s_inv _ _ S j) as HI. pose proof (inv_step val _ _ _ HI Hs) as HI'.
  destruct (step_done val _ _ Hs) as (c1 & Hw & ->). rewrite Ew in Hw. inversion Hw; subst c1. clear Hw.
  assert (Ezi : Z.of_nat j = i) by (unfold j; apply Z2Nat.id; exact Ei).
  assert (Hst : In c (started (F j))).
  { destruct HI as (_ & I2 & _). rewrite I2, Ew. apply in_or_app. right. left. reflexivity. }
  destruct (s_routed _ _ S j c (inv_started_accepted _ _ HI Hst)) as [Ej Hk].
  assert (B1 : open_has i c (m_open m) = true).
  { unfold open_has. apply existsb_exists. exists (Z.of_nat j, c). split; [apply (s_open2 _ _ S j c Ew)|]. cbn [fst snd]. rewrite Ezi, Z.eqb_refl, Nat.eqb_refl. reflexivity. }
  unfold mon_step. rewrite B1.
  constructor; cbn [m_ok m_stopped m_subm m_acc m_pend m_canc m_begun m_ended m_got m_open m_waited].
  - apply (s_ok _ _ S).
  - intros i0. split_idx i0 j E; [exact HI'|apply (s_inv _ _ S)].
  - intros i0. split_idx i0 j E; [fields|]; apply (s_kd _ _ S).
  - intros i0 c0. split_idx i0 j E; [fields|]; apply (s_routed _ _ S).
  - intros Hs0 i0. split_idx i0 j E; [fields|]; apply (s_stop1 _ _ S Hs0).
  - intros i0. split_idx i0 j E; [fields|]; apply (s_stop2 _ _ S).
  - intros c0. split_lane c0 j E; [fields; rewrite <- E|]; apply (s_subm _ _ S).
  - intros c0. split_lane c0 j E; [fields; rewrite <- E|]; apply (s_acc _ _ S).
  - intros c0. split_lane c0 j E; [fields; rewrite <- E|]; apply (s_canc _ _ S).
  - intros c0. split_lane c0 j E; [unfold started; fields; rewrite <- E|]; apply (s_begun _ _ S).
  - intros c0. rewrite memb_cons. split_lane c0 j E.
    + fields. rewrite in_app_iff, <- E, <- (s_ended _ _ S c0), orb_true_iff, Nat.eqb_eq. cbn [In].
      split; [intros [X|X]; [right; left; symmetry; exact X|left; exact X]|intros [X|[X|[]]]; [right; exact X|left; symmetry; exact X]].
    + assert (Hne : c0 <> c) by (intros X; subst c0; apply E; symmetry; exact Ej). apply Nat.eqb_neq in Hne. rewrite Hne. cbn [orb]. apply (s_ended _ _ S).
  - intros c0. split_lane c0 j E; [fields; rewrite <- E|]; apply (s_got _ _ S).
  - intros z c0 Hin. unfold open_del in Hin. apply filter_In in Hin. destruct Hin as [Hin Hz]. cbn [fst] in Hz. apply negb_true_iff, Z.eqb_neq in Hz.
    destruct (s_open1 _ _ S z c0 Hin) as [A B]. split; [exact A|]. rewrite upd_neq; [exact B|]. intros X. apply Hz. rewrite <- Ezi, <- X. symmetry. apply Z2Nat.id. exact A.
  - intros i0 c0. split_idx i0 j E; fields; [discriminate|]. intros X. unfold open_del. apply filter_In. split; [apply (s_open2 _ _ S _ _ X)|].
    cbn [fst]. apply negb_true_iff, Z.eqb_neq. rewrite <- Ezi. intros Y. apply E. apply Nat2Z.inj, Y.
  - intros Hf i0. split_idx i0 j E; [fields|]; apply (s_pend _ _ S Hf).
Qed.

Lemma sim_stop F m F' : Sim F m -> replay_item x lanes calls F IStop = Some F' -> Sim F' (mon_step x lanes fifo calls m IStop).
Proof.
  intros S H. cbn [replay_item mstep] in H. inversion H; subst F'. clear H. unfold mon_step.
  constructor; cbn [m_ok m_stopped m_subm m_acc m_pend m_canc m_begun m_ended m_got m_open m_waited].
  - apply (s_ok _ _ S).
  - intros i. apply (inv_step val (F i) Stop); [apply (s_inv _ _ S)|reflexivity].
  - intros i. fields. apply (s_kd _ _ S).
  - intros i c0. fields. apply (s_routed _ _ S).
  - intros _ i. reflexivity.
  - intros i _. reflexivity.
  - intros c0. fields. apply (s_subm _ _ S).
  - intros c0. fields. apply (s_acc _ _ S).
  - intros c0. fields. apply (s_canc _ _ S).
  - intros c0. unfold started. fields. apply (s_begun _ _ S).
  - intros c0. fields. apply (s_ended _ _ S).
  - intros c0. fields. apply (s_got _ _ S).
  - intros z c0 Hin. fields. apply (s_open1 _ _ S _ _ Hin).
  - intros i c0. fields. apply (s_open2 _ _ S).
  - intros Hf i. fields. apply (s_pend _ _ S Hf).
Qed.

Lemma sim_cancel F m c F' : Sim F m -> replay_item x lanes calls F (ICancel c) = Some F' -> Sim F' (mon_step x lanes fifo calls m (ICancel c)).
Proof.
  intros S H. cbn [replay_item] in H. destruct (find_call calls c) as [ci|] eqn:Ef; [|discriminate]. cbn [mstep] in H.
  fold hf in H. fold (ln c) in H. set (j := ln c) in *.
  destruct (lane_local (Cancel c) && Nat.ltb j (nlanes lanes)); [|discriminate].
  apply on_spec in H. destruct H as (s' & Hs & ->).
  pose proof (inv_step val _ _ _ (s_inv _ _ S j) Hs) as HI'. cbn [step] in Hs. inversion Hs; subst s'. clear Hs.
  unfold mon_step.
  constructor; cbn [m_ok m_stopped m_subm m_acc m_pend m_canc m_begun m_ended m_got m_open m_waited].
  - apply (s_ok _ _ S).
  - intros i0. split_idx i0 j E; [exact HI'|apply (s_inv _ _ S)].
  - intros i0. split_idx i0 j E; [fields|]; apply (s_kd _ _ S).
  - intros i0 c0. split_idx i0 j E; [fields|]; apply (s_routed _ _ S).
  - intros Hs0 i0. split_idx i0 j E; [fields|]; apply (s_stop1 _ _ S Hs0).
  - intros i0. split_idx i0 j E; [fields|]; apply (s_stop2 _ _ S).
  - intros c0. split_lane c0 j E; [fields; rewrite <- E|]; apply (s_subm _ _ S).
  - intros c0. split_lane c0 j E; [fields; rewrite <- E|]; apply (s_acc _ _ S).
  - intros c0. rewrite memb_cons. split_lane c0 j E.
    + fields. destruct (upd_cases (cancelled (F j)) c true c0) as [[-> E2]|[Hne E2]]; rewrite E2.
      * rewrite Nat.eqb_refl. cbn [orb]. split; reflexivity.
      * apply Nat.eqb_neq in Hne. rewrite Hne. cbn [orb]. rewrite <- E. apply (s_canc _ _ S).
    + assert (Hne : c0 <> c) by (intros X; subst c0; apply E; reflexivity). apply Nat.eqb_neq in Hne. rewrite Hne. cbn [orb]. apply (s_canc _ _ S).
  - intros c0. split_lane c0 j E; [unfold started; fields; rewrite <- E|]; apply (s_begun _ _ S).
  - intros c0. split_lane c0 j E; [fields; rewrite <- E|]; apply (s_ended _ _ S).
  - intros c0. split_lane c0 j E; [fields; rewrite <- E|]; apply (s_got _ _ S).
  - intros z c0 Hin. destruct (s_open1 _ _ S z c0 Hin) as [A B]. split; [exact A|]. split_idx (Z.to_nat z) j E; [fields; rewrite <- E|]; exact B.
  - intros i0 c0. split_idx i0 j E; [fields; rewrite <- E|]; apply (s_open2 _ _ S).
  - intros Hf i0. split_idx i0 j E; [fields|]; apply (s_pend _ _ S Hf).
Qed.

Lemma sim_got F m c fr a F' : Sim F m -> replay_item x lanes calls F (IGot c fr a) = Some F' -> Sim F' (mon_step x lanes fifo calls m (IGot c fr a)).
Proof.
  intros S H. cbn [replay_item] in H.
  destruct (mstep (valf calls) lanes (hash_of x calls) F (MOn (lane_of lanes (hash_of x calls) c) (Recv c fr))) as [F1|] eqn:Em; [|discriminate].
  cbn [mstep] in Em. fold hf in Em, H. fold (ln c) in Em, H. set (j := ln c) in *.
  destruct (lane_local (Recv c fr) && Nat.ltb j (nlanes lanes)); [|discriminate].
  apply on_spec in Em. destruct Em as (s' & Hs & ->). rewrite upd_same in H.
  pose proof (s_inv _ _ S j) as HI. pose proof (inv_step val _ _ _ HI Hs) as HI'.
  destruct (step_recv val _ _ _ _ Hs) as (Hacc & Hg0 & a1 & Hr & ->). cbn [got deliver] in H. rewrite upd_same in H.
  destruct (answer_eqb a a1) eqn:Ea; [|discriminate]. apply answer_eqb_eq in Ea. subst a1. inversion H; subst F'. clear H.
  assert (B1 : memb c (m_acc m) = true) by (apply (s_acc _ _ S c); exact Hacc).
  assert (B2 : memb c (m_got m) = false).
  { apply memb_false. intros X. apply memb_In in X. apply (s_got _ _ S c) in X. apply X. exact Hg0. }
  assert (B3 : match a with
               | Val v => Nat.eqb v (val c) && memb c (m_ended m)
               | CtxErr c' => Nat.eqb c' c && memb c (m_canc m)
               | StopErr => is_xproc x && m_stopped m
               | Weird _ => false
               end = true).
  { destruct HI' as (_ & _ & _ & _ & _ & _ & I7 & _). destruct (I7 c a) as [J _]; [cbn [got deliver]; apply upd_same|].
    destruct a as [v|c'| |w]; cbn [justified] in J; fields.
    - destruct J as [-> J]. rewrite Nat.eqb_refl. cbn [andb]. apply (s_ended _ _ S c). exact J.
    - destruct J as [-> J]. rewrite Nat.eqb_refl. cbn [andb]. apply (s_canc _ _ S c). exact J.
    - destruct J as [Jk Jc]. cbn [kd closed deliver] in Jk, Jc. apply andb_true_intro. split.
      + apply is_xproc_kind. rewrite <- (s_kd _ _ S j). exact Jk.
      + apply (s_stop2 _ _ S j Jc).
    - destruct J. }
  unfold mon_step. fold val. rewrite B1, B2, B3. cbn [negb orb].
  constructor; cbn [m_ok m_stopped m_subm m_acc m_pend m_canc m_begun m_ended m_got m_open m_waited].
  - apply (s_ok _ _ S).
  - intros i0. split_idx i0 j E; [exact HI'|apply (s_inv _ _ S)].
  - intros i0. split_idx i0 j E; [fields|]; apply (s_kd _ _ S).
  - intros i0 c0. split_idx i0 j E; [fields|]; apply (s_routed _ _ S).
  - intros Hs0 i0. split_idx i0 j E; [fields|]; apply (s_stop1 _ _ S Hs0).
  - intros i0. split_idx i0 j E; [fields|]; apply (s_stop2 _ _ S).
  - intros c0. split_lane c0 j E; [fields; rewrite <- E|]; apply (s_subm _ _ S).
  - intros c0. split_lane c0 j E; [fields; rewrite <- E|]; apply (s_acc _ _ S).
  - intros c0. split_lane c0 j E; [fields; rewrite <- E|]; apply (s_canc _ _ S).
  - intros c0. split_lane c0 j E; [unfold started; fields; rewrite <- E|]; apply (s_begun _ _ S).
  - intros c0. split_lane c0 j E; [fields; rewrite <- E|]; apply (s_ended _ _ S).
  - intros c0. rewrite memb_cons. split_lane c0 j E.
    + fields. destruct (upd_cases (got (F j)) c (Some a) c0) as [[-> E2]|[Hne E2]]; rewrite E2.
      * rewrite Nat.eqb_refl. cbn [orb]. split; [intros _; discriminate|reflexivity].
      * apply Nat.eqb_neq in Hne. rewrite Hne. cbn [orb]. rewrite <- E. apply (s_got _ _ S).
    + assert (Hne : c0 <> c) by (intros X; subst c0; apply E; reflexivity). apply Nat.eqb_neq in Hne. rewrite Hne. cbn [orb]. apply (s_got _ _ S).
  - intros z c0 Hin. destruct (s_open1 _ _ S z c0 Hin) as [A B]. split; [exact A|]. split_idx (Z.to_nat z) j E; [fields; rewrite <- E|]; exact B.
  - intros i0 c0. split_idx i0 j E; [fields; rewrite <- E|]; apply (s_open2 _ _ S).
  - intros Hf i0. split_idx i0 j E; [fields|]; apply (s_pend _ _ S Hf).
Qed.

Lemma sim_wait F m F' : Sim F m -> replay_item x lanes calls F IWait = Some F' -> Sim F' (mon_step x lanes fifo calls m IWait).
Proof.
  intros S H. cbn [replay_item] in H. destruct (forallb (fun j => exited (F j)) (interest x lanes calls)) eqn:Ef; [|discriminate].
  inversion H; subst F'. clear H. rewrite forallb_forall in Ef. assert (E0 : exited (F 0) = true) by (apply Ef; left; reflexivity).
  destruct (s_inv _ _ S 0) as (_ & _ & _ & _ & _ & _ & _ & _ & I9 & _). destruct (I9 E0) as (Hc & _).
  unfold mon_step. rewrite (if_true _ _ _ (s_stop2 _ _ S 0 Hc)). destruct S. constructor; assumption.
Qed.

Lemma sim_step F m it F' : Sim F m -> replay_item x lanes calls F it = Some F' -> Sim F' (mon_step x lanes fifo calls m it).
Proof.
  destruct it as [c r|i c|i c|j c| |c|c fr a|j| |w]; intros S H.
  - apply (sim_sub _ _ _ _ _ S H).
  - apply (sim_start _ _ _ _ _ S H).
  - apply (sim_end _ _ _ _ _ S H).
  - apply (sim_skip _ _ _ _ _ S H).
  - apply (sim_stop _ _ _ S H).
  - apply (sim_cancel _ _ _ _ S H).
  - apply (sim_got _ _ _ _ _ _ S H).
  - apply (sim_exit _ _ _ _ S H).
  - apply (sim_wait _ _ _ S H).
  - cbn [replay_item] in H. discriminate.
Qed.

Lemma replay_fold_none tr : fold_left (fun o it => match o with Some F => replay_item x lanes calls F it | None => None end) tr None = None.
Proof. induction tr as [|it tr IH]; [reflexivity|exact IH]. Qed.

Lemma sim_run tr : forall F m F', Sim F m ->
  fold_left (fun o it => match o with Some F => replay_item x lanes calls F it | None => None end) tr (Some F) = Some F' ->
  Sim F' (fold_left (mon_step x lanes fifo calls) tr m).
Proof.
  induction tr as [|it tr IH]; intros F m F' S H; cbn [fold_left] in *.
  - inversion H; subst. exact S.
  - destruct (replay_item x lanes calls F it) as [F1|] eqn:E; [|rewrite replay_fold_none in H; discriminate].
    apply (IH F1 _ F' (sim_step _ _ _ _ S E) H).
Qed.

Lemma waited_mono m it : m_waited m = true -> m_waited (mon_step x lanes fifo calls m it) = true.
Proof.
  intros H. unfold mon_step. destruct it;
    repeat (match goal with |- context [match ?e with _ => _ end] => destruct e end); cbn [m_waited bad]; try exact H; reflexivity.
Qed.

Lemma wait_sets F m F' : Sim F m -> replay_item x lanes calls F IWait = Some F' -> m_waited (mon_step x lanes fifo calls m IWait) = true.
Proof.
  intros S H. cbn [replay_item] in H. destruct (forallb (fun j => exited (F j)) (interest x lanes calls)) eqn:Ef; [|discriminate].
  rewrite forallb_forall in Ef. assert (E0 : exited (F 0) = true) by (apply Ef; left; reflexivity).
  destruct (s_inv _ _ S 0) as (_ & _ & _ & _ & _ & _ & _ & _ & I9 & _). destruct (I9 E0) as (Hc & _).
  unfold mon_step. rewrite (if_true _ _ _ (s_stop2 _ _ S 0 Hc)). reflexivity.
Qed.

Lemma waited_run tr : forall F m F', Sim F m ->
  fold_left (fun o it => match o with Some F => replay_item x lanes calls F it | None => None end) tr (Some F) = Some F' ->
  m_waited m = true \/ existsb is_wait tr = true -> m_waited (fold_left (mon_step x lanes fifo calls) tr m) = true.
Proof.
  induction tr as [|it tr IH]; intros F m F' S H Hw; cbn [fold_left existsb] in *.
  - destruct Hw as [Hw|Hw]; [exact Hw|discriminate].
  - destruct (replay_item x lanes calls F it) as [F1|] eqn:E; [|rewrite replay_fold_none in H; discriminate].
    apply (IH F1 _ F' (sim_step _ _ _ _ S E) H). destruct Hw as [Hw|Hw]; [left; apply waited_mono, Hw|].
    apply orb_prop in Hw. destruct Hw as [Hw|Hw]; [|right; exact Hw]. left. destruct it; try discriminate. apply (wait_sets _ _ _ S E).
Qed.

Theorem matches_holds_tab tr : model_matches x lanes qsize calls tr = true -> holds_run x lanes fifo calls tr = true.
Proof.
  unfold model_matches. intros H. apply andb_prop in H. destruct H as [_ H].
  destruct (replay x lanes qsize calls tr) as [F|] eqn:Er; [|discriminate].
  apply andb_prop in H. destruct H as [H Hcalls]. apply andb_prop in H. destruct H as [Hwait Hex].
  rewrite forallb_forall in Hex, Hcalls. unfold replay in Er.
  pose proof (sim_run tr _ _ _ sim_init Er) as S. pose proof (waited_run tr _ _ _ sim_init Er (or_intror Hwait)) as Hw.
  unfold holds_run. set (m := fold_left (mon_step x lanes fifo calls) tr mon0) in *.
  assert (Hdone : forall c, known calls c -> exited (F (ln c)) = true).
  { intros c Hk. apply Hex. apply (known_idx c Hk). }
  assert (Hnd : nodupb (map ci_id calls) = true).
  { unfold table_ok in Htab. apply andb_prop in Htab. destruct Htab as [X _]. apply andb_prop in X. destruct X as [X _].
    apply andb_prop in X. destruct X as [X _]. apply andb_prop in X. destruct X as [X _]. exact X. }
  assert (Hopen : m_open m = []).
  { destruct (m_open m) as [|[z c] l] eqn:Eo; [reflexivity|]. exfalso.
    destruct (s_open1 _ _ S z c) as [_ Hwk]; [rewrite Eo; left; reflexivity|].
    pose proof (s_inv _ _ S (Z.to_nat z)) as HI. assert (Hst : In c (started (F (Z.to_nat z)))).
    { destruct HI as (_ & I2 & _). rewrite I2, Hwk. apply in_or_app. right. left. reflexivity. }
    destruct (s_routed _ _ S _ c (inv_started_accepted _ _ HI Hst)) as [Ej Hk].
    pose proof (Hdone c Hk) as Hx. rewrite <- Ej in Hx. destruct HI as (_ & _ & _ & _ & _ & _ & _ & _ & I9 & _).
    destruct (I9 Hx) as (_ & Hn & _). congruence. }
  rewrite (s_ok _ _ S), Hnd, (same_hash_ok x lanes calls Htab), Hw, Hopen. cbn [andb].
  apply forallb_forall. intros c Hc. apply memb_In in Hc. pose proof (proj1 (s_acc _ _ S c) Hc) as Hacc.
  destruct (s_routed _ _ S _ c Hacc) as [_ Hk]. pose proof (s_inv _ _ S (ln c)) as HI.
  destruct HI as (I1 & I2 & _ & I4 & _ & _ & _ & _ & I9 & I10 & I11).
  apply andb_true_intro. split.
  - (* the caller has returned *)
    apply (s_got _ _ S c). unfold known in Hk. destruct (find_call calls c) as [ci|] eqn:Ef; [|contradiction].
    destruct (find_call_id calls c ci Ef) as [Eid Hin]. specialize (Hcalls ci Hin). cbn zeta in Hcalls. rewrite Eid in Hcalls.
    fold hf in Hcalls. fold (ln c) in Hcalls. rewrite (proj2 (I10 c) Hacc) in Hcalls. destruct (got (F (ln c)) c); [discriminate|discriminate].
  - (* the call completed *)
    destruct (is_xproc x) eqn:Ep; [reflexivity|]. cbn [orb]. apply not_xproc_kind in Ep.
    destruct (I9 (Hdone c Hk)) as (_ & Hwn & Hq). rewrite (s_kd _ _ S) in Hq. specialize (Hq Ep).
    rewrite I1, Hq, app_nil_r in Hacc. apply in_map_iff in Hacc. destruct Hacc as ([c' b] & Ec & Hpl). cbn [fst] in Ec. subst c'.
    destruct b.
    + assert (X : memb c (m_ended m) = true); [|rewrite X; reflexivity].
      apply (s_ended _ _ S c). apply in_started in Hpl. rewrite I2, Hwn in Hpl. cbn [cur] in Hpl. rewrite app_nil_r in Hpl. exact Hpl.
    + destruct (I11 c Hpl) as [Hcn Hkl]. rewrite (s_kd _ _ S) in Hkl. rewrite (may_skip_kind x Hkl), (proj2 (s_canc _ _ S c) Hcn). cbn [andb].
      assert (X : memb c (m_begun m) = false); [|rewrite X; apply orb_true_r].
      apply memb_false. intros Y. apply memb_In in Y. apply (s_begun _ _ S c) in Y. apply in_started in Y.
      assert (Hnd' : NoDup (map fst (poplog (F (ln c))))) by (rewrite I1 in I4; apply (NoDup_app_l _ _ I4)).
      pose proof (NoDup_map_fst_unique _ c true false Hnd' Y Hpl). discriminate.
Qed.
End Simulation.

(* the table hypothesis is part of model_matches *)
Theorem matches_holds x lanes qsize fifo calls tr : model_matches x lanes qsize calls tr = true -> holds_run x lanes fifo calls tr = true.
Proof.
  intros H. assert (Htab : table_ok x lanes calls = true) by (unfold model_matches in H; apply andb_prop in H; apply H).
  apply (matches_holds_tab x lanes qsize fifo calls Htab tr H).
Qed.

Theorem case_matches_holds c : case_matches c = true -> case_holds c = true.
Proof.
  destruct c as [h n r|x lanes qsize fifo calls tr]; [apply slot_matches_holds|]. cbn [case_matches case_holds]. apply matches_holds.
Qed.

Print Assumptions case_matches_holds.
