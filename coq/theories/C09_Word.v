(* C09 / C08 bridge: the word iteration the C09 model uses ("the first n set positions, ascending") is what both
   traversals of Bit64.IterAs* compute - the dense table scan and the sparse ctz loop of Bit64.v (C08's mirrored
   loops), for every threshold sparseMagic. *)
From Coq Require Import ZArith NArith List Bool Lia.
Require Bit64.
Require C08_Model C08_Spec C08_Iter.
Require Import C09_Model C09_Lists C09_Bits.
Import ListNotations.
Open Scope Z_scope.

(* the word as the list of its 64 bits, least significant first (the representation of Bit64.v) *)
Definition bools (w : Z) : list bool := map (Z.testbit w) z64.

Lemma members_from_filter w : forall n a,
  map Z.of_nat (Bit64.members_from a (map (Z.testbit w) (map Z.of_nat (seq a n)))) = filter (Z.testbit w) (map Z.of_nat (seq a n)).
Proof.
  induction n as [|n IH]; intros a; cbn [seq map Bit64.members_from filter]; [reflexivity|].
  destruct (Z.testbit w (Z.of_nat a)); cbn [app map]; rewrite IH; reflexivity.
Qed.

Lemma wbits_members w : wbits w = map Z.of_nat (Bit64.members (bools w)).
Proof. rewrite wbits_unfold. unfold Bit64.members, bools. rewrite z64_eq. unfold zseq. symmetry. apply members_from_filter. Qed.

Theorem word_iter_forward magic wr w add n :
  witer false wr w add n = map (fun i => wr (Z.of_nat i + add)) (fst (Bit64.iter_fwd magic (bools w) n)).
Proof.
  rewrite Bit64.iter_fwd_spec. cbn [fst]. unfold witer, Bit64.take. rewrite take_firstn, wbits_members, firstn_map, map_map. reflexivity.
Qed.
Theorem word_iter_count magic w n :
  zlen (witer false idz w 0 n) = snd (Bit64.iter_fwd magic (bools w) n).
Proof.
  rewrite (word_iter_forward magic). rewrite Bit64.iter_fwd_spec. cbn [fst snd]. unfold zlen. now rewrite map_length.
Qed.

(* ------------------------------------------------------------------ both directions, through C08's iterator theorems *)
(* C08 (C08_Model.v) models Bit64.IterAsT / RIterAsT and the Bit1024 chain loop by loop - table scan and ctz / clz loop,
   every element type, the slice with cursor / left - and proves them equal to spec_iter (C08_Iter.v: iter64_spec,
   iter1024_spec).  The list spec_iter writes is exactly what the C09 model's witer / iter1024 return, forward AND
   reverse, for every threshold: the C09 model's view of the iterators is C08's theorem, not an assumption. *)
Lemma ztake_take {A} (l : list A) : forall n, C08_Spec.ztake n l = take n l.
Proof.
  induction l as [|x l IH]; intros n; cbn [C08_Spec.ztake]; [now rewrite take_nil|].
  destruct (n <=? 0) eqn:E.
  - apply Z.leb_le in E. now rewrite take_nonpos.
  - apply Z.leb_gt in E. rewrite IH. rewrite !take_firstn.
    replace (Z.to_nat n) with (S (Z.to_nat (n - 1))) by lia. reflexivity.
Qed.

Lemma zseq64 : C08_Spec.zseq 0 64 = z64. Proof. vm_compute. reflexivity. Qed.
Lemma zseq1024 : C08_Spec.zseq 0 1024 = z1024. Proof. vm_compute. reflexivity. Qed.

Definition zwords (ws : list N) : bitmap := map Z.of_N ws.

Lemma members64_wbits w : C08_Spec.members64 w = wbits (Z.of_N w).
Proof.
  unfold C08_Spec.members64. rewrite zseq64, wbits_unfold. apply filter_ext_in'. intros j Hj. apply in_z64 in Hj.
  unfold C08_Spec.mem64. replace ((0 <=? j) && (j <? 64)) with true
    by (symmetry; apply andb_true_intro; split; [apply Z.leb_le|apply Z.ltb_lt]; lia).
  cbn [andb]. symmetry. apply Z.testbit_of_N'. lia.
Qed.

Lemma nth_zwords k ws : nth k (map Z.of_N ws) 0 = Z.of_N (nth k ws 0%N).
Proof. exact (map_nth Z.of_N ws 0%N k). Qed.

Lemma members1024_members ws : C08_Spec.members1024 ws = members (zwords ws).
Proof.
  unfold C08_Spec.members1024, members. rewrite zseq1024. apply filter_ext_in'. intros j Hj. apply in_z1024 in Hj.
  unfold C08_Spec.mem1024, member, zwords.
  rewrite Z.shiftr_div_pow2 by lia. change (2 ^ 6) with 64.
  change 63 with (Z.ones 6). rewrite Z.land_ones by lia. change (2 ^ 6) with 64.
  rewrite nth_zwords. f_equal. symmetry. apply Z.testbit_of_N'. apply Z.mod_pos_bound. lia.
Qed.

(* one word, both directions, every element type and threshold: the values C08's loops write are the C09 model's witer *)
Theorem word_iter_c08 ty add rev magic w s pos n : C08_Spec.wfw w = true ->
  C08_Model.iter64 ty add rev magic w s pos n =
  let vals := witer rev (C08_Model.norm ty) (Z.of_N w) add n in
  match vals with
  | [] => C08_Model.Ok s 0
  | _ => if (0 <=? pos) && (pos + zlen vals <=? zlen s) then C08_Model.Ok (C08_Spec.splice s pos vals) (zlen vals) else C08_Model.Panic
  end.
Proof.
  intros Hw. rewrite (C08_Iter.iter64_spec ty add rev magic w s pos n Hw). unfold C08_Spec.spec_iter.
  rewrite ztake_take, members64_wbits. unfold witer. destruct rev; reflexivity.
Qed.

(* the chain over the 16 words likewise: the C09 model's iter1024 is what C08's Bit1024 iterator writes *)
Theorem iter1024_c08 ty rev magic ws s pos add n : C08_Spec.wfws ws = true ->
  C08_Model.iter1024 ty rev magic ws s pos add n =
  let vals := iter1024 rev (C08_Model.norm ty) (zwords ws) add n in
  match vals with
  | [] => C08_Model.Ok s 0
  | _ => if (0 <=? pos) && (pos + zlen vals <=? zlen s) then C08_Model.Ok (C08_Spec.splice s pos vals) (zlen vals) else C08_Model.Panic
  end.
Proof.
  intros Hw. rewrite (C08_Iter.iter1024_spec ty rev magic ws s pos add n Hw). unfold C08_Spec.spec_iter.
  assert (Hl : length (zwords ws) = 16%nat).
  { unfold zwords. rewrite map_length. unfold C08_Spec.wfws in Hw. apply andb_prop in Hw. destruct Hw as [Hw _]. now apply Nat.eqb_eq. }
  rewrite ztake_take, members1024_members.
  destruct rev; [rewrite (iter1024_rev _ _ _ _ Hl)|rewrite (iter1024_fwd _ _ _ _ Hl)]; reflexivity.
Qed.

Theorem iterators_c08 :
  (forall ty add rev magic w s pos n, C08_Spec.wfw w = true ->
     C08_Model.iter64 ty add rev magic w s pos n =
     let vals := witer rev (C08_Model.norm ty) (Z.of_N w) add n in
     match vals with
     | [] => C08_Model.Ok s 0
     | _ => if (0 <=? pos) && (pos + zlen vals <=? zlen s) then C08_Model.Ok (C08_Spec.splice s pos vals) (zlen vals) else C08_Model.Panic
     end) /\
  (forall ty rev magic ws s pos add n, C08_Spec.wfws ws = true ->
     C08_Model.iter1024 ty rev magic ws s pos add n =
     let vals := iter1024 rev (C08_Model.norm ty) (zwords ws) add n in
     match vals with
     | [] => C08_Model.Ok s 0
     | _ => if (0 <=? pos) && (pos + zlen vals <=? zlen s) then C08_Model.Ok (C08_Spec.splice s pos vals) (zlen vals) else C08_Model.Panic
     end).
Proof. split; [exact word_iter_c08|exact iter1024_c08]. Qed.
