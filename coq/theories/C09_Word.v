(* C09 / C08 bridge: the word iteration the C09 model uses ("the first n set positions, ascending") is what both
   traversals of Bit64.IterAs* compute - the dense table scan and the sparse ctz loop of Bit64.v (C08's mirrored
   loops), for every threshold sparseMagic. *)
From Coq Require Import ZArith List Bool Lia.
Require Bit64.
Require Import C09_Model C09_Lists C09_Bits.
Import ListNotations.
Open Scope Z_scope.

(* the word as the list of its 64 bits, least significant first (the representation of Bit64.v) *)
Definition bools (w : Z) : list bool := map (Z.testbit w) z64.

Lemma members_from_filter w : forall n a,
  map Z.of_nat (Bit64.members_from a (map (Z.testbit w) (map Z.of_nat (seq a n)))) = filter (Z.testbit w) (map Z.of_nat (seq a n)).
Proof.
  induction n as [|n IH]; intros a; cbn [seq map Bit64.members_from filter]; [reflexivity|].
  destruct (Z.testbit w (Z.of_nat a)); cbn [app map]; rewrite IH; reflexivity.
Qed.

Lemma wbits_members w : wbits w = map Z.of_nat (Bit64.members (bools w)).
Proof. rewrite wbits_unfold. unfold Bit64.members, bools. rewrite z64_eq. unfold zseq. symmetry. apply members_from_filter. Qed.

Theorem word_iter_forward magic wr w add n :
  witer false wr w add n = map (fun i => wr (Z.of_nat i + add)) (fst (Bit64.iter_fwd magic (bools w) n)).
Proof.
  rewrite Bit64.iter_fwd_spec. cbn [fst]. unfold witer, Bit64.take. rewrite take_firstn, wbits_members, firstn_map, map_map. reflexivity.
Qed.
Theorem word_iter_count magic w n :
  zlen (witer false idz w 0 n) = snd (Bit64.iter_fwd magic (bools w) n).
Proof.
  rewrite (word_iter_forward magic). rewrite Bit64.iter_fwd_spec. cbn [fst snd]. unfold zlen. now rewrite map_length.
Qed.
