(* C03: re-selection after growChildAndRemove (item-level version of BTSel.v) *)
From Coq Require Import ZArith List Lia Bool Sorting.Sorted.
Require Import C03_Model C03_Spec C03_D C03_Ins.
Import ListNotations.
Open Scope Z_scope.
Local Coercion key : item >-> Z.

(* ifind is determined by the split "everything below k, then k or everything above k" *)
Lemma find_ix_char k : forall p q i0,
  Forall (fun y : item => y < k) p -> ((exists x q', q = x :: q' /\ key x = k) \/ Forall (fun y : item => k < y) q) ->
  ifind_ix (p ++ q) k i0 = ((i0 + length p)%nat, match q with y :: _ => y =? k | [] => false end).
Proof.
  induction p as [|y p IH]; intros q i0 Hp Hq; cbn [app length ifind_ix].
  - rewrite Nat.add_0_r. destruct Hq as [(x & q' & -> & Hx)|Hq].
    + cbn. rewrite Hx, Z.ltb_irrefl, Z.eqb_refl. reflexivity.
    + destruct q as [|z q]; cbn; [reflexivity|]. inversion Hq; subst.
      replace (k <? z) with true by (symmetry; apply Z.ltb_lt; lia).
      replace (z =? k) with false by (symmetry; apply Z.eqb_neq; lia). reflexivity.
  - inversion Hp as [|? ? Hy Hp']; subst.
    replace (k <? y) with false by (symmetry; apply Z.ltb_ge; lia).
    replace (k =? y) with false by (symmetry; apply Z.eqb_neq; lia).
    rewrite IH by auto. f_equal. lia.
Qed.

Lemma find_char k p q : Forall (fun y : item => y < k) p -> ((exists x q', q = x :: q' /\ key x = k) \/ Forall (fun y : item => k < y) q) ->
  ifind (p ++ q) k = (length p, match q with y :: _ => y =? k | [] => false end).
Proof. intros. unfold ifind. now rewrite find_ix_char. Qed.

(* the items of a inode occur in its in-order list *)
Lemma items_in_inter F : forall its ch y, In y its -> In y (inter F its ch).
Proof.
  induction its as [|x its IH]; intros ch y Hin; [destruct Hin|]. cbn [inter].
  apply in_or_app. right. destruct Hin as [->|Hin]; [left; reflexivity | right; apply IH; exact Hin].
Qed.
Lemma items_in_flat f c y : In y (iitems c) -> In y (iflat (S f) c).
Proof. rewrite flat_S. apply items_in_inter. Qed.

Lemma last_in {A} (l : list A) d : l <> [] -> In (last l d) l.
Proof. induction l as [|x l IH]; [congruence|]. intros _. destruct l; [left; reflexivity|]. right. apply IH. discriminate. Qed.

Lemma app_len_inj {A} : forall (p p' q q' : list A), p ++ q = p' ++ q' -> length p = length p' -> p = p' /\ q = q'.
Proof.
  induction p as [|x p IH]; intros p' q q' H Hl; destruct p' as [|y p']; cbn in *; try discriminate; auto.
  inversion H; subst. destruct (IH p' q q' H2 ltac:(lia)) as [-> ->]. auto.
Qed.

(* the index iremove selects in a inode for a given target *)
Definition sel (its : list item) (t : irm) : nat * bool :=
  match t with IRmMin => (O, false) | IRmMax => (length its, false) | IRmItem k => ifind its k end.

Section Sel.
Variable minI : nat.
Hypothesis minI_pos : (1 <= minI)%nat.

Theorem reselect h its ch t i found :
  length ch = S (length its) -> Forall (shaped h) ch ->
  Forall (fun c => (minI <= length (iitems c))%nat) ch ->
  StronglySorted klt (inter (iflat (S h)) its ch) ->
  sel its t = (i, found) -> (1 <= length its)%nat ->
  (length (iitems (nth i ch dinode)) <= minI)%nat ->
  let g := igrow minI (INode its ch) i in
  let '(j, _) := sel (iitems g) t in
  (minI < length (iitems (nth j (ichildren g) dinode)))%nat.
Proof.
  intros Hl Hf Hocc Hs Hsel H1 Hsmall g.
  assert (Hi : (i <= length its)%nat).
  { destruct t as [k| |]; cbn in Hsel; try (inversion Hsel; subst; lia).
    pose proof (sorted_items _ _ _ Hs) as Hsi. destruct (find_spec its k i found Hsi Hsel) as (a & b & -> & -> & _). rewrite app_length. lia. }
  pose proof (grow_cases minI its ch i Hl Hi H1 Hsmall) as Hc. fold g in Hc.
  set (F := iflat (S h)) in *.
  destruct Hc as [a x b ca L C cb Hits Hch Ha Hb Hii Hm Hg | a x b ca C R cb Hits Hch Ha Hb Hii Hm Hg | a x b ca C M cb Hits Hch Ha Hb Hii Hm Hg];
    rewrite Hg; cbn [iitems ichildren]; subst its ch.
  - (* stole from the left: same index, the child grew by one *)
    rewrite Forall_app in Hocc. destruct Hocc as [_ Hocc]. inversion Hocc as [|? ? HL Hocc']; subst. inversion Hocc' as [|? ? HC _]; subst.
    assert (Hbig : (minI < length (iitems (child_after_left x L C)))%nat) by (cbn; lia).
    assert (Hnth : nth (S (length ca)) (ca ++ left_of L :: child_after_left x L C :: cb) dinode = child_after_left x L C)
      by apply nth_app_len_S.
    rewrite flat_node3 in Hs by lia.
    destruct t as [k| |]; cbn [sel] in Hsel |- *.
    + (* the key: the new separator is smaller than the old one, so ifind is unchanged *)
      pose proof (sorted_items F (a ++ x :: b) (ca ++ L :: C :: cb)) as Hsi.
      rewrite flat_node3 in Hsi by lia. specialize (Hsi Hs).
      destruct (find_spec _ k _ found Hsi Hsel) as (p & q & Hpq & Hip & Hp & Hq).
      assert (HLne : iitems L <> []) by (destruct (iitems L); [cbn in Hm; lia|discriminate]).
      assert (Hstolen : last (iitems L) ditem < x).
      { replace (pre F a ca ++ F L ++ x :: F C ++ post F b cb) with ((pre F a ca ++ F L) ++ x :: F C ++ post F b cb) in Hs by now rewrite <- app_assoc.
        destruct (ss_mid _ _ _ Hs) as [Hlt _]. rewrite Forall_forall in Hlt. apply Hlt. apply in_or_app. right.
        apply items_in_flat. apply last_in. exact HLne. }
      (* p = a ++ [x] because |p| = i = S |a| *)
      assert (Hp' : p = a ++ [x] /\ q = b).
      { replace (a ++ x :: b) with ((a ++ [x]) ++ b) in Hpq by now rewrite <- app_assoc.
        symmetry in Hpq. apply app_len_inj in Hpq; [exact Hpq|]. rewrite app_length. cbn [length]. lia. }
      destruct Hp' as [-> ->]. apply Forall_app in Hp as [Hpa Hpx]. inversion Hpx; subst.
      replace (a ++ last (iitems L) ditem :: b) with ((a ++ [last (iitems L) ditem]) ++ b) by now rewrite <- app_assoc.
      rewrite find_char.
      * rewrite app_length. cbn [length]. replace (length a + 1)%nat with (S (length ca)) by lia. rewrite Hnth. exact Hbig.
      * apply Forall_app. split; auto. constructor; [lia|constructor].
      * destruct found; [left; exact Hq | right; exact Hq].
    + inversion Hsel; subst; try lia.
    + inversion Hsel; subst. rewrite !app_length in *. cbn [length] in *.
      replace (length a + S (length b))%nat with (S (length ca)) by lia. rewrite Hnth. exact Hbig.
  - (* stole from the right: the new separator is larger, the key (if it was the separator) moved into the child *)
    rewrite Forall_app in Hocc. destruct Hocc as [_ Hocc]. inversion Hocc as [|? ? HC Hocc']; subst. inversion Hocc' as [|? ? HR _]; subst.
    assert (Hbig : (minI < length (iitems (child_after_right x C R)))%nat) by (cbn; rewrite app_length; cbn; lia).
    assert (Hnth : nth (length ca) (ca ++ child_after_right x C R :: right_of R :: cb) dinode = child_after_right x C R)
      by apply nth_app_len.
    pose proof (sorted_items F (a ++ x :: b) (ca ++ C :: R :: cb) Hs) as Hsi.
    rewrite flat_node3 in Hs by lia.
    destruct t as [k| |]; cbn [sel] in Hsel |- *.
    + destruct (find_spec _ k _ found Hsi Hsel) as (p & q & Hpq & Hip & Hp & Hq).
      assert (HRne : iitems R <> []) by (destruct (iitems R); [cbn in Hm; lia|discriminate]).
      assert (Hstolen : x < hd ditem (iitems R)).
      { replace (pre F a ca ++ F C ++ x :: F R ++ post F b cb) with ((pre F a ca ++ F C) ++ x :: F R ++ post F b cb) in Hs by now rewrite <- app_assoc.
        destruct (ss_mid _ _ _ Hs) as [_ Hgt]. rewrite Forall_forall in Hgt. apply Hgt. apply in_or_app. left.
        apply items_in_flat. destruct (iitems R); [congruence|left; reflexivity]. }
      assert (Hp' : p = a /\ q = x :: b) by (symmetry in Hpq; apply app_len_inj in Hpq; [exact Hpq | lia]).
      destruct Hp' as [-> ->].
      assert (Hxk : k <= x /\ Forall (fun y : item => k < y) b).
      { destruct (ss_app_inv _ _ _ Hsi) as (_ & _ & _ & Hbx & _).
        destruct found.
        - destruct Hq as (x0 & q' & Hq & Hx0). inversion Hq; subst x0 q'. split; [lia|].
          eapply Forall_impl; [|exact Hbx]. cbn beta. intros; lia.
        - inversion Hq; subst. split; [lia|assumption]. }
      destruct Hxk as [Hxk Hbk].
      rewrite find_char; [| exact Hp | right; constructor; [lia | exact Hbk]].
      rewrite Ha, Hnth. exact Hbig.
    + inversion Hsel; subst. destruct ca; [|cbn in *; lia]. cbn. exact Hbig.
    + inversion Hsel; subst. rewrite !app_length in *. cbn [length] in *. lia.
  - (* merged two children around the separator: the merged child is large, and it is the one selected *)
    rewrite Forall_app in Hocc. destruct Hocc as [_ Hocc]. inversion Hocc as [|? ? HC Hocc']; subst. inversion Hocc' as [|? ? HM _]; subst.
    assert (Hbig : (minI < length (iitems (merged x C M)))%nat) by (cbn; rewrite app_length; cbn; lia).
    assert (Hnth : nth (length ca) (ca ++ merged x C M :: cb) dinode = merged x C M) by apply nth_app_len.
    pose proof (sorted_items F (a ++ x :: b) (ca ++ C :: M :: cb) Hs) as Hsi.
    destruct t as [k| |]; cbn [sel] in Hsel |- *.
    + destruct (find_spec _ k _ found Hsi Hsel) as (p & q & Hpq & Hip & Hp & Hq).
      destruct (ss_app_inv _ _ _ Hsi) as (_ & _ & _ & Hbx & _).
      destruct Hii as [Hii|Hii].
      * assert (Hp' : p = a /\ q = x :: b) by (symmetry in Hpq; apply app_len_inj in Hpq; [exact Hpq | lia]).
        destruct Hp' as [-> ->].
        assert (Hbk : Forall (fun y : item => k < y) b).
        { destruct found.
          - destruct Hq as (x0 & q' & Hq & Hx0). inversion Hq; subst x0 q'.
            eapply Forall_impl; [|exact Hbx]. cbn beta. intros; lia.
          - inversion Hq; subst. assumption. }
        rewrite find_char; [| exact Hp | right; exact Hbk].
        rewrite Ha, Hnth. exact Hbig.
      * assert (Hp' : p = a ++ [x] /\ q = b).
        { replace (a ++ x :: b) with ((a ++ [x]) ++ b) in Hpq by now rewrite <- app_assoc.
          symmetry in Hpq. apply app_len_inj in Hpq; [exact Hpq|]. rewrite app_length. cbn [length]. lia. }
        destruct Hp' as [-> ->]. apply Forall_app in Hp as [Hpa _].
        rewrite find_char; [| exact Hpa | destruct found; [left; exact Hq | right; exact Hq]].
        rewrite Ha, Hnth. exact Hbig.
    + inversion Hsel; subst. destruct Hii as [Hii|Hii]; [|lia]. destruct ca; [|cbn in *; lia]. cbn. exact Hbig.
    + inversion Hsel; subst. rewrite !app_length in *. cbn [length] in *.
      destruct Hii as [Hii|Hii]; [lia|]. assert (length b = 0)%nat by lia.
      replace (length a + length b)%nat with (length ca) by lia. rewrite Hnth. exact Hbig.
Qed.

End Sel.
