(* C02: the quiescent states of the locker.  In a reachable state in which no internal step is enabled
   - a caller that has not returned is parked behind ANOTHER live caller that has the same key in a conflicting
     mode (key independence: a caller on a key nobody else holds or waits for has returned), and
   - if every multi-key list was increasing in the key order, some caller has returned whenever any caller is
     inside the locker (ordered acquisition never deadlocks) - for every routing function. *)
From Coq Require Import List Lia Bool Arith Permutation Sorting.Sorted.
Require Import KeyLTS KeyAgree KeyConv C02_Model C02_Table C02_Inv C02_Safety.
Import ListNotations.

(* ---------------- part A: one RWMutex object in a quiet state ---------------- *)
Lemma lock_quiet_spec m : lock_quiet m = true ->
  (writer m = None -> pending m = None -> wwait m = []) /\
  (forall p, pending m = Some p -> writer m = None -> readers m = [] -> tokens m = 0 -> False) /\
  (tokens m = 0 \/ rblocked m = []).
Proof.
  unfold lock_quiet. intros H. apply andb_prop in H. destruct H as [H H3]. apply andb_prop in H. destruct H as [H1 H2].
  apply negb_true_iff in H1. apply negb_true_iff in H2. apply negb_true_iff in H3. split; [|split].
  - intros Hw Hp. unfold free in H1. rewrite Hw, Hp in H1. cbn [andb] in H1. apply negb_false_iff in H1. destruct (wwait m); [reflexivity|discriminate].
  - intros p Hp Hw Hr Ht. rewrite Hp, Hw, Hr, Ht in H2. discriminate.
  - apply andb_false_iff in H3. destruct H3 as [H3|H3]; apply negb_false_iff in H3.
    + left. apply Nat.eqb_eq, H3.
    + right. destruct (rblocked m); [reflexivity|discriminate].
Qed.

(* an announced writer in a quiet lock waits for a reader that holds the lock *)
Lemma pending_has_reader s o p : Conv s -> lock_quiet (locks s o) = true -> pending (locks s o) = Some p ->
  exists y, In y (readers (locks s o)).
Proof.
  intros (_ & _ & HL & _ & _) Hq Hp. destruct (lock_quiet_spec _ Hq) as (_ & Q2 & Q3). destruct (HL o) as (L1 & L2 & _).
  assert (Hw : writer (locks s o) = None) by (apply L1; congruence).
  destruct (readers (locks s o)) as [|y l] eqn:Er; [|exists y; left; reflexivity]. exfalso.
  apply (Q2 p Hp Hw eq_refl). destruct Q3 as [Q3|Q3]; [exact Q3|]. rewrite Q3 in L2. cbn in L2. lia.
Qed.

(* whoever is parked on a quiet lock is behind a caller that HOLDS it *)
Lemma parked_blocker s o x w : Conv s -> lock_quiet (locks s o) = true -> parked s x o w -> exists y wy, live_holder s y o wy.
Proof.
  intros HC Hq Hp. pose proof HC as (_ & _ & HL & HH & HQ). destruct (lock_quiet_spec _ Hq) as (Q1 & Q2 & Q3).
  destruct (HH o) as [Hwr Hrd]. destruct (HL o) as (L1 & L2 & L3).
  assert (Hpend : forall p, pending (locks s o) = Some p -> exists y wy, live_holder s y o wy).
  { intros p Ep. destruct (pending_has_reader s o p HC Hq Ep) as [y Hy]. exists y, false. apply Hrd, Hy. }
  destruct (writer (locks s o)) as [y|] eqn:Ew; [exists y, true; apply Hwr; reflexivity|].
  destruct (pending (locks s o)) as [p|] eqn:Ep; [apply (Hpend p eq_refl)|]. exfalso.
  destruct w.
  - apply (proj1 (HQ o x)) in Hp. unfold wq in Hp. rewrite Ep, (Q1 eq_refl eq_refl) in Hp. destruct Hp.
  - apply (proj2 (HQ o x)) in Hp. destruct Q3 as [Q3|Q3]; [|rewrite Q3 in Hp; destruct Hp].
    destruct L3 as [L3|L3]; [|congruence|congruence]. rewrite Q3. destruct (rblocked (locks s o)); [destruct Hp|cbn; lia].
Qed.

(* ... and behind ANOTHER live caller that has the lock in its list, one of the two being a writer *)
Lemma parked_conflict s o x w : Conv s -> lock_quiet (locks s o) = true -> parked s x o w ->
  (forall t r, reqs s t = Some r -> exists n, rphase r = Acq n) ->
  exists y r, y <> x /\ reqs s y = Some r /\ In o (rkeys r) /\ (w = true \/ rwrite r = true).
Proof.
  intros HC Hq Hp Hacq. pose proof HC as (HI & HA & HL & HH & HQ). destruct (lock_quiet_spec _ Hq) as (Q1 & Q2 & Q3).
  destruct (HH o) as [Hwr Hrd]. destruct (HL o) as (L1 & L2 & L3). destruct (HA o) as (A1 & A2 & A3 & A4).
  (* x itself does not hold o *)
  assert (Hnot : forall wy, ~ live_holder s x o wy).
  { intros wy (r & Er & _ & Hk). destruct Hp as (r' & n & Hwo). destruct (waits_on_spec _ _ _ _ _ _ Hwo) as (E1 & E2 & E3 & _).
    rewrite Er in E1. inversion E1; subst r'. unfold has_key in Hk. rewrite E2 in Hk. destruct Hk as (i & Hi & He).
    destruct HI as [_ HR]. destruct (HR x r Er) as [Hnd _].
    assert (i = n); [|lia]. apply (proj1 (NoDup_nth_error (rkeys r)) Hnd); [apply nth_error_lt in He; exact He|congruence]. }
  assert (Hin : forall y wy, live_holder s y o wy -> exists r, reqs s y = Some r /\ In o (rkeys r) /\ rwrite r = wy).
  { intros y wy (r & Er & Ewy & Hk). exists r. split; [exact Er|split; [|exact Ewy]]. destruct (Hacq y r Er) as [n En].
    unfold has_key in Hk. rewrite En in Hk. destruct Hk as (i & _ & He). apply (nth_error_In _ _ He). }
  assert (Hparked_in : forall p, parked s p o true -> exists r, reqs s p = Some r /\ In o (rkeys r) /\ rwrite r = true).
  { intros p (r & n & Hwo). destruct (waits_on_spec _ _ _ _ _ _ Hwo) as (E1 & _ & E3 & E4 & _). exists r. split; [exact E1|split; [apply (nth_error_In _ _ E3)|exact E4]]. }
  destruct w.
  - (* a writer: queued or announced *)
    pose proof (proj1 (HQ o x) Hp) as Hxq. unfold wq in Hxq, A1, A3.
    destruct (writer (locks s o)) as [y|] eqn:Ew.
    + destruct (Hin y true (Hwr y eq_refl)) as (r & R1 & R2 & R3). exists y, r. split; [|auto]. intros ->. apply (Hnot true), Hwr. reflexivity.
    + destruct (pending (locks s o)) as [p|] eqn:Ep; [|rewrite (Q1 eq_refl eq_refl) in Hxq; destruct Hxq].
      destruct (Nat.eq_dec p x) as [->|Hne].
      * destruct (pending_has_reader s o x HC Hq Ep) as [y Hy]. destruct (Hin y false (Hrd y Hy)) as (r & R1 & R2 & R3).
        exists y, r. split; [|auto]. intros ->. apply (Hnot false), Hrd, Hy.
      * destruct (Hparked_in p (A1 p (or_introl eq_refl))) as (r & R1 & R2 & R3). exists p, r. auto.
  - (* a reader: behind a holding or an announced writer *)
    pose proof (proj2 (HQ o x) Hp) as Hxq.
    assert (Ht : tokens (locks s o) = 0) by (destruct Q3 as [Q3|Q3]; [exact Q3|rewrite Q3 in Hxq; destruct Hxq]).
    assert (Hlt : tokens (locks s o) < length (rblocked (locks s o))) by (rewrite Ht; destruct (rblocked (locks s o)); [destruct Hxq|cbn; lia]).
    destruct (writer (locks s o)) as [y|] eqn:Ew.
    + destruct (Hin y true (Hwr y eq_refl)) as (r & R1 & R2 & R3). exists y, r. split; [|auto]. intros ->. apply (Hnot true), Hwr. reflexivity.
    + destruct (pending (locks s o)) as [p|] eqn:Ep; [|destruct (L3 Hlt); congruence].
      unfold wq in A1. rewrite Ep in A1. pose proof (A1 p (or_introl eq_refl)) as Hpp.
      destruct (Hparked_in p Hpp) as (r & R1 & R2 & R3). exists p, r. split; [|auto].
      intros ->. destruct (parked_unique s x o true o false Hpp Hp) as [_ E]. discriminate.
Qed.

(* ---------------- part B: the complete locker ---------------- *)
Lemma nth_error_map_inv {A B} (f : A -> B) : forall l n y, nth_error (map f l) n = Some y -> exists x, nth_error l n = Some x /\ f x = y.
Proof.
  induction l as [|a l IH]; intros [|n] y H; cbn [map nth_error] in *; try discriminate.
  - inversion H. exists a. auto.
  - apply IH, H.
Qed.
Lemma sorted_nth {A} (R : A -> A -> Prop) : forall l i j x y, StronglySorted R l -> i < j ->
  nth_error l i = Some x -> nth_error l j = Some y -> R x y.
Proof.
  induction l as [|a l IH]; intros i j x y Hs Hij Hi Hj; [destruct i; discriminate|].
  inversion Hs as [|? ? Hs' Hf]; subst. destruct j as [|j]; [lia|]. cbn [nth_error] in Hj. destruct i as [|i].
  - cbn [nth_error] in Hi. inversion Hi; subst. rewrite Forall_forall in Hf. apply Hf, (nth_error_In _ _ Hj).
  - cbn [nth_error] in Hi. apply (IH i j x y Hs'); [lia|exact Hi|exact Hj].
Qed.
Lemma reg_keys_length t w : forall c b, length (snd (reg_keys t w b c)) = length c.
Proof.
  induction c as [|k c IH]; intros b; cbn [reg_keys]; [reflexivity|].
  destruct (reg_key t w b k) as [b1 o]. specialize (IH b1). destruct (reg_keys t w b1 c) as [b2 os]. cbn [snd length] in *. lia.
Qed.

Section Full.
Variable sh : nat -> nat.

Lemma lexlt_irrefl a : ~ lexlt sh a a.
Proof. unfold lexlt. lia. Qed.
Lemma lexlt_trans a b c : lexlt sh a b -> lexlt sh b c -> lexlt sh a c.
Proof. unfold lexlt. lia. Qed.
Lemma lexlt_dec a b : {lexlt sh a b} + {~ lexlt sh a b}.
Proof.
  unfold lexlt. destruct (lt_dec (sh a) (sh b)); [left; lia|]. destruct (Nat.eq_dec (sh a) (sh b)); [|right; lia].
  destruct (lt_dec a b); [left; lia|right; lia].
Qed.

(* every step of the locker is at most one step of the RWMutex machine *)
Lemma fstep_base s l s' : fstep sh s l = Some s' -> base s' = base s \/ exists bl, step (base s) bl = Some (base s').
Proof.
  intros H. destruct l as [t ks w|t|t|o i|o|o i|t|t]; cbn [fstep] in H;
    try (unfold lift in H; match type of H with context [step ?b ?bl] => destruct (step b bl) as [b'|] eqn:Es; [|discriminate] end;
         inversion H; subst; cbn [base]; right; eexists; exact Es).
  - destruct (thr s t); [discriminate|]. destruct (nodupb ks); [|discriminate].
    destruct (start_if_done_spec _ _ _ _ H) as (_ & [(_ & E & _)|(_ & E & _)]); [left; exact E|right; eexists; exact E].
  - destruct (thr s t) as [q|]; [|discriminate]. destruct (tstage q) as [[|c todo]| |]; try discriminate.
    destruct (reg_keys t (tw q) (tb s) c) as [b' os].
    destruct (start_if_done_spec _ _ _ _ H) as (_ & [(_ & E & _)|(_ & E & _)]); cbn [base] in E; [left; exact E|right; eexists; exact E].
  - destruct (thr s t) as [q|]; [|discriminate]. destruct (tstage q); try discriminate.
    destruct (step (base s) (Release t)) as [b|] eqn:Es; [|discriminate]. inversion H; subst. cbn [base]. right. eexists. exact Es.
  - destruct (thr s t) as [q|]; [|discriminate]. destruct (tstage q); try discriminate. destruct (tregd q) as [|[k o_s] rem]; [discriminate|].
    destruct (unreg_key t (tw q) (tb s) k) as [[b' o]|]; [|discriminate]. destruct (next_rel_obj s t); [|discriminate].
    destruct (Nat.eqb n o); [|discriminate]. destruct (step (base s) (UnlockKey t)) as [bs|] eqn:Es; [|discriminate].
    inversion H; subst. cbn [base]. right. eexists. exact Es.
Qed.

Lemma fstep_conv s l s' : Conv (base s) -> fstep sh s l = Some s' -> Conv (base s').
Proof. intros HC H. destruct (fstep_base s l s' H) as [E|[bl E]]; [rewrite E; exact HC|apply (conv_step _ _ _ HC E)]. Qed.
Lemma frun_conv ls : forall s s', Conv (base s) -> frun sh s ls = Some s' -> Conv (base s').
Proof.
  unfold frun. induction ls as [|l ls IH]; intros s s' HC H; cbn [fold_left] in H.
  - inversion H; subst. exact HC.
  - destruct (fstep sh s l) as [s1|] eqn:E; [apply (IH s1 s' (fstep_conv s l s1 HC E) H)|].
    exfalso. clear -H. induction ls as [|l' ls IH]; cbn [fold_left] in H; [discriminate|auto].
Qed.

(* ---- callers' key lists stay sorted in the (shard, key) order when every call's list is increasing ---- *)
Definition SortedInv (s : fstate) : Prop :=
  forall t q, thr s t = Some q -> StronglySorted (lexlt sh) (map fst (tregd q) ++ concat (todo_of q)).
Definition ordered_label (l : flabel) : Prop := match l with FCall _ ks _ => StronglySorted lt ks | _ => True end.

Lemma sorted_upd s s' t (oq : option treq) : SortedInv s -> (forall x, thr s' x = upd (thr s) t oq x) ->
  (forall q, oq = Some q -> StronglySorted (lexlt sh) (map fst (tregd q) ++ concat (todo_of q))) -> SortedInv s'.
Proof.
  intros HS E Hq x q Hx. rewrite E in Hx. destruct (Nat.eq_dec x t) as [->|N]; [rewrite upd_same in Hx; apply Hq, Hx|rewrite upd_other in Hx by exact N; apply HS with x, Hx].
Qed.

Lemma sorted_after_section s t q s' : SortedInv s -> start_if_done s t q = Some s' ->
  StronglySorted (lexlt sh) (map fst (tregd q) ++ concat (todo_of q)) -> SortedInv s'.
Proof.
  intros HS H Hq. destruct (start_if_done_spec s t q s' H) as (_ & [(_ & _ & Et)|(Est & _ & Et)]).
  - apply (sorted_upd s s' t (Some q) HS); [intros x; rewrite Et; reflexivity|intros q0 E; inversion E; subst; exact Hq].
  - apply (sorted_upd s s' t (Some (set_stage q SRun)) HS); [intros x; rewrite Et; reflexivity|].
    intros q0 E. inversion E; subst. unfold todo_of in *. rewrite Est in Hq. cbn [set_stage tstage tregd concat] in *. exact Hq.
Qed.

Lemma sorted_step s l s' : ordered_label l -> SortedInv s -> fstep sh s l = Some s' -> SortedInv s'.
Proof.
  intros Ho HS H. destruct l as [t ks w|t|t|o i|o|o i|t|t]; cbn [fstep] in H;
    try (unfold lift in H; match type of H with context [step ?b ?bl] => destruct (step b bl) as [b'|]; [|discriminate] end;
         inversion H; subst; exact HS).
  - destruct (thr s t); [discriminate|]. destruct (nodupb ks); [|discriminate].
    apply (sorted_after_section _ _ _ _ HS H). cbn [tregd map app todo_of tstage]. rewrite concat_chunks. apply acq_order_sorted, Ho.
  - destruct (thr s t) as [q|] eqn:Et; [|discriminate]. destruct (tstage q) as [[|c todo]| |] eqn:Est; try discriminate.
    pose proof (reg_keys_length t (tw q) c (tb s)) as Hlen. destruct (reg_keys t (tw q) (tb s) c) as [b' os]. cbn [snd] in Hlen.
    assert (HS1 : SortedInv {| base := base s; tb := b'; thr := thr s |}) by exact HS.
    apply (sorted_after_section _ _ _ _ HS1 H). cbn [tregd todo_of tstage].
    rewrite map_app, map_fst_combine by exact Hlen. rewrite <- app_assoc.
    pose proof (HS t q Et) as Hq. unfold todo_of in Hq. rewrite Est in Hq. exact Hq.
  - destruct (thr s t) as [q|] eqn:Et; [|discriminate]. destruct (tstage q) eqn:Est; try discriminate.
    destruct (step (base s) (Release t)) as [b|]; [|discriminate]. inversion H; subst s'; clear H.
    eapply (sorted_upd s _ t); [exact HS|intros x; cbn [thr]; reflexivity|]. intros q0 E. destruct (tregd q) eqn:Eq; [discriminate|]. inversion E; subst q0.
    pose proof (HS t q Et) as Hq. unfold todo_of in *. rewrite Est in Hq. cbn [set_stage tstage tregd]. exact Hq.
  - destruct (thr s t) as [q|] eqn:Et; [|discriminate]. destruct (tstage q) eqn:Est; try discriminate. destruct (tregd q) as [|[k o_s] rem] eqn:Eq; [discriminate|].
    destruct (unreg_key t (tw q) (tb s) k) as [[b' o]|]; [|discriminate]. destruct (next_rel_obj s t); [|discriminate].
    destruct (Nat.eqb n o); [|discriminate]. destruct (step (base s) (UnlockKey t)) as [bs|]; [|discriminate]. inversion H; subst s'; clear H.
    eapply (sorted_upd s _ t); [exact HS|intros x; cbn [thr]; reflexivity|]. intros q0 E. destruct rem as [|p rest] eqn:Er; [discriminate|]. inversion E; subst q0.
    pose proof (HS t q Et) as Hq. unfold todo_of in *. rewrite Est, Eq in Hq. cbn [map fst app] in Hq. inversion Hq; subst.
    cbn [tstage tregd]. assumption.
Qed.

Lemma frun_sorted ls : forall s s', Forall ordered_label ls -> SortedInv s -> frun sh s ls = Some s' -> SortedInv s'.
Proof.
  unfold frun. induction ls as [|l ls IH]; intros s s' Ho HS H; cbn [fold_left] in H.
  - inversion H; subst. exact HS.
  - inversion Ho as [|? ? Hl Hls]; subst.
    destruct (fstep sh s l) as [s1|] eqn:E; [apply (IH s1 s' Hls (sorted_step s l s1 Hl HS E) H)|].
    exfalso. clear -H. induction ls as [|l' ls IH]; cbn [fold_left] in H; [discriminate|auto].
Qed.

(* ---- quiet states ---- *)
Definition fquiet (s : fstate) : Prop :=
  (forall t, thread_quiet s t = true) /\ (forall o, lock_quiet (locks (base s) o) = true).

Lemma quiet_thread s t q : fquiet s -> thr s t = Some q -> running (base s) t = false /\ tstage q = SRun.
Proof.
  intros [Ht _] Hq. specialize (Ht t). unfold thread_quiet in Ht. rewrite Hq in Ht. apply andb_prop in Ht. destruct Ht as [A B].
  apply negb_true_iff in A. split; [exact A|]. destruct (tstage q); [discriminate|reflexivity|discriminate].
Qed.

Lemma quiet_link s t q : FInv s -> fquiet s -> thr s t = Some q ->
  exists r n, reqs (base s) t = Some r /\ rkeys r = map snd (tregd q) /\ rwrite r = tw q /\ rphase r = Acq n /\ n <= length (rkeys r) /\
              running (base s) t = false.
Proof.
  intros HF Hq Ht. destruct (quiet_thread s t q Hq Ht) as [Hrun Hst]. pose proof HF as ((_ & HR) & _ & _ & HTh & _).
  destruct (HTh t q Ht) as (_ & _ & Hl). unfold link in Hl. rewrite Hst in Hl. destruct Hl as (r & n & A & B & C & D).
  exists r, n. destruct (HR t r A) as [_ Hp]. rewrite D in Hp. destruct Hp as [Hn _]. auto 10.
Qed.

Lemma quiet_all_acq s : FInv s -> fquiet s -> forall t r, reqs (base s) t = Some r -> exists n, rphase r = Acq n.
Proof.
  intros HF Hq t r Hr. destruct (thr s t) as [q|] eqn:Et.
  - destruct (quiet_link s t q HF Hq Et) as (r' & n & A & _ & _ & D & _). rewrite Hr in A. inversion A; subst r'. exists n. exact D.
  - destruct HF as (_ & _ & _ & _ & HN). rewrite (HN t Et) in Hr. discriminate.
Qed.

(* a live caller that has not returned is parked on the object of its next key *)
Lemma live_parked s t q : FInv s -> fquiet s -> thr s t = Some q -> returned s t = false ->
  exists r n k o, reqs (base s) t = Some r /\ rkeys r = map snd (tregd q) /\ rphase r = Acq n /\
                  nth_error (tregd q) n = Some (k, o) /\ parked (base s) t o (tw q).
Proof.
  intros HF Hq Ht Hret. destruct (quiet_link s t q HF Hq Ht) as (r & n & A & B & C & D & E & Frun).
  destruct (quiet_thread s t q Hq Ht) as [_ Hst].
  unfold returned in Hret. rewrite Ht, A, Hst, D, Frun in Hret. cbn [negb andb] in Hret. rewrite andb_true_r in Hret. apply Nat.eqb_neq in Hret.
  assert (Hlt : n < length (rkeys r)) by lia. destruct (nth_error (rkeys r) n) as [o|] eqn:En; [|apply nth_error_None in En; lia].
  pose proof En as En'. rewrite B in En'. destruct (nth_error_map_inv snd _ _ _ En') as ([k o'] & P1 & P2). cbn [snd] in P2. subst o'.
  exists r, n, k, o. split; [exact A|split; [exact B|split; [exact D|split; [exact P1|]]]].
  exists r, n. unfold waits_on. rewrite A, D, En, Frun, C, Nat.eqb_refl, eqb_reflx. reflexivity.
Qed.

(* a request of the RWMutex machine belongs to a live caller *)
Lemma req_live s t r : FInv s -> reqs (base s) t = Some r -> exists q, thr s t = Some q.
Proof.
  intros (_ & _ & _ & _ & HN) Hr. destruct (thr s t) as [q|] eqn:Et; [exists q; reflexivity|]. rewrite (HN t Et) in Hr. discriminate.
Qed.

(* ---- key independence at quiet states ---- *)
Lemma quiet_independence_inv s t q : FInv s -> Conv (base s) -> fquiet s -> thr s t = Some q -> returned s t = false ->
  exists t' q' k o o', t' <> t /\ thr s t' = Some q' /\ In (k, o) (tregd q) /\ In (k, o') (tregd q') /\ (tw q = true \/ tw q' = true).
Proof.
  intros HF HC Hq Ht Hret.
  destruct (live_parked s t q HF Hq Ht Hret) as (r & n & k & o & A & B & D & P1 & Hp).
  destruct (parked_conflict (base s) o t (tw q) HC (proj2 Hq o) Hp (quiet_all_acq s HF Hq)) as (y & ry & Hne & Ry & Hin & Hmode).
  destruct (req_live s y ry HF Ry) as [qy Hy].
  destruct (quiet_link s y qy HF Hq Hy) as (r' & n' & A' & B' & C' & _). rewrite Ry in A'. inversion A'; subst r'.
  rewrite B' in Hin. apply in_map_iff in Hin. destruct Hin as ([k' o'] & E & Hin). cbn [snd] in E. subst o'.
  pose proof (nth_error_In _ _ P1) as Hin0.
  assert (k = k') by (apply (distinct_objects s t q y qy k k' o HF Ht Hy Hin0 Hin)). subst k'.
  exists y, qy, k, o, o. split; [exact Hne|split; [exact Hy|split; [exact Hin0|split; [exact Hin|]]]].
  destruct Hmode as [M|M]; [left; exact M|right; congruence].
Qed.
Theorem quiet_independence ls s t q : frun sh finit ls = Some s -> fquiet s -> thr s t = Some q -> returned s t = false ->
  exists t' q' k o o', t' <> t /\ thr s t' = Some q' /\ In (k, o) (tregd q) /\ In (k, o') (tregd q') /\ (tw q = true \/ tw q' = true).
Proof. intros Hrun. apply quiet_independence_inv; [apply (reachable_finv sh ls s Hrun)|apply (frun_conv ls finit s conv_init Hrun)]. Qed.

(* ---- ordered acquisition never deadlocks ---- *)
Definition next_key (s : fstate) (t : nat) : nat :=
  match thr s t, reqs (base s) t with
  | Some q, Some r => match rphase r with Acq n => fst (nth n (tregd q) (0, 0)) | Rel _ => 0 end
  | _, _ => 0
  end.

Lemma max_elem (g : nat -> nat) : forall l : list nat, l <> [] -> exists x, In x l /\ forall y, In y l -> ~ lexlt sh (g x) (g y).
Proof.
  induction l as [|a l IH]; [congruence|]. intros _. destruct l as [|b l'].
  - exists a. split; [left; reflexivity|]. intros y [<-|[]]. apply lexlt_irrefl.
  - destruct (IH ltac:(discriminate)) as (m & Hm & Hmax). destruct (lexlt_dec (g m) (g a)) as [Hlt|Hnlt].
    + exists a. split; [left; reflexivity|]. intros y [<-|Hy]; [apply lexlt_irrefl|].
      intros Hay. apply (Hmax y Hy). apply (lexlt_trans _ _ _ Hlt Hay).
    + exists m. split; [right; exact Hm|]. intros y [<-|Hy]; [exact Hnlt|apply Hmax, Hy].
Qed.

Lemma quiet_progress_inv s nt : FInv s -> Conv (base s) -> SortedInv s -> fquiet s ->
  (forall t, nt <= t -> thr s t = None) -> (exists t, thr s t <> None) -> exists t, returned s t = true.
Proof.
  intros HF HC HS Hq Hbound (t0 & Ht0).
  destruct (existsb (returned s) (seq 0 nt)) eqn:Eret.
  { apply existsb_exists in Eret. destruct Eret as (t & _ & Hr). exists t. exact Hr. }
  exfalso.
  assert (Hnoret : forall t, returned s t = false).
  { intros t. destruct (returned s t) eqn:Er; [|reflexivity]. destruct (le_lt_dec nt t) as [Hge|Hlt].
    - unfold returned in Er. rewrite (Hbound t Hge) in Er. discriminate.
    - assert (existsb (returned s) (seq 0 nt) = true); [|congruence]. apply existsb_exists. exists t. split; [apply in_seq; lia|exact Er]. }
  set (live := filter (fun t => match thr s t with Some _ => true | None => false end) (seq 0 nt)).
  assert (Hlive : forall t, In t live <-> thr s t <> None).
  { intros t. unfold live. rewrite filter_In, in_seq. split.
    - intros [_ H]. destruct (thr s t); [discriminate|discriminate].
    - intros H. split; [|destruct (thr s t); [reflexivity|congruence]]. destruct (le_lt_dec nt t) as [Hge|Hlt]; [exfalso; apply H, Hbound, Hge|lia]. }
  (* every live caller is behind a live caller whose next key is larger *)
  assert (Hstep : forall x, In x live -> exists y, In y live /\ lexlt sh (next_key s x) (next_key s y)).
  { intros x Hx. apply Hlive in Hx. destruct (thr s x) as [qx|] eqn:Ex; [|congruence].
    destruct (live_parked s x qx HF Hq Ex (Hnoret x)) as (r & n & k & o & A & B & D & P1 & Hp).
    destruct (parked_blocker (base s) o x (tw qx) HC (proj2 Hq o) Hp) as (y & wy & ry & Ry & _ & Hk).
    destruct (req_live s y ry HF Ry) as [qy Hy].
    destruct (live_parked s y qy HF Hq Hy (Hnoret y)) as (ry' & ny & ky & oy & Ay & By & Dy & Py & _).
    rewrite Ry in Ay. inversion Ay; subst ry'. unfold has_key in Hk. rewrite Dy in Hk. destruct Hk as (i & Hi & He).
    rewrite By in He. destruct (nth_error_map_inv snd _ _ _ He) as ([k' o'] & Pi & E). cbn [snd] in E. subst o'.
    assert (k = k') by (apply (distinct_objects s x qx y qy k k' o HF Ex Hy (nth_error_In _ _ P1) (nth_error_In _ _ Pi))). subst k'.
    exists y. split; [apply Hlive; congruence|].
    unfold next_key. rewrite Ex, A, D, Hy, Ry, Dy. rewrite (nth_error_nth _ _ _ P1), (nth_error_nth _ _ _ Py). cbn [fst].
    pose proof (HS y qy Hy) as Hs. destruct (quiet_thread s y qy Hq Hy) as [_ Hst]. unfold todo_of in Hs. rewrite Hst in Hs. cbn [concat] in Hs. rewrite app_nil_r in Hs.
    apply (sorted_nth (lexlt sh) (map fst (tregd qy)) i ny k ky Hs Hi); [rewrite (map_nth_error fst _ _ Pi)|rewrite (map_nth_error fst _ _ Py)]; reflexivity. }
  assert (Hne : live <> []).
  { intros E. assert (In t0 live) by (apply Hlive; exact Ht0). rewrite E in H. destruct H. }
  destruct (max_elem (next_key s) live Hne) as (x & Hx & Hmax). destruct (Hstep x Hx) as (y & Hy & Hlt). exact (Hmax y Hy Hlt).
Qed.

Theorem quiet_progress ls s nt : frun sh finit ls = Some s -> Forall ordered_label ls -> fquiet s ->
  (forall t, nt <= t -> thr s t = None) -> (exists t, thr s t <> None) -> exists t, returned s t = true.
Proof.
  intros Hrun Hord. apply quiet_progress_inv; [apply (reachable_finv sh ls s Hrun)|apply (frun_conv ls finit s conv_init Hrun)|].
  apply (frun_sorted ls finit s Hord); [intros t q H; discriminate|exact Hrun].
Qed.

End Full.
