(* C16: the composed machine refines the accept-loop prototype (Accept.v, DESIGN appendix AJ): a session's exit - the
   one step in which its exitOnce fires - is the `Exit` label of that machine, the accept loop's step is its `Accept`, everything
   else a session does is invisible to it.  So the count bound proved there is a corollary here, and the two
   prototypes are two projections of one machine. *)
From Coq Require Import ZArith List Bool Lia Arith.
Require Import C16_Model C16_Inv.
Require Accept.
Import ListNotations.
Open Scope Z_scope.

Definition is_live (s : sess) : bool := started s && negb (exited s).
Definition is_rej (s : sess) : bool := negb (started s).

(* positions (counted from k) of the entries satisfying p, highest first *)
Fixpoint ids (p : sess -> bool) (k : nat) (l : list sess) : list nat :=
  match l with
  | [] => []
  | s :: r => ids p (S k) r ++ (if p s then [k] else [])
  end.

Definition abs (t : st) : Accept.srv :=
  {| Accept.maxc := Z.to_nat (maxc t); Accept.count := Z.to_nat (cnt t);
     Accept.live := ids is_live 0 (ss t); Accept.closed_on_accept := ids is_rej 0 (ss t) |}.

(* the label of the accept machine that a step of the composed machine stands for *)
Definition exits (t : st) (i : nat) (a : act) : bool :=
  match nth_error (ss t) i with
  | Some s => match sess_step s a with Some (_, d) => d | None => false end
  | None => false
  end.
Definition proj (t : st) (l : label) : list Accept.label :=
  match l with
  | Start _ _ _ _ | Arrive _ | AcceptFail | FdExhaust | FdRestore | SrvClose => []
  | C16_Model.Accept i => [Accept.Accept i]
  | On i a => if exits t i a then [Accept.Exit i] else []
  end.

Lemma ids_app p l1 : forall k l2, ids p k (l1 ++ l2) = ids p (k + length l1) l2 ++ ids p k l1.
Proof.
  induction l1 as [|s l1 IH]; intros k l2; cbn.
  - now rewrite Nat.add_0_r, app_nil_r.
  - rewrite IH. rewrite <- app_assoc. do 2 f_equal. lia.
Qed.

Lemma ids_range p l : forall k x, In x (ids p k l) -> (k <= x < k + length l)%nat.
Proof.
  induction l as [|s l IH]; intros k x H; cbn in *; [contradiction|].
  apply in_app_or in H as [H|H].
  - apply IH in H. lia.
  - destruct (p s); [|contradiction]. destruct H as [<-|[]]. lia.
Qed.

Lemma mem_false_range x l : (forall y, In y l -> y <> x) -> Accept.mem x l = false.
Proof.
  intros H. destruct (Accept.mem x l) eqn:E; [|reflexivity]. apply Accept.mem_In in E. exfalso. exact (H x E eq_refl).
Qed.

(* changing entry i from s to s' : the id list loses / keeps / gains i *)
Lemma ids_upd_same p l : forall k i s s', nth_error l i = Some s -> p s' = p s -> ids p k (upd i s' l) = ids p k l.
Proof.
  induction l as [|y l IH]; intros k [|i] s s' H Hp; cbn in *; try discriminate.
  - inversion H; subst. now rewrite Hp.
  - now rewrite (IH (S k) i s s' H Hp).
Qed.

Lemma filter_ids_other p l x : forall k, (forall y, In y (ids p k l) -> y <> x) ->
  filter (fun y => negb (Nat.eqb y x)) (ids p k l) = ids p k l.
Proof.
  intros k H. induction (ids p k l) as [|z r IH]; cbn; [reflexivity|].
  destruct (Nat.eqb z x) eqn:E; cbn.
  - apply Nat.eqb_eq in E. exfalso. apply (H z); [left; reflexivity|exact E].
  - f_equal. apply IH. intros y Hy. apply H. right. exact Hy.
Qed.

Lemma ids_upd_drop p l : forall k i s s', nth_error l i = Some s -> p s = true -> p s' = false ->
  ids p k (upd i s' l) = Accept.remove1 (k + i) (ids p k l).
Proof.
  unfold Accept.remove1.
  induction l as [|y l IH]; intros k [|i] s s' H Hp Hp'; cbn in *; try discriminate.
  - inversion H; subst. rewrite Hp, Hp'. rewrite app_nil_r, filter_app. cbn. rewrite Nat.add_0_r, Nat.eqb_refl. cbn.
    rewrite app_nil_r. symmetry. apply filter_ids_other. intros z Hz. apply ids_range in Hz. lia.
  - rewrite (IH (S k) i s s' H Hp Hp'). rewrite filter_app. replace (S k + i)%nat with (k + S i)%nat by lia. f_equal.
    destruct (p y); cbn; [|reflexivity]. destruct (Nat.eqb k (k + S i)) eqn:E; [apply Nat.eqb_eq in E; lia|reflexivity].
Qed.

Lemma ids_nth_in p l : forall k i s, nth_error l i = Some s -> p s = true -> In (k + i)%nat (ids p k l).
Proof.
  induction l as [|y l IH]; intros k [|i] s H Hp; cbn in *; try discriminate.
  - inversion H; subst. rewrite Hp. apply in_or_app. right. left. lia.
  - apply in_or_app. left. replace (k + S i)%nat with (S k + i)%nat by lia. eapply IH; eauto.
Qed.

(* one step of the composed machine is the projected labels of the accept machine (zero or one of them) *)
Theorem step_refines t l t' : GInv 0 t -> step t l = Some t' -> not_start l = true ->
  Accept.run (abs t) (proj t l) = Some (abs t').
Proof.
  intros G H Hn. destruct l as [i trp reads h0|i|i| | | | |i a]; [discriminate| | | | | | |].
  - (* a connection starts waiting: invisible *)
    cbn [proj]. cbn [step] in H. destruct (Nat.eqb i (length (ss t) + pend t)); [|discriminate]. inversion H; subst t'. reflexivity.
  - (* the accept loop takes a connection *)
    cbn [proj]. unfold Accept.run. cbn [fold_left]. cbn [step] in H.
    destruct (Nat.eqb i (length (ss t)) && negb (Nat.eqb (pend t) 0) && aloop (al t) && negb (fdlim (al t))) eqn:Ei; [|discriminate].
    apply andb_prop in Ei as [Ei _]. apply andb_prop in Ei as [Ei _]. apply andb_prop in Ei as [Ei _]. apply Nat.eqb_eq in Ei.
    unfold Accept.step. cbn [abs Accept.live Accept.closed_on_accept Accept.maxc Accept.count].
    rewrite (mem_false_range i (ids is_live 0 (ss t))) by (intros y Hy; apply ids_range in Hy; lia).
    rewrite (mem_false_range i (ids is_rej 0 (ss t))) by (intros y Hy; apply ids_range in Hy; lia).
    cbn [orb].
    pose proof (g_cnt _ _ G) as Gc. pose proof (total_nonneg (ss t)) as Tn.
    destruct (maxc t <=? cnt t) eqn:E; inversion H; subst t'; clear H; unfold abs; cbn [maxc cnt ss].
    + apply Z.leb_le in E. replace (Nat.leb (Z.to_nat (maxc t)) (Z.to_nat (cnt t))) with true by (symmetry; apply Nat.leb_le; lia).
      rewrite !ids_app. cbn. subst i. reflexivity.
    + apply Z.leb_gt in E. replace (Nat.leb (Z.to_nat (maxc t)) (Z.to_nat (cnt t))) with false by (symmetry; apply Nat.leb_gt; lia).
      rewrite !ids_app. cbn. subst i. replace (Z.to_nat (cnt t + 1)) with (S (Z.to_nat (cnt t))) by lia. reflexivity.
  - (* a temporary error of Accept, the environment, Server.Close: invisible to the count machine *)
    cbn [proj]. cbn [step] in H. destruct (negb (Nat.eqb (pend t) 0) && aloop (al t) && fdlim (al t)); [|discriminate]. inversion H; subst t'. reflexivity.
  - cbn [proj]. cbn [step] in H. destruct (fdlim (al t)); [discriminate|]. inversion H; subst t'. reflexivity.
  - cbn [proj]. cbn [step] in H. destruct (fdlim (al t)); [|discriminate]. inversion H; subst t'. reflexivity.
  - cbn [proj]. cbn [step] in H. destruct (Nat.eqb (pend t) 0); [|discriminate]. inversion H; subst t'. reflexivity.
  - (* a step of session i *)
    cbn [proj]. unfold exits. cbn [step] in H.
    destruct (nth_error (ss t) i) as [s|] eqn:En; [|discriminate]. destruct (started s) eqn:St; [|discriminate].
    destruct (sess_step s a) as [[s' d]|] eqn:Es; [|discriminate]. inversion H; subst t'; clear H.
    assert (I : SInv s) by (pose proof (Forall_nth _ _ _ _ (g_all _ _ G) En) as X; unfold Inv1 in X; now rewrite St in X).
    destruct (sess_step_inv _ _ _ _ I Es) as [_ [Fs Fd]].
    assert (Rj : is_rej s' = is_rej s) by (unfold is_rej; now rewrite Fs).
    destruct d.
    + (* the exit *)
      destruct Fd as [E0 E1]. unfold Accept.run. cbn [fold_left]. unfold Accept.step.
      cbn [abs Accept.live Accept.closed_on_accept Accept.maxc Accept.count].
      assert (Lv : is_live s = true) by (unfold is_live; now rewrite St, E0).
      assert (Lv' : is_live s' = false) by (unfold is_live; rewrite E1; apply andb_false_r).
      replace (Accept.mem i (ids is_live 0 (ss t))) with true
        by (symmetry; apply Accept.mem_In; apply (ids_nth_in is_live (ss t) 0 i s En Lv)).
      unfold abs. cbn [maxc cnt ss]. rewrite (ids_upd_drop is_live (ss t) 0 i s s' En Lv Lv').
      rewrite (ids_upd_same is_rej (ss t) 0 i s s' En Rj). cbn [Nat.add].
      replace (Z.to_nat (cnt t - 1)) with (pred (Z.to_nat (cnt t))) by lia. reflexivity.
    + (* invisible to the accept machine *)
      assert (Lv : is_live s' = is_live s) by (unfold is_live; now rewrite Fs, Fd).
      unfold Accept.run. cbn [fold_left]. unfold abs. cbn [maxc cnt ss].
      rewrite (ids_upd_same is_live (ss t) 0 i s s' En Lv), (ids_upd_same is_rej (ss t) 0 i s s' En Rj). reflexivity.
Qed.

Fixpoint proj_run (t : st) (ls : list label) : list Accept.label :=
  match ls with
  | [] => []
  | l :: r => proj t l ++ match step t l with Some t' => proj_run t' r | None => [] end
  end.

Lemma accept_run_app s a : forall b, Accept.run s (a ++ b) = match Accept.run s a with Some s' => Accept.run s' b | None => None end.
Proof.
  unfold Accept.run. intros b. rewrite fold_left_app.
  destruct (fold_left _ a (Some s)) as [s'|]; [reflexivity|].
  induction b as [|x b IH]; cbn; auto.
Qed.

(* every accept-only run of the composed machine projects to a run of the accept machine ending in the abstraction *)
Theorem run_refines ls : forall t t', GInv 0 t -> run t ls = Some t' -> forallb not_start ls = true ->
  Accept.run (abs t) (proj_run t ls) = Some (abs t').
Proof.
  induction ls as [|l ls IH]; intros t t' G H Hn; cbn in H.
  - inversion H; subst. reflexivity.
  - cbn in Hn. apply andb_prop in Hn as [Hn1 Hn2]. destruct (step t l) as [t1|] eqn:E; [|discriminate].
    cbn [proj_run]. rewrite E. rewrite accept_run_app, (step_refines _ _ _ G E Hn1).
    destruct (step_ginv _ _ _ _ G E) as [G1 _]. exact (IH _ _ G1 H Hn2).
Qed.

(* the bound of the prototype, obtained through the refinement *)
Corollary count_bounded_via_accept m r ls t : 0 <= m -> run (init m 0 r) ls = Some t -> forallb not_start ls = true ->
  (Z.to_nat (cnt t) <= Z.to_nat m)%nat /\ Z.to_nat (cnt t) = length (ids is_live 0 (ss t)).
Proof.
  intros Hm H Hn. pose proof (run_refines ls _ _ (init_ginv m 0 r) H Hn) as R.
  change (abs (init m 0 r)) with (Accept.init (Z.to_nat m)) in R.
  destruct (Accept.count_bounded _ _ _ R) as [A B]. exact (conj A B).
Qed.
