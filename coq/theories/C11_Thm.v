(* C11: whole histories.  tex.Buffer's model and the bytes.Buffer contract show the same results, Len and Bytes at
   every step of every history the property speaks about; ReWrite overwrites exactly the addressed bytes; the
   constructors; the five grow paths; the exception is necessary; the pre-fix WriteRune is refuted. *)
From Coq Require Import ZArith List Lia Bool Arith.
Import ListNotations.
Require Import ReWrite C11_Utf8 TexModel C11_Spec TexRef C11_Sim C11_Step.

(* ---- every history ---- *)
Theorem tex_refines_contract l : forall g k b s, R g b s -> (zn (cap b) <= k)%Z -> ok_seq g k s l = true -> run b l = srun s l.
Proof.
  induction l as [|o r IH]; intros g k b s HR Hcap Hok; [reflexivity|].
  cbn [ok_seq] in Hok. apply andb_prop in Hok. destruct Hok as [H1 H2].
  destruct (step_sim g k b s o HR Hcap H1) as (Ho & HR' & Hcap').
  unfold run in *. cbn [run_gen srun]. fold (step b o).
  destruct (step b o) as [b' ob]. destruct (sstep s o) as [s' os]. cbn [fst snd] in *.
  pose proof (R_len _ _ _ HR') as Hlen. destruct HR' as (HI' & Hl' & HR'').
  rewrite Ho, Hlen, Hl'. f_equal.
  apply (IH (next_g g o) (next_k k s o)); [split; [exact HI'|split; [exact Hl'|exact HR'']] | exact Hcap' | exact H2].
Qed.

(* the states stay related along the way (so every lemma about related states holds in every reachable state) *)
Definition exec (b : buf) (l : list op) : buf := fold_left (fun b o => fst (step b o)) l b.
Definition sexec (s : spec) (l : list op) : spec := fold_left (fun s o => fst (sstep s o)) l s.
Definition gexec (g : bool) (l : list op) : bool := fold_left next_g l g.
Fixpoint kexec (k : Z) (s : spec) (l : list op) : Z :=
  match l with [] => k | o :: r => kexec (next_k k s o) (fst (sstep s o)) r end.
Theorem reachable_related l : forall g k b s, R g b s -> (zn (cap b) <= k)%Z -> ok_seq g k s l = true ->
  R (gexec g l) (exec b l) (sexec s l) /\ (zn (cap (exec b l)) <= kexec k s l)%Z.
Proof.
  induction l as [|o r IH]; intros g k b s HR Hcap Hok; [split; [exact HR|exact Hcap]|].
  cbn [ok_seq] in Hok. apply andb_prop in Hok. destruct Hok as [H1 H2].
  destruct (step_sim g k b s o HR Hcap H1) as (_ & HR' & Hcap').
  unfold exec, sexec, gexec. cbn [fold_left kexec]. apply IH; assumption.
Qed.
Corollary reachable_inv l g k b s : R g b s -> (zn (cap b) <= k)%Z -> ok_seq g k s l = true -> Inv (exec b l).
Proof. intros HR Hcap Hok. apply (reachable_related l g k b s HR Hcap Hok). Qed.

(* ---- the constructors start related to their contents ---- *)
Lemma init_related i : init_wf i = true -> R false (init_buf i) (init_spec i).
Proof.
  intros Hwf.
  assert (G : forall data c nl, length data <= c -> (nl = true -> data = [] /\ c = 0) -> R false (new_buf data c nl) (mk data None (Some []))).
  { intros data c nl Hc Hn. unfold R, Inv, Rp, Rk, new_buf, live, consumed; cbn [bytes off lastr cap isnil un lastk pre mk skipn firstn].
    split; [split; [lia|split; [exact Hc|exact Hn]]|split; [reflexivity|split; [reflexivity|reflexivity]]]. }
  destruct i as [|data c nl|data c nl|size [c|]]; cbn [init_buf init_spec init_data init_wf] in *.
  - apply (G [] 0 true); [cbn; lia|auto].
  - apply andb_prop in Hwf. destruct Hwf as [H1 H2]. apply Nat.leb_le in H1. apply G; [exact H1|].
    intros ->. cbn [negb orb] in H2. apply andb_prop in H2. destruct H2 as [H2 H3].
    apply Nat.eqb_eq in H2. apply Nat.eqb_eq in H3. split; [apply length_zero_iff_nil, H2|exact H3].
  - apply andb_prop in Hwf. destruct Hwf as [H1 H2]. apply Nat.leb_le in H1. apply G; [exact H1|].
    intros ->. cbn [negb orb] in H2. apply andb_prop in H2. destruct H2 as [H2 H3].
    apply Nat.eqb_eq in H2. apply Nat.eqb_eq in H3. split; [apply length_zero_iff_nil, H2|exact H3].
  - apply G; [cbn; lia|discriminate].
  - apply (G [] 0 true); [cbn; lia|auto].
Qed.

(* THE PROPERTY, first sentence: from every constructor, on every history that does not issue Unread* directly
   after Grow, tex.Buffer's model and the contract of bytes.Buffer return the same results, errors and panics and
   show the same Len and Bytes after every call *)
Theorem tex_buffer_is_bytes_buffer i l :
  init_wf i = true -> ok_seq false (init_k i) (init_spec i) l = true -> run (init_buf i) l = srun (init_spec i) l.
Proof. intros Hwf Hok. apply (tex_refines_contract l false (init_k i)); [apply init_related, Hwf|apply Z.le_refl|exact Hok]. Qed.

(* what a caller sees does not depend on the capacity the buffer starts with (nor on nil-ness): the growth path
   taken - small first allocation, reslice, slide, reallocation - is invisible *)
Corollary capacity_irrelevant i1 i2 l :
  init_wf i1 = true -> init_wf i2 = true -> init_data i1 = init_data i2 ->
  ok_seq false (init_k i1) (init_spec i1) l = true -> ok_seq false (init_k i2) (init_spec i2) l = true ->
  run (init_buf i1) l = run (init_buf i2) l.
Proof.
  intros W1 W2 Hd Hok1 Hok2. rewrite (tex_buffer_is_bytes_buffer i1 l W1 Hok1), (tex_buffer_is_bytes_buffer i2 l W2 Hok2).
  unfold init_spec. rewrite Hd. reflexivity.
Qed.

(* ---- ReWrite overwrites exactly the addressed bytes ---- *)
Lemma nth_skipn' {A} (l : list A) k j d : nth j (skipn k l) d = nth (k + j) l d.
Proof. revert l. induction k as [|k IH]; intros l; [reflexivity|]. destruct l as [|a l]; [destruct j; reflexivity|]. cbn [skipn plus nth]. apply IH. Qed.
Lemma nth_firstn' {A} (l : list A) k j d : j < k -> nth j (firstn k l) d = nth j l d.
Proof. revert l j. induction k as [|k IH]; intros l j H; [lia|]. destruct l as [|a l]; [reflexivity|]. destruct j as [|j]; [reflexivity|]. cbn [firstn nth]. apply IH. lia. Qed.
(* in the contract: with l the consumed bytes still in front, ReWrite panics exactly when pos is outside
   0..|l|+|unread|, and otherwise every unread byte j is p[|l|+j-pos] when addressed and unchanged when not *)
Theorem rewrite_contract s l pos p : pre s = Some l ->
  (snd (sstep s (ReWrite pos p)) = (st_panic, []) <-> (pos < 0 \/ Z.of_nat (length l + length (un s)) < pos)%Z) /\
  ((0 <= pos <= Z.of_nat (length l + length (un s)))%Z ->
     let s' := fst (sstep s (ReWrite pos p)) in
     snd (sstep s (ReWrite pos p)) = (st_ok, []) /\
     length (un s') = length (un s) /\
     (forall j, j < length (un s) ->
        nth j (un s') 0%Z =
          if (Z.to_nat pos <=? length l + j) && (length l + j <? Z.to_nat pos + length p)
          then nth (length l + j - Z.to_nat pos) p 0%Z else nth j (un s) 0%Z) /\
     (* the consumed bytes in front are rewritten the same way (a later Unread* brings them back) *)
     (forall l', pre s' = Some l' -> length l' = length l /\
        forall j, j < length l ->
          nth j l' 0%Z = if (Z.to_nat pos <=? j) && (j <? Z.to_nat pos + length p) then nth (j - Z.to_nat pos) p 0%Z else nth j l 0%Z)).
Proof.
  intros Epre. cbn [sstep]. rewrite Epre.
  pose proof (rewrite_panics (l ++ un s) pos p) as HP. rewrite app_length in HP.
  destruct (rewrite_at (l ++ un s) pos p) as [sto|] eqn:Erw.
  - split.
    + cbn [fst snd]. split; [discriminate|]. intros H. apply HP in H. discriminate.
    + intros Hpos. cbn [fst snd un pre mk].
      destruct (rewrite_exact _ _ _ _ Erw) as [Hlen Hnth]. rewrite app_length in Hlen.
      split; [reflexivity|]. split; [rewrite skipn_length; lia|]. split.
      * intros j Hj. rewrite nth_skipn'. rewrite (Hnth (length l + j)). rewrite app_length.
        replace (length l + j <? length l + length (un s)) with true by (symmetry; apply Nat.ltb_lt; lia).
        rewrite andb_true_r. rewrite app_nth2 by lia. replace (length l + j - length l) with j by lia. reflexivity.
      * intros l' El'. injection El' as <-. split; [rewrite firstn_length; lia|].
        intros j Hj. rewrite nth_firstn' by lia.
        rewrite (Hnth j). rewrite app_length.
        replace (j <? length l + length (un s)) with true by (symmetry; apply Nat.ltb_lt; lia).
        rewrite andb_true_r. rewrite app_nth1 by lia. reflexivity.
  - split.
    + cbn [fst snd]. split; [intros _; apply HP; reflexivity|reflexivity].
    + intros Hpos. exfalso. assert (H : Panic = Panic) by reflexivity. apply HP in H. lia.
Qed.

(* ... and the model of tex.Buffer does exactly that in every reachable state (step_sim covers ReWrite) *)
Theorem rewrite_model_exact g b s pos p : R g b s -> (exists l, pre s = Some l) ->
  snd (step b (ReWrite pos p)) = snd (sstep s (ReWrite pos p)) /\
  live (fst (step b (ReWrite pos p))) = un (fst (sstep s (ReWrite pos p))) /\
  blen (fst (step b (ReWrite pos p))) = blen b.
Proof.
  intros HR (l & Epre).
  assert (Hok : op_ok g (zn (cap b)) s (ReWrite pos p) = true) by (cbn [op_ok]; rewrite Epre; reflexivity).
  destruct (step_sim g (zn (cap b)) b s _ HR (Z.le_refl _) Hok) as (Ho & HR' & _). split; [exact Ho|]. split; [apply HR'|].
  rewrite <- (R_len _ _ _ HR'), <- (R_len _ _ _ HR).
  cbn [sstep]. rewrite Epre. destruct (rewrite_at (l ++ un s) pos p) as [sto|] eqn:Erw; cbn [fst un mk]; [|reflexivity].
  pose proof (rewrite_at_length _ _ _ _ Erw) as Hlen. rewrite app_length in Hlen. rewrite skipn_length. lia.
Qed.

(* ---- NewSizedBuffer: empty, capacity at least the request (the observed capacity is an input of the model,
   init_holds is the clause the driver evaluates); make panics on a negative size ---- *)
Theorem new_sized_empty size c : blen (init_buf (INewSized size (Some c))) = 0 /\ live (init_buf (INewSized size (Some c))) = []
  /\ cap (init_buf (INewSized size (Some c))) = c /\ init_panics (INewSized size (Some c)) = (size <? 0)%Z.
Proof. cbn. auto. Qed.

(* ---- sizes that cannot be allocated: Grow panics with ErrTooLarge, on both sides, and nothing unread is lost;
   a negative size panics with the negative-count message ---- *)
Theorem grow_too_large g k b s n : R g b s -> (zn (cap b) <= k <= max_alloc)%Z -> (max_alloc < n)%Z ->
  snd (step b (Grow n)) = (st_too_large, []) /\ snd (sstep s (Grow n)) = (st_too_large, []) /\
  live (fst (step b (Grow n))) = live b /\ un (fst (sstep s (Grow n))) = un s.
Proof.
  intros HR [Hc Hk] Hn.
  assert (Hok : op_ok g k s (Grow n) = true).
  { cbn [op_ok]. replace (max_alloc <? n)%Z with true by (symmetry; apply Z.ltb_lt; exact Hn).
    replace (k <=? max_alloc)%Z with true by (symmetry; apply Z.leb_le; exact Hk). apply orb_true_r. }
  destruct (step_sim g k b s _ HR Hc Hok) as (Ho & HR' & _).
  assert (Hs : sstep s (Grow n) = (mk (un s) (lastk s) (pre_w (pre s)), (st_too_large, []))).
  { cbn [sstep]. replace (n <? 0)%Z with false by (symmetry; apply Z.ltb_ge; unfold max_alloc in Hn; lia).
    replace (max_alloc <? n)%Z with true by (symmetry; apply Z.ltb_lt; exact Hn). reflexivity. }
  rewrite Hs in *. cbn [fst snd un mk] in *.
  split; [exact Ho|split; [reflexivity|split; [|reflexivity]]].
  destruct HR' as (_ & Hl' & _). destruct HR as (_ & Hl & _). cbn [un mk] in Hl'. congruence.
Qed.
Theorem grow_negative b s n : (n < 0)%Z ->
  step b (Grow n) = (b, (st_neg_count, [])) /\ sstep s (Grow n) = (s, (st_neg_count, [])).
Proof.
  intros Hn. unfold step. cbn [step_gen sstep]. replace (n <? 0)%Z with true by (symmetry; apply Z.ltb_lt; exact Hn). split; reflexivity.
Qed.

(* ---- the state a recovered panic leaves behind: what happens to lastRead on every panicking path ----
   Truncate out of range, Next with a negative count and WriteTo with an invalid count have already invalidated
   lastRead when they panic (a following UnreadByte / UnreadRune fails, as on bytes.Buffer); a refused Grow and an
   out-of-range ReWrite panic before touching anything *)
Theorem truncate_panic_state b n : (n <> 0)%Z -> (n < 0 \/ zn (blen b) < n)%Z ->
  step b (Truncate n) = (set_last b 0%Z, (st_trunc, [])).
Proof.
  intros H0 H. unfold step. cbn [step_gen]. replace (n =? 0)%Z with false by (symmetry; apply Z.eqb_neq; exact H0).
  replace ((n <? 0)%Z || (zn (blen b) <? n)%Z) with true; [reflexivity|].
  symmetry. apply orb_true_iff. destruct H as [H|H]; [left|right]; apply Z.ltb_lt; exact H.
Qed.
Theorem next_panic_state b n : (n < 0)%Z -> step b (Next n) = (set_last b 0%Z, (st_panic, [])).
Proof. intros H. unfold step. cbn [step_gen]. replace (n <? 0)%Z with true by (symmetry; apply Z.ltb_lt; exact H). reflexivity. Qed.
Theorem writeto_panic_state b m e : blen b <> 0 -> (zn (blen b) < m)%Z ->
  step b (WriteTo m e) = (set_last b 0%Z, (st_bad_write, (-1)%Z :: live b)).
Proof.
  intros H0 H. unfold step. cbn [step_gen]. change (blen (set_last b 0%Z)) with (blen b).
  replace (Nat.eqb (blen b) 0) with false by (symmetry; apply Nat.eqb_neq; exact H0).
  replace (zn (blen b) <? m)%Z with true by (symmetry; apply Z.ltb_lt; exact H). reflexivity.
Qed.
Theorem rewrite_panic_state b pos p : rewrite_at (bytes b) pos p = Panic -> step b (ReWrite pos p) = (b, (st_panic, [])).
Proof. intros H. unfold step. cbn [step_gen]. rewrite H. reflexivity. Qed.
Theorem unread_after_invalidating_panic b :
  snd (step (set_last b 0%Z) UnreadByte) = (st_unread, []) /\ snd (step (set_last b 0%Z) UnreadRune) = (st_unread, []).
Proof. unfold step. cbn. split; reflexivity. Qed.
(* the contract says the same: the last-read kind is None after these panics *)
Theorem truncate_panic_contract s n : (n <> 0)%Z -> (n < 0 \/ zn (length (un s)) < n)%Z ->
  sstep s (Truncate n) = (mk (un s) None (pre s), (st_trunc, [])).
Proof.
  intros H0 H. cbn [sstep]. replace (n =? 0)%Z with false by (symmetry; apply Z.eqb_neq; exact H0).
  replace ((n <? 0)%Z || (zn (length (un s)) <? n)%Z) with true; [reflexivity|].
  symmetry. apply orb_true_iff. destruct H as [H|H]; [left|right]; apply Z.ltb_lt; exact H.
Qed.

(* ReadFrom ends without error only on io.EOF itself (script answer 1); every other error value - in particular
   one that merely WRAPS io.EOF, which the harness scripts as its own error number - is returned as it is, together
   with what was read; WriteTo returns the writer's error as it is *)
Theorem readfrom_error_as_is s chunk e : (e <> 0)%Z -> (e <> 1)%Z -> (e <> -1)%Z ->
  snd (sstep s (ReadFrom [(chunk, e)])) = (st_user e, [zn (length chunk)]) /\
  un (fst (sstep s (ReadFrom [(chunk, e)]))) = un s ++ chunk.
Proof.
  intros H0 H1 H2. cbn [sstep sread_from].
  replace (e =? -1)%Z with false by (symmetry; apply Z.eqb_neq; exact H2).
  replace (e =? 1)%Z with false by (symmetry; apply Z.eqb_neq; exact H1).
  replace (e =? 0)%Z with false by (symmetry; apply Z.eqb_neq; exact H0).
  cbn [fst snd un mk]. rewrite Z.add_0_l. split; reflexivity.
Qed.
Theorem readfrom_eof_is_nil s chunk : snd (sstep s (ReadFrom [(chunk, 1%Z)])) = (st_ok, [zn (length chunk)]).
Proof. cbn [sstep sread_from Z.eqb fst snd]. rewrite Z.add_0_l. reflexivity. Qed.
Theorem writeto_error_as_is s m e : un s <> [] -> (0 <= m <= zn (length (un s)))%Z -> (e <> 0)%Z ->
  snd (sstep s (WriteTo m e)) = (st_user e, m :: un s).
Proof.
  intros Hu Hm He. cbn [sstep]. destruct (un s) as [|c t] eqn:E; [congruence|].
  cbn [length Nat.eqb]. replace (zn (S (length t)) <? m)%Z with false by (symmetry; apply Z.ltb_ge; cbn [length] in Hm; lia).
  replace (e =? 0)%Z with false by (symmetry; apply Z.eqb_neq; exact He). reflexivity.
Qed.

(* a method called on a nil *Buffer: String answers "<nil>", as a nil bytes.Buffer pointer does *)
Theorem nil_string_contract b s : step b (ONil 0%Z) = (b, (st_ok, nil_string)) /\ sstep s (ONil 0%Z) = (s, (st_ok, nil_string)).
Proof. split; reflexivity. Qed.

(* ---- the five grow paths are all live ---- *)
Definition mkb (l : list Z) (o c : nat) : buf := {| bytes := l; off := o; lastr := 0%Z; cap := c; isnil := false |}.
Example grow_path_reset_if_empty : grow (mkb [1; 2]%Z 2 8) 3 = (mkb [0; 0; 0]%Z 0 8, 0).
Proof. vm_compute. reflexivity. Qed.
Example grow_path_reslice : grow (mkb [1; 2]%Z 1 8) 3 = (mkb [1; 2; 0; 0; 0]%Z 1 8, 2).
Proof. vm_compute. reflexivity. Qed.
Example grow_path_small_alloc : grow zero_buf 5 = (mkb [0; 0; 0; 0; 0]%Z 0 64, 0).
Proof. vm_compute. reflexivity. Qed.
Example grow_path_slide : grow (mkb [1; 2; 3; 4; 5; 6; 7; 8]%Z 6 8) 2 = (mkb [7; 8; 0; 0]%Z 0 8, 2).
Proof. vm_compute. reflexivity. Qed.
Example grow_path_reallocate : grow (mkb [1; 2; 3; 4; 5; 6; 7; 8]%Z 0 8) 3 = (mkb [1; 2; 3; 4; 5; 6; 7; 8; 0; 0; 0]%Z 0 19, 8).
Proof. vm_compute. reflexivity. Qed.
(* Write tries the reslice before grow: an emptied buffer is not reset by a write that still fits *)
Example write_reslices_first : fst (grow_for_write (mkb [1; 2]%Z 2 8) 3) = mkb [1; 2; 0; 0; 0]%Z 2 8.
Proof. vm_compute. reflexivity. Qed.

(* ---- non-vacuity: one history through every kind of operation and every grow path ---- *)
Definition demo_history : list op :=
  [Write (repeat 7%Z 40); Read 30; WriteString (repeat 8%Z 20); Grow 10%Z; ReadByte; UnreadByte;
   WriteRune 8364%Z; WriteRune (-1)%Z; Write (repeat 9%Z 100); Read 130; ReadRune; UnreadRune; ReadRune; UnreadByte;
   Next 2%Z; OLen; OBytes; Truncate 5%Z; ReadFrom [([1; 2; 3]%Z, 0%Z); ([4]%Z, 5%Z)]; WriteTo 3%Z 0%Z; OString;
   WriteTo 6%Z 0%Z; Grow 1%Z; WriteByte 1%Z; ReadByte; UnreadByte; Reset; Read 1; Truncate 9%Z; Next (-1)%Z; Grow (-1)%Z;
   Grow 1125899906842624%Z; Grow 9223372036854775807%Z; Grow 4611686018427387903%Z; OLen;
   Write [1; 2; 3; 4; 5]%Z; ReWrite 1%Z [9; 9]%Z; ReadByte; ReWrite 0%Z [8]%Z; UnreadByte; ReadByte; ReWrite 6%Z []%Z; OCap; ONil 0%Z; ONil 1%Z;
   ReadByte; Truncate 99%Z; UnreadByte; ReadByte; Next (-1)%Z; UnreadByte; ReadByte; Grow (-1)%Z; UnreadByte].
Example demo_ok : ok_seq false (init_k IZero) (init_spec IZero) demo_history = true /\
                  run (init_buf IZero) demo_history = srun (init_spec IZero) demo_history.
Proof. vm_compute. split; reflexivity. Qed.

(* ---- the exception is necessary: after a Grow that moved the data, UnreadByte cannot restore the byte ---- *)
Example unread_after_grow_differs :
  let l := [Write (repeat 7%Z 60); Read 50; Grow 20%Z; UnreadByte] in
  run zero_buf l <> srun (init_spec IZero) l.
Proof. vm_compute. discriminate. Qed.
(* ... and queries in between do not end it *)
Example unread_after_grow_len_differs :
  let l := [Write (repeat 7%Z 60); Read 50; Grow 20%Z; OLen; UnreadByte] in
  run zero_buf l <> srun (init_spec IZero) l.
Proof. vm_compute. discriminate. Qed.

(* ---- the defect repaired by commit 6078bb8, kept as a named variant: with the signed comparison
   `r < utf8.RuneSelf` a negative rune is written as the single byte byte(r) ---- *)
Theorem write_rune_signed_refuted :
  run_gen rune_is_byte_signed zero_buf [WriteRune (-1)%Z] = [((st_ok, [1%Z]), (1, [255%Z]))] /\
  srun (init_spec IZero) [WriteRune (-1)%Z] = [((st_ok, [3%Z]), (3, [239; 191; 189]%Z))] /\
  run_gen rune_is_byte_signed zero_buf [WriteRune (-1)%Z] <> srun (init_spec IZero) [WriteRune (-1)%Z].
Proof. vm_compute. split; [reflexivity|split; [reflexivity|discriminate]]. Qed.
