(* C03: the whole tree.  One operation of the model (root split before insert, root collapse after delete)
   keeps the B-tree invariant and has exactly the effect of the ordered-set operation on the in-order list *)
From Coq Require Import ZArith List Lia Bool Sorting.Sorted.
Require Import BTmodel BTD BTIns BTSel BTInv BTTot BTInsInv BTUp.
Import ListNotations.
Open Scope Z_scope.

(* ---- the abstract operations keep a strictly sorted list strictly sorted ---- *)
Lemma ss_filter (f : Z -> bool) l : StronglySorted Z.lt l -> StronglySorted Z.lt (filter f l).
Proof.
  induction 1 as [|a l Hs IH Hf]; cbn [filter]; [constructor|]. destruct (f a); [|exact IH].
  constructor; [exact IH|]. apply Forall_forall. intros x Hx. apply filter_In in Hx. destruct Hx as [Hx _].
  rewrite Forall_forall in Hf. apply Hf, Hx.
Qed.
Lemma ss_join (l1 l2 : list Z) : StronglySorted Z.lt l1 -> StronglySorted Z.lt l2 ->
  (forall a b, In a l1 -> In b l2 -> a < b) -> StronglySorted Z.lt (l1 ++ l2).
Proof.
  induction 1 as [|a l Hs IH Hf]; intros H2 Hlt; cbn [app]; [exact H2|].
  constructor; [apply IH; [exact H2|intros x y Hx Hy; apply Hlt; [right; exact Hx|exact Hy]]|].
  apply Forall_app. split; [exact Hf|]. apply Forall_forall. intros y Hy. apply Hlt; [left; reflexivity|exact Hy].
Qed.
Lemma spec_ins_sorted k L : StronglySorted Z.lt L -> StronglySorted Z.lt (spec_ins k L).
Proof.
  intros H. unfold spec_ins. apply ss_join; [apply ss_filter, H| |].
  - constructor; [apply ss_filter, H|]. apply Forall_forall. intros y Hy. apply filter_In in Hy. destruct Hy as [_ Hy]. apply Z.ltb_lt, Hy.
  - intros a b Ha Hb. apply filter_In in Ha. destruct Ha as [_ Ha]. apply Z.ltb_lt in Ha.
    destruct Hb as [<-|Hb]; [exact Ha|]. apply filter_In in Hb. destruct Hb as [_ Hb]. apply Z.ltb_lt in Hb. lia.
Qed.
Lemma ss_removelast (l : list Z) : StronglySorted Z.lt l -> StronglySorted Z.lt (removelast l).
Proof.
  induction 1 as [|a l Hs IH Hf]; [constructor|]. cbn [removelast]. destruct l as [|b l]; [constructor|].
  constructor; [exact IH|]. apply Forall_forall. intros x Hx. rewrite Forall_forall in Hf. apply Hf. apply BTUp.in_removelast, Hx.
Qed.
Lemma spec_list_sorted t L : StronglySorted Z.lt L -> StronglySorted Z.lt (spec_list t L).
Proof.
  intros H. destruct t as [k| |]; cbn [spec_list].
  - apply ss_filter, H.
  - destruct L; [constructor|]. inversion H; subst. assumption.
  - apply ss_removelast, H.
Qed.

Definition spec_apply (o : op) (L : list Z) : list Z :=
  match o with
  | Ins k => spec_ins k L
  | Del k => spec_list (RmItem k) L
  | DelMin => spec_list RmMin L
  | DelMax => spec_list RmMax L
  end.
Lemma spec_apply_sorted o L : StronglySorted Z.lt L -> StronglySorted Z.lt (spec_apply o L).
Proof. destruct o; cbn [spec_apply]; [apply spec_ins_sorted | apply spec_list_sorted | apply spec_list_sorted | apply spec_list_sorted]. Qed.

Section Tree.
Variable deg : nat.
Hypothesis deg_ok : (2 <= deg)%nat.
Definition minI_of := (deg - 1)%nat.
Notation minI := minI_of.
Notation maxI := (maxI_of minI).
Lemma minI_pos : (1 <= minI)%nat.
Proof. unfold minI_of. lia. Qed.
Lemma maxI_deg : (2 * deg - 1)%nat = maxI.
Proof. unfold maxI_of, minI_of. lia. Qed.

(* the invariant of a non-empty tree of height h (the root is exempt from the lower bound) *)
Definition tree_inv (h : nat) (r : node) : Prop :=
  wf minI h r /\ (length (items_of r) <= maxI)%nat /\ StronglySorted Z.lt (flat (S h) r) /\ (items_of r = [] -> h = O).

Lemma root2_flat h mid a b : flat (S (S h)) (Node [mid] [a; b]) = flat (S h) a ++ mid :: flat (S h) b.
Proof. rewrite flat_S. reflexivity. Qed.
Lemma root1_flat h c : flat (S (S h)) (Node [] [c]) = flat (S h) c.
Proof. rewrite flat_S. reflexivity. Qed.

Theorem tree_insert_ok h r k : tree_inv h r -> (S h < FUEL)%nat ->
  exists h' r', tree_insert deg (Some r) k = Some r' /\ tree_inv h' r' /\ (h' = h \/ h' = S h) /\
                flat (S h') r' = spec_ins k (flat (S h) r).
Proof.
  intros ((Hs & Ho & Hu) & Hlen & Hsort & Hemp) Hfuel. unfold tree_insert. rewrite maxI_deg.
  assert (Hm1 : (1 <= maxI)%nat) by (unfold maxI_of; lia).
  destruct (Nat.leb maxI (length (items_of r))) eqn:Efull.
  - (* full root: split it under a new root *)
    apply Nat.leb_le in Efull. assert (Hfull : length (items_of r) = maxI) by lia.
    replace (maxI / 2)%nat with minI by (unfold maxI_of; symmetry; apply half_odd).
    assert (HP : P minI h r).
    { split; [exact Hs|split; [split; [unfold maxI_of in Hfull; lia|exact Ho]|split; [lia|exact Hu]]]. }
    pose proof (split_P minI minI_pos h r HP Hfull) as Hsp.
    assert (Hidx : (minI < length (items_of r))%nat) by (rewrite Hfull; unfold maxI_of; lia).
    pose proof (split_flat h r minI (shaped_aligned h r Hs) Hidx) as Hsf.
    destruct (split r minI) as [[mid a] b]. destruct Hsp as (HPa & HPb & La & Lb). destruct Hsf as [Hsf _].
    set (R := Node [mid] [a; b]).
    assert (HwfR : wf minI (S h) R).
    { apply node_P. split; [reflexivity|]. constructor; [exact HPa|constructor; [exact HPb|constructor]]. }
    assert (HflatR : flat (S (S h)) R = flat (S h) r) by (unfold R; rewrite root2_flat; symmetry; exact Hsf).
    destruct (insert_good minI minI_pos FUEL (S h) R k Hfuel HwfR) as (n' & r0 & Ei & Hwf' & Hb').
    rewrite Ei. cbn [option_map fst]. exists (S h), n'. split; [reflexivity|].
    pose proof (insert_flat maxI Hm1 FUEL (S h) R k n' r0 (proj1 HwfR) ltac:(rewrite HflatR; exact Hsort) Ei) as Hfl.
    rewrite HflatR in Hfl.
    split; [|split; [right; reflexivity|exact Hfl]].
    split; [exact Hwf'|]. split; [unfold R in Hb'; cbn [items_of length] in Hb'; unfold maxI_of; pose proof minI_pos; lia|].
    split; [rewrite Hfl; apply spec_ins_sorted, Hsort|].
    intros E. rewrite E in Hb'. unfold R in Hb'. cbn [items_of length] in Hb'. lia.
  - apply Nat.leb_gt in Efull.
    destruct (insert_good minI minI_pos FUEL h r k ltac:(lia) (conj Hs (conj Ho Hu))) as (n' & r0 & Ei & Hwf' & Hb').
    rewrite Ei. cbn [option_map fst]. exists h, n'. split; [reflexivity|].
    pose proof (insert_flat maxI Hm1 FUEL h r k n' r0 Hs Hsort Ei) as Hfl.
    split; [|split; [left; reflexivity|exact Hfl]].
    split; [exact Hwf'|]. split; [lia|]. split; [rewrite Hfl; apply spec_ins_sorted, Hsort|].
    intros E. rewrite E in Hb'. cbn [length] in Hb'. apply Hemp. destruct (items_of r); [reflexivity|cbn [length] in Hb'; lia].
Qed.

Lemma empty_root_flat r : shaped 0 r -> items_of r = [] -> flat 1 r = [].
Proof. destruct r as [its ch]. cbn. intros -> ->. reflexivity. Qed.

Theorem tree_delete_ok h r t : tree_inv h r -> (2 * h + 2 <= FUEL)%nat ->
  exists h' r', tree_delete deg (Some r) t = Some r' /\ tree_inv h' r' /\ (h' = h \/ S h' = h) /\
                flat (S h') r' = spec_list t (flat (S h) r).
Proof.
  intros ((Hs & Ho & Hu) & Hlen & Hsort & Hemp) Hfuel. unfold tree_delete.
  destruct (is_nil (items_of r)) eqn:En.
  - (* empty root: nothing to delete *)
    apply is_nil_true in En. specialize (Hemp En). subst h.
    exists O, r. split; [reflexivity|]. split; [repeat split; auto|]. split; [left; reflexivity|].
    rewrite (empty_root_flat r Hs En). destruct t; reflexivity.
  - assert (Hne : items_of r <> []) by (destruct (items_of r); [discriminate|discriminate]).
    assert (Hok : ok_rm minI r) by (left; destruct (items_of r); [congruence|cbn; lia]).
    assert (Hpre : pre_t h r t) by (unfold pre_t; destruct t; auto; apply flat_nonempty; exact Hne).
    fold minI_of.
    destruct (proj1 (remove_total minI minI_pos h) FUEL r t Hfuel (conj Hs Ho) Hok Hsort Hpre) as ([n' out] & Er).
    rewrite Er.
    destruct (remove_good minI minI_pos FUEL h r t n' out (conj Hs Ho) Hok Hsort Hpre Er) as ([Hs' Ho'] & _ & _).
    destruct (remove_upper minI minI_pos FUEL h r t n' out Hs Ho Hok Hu Er) as [Hu' Hl'].
    destruct (remove_flat minI minI_pos FUEL h r t n' out Hs Ho Hok Hsort Hpre Er) as [Hfl _].
    assert (Hsort' : StronglySorted Z.lt (flat (S h) n')) by (rewrite Hfl; apply spec_list_sorted, Hsort).
    destruct (is_nil (items_of n') && negb (is_nil (children_of n'))) eqn:Ec.
    + (* the root lost its last item: its only child becomes the root *)
      apply andb_prop in Ec. destruct Ec as [E1 E2]. apply is_nil_true in E1. apply negb_true_iff in E2.
      destruct n' as [its' ch']. cbn [items_of children_of] in *. subst its'.
      destruct h as [|h]; [cbn in Hs'; subst ch'; discriminate|].
      destruct (proj1 (node_P minI h [] ch') (conj Hs' (conj Ho' Hu'))) as [Hl1 HP].
      destruct ch' as [|c [|c2 ch']]; try (cbn in Hl1; lia). inversion HP as [|? ? HPc _]; subst.
      destruct HPc as (Hcs & (Hcm & Hco) & (Hcx & Hcu)).
      exists h, c. cbn [hd]. split; [reflexivity|]. rewrite root1_flat in Hfl, Hsort'.
      split; [|split; [right; reflexivity|exact Hfl]].
      split; [split; [exact Hcs|split; [exact Hco|exact Hcu]]|]. split; [exact Hcx|]. split; [exact Hsort'|].
      intros E. rewrite E in Hcm. cbn in Hcm. pose proof minI_pos. lia.
    + exists h, n'. split; [reflexivity|]. split; [|split; [left; reflexivity|exact Hfl]].
      split; [split; [exact Hs'|split; [exact Ho'|exact Hu']]|]. split; [lia|]. split; [exact Hsort'|].
      intros E. rewrite E in Ec. cbn [is_nil andb] in Ec. apply negb_false_iff in Ec. apply is_nil_true in Ec.
      destruct h as [|h]; [reflexivity|]. destruct Hs' as [Hl1 _]. rewrite Ec in Hl1. cbn in Hl1. lia.
Qed.

(* ---- one operation on a possibly empty tree ---- *)
Definition tinv (h : nat) (t : option node) : Prop := match t with None => h = O | Some r => tree_inv h r end.
Definition contents (h : nat) (t : option node) : list Z := match t with None => [] | Some r => flat (S h) r end.

Theorem apply_ok h t o : tinv h t -> (2 * h + 2 <= FUEL)%nat ->
  exists h', tinv h' (apply deg t o) /\ (h' <= S h)%nat /\ contents h' (apply deg t o) = spec_apply o (contents h t).
Proof.
  intros Hinv Hfuel. destruct t as [r|].
  - cbn [tinv contents] in *. destruct o as [k|k| |]; cbn [apply spec_apply].
    + destruct (tree_insert_ok h r k Hinv ltac:(lia)) as (h' & r' & E & Hi & Hh & Hf). rewrite E. exists h'. cbn [tinv contents].
      split; [exact Hi|split; [lia|exact Hf]].
    + destruct (tree_delete_ok h r (RmItem k) Hinv Hfuel) as (h' & r' & E & Hi & Hh & Hf). rewrite E. exists h'. cbn [tinv contents].
      split; [exact Hi|split; [lia|exact Hf]].
    + destruct (tree_delete_ok h r RmMin Hinv Hfuel) as (h' & r' & E & Hi & Hh & Hf). rewrite E. exists h'. cbn [tinv contents].
      split; [exact Hi|split; [lia|exact Hf]].
    + destruct (tree_delete_ok h r RmMax Hinv Hfuel) as (h' & r' & E & Hi & Hh & Hf). rewrite E. exists h'. cbn [tinv contents].
      split; [exact Hi|split; [lia|exact Hf]].
  - cbn [tinv contents] in *. subst h. destruct o as [k|k| |]; cbn [apply spec_apply tree_insert tree_delete].
    + exists O. cbn [tinv contents]. split; [|split; [lia|reflexivity]].
      split; [split; [reflexivity|split; exact I]|]. split; [cbn [items_of length]; unfold maxI_of; lia|].
      split; [cbn; constructor; constructor|discriminate].
    + exists O. cbn. auto.
    + exists O. cbn. auto.
    + exists O. cbn. auto.
Qed.
End Tree.
Print Assumptions apply_ok.
