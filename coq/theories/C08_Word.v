(* C08 proofs, part 1: the two traversals of one word.
   Both branches of every IterAsT / RIterAsT write the first n members (in loop order) of the word:
   dense_spec (any duplicate-free index order), sparse_spec (ascending with ctz, descending with log2),
   popcount = number of members, iter64_mid. *)
From Coq Require Import List Bool ZArith NArith Lia.
Require Import BitSet C08_Model C08_Spec.
Import ListNotations.
Open Scope Z_scope.

(* ---------------- writing a list of values ---------------- *)
Fixpoint write_list (s : list Z) (cursor : Z) (vals : list Z) : option (list Z) :=
  match vals with
  | [] => Some s
  | v :: r => match store s cursor v with None => None | Some s' => write_list s' (cursor + 1) r end
  end.
Definition fin (o : option (list Z)) (c : Z) : out := match o with Some s => Ok s c | None => Panic end.

(* ---------------- ztake ---------------- *)
Lemma ztake_nonpos {A} n (l : list A) : n <= 0 -> ztake n l = [].
Proof. intros H. destruct l as [|x r]; cbn [ztake]; [reflexivity|]. replace (n <=? 0) with true by (symmetry; apply Z.leb_le; lia). reflexivity. Qed.
Lemma ztake_cons {A} n (x : A) r : 0 < n -> ztake n (x :: r) = x :: ztake (n - 1) r.
Proof. intros H. cbn [ztake]. replace (n <=? 0) with false by (symmetry; apply Z.leb_gt; lia). reflexivity. Qed.
Lemma ztake_nil {A} n : ztake n (@nil A) = [].
Proof. reflexivity. Qed.
Lemma ztake_map {A B} (f : A -> B) n l : ztake n (map f l) = map f (ztake n l).
Proof. revert n; induction l as [|x r IH]; intros n; cbn [map ztake]; [reflexivity|]. destruct (n <=? 0); [reflexivity|]. cbn [map]. now rewrite IH. Qed.
Lemma ztake_length {A} n (l : list A) : Z.of_nat (length (ztake n l)) = Z.min (Z.max n 0) (Z.of_nat (length l)).
Proof.
  revert n; induction l as [|x r IH]; intros n; cbn [ztake length]; [lia|].
  destruct (n <=? 0) eqn:E; [apply Z.leb_le in E; cbn [length]; lia|].
  apply Z.leb_gt in E. cbn [length]. rewrite Nat2Z.inj_succ, IH. lia.
Qed.
Lemma ztake_firstn {A} n (l : list A) : ztake n l = firstn (Z.to_nat n) l.
Proof.
  revert n; induction l as [|x r IH]; intros n; cbn [ztake]; [now rewrite firstn_nil|].
  destruct (n <=? 0) eqn:E; [apply Z.leb_le in E; replace (Z.to_nat n) with O by lia; reflexivity|].
  apply Z.leb_gt in E. replace (Z.to_nat n) with (S (Z.to_nat (n - 1))) by lia. cbn [firstn]. now rewrite IH.
Qed.
Lemma ztake_app {A} n (a b : list A) : ztake n (a ++ b) = ztake n a ++ ztake (n - Z.of_nat (length a)) b.
Proof.
  revert n; induction a as [|x r IH]; intros n; cbn [app ztake length]; [f_equal; lia|].
  destruct (n <=? 0) eqn:E.
  - apply Z.leb_le in E. rewrite ztake_nonpos by lia. reflexivity.
  - cbn [app]. rewrite IH. replace (n - Z.of_nat (S (length r))) with (n - 1 - Z.of_nat (length r)) by lia. reflexivity.
Qed.
Lemma ztake_rest {A B} x (a : list A) (b : list B) :
  ztake (x - Z.of_nat (length (ztake x a))) b = ztake (x - Z.of_nat (length a)) b.
Proof.
  rewrite ztake_length.
  destruct (Z_lt_le_dec x (Z.of_nat (length a))) as [H|H].
  - rewrite (ztake_nonpos (x - Z.of_nat (length a))) by lia. apply ztake_nonpos. lia.
  - f_equal. lia.
Qed.

(* ---------------- generic list facts ---------------- *)
Lemma filter_rev {A} (p : A -> bool) l : filter p (rev l) = rev (filter p l).
Proof. induction l as [|x r IH]; cbn [rev filter]; [reflexivity|]. rewrite filter_app, IH. cbn [filter]. destruct (p x); cbn [rev]; [reflexivity|now rewrite app_nil_r]. Qed.
Lemma filter_map_comm {A B} (p : B -> bool) (f : A -> B) l : filter p (map f l) = map f (filter (fun x => p (f x)) l).
Proof. induction l as [|x r IH]; cbn [map filter]; [reflexivity|]. destruct (p (f x)); cbn [map]; now rewrite IH. Qed.
Lemma filter_len_le {A} (p : A -> bool) l : (length (filter p l) <= length l)%nat.
Proof. induction l as [|x r IH]; cbn [filter length]; [lia|]. destruct (p x); cbn [length]; lia. Qed.
Lemma filter_zero (l : list N) : filter (N.testbit 0) l = [].
Proof. induction l as [|x r IH]; cbn [filter]; [reflexivity|]. now rewrite N.bits_0. Qed.

Fixpoint nodupb (l : list N) : bool := match l with [] => true | x :: r => negb (existsb (N.eqb x) r) && nodupb r end.
Lemma nodupb_ok l : nodupb l = true -> NoDup l.
Proof.
  induction l as [|x r IH]; cbn [nodupb]; intros H; [constructor|].
  apply andb_prop in H. destruct H as [H1 H2]. constructor; [|auto].
  intros Hin. apply negb_true_iff in H1. assert (existsb (N.eqb x) r = true); [|congruence].
  apply existsb_exists. exists x. split; [exact Hin|apply N.eqb_refl].
Qed.
Lemma ord_nodup rev : NoDup (ord rev).
Proof. destruct rev; apply nodupb_ok; vm_compute; reflexivity. Qed.
Lemma ord_length rev : length (ord rev) = 64%nat.
Proof. destruct rev; reflexivity. Qed.
Lemma desc_rev_asc : desc 64 = rev (asc 0 64).
Proof. reflexivity. Qed.

(* ---------------- words ---------------- *)
Definition wfb (w : N) : Prop := forall j, (64 <= j)%N -> N.testbit w j = false.
Lemma lt_wfb w : (w < W)%N -> wfb w.
Proof.
  intros H j Hj. destruct (N.eq_dec w 0) as [->|Hne]; [apply N.bits_0|].
  apply N.bits_above_log2. assert (N.log2 w < 64)%N by (apply N.log2_lt_pow2; [lia|exact H]). lia.
Qed.
Lemma wfw_wfb w : wfw w = true -> wfb w.
Proof. intros H. apply lt_wfb. apply N.ltb_lt. exact H. Qed.
Lemma wfb_clear w i : wfb w -> wfb (N.clearbit w i).
Proof. intros H j Hj. rewrite N.clearbit_eqb, (H j Hj). reflexivity. Qed.

Lemma filter_clear w i l : ~ In i l -> filter (N.testbit (N.clearbit w i)) l = filter (N.testbit w) l.
Proof.
  intros Hi. apply filter_ext_in. intros j Hj. rewrite N.clearbit_eqb.
  replace (i =? j)%N with false; [now rewrite andb_true_r|]. symmetry. apply N.eqb_neq. intros ->. contradiction.
Qed.

(* the first index (in loop order) whose bit is set heads the member list; clearing it leaves the rest *)
Lemma filter_first : forall (order : list N) (w i : N), NoDup order -> find (N.testbit w) order = Some i ->
  filter (N.testbit w) order = i :: filter (N.testbit (N.clearbit w i)) order.
Proof.
  induction order as [|j rest IH]; intros w i Hnd Hf; cbn [find] in Hf; [discriminate|].
  inversion Hnd as [|? ? Hnotin Hnd']; subst. cbn [filter].
  destruct (N.testbit w j) eqn:Eb.
  - injection Hf as <-. rewrite N.clearbit_eqb, N.eqb_refl, andb_false_r. f_equal. symmetry. now apply filter_clear.
  - rewrite N.clearbit_eqb, Eb. cbn [andb]. now apply IH.
Qed.

(* ---------------- TrailingZeros64 and Len64 - 1 pick the first index in loop order ---------------- *)
Lemma ctzP_bit p : N.testbit (Npos p) (ctzP p) = true.
Proof.
  induction p as [q IH|q IH|]; cbn [ctzP]; [reflexivity| |reflexivity].
  rewrite N.testbit_succ_r_div2 by apply N.le_0_l. exact IH.
Qed.
Lemma ctzP_low p : forall j, (j < ctzP p)%N -> N.testbit (Npos p) j = false.
Proof.
  induction p as [q IH|q IH|]; cbn [ctzP]; intros j Hj; [lia| |lia].
  destruct (N.zero_or_succ j) as [->|[m ->]]; [reflexivity|].
  rewrite N.testbit_succ_r_div2 by apply N.le_0_l. apply IH. lia.
Qed.

Lemma find_desc (p : N -> bool) : forall k x, (x < N.of_nat k)%N -> p x = true ->
  (forall j, (x < j)%N -> (j < N.of_nat k)%N -> p j = false) -> find p (desc k) = Some x.
Proof.
  induction k as [|k IH]; intros x Hx Hp Hhi; [lia|]. cbn [desc find].
  destruct (N.eq_dec x (N.of_nat k)) as [<-|Hne]; [now rewrite Hp|].
  rewrite (Hhi (N.of_nat k)) by lia. apply IH; [lia|exact Hp|]. intros j H1 H2. apply Hhi; lia.
Qed.
Lemma find_asc (p : N -> bool) : forall k i x, (i <= x)%N -> (x < i + N.of_nat k)%N -> p x = true ->
  (forall j, (i <= j)%N -> (j < x)%N -> p j = false) -> find p (asc i k) = Some x.
Proof.
  induction k as [|k IH]; intros i x H1 H2 Hp Hlo; [lia|]. cbn [asc find].
  destruct (N.eq_dec x i) as [->|Hne]; [now rewrite Hp|].
  rewrite (Hlo i) by lia. apply IH; [lia|lia|exact Hp|]. intros j H3 H4. apply Hlo; lia.
Qed.

Lemma pick_find rev w : w <> 0%N -> wfb w -> find (N.testbit w) (ord rev) = Some (pick rev w).
Proof.
  intros Hne Hwf. destruct rev; unfold ord, pick.
  - (* descending: the highest set bit *)
    pose proof (N.bit_log2 w Hne) as Hb.
    apply find_desc; [|exact Hb|].
    + destruct (N.lt_ge_cases (N.log2 w) 64) as [H|H]; [exact H|]. rewrite (Hwf _ H) in Hb. discriminate.
    + intros j H1 _. now apply N.bits_above_log2.
  - (* ascending: the lowest set bit *)
    destruct w as [|p]; [congruence|]. cbn [ctz].
    pose proof (ctzP_bit p) as Hb.
    apply find_asc; [lia| |exact Hb|].
    + destruct (N.lt_ge_cases (ctzP p) 64) as [H|H]; [lia|]. rewrite (Hwf _ H) in Hb. discriminate.
    + intros j _ H2. now apply ctzP_low.
Qed.

(* ---------------- OnesCount64 is the number of members ---------------- *)
Lemma asc_succ i k : asc (N.succ i) k = map N.succ (asc i k).
Proof. revert i; induction k as [|k IH]; intros i; cbn [asc map]; [reflexivity|]. now rewrite IH. Qed.

Lemma count_shift a k : length (filter (N.testbit a) (asc 1 k)) = length (filter (N.testbit (N.div2 a)) (asc 0 k)).
Proof.
  change 1%N with (N.succ 0). rewrite asc_succ, filter_map_comm, map_length. f_equal.
  apply filter_ext. intros j. apply N.testbit_succ_r_div2. apply N.le_0_l.
Qed.

Lemma pc_filter : forall p k, (forall j, (N.of_nat k <= j)%N -> N.testbit (Npos p) j = false) ->
  pc p = length (filter (N.testbit (Npos p)) (asc 0 k)).
Proof.
  induction p as [q IH|q IH|]; intros k Hhi.
  - destruct k as [|k]; [specialize (Hhi 0%N ltac:(lia)); discriminate|].
    cbn [asc pc]. cbn [filter]. change (N.testbit (N.pos q~1) 0) with true. cbn [length]. f_equal.
    change (N.succ 0) with 1%N. rewrite count_shift. apply IH. intros j Hj.
    change (N.pos q) with (N.div2 (N.pos q~1)). rewrite <- N.testbit_succ_r_div2 by apply N.le_0_l. apply Hhi. lia.
  - destruct k as [|k].
    + exfalso. pose proof (N.bit_log2 (N.pos q~0) ltac:(discriminate)) as Hb. rewrite Hhi in Hb by (cbn; lia). discriminate.
    + cbn [asc pc]. cbn [filter]. change (N.testbit (N.pos q~0) 0) with false. cbv iota.
      change (N.succ 0) with 1%N. rewrite count_shift. apply IH. intros j Hj.
      change (N.pos q) with (N.div2 (N.pos q~0)). rewrite <- N.testbit_succ_r_div2 by apply N.le_0_l. apply Hhi. lia.
  - destruct k as [|k]; [specialize (Hhi 0%N ltac:(lia)); discriminate|].
    cbn [asc pc]. cbn [filter]. change (N.testbit 1 0) with true. cbn [length]. f_equal.
    change (N.succ 0) with 1%N. rewrite count_shift. change (N.div2 1) with 0%N. now rewrite filter_zero.
Qed.

Lemma popcount_filter w : wfb w -> popcount w = length (filter (N.testbit w) (asc 0 64)).
Proof.
  intros H. destruct w as [|p]; cbn [popcount]; [now rewrite filter_zero|]. apply pc_filter. intros j Hj. apply H. lia.
Qed.
Lemma popcount_ord rev w : wfb w -> popcount w = length (filter (N.testbit w) (ord rev)).
Proof.
  intros H. rewrite (popcount_filter w H). destruct rev; unfold ord; [|reflexivity].
  rewrite desc_rev_asc, filter_rev, rev_length. reflexivity.
Qed.
Lemma len64_pop w : len64 w = Z.of_nat (popcount w).
Proof. unfold len64, full64. destruct (N.eqb w ones) eqn:E; [|reflexivity]. apply N.eqb_eq in E. subst w. reflexivity. Qed.

(* ---------------- the dense traversal, for any duplicate-free loop order ---------------- *)
Lemma geb_false c l : c < l -> (c >=? l) = false.
Proof. intros H. rewrite Z.geb_leb. apply Z.leb_gt. exact H. Qed.

Section Loops.
  Variable ty : ity.
  Variable add : Z.

  Lemma dense_spec : forall order, NoDup order -> forall w n l c cursor s,
    c + Z.of_nat (length (filter (N.testbit w) order)) <= l ->
    dense ty add order w n l c cursor s =
    fin (write_list s cursor (map (val ty add) (ztake (n - c) (filter (N.testbit w) order))))
        (c + Z.of_nat (length (ztake (n - c) (filter (N.testbit w) order)))).
  Proof.
    induction order as [|i rest IH]; intros Hnd w n l c cursor s Hl.
    - cbn [dense filter ztake map write_list fin length]. f_equal. lia.
    - inversion Hnd as [|? ? Hnotin Hnd']; subst. cbn [dense filter].
      destruct (N.testbit w i) eqn:Eb.
      + cbn [filter length] in Hl. rewrite Eb in Hl. cbn [length] in Hl.
        destruct (c >=? n) eqn:Ecn.
        * cbn [orb]. apply Z.geb_le in Ecn. rewrite ztake_nonpos by lia. cbn [map write_list fin length]. f_equal. lia.
        * rewrite geb_false by lia. cbn [orb]. rewrite Z.geb_leb in Ecn. apply Z.leb_gt in Ecn.
          rewrite ztake_cons by lia. cbn [map write_list].
          destruct (store s cursor (val ty add i)) as [s'|]; [|reflexivity].
          rewrite <- (filter_clear w i rest Hnotin) in *.
          destruct (N.eqb (N.clearbit w i) 0) eqn:Ez.
          -- apply N.eqb_eq in Ez. rewrite Ez, filter_zero. cbn [ztake map write_list fin length]. f_equal.
          -- rewrite IH by (auto; lia). replace (n - (c + 1)) with (n - c - 1) by lia.
             cbn [length]. f_equal. lia.
      + cbn [filter] in Hl. rewrite Eb in Hl. apply IH; auto.
  Qed.

  Lemma sparse_spec rev : forall fuel w n l c cursor s, wfb w ->
    (length (filter (N.testbit w) (ord rev)) < fuel)%nat ->
    c + Z.of_nat (length (filter (N.testbit w) (ord rev))) <= l ->
    sparse ty add fuel rev w n l c cursor s =
    fin (write_list s cursor (map (val ty add) (ztake (n - c) (filter (N.testbit w) (ord rev)))))
        (c + Z.of_nat (length (ztake (n - c) (filter (N.testbit w) (ord rev))))).
  Proof.
    induction fuel as [|f IH]; intros w n l c cursor s Hwf Hf Hl; [lia|]. cbn [sparse].
    destruct (N.eqb w 0) eqn:Ez.
    - apply N.eqb_eq in Ez. subst w. rewrite filter_zero. cbn [ztake map write_list fin length]. f_equal. lia.
    - apply N.eqb_neq in Ez.
      rewrite (filter_first (ord rev) w (pick rev w) (ord_nodup rev) (pick_find rev w Ez Hwf)) in *.
      cbn [length] in Hf, Hl.
      destruct (c >=? n) eqn:Ecn.
      + cbn [orb]. apply Z.geb_le in Ecn. rewrite ztake_nonpos by lia. cbn [map write_list fin length]. f_equal. lia.
      + rewrite geb_false by lia. cbn [orb]. rewrite Z.geb_leb in Ecn. apply Z.leb_gt in Ecn.
        rewrite ztake_cons by lia. cbn [map write_list].
        destruct (store s cursor (val ty add (pick rev w))) as [s'|]; [|reflexivity].
        rewrite IH; [|now apply wfb_clear|lia|lia].
        replace (n - (c + 1)) with (n - c - 1) by lia. cbn [length]. f_equal. lia.
  Qed.

  (* Bit64.IterAsT / RIterAsT, both branches: the first n members in loop order, written from pos on *)
  Theorem iter64_mid rev magic w s pos n : wfb w ->
    iter64 ty add rev magic w s pos n =
    fin (write_list s pos (map (val ty add) (ztake n (filter (N.testbit w) (ord rev)))))
        (Z.of_nat (length (ztake n (filter (N.testbit w) (ord rev))))).
  Proof.
    intros Hwf. unfold iter64. rewrite len64_pop, (popcount_ord rev w Hwf).
    set (F := filter (N.testbit w) (ord rev)).
    destruct (Z.of_nat (length F) =? 0) eqn:E0.
    - apply Z.eqb_eq in E0. destruct F; [|cbn [length] in E0; lia]. reflexivity.
    - destruct (magic <? Z.of_nat (length F)).
      + rewrite dense_spec; [|apply ord_nodup|fold F; lia]. fold F. rewrite Z.sub_0_r. reflexivity.
      + rewrite sparse_spec; [|exact Hwf| |fold F; lia].
        * fold F. rewrite Z.sub_0_r. reflexivity.
        * pose proof (filter_len_le (N.testbit w) (ord rev)) as Hle. rewrite ord_length in Hle. lia.
  Qed.
End Loops.
