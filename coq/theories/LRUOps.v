(* C04: the nine operations of cache.LRUCache on the concrete state (list, running size, capacity, eviction
   counter, checkCapacity loop) refine the ideal LRU (recency list + trim) on every history *)
From Coq Require Import ZArith List Lia Bool.
Require Import LRU.
Import ListNotations.
Open Scope Z_scope.

Definition KV := (Z * Z)%type.                 (* key, value *)
Definition E := ent KV.                        (* ((key, value), size), most recently used first *)
Definition keyof (e : E) : Z := fst (fst e).
Definition valof (e : E) : Z := snd (fst e).
Notation total := (total KV).
Notation trim := (trim KV).
Notation nonneg := (nonneg KV).

Definition lookup (k : Z) (l : list E) : option E := find (fun e => keyof e =? k) l.
Definition remove_key (k : Z) (l : list E) : list E := filter (fun e => negb (keyof e =? k)) l.
Definition touch (k v sz : Z) (l : list E) : list E := ((k, v), sz) :: remove_key k l.
Definition dropped (cap : Z) (l : list E) : list E := skipn (length (trim cap l)) l.

Inductive op := Get (k : Z) | Peek (k : Z) | Exist (k : Z) | Set_ (k v sz : Z) | SetAndGetRemoved (k v sz : Z)
              | SetIfAbsent (k v sz : Z) | Delete (k : Z) | Clear | SetCapacity (c : Z).
Inductive res := RVal (v : option Z) | RBool (b : bool) | RUnit | RList (l : list Z).
Definition is_some {A} (o : option A) := match o with Some _ => true | None => false end.

(* ---------------- the concrete cache ---------------- *)
Record lru := { lst : list E; size : Z; cap : Z; evs : Z }.
Definition new_lru (c : Z) : lru := {| lst := []; size := 0; cap := c; evs := 0 |}.

Definition check (l : list E) (sz cp ev : Z) : lru * list E :=
  let '(l', s', removed) := check_capacity KV (length l) l sz cp [] in
  ({| lst := l'; size := s'; cap := cp; evs := ev + Z.of_nat (length removed) |}, removed).

Definition set_like (c : lru) (k v sz : Z) : lru * list E :=
  match lookup k (lst c) with
  | Some e => check (touch k v sz (lst c)) (size c + (sz - snd e)) (cap c) (evs c)        (* updateInPlace *)
  | None => check (((k, v), sz) :: lst c) (size c + sz) (cap c) (evs c)                   (* addNew *)
  end.

Definition step (c : lru) (o : op) : lru * res :=
  match o with
  | Get k => match lookup k (lst c) with
             | Some e => ({| lst := e :: remove_key k (lst c); size := size c; cap := cap c; evs := evs c |}, RVal (Some (valof e)))
             | None => (c, RVal None) end
  | Peek k => (c, RVal (option_map valof (lookup k (lst c))))
  | Exist k => (c, RBool (is_some (lookup k (lst c))))
  | Set_ k v sz => (fst (set_like c k v sz), RUnit)
  | SetAndGetRemoved k v sz => let '(c', rem) := set_like c k v sz in (c', RList (map valof rem))
  | SetIfAbsent k v sz =>
      match lookup k (lst c) with
      | Some e => ({| lst := e :: remove_key k (lst c); size := size c; cap := cap c; evs := evs c |}, RUnit)
      | None => (fst (check (((k, v), sz) :: lst c) (size c + sz) (cap c) (evs c)), RUnit) end
  | Delete k => match lookup k (lst c) with
                | Some e => ({| lst := remove_key k (lst c); size := size c - snd e; cap := cap c; evs := evs c |}, RBool true)
                | None => (c, RBool false) end
  | Clear => ({| lst := []; size := 0; cap := cap c; evs := evs c |}, RUnit)
  | SetCapacity cp => (fst (check (lst c) (size c) cp (evs c)), RUnit)
  end.

(* ---------------- the ideal cache: a recency list, a capacity, an eviction count ---------------- *)
Definition istate := (list E * Z * Z)%type.
Definition settle (l : list E) (cp ev : Z) : istate * list E :=
  ((trim cp l, cp, ev + Z.of_nat (length (dropped cp l))), rev (dropped cp l)).     (* evicted: least recently used first *)

Definition istep (s : istate) (o : op) : istate * res :=
  let '(l, cp, ev) := s in
  match o with
  | Get k => match lookup k l with Some e => ((e :: remove_key k l, cp, ev), RVal (Some (valof e))) | None => (s, RVal None) end
  | Peek k => (s, RVal (option_map valof (lookup k l)))
  | Exist k => (s, RBool (is_some (lookup k l)))
  | Set_ k v sz => (fst (settle (touch k v sz l) cp ev), RUnit)
  | SetAndGetRemoved k v sz => let '(s', rem) := settle (touch k v sz l) cp ev in (s', RList (map valof rem))
  | SetIfAbsent k v sz => match lookup k l with
                          | Some e => ((e :: remove_key k l, cp, ev), RUnit)
                          | None => (fst (settle (touch k v sz l) cp ev), RUnit) end
  | Delete k => match lookup k l with Some _ => ((remove_key k l, cp, ev), RBool true) | None => (s, RBool false) end
  | Clear => (([], cp, ev), RUnit)
  | SetCapacity c => (fst (settle l c ev), RUnit)
  end.

Definition abs (c : lru) : istate := (lst c, cap c, evs c).
Definition Inv (c : lru) : Prop :=
  size c = total (lst c) /\ nonneg (lst c) /\ NoDup (map keyof (lst c)) /\ 0 <= cap c /\ total (lst c) <= cap c.
(* the arguments the property quantifies over: sizes >= 0, capacities >= 0 *)
Definition op_ok (o : op) : Prop :=
  match o with Set_ _ _ sz | SetAndGetRemoved _ _ sz | SetIfAbsent _ _ sz => 0 <= sz | SetCapacity c => 0 <= c | _ => True end.

(* ---------------- list facts ---------------- *)
Lemma total_cons (e : E) l : total (e :: l) = snd e + total l.
Proof. reflexivity. Qed.
Lemma lookup_none_notin k l : lookup k l = None -> ~ In k (map keyof l).
Proof.
  unfold lookup. intros H Hin. apply in_map_iff in Hin. destruct Hin as (e & He & Hl).
  pose proof (find_none _ _ H e Hl) as Hn. cbn in Hn. rewrite He, Z.eqb_refl in Hn. discriminate.
Qed.
Lemma remove_key_absent k l : ~ In k (map keyof l) -> remove_key k l = l.
Proof.
  induction l as [|e l IH]; intros Hn; [reflexivity|]. cbn [remove_key filter map In] in *.
  destruct (keyof e =? k) eqn:Ek; [apply Z.eqb_eq in Ek; exfalso; apply Hn; left; exact Ek|].
  cbn [negb]. f_equal. apply IH. intros Hin. apply Hn. right. exact Hin.
Qed.
Lemma lookup_some k l e : lookup k l = Some e -> In e l /\ keyof e = k.
Proof. unfold lookup. intros H. apply find_some in H. destruct H as [A B]. apply Z.eqb_eq in B. auto. Qed.
Lemma total_remove k : forall l e, NoDup (map keyof l) -> lookup k l = Some e -> total l = snd e + total (remove_key k l).
Proof.
  induction l as [|x l IH]; intros e Hnd H; [discriminate|]. inversion Hnd as [|? ? Hnotin Hnd']; subst.
  unfold lookup in H. cbn [find] in H. cbn [remove_key filter]. destruct (keyof x =? k) eqn:Ek.
  - inversion H; subst e. apply Z.eqb_eq in Ek. cbn [negb]. fold (remove_key k l). rewrite remove_key_absent by (rewrite <- Ek; exact Hnotin). apply total_cons.
  - cbn [negb]. fold (remove_key k l). rewrite !total_cons. rewrite (IH e Hnd' H). lia.
Qed.
Lemma keys_remove k l : forall x, In x (map keyof (remove_key k l)) -> In x (map keyof l) /\ x <> k.
Proof.
  intros x Hin. apply in_map_iff in Hin. destruct Hin as (e & He & Hl). unfold remove_key in Hl. apply filter_In in Hl. destruct Hl as [Hl Hk].
  apply negb_true_iff, Z.eqb_neq in Hk. split; [apply in_map_iff; exists e; auto|congruence].
Qed.
Lemma nodup_remove k l : NoDup (map keyof l) -> NoDup (map keyof (remove_key k l)).
Proof.
  induction l as [|x l IH]; intros Hnd; [constructor|]. inversion Hnd as [|? ? Hnotin Hnd']; subst.
  cbn [remove_key filter]. destruct (negb (keyof x =? k)); [|apply IH, Hnd'].
  cbn [map]. constructor; [|apply IH, Hnd']. intros Hin. apply keys_remove in Hin. tauto.
Qed.
Lemma nonneg_remove k l : nonneg l -> nonneg (remove_key k l).
Proof. unfold LRU.nonneg, remove_key. intros H. apply Forall_forall. intros e He. apply filter_In in He. rewrite Forall_forall in H. apply H, He. Qed.
Lemma nodup_touch k v sz l : NoDup (map keyof l) -> NoDup (map keyof (touch k v sz l)).
Proof. intros H. unfold touch. cbn [map]. constructor; [intros Hin; apply keys_remove in Hin; cbn in Hin; tauto|apply nodup_remove, H]. Qed.
Lemma nodup_front e k l : NoDup (map keyof l) -> keyof e = k -> NoDup (map keyof (e :: remove_key k l)).
Proof. intros H Ek. cbn [map]. constructor; [intros Hin; apply keys_remove in Hin; tauto|apply nodup_remove, H]. Qed.

Lemma NoDup_prefix {A} (a b : list A) : NoDup (a ++ b) -> NoDup a.
Proof. induction a as [|x a IH]; cbn [app]; intros H; [constructor|]. inversion H as [|? ? Hn Hd]; subst. constructor; [intros Hin; apply Hn, in_or_app; left; exact Hin|apply IH, Hd]. Qed.

(* ---------------- trim ---------------- *)
Lemma trim_prefix : forall l cp, exists d, l = trim cp l ++ d.
Proof.
  induction l as [|x l IH]; intros cp; [exists []; reflexivity|]. cbn [LRU.trim]. destruct (snd x <=? cp).
  - destruct (IH (cp - snd x)) as [d Hd]. exists d. cbn [app]. f_equal. exact Hd.
  - exists (x :: l). reflexivity.
Qed.
Lemma trim_dropped cp l : l = trim cp l ++ dropped cp l.
Proof. unfold dropped. destruct (trim_prefix l cp) as [d Hd]. remember (trim cp l) as t eqn:Et. clear Et. subst l. rewrite skipn_app, Nat.sub_diag, skipn_all. reflexivity. Qed.
Lemma trim_total_le : forall l cp, nonneg l -> 0 <= cp -> total (trim cp l) <= cp.
Proof.
  induction l as [|x l IH]; intros cp Hn Hc; [cbn; lia|]. inversion Hn as [|? ? Hx Hn']; subst. cbn [LRU.trim].
  destruct (snd x <=? cp) eqn:Ex; [|cbn; lia]. apply Z.leb_le in Ex. rewrite total_cons. specialize (IH (cp - snd x) Hn' ltac:(lia)). lia.
Qed.

Lemma check_spec l sz cp ev : nonneg l -> 0 <= cp -> sz = total l ->
  check l sz cp ev = ({| lst := trim cp l; size := total (trim cp l); cap := cp; evs := ev + Z.of_nat (length (dropped cp l)) |}, rev (dropped cp l)).
Proof.
  intros Hn Hc ->. unfold check. destruct (check_capacity_spec KV l cp [] Hn Hc) as (d & Hd & Hsplit). unfold E in *. rewrite Hd. cbn [app].
  assert (Ed : d = dropped cp l).
  { pose proof (trim_dropped cp l) as H2. rewrite H2 in Hsplit at 1. apply app_inv_head in Hsplit. symmetry. exact Hsplit. }
  subst d. rewrite rev_length. reflexivity.
Qed.

Lemma settled_inv l cp ev : nonneg l -> NoDup (map keyof l) -> 0 <= cp ->
  Inv {| lst := trim cp l; size := total (trim cp l); cap := cp; evs := ev |}.
Proof.
  intros Hn Hnd Hc. unfold Inv; cbn [lst size cap]. pose proof (trim_dropped cp l) as Hs.
  split; [reflexivity|]. split; [rewrite Hs in Hn; apply Forall_app in Hn; tauto|].
  split; [rewrite Hs, map_app in Hnd; apply NoDup_prefix in Hnd; exact Hnd|]. split; [exact Hc|apply trim_total_le; assumption].
Qed.

(* ---------------- one operation ---------------- *)
Theorem step_refines c o : Inv c -> op_ok o ->
  abs (fst (step c o)) = fst (istep (abs c) o) /\ snd (step c o) = snd (istep (abs c) o) /\ Inv (fst (step c o)).
Proof.
  intros (Hsz & Hn & Hnd & Hc & Hle) Hok. unfold abs.
  assert (Hset : forall k v sz, 0 <= sz ->
            set_like c k v sz = ({| lst := trim (cap c) (touch k v sz (lst c)); size := total (trim (cap c) (touch k v sz (lst c))); cap := cap c;
                                   evs := evs c + Z.of_nat (length (dropped (cap c) (touch k v sz (lst c)))) |}, rev (dropped (cap c) (touch k v sz (lst c))))).
  { intros k v sz Hs. unfold set_like. destruct (lookup k (lst c)) as [e|] eqn:El.
    - apply check_spec; [constructor; [exact Hs|apply nonneg_remove, Hn]|exact Hc|].
      unfold touch. rewrite total_cons, Hsz, (total_remove k (lst c) e Hnd El). cbn [snd]. lia.
    - replace (((k, v), sz) :: lst c) with (touch k v sz (lst c)) by (unfold touch; rewrite remove_key_absent by (apply lookup_none_notin, El); reflexivity).
      apply check_spec; [constructor; [exact Hs|apply nonneg_remove, Hn]|exact Hc|].
      unfold touch. rewrite total_cons, Hsz, remove_key_absent by (apply lookup_none_notin, El). cbn [snd]. lia. }
  assert (Htn : forall k v sz, 0 <= sz -> nonneg (touch k v sz (lst c))) by (intros; constructor; [assumption|apply nonneg_remove, Hn]).
  assert (Hfront : forall k e, lookup k (lst c) = Some e ->
            Inv {| lst := e :: remove_key k (lst c); size := size c; cap := cap c; evs := evs c |}).
  { intros k e El. destruct (lookup_some _ _ _ El) as [Hin Hk]. pose proof (total_remove k (lst c) e Hnd El) as Ht.
    unfold Inv; cbn [lst size cap]. rewrite total_cons.
    split; [lia|]. split; [constructor; [unfold LRU.nonneg in Hn; rewrite Forall_forall in Hn; apply Hn, Hin|apply nonneg_remove, Hn]|].
    split; [apply nodup_front; assumption|]. split; [exact Hc|lia]. }
  destruct o as [k|k|k|k v sz|k v sz|k v sz|k| |cp]; cbn [step istep op_ok] in *.
  - destruct (lookup k (lst c)) as [e|] eqn:El; cbn [fst snd lst cap evs].
    + split; [reflexivity|split; [reflexivity|apply Hfront, El]].
    + split; [reflexivity|split; [reflexivity|repeat split; assumption]].
  - cbn [fst snd]. split; [reflexivity|split; [reflexivity|repeat split; assumption]].
  - cbn [fst snd]. split; [reflexivity|split; [reflexivity|repeat split; assumption]].
  - rewrite (Hset k v sz Hok). cbn [fst snd settle lst cap evs]. split; [reflexivity|split; [reflexivity|]].
    apply settled_inv; [apply Htn, Hok|apply nodup_touch, Hnd|exact Hc].
  - rewrite (Hset k v sz Hok). cbn [fst snd settle lst cap evs]. split; [reflexivity|split; [reflexivity|]].
    apply settled_inv; [apply Htn, Hok|apply nodup_touch, Hnd|exact Hc].
  - destruct (lookup k (lst c)) as [e|] eqn:El; cbn [fst snd lst cap evs].
    + split; [reflexivity|split; [reflexivity|apply Hfront, El]].
    + pose proof (Hset k v sz Hok) as Hs. unfold set_like in Hs. rewrite El in Hs. rewrite Hs. cbn [fst snd settle lst cap evs].
      split; [reflexivity|split; [reflexivity|]]. apply settled_inv; [apply Htn, Hok|apply nodup_touch, Hnd|exact Hc].
  - destruct (lookup k (lst c)) as [e|] eqn:El; cbn [fst snd lst cap evs].
    + split; [reflexivity|split; [reflexivity|]]. destruct (lookup_some _ _ _ El) as [Hin Hk]. pose proof (total_remove k (lst c) e Hnd El) as Ht.
      assert (0 <= snd e) by (unfold LRU.nonneg in Hn; rewrite Forall_forall in Hn; apply Hn, Hin).
      unfold Inv; cbn [lst size cap]. split; [lia|]. split; [apply nonneg_remove, Hn|]. split; [apply nodup_remove, Hnd|]. split; [exact Hc|lia].
    + split; [reflexivity|split; [reflexivity|repeat split; assumption]].
  - cbn [fst snd lst cap evs]. split; [reflexivity|split; [reflexivity|]]. unfold Inv; cbn. repeat split; try assumption; try constructor; lia.
  - rewrite (check_spec (lst c) (size c) cp (evs c) Hn Hok Hsz). cbn [fst snd settle lst cap evs]. split; [reflexivity|split; [reflexivity|]].
    apply settled_inv; assumption.
Qed.

(* ---------------- every history ---------------- *)
Fixpoint run (c : lru) (ops : list op) : lru * list res :=
  match ops with [] => (c, []) | o :: r => let '(c1, x) := step c o in let '(c2, xs) := run c1 r in (c2, x :: xs) end.
Fixpoint irun (s : istate) (ops : list op) : istate * list res :=
  match ops with [] => (s, []) | o :: r => let '(s1, x) := istep s o in let '(s2, xs) := irun s1 r in (s2, x :: xs) end.

Theorem lru_refines_ideal ops : forall c, Inv c -> Forall op_ok ops ->
  abs (fst (run c ops)) = fst (irun (abs c) ops) /\ snd (run c ops) = snd (irun (abs c) ops) /\ Inv (fst (run c ops)).
Proof.
  induction ops as [|o ops IH]; intros c HI Hok; [cbn; auto|].
  inversion Hok as [|? ? Ho Hok']; subst. destruct (step_refines c o HI Ho) as (A & B & C).
  cbn [run irun]. destruct (step c o) as [c1 x]. destruct (istep (abs c) o) as [s1 y]. cbn [fst snd] in A, B, C. subst s1 y.
  destruct (IH c1 C Hok') as (A' & B' & C'). destruct (run c1 ops) as [c2 xs]. destruct (irun (abs c1) ops) as [s2 ys]. cbn [fst snd] in *.
  subst. auto.
Qed.

Lemma new_inv cp : 0 <= cp -> Inv (new_lru cp).
Proof. intros H. unfold Inv, new_lru; cbn. repeat split; try constructor; lia. Qed.

(* the capacity bound and the size accounting, after every operation of every history *)
Corollary lru_size_bound cp ops : 0 <= cp -> Forall op_ok ops ->
  let c := fst (run (new_lru cp) ops) in size c = total (lst c) /\ size c <= cap c /\ NoDup (map keyof (lst c)).
Proof. intros Hc Hok. destruct (lru_refines_ideal ops (new_lru cp) (new_inv cp Hc) Hok) as (_ & _ & (A & _ & B & _ & D)). cbn zeta. rewrite A. auto. Qed.

(* an item larger than the whole capacity evicts everything, itself included *)
Lemma oversize k v sz l cp : cp < sz -> trim cp (touch k v sz l) = [].
Proof. intros H. unfold touch. cbn [LRU.trim snd]. replace (sz <=? cp) with false by (symmetry; apply Z.leb_gt; lia). reflexivity. Qed.

(* non-vacuity: capacity 5; in-place growth, an oversize item, Peek/Exist not refreshing, SetCapacity shrinking *)
Example demo :
  let ops := [Set_ 1 10 2; Set_ 2 20 2; Get 1; Set_ 3 30 2; Peek 1; Exist 2; SetAndGetRemoved 1 11 4; Set_ 4 40 9; Set_ 5 50 1; Set_ 6 60 1;
              SetIfAbsent 5 0 1; Delete 6; SetCapacity 0; Clear] in
  Forall op_ok ops /\ snd (run (new_lru 5) ops) =
    [RUnit; RUnit; RVal (Some 10); RUnit; RVal (Some 10); RBool false; RList [30]; RUnit; RUnit; RUnit; RUnit; RBool true; RUnit; RUnit].
Proof. cbn zeta. split; [repeat constructor; cbn; lia|vm_compute; reflexivity]. Qed.

Print Assumptions lru_refines_ideal.
