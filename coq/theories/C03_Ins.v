(* C03: ReplaceOrInsert on trees of items (key, payload): the item is put into the sorted in-order list at its
   key, replacing (and returning) the item that had that key; every other item keeps its payload.
   Item-level version of BTIns.v. *)
From Coq Require Import ZArith List Lia Bool Sorting.Sorted.
Require Import C03_Model C03_Spec C03_D.
Import ListNotations.
Open Scope Z_scope.
Local Coercion key : item >-> Z.

Definition node_decomp' := node_decomp 1 (le_n 1).
Definition sorted_pre_lt' := sorted_pre_lt 1 (le_n 1).
Definition sorted_post_gt' := sorted_post_gt 1 (le_n 1).

Lemma filter_lt_all (k : Z) l : Forall (fun y : item => y < k) l ->
  filter (fun y : item => y <? k) l = l /\ filter (fun y : item => k <? y) l = [] /\ s_lookup k l = None.
Proof.
  unfold s_lookup. induction 1 as [|y l Hy _ (IH1 & IH2 & IH3)]; cbn; [auto|].
  replace (key y <? k) with true by (symmetry; apply Z.ltb_lt; lia). replace (k <? key y) with false by (symmetry; apply Z.ltb_ge; lia).
  replace (key y =? k) with false by (symmetry; apply Z.eqb_neq; lia).
  now rewrite IH1, IH2, IH3.
Qed.
Lemma filter_gt_all (k : Z) l : Forall (fun y : item => k < y) l ->
  filter (fun y : item => y <? k) l = [] /\ filter (fun y : item => k <? y) l = l /\ s_lookup k l = None.
Proof.
  unfold s_lookup. induction 1 as [|y l Hy _ (IH1 & IH2 & IH3)]; cbn; [auto|].
  replace (key y <? k) with false by (symmetry; apply Z.ltb_ge; lia). replace (k <? key y) with true by (symmetry; apply Z.ltb_lt; lia).
  replace (key y =? k) with false by (symmetry; apply Z.eqb_neq; lia).
  now rewrite IH1, IH2, IH3.
Qed.
Lemma lookup_app k l1 l2 : s_lookup k (l1 ++ l2) = match s_lookup k l1 with Some x => Some x | None => s_lookup k l2 end.
Proof. apply find_app. Qed.

(* the item goes between everything below its key and everything above it *)
Lemma spec_ins_mid (it : item) P M R : Forall (fun y : item => y < it) P -> Forall (fun y : item => it < y) R ->
  s_ins it (P ++ M ++ R) = P ++ s_ins it M ++ R /\ s_lookup it (P ++ M ++ R) = s_lookup it M.
Proof.
  intros HP HR. unfold s_ins. rewrite !filter_app, !lookup_app.
  destruct (filter_lt_all it P HP) as (-> & -> & ->). destruct (filter_gt_all it R HR) as (-> & -> & ->).
  cbn [app]. rewrite app_nil_r. rewrite <- !app_assoc. split; [reflexivity|]. destruct (s_lookup it M); reflexivity.
Qed.
Lemma spec_ins_present (it old : item) P R : key old = key it -> Forall (fun y : item => y < it) P -> Forall (fun y : item => it < y) R ->
  s_ins it (P ++ old :: R) = P ++ it :: R /\ s_lookup it (P ++ old :: R) = Some old.
Proof.
  intros Hk HP HR. unfold s_ins. rewrite !filter_app, lookup_app. cbn [filter]. unfold s_lookup at 2. cbn [find].
  rewrite Hk, Z.ltb_irrefl, Z.eqb_refl.
  destruct (filter_lt_all it P HP) as (-> & -> & ->). destruct (filter_gt_all it R HR) as (-> & -> & _).
  cbn [app]. now rewrite app_nil_r.
Qed.
Lemma spec_ins_absent (it : item) P R : Forall (fun y : item => y < it) P -> Forall (fun y : item => it < y) R ->
  s_ins it (P ++ R) = P ++ it :: R /\ s_lookup it (P ++ R) = None.
Proof.
  intros HP HR. unfold s_ins. rewrite !filter_app, lookup_app.
  destruct (filter_lt_all it P HP) as (-> & -> & ->). destruct (filter_gt_all it R HR) as (-> & -> & ->).
  cbn [app]. now rewrite app_nil_r.
Qed.

(* inode.split(i): the node's in-order list is left ++ item i ++ right *)
Lemma split_flat f c i : aligned c -> (i < length (iitems c))%nat ->
  let '(mid, c1, c2) := isplit c i in
  iflat (S f) c = iflat (S f) c1 ++ mid :: iflat (S f) c2 /\ mid = nth i (iitems c) ditem.
Proof.
  intros Hal Hi. unfold isplit. destruct c as [its ch]. cbn [iitems ichildren] in *.
  destruct (split_at its i Hi) as (a & x & b & -> & Ha).
  rewrite (nth_app_len' a x b ditem i Ha). split; [|reflexivity].
  rewrite !flat_S. cbn [iitems ichildren].
  rewrite firstn_app, firstn_all2, skipn_app by lia. replace (i - length a)%nat with 0%nat by lia.
  rewrite (skipn_all2 a) by lia. replace (S i - length a)%nat with 1%nat by lia.
  change (firstn 0 (x :: b)) with (@nil item). change (skipn 1 (x :: b)) with b. rewrite app_nil_r. cbn [app].
  destruct Hal as [Hleaf|Hl]; cbn [ichildren] in *.
  - subst ch. cbn [is_nil]. rewrite !inter_leaf. reflexivity.
  - cbn [iitems] in Hl. rewrite app_length in Hl. cbn [length] in Hl.
    assert (Hnil : is_nil ch = false) by (destruct ch; [cbn in Hl; lia | reflexivity]). rewrite Hnil.
    destruct (split_at ch (S i) ltac:(lia)) as (ca & cx & cb & Hch & Hca).
    rewrite Hch. rewrite firstn_app, firstn_all2, skipn_app by lia.
    replace (S i - length ca)%nat with 0%nat by lia. rewrite (skipn_all2 ca) by lia.
    change (firstn 0 (cx :: cb)) with (@nil inode). change (skipn 0 (cx :: cb)) with (cx :: cb). rewrite app_nil_r. cbn [app].
    (* ca has i+1 children: ca = ca' ++ [last]; align with a ++ [x] *)
    destruct ca as [|c1 ca' _] using rev_ind; [cbn in Hca; lia|].
    rewrite app_length in Hca. cbn [length] in Hca.
    replace ((ca' ++ [c1]) ++ cx :: cb) with (ca' ++ c1 :: cx :: cb) by (rewrite <- app_assoc; reflexivity).
    rewrite inter_app_pre by lia. cbn [inter hd_rec tl].
    rewrite Hch in Hl. rewrite !app_length in Hl. cbn [length] in Hl.
    rewrite (inter_cons_post (iflat f) b cb cx) by lia.
    (* left part: inter over a and ca' ++ [c1] *)
    assert (Hleft : inter (iflat f) a (ca' ++ [c1]) = pre (iflat f) a ca' ++ iflat f c1).
    { replace a with (a ++ []) at 1 by apply app_nil_r. rewrite inter_app_pre by lia. reflexivity. }
    rewrite Hleft. rewrite <- !app_assoc. reflexivity.
Qed.

Lemma shaped_split h c i : shaped h c -> (i < length (iitems c))%nat ->
  let '(_, c1, c2) := isplit c i in shaped h c1 /\ shaped h c2.
Proof.
  intros Hs Hi. unfold isplit. destruct c as [its ch]. cbn [iitems ichildren] in *.
  destruct h as [|h]; cbn [shaped iitems ichildren] in Hs |- *.
  - subst ch. cbn [is_nil]. cbn [shaped ichildren]. auto.
  - destruct Hs as [Hl Hf]. assert (Hnil : is_nil ch = false) by (destruct ch; [cbn in Hl; lia | reflexivity]). rewrite Hnil.
    cbn [iitems ichildren]. repeat split.
    + rewrite !firstn_length_le by lia. lia.
    + rewrite <- (firstn_skipn (S i) ch) in Hf. apply Forall_app in Hf. tauto.
    + rewrite !skipn_length. lia.
    + rewrite <- (firstn_skipn (S i) ch) in Hf. apply Forall_app in Hf. tauto.
Qed.

Lemma insert_at_app {A} (a b : list A) x k : length a = k -> insert_at (a ++ b) k x = a ++ x :: b.
Proof.
  intros <-. unfold insert_at. rewrite firstn_app, Nat.sub_diag, firstn_all, skipn_app, Nat.sub_diag. cbn.
  rewrite (skipn_all2 a) by lia. now rewrite app_nil_r.
Qed.

Lemma flat_node3 F a x b ca c1 c2 cb : length a = length ca -> length cb = length b ->
  inter F (a ++ x :: b) (ca ++ c1 :: c2 :: cb) = pre F a ca ++ F c1 ++ x :: F c2 ++ post F b cb.
Proof. intros Ha Hb. rewrite inter_app_pre by auto. cbn [inter hd_rec tl]. rewrite inter_cons_post by auto. reflexivity. Qed.

Theorem insert_flat maxI : (1 <= maxI)%nat -> forall fuel h n (it : item) n' r,
  shaped h n -> StronglySorted klt (iflat (S h) n) ->
  iinsert fuel maxI n it = Some (n', r) ->
  iflat (S h) n' = s_ins it (iflat (S h) n) /\ r = s_lookup it (iflat (S h) n).
Proof.
  intros Hmax. induction fuel as [|f IH]; intros h n it n' r Hsh Hs H; [discriminate|].
  destruct n as [its ch]. cbn [iinsert iitems ichildren] in H.
  rewrite flat_S in Hs |- *. cbn [iitems ichildren] in Hs |- *.
  pose proof (sorted_items _ _ _ Hs) as Hsi.
  set (k := key it) in *.
  destruct (ifind its k) as [i found] eqn:Ef.
  destruct (find_spec its k i found Hsi Ef) as (a & b & Hits & Hi & Ha & Hb).
  subst k.
  destruct h as [|h].
  - (* leaf *)
    cbn in Hsh. subst ch. cbn [is_nil] in H. rewrite inter_leaf in *.
    destruct found.
    + destruct Hb as (old & b' & -> & Hok). inversion H; subst n' r its; clear H.
      rewrite (set_at_app' a old b' it i (eq_sym Hi)), (nth_app_len' a old b' ditem i (eq_sym Hi)).
      rewrite ?flat_S. cbn [iitems ichildren]. rewrite ?inter_leaf.
      destruct (ss_mid _ _ _ Hs) as [_ Hgt]. rewrite Hok in Hgt.
      destruct (spec_ins_present it old a b' Hok Ha Hgt) as [E1 E2]. rewrite E1, E2. split; reflexivity.
    + inversion H; subst n' r its; clear H. rewrite insert_at_app by auto.
      rewrite ?flat_S. cbn [iitems ichildren]. rewrite ?inter_leaf.
      destruct (spec_ins_absent it a b Ha Hb) as [E1 E2]. rewrite E1, E2. split; reflexivity.
  - (* internal node *)
    destruct Hsh as [Hl Hf]. cbn [iitems ichildren] in Hl, Hf.
    assert (Hnil : is_nil ch = false) by (destruct ch; [cbn in Hl; lia | reflexivity]).
    set (F := iflat (S h)) in *.
    change (iflat (S (S h)) (INode its ch)) with (inter F its ch) in *.
    destruct found.
    + (* the key is an item of this node: replaced in place *)
      destruct Hb as (old & b' & -> & Hok). inversion H; subst n' r its; clear H.
      rewrite (set_at_app' a old b' it i (eq_sym Hi)), (nth_app_len' a old b' ditem i (eq_sym Hi)).
      rewrite ?flat_S. cbn [iitems ichildren]. fold F.
      destruct (node_decomp' F (a ++ old :: b') ch a (old :: b') eq_refl Hl) as (ca & c & cb & Hch & Hca & Hcb & Hdec).
      assert (Hnew : inter F (a ++ it :: b') ch = pre F a ca ++ F c ++ post F (it :: b') cb).
      { rewrite Hch. rewrite inter_app_pre by lia. rewrite inter_cons_post by (cbn [length] in *; lia). reflexivity. }
      rewrite Hnew. rewrite Hdec in *.
      destruct cb as [|c2 cb]; [cbn in Hcb; lia|]. cbn [post] in *.
      replace (pre F a ca ++ F c ++ old :: F c2 ++ post F b' cb) with ((pre F a ca ++ F c) ++ old :: F c2 ++ post F b' cb) in * by now rewrite <- app_assoc.
      replace (pre F a ca ++ F c ++ it :: F c2 ++ post F b' cb) with ((pre F a ca ++ F c) ++ it :: F c2 ++ post F b' cb) by now rewrite <- app_assoc.
      destruct (ss_mid _ _ _ Hs) as [Hlt Hgt]. rewrite Hok in Hlt, Hgt.
      destruct (spec_ins_present it old _ _ Hok Hlt Hgt) as [E1 E2]. rewrite E1, E2. split; reflexivity.
    + rewrite Hnil in H. unfold nth_inode in H.
      destruct (node_decomp' F its ch a b Hits Hl) as (ca & c & cb & Hch & Hca & Hcb & Hdec).
      assert (Hnth : nth i ch dinode = c) by (subst ch; apply nth_app_len'; lia). rewrite Hnth in H.
      assert (Hcsh : shaped h c) by (rewrite Forall_forall in Hf; apply Hf; subst ch; apply in_or_app; right; left; reflexivity).
      rewrite Hdec in Hs.
      assert (Hpre : Forall (fun y : item => y < it) (pre F a ca)) by (eapply sorted_pre_lt'; eauto; lia).
      assert (Hpost : Forall (fun y : item => it < y) (post F b cb)) by (rewrite app_assoc in Hs; eapply sorted_post_gt'; eauto).
      assert (Hcs : StronglySorted klt (F c)).
      { apply ss_app_inv_app in Hs as [_ Hs']. apply ss_app_inv_app in Hs' as [Hs' _]. exact Hs'. }
      destruct (Nat.ltb (length (iitems c)) maxI) eqn:Efull.
      * (* room in the child *)
        destruct (iinsert f maxI c it) as [[c' r']|] eqn:Ei; [|discriminate]. inversion H; subst n' r; clear H.
        destruct (IH h c it c' r' Hcsh Hcs Ei) as [Hc' Hr']. fold F in Hc', Hr'.
        subst ch. rewrite (set_at_app' ca c cb c' i ltac:(lia)).
        rewrite ?flat_S. cbn [iitems ichildren]. fold F. subst its.
        rewrite inter_app_pre by lia. rewrite inter_cons_post by lia. rewrite Hc', Hr', Hdec.
        destruct (spec_ins_mid it _ (F c) _ Hpre Hpost) as [E1 E2]. rewrite E1, E2. split; reflexivity.
      * (* the child is full: split it, then go left, right, or replace the separator *)
        apply Nat.ltb_ge in Efull.
        assert (Hidx : (maxI / 2 < length (iitems c))%nat).
        { assert (maxI / 2 < maxI)%nat by (apply Nat.div_lt; lia). lia. }
        pose proof (split_flat h c (maxI / 2) (shaped_aligned h c Hcsh) Hidx) as Hsp.
        pose proof (shaped_split h c (maxI / 2) Hcsh Hidx) as Hss.
        destruct (isplit c (maxI / 2)) as [[mid c1] c2]. destruct Hsp as [Hsp _]. destruct Hss as [Hs1 Hs2]. fold F in Hsp.
        assert (Hits' : insert_at its i mid = a ++ mid :: b) by (subst its; apply insert_at_app; lia).
        assert (Hch' : insert_at (set_at ch i c1) (S i) c2 = ca ++ c1 :: c2 :: cb).
        { subst ch. rewrite (set_at_app' ca c cb c1 i ltac:(lia)).
          replace (ca ++ c1 :: cb) with ((ca ++ [c1]) ++ cb) by now rewrite <- app_assoc.
          rewrite insert_at_app by (rewrite app_length; cbn; lia). now rewrite <- app_assoc. }
        rewrite Hits', Hch' in H. rewrite Hsp in Hs, Hcs.
        replace (pre F a ca ++ (F c1 ++ mid :: F c2) ++ post F b cb)
          with (pre F a ca ++ F c1 ++ mid :: F c2 ++ post F b cb) in Hs by (rewrite <- !app_assoc; reflexivity).
        rewrite Hdec, Hsp.
        replace (pre F a ca ++ (F c1 ++ mid :: F c2) ++ post F b cb)
          with (pre F a ca ++ F c1 ++ mid :: F c2 ++ post F b cb) by (rewrite <- !app_assoc; reflexivity).
        destruct (ss_app_inv_app _ _ Hs) as [_ Hs'].
        destruct (ss_app_inv _ _ _ Hcs) as (Sc1 & Sc2 & Flt1 & Fgt2 & _).
        assert (Hmidpost : Forall (fun y : item => mid < y) (post F b cb)).
        { replace (F c1 ++ mid :: F c2 ++ post F b cb) with (F c1 ++ mid :: (F c2 ++ post F b cb)) in Hs' by reflexivity.
          destruct (ss_mid _ _ _ Hs') as [_ Hg]. apply Forall_app in Hg. tauto. }
        destruct (key it <? key mid) eqn:Ekm.
        -- apply Z.ltb_lt in Ekm.
           destruct (iinsert f maxI c1 it) as [[c' r']|] eqn:Ei; [|discriminate]. inversion H; subst n' r; clear H.
           destruct (IH h c1 it c' r' Hs1 Sc1 Ei) as [Hc' Hr']. fold F in Hc', Hr'.
           rewrite (set_at_app' ca c1 (c2 :: cb) c' i ltac:(lia)).
           rewrite ?flat_S. cbn [iitems ichildren]. fold F. rewrite flat_node3 by lia. rewrite Hc', Hr'.
           assert (HR : Forall (fun y : item => it < y) (mid :: F c2 ++ post F b cb)).
           { constructor; [lia|]. apply Forall_app. split; eapply Forall_gt_trans; eauto; lia. }
           destruct (spec_ins_mid it (pre F a ca) (F c1) (mid :: F c2 ++ post F b cb) Hpre HR) as [E1 E2].
           rewrite E1, E2. split; reflexivity.
        -- apply Z.ltb_ge in Ekm. destruct (key mid <? key it) eqn:Emk.
           ++ apply Z.ltb_lt in Emk.
              destruct (iinsert f maxI c2 it) as [[c' r']|] eqn:Ei; [|discriminate]. inversion H; subst n' r; clear H.
              destruct (IH h c2 it c' r' Hs2 Sc2 Ei) as [Hc' Hr']. fold F in Hc', Hr'.
              rewrite (set_at_app_S' ca c1 c2 cb c' i ltac:(lia)).
              rewrite ?flat_S. cbn [iitems ichildren]. fold F. rewrite flat_node3 by lia. rewrite Hc', Hr'.
              replace (pre F a ca ++ F c1 ++ mid :: s_ins it (F c2) ++ post F b cb)
                with ((pre F a ca ++ F c1 ++ [mid]) ++ s_ins it (F c2) ++ post F b cb) by (rewrite <- !app_assoc; reflexivity).
              replace (pre F a ca ++ F c1 ++ mid :: F c2 ++ post F b cb)
                with ((pre F a ca ++ F c1 ++ [mid]) ++ F c2 ++ post F b cb) by (rewrite <- !app_assoc; reflexivity).
              assert (HP : Forall (fun y : item => y < it) (pre F a ca ++ F c1 ++ [mid])).
              { apply Forall_app. split; auto. apply Forall_app. split; [eapply Forall_lt_trans; eauto; lia | constructor; [lia|constructor]]. }
              destruct (spec_ins_mid it (pre F a ca ++ F c1 ++ [mid]) (F c2) (post F b cb) HP Hpost) as [E1 E2].
              rewrite E1, E2. split; reflexivity.
           ++ apply Z.ltb_ge in Emk. assert (Hmk : key mid = key it) by (lia).
              inversion H; subst n' r; clear H.
              rewrite (set_at_app' a mid b it i (eq_sym Hi)).
              rewrite ?flat_S. cbn [iitems ichildren]. fold F. rewrite flat_node3 by lia.
              replace (pre F a ca ++ F c1 ++ it :: F c2 ++ post F b cb)
                with ((pre F a ca ++ F c1) ++ it :: F c2 ++ post F b cb) by (rewrite <- !app_assoc; reflexivity).
              replace (pre F a ca ++ F c1 ++ mid :: F c2 ++ post F b cb)
                with ((pre F a ca ++ F c1) ++ mid :: F c2 ++ post F b cb) by (rewrite <- !app_assoc; reflexivity).
              destruct (spec_ins_present it mid (pre F a ca ++ F c1) (F c2 ++ post F b cb) Hmk) as [E1 E2].
              ** apply Forall_app. split; auto. rewrite <- Hmk. exact Flt1.
              ** apply Forall_app. split; [rewrite <- Hmk; exact Fgt2|auto].
              ** rewrite E1, E2. split; reflexivity.
Qed.
