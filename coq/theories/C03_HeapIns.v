(* C03, layer H: the insert path on the store (mutableFor, mutableChild, split, insert with maybeSplitChild) does to the
   functional value of the tree exactly what the functional model does, writes only free addresses and nodes of the
   tree that its context owns, and links only to nodes of the old tree or new ones. *)
From Coq Require Import ZArith List Lia Bool Sorting.Sorted.
Require Import C03_Model C03_Spec C03_D C03_Ins C03_Sel C03_Inv C03_InsInv C03_Cow C03_Heap C03_HeapLib.
Import ListNotations.
Open Scope nat_scope.

(* ---------------- lists in step ---------------- *)
Lemma F2_nth {A B} (R : A -> B -> Prop) l1 l2 i d1 d2 : Forall2 R l1 l2 -> i < length l1 -> R (nth i l1 d1) (nth i l2 d2).
Proof. intros H. revert i. induction H as [|a b l1 l2 Hab _ IH]; intros i Hi; [cbn in Hi; lia|]. destruct i; cbn; [exact Hab|apply IH; cbn in Hi; lia]. Qed.
Lemma F2_app {A B} (R : A -> B -> Prop) l1 l2 m1 m2 : Forall2 R l1 l2 -> Forall2 R m1 m2 -> Forall2 R (l1 ++ m1) (l2 ++ m2).
Proof. induction 1; intros Hm; cbn; [exact Hm|constructor; auto]. Qed.
Lemma F2_firstn {A B} (R : A -> B -> Prop) l1 l2 i : Forall2 R l1 l2 -> Forall2 R (firstn i l1) (firstn i l2).
Proof. intros H. revert i. induction H; intros [|i]; cbn; constructor; auto. Qed.
Lemma F2_skipn {A B} (R : A -> B -> Prop) l1 l2 i : Forall2 R l1 l2 -> Forall2 R (skipn i l1) (skipn i l2).
Proof. intros H. revert i. induction H; intros [|i]; cbn; try constructor; auto. Qed.
Lemma F2_set_at {A B} (R : A -> B -> Prop) l1 l2 i x y : Forall2 R l1 l2 -> R x y -> Forall2 R (set_at l1 i x) (set_at l2 i y).
Proof. intros H Hxy. unfold set_at. apply F2_app; [apply F2_firstn, H|constructor; [exact Hxy|apply F2_skipn, H]]. Qed.
Lemma F2_insert_at {A B} (R : A -> B -> Prop) l1 l2 i x y : Forall2 R l1 l2 -> R x y -> Forall2 R (insert_at l1 i x) (insert_at l2 i y).
Proof. intros H Hxy. unfold insert_at. apply F2_app; [apply F2_firstn, H|constructor; [exact Hxy|apply F2_skipn, H]]. Qed.
Lemma F2_impl {A B} (R S : A -> B -> Prop) l1 l2 : (forall x y, In x l1 -> R x y -> S x y) -> Forall2 R l1 l2 -> Forall2 S l1 l2.
Proof. intros HI H. induction H as [|a b l1 l2 Hab _ IH]; constructor; [apply HI; [left; reflexivity|exact Hab]|apply IH; intros x y Hx; apply HI; right; exact Hx]. Qed.
Lemma set_at_same {A} (l : list A) i d : i < length l -> set_at l i (nth i l d) = l.
Proof.
  revert i. induction l as [|a l IH]; intros i Hi; [cbn in Hi; lia|]. destruct i as [|i]; [reflexivity|].
  unfold set_at in *. cbn [firstn skipn nth app]. f_equal. apply IH. cbn in Hi. lia.
Qed.
Lemma in_firstn {A} (l : list A) i x : In x (firstn i l) -> In x l.
Proof. intros H. rewrite <- (firstn_skipn i l). apply in_or_app. left. exact H. Qed.
Lemma in_skipn {A} (l : list A) i x : In x (skipn i l) -> In x l.
Proof. intros H. rewrite <- (firstn_skipn i l). apply in_or_app. right. exact H. Qed.
Lemma in_set_at {A} (l : list A) i y x : In x (set_at l i y) -> x = y \/ In x l.
Proof.
  unfold set_at. intros H. apply in_app_or in H. destruct H as [H|[H|H]]; [right; eapply in_firstn, H|left; congruence|right; eapply in_skipn, H].
Qed.
Lemma in_insert_at {A} (l : list A) i y x : In x (insert_at l i y) -> x = y \/ In x l.
Proof.
  unfold insert_at. intros H. apply in_app_or in H. destruct H as [H|[H|H]]; [right; eapply in_firstn, H|left; congruence|right; eapply in_skipn, H].
Qed.
Lemma nth_In_lt {A} (l : list A) i d : i < length l -> In (nth i l d) l.
Proof. apply nth_In. Qed.

(* ---------------- what does not change when the store only grows ---------------- *)
Definition extends (h h' : heap) : Prop := forall x n, h x = Some n -> h' x = Some n.
Lemma extends_abs h h' f r t : extends h h' -> abs f h r = Some t -> abs f h' r = Some t /\ addrs f h' r = addrs f h r.
Proof.
  intros He Ha. apply frame_abs; [exact Ha|]. intros x Hx. destruct (h x) as [n|] eqn:E; [apply He, E|exfalso; exact (addrs_alloc f h r x Hx E)].
Qed.
Lemma extends_hset_free h a n : h a = None -> extends h (hset h a n).
Proof. intros Ha x m Hx. rewrite hset_other; [exact Hx|]. intros ->. congruence. Qed.
Lemma F2_abs_extends h h' f ks cs : extends h h' -> Forall2 (fun k c => abs f h k = Some c) ks cs ->
  Forall2 (fun k c => abs f h' k = Some c) ks cs /\ flat_map (addrs f h') ks = flat_map (addrs f h) ks.
Proof.
  intros He HF. induction HF as [|k c ks cs Hkc _ [A B]]; [split; [constructor|reflexivity]|].
  destruct (extends_abs h h' f k c He Hkc) as [C D]. split; [constructor; assumption|]. cbn [flat_map]. rewrite B, D. reflexivity.
Qed.

(* ---------------- mutableFor ---------------- *)
Lemma h_mutable_for_spec c s a f t : good_alloc s -> abs f (hp s) a = Some t ->
  let s' := fst (h_mutable_for s c a) in let a' := snd (h_mutable_for s c a) in
  good_alloc s' /\ abs f (hp s') a' = Some t /\ extends (hp s) (hp s') /\ wr c [] (hp s) (hp s') /\
  (exists n n', hp s a = Some n /\ hp s' a' = Some n' /\ own n' = c /\ hits n' = hits n /\ kids n' = kids n) /\
  (a' = a \/ hp s a' = None) /\
  (forall x, In x (addrs f (hp s') a') -> x = a' \/ In x (addrs f (hp s) a)).
Proof.
  intros Hg Ha. destruct f as [|f]; [discriminate|]. pose proof Ha as Ha0. apply abs_S in Ha. destruct Ha as (n & cs & Hn & HF & ->).
  unfold h_mutable_for. rewrite (getn_some s a n Hn). destruct (Nat.eqb (own n) c) eqn:Eo; cbn [fst snd].
  - apply Nat.eqb_eq in Eo. split; [exact Hg|]. split; [exact Ha0|]. split; [intros x m Hx; exact Hx|]. split; [apply wr_refl|].
    split; [exists n, n; auto|]. split; [left; reflexivity|]. intros x Hx. right. exact Hx.
  - destruct (new_addr_spec s Hg) as (Hb & Hh1 & Hg1 & Hnin & Hlt). destruct (new_addr s) as [b s1]. cbn [fst snd] in *.
    set (nb := {| own := c; hits := hits n; kids := kids n |}). cbn [hput hp]. rewrite Hh1.
    assert (Hnb : ~ In b (flat_map (addrs f (hp s)) (kids nb))).
    { intros Hin. apply in_flat_map in Hin. destruct Hin as (k & _ & Hx). exact (addrs_alloc f (hp s) k b Hx Hb). }
    destruct (put_top f (hp s) b nb cs HF Hnb) as [Hab Hfp].
    split; [apply hput_good; assumption|]. split; [exact Hab|]. split; [apply extends_hset_free, Hb|].
    split; [apply wr_hset_free; [exact Hb|reflexivity]|].
    split; [exists n, nb; split; [exact Hn|split; [apply hset_same|auto]]|]. split; [right; exact Hb|].
    intros x Hx. rewrite Hfp in Hx. destruct Hx as [<-|Hx]; [left; reflexivity|]. right. cbn [addrs]. rewrite Hn. right. exact Hx.
Qed.

(* ---------------- mutableChild ---------------- *)
Lemma in_flat_map_set_at {A B} (g : A -> list B) l i y x : In x (flat_map g (set_at l i y)) -> In x (g y) \/ In x (flat_map g l).
Proof.
  intros H. apply in_flat_map in H. destruct H as (k & Hk & Hx). apply in_set_at in Hk. destruct Hk as [->|Hk]; [left; exact Hx|].
  right. apply in_flat_map. exists k. auto.
Qed.

Lemma h_mutable_child_spec c s a hh na cs i :
  good_alloc s -> hp s a = Some na -> own na = c ->
  abs (S (S hh)) (hp s) a = Some (INode (hits na) cs) -> i < length (kids na) ->
  let s' := fst (h_mutable_child s c a i) in let k' := snd (h_mutable_child s c a i) in
  good_alloc s' /\
  hp s' a = Some {| own := own na; hits := hits na; kids := set_at (kids na) i k' |} /\
  abs (S (S hh)) (hp s') a = Some (INode (hits na) cs) /\
  (exists nk, hp s' k' = Some nk /\ own nk = c) /\
  abs (S hh) (hp s') k' = Some (nth i cs dinode) /\
  k' <> a /\
  wr c [a] (hp s) (hp s') /\
  (forall x, In x (addrs (S (S hh)) (hp s') a) -> In x (addrs (S (S hh)) (hp s) a) \/ hp s x = None) /\
  (forall x n, hp s x = Some n -> x <> a -> hp s' x = Some n).
Proof.
  intros Hg Hna Hoa Ha Hi. pose proof Ha as Ha0. apply abs_S in Ha. destruct Ha as (n & cs0 & Hn & HF & E).
  rewrite Hna in Hn. inversion Hn; subst n. inversion E; subst cs0. clear Hn E.
  pose proof (Forall2_len _ _ _ HF) as Hlen.
  set (child := nth i (kids na) 0).
  assert (Hc : abs (S hh) (hp s) child = Some (nth i cs dinode)) by (apply (F2_nth _ _ _ i 0 dinode HF Hi)).
  pose proof (top_not_below (S hh) (hp s) a _ na Ha0 Hna) as Htop.
  assert (Hchild_in : In child (kids na)) by (apply nth_In, Hi).
  unfold h_mutable_child. rewrite (getn_some s a na Hna). fold child.
  destruct (h_mutable_for_spec c s child (S hh) _ Hg Hc) as (Hg1 & Hk1 & Hext & Hwr1 & (nc & nk & Hnc & Hnk & Hok & _ & _) & Hfresh & Hfp1).
  destruct (h_mutable_for s c child) as [s1 k']. cbn [fst snd] in *.
  assert (Hna1 : hp s1 a = Some na) by (apply Hext, Hna).
  rewrite (getn_some s1 a na Hna1).
  set (n1 := {| own := own na; hits := hits na; kids := set_at (kids na) i k' |}).
  assert (Hka : k' <> a).
  { intros ->. destruct Hfresh as [E|E]; [|congruence]. apply Htop. apply in_flat_map. exists child. split; [exact Hchild_in|].
    rewrite <- E. apply (addrs_self hh (hp s) a na Hna). }
  destruct (F2_abs_extends _ _ (S hh) _ _ Hext HF) as [HF1 Hfm1].
  assert (HF' : Forall2 (fun k c0 => abs (S hh) (hp s1) k = Some c0) (kids n1) cs).
  { cbn [kids n1]. rewrite <- (set_at_same cs i dinode) by lia. apply F2_set_at; assumption. }
  assert (Hsub : forall x, In x (flat_map (addrs (S hh) (hp s1)) (kids n1)) -> x = k' \/ In x (flat_map (addrs (S hh) (hp s)) (kids na))).
  { intros x Hx. cbn [kids n1] in Hx. apply in_flat_map_set_at in Hx. destruct Hx as [Hx|Hx].
    - destruct (Hfp1 x Hx) as [->|Hx']; [left; reflexivity|]. right. apply in_flat_map. exists child. auto.
    - right. rewrite <- Hfm1. exact Hx. }
  assert (Hnin : ~ In a (flat_map (addrs (S hh) (hp s1)) (kids n1))).
  { intros Hin. destruct (Hsub a Hin) as [E|Hx]; [congruence|exact (Htop Hx)]. }
  destruct (put_top (S hh) (hp s1) a n1 cs HF' Hnin) as [Hab Hfp].
  destruct (alloc_lt s1 a Hg1 ltac:(congruence)) as [Hlt Hnfl].
  cbn [hput hp].
  split; [apply hput_good; assumption|]. split; [apply hset_same|]. split; [exact Hab|].
  split; [exists nk; split; [rewrite hset_other by exact Hka; exact Hnk|exact Hok]|].
  split.
  { apply (frame_abs (S hh) (hp s1) _ k' _ Hk1). intros x Hx. apply hset_other. intros ->.
    apply Hnin. apply in_flat_map. exists k'. split; [|exact Hx]. cbn [kids n1]. unfold set_at. apply in_or_app. right. left. reflexivity. }
  split; [exact Hka|]. split.
  { apply (wr_trans c [a] [a] (hp s) (hp s1)); [apply (wr_mono c [] [a]); [intros ? []|exact Hwr1]| |intros x Hx; left; exact Hx].
    apply (wr_hset_owned c [a] (hp s1) a na n1 Hna1 Hoa); [left; reflexivity|exact Hoa]. }
  split.
  { intros x Hx. rewrite Hfp in Hx. destruct Hx as [<-|Hx]; [left; apply (addrs_self (S hh) (hp s) a na Hna)|].
    destruct (Hsub x Hx) as [->|Hx'].
    - destruct Hfresh as [E|E]; [left|right; exact E]. rewrite E. cbn [addrs]. rewrite Hna. right. apply in_flat_map. exists child.
      split; [exact Hchild_in|]. apply (addrs_self hh (hp s) child nc Hnc).
    - left. cbn [addrs]. rewrite Hna. right. exact Hx'. }
  intros x n Hx Hne. rewrite hset_other by exact Hne. apply Hext, Hx.
Qed.

(* ---------------- split ---------------- *)
Lemma in_flat_map_firstn {A B} (g : A -> list B) l i x : In x (flat_map g (firstn i l)) -> In x (flat_map g l).
Proof. intros H. apply in_flat_map in H. destruct H as (k & Hk & Hx). apply in_flat_map. exists k. split; [eapply in_firstn, Hk|exact Hx]. Qed.
Lemma in_flat_map_skipn {A B} (g : A -> list B) l i x : In x (flat_map g (skipn i l)) -> In x (flat_map g l).
Proof. intros H. apply in_flat_map in H. destruct H as (k & Hk & Hx). apply in_flat_map. exists k. split; [eapply in_skipn, Hk|exact Hx]. Qed.
Lemma is_nil_F2 {A B} (R : A -> B -> Prop) l1 l2 : Forall2 R l1 l2 -> is_nil l1 = is_nil l2.
Proof. destruct 1; reflexivity. Qed.

Lemma h_split_spec c s a hh na cs i :
  good_alloc s -> hp s a = Some na -> own na = c ->
  abs (S hh) (hp s) a = Some (INode (hits na) cs) ->
  let s' := fst (fst (h_split s c a i)) in let mid := snd (fst (h_split s c a i)) in let b := snd (h_split s c a i) in
  let c1 := snd (fst (isplit (INode (hits na) cs) i)) in let c2 := snd (isplit (INode (hits na) cs) i) in
  good_alloc s' /\ mid = fst (fst (isplit (INode (hits na) cs) i)) /\ hp s b = None /\ b <> a /\
  abs (S hh) (hp s') a = Some c1 /\ abs (S hh) (hp s') b = Some c2 /\
  (exists n1, hp s' a = Some n1 /\ own n1 = c) /\ (exists n2, hp s' b = Some n2 /\ own n2 = c) /\
  wr c [a] (hp s) (hp s') /\
  (forall x, In x (addrs (S hh) (hp s') a) \/ In x (addrs (S hh) (hp s') b) -> x = b \/ In x (addrs (S hh) (hp s) a)) /\
  (forall x n, hp s x = Some n -> x <> a -> hp s' x = Some n).
Proof.
  intros Hg Hna Hoa Ha. pose proof Ha as Ha0. apply abs_S in Ha. destruct Ha as (n & cs0 & Hn & HF & E).
  rewrite Hna in Hn. inversion Hn; subst n. inversion E; subst cs0. clear Hn E.
  pose proof (top_not_below hh (hp s) a _ na Ha0 Hna) as Htop.
  unfold h_split, isplit. rewrite (getn_some s a na Hna). cbn [iitems ichildren].
  destruct (new_addr_spec s Hg) as (Hb & Hh1 & Hg1 & Hnin & Hlt). destruct (new_addr s) as [b s1]. cbn [fst snd] in *.
  rewrite <- (is_nil_F2 _ _ _ HF).
  set (kb := if is_nil (kids na) then [] else skipn (S i) (kids na)).
  set (ka := if is_nil (kids na) then [] else firstn (S i) (kids na)).
  set (cb := if is_nil (kids na) then [] else skipn (S i) cs).
  set (ca := if is_nil (kids na) then [] else firstn (S i) cs).
  set (nb := {| own := c; hits := skipn (S i) (hits na); kids := kb |}).
  set (n1 := {| own := own na; hits := firstn i (hits na); kids := ka |}).
  assert (Hba : b <> a) by (intros ->; congruence).
  assert (HFb : Forall2 (fun k c0 => abs hh (hp s) k = Some c0) kb cb).
  { unfold kb, cb. destruct (is_nil (kids na)); [constructor|apply F2_skipn, HF]. }
  assert (HFa : Forall2 (fun k c0 => abs hh (hp s) k = Some c0) ka ca).
  { unfold ka, ca. destruct (is_nil (kids na)); [constructor|apply F2_firstn, HF]. }
  assert (Hkb : forall x, In x (flat_map (addrs hh (hp s)) kb) -> In x (flat_map (addrs hh (hp s)) (kids na))).
  { unfold kb. destruct (is_nil (kids na)); [intros x []|intros x; apply in_flat_map_skipn]. }
  assert (Hka : forall x, In x (flat_map (addrs hh (hp s)) ka) -> In x (flat_map (addrs hh (hp s)) (kids na))).
  { unfold ka. destruct (is_nil (kids na)); [intros x []|intros x; apply in_flat_map_firstn]. }
  assert (Hnb : ~ In b (flat_map (addrs hh (hp s)) (kids nb))).
  { intros Hin. apply in_flat_map in Hin. destruct Hin as (k & _ & Hx). exact (addrs_alloc hh (hp s) k b Hx Hb). }
  destruct (put_top hh (hp s) b nb cb HFb Hnb) as [Habb Hfpb].
  cbn [hput hp nxt fl]. rewrite Hh1. set (h2 := hset (hp s) b nb) in *.
  assert (Hext : extends (hp s) h2) by (apply extends_hset_free, Hb).
  destruct (F2_abs_extends _ _ hh _ _ Hext HFa) as [HFa2 Hfma].
  assert (Hna2 : ~ In a (flat_map (addrs hh h2) (kids n1))).
  { cbn [kids n1]. rewrite Hfma. intros Hin. exact (Htop (Hka a Hin)). }
  destruct (put_top hh h2 a n1 ca HFa2 Hna2) as [Haba Hfpa].
  assert (Habb3 : abs (S hh) (hset h2 a n1) b = Some (INode (hits nb) cb) /\ addrs (S hh) (hset h2 a n1) b = addrs (S hh) h2 b).
  { apply (frame_abs (S hh) h2 _ b _ Habb). intros x Hx. apply hset_other. intros ->. rewrite Hfpb in Hx.
    destruct Hx as [E|Hx]; [congruence|]. exact (Htop (Hkb a Hx)). }
  destruct Habb3 as [Habb3 Hfpb3].
  assert (Hg2 : good_alloc (hput s1 b nb)) by (apply hput_good; assumption).
  assert (Hlt2 : a < nxt s1 /\ ~ In a (fl s1)).
  { apply (alloc_lt (hput s1 b nb) a Hg2). cbn [hput hp]. rewrite Hh1. fold h2. rewrite (Hext a na Hna). discriminate. }
  split; [apply (hput_good (hput s1 b nb) a n1 Hg2); cbn [hput nxt fl]; tauto|].
  split; [reflexivity|]. split; [exact Hb|]. split; [exact Hba|]. split; [exact Haba|]. split; [exact Habb3|].
  split; [exists n1; split; [apply hset_same|exact Hoa]|].
  split; [exists nb; split; [rewrite hset_other by exact Hba; apply hset_same|reflexivity]|].
  split.
  { apply (wr_trans c [a] [a] (hp s) h2); [apply wr_hset_free; [exact Hb|reflexivity]| |intros x Hx; left; exact Hx].
    apply (wr_hset_owned c [a] h2 a na n1 (Hext a na Hna) Hoa); [left; reflexivity|exact Hoa]. }
  split.
  { intros x [Hx|Hx].
    - rewrite Hfpa in Hx. destruct Hx as [<-|Hx]; [right; apply (addrs_self hh (hp s) a na Hna)|].
      cbn [kids n1] in Hx. rewrite Hfma in Hx. right. cbn [addrs]. rewrite Hna. right. apply Hka, Hx.
    - rewrite Hfpb3, Hfpb in Hx. destruct Hx as [<-|Hx]; [left; reflexivity|]. right. cbn [addrs]. rewrite Hna. right. apply Hkb, Hx. }
  intros x n Hx Hne. rewrite hset_other by exact Hne. apply Hext, Hx.
Qed.

(* ---------------- composing writes ---------------- *)
Definition step_ok (c : ctx) (A : list addr) (h h' : heap) (A' : list addr) : Prop :=
  wr c A h h' /\ (forall x, In x A' -> In x A \/ h x = None).
Lemma step_refl c A h : step_ok c A h h A.
Proof. split; [apply wr_refl|intros x Hx; left; exact Hx]. Qed.
Lemma step_trans c A A1 A2 h h1 h2 : step_ok c A h h1 A1 -> step_ok c A1 h1 h2 A2 -> step_ok c A h h2 A2.
Proof.
  intros [W1 F1] [W2 F2]. split; [apply (wr_trans c A A1 h h1 h2 W1 W2 F1)|].
  intros x Hx. destruct (F2 x Hx) as [H1|H1]; [apply F1, H1|].
  destruct (W1 x) as [E|[[E|(Hin & _)] _]]; [right; congruence|right; exact E|left; exact Hin].
Qed.

Lemma NoDup_mid {A} (l1 m l2 : list A) : NoDup (l1 ++ m ++ l2) -> forall x, In x m -> ~ In x l1 /\ ~ In x l2.
Proof.
  intros H x Hx. apply in_split in Hx. destruct Hx as (p & q & ->). split; intros Hin.
  - apply in_split in Hin. destruct Hin as (p1 & q1 & ->).
    replace ((p1 ++ x :: q1) ++ (p ++ x :: q) ++ l2) with (p1 ++ x :: (q1 ++ p ++ x :: q ++ l2)) in H by (rewrite <- !app_assoc; reflexivity).
    apply NoDup_remove_2 in H. apply H. apply in_or_app. right. apply in_or_app. right. apply in_or_app. right. left. reflexivity.
  - replace (l1 ++ (p ++ x :: q) ++ l2) with ((l1 ++ p) ++ x :: (q ++ l2)) in H by (rewrite <- !app_assoc; reflexivity).
    apply NoDup_remove_2 in H. apply H. apply in_or_app. right. apply in_or_app. right. exact Hin.
Qed.
Lemma flat_map_app' {A B} (g : A -> list B) l1 l2 : flat_map g (l1 ++ l2) = flat_map g l1 ++ flat_map g l2.
Proof. induction l1 as [|x l1 IH]; cbn; [reflexivity|]. now rewrite IH, app_assoc. Qed.

(* after a write confined to the subtree of one child k (and to free addresses), seen from the parent a *)
Lemma after_child c f h1 h2 a n1 cs l1 k l2 c' :
  abs (S f) h1 a = Some (INode (hits n1) cs) -> h1 a = Some n1 -> kids n1 = l1 ++ k :: l2 ->
  NoDup (addrs (S f) h1 a) ->
  step_ok c (addrs f h1 k) h1 h2 (addrs f h2 k) -> abs f h2 k = Some c' ->
  h2 a = Some n1 /\ abs (S f) h2 a = Some (INode (hits n1) (set_at cs (length l1) c')) /\
  step_ok c (addrs (S f) h1 a) h1 h2 (addrs (S f) h2 a).
Proof.
  intros Ha Hn1 Hk Hnd [Hwr Hfp] Hc'. pose proof Ha as Ha0. apply abs_S in Ha. destruct Ha as (n & cs0 & Hn & HF & E).
  rewrite Hn1 in Hn. inversion Hn; subst n. inversion E; subst cs0. clear Hn E.
  assert (Hfpa : addrs (S f) h1 a = a :: flat_map (addrs f h1) l1 ++ addrs f h1 k ++ flat_map (addrs f h1) l2).
  { cbn [addrs]. rewrite Hn1, Hk, flat_map_app'. cbn [flat_map]. reflexivity. }
  rewrite Hfpa in Hnd. inversion Hnd as [|? ? Hatop Hnd']; subst.
  assert (Hak : ~ In a (addrs f h1 k)) by (intros Hin; apply Hatop; apply in_or_app; right; apply in_or_app; left; exact Hin).
  assert (Hn2 : h2 a = Some n1) by (apply (wr_keep c _ h1 h2 a n1 Hwr Hn1); left; exact Hak).
  rewrite Hk in HF. apply Forall2_app_inv_l in HF. destruct HF as (d1 & d2' & HF1 & HF2 & ->).
  inversion HF2 as [|? ck ? d2 Hkc HF2']; subst. clear HF2.
  assert (Hside : forall l d, Forall2 (fun k0 c0 => abs f h1 k0 = Some c0) l d ->
            (forall x, In x (flat_map (addrs f h1) l) -> ~ In x (addrs f h1 k)) ->
            Forall2 (fun k0 c0 => abs f h2 k0 = Some c0) l d /\ flat_map (addrs f h2) l = flat_map (addrs f h1) l).
  { intros l d HFl. induction HFl as [|k0 c0 l d Hk0 _ IHl]; intros Hdis; [split; [constructor|reflexivity]|].
    destruct (wr_frame c _ h1 h2 f k0 c0 Hwr Hk0) as [A B].
    { intros x n Hx _. left. apply Hdis. cbn [flat_map]. apply in_or_app. left. exact Hx. }
    destruct IHl as [C D]; [intros x Hx; apply Hdis; cbn [flat_map]; apply in_or_app; right; exact Hx|].
    split; [constructor; assumption|]. cbn [flat_map]. rewrite B, D. reflexivity. }
  destruct (Hside l1 d1 HF1) as [HF1' Hfm1].
  { intros x Hx Hxk. apply (proj1 (NoDup_mid _ _ _ Hnd' x Hxk)), Hx. }
  destruct (Hside l2 d2 HF2') as [HF2'' Hfm2].
  { intros x Hx Hxk. apply (proj2 (NoDup_mid _ _ _ Hnd' x Hxk)), Hx. }
  assert (Hlen : length d1 = length l1) by (symmetry; apply (Forall2_len _ _ _ HF1)).
  assert (Hset : set_at (d1 ++ ck :: d2) (length l1) c' = d1 ++ c' :: d2) by (rewrite <- Hlen; apply set_at_app).
  assert (Hfpa2 : addrs (S f) h2 a = a :: flat_map (addrs f h1) l1 ++ addrs f h2 k ++ flat_map (addrs f h1) l2).
  { cbn [addrs]. rewrite Hn2, Hk, flat_map_app'. cbn [flat_map]. rewrite Hfm1, Hfm2. reflexivity. }
  split; [exact Hn2|]. split.
  - rewrite Hset. apply abs_S. exists n1, (d1 ++ c' :: d2). split; [exact Hn2|]. split; [|reflexivity].
    rewrite Hk. apply F2_app; [exact HF1'|constructor; [exact Hc'|exact HF2'']].
  - split.
    + apply (wr_mono c (addrs f h1 k)); [|exact Hwr]. intros x Hx. rewrite Hfpa. right. apply in_or_app. right. apply in_or_app. left. exact Hx.
    + intros x Hx. rewrite Hfpa2 in Hx. rewrite Hfpa. destruct Hx as [<-|Hx]; [left; left; reflexivity|].
      apply in_app_or in Hx. destruct Hx as [Hx|Hx]; [left; right; apply in_or_app; left; exact Hx|].
      apply in_app_or in Hx. destruct Hx as [Hx|Hx]; [|left; right; apply in_or_app; right; apply in_or_app; right; exact Hx].
      destruct (Hfp x Hx) as [Hx'|Hx']; [left; right; apply in_or_app; right; apply in_or_app; left; exact Hx'|right; exact Hx'].
Qed.

(* ---------------- the functional node between maybeSplitChild and the descent ---------------- *)
Lemma Forall_insert_at {A} (P : A -> Prop) l i x : Forall P l -> P x -> Forall P (insert_at l i x).
Proof.
  intros H Hx. unfold insert_at. apply Forall_app. split; [rewrite <- (firstn_skipn i l) in H; apply Forall_app in H; tauto|].
  constructor; [exact Hx|]. rewrite <- (firstn_skipn i l) in H. apply Forall_app in H. tauto.
Qed.
Lemma Forall_set_at' {A} (P : A -> Prop) l i x : Forall P l -> P x -> Forall P (set_at l i x).
Proof.
  intros H Hx. unfold set_at. apply Forall_app. split; [rewrite <- (firstn_skipn i l) in H; apply Forall_app in H; tauto|].
  constructor; [exact Hx|]. rewrite <- (firstn_skipn (S i) l) in H. apply Forall_app in H. tauto.
Qed.

Lemma split_node_flat (F : inode -> list item) its cs i c1 c2 mid :
  length cs = S (length its) -> i <= length its -> F (nth i cs dinode) = F c1 ++ mid :: F c2 ->
  inter F (insert_at its i mid) (insert_at (set_at cs i c1) (S i) c2) = inter F its cs.
Proof.
  intros Hl Hi HF. set (a := firstn i its). set (b := skipn i its).
  assert (Hits : its = a ++ b) by (symmetry; apply firstn_skipn).
  assert (Ha : length a = i) by (apply firstn_length_le, Hi).
  destruct (node_decomp' F its cs a b Hits Hl) as (ca & c & cb & Hch & Hca & Hcb & Hdec).
  assert (Hnth : nth i cs dinode = c) by (subst cs; apply nth_app_len'; lia). rewrite Hnth in HF.
  rewrite Hdec, HF. rewrite Hits at 1. rewrite insert_at_app by exact Ha.
  subst cs. rewrite (set_at_app' ca c cb c1 i ltac:(lia)).
  replace (ca ++ c1 :: cb) with ((ca ++ [c1]) ++ cb) by now rewrite <- app_assoc.
  rewrite insert_at_app by (rewrite app_length; cbn; lia). rewrite <- app_assoc. cbn [app].
  rewrite flat_node3 by lia. rewrite <- !app_assoc. reflexivity.
Qed.

Section InsSim.
Variable minI : nat.
Hypothesis minI_pos : 1 <= minI.
Notation maxI := (maxI_of minI).

(* a full child i of a well-formed node is split: what the node looks like before the descent *)
Lemma mid_node_inv hh its cs i : wf minI (S hh) (INode its cs) -> StronglySorted klt (iflat (S (S hh)) (INode its cs)) ->
  i <= length its -> length (iitems (nth i cs dinode)) = maxI ->
  let mid := fst (fst (isplit (nth i cs dinode) minI)) in
  let c1 := snd (fst (isplit (nth i cs dinode) minI)) in let c2 := snd (isplit (nth i cs dinode) minI) in
  let N := INode (insert_at its i mid) (insert_at (set_at cs i c1) (S i) c2) in
  P minI hh c1 /\ P minI hh c2 /\ shaped (S hh) N /\ occ minI (S hh) N /\
  iflat (S (S hh)) N = iflat (S (S hh)) (INode its cs) /\
  iflat (S hh) (nth i cs dinode) = iflat (S hh) c1 ++ mid :: iflat (S hh) c2.
Proof.
  intros Hwf Hs Hi Hfull. apply node_P in Hwf. destruct Hwf as [Hl HP].
  assert (Hic : i < length cs) by lia.
  assert (HPc : P minI hh (nth i cs dinode)) by (rewrite Forall_forall in HP; apply HP, nth_In, Hic).
  pose proof (split_P minI minI_pos hh _ HPc Hfull) as Hsp.
  assert (Hidx : minI < length (iitems (nth i cs dinode))) by (rewrite Hfull; unfold maxI_of; lia).
  pose proof (split_flat hh _ minI (shaped_aligned hh _ (proj1 HPc)) Hidx) as Hsf.
  destruct (isplit (nth i cs dinode) minI) as [[mid c1] c2]. cbn [fst snd]. destruct Hsp as (HP1 & HP2 & L1 & L2). destruct Hsf as [Hsf _].
  split; [exact HP1|]. split; [exact HP2|].
  assert (HPs : Forall (P minI hh) (insert_at (set_at cs i c1) (S i) c2)) by (apply Forall_insert_at; [apply Forall_set_at'; assumption|exact HP2]).
  assert (Hlen : length (insert_at (set_at cs i c1) (S i) c2) = S (length (insert_at its i mid))).
  { rewrite !length_insert_at; rewrite ?length_set_at; lia. }
  split; [split; [exact Hlen|eapply Forall_impl; [|exact HPs]; intros x Hx; exact (proj1 Hx)]|].
  split; [cbn [occ ichildren]; eapply Forall_impl; [|exact HPs]; intros x Hx; exact (proj1 (proj2 Hx))|].
  split; [|exact Hsf]. rewrite !flat_S. cbn [iitems ichildren]. apply split_node_flat; assumption.
Qed.

(* the invariants of child i of a well-formed sorted node *)
Lemma child_inv hh its cs i : wf minI (S hh) (INode its cs) -> StronglySorted klt (iflat (S (S hh)) (INode its cs)) ->
  i <= length its -> wf minI hh (nth i cs dinode) /\ StronglySorted klt (iflat (S hh) (nth i cs dinode)) /\ length cs = S (length its).
Proof.
  intros Hwf Hs Hi. apply node_P in Hwf. destruct Hwf as [Hl HP].
  assert (HPc : P minI hh (nth i cs dinode)) by (rewrite Forall_forall in HP; apply HP, nth_In; lia).
  destruct HPc as (A & (_ & B) & (_ & C)). split; [split; [exact A|split; [exact B|exact C]]|]. split; [|exact Hl].
  rewrite flat_S in Hs. cbn [iitems ichildren] in Hs. apply (sorted_child (iflat (S hh)) its cs i Hl Hi Hs).
Qed.
End InsSim.

Section InsSim2.
Variable minI : nat.
Hypothesis minI_pos : 1 <= minI.
Notation maxI := (maxI_of minI).
Variable c : ctx.

Definition ins_post (hh : nat) (s : hst) (a : addr) (s' : hst) (n' : inode) : Prop :=
  good_alloc s' /\ abs (S hh) (hp s') a = Some n' /\ (exists na', hp s' a = Some na' /\ own na' = c) /\
  step_ok c (addrs (S hh) (hp s) a) (hp s) (hp s') (addrs (S hh) (hp s') a).

Definition ins_spec (fuel : nat) : Prop := forall hh s a na n (it : item) n' r,
  good_alloc s -> hp s a = Some na -> own na = c ->
  abs (S hh) (hp s) a = Some n -> wf minI hh n -> StronglySorted klt (iflat (S hh) n) ->
  iinsert fuel maxI n it = Some (n', r) ->
  exists s', h_insert fuel maxI c s a it = Some (s', r) /\ ins_post hh s a s' n'.

(* mutableChild(j), then the insert into that child, seen from the parent *)
Lemma descend f : ins_spec f -> forall hh s a na cs j (it : item) c' r,
  good_alloc s -> hp s a = Some na -> own na = c ->
  abs (S (S hh)) (hp s) a = Some (INode (hits na) cs) ->
  shaped (S hh) (INode (hits na) cs) -> occ minI (S hh) (INode (hits na) cs) ->
  StronglySorted klt (iflat (S (S hh)) (INode (hits na) cs)) ->
  j < length (kids na) -> wf minI hh (nth j cs dinode) -> StronglySorted klt (iflat (S hh) (nth j cs dinode)) ->
  iinsert f maxI (nth j cs dinode) it = Some (c', r) ->
  exists s2, h_insert f maxI c (fst (h_mutable_child s c a j)) (snd (h_mutable_child s c a j)) it = Some (s2, r) /\
             ins_post (S hh) s a s2 (INode (hits na) (set_at cs j c')).
Proof.
  intros IHf hh s a na cs j it c' r Hg Hna Hoa Ha Hsh Hoc Hsort Hj Hwfc Hsc Hi.
  destruct (h_mutable_child_spec c s a hh na cs j Hg Hna Hoa Ha Hj) as (Hg1 & Hna1 & Ha1 & (nk & Hnk & Hok) & Hk1 & Hka & Hwr1 & Hfp1 & _).
  destruct (h_mutable_child s c a j) as [s1 k]. cbn [fst snd] in *.
  destruct (IHf hh s1 k nk _ it c' r Hg1 Hnk Hok Hk1 Hwfc Hsc Hi) as (s2 & E2 & Hg2 & Hk2 & _ & Hstep2).
  exists s2. split; [exact E2|].
  set (n1 := {| own := own na; hits := hits na; kids := set_at (kids na) j k |}) in *.
  pose proof (fp_nodup minI minI_pos (S hh) (hp s1) a _ Ha1 Hsh Hoc Hsort) as Hnd.
  destruct (after_child c (S hh) (hp s1) (hp s2) a n1 cs (firstn j (kids na)) k (skipn (S j) (kids na)) c' Ha1 Hna1 eq_refl Hnd Hstep2 Hk2)
    as (Hn2 & Ha2 & Hstep_a).
  rewrite firstn_length_le in Ha2 by lia.
  split; [exact Hg2|]. split; [exact Ha2|]. split; [exists n1; split; [exact Hn2|exact Hoa]|].
  apply (step_trans c _ (addrs (S (S hh)) (hp s1) a) _ (hp s) (hp s1) (hp s2)); [|exact Hstep_a].
  split; [|exact Hfp1]. apply (wr_mono c [a]); [|exact Hwr1]. intros x [<-|[]]. apply (addrs_self (S hh) (hp s) a na Hna).
Qed.

Lemma insert_set_decomp {A} (l : list A) i x y : i < length l ->
  exists a b, length a = i /\ insert_at (set_at l i x) (S i) y = a ++ x :: y :: b.
Proof.
  intros Hi. destruct (split_at l i Hi) as (a & z & b & -> & Ha). exists a, b. split; [exact Ha|].
  rewrite (set_at_app' a z b x i Ha). replace (a ++ x :: b) with ((a ++ [x]) ++ b) by now rewrite <- app_assoc.
  rewrite insert_at_app by (rewrite app_length; cbn; lia). now rewrite <- app_assoc.
Qed.
Lemma nth_insert_set_lo {A} (l : list A) i x y d : i < length l -> nth i (insert_at (set_at l i x) (S i) y) d = x.
Proof. intros Hi. destruct (insert_set_decomp l i x y Hi) as (a & b & Ha & ->). apply nth_app_len', Ha. Qed.
Lemma nth_insert_set_hi {A} (l : list A) i x y d : i < length l -> nth (S i) (insert_at (set_at l i x) (S i) y) d = y.
Proof. intros Hi. destruct (insert_set_decomp l i x y Hi) as (a & b & Ha & ->). apply nth_app_len_S', Ha. Qed.
Lemma in_flat_map_insert_at {A B} (g : A -> list B) l i y x : In x (flat_map g (insert_at l i y)) -> In x (g y) \/ In x (flat_map g l).
Proof.
  intros H. apply in_flat_map in H. destruct H as (k & Hk & Hx). apply in_insert_at in Hk. destruct Hk as [->|Hk]; [left; exact Hx|].
  right. apply in_flat_map. exists k. auto.
Qed.

Theorem h_insert_sim : forall fuel, ins_spec fuel.
Proof.
  induction fuel as [|f IHf]; intros hh s a na n it n' r Hg Hna Hoa Ha Hwf Hsort H; [discriminate|].
  destruct n as [its cs]. pose proof Ha as Ha0. apply abs_S in Ha. destruct Ha as (n0 & cs0 & Hn & HF & E).
  rewrite Hna in Hn. inversion Hn; subst n0. inversion E; subst its cs0. clear Hn E.
  pose proof (top_not_below hh (hp s) a _ na Ha0 Hna) as Htop.
  destruct (alloc_lt s a Hg ltac:(congruence)) as [Hlt Hnfl].
  cbn [iinsert iitems ichildren] in H. cbn [h_insert]. rewrite (getn_some s a na Hna).
  destruct (ifind (hits na) (key it)) as [i found] eqn:Ef. destruct (find_bound _ _ _ _ Ef) as [Hi Hfi].
  assert (Hself : addrs (S hh) (hp s) a = a :: flat_map (addrs hh (hp s)) (kids na)) by (cbn [addrs]; rewrite Hna; reflexivity).
  (* an in-place change of the items of the node at a *)
  assert (Hput : forall its', ins_post hh s a (hput s a {| own := own na; hits := its'; kids := kids na |}) (INode its' cs)).
  { intros its'. set (n1 := {| own := own na; hits := its'; kids := kids na |}).
    destruct (put_top hh (hp s) a n1 cs HF Htop) as [Hab Hfp]. unfold ins_post. cbn [hput hp].
    split; [apply hput_good; assumption|]. split; [exact Hab|]. split; [exists n1; split; [apply hset_same|exact Hoa]|].
    split; [apply (wr_hset_owned c _ (hp s) a na n1 Hna Hoa); [apply (addrs_self hh (hp s) a na Hna)|exact Hoa]|].
    intros x Hx. left. rewrite Hfp in Hx. rewrite Hself. exact Hx. }
  destruct found.
  { inversion H; subst n' r. eexists. split; [reflexivity|]. apply Hput. }
  rewrite <- (is_nil_F2 _ _ _ HF) in H. destruct (is_nil (kids na)) eqn:En.
  { apply is_nil_true in En. assert (cs = []) by (rewrite En in HF; inversion HF; reflexivity). subst cs.
    inversion H; subst n' r. eexists. split; [reflexivity|]. rewrite <- En. apply Hput. }
  (* internal node *)
  destruct hh as [|hh]; [exfalso; destruct Hwf as (Hs0 & _); cbn in Hs0; subst cs; inversion HF as [E0|]; rewrite <- E0 in En; discriminate|].
  pose proof Hwf as (Hsh & Hoc & _).
  destruct (child_inv minI minI_pos hh (hits na) cs i Hwf Hsort Hi) as (Hwfc & Hsc & Hl).
  pose proof (Forall2_len _ _ _ HF) as Hlen.
  assert (Hic : i < length (kids na)) by lia.
  unfold nth_inode in H. set (cf := nth i cs dinode) in *.
  assert (Hc : abs (S hh) (hp s) (nth i (kids na) 0) = Some cf) by (apply (F2_nth _ _ _ i 0 dinode HF Hic)).
  assert (Hcl : length (hits (getn s (nth i (kids na) 0))) = length (iitems cf)).
  { apply abs_S in Hc. destruct Hc as (nc & csc & Hnc & _ & E). rewrite (getn_some _ _ _ Hnc), E. reflexivity. }
  rewrite Hcl. destruct (Nat.ltb (length (iitems cf)) maxI) eqn:Efull.
  { (* room in the child *)
    destruct (iinsert f maxI cf it) as [[c' r']|] eqn:Ei; [|discriminate]. inversion H; subst n' r; clear H.
    destruct (descend f IHf hh s a na cs i it c' r' Hg Hna Hoa Ha0 Hsh Hoc Hsort Hic Hwfc Hsc Ei) as (s2 & E2 & Hpost).
    destruct (h_mutable_child s c a i) as [s1 k]. cbn [fst snd] in E2. exists s2. split; [exact E2|exact Hpost]. }
  (* the child is full: maybeSplitChild *)
  apply Nat.ltb_ge in Efull.
  assert (Hfull : length (iitems cf) = maxI).
  { assert (Hics : i < length cs) by lia. destruct (proj1 (node_P minI hh (hits na) cs) Hwf) as [_ HP]. rewrite Forall_forall in HP.
    destruct (HP cf (nth_In cs dinode Hics)) as (_ & _ & (Hle & _)). lia. }
  assert (Hhalf : Nat.div maxI 2 = minI) by (unfold maxI_of; apply half_odd).
  rewrite Hhalf in *.
  destruct (mid_node_inv minI minI_pos hh (hits na) cs i Hwf Hsort Hi Hfull) as (HP1 & HP2 & HshN & HocN & HflN & Hsf).
  fold cf in HP1, HP2, HshN, HocN, HflN, Hsf.
  destruct (h_mutable_child_spec c s a hh na cs i Hg Hna Hoa Ha0 Hic) as (Hg1 & Hna1 & Ha1 & (nk & Hnk & Hok) & Hk1 & Hka & Hwr1 & Hfp1 & _).
  destruct (h_mutable_child s c a i) as [s1 k]. cbn [fst snd] in *. fold cf in Hk1.
  set (n1 := {| own := own na; hits := hits na; kids := set_at (kids na) i k |}) in *.
  assert (Ecf : exists csk, cf = INode (hits nk) csk).
  { pose proof Hk1 as Hk1'. apply abs_S in Hk1'. destruct Hk1' as (nk' & csk & Hnk' & _ & E). rewrite Hnk in Hnk'. inversion Hnk'; subst nk'. exists csk. exact E. }
  destruct Ecf as [csk Ecf].
  assert (Hk1' : abs (S hh) (hp s1) k = Some (INode (hits nk) csk)) by (rewrite <- Ecf; exact Hk1).
  destruct (h_split_spec c s1 k hh nk csk minI Hg1 Hnk Hok Hk1') as (Hg2 & Emid & Hb1 & Hbk & Hk2 & Hb2 & _ & (nb & Hnb & Hob) & Hwr2 & Hfp2 & Hoth2).
  rewrite <- Ecf in Emid, Hk2, Hb2.
  destruct (h_split s1 c k minI) as [[s2 mid] b]. cbn [fst snd] in *.
  destruct (isplit cf minI) as [[midf c1] c2] eqn:Esp. cbn [fst snd] in *. subst midf.
  (* the parent after the child was split in place *)
  pose proof (fp_nodup minI minI_pos (S hh) (hp s1) a _ Ha1 Hsh Hoc Hsort) as Hnd1.
  assert (Hstepk : step_ok c (addrs (S hh) (hp s1) k) (hp s1) (hp s2) (addrs (S hh) (hp s2) k)).
  { split; [apply (wr_mono c [k]); [intros x [<-|[]]; apply (addrs_self hh (hp s1) k nk Hnk)|exact Hwr2]|].
    intros x Hx. destruct (Hfp2 x (or_introl Hx)) as [->|Hx']; [right; exact Hb1|left; exact Hx']. }
  destruct (after_child c (S hh) (hp s1) (hp s2) a n1 cs (firstn i (kids na)) k (skipn (S i) (kids na)) c1 Ha1 Hna1 eq_refl Hnd1 Hstepk Hk2)
    as (Hn2 & Ha2 & Hstep2).
  rewrite firstn_length_le in Ha2 by lia.
  rewrite (getn_some s2 a n1 Hn2). cbn [own hits kids n1].
  set (n3 := {| own := own na; hits := insert_at (hits na) i mid; kids := insert_at (set_at (kids na) i k) (S i) b |}).
  set (ch' := insert_at (set_at cs i c1) (S i) c2) in *.
  assert (HF3 : Forall2 (fun k0 c0 => abs (S hh) (hp s2) k0 = Some c0) (kids n3) ch').
  { pose proof Ha2 as Ha2'. apply abs_S in Ha2'. destruct Ha2' as (n2' & cs2 & Hn2' & HF2 & E). rewrite Hn2 in Hn2'. inversion Hn2'; subst n2'.
    inversion E; subst cs2. apply F2_insert_at; [exact HF2|exact Hb2]. }
  pose proof (top_not_below (S hh) (hp s2) a _ n1 Ha2 Hn2) as Htop2.
  assert (Hab : a <> b) by (intros ->; rewrite Hna1 in Hb1; discriminate).
  assert (Hkin1 : forall x, In x (addrs (S hh) (hp s1) k) -> In x (flat_map (addrs (S hh) (hp s1)) (kids n1))).
  { intros x Hx. apply in_flat_map. exists k. split; [|exact Hx]. cbn [kids n1]. unfold set_at. apply in_or_app. right. left. reflexivity. }
  pose proof (top_not_below (S hh) (hp s1) a _ n1 Ha1 Hna1) as Htop1.
  assert (Hnin3 : ~ In a (flat_map (addrs (S hh) (hp s2)) (kids n3))).
  { intros Hin. cbn [kids n3] in Hin. apply in_flat_map_insert_at in Hin. destruct Hin as [Hin|Hin]; [|exact (Htop2 Hin)].
    destruct (Hfp2 a (or_intror Hin)) as [E|Hx]; [exact (Hab E)|]. exact (Htop1 (Hkin1 a Hx)). }
  destruct (put_top (S hh) (hp s2) a n3 ch' HF3 Hnin3) as [Ha3 Hfp3].
  destruct (alloc_lt s2 a Hg2 ltac:(congruence)) as [Hlt2 Hnfl2].
  set (s3 := hput s2 a n3) in *.
  assert (Hg3 : good_alloc s3) by (apply hput_good; assumption).
  assert (Hn3 : hp s3 a = Some n3) by apply hset_same.
  change (hp s3) with (hset (hp s2) a n3) in Ha3, Hfp3 |- *. change (hset (hp s2) a n3) with (hp s3) in Ha3, Hfp3 |- *.
  (* from the start to s3, seen from a *)
  assert (Hstep3 : step_ok c (addrs (S (S hh)) (hp s) a) (hp s) (hp s3) (addrs (S (S hh)) (hp s3) a)).
  { apply (step_trans c _ (addrs (S (S hh)) (hp s1) a) _ (hp s) (hp s1) (hp s3)).
    - split; [|exact Hfp1]. apply (wr_mono c [a]); [|exact Hwr1]. intros x [<-|[]]. apply (addrs_self (S hh) (hp s) a na Hna).
    - split.
      + apply (wr_trans c _ (addrs (S (S hh)) (hp s1) a) (hp s1) (hp s2) (hp s3) (proj1 Hstep2)); [|intros x Hx; left; exact Hx].
        apply (wr_hset_owned c _ (hp s2) a n1 n3 Hn2 Hoa); [apply (addrs_self (S hh) (hp s1) a n1 Hna1)|exact Hoa].
      + intros x Hx. rewrite Hfp3 in Hx. destruct Hx as [<-|Hx]; [left; apply (addrs_self (S hh) (hp s1) a n1 Hna1)|].
        cbn [kids n3] in Hx. apply in_flat_map_insert_at in Hx. destruct Hx as [Hx|Hx].
        * destruct (Hfp2 x (or_intror Hx)) as [->|Hx']; [right; exact Hb1|]. left. cbn [addrs]. rewrite Hna1. right. apply Hkin1, Hx'.
        * apply (proj2 Hstep2). cbn [addrs]. rewrite Hn2. right. exact Hx. }
  assert (HsortN : StronglySorted klt (iflat (S (S hh)) (INode (hits n3) ch'))) by (cbn [hits n3]; rewrite HflN; exact Hsort).
  assert (Hlen3 : length (kids n3) = S (S (length (hits na)))).
  { cbn [kids n3]. rewrite length_insert_at; rewrite length_set_at; lia. }
  destruct (key it <? key mid)%Z eqn:Ekm.
  { (* into the left half *)
    destruct (iinsert f maxI c1 it) as [[c' r']|] eqn:Ei; [|discriminate]. inversion H; subst n' r; clear H.
    assert (Hnth : nth i ch' dinode = c1) by (apply nth_insert_set_lo; lia).
    destruct HP1 as (A1 & (_ & B1) & (_ & C1)).
    assert (Hs1 : StronglySorted klt (iflat (S hh) c1)) by (rewrite Hsf in Hsc; apply ss_app_inv_app in Hsc; tauto).
    destruct (descend f IHf hh s3 a n3 ch' i it c' r' Hg3 Hn3 Hoa Ha3 HshN HocN HsortN ltac:(lia)) as (s5 & E5 & Hg5 & Ha5 & Hn5 & Hstep5);
      [rewrite Hnth; split; [exact A1|split; [exact B1|exact C1]]|rewrite Hnth; exact Hs1|rewrite Hnth; exact Ei|].
    destruct (h_mutable_child s3 c a i) as [s4 k4]. cbn [fst snd] in E5. exists s5. split; [exact E5|].
    split; [exact Hg5|]. split; [exact Ha5|]. split; [exact Hn5|]. apply (step_trans c _ _ _ _ _ _ Hstep3 Hstep5). }
  destruct (key mid <? key it)%Z eqn:Emk.
  { (* into the right half *)
    destruct (iinsert f maxI c2 it) as [[c' r']|] eqn:Ei; [|discriminate]. inversion H; subst n' r; clear H.
    assert (Hnth : nth (S i) ch' dinode = c2) by (apply nth_insert_set_hi; lia).
    destruct HP2 as (A2 & (_ & B2) & (_ & C2)).
    assert (Hs2 : StronglySorted klt (iflat (S hh) c2)).
    { rewrite Hsf in Hsc. apply ss_app_inv_app in Hsc. destruct Hsc as [_ Hsc]. inversion Hsc; assumption. }
    destruct (descend f IHf hh s3 a n3 ch' (S i) it c' r' Hg3 Hn3 Hoa Ha3 HshN HocN HsortN ltac:(lia)) as (s5 & E5 & Hg5 & Ha5 & Hn5 & Hstep5);
      [rewrite Hnth; split; [exact A2|split; [exact B2|exact C2]]|rewrite Hnth; exact Hs2|rewrite Hnth; exact Ei|].
    destruct (h_mutable_child s3 c a (S i)) as [s4 k4]. cbn [fst snd] in E5. exists s5. split; [exact E5|].
    split; [exact Hg5|]. split; [exact Ha5|]. split; [exact Hn5|]. apply (step_trans c _ _ _ _ _ _ Hstep3 Hstep5). }
  (* the item has the key of the separator that just moved up: replaced in place *)
  inversion H; subst n' r; clear H. rewrite (getn_some s3 a n3 Hn3). cbn [own hits kids n3].
  eexists. split; [reflexivity|].
  set (n4 := {| own := own na; hits := set_at (insert_at (hits na) i mid) i it; kids := insert_at (set_at (kids na) i k) (S i) b |}).
  pose proof (top_not_below (S hh) (hp s3) a _ n3 Ha3 Hn3) as Htop3.
  pose proof Ha3 as Ha3'. apply abs_S in Ha3'. destruct Ha3' as (n3' & cs3 & Hn3' & HF3' & E). rewrite Hn3 in Hn3'. inversion Hn3'; subst n3'. inversion E; subst cs3.
  destruct (put_top (S hh) (hp s3) a n4 ch' HF3' Htop3) as [Ha4 Hfp4].
  destruct (alloc_lt s3 a Hg3 ltac:(congruence)) as [Hlt3 Hnfl3].
  split; [apply hput_good; assumption|]. split; [exact Ha4|]. split; [exists n4; split; [apply hset_same|exact Hoa]|].
  apply (step_trans c _ _ _ _ _ _ Hstep3). split.
  - apply (wr_hset_owned c _ (hp s3) a n3 n4 Hn3 Hoa); [apply (addrs_self (S hh) (hp s3) a n3 Hn3)|exact Hoa].
  - intros x Hx. left. cbn [hput hp] in Hx. rewrite Hfp4 in Hx. cbn [addrs]. rewrite Hn3. exact Hx.
Qed.
End InsSim2.
