(* C08 bitmap1024: what the driver evaluates on every observed case *)
From Coq Require Import List Bool ZArith NArith Lia.
Require Export BitSet C08_Model C08_Spec.
Import ListNotations.
Open Scope Z_scope.

(* ---------------- the cases the harness reports ---------------- *)
Inductive case :=
| CIter64 (ty : ity) (rev : bool) (magic : Z) (w : N) (s : list Z) (pos add n : Z) (o : out)
| CIter1024 (ty : ity) (rev : bool) (magic : Z) (ws : list N) (s : list Z) (pos add n : Z) (o : out)
| CGet64 (ty : ity) (rev : bool) (magic : Z) (w : N) (n : Z) (o : gout)
| CGet1024 (ty : ity) (rev : bool) (magic : Z) (ws : list N) (n : Z) (o : gout)
| CPoint (k : pkind) (ws : list N) (i : Z) (r : list N)
| CLen (ws : list N) (len nlen : Z)
| CReverse (a r : list N)
| CBin (k : bkind) (a b r : list N)
| CEqual (a b : list N) (r : bool)
| CWord (k : wkind) (w : N) (arg : Z) (r : N)
| CWordLen (w : N) (len nlen : Z) (full : bool).

(* the initial slice content the harness uses (kept symbolic in the case files to keep them small) *)
Definition fill (ty : ity) (len seed : Z) : list Z := map (fun j => norm ty (seed + 7 * j)) (zseq 0 (Z.to_nat len)).

(* ---------------- accept: the implementation did exactly what the model does ---------------- *)
Definition case_accept (c : case) : bool :=
  match c with
  | CIter64 ty rev magic w s pos add n o => wfw w && out_eqb o (iter64 ty add rev magic w s pos n)
  | CIter1024 ty rev magic ws s pos add n o => wfws ws && out_eqb o (iter1024 ty rev magic ws s pos add n)
  | CGet64 ty rev magic w n o => wfw w && gout_eqb o (getn64 ty rev magic w n)
  | CGet1024 ty rev magic ws n o => wfws ws && gout_eqb o (getn1024 ty rev magic ws n)
  | CPoint k ws i r => wfws ws && nl_eqb r (point k ws i)
  | CLen ws len nlen => wfws ws && Z.eqb len (len1024 ws) && Z.eqb nlen (nlen1024 ws)
  | CReverse a r => wfws a && nl_eqb r (reverse1024 a)
  | CBin k a b r => wfws a && wfws b && nl_eqb r (binop k a b)
  | CEqual a b r => wfws a && wfws b && Bool.eqb r (equal1024 a b)
  | CWord k w arg r => wfw w && (0 <=? arg) && N.eqb r (wordop k w arg)
  | CWordLen w len nlen full => wfw w && Z.eqb len (len64 w) && Z.eqb nlen (nlen64 w) && Bool.eqb full (full64 w)
  end.

(* ---------------- holds: the property's clauses on the observation ---------------- *)
Definition count_if (p : Z -> bool) (l : list Z) : Z := Z.of_nat (length (filter p l)).
Definition same_set (p q : Z -> bool) (dom : list Z) : bool := forallb (fun j => Bool.eqb (p j) (q j)) dom.
Definition in1024 (i : Z) : bool := (0 <=? i) && (i <? 1024).
Definition dom1024 := zseq 0 1024.
Definition dom64 := zseq 0 64.

Definition case_holds (c : case) : bool :=
  match c with
  | CIter64 ty rev magic w s pos add n o => wfw w && out_eqb o (spec_iter ty rev (members64 w) s pos add n)
  | CIter1024 ty rev magic ws s pos add n o => wfws ws && out_eqb o (spec_iter ty rev (members1024 ws) s pos add n)
  | CGet64 ty rev magic w n o => wfw w && gout_eqb o (spec_getn ty rev (members64 w) n)
  | CGet1024 ty rev magic ws n o => wfws ws && gout_eqb o (spec_getn ty rev (members1024 ws) n)
  | CPoint k ws i r =>
      wfws ws && Nat.eqb (length r) 16 &&
      same_set (mem1024 r)
        (fun j => match k with
                  | PSetI32 | PSetI16 => (in1024 i && Z.eqb j i) || mem1024 ws j
                  | PUnsetI32 | PUnsetI16 => negb (in1024 i && Z.eqb j i) && mem1024 ws j
                  end) dom1024
  | CLen ws len nlen =>
      wfws ws && Z.eqb len (count_if (mem1024 ws) dom1024) && Z.eqb nlen (count_if (fun j => negb (mem1024 ws j)) dom1024)
  | CReverse a r => wfws a && Nat.eqb (length r) 16 && same_set (mem1024 r) (fun j => negb (mem1024 a j)) dom1024
  | CBin k a b r =>
      wfws a && wfws b && Nat.eqb (length r) 16 &&
      same_set (mem1024 r)
        (fun j => match k with
                  | BAnd => mem1024 a j && mem1024 b j
                  | BOr => mem1024 a j || mem1024 b j
                  | BOrThenReverse => negb (mem1024 a j || mem1024 b j)
                  end) dom1024
  | CEqual a b r => wfws a && wfws b && Bool.eqb r (same_set (mem1024 a) (mem1024 b) dom1024)
  | CWord k w arg r =>
      wfw w && (0 <=? arg) &&
      same_set (mem64 r)
        (fun j => match k with
                  | WSet => ((arg <=? 63) && Z.eqb j arg) || mem64 w j
                  | WUnset => negb ((arg <=? 63) && Z.eqb j arg) && mem64 w j
                  | WAnd => mem64 w j && mem64 (Z.to_N arg) j
                  | WOr => mem64 w j || mem64 (Z.to_N arg) j
                  | WReverse => negb (mem64 w j)
                  end) dom64
  | CWordLen w len nlen full =>
      wfw w && Z.eqb len (count_if (mem64 w) dom64) && Z.eqb nlen (count_if (fun j => negb (mem64 w j)) dom64)
      && Bool.eqb full (Z.eqb (count_if (mem64 w) dom64) 64)
  end.
