(* C08 bitmap1024: what the driver evaluates on every observed case *)
From Coq Require Import List Bool ZArith NArith Lia.
Require Export BitSet C08_Model C08_Spec C08_Prog C08_Lit.
Require Import C08_Word C08_Iter C08_Set.
Import ListNotations.
Open Scope Z_scope.

(* ---------------- the cases the harness reports ---------------- *)
Inductive case :=
| CIter64 (ty : ity) (rev : bool) (magic : Z) (w : N) (s : list Z) (pos add n : Z) (o : out)
| CIter1024 (ty : ity) (rev : bool) (magic : Z) (ws : list N) (s : list Z) (pos add n : Z) (o : out)
| CGet64 (ty : ity) (rev : bool) (magic : Z) (w : N) (n : Z) (o : gout)
| CGet1024 (ty : ity) (rev : bool) (magic : Z) (ws : list N) (n : Z) (o : gout)
| CPoint (k : pkind) (ws : list N) (i : Z) (r : list N)
| CLen (ws : list N) (len nlen : Z)
| CReverse (a r : list N)
| CBin (k : bkind) (a b r : list N)
| CEqual (a b : list N) (r : bool)
| CWord (k : wkind) (w : N) (arg : Z) (r : N)
| CWordLen (w : N) (len nlen : Z) (full : bool)
(* a program over a pool of bitmaps; obs = every pool member's words after every step (C08_Prog.v) *)
| CProg (ops : list pop) (obs : list (list (list N))).

(* the initial slice content the harness uses (kept symbolic in the case files to keep them small) *)
Definition fill (ty : ity) (len seed : Z) : list Z := map (fun j => norm ty (seed + 7 * j)) (zseq 0 (Z.to_nat len)).

(* ---------------- accept: the implementation did exactly what the model does ---------------- *)
Definition case_accept (c : case) : bool :=
  match c with
  | CIter64 ty rev magic w s pos add n o => wfw w && out_eqb o (iter64 ty add rev magic w s pos n)
  | CIter1024 ty rev magic ws s pos add n o => wfws ws && out_eqb o (iter1024 ty rev magic ws s pos add n)
  | CGet64 ty rev magic w n o => wfw w && gout_eqb o (getn64 ty rev magic w n)
  | CGet1024 ty rev magic ws n o => wfws ws && gout_eqb o (getn1024 ty rev magic ws n)
  | CPoint k ws i r => wfws ws && nl_eqb r (point k ws i)
  | CLen ws len nlen => wfws ws && Z.eqb len (len1024 ws) && Z.eqb nlen (nlen1024 ws)
  | CReverse a r => wfws a && nl_eqb r (reverse1024 a)
  | CBin k a b r => wfws a && wfws b && nl_eqb r (binop k a b)
  | CEqual a b r => wfws a && wfws b && Bool.eqb r (equal1024 a b)
  | CWord k w arg r => wfw w && (0 <=? arg) && N.eqb r (wordop k w arg)
  | CWordLen w len nlen full => wfw w && Z.eqb len (len64 w) && Z.eqb nlen (nlen64 w) && Bool.eqb full (full64 w)
  | CProg ops obs => nlll_eqb obs (mrun ops [])
  end.

(* ---------------- holds: the property's clauses on the observation ---------------- *)
Definition case_holds (c : case) : bool :=
  match c with
  | CIter64 ty rev magic w s pos add n o => wfw w && out_eqb o (spec_iter ty rev (members64 w) s pos add n)
  | CIter1024 ty rev magic ws s pos add n o => wfws ws && out_eqb o (spec_iter ty rev (members1024 ws) s pos add n)
  | CGet64 ty rev magic w n o => wfw w && gout_eqb o (spec_getn ty rev (members64 w) n)
  | CGet1024 ty rev magic ws n o => wfws ws && gout_eqb o (spec_getn ty rev (members1024 ws) n)
  | CPoint k ws i r => wfws ws && Nat.eqb (length r) 16 && same_set (mem1024 r) (point_expect k ws i) dom1024
  | CLen ws len nlen =>
      wfws ws && Z.eqb len (count_if (mem1024 ws) dom1024) && Z.eqb nlen (count_if (fun j => negb (mem1024 ws j)) dom1024)
  | CReverse a r => wfws a && Nat.eqb (length r) 16 && same_set (mem1024 r) (fun j => negb (mem1024 a j)) dom1024
  | CBin k a b r => wfws a && wfws b && Nat.eqb (length r) 16 && same_set (mem1024 r) (bin_expect k a b) dom1024
  | CEqual a b r => wfws a && wfws b && Bool.eqb r (same_set (mem1024 a) (mem1024 b) dom1024)
  | CWord k w arg r => wfw w && (0 <=? arg) && same_set (mem64 r) (word_expect k w arg) dom64
  | CWordLen w len nlen full =>
      wfw w && Z.eqb len (count_if (mem64 w) dom64) && Z.eqb nlen (count_if (fun j => negb (mem64 w j)) dom64)
      && Bool.eqb full (Z.eqb (count_if (mem64 w) dom64) 64)
  | CProg ops obs => prog_ok obs (srun ops [])
  end.

(* ---------------- accept implies holds: the model meets the specification on every input ---------------- *)
Theorem case_sound : forall c, case_accept c = true -> case_holds c = true.
Proof.
  intros [ty rev magic w s pos add n o | ty rev magic ws s pos add n o | ty rev magic w n o | ty rev magic ws n o
         | k ws i r | ws len nlen | a r | k a b r | a b r | k w arg r | w len nlen full | ops obs];
    cbn [case_accept case_holds]; intros H.
  - apply andb_prop in H. destruct H as [Hw Ho]. apply out_eqb_eq in Ho. subst o. rewrite Hw. cbn [andb].
    rewrite (iter64_spec ty add rev magic w s pos n Hw). apply out_eqb_refl.
  - apply andb_prop in H. destruct H as [Hw Ho]. apply out_eqb_eq in Ho. subst o. rewrite Hw. cbn [andb].
    rewrite (iter1024_spec ty rev magic ws s pos add n Hw). apply out_eqb_refl.
  - apply andb_prop in H. destruct H as [Hw Ho]. apply gout_eqb_eq in Ho. subst o. rewrite Hw. cbn [andb].
    rewrite (getn64_spec ty rev magic w n Hw). apply gout_eqb_refl.
  - apply andb_prop in H. destruct H as [Hw Ho]. apply gout_eqb_eq in Ho. subst o. rewrite Hw. cbn [andb].
    rewrite (getn1024_spec ty rev magic ws n Hw). apply gout_eqb_refl.
  - apply andb_prop in H. destruct H as [Hw Hr]. apply nl_eqb_eq in Hr. subst r. rewrite Hw, point_length, point_spec. reflexivity.
  - apply andb_prop in H. destruct H as [H Hn]. apply andb_prop in H. destruct H as [Hw Hl].
    apply Z.eqb_eq in Hl. apply Z.eqb_eq in Hn. subst len nlen. rewrite Hw. cbn [andb].
    rewrite (len1024_members ws Hw), (nlen1024_nonmembers ws Hw). unfold count_if, members1024. fold dom1024.
    rewrite !Z.eqb_refl. reflexivity.
  - apply andb_prop in H. destruct H as [Hw Hr]. apply nl_eqb_eq in Hr. subst r. rewrite Hw. unfold reverse1024 at 1.
    rewrite to_list_length, reverse_set. reflexivity.
  - apply andb_prop in H. destruct H as [H Hr]. apply andb_prop in H. destruct H as [Ha Hb].
    apply nl_eqb_eq in Hr. subst r. rewrite Ha, Hb, binop_length, binop_set. reflexivity.
  - apply andb_prop in H. destruct H as [H Hr]. apply andb_prop in H. destruct H as [Ha Hb].
    rewrite Ha, Hb. cbn [andb]. rewrite <- (equal1024_spec a b Ha Hb). exact Hr.
  - apply andb_prop in H. destruct H as [H Hr]. apply andb_prop in H. destruct H as [Hw Ha].
    apply N.eqb_eq in Hr. subst r. rewrite Hw, Ha. cbn [andb]. apply wordop_spec. now apply Z.leb_le.
  - apply andb_prop in H. destruct H as [H Hf]. apply andb_prop in H. destruct H as [H Hn]. apply andb_prop in H. destruct H as [Hw Hl].
    apply Z.eqb_eq in Hl. apply Z.eqb_eq in Hn. subst len nlen. rewrite Hw. cbn [andb].
    rewrite <- (len64_count w Hw), <- (nlen64_count w Hw), !Z.eqb_refl. cbn [andb].
    rewrite (len64_count w Hw), <- (full64_count w Hw). exact Hf.
  - apply nlll_eqb_eq in H. subst obs. apply prog_sound. constructor.
Qed.
