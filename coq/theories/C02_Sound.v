(* C02: towards deriving the safety clauses of case_holds from model_matches alone.
   Frame facts: which caller's record a label can change, and that the multiset of keys a live caller is
   concerned with (registered pairs ++ chunks still to register) is fixed from FCall to the last FUnlock. *)
From Coq Require Import List Lia Bool Arith Permutation.
Require Import KeyLTS KeyAgree C02_Model C02_Table C02_Inv C02_Safety C02_Progress C02_Case.
Import ListNotations.

Definition actor (l : flabel) : option nat :=
  match l with FCall t _ _ | FReg t | FRelease t | FUnlock t => Some t | _ => None end.
Definition keys_of (q : treq) : list nat := map fst (tregd q) ++ concat (todo_of q).

Section Frame.
Variable sh : nat -> nat.

(* a label changes at most its actor's record *)
Lemma thr_frame s l s' x : fstep sh s l = Some s' -> actor l <> Some x -> thr s' x = thr s x.
Proof.
  intros H Hx. destruct l as [t ks w|t|t|o i|o|o i|t|t]; cbn [fstep] in H; cbn [actor] in Hx;
    try (unfold lift in H; match type of H with context [step ?b ?bl] => destruct (step b bl); [|discriminate] end; inversion H; subst; reflexivity);
    assert (Hne : x <> t) by congruence.
  - destruct (thr s t); [discriminate|]. destruct (nodupb ks); [|discriminate].
    destruct (start_if_done_spec _ _ _ _ H) as (_ & [(_ & _ & E)|(_ & _ & E)]); rewrite E; apply upd_other, Hne.
  - destruct (thr s t) as [q|]; [|discriminate]. destruct (tstage q) as [[|c todo]| |]; try discriminate.
    destruct (reg_keys t (tw q) (tb s) c) as [b' os].
    destruct (start_if_done_spec _ _ _ _ H) as (_ & [(_ & _ & E)|(_ & _ & E)]); rewrite E; cbn [thr]; apply upd_other, Hne.
  - destruct (thr s t) as [q|]; [|discriminate]. destruct (tstage q); try discriminate.
    destruct (step (base s) (Release t)); [|discriminate]. inversion H; subst. cbn [thr]. apply upd_other, Hne.
  - destruct (thr s t) as [q|]; [|discriminate]. destruct (tstage q); try discriminate. destruct (tregd q) as [|[k o_s] rem]; [discriminate|].
    destruct (unreg_key t (tw q) (tb s) k) as [[b' o]|]; [|discriminate]. destruct (next_rel_obj s t); [|discriminate].
    destruct (Nat.eqb n o); [|discriminate]. destruct (step (base s) (UnlockKey t)); [|discriminate].
    inversion H; subst. cbn [thr]. apply upd_other, Hne.
Qed.

(* FCall creates the record with exactly the caller's keys (rearranged) and mode *)
Lemma call_record s t ks w s' : fstep sh s (FCall t ks w) = Some s' ->
  thr s t = None /\ exists q, thr s' t = Some q /\ tw q = w /\ Permutation ks (keys_of q).
Proof.
  cbn [fstep]. destruct (thr s t) eqn:Et; [discriminate|]. destruct (nodupb ks); [|discriminate]. intros H. split; [reflexivity|].
  set (q0 := {| tw := w; tregd := []; tstage := SReg (chunks sh (acq_order sh ks)) |}) in *.
  assert (P0 : Permutation ks (keys_of q0)).
  { unfold keys_of, todo_of. cbn [q0 tregd tstage map app]. rewrite concat_chunks. apply acq_order_perm. }
  destruct (start_if_done_spec _ _ _ _ H) as (_ & [(_ & _ & E)|(Est & _ & E)]); rewrite E, upd_same.
  - exists q0. auto.
  - exists (set_stage q0 SRun). split; [reflexivity|split; [reflexivity|]].
    unfold keys_of, todo_of in *. rewrite Est in P0. cbn [set_stage tstage tregd] in *. exact P0.
Qed.

(* FReg keeps the actor's mode and key multiset *)
Lemma reg_record s t s' : fstep sh s (FReg t) = Some s' ->
  exists q q', thr s t = Some q /\ thr s' t = Some q' /\ tw q' = tw q /\ keys_of q' = keys_of q.
Proof.
  cbn [fstep]. destruct (thr s t) as [q|] eqn:Et; [|discriminate]. destruct (tstage q) as [[|c todo]| |] eqn:Est; try discriminate.
  pose proof (reg_keys_length t (tw q) c (tb s)) as Hlen. destruct (reg_keys t (tw q) (tb s) c) as [b' os]. cbn [snd] in Hlen. intros H.
  set (q1 := {| tw := tw q; tregd := tregd q ++ combine c os; tstage := SReg todo |}) in *.
  assert (K1 : keys_of q1 = keys_of q).
  { unfold keys_of, todo_of. rewrite Est. cbn [q1 tregd tstage concat]. rewrite map_app, map_fst_combine by exact Hlen. rewrite <- app_assoc. reflexivity. }
  exists q. destruct (start_if_done_spec _ _ _ _ H) as (_ & [(_ & _ & E)|(Est1 & _ & E)]); rewrite E; cbn [thr]; rewrite upd_same.
  - exists q1. auto.
  - exists (set_stage q1 SRun). split; [reflexivity|split; [reflexivity|split; [reflexivity|]]].
    rewrite <- K1. unfold keys_of, todo_of. rewrite Est1. cbn [set_stage tstage tregd concat]. reflexivity.
Qed.
End Frame.

Section Rounds.
Variable sh : nat -> nat.

Definition only_actor (t : nat) (l : flabel) : Prop := actor l = None \/ actor l = Some t.

Lemma frun_cons s l ls : frun sh s (l :: ls) = match fstep sh s l with Some s1 => frun sh s1 ls | None => None end.
Proof.
  unfold frun. cbn [fold_left]. destruct (fstep sh s l) as [s1|]; [reflexivity|].
  induction ls as [|l' ls IH]; cbn [fold_left]; [reflexivity|exact IH].
Qed.

(* everybody but the round's actor keeps its record over the whole round *)
Lemma round_frame t : forall ls s s' x, Forall (only_actor t) ls -> frun sh s ls = Some s' -> x <> t -> thr s' x = thr s x.
Proof.
  induction ls as [|l ls IH]; intros s s' x Hall H Hx.
  - unfold frun in H. cbn in H. inversion H; subst. reflexivity.
  - rewrite frun_cons in H. destruct (fstep sh s l) as [s1|] eqn:E; [|discriminate]. inversion Hall as [|? ? Hl Hls]; subst.
    rewrite (IH s1 s' x Hls H Hx). apply (thr_frame sh s l s1 x E). destruct Hl as [Hl|Hl]; rewrite Hl; congruence.
Qed.

(* internal labels and FReg t keep the actor's mode and key multiset *)
Definition call_tail (t : nat) (l : flabel) : Prop := actor l = None \/ l = FReg t.
Lemma call_tail_keeps t : forall ls s s' q, Forall (call_tail t) ls -> frun sh s ls = Some s' -> thr s t = Some q ->
  exists q', thr s' t = Some q' /\ tw q' = tw q /\ keys_of q' = keys_of q.
Proof.
  induction ls as [|l ls IH]; intros s s' q Hall H Hq.
  - unfold frun in H. cbn in H. inversion H; subst. exists q. auto.
  - rewrite frun_cons in H. destruct (fstep sh s l) as [s1|] eqn:E; [|discriminate]. inversion Hall as [|? ? Hl Hls]; subst.
    assert (H1 : exists q1, thr s1 t = Some q1 /\ tw q1 = tw q /\ keys_of q1 = keys_of q).
    { destruct Hl as [Hl | ->].
      - exists q. rewrite (thr_frame sh s l s1 t E) by (rewrite Hl; discriminate). auto.
      - destruct (reg_record sh s t s1 E) as (q0 & q1 & A & B & C & D). rewrite Hq in A. inversion A; subst q0. exists q1. auto. }
    destruct H1 as (q1 & A1 & B1 & C1). destruct (IH s1 s' q1 Hls H A1) as (q' & A & B & C). exists q'. split; [exact A|split; congruence].
Qed.
End Rounds.

(* ---------------- the bookkeeping relation at round boundaries ---------------- *)
(* L is the observation-level list of live callers (case_holds computes it from the actions alone); s the model state *)
Definition Bk (L : list caller) (s : fstate) : Prop :=
  NoDup (map cid L) /\
  forall t, match thr s t with
            | Some q => tstage q = SRun /\ exists ks, In (t, (ks, tw q)) L /\ Permutation ks (map fst (tregd q))
            | None => forall c, In c L -> cid c <> t
            end.

Lemma bk_init : Bk [] finit.
Proof. split; [constructor|intros t; cbn; intros c []]. Qed.

(* a caller the observer counts as live and returned is a caller of the model with the same mode and keys *)
Lemma bk_lookup L s c : Bk L s -> In c L -> exists q, thr s (cid c) = Some q /\ tw q = cw c /\ Permutation (cks c) (map fst (tregd q)).
Proof.
  intros [Hnd Hb] Hin. specialize (Hb (cid c)). destruct (thr s (cid c)) as [q|].
  - destruct Hb as (_ & ks & Hin' & Hp). exists q. split; [reflexivity|].
    assert (E : c = (cid c, (ks, tw q))).
    { clear -Hnd Hin Hin'. induction L as [|a L IH]; [destruct Hin|]. cbn [map] in Hnd. inversion Hnd as [|? ? Hna Hnd']; subst.
      destruct Hin as [->|Hin]; destruct Hin' as [E|Hin'].
      - exact E.
      - exfalso. apply Hna. apply in_map_iff. exists (cid c, (ks, tw q)). split; [reflexivity|exact Hin'].
      - exfalso. apply Hna. apply in_map_iff. exists c. split; [rewrite E; reflexivity|exact Hin].
      - apply IH; assumption. }
    rewrite E. cbn [cw cks snd fst]. auto.
  - exfalso. exact (Hb c Hin eq_refl).
Qed.

(* ---------------- exclusion among returned callers, in the observer's terms ---------------- *)
Lemma perm_key_pair ks (l : list (nat * nat)) k : Permutation ks (map fst l) -> In k ks -> exists o, In (k, o) l.
Proof.
  intros Hp Hin. apply (Permutation_in _ Hp) in Hin. apply in_map_iff in Hin. destruct Hin as ([k' o] & E & Hin).
  cbn [fst] in E. subst k'. exists o. exact Hin.
Qed.

Lemma bk_exclusion L s c c' k : FInv s -> Bk L s -> In c L -> In c' L -> cid c <> cid c' ->
  returned s (cid c) = true -> returned s (cid c') = true -> In k (cks c) -> In k (cks c') -> cw c = false /\ cw c' = false.
Proof.
  intros HF HB Hc Hc' Hne R R' K K'.
  destruct (bk_lookup L s c HB Hc) as (q & Q1 & Q2 & Q3). destruct (bk_lookup L s c' HB Hc') as (q' & Q1' & Q2' & Q3').
  destruct (perm_key_pair _ _ k Q3 K) as [o Ho]. destruct (perm_key_pair _ _ k Q3' K') as [o' Ho'].
  rewrite <- Q2, <- Q2'.
  apply (exclusion_finv s (cid c) (cid c') k (tw q) (tw q') HF Hne);
    [apply (returned_holds_key s (cid c) q k o)|apply (returned_holds_key s (cid c') q' k o')]; assumption.
Qed.

(* whoever the model says has returned is a caller the observer counts as live *)
Lemma bk_returned_live L s t : Bk L s -> returned s t = true -> exists c, In c L /\ cid c = t.
Proof.
  intros [_ Hb] Hr. destruct (returned_spec s t Hr) as (q & r & Ht & _). specialize (Hb t). rewrite Ht in Hb.
  destruct Hb as (_ & ks & Hin & _). exists (t, (ks, tw q)). split; [exact Hin|reflexivity].
Qed.

(* ---------------- the relation is preserved by an accepted round ---------------- *)
Lemma internal_actor l : internal l = true -> actor l = None.
Proof. destruct l; cbn; congruence. Qed.

Lemma quiescent_thread nt s t : quiescent nt s = true -> t < nt -> thread_quiet s t = true.
Proof.
  unfold quiescent. intros H Ht. apply andb_prop in H. destruct H as [H _]. rewrite forallb_forall in H. apply H, in_seq. lia.
Qed.
Lemma thread_quiet_stage s t q : thread_quiet s t = true -> thr s t = Some q -> tstage q = SRun.
Proof.
  unfold thread_quiet. intros H Hq. rewrite Hq in H. apply andb_prop in H. destruct H as [_ H]. destruct (tstage q); [discriminate|reflexivity|discriminate].
Qed.

Section BkRounds.
Variable sh : nat -> nat.

Lemma bk_call_round L s0 t ks w rest s' nt :
  Bk L s0 -> frun sh s0 (FCall t ks w :: rest) = Some s' ->
  forallb (fun l => internal l || match l with FReg x => Nat.eqb x t | _ => false end) rest = true ->
  quiescent nt s' = true -> t < nt ->
  Bk (L ++ [(t, (ks, w))]) s'.
Proof.
  intros [Hnd Hb] Hrun Hrest Hq Ht. rewrite frun_cons in Hrun. destruct (fstep sh s0 (FCall t ks w)) as [s1|] eqn:E1; [|discriminate].
  destruct (call_record sh s0 t ks w s1 E1) as (Hnone & q1 & A1 & B1 & C1).
  assert (Htail : Forall (call_tail t) rest).
  { rewrite forallb_forall in Hrest. apply Forall_forall. intros l Hl. specialize (Hrest l Hl). apply orb_prop in Hrest.
    destruct Hrest as [Hi|Hr]; [left; apply internal_actor, Hi|]. destruct l; try discriminate. apply Nat.eqb_eq in Hr. subst. right. reflexivity. }
  assert (Honly : Forall (only_actor t) rest).
  { apply Forall_forall. intros l Hl. rewrite Forall_forall in Htail. destruct (Htail l Hl) as [H| ->]; [left; exact H|right; reflexivity]. }
  destruct (call_tail_keeps sh t rest s1 s' q1 Htail Hrun A1) as (q' & A & B & C).
  pose proof (thread_quiet_stage s' t q' (quiescent_thread nt s' t Hq Ht) A) as Hst.
  assert (Hfresh : forall c, In c L -> cid c <> t) by (specialize (Hb t); rewrite Hnone in Hb; exact Hb).
  split.
  - rewrite map_app. cbn [map cid fst]. apply nodup_snoc; [exact Hnd|]. intros Hin. apply in_map_iff in Hin. destruct Hin as (c & Ec & Hc). exact (Hfresh c Hc Ec).
  - intros x. destruct (Nat.eq_dec x t) as [->|Hx].
    + rewrite A. split; [exact Hst|]. exists ks. split; [apply in_or_app; right; left; rewrite B, B1; reflexivity|].
      unfold keys_of, todo_of in C, C1. rewrite Hst in C. cbn [concat] in C. rewrite app_nil_r in C. rewrite C. exact C1.
    + rewrite (round_frame sh t rest s1 s' x Honly Hrun Hx), (thr_frame sh s0 _ s1 x E1) by (cbn [actor]; congruence).
      specialize (Hb x). destruct (thr s0 x) as [q|].
      * destruct Hb as (S1 & ks' & Hin & Hp). split; [exact S1|]. exists ks'. split; [apply in_or_app; left; exact Hin|exact Hp].
      * intros c Hc. apply in_app_or in Hc. destruct Hc as [Hc|[<-|[]]]; [apply Hb, Hc|cbn [cid fst]; congruence].
Qed.
End BkRounds.

Section BkRelease.
Variable sh : nat -> nat.

Definition gone_or_rel (s : fstate) (t : nat) : Prop :=
  match thr s t with None => True | Some q => tstage q = SRel end.

Lemma release_record s t s' : fstep sh s (FRelease t) = Some s' -> gone_or_rel s' t.
Proof.
  cbn [fstep]. destruct (thr s t) as [q|]; [|discriminate]. destruct (tstage q); try discriminate.
  destruct (step (base s) (Release t)); [|discriminate]. intros H. inversion H; subst. unfold gone_or_rel. cbn [thr]. rewrite upd_same.
  destruct (tregd q); [exact I|reflexivity].
Qed.
Lemma unlock_record s t s' : fstep sh s (FUnlock t) = Some s' -> gone_or_rel s' t.
Proof.
  cbn [fstep]. destruct (thr s t) as [q|]; [|discriminate]. destruct (tstage q); try discriminate. destruct (tregd q) as [|[k o_s] rem]; [discriminate|].
  destruct (unreg_key t (tw q) (tb s) k) as [[b' o]|]; [|discriminate]. destruct (next_rel_obj s t); [|discriminate].
  destruct (Nat.eqb n o); [|discriminate]. destruct (step (base s) (UnlockKey t)); [|discriminate].
  intros H. inversion H; subst. unfold gone_or_rel. cbn [thr]. rewrite upd_same. destruct rem; [exact I|reflexivity].
Qed.

Definition rel_tail (t : nat) (l : flabel) : Prop := actor l = None \/ l = FUnlock t.
Lemma rel_tail_keeps t : forall ls s s', Forall (rel_tail t) ls -> frun sh s ls = Some s' -> gone_or_rel s t -> gone_or_rel s' t.
Proof.
  induction ls as [|l ls IH]; intros s s' Hall H Hg.
  - unfold frun in H. cbn in H. inversion H; subst. exact Hg.
  - rewrite frun_cons in H. destruct (fstep sh s l) as [s1|] eqn:E; [|discriminate]. inversion Hall as [|? ? Hl Hls]; subst.
    apply (IH s1 s' Hls H). destruct Hl as [Hl | ->]; [|apply (unlock_record s t s1 E)].
    unfold gone_or_rel. rewrite (thr_frame sh s l s1 t E) by (rewrite Hl; discriminate). exact Hg.
Qed.

Lemma nodup_map_filter {A} (f : A -> nat) (p : A -> bool) l : NoDup (map f l) -> NoDup (map f (filter p l)).
Proof.
  induction l as [|a l IH]; cbn [map filter]; intros H; [constructor|]. inversion H as [|? ? Hn Hr]; subst.
  destruct (p a); [|apply IH, Hr]. cbn [map]. constructor; [|apply IH, Hr].
  intros Hin. apply Hn. apply in_map_iff in Hin. destruct Hin as (x & Ex & Hx). apply filter_In in Hx. apply in_map_iff. exists x. split; [exact Ex|apply Hx].
Qed.

Lemma bk_release_round L s0 t rest s' nt :
  Bk L s0 -> frun sh s0 (FRelease t :: rest) = Some s' ->
  forallb (fun l => internal l || match l with FUnlock x => Nat.eqb x t | _ => false end) rest = true ->
  quiescent nt s' = true -> t < nt ->
  Bk (filter (fun c => negb (Nat.eqb (cid c) t)) L) s'.
Proof.
  intros [Hnd Hb] Hrun Hrest Hq Ht. rewrite frun_cons in Hrun. destruct (fstep sh s0 (FRelease t)) as [s1|] eqn:E1; [|discriminate].
  assert (Htail : Forall (rel_tail t) rest).
  { rewrite forallb_forall in Hrest. apply Forall_forall. intros l Hl. specialize (Hrest l Hl). apply orb_prop in Hrest.
    destruct Hrest as [Hi|Hr]; [left; apply internal_actor, Hi|]. destruct l; try discriminate. apply Nat.eqb_eq in Hr. subst. right. reflexivity. }
  assert (Honly : Forall (only_actor t) rest).
  { apply Forall_forall. intros l Hl. rewrite Forall_forall in Htail. destruct (Htail l Hl) as [H| ->]; [left; exact H|right; reflexivity]. }
  pose proof (rel_tail_keeps t rest s1 s' Htail Hrun (release_record s0 t s1 E1)) as Hg.
  assert (Hgone : thr s' t = None).
  { unfold gone_or_rel in Hg. destruct (thr s' t) as [q|] eqn:Eq; [|reflexivity].
    pose proof (thread_quiet_stage s' t q (quiescent_thread nt s' t Hq Ht) Eq). congruence. }
  split; [apply nodup_map_filter, Hnd|]. intros x. destruct (Nat.eq_dec x t) as [->|Hx].
  - rewrite Hgone. intros c Hc. apply filter_In in Hc. destruct Hc as [_ Hc]. apply negb_true_iff, Nat.eqb_neq in Hc. exact Hc.
  - rewrite (round_frame sh t rest s1 s' x Honly Hrun Hx), (thr_frame sh s0 _ s1 x E1) by (cbn [actor]; congruence).
    specialize (Hb x). destruct (thr s0 x) as [q|].
    + destruct Hb as (S1 & ks' & Hin & Hp). split; [exact S1|]. exists ks'. split; [|exact Hp].
      apply filter_In. split; [exact Hin|]. cbn [cid fst]. apply negb_true_iff, Nat.eqb_neq. exact Hx.
    + intros c Hc. apply filter_In in Hc. apply Hb, Hc.
Qed.
End BkRelease.

(* ---------------- model_matches implies the exclusion and returned-is-live clauses on every round ---------------- *)
Lemma nlist_eqb_eq a b : nlist_eqb a b = true -> a = b.
Proof.
  revert b. induction a as [|x a IH]; intros [|y b] H; cbn [nlist_eqb] in H; try discriminate; [reflexivity|].
  apply andb_prop in H. destruct H as [H1 H2]. apply Nat.eqb_eq in H1. rewrite H1, (IH b H2). reflexivity.
Qed.
Lemma obs_ret nt nk s o : obs_eqb (model_obs nt nk s) o = true -> o_ret o = filter (returned s) (seq 0 nt).
Proof.
  unfold obs_eqb. intros H. apply andb_prop in H. destruct H as [H _]. apply andb_prop in H. destruct H as [H _]. apply andb_prop in H. destruct H as [H _].
  symmetry. apply (nlist_eqb_eq _ _ H).
Qed.
Lemma mem_in x l : mem x l = true <-> In x l.
Proof.
  unfold mem. rewrite existsb_exists. split; [intros (y & Hy & E); apply Nat.eqb_eq in E; subst; exact Hy|intros H; exists x; split; [exact H|apply Nat.eqb_refl]].
Qed.

(* ---------------- a burst: several callers enter at once ---------------- *)
Section BkBurst.
Variable sh : nat -> nat.

Lemma reg_stage s t s' : fstep sh s (FReg t) = Some s' -> exists q c todo, thr s t = Some q /\ tstage q = SReg (c :: todo).
Proof.
  cbn [fstep]. destruct (thr s t) as [q|]; [|discriminate]. destruct (tstage q) as [[|c todo]| |] eqn:E; try discriminate.
  intros _. exists q, c, todo. auto.
Qed.

(* in the middle of a burst: the callers of L are as at a round boundary, the callers entered so far (C) may still be
   registering; their key multiset is fixed *)
Definition BkMid (L C : list caller) (s : fstate) : Prop :=
  NoDup (map cid (L ++ C)) /\
  forall t, match thr s t with
            | Some q => (tstage q = SRun /\ exists ks, In (t, (ks, tw q)) L /\ Permutation ks (map fst (tregd q))) \/
                        (exists ks, In (t, (ks, tw q)) C /\ Permutation ks (keys_of q))
            | None => forall c, In c (L ++ C) -> cid c <> t
            end.

Lemma bkmid_start L s : Bk L s -> BkMid L [] s.
Proof.
  intros [Hnd Hb]. split; [rewrite app_nil_r; exact Hnd|]. intros t. specialize (Hb t). destruct (thr s t) as [q|].
  - left. exact Hb.
  - rewrite app_nil_r. exact Hb.
Qed.

Lemma bkmid_other L C C' s s' x : (forall c, In c C -> In c C') -> thr s' x = thr s x ->
  match thr s x with
  | Some q => (tstage q = SRun /\ exists ks, In (x, (ks, tw q)) L /\ Permutation ks (map fst (tregd q))) \/
              (exists ks, In (x, (ks, tw q)) C /\ Permutation ks (keys_of q))
  | None => True end ->
  match thr s' x with
  | Some q => (tstage q = SRun /\ exists ks, In (x, (ks, tw q)) L /\ Permutation ks (map fst (tregd q))) \/
              (exists ks, In (x, (ks, tw q)) C' /\ Permutation ks (keys_of q))
  | None => True end.
Proof.
  intros Hsub E H. rewrite E. destruct (thr s x) as [q|]; [|exact I]. destruct H as [H|(ks & Hin & Hp)]; [left; exact H|right; exists ks; split; [apply Hsub, Hin|exact Hp]].
Qed.

Lemma bkmid_call L C s t ks w s' : BkMid L C s -> fstep sh s (FCall t ks w) = Some s' -> BkMid L (C ++ [(t, (ks, w))]) s'.
Proof.
  intros [Hnd Hb] H. destruct (call_record sh s t ks w s' H) as (Hnone & q & A & B & P).
  assert (Hfresh : forall c, In c (L ++ C) -> cid c <> t) by (specialize (Hb t); rewrite Hnone in Hb; exact Hb).
  split.
  - rewrite app_assoc, map_app. cbn [map cid fst]. apply nodup_snoc; [exact Hnd|]. intros Hin. apply in_map_iff in Hin. destruct Hin as (c & Ec & Hc). exact (Hfresh c Hc Ec).
  - intros x. destruct (Nat.eq_dec x t) as [->|Hx].
    + rewrite A. right. exists ks. split; [apply in_or_app; right; left; rewrite B; reflexivity|exact P].
    + rewrite (thr_frame sh s _ s' x H) by (cbn [actor]; congruence). specialize (Hb x). destruct (thr s x) as [qx|].
      * destruct Hb as [Hb|(ks' & Hin & Hp)]; [left; exact Hb|right; exists ks'; split; [apply in_or_app; left; exact Hin|exact Hp]].
      * intros c Hc. rewrite app_assoc in Hc. apply in_app_or in Hc. destruct Hc as [Hc|[<-|[]]]; [apply Hb, Hc|cbn [cid fst]; congruence].
Qed.

Lemma bkmid_tail L C : forall ls s s', BkMid L C s ->
  Forall (fun l => actor l = None \/ exists x, l = FReg x) ls -> frun sh s ls = Some s' -> BkMid L C s'.
Proof.
  induction ls as [|l ls IH]; intros s s' HB Hall H.
  - unfold frun in H. cbn in H. inversion H; subst. exact HB.
  - rewrite frun_cons in H. destruct (fstep sh s l) as [s1|] eqn:E; [|discriminate]. inversion Hall as [|? ? Hl Hls]; subst.
    apply (IH s1 s'); [|exact Hls|exact H]. destruct HB as [Hnd Hb]. split; [exact Hnd|]. intros t.
    destruct Hl as [Hl|(x & ->)].
    + rewrite (thr_frame sh s l s1 t E) by (rewrite Hl; discriminate). apply Hb.
    + destruct (Nat.eq_dec t x) as [->|Hne]; [|rewrite (thr_frame sh s _ s1 t E) by (cbn [actor]; congruence); apply Hb].
      destruct (reg_record sh s x s1 E) as (q & q' & A & B & Cw & K). destruct (reg_stage s x s1 E) as (q0 & c & todo & A0 & St).
      rewrite A in A0. inversion A0; subst q0. specialize (Hb x). rewrite A in Hb. rewrite B.
      destruct Hb as [(Hrun & _)|(ks & Hin & Hp)]; [congruence|]. right. exists ks. rewrite Cw, K. auto.
Qed.

Lemma burst_split ids : forall cs ls, burst_labels ids cs ls = true ->
  exists rest, ls = map (fun c => FCall (fst c) (fst (snd c)) (snd (snd c))) cs ++ rest /\
               forallb (fun l => internal l || match l with FReg x => mem x ids | _ => false end) rest = true.
Proof.
  induction cs as [|[t [ks w]] cs IH]; intros ls H; cbn [burst_labels] in H.
  - exists ls. auto.
  - destruct ls as [|l ls]; [discriminate|]. destruct l; try discriminate. apply andb_prop in H. destruct H as [H Hr].
    apply andb_prop in H. destruct H as [H Hw]. apply andb_prop in H. destruct H as [Ht Hks].
    apply Nat.eqb_eq in Ht. apply nlist_eqb_eq in Hks. apply Bool.eqb_prop in Hw. subst. destruct (IH ls Hr) as (rest & -> & Hrest).
    exists rest. cbn [map fst snd app]. auto.
Qed.

Lemma frun_app : forall l1 l2 s, frun sh s (l1 ++ l2) = match frun sh s l1 with Some s1 => frun sh s1 l2 | None => None end.
Proof.
  induction l1 as [|l l1 IH]; intros l2 s; [reflexivity|]. cbn [app]. rewrite !frun_cons. destruct (fstep sh s l); [apply IH|reflexivity].
Qed.

Lemma bkmid_calls L : forall cs C s s', BkMid L C s ->
  frun sh s (map (fun c => FCall (fst c) (fst (snd c)) (snd (snd c))) cs) = Some s' -> BkMid L (C ++ cs) s'.
Proof.
  induction cs as [|[t [ks w]] cs IH]; intros C s s' HB H.
  - unfold frun in H. cbn in H. inversion H; subst. rewrite app_nil_r. exact HB.
  - cbn [map fst snd] in H. rewrite frun_cons in H. destruct (fstep sh s (FCall t ks w)) as [s1|] eqn:E; [|discriminate].
    pose proof (IH (C ++ [(t, (ks, w))]) s1 s' (bkmid_call L C s t ks w s1 HB E) H) as R. rewrite <- app_assoc in R. exact R.
Qed.

Lemma bk_burst_round L s0 cs ls s' nt : Bk L s0 -> frun sh s0 ls = Some s' -> burst_labels (map fst cs) cs ls = true ->
  quiescent nt s' = true -> (forall c, In c cs -> fst c < nt) -> Bk (L ++ cs) s'.
Proof.
  intros HB Hrun Hlab Hq Hlt. destruct (burst_split _ cs ls Hlab) as (rest & -> & Hrest). rewrite frun_app in Hrun.
  destruct (frun sh s0 (map (fun c => FCall (fst c) (fst (snd c)) (snd (snd c))) cs)) as [s1|] eqn:E1; [|discriminate].
  pose proof (bkmid_calls L cs [] s0 s1 (bkmid_start L s0 HB) E1) as HM. cbn [app] in HM.
  assert (Htail : Forall (fun l => actor l = None \/ exists x, l = FReg x) rest).
  { apply Forall_forall. intros l Hl. rewrite forallb_forall in Hrest. specialize (Hrest l Hl). apply orb_prop in Hrest.
    destruct Hrest as [Hi|Hr]; [left; apply internal_actor, Hi|]. destruct l; try discriminate. right. eexists. reflexivity. }
  destruct (bkmid_tail L cs rest s1 s' HM Htail Hrun) as [Hnd Hb]. split; [exact Hnd|]. intros t. specialize (Hb t).
  destruct (thr s' t) as [q|] eqn:Et; [|exact Hb]. destruct Hb as [(S1 & ks & Hin & Hp)|(ks & Hin & Hp)].
  - split; [exact S1|]. exists ks. split; [apply in_or_app; left; exact Hin|exact Hp].
  - pose proof (thread_quiet_stage s' t q (quiescent_thread nt s' t Hq (Hlt _ Hin)) Et) as Hst. split; [exact Hst|].
    exists ks. split; [apply in_or_app; right; exact Hin|]. unfold keys_of, todo_of in Hp. rewrite Hst in Hp. cbn [concat] in Hp. rewrite app_nil_r in Hp. exact Hp.
Qed.
End BkBurst.

Definition safety_round (L : list caller) (o : obs) : bool := ret_live L o && excl_ok L o.
Fixpoint safety_rounds (L : list caller) (rs : list round) : bool :=
  match rs with
  | [] => true
  | r :: rest => let L' := live_after L (r_act r) in safety_round L' (r_obs r) && safety_rounds L' rest
  end.
Definition safety_holds (c : case) : bool := safety_rounds [] (c_rounds c).

Lemma safety_of_state L s nt nk o : FInv s -> Bk L s -> obs_eqb (model_obs nt nk s) o = true -> safety_round L o = true.
Proof.
  intros HF HB Ho. pose proof (obs_ret nt nk s o Ho) as Er. unfold safety_round. apply andb_true_intro. split.
  - unfold ret_live. apply forallb_forall. intros t Ht. rewrite Er in Ht. apply filter_In in Ht. destruct Ht as [_ Hr].
    destruct (bk_returned_live L s t HB Hr) as (c & Hc & Ec). apply existsb_exists. exists c. split; [exact Hc|apply Nat.eqb_eq, Ec].
  - unfold excl_ok. apply forallb_forall. intros c Hc. apply forallb_forall. intros c' Hc'.
    apply filter_In in Hc. destruct Hc as [Hc Rc]. apply filter_In in Hc'. destruct Hc' as [Hc' Rc'].
    apply mem_in in Rc. apply mem_in in Rc'. rewrite Er in Rc, Rc'. apply filter_In in Rc. apply filter_In in Rc'.
    destruct (Nat.eqb (cid c) (cid c')) eqn:Eid; [reflexivity|]. apply Nat.eqb_neq in Eid. cbn [orb]. apply negb_true_iff.
    unfold conflicts. destruct (shares c c') eqn:Es; [|apply andb_false_r]. unfold shares in Es. apply existsb_exists in Es.
    destruct Es as (k & K & K'). apply mem_in in K'.
    destruct (bk_exclusion L s c c' k HF HB Hc Hc' Eid (proj2 Rc) (proj2 Rc') K K') as [W W']. rewrite W, W'. reflexivity.
Qed.

Section Sound.
Variable sh : nat -> nat.
Lemma accept_safety nt nk : forall rs s L, FInv s -> Bk L s -> accept_rounds sh nt nk s rs = true -> safety_rounds L rs = true.
Proof.
  induction rs as [|r rs IH]; intros s L HF HB H; [reflexivity|]. cbn [accept_rounds] in H.
  apply andb_prop in H. destruct H as [H Hrun]. apply andb_prop in H. destruct H as [Hrange Hlab].
  destruct (frun sh s (r_labels r)) as [s'|] eqn:Er; [|discriminate].
  apply andb_prop in Hrun. destruct Hrun as [Hrun Hrest]. apply andb_prop in Hrun. destruct Hrun as [Hq Ho].
  pose proof (frun_inv sh (r_labels r) s s' HF Er) as HF'.
  assert (HB' : Bk (live_after L (r_act r)) s').
  { unfold labels_ok in Hlab. unfold act_in_range in Hrange. destruct (r_act r) as [t ks w|t|cs].
    - destruct (r_labels r) as [|l rest]; try discriminate.
      destruct l; try discriminate. apply andb_prop in Hlab. destruct Hlab as [Hl Hrest']. apply andb_prop in Hl. destruct Hl as [Hl Hw].
      apply andb_prop in Hl. destruct Hl as [Ht Hks]. apply Nat.eqb_eq in Ht. apply nlist_eqb_eq in Hks. apply Bool.eqb_prop in Hw. subst.
      apply andb_prop in Hrange. destruct Hrange as [Hlt _]. apply Nat.ltb_lt in Hlt. cbn [live_after].
      apply (bk_call_round sh L s _ _ _ rest s' nt HB Er Hrest' Hq Hlt).
    - destruct (r_labels r) as [|l rest]; try discriminate.
      destruct l; try discriminate. apply andb_prop in Hlab. destruct Hlab as [Ht Hrest']. apply Nat.eqb_eq in Ht. subst.
      apply Nat.ltb_lt in Hrange. cbn [live_after]. apply (bk_release_round sh L s _ rest s' nt HB Er Hrest' Hq Hrange).
    - cbn [live_after]. apply (bk_burst_round sh L s cs (r_labels r) s' nt HB Er Hlab Hq). intros c Hc. rewrite forallb_forall in Hrange.
      specialize (Hrange c Hc). apply andb_prop in Hrange. destruct Hrange as [Hr _]. apply Nat.ltb_lt, Hr. }
  cbn [safety_rounds]. apply andb_true_intro. split; [apply (safety_of_state _ s' nt nk _ HF' HB' Ho)|apply (IH s' _ HF' HB' Hrest)].
Qed.
End Sound.

(* whatever the model accepts satisfies the exclusion clause and the returned-is-live clause at every round *)
Theorem model_matches_safety c : model_matches c = true -> safety_holds c = true.
Proof. intros H. apply (accept_safety (shard_of (c_shard c)) (c_nthreads c) (c_nkeys c) (c_rounds c) finit [] finit_inv bk_init H). Qed.
Print Assumptions model_matches_safety.
