(* C10: what the driver evaluates on every observed case *)
From Coq Require Import List Bool ZArith Lia.
Require Export LE Varint C10_Model.
Require Export C10_Monitor.
Require Import C10_Codec C10_Proofs C10_Stream.
Require Export C10_Large C10_Reuse.
Import ListNotations.
Open Scope Z_scope.

(* One observed case.  Every constructor is one experiment of the harness on the real bytex package:
   CHist    NewReadableBufferX(init) (or NewBufferX when init = []), the operations one after the other, Bytes() at the end
   CRound   NewBufferX; the typed writes ws; Bytes(); the same sequence of typed reads; Len()
            (obs = the outcome of every one of these calls, in order)
   CTrunc   the typed writes ws into a fresh buffer (total bytes), NewReadableBufferX(first cut bytes), the reads, Len()
   CReWrite Bytes() = b0; ReWrite / ReWriteU32; Bytes() = b1
   CHold    a history like CHist in which the caller keeps every value a read returned (the strings of ReadString /
            ReadLimitString, the slice of ReadN; not the documented no-copy results of ZReadN / Bytes) WITHOUT copying it,
            goes on using the buffer (writes on the drained buffer, Reset and reuse, overwriting its own input slice at the
            end) and looks at the kept values again: now = the outcomes as they read then
   CStream  the read operations on NewReaderX(source delivering the chunks; eofl = last data comes with io.EOF) and on
            NewReadableBufferX(concat chunks); what the source / the buffer still hold afterwards *)
(* CLarge   like CStream for values of 64 KiB and more: the source bytes are segments (literal, or n bytes of the generator of
            C10_Large.v), the chunks are given by their sizes, and every observed byte string is given by its digest *)
(* CReuse   ONE BufferX used for several messages with Reset (or reading to empty) between them; payloads of up to a few
            hundred KiB are given by generator parameters (UGen / UStr) and every observed byte string by its digest *)
Inductive case :=
  | CHist (init : list Z) (ops : list op) (obs : list outcome) (final : list Z)
  | CHold (init : list Z) (ops : list op) (obs : list outcome) (final : list Z) (now : list outcome)
  | CRound (ws : list op) (obs : list outcome)
  | CTrunc (ws : list op) (total cut : Z) (obs : list outcome)
  | CReWrite (b0 : list Z) (o : op) (out : outcome) (b1 : list Z)
  | CStream (chunks : list (list Z)) (eofl : bool) (ops : list op)
            (obs_r : list outcome) (rest_r : list Z) (obs_b : list outcome) (rest_b : list Z)
  | CLarge (segs : list seg) (sizes : list Z) (eofl : bool) (ops : list op)
           (obs_r : list dout) (rest_r : dout) (obs_b : list dout) (rest_b : dout)
  | CReuse (uops : list uop) (obs : list dout) (final : dout).

(* ---------------- accept: the implementation did exactly what the model does ---------------- *)
Definition case_accept (c : case) : bool :=
  match c with
  | CHist init ops obs final =>
      let '(o, f) := brun init ops in outs_eqb o obs && zl_eqb f final
  | CHold init ops obs final now =>
      let '(o, f) := brun init ops in outs_eqb o obs && zl_eqb f final && outs_eqb o now   (* values do not change in the model *)
  | CRound ws obs =>
      forallb is_write ws && outs_eqb (fst (brun [] (round_ops ws))) obs
  | CTrunc ws total cut obs =>
      let enc := snd (brun [] ws) in
      forallb is_write ws && (zlen enc =? total) && (0 <=? cut) && (cut <=? total)
      && outs_eqb (fst (brun (firstn (Z.to_nat cut) enc) (map reader_of ws ++ [XLen]))) obs
  | CReWrite b0 o out b1 =>
      is_rewrite o && (let '(o', b') := bstep b0 o in outcome_eqb o' out && zl_eqb b' b1)
  | CStream chunks eofl ops obs_r rest_r obs_b rest_b =>
      forallb stream_op ops && forallb byte_okb (concat chunks)
      && (let '(o, s) := rrun (chunks, eofl) ops in outs_eqb o obs_r && zl_eqb (src_bytes s) rest_r)
      && (let '(o, f) := brun (concat chunks) ops in outs_eqb o obs_b && zl_eqb f rest_b)
  | CLarge segs sizes eofl ops obs_r rest_r obs_b rest_b =>
      let data := expand segs in
      forallb stream_op ops && forallb byte_okb data
      && (let '(o, s) := rrun (split_sizes sizes data, eofl) ops in
          douts_eqb (map dig o) obs_r && dout_eqb (dig (OBytes (src_bytes s))) rest_r)
      && (let '(o, f) := brun data ops in douts_eqb (map dig o) obs_b && dout_eqb (dig (OBytes f)) rest_b)
  | CReuse uops obs final =>
      let '(o, f) := brun [] (map expand_uop uops) in douts_eqb (map dig o) obs && dout_eqb (dig (OBytes f)) final
  end.

(* ---------------- holds: the clauses of the property on the observed behaviour ---------------- *)
Definition case_holds (c : case) : bool :=
  match c with
  | CHist init ops obs final => hist_ok init ops obs
  | CHold init ops obs final now => hist_ok init ops obs && hold_ok obs now
  | CRound ws obs => round_ok ws obs
  | CTrunc ws total cut obs => trunc_ok ws total cut obs
  | CReWrite b0 o out b1 => rewrite_ok b0 o out b1
  | CStream chunks eofl ops obs_r rest_r obs_b rest_b => stream_ok obs_r rest_r obs_b rest_b
  | CLarge segs sizes eofl ops obs_r rest_r obs_b rest_b => large_ok obs_r rest_r obs_b rest_b
  | CReuse uops obs final => reuse_ok (map expand_uop uops) obs
  end.

Theorem case_sound : forall c, case_accept c = true -> case_holds c = true.
Proof.
  intros [init ops obs final | init ops obs final now | ws obs | ws total cut obs | b0 o out b1 | chunks eofl ops obs_r rest_r obs_b rest_b
          | segs sizes eofl ops obs_r rest_r obs_b rest_b | uops obs final];
    cbn [case_accept case_holds]; intros H.
  - destruct (brun init ops) as [o f] eqn:E. apply andb_prop in H as [H1 _]. apply outs_eqb_eq in H1. rewrite <- H1.
    replace o with (fst (brun init ops)) by now rewrite E. apply hist_sound.
  - destruct (brun init ops) as [o f] eqn:E. apply andb_prop in H as [H H3]. apply andb_prop in H as [H1 _].
    apply outs_eqb_eq in H1, H3. rewrite <- H1, <- H3. unfold hold_ok. rewrite outs_eqb_refl, andb_true_r.
    replace o with (fst (brun init ops)) by now rewrite E. apply hist_sound.
  - apply andb_prop in H as [Hw H1]. apply outs_eqb_eq in H1. rewrite <- H1. apply round_sound, Hw.
  - apply andb_prop in H as [H H5]. apply andb_prop in H as [H H4]. apply andb_prop in H as [H H3].
    apply andb_prop in H as [H1 H2]. apply outs_eqb_eq in H5. rewrite <- H5.
    apply Z.eqb_eq in H2. apply Z.leb_le in H3, H4. now apply trunc_sound.
  - apply andb_prop in H as [Hr H]. destruct (bstep b0 o) as [o' b'] eqn:E.
    apply andb_prop in H as [H1 H2]. apply outcome_eqb_eq in H1. apply zl_eqb_eq in H2. rewrite <- H1, <- H2. now apply rewrite_sound.
  - apply andb_prop in H as [H Hb]. apply andb_prop in H as [H Hr]. apply andb_prop in H as [Hs Hk].
    destruct (rrun (chunks, eofl) ops) as [o s] eqn:Er. destruct (brun (concat chunks) ops) as [o2 f] eqn:Eb.
    apply andb_prop in Hr as [Hr1 Hr2]. apply andb_prop in Hb as [Hb1 Hb2].
    apply outs_eqb_eq in Hr1, Hb1. apply zl_eqb_eq in Hr2, Hb2. rewrite <- Hr1, <- Hr2, <- Hb1, <- Hb2.
    now apply (stream_sound chunks eofl ops o s o2 f).
  - cbv zeta in H. apply andb_prop in H as [H Hb]. apply andb_prop in H as [H Hr]. apply andb_prop in H as [Hs Hk].
    pose proof (large_sound (expand segs) sizes eofl ops Hs Hk) as L.
    destruct (rrun (split_sizes sizes (expand segs), eofl) ops) as [o s]. destruct (brun (expand segs) ops) as [o2 f].
    apply andb_prop in Hr as [Hr1 Hr2]. apply andb_prop in Hb as [Hb1 Hb2].
    apply douts_eqb_eq in Hr1, Hb1. apply dout_eqb_eq in Hr2, Hb2. rewrite <- Hr1, <- Hr2, <- Hb1, <- Hb2. exact L.
  - pose proof (reuse_sound (map expand_uop uops)) as L. destruct (brun [] (map expand_uop uops)) as [o f].
    apply andb_prop in H as [H1 _]. apply douts_eqb_eq in H1. rewrite <- H1. exact L.
Qed.

(* round 8: the argument of ReWrite may be a slice of the buffer's own unread bytes (bs[from : from+m], e.g. moving a
   body to make room for a header). "The bytes passed in" are the values at the call: the result is the instance of
   rewrite_exact at p := that sub-list, i.e. an overlap-safe move. *)
Lemma nth_firstn_lt (d : Z) : forall m l k, (k < m)%nat -> nth k (firstn m l) d = nth k l d.
Proof.
  induction m; intros l k H; [lia|]. destruct l; [destruct k; reflexivity|].
  destruct k; cbn; [reflexivity|apply IHm; lia].
Qed.
Lemma nth_skipn_add (d : Z) : forall from l k, nth k (skipn from l) d = nth (from + k) l d.
Proof.
  induction from; intros l k; [reflexivity|]. destruct l; cbn; [destruct k; reflexivity|apply IHfrom].
Qed.
Lemma rewrite_from_self : forall bs pos from m,
  0 <= pos <= zlen bs -> (from + m <= length bs)%nat ->
  exists bs', bstep bs (XReWrite pos (firstn m (skipn from bs))) = (ODone, bs') /\ length bs' = length bs /\
    forall i, (i < length bs)%nat ->
      nth i bs' 0 = if (pos <=? Z.of_nat i) && (Z.of_nat i <? pos + Z.of_nat m)
                    then nth (from + Z.to_nat (Z.of_nat i - pos)) bs 0 else nth i bs 0.
Proof.
  intros bs pos from m Hpos Hm.
  destruct (rewrite_exact bs pos (firstn m (skipn from bs))) as [H _].
  destruct (H Hpos) as (bs' & E & L & N). exists bs'. split; [exact E|]. split; [exact L|].
  intros i Hi. rewrite (N i Hi).
  assert (Z : zlen (firstn m (skipn from bs)) = Z.of_nat m).
  { unfold zlen. rewrite firstn_length, skipn_length. lia. }
  rewrite Z. destruct ((pos <=? Z.of_nat i) && (Z.of_nat i <? pos + Z.of_nat m)) eqn:C; [|reflexivity].
  apply andb_prop in C as [C1 C2]. apply Z.leb_le in C1. apply Z.ltb_lt in C2.
  rewrite nth_firstn_lt by lia. apply nth_skipn_add.
Qed.
