(* C12: queue/priq.PriQueue - highest priority first, first-in-first-out among equal priorities, capacity check in Push.
   The heap is a list of (priority, sequence number, item); `Less` is as coded; container/heap's contract is "Pop returns
   a Less-minimum and removes it".  Because Less is a strict total order on entries with distinct sequence numbers the
   minimum is unique (min_unique), so every implementation of that contract returns the entry the model's `best` returns.
   The wake-up token (signal channel) is C13's business and is not modelled here.  curSeq is an int64 that is incremented per
   accepted Push; the model uses Z (assumption: fewer than 2^63 accepted pushes in a queue's lifetime). *)
From Coq Require Import ZArith List Bool Lia Sorting.Permutation.
Require Import C12_Base.
Import ListNotations.
Local Open Scope Z_scope.

Record ent := { epri : Z; eseq : Z; eid : Z }.
Inductive qop := QPush (pri id : Z) | QPop | QLen.
Record prq := { ents : list ent; qcap : Z; cur : Z }.
Definition q_new (n : Z) : prq := {| ents := []; qcap := n; cur := 0 |}.

(* EntryList.Less: pi == pj ? seq_i < seq_j : pi > pj *)
Definition less (a b : ent) : bool :=
  if epri a =? epri b then eseq a <? eseq b else epri b <? epri a.

(* the Less-minimum of a list: the head unless the minimum of the tail is Less than it *)
Fixpoint best (l : list ent) : option ent :=
  match l with
  | [] => None
  | e :: l' => match best l' with
               | None => Some e
               | Some m => if less m e then Some m else Some e
               end
  end.
Fixpoint remove_seq (sq : Z) (l : list ent) : list ent :=
  match l with
  | [] => []
  | e :: l' => if eseq e =? sq then l' else e :: remove_seq sq l'
  end.

Definition q_step (s : prq) (o : qop) : prq * res :=
  match o with
  | QPush p i =>
      if qcap s <=? Z.of_nat (length (ents s)) then (s, RFull)            (* len(pq.entries) >= pq.capacity *)
      else ({| ents := ents s ++ [{| epri := p; eseq := cur s + 1; eid := i |}]; qcap := qcap s; cur := cur s + 1 |}, RDone)
  | QPop =>
      match best (ents s) with
      | None => (s, RNone)                                                 (* len == 0: return nil *)
      | Some m => ({| ents := remove_seq (eseq m) (ents s); qcap := qcap s; cur := cur s |}, RItem (eid m))
      end
  | QLen => (s, RLen (Z.of_nat (length (ents s))))
  end.

(* ------------------------------------------------------------------------------------------------ *)
(* The monitor: ghost = the accepted and not yet handed out (priority, item) pairs in acceptance order.
   `gtake` is the specified order: the pair handed out next and what remains - the tail's choice wins only when its priority
   is strictly higher than the head's. *)
Fixpoint gtake (l : list (Z * Z)) : option ((Z * Z) * list (Z * Z)) :=
  match l with
  | [] => None
  | e :: l' => match gtake l' with
               | None => Some (e, [])
               | Some (m, rest) => if fst e <? fst m then Some (m, e :: rest) else Some (e, l')
               end
  end.

Definition q_chk (n : Z) (g : list (Z * Z)) (o : qop) (r : res) : bool :=
  match o with
  | QPush _ _ => if n <=? Z.of_nat (length g) then res_eqb r RFull else res_eqb r RDone    (* refused exactly at capacity *)
  | QPop => match gtake g with
            | None => res_eqb r RNone
            | Some (m, _) => res_eqb r (RItem (snd m))
            end
  | QLen => res_eqb r (RLen (Z.of_nat (length g)))
  end.
Definition q_upd (g : list (Z * Z)) (o : qop) (r : res) : list (Z * Z) :=
  match o, r with
  | QPush p i, RDone => g ++ [(p, i)]
  | QPop, RItem _ => match gtake g with Some (_, rest) => rest | None => g end
  | _, _ => g
  end.

(* what gtake means: highest priority, and the first one among those *)
Theorem gtake_spec : forall l m rest, gtake l = Some (m, rest) ->
  exists pre post, l = pre ++ m :: post /\ rest = pre ++ post /\
    Forall (fun e => fst e < fst m) pre /\ Forall (fun e => fst e <= fst m) post.
Proof.
  induction l as [|e l IH]; intros m rest H; [discriminate|].
  cbn [gtake] in H. destruct (gtake l) as [[m' rest']|] eqn:E.
  - destruct (IH m' rest' eq_refl) as (pre & post & Hl & Hr & Hpre & Hpost).
    destruct (Z.ltb_spec (fst e) (fst m')) as [Hlt|Hge]; inversion H; subst m rest; clear H.
    + exists (e :: pre), post. split; [now rewrite Hl|]. split; [now rewrite Hr|]. split; [constructor; assumption|assumption].
    + exists [], l. split; [reflexivity|]. split; [reflexivity|]. split; [constructor|].
      rewrite Hl. apply Forall_app. split; [|constructor].
      * eapply Forall_impl; [|exact Hpre]. cbn. intros a Ha. lia.
      * lia.
      * eapply Forall_impl; [|exact Hpost]. cbn. intros a Ha. lia.
  - inversion H; subst m rest. exists [], []. destruct l; [|cbn in E; destruct (gtake l) as [[? ?]|]; [destruct (_ <? _)|]; discriminate].
    repeat split; constructor.
Qed.
Theorem gtake_none l : gtake l = None <-> l = [].
Proof.
  split; [|intros ->; reflexivity]. destruct l as [|e l]; [reflexivity|]. cbn. destruct (gtake l) as [[? ?]|]; [destruct (_ <? _)|]; discriminate.
Qed.

(* ---- the invariant of the model: sequence numbers strictly increase along the list and are at most curSeq ---- *)
Fixpoint seq_sorted (l : list ent) : Prop :=
  match l with [] => True | e :: l' => Forall (fun x => eseq e < eseq x) l' /\ seq_sorted l' end.
Definition q_inv (s : prq) : Prop := seq_sorted (ents s) /\ Forall (fun x => eseq x <= cur s) (ents s).
Definition proj (e : ent) : Z * Z := (epri e, eid e).

Lemma best_in l m : best l = Some m -> In m l.
Proof.
  revert m; induction l as [|e l IH]; intros m H; [discriminate|]. cbn [best] in H.
  destruct (best l) as [m'|]; [|inversion H; now left]. destruct (less m' e); inversion H; subst; [right; now apply IH|now left].
Qed.

Lemma best_gtake : forall l, seq_sorted l ->
  match best l with
  | None => gtake (map proj l) = None
  | Some m => gtake (map proj l) = Some (proj m, map proj (remove_seq (eseq m) l))
  end.
Proof.
  induction l as [|e l IH]; intros Hs; [reflexivity|].
  destruct Hs as [Hlt Hs]. specialize (IH Hs). cbn [best map gtake].
  destruct (best l) as [m|] eqn:Eb.
  - rewrite IH. pose proof (best_in _ _ Eb) as Hin. rewrite Forall_forall in Hlt. specialize (Hlt m Hin).
    assert (Hless : less m e = (fst (proj e) <? fst (proj m))).
    { unfold less, proj. cbn [fst]. destruct (Z.eqb_spec (epri m) (epri e)) as [Heq|Hne].
      - rewrite Heq, Z.ltb_irrefl. apply Z.ltb_ge. lia.
      - reflexivity. }
    rewrite Hless. destruct (fst (proj e) <? fst (proj m)).
    + cbn [remove_seq]. destruct (Z.eqb_spec (eseq e) (eseq m)); [lia|]. reflexivity.
    + cbn [remove_seq]. rewrite Z.eqb_refl. reflexivity.
  - rewrite IH. cbn [remove_seq]. rewrite Z.eqb_refl. destruct l; [reflexivity|]. cbn in Eb. destruct (best l) as [?|]; [destruct (less _ _)|]; discriminate.
Qed.

Lemma remove_seq_forall (P : ent -> Prop) sq l : Forall P l -> Forall P (remove_seq sq l).
Proof.
  induction l as [|e l IH]; intros H; [constructor|]. inversion H; subst. cbn [remove_seq].
  destruct (eseq e =? sq); [assumption|constructor; auto].
Qed.
Lemma remove_seq_sorted sq l : seq_sorted l -> seq_sorted (remove_seq sq l).
Proof.
  induction l as [|e l IH]; intros H; [exact I|]. destruct H as [H1 H2]. cbn [remove_seq].
  destruct (eseq e =? sq); [assumption|]. split; [now apply remove_seq_forall|auto].
Qed.
Lemma seq_sorted_app l e : seq_sorted l -> Forall (fun x => eseq x < eseq e) l -> seq_sorted (l ++ [e]).
Proof.
  induction l as [|a l IH]; intros Hs Hf; [cbn; split; [constructor|exact I]|].
  destruct Hs as [H1 H2]. inversion Hf; subst. cbn [app seq_sorted]. split; [|auto].
  apply Forall_app. split; [assumption|constructor; [assumption|constructor]].
Qed.

Lemma q_step_inv s o : q_inv s -> q_inv (fst (q_step s o)).
Proof.
  intros [H1 H2]. unfold q_inv. destruct o as [p i| |]; cbn [q_step].
  - destruct (qcap s <=? Z.of_nat (length (ents s))); cbn [fst ents cur]; [split; assumption|]. split.
    + apply seq_sorted_app; [assumption|]. eapply Forall_impl; [|exact H2]. cbn. intros a Ha. lia.
    + apply Forall_app. split; [eapply Forall_impl; [|exact H2]; cbn; intros a Ha; lia|constructor; [cbn; lia|constructor]].
  - destruct (best (ents s)) as [m|]; cbn [fst ents cur]; [|split; assumption]. split; [now apply remove_seq_sorted|now apply remove_seq_forall].
  - cbn [fst]. split; assumption.
Qed.

Definition q_rel (n : Z) (s : prq) (g : list (Z * Z)) : Prop := q_inv s /\ map proj (ents s) = g /\ qcap s = n.

Lemma q_step_ok n s g o : q_rel n s g ->
  q_chk n g o (snd (q_step s o)) = true /\ q_rel n (fst (q_step s o)) (q_upd g o (snd (q_step s o))).
Proof.
  intros (HI & Hg & Hc). pose proof (q_step_inv s o HI) as HI'. unfold q_rel. subst g.
  destruct o as [p i| |]; cbn [q_step q_chk] in *.
  - rewrite map_length, <- Hc. destruct (qcap s <=? Z.of_nat (length (ents s))); cbn [fst snd q_upd res_eqb] in *; [auto|].
    split; [reflexivity|]. split; [exact HI'|]. cbn [ents qcap]. rewrite map_app. auto.
  - pose proof (best_gtake (ents s) (proj1 HI)) as Hb. destruct (best (ents s)) as [m|]; rewrite Hb; cbn [fst snd q_upd] in *.
    + rewrite Hb. cbn [snd proj]. rewrite res_eqb_refl. auto.
    + auto.
  - cbn [fst snd q_upd]. rewrite map_length, res_eqb_refl. auto.
Qed.

Lemma q_new_rel n : q_rel n (q_new n) [].
Proof. unfold q_rel, q_inv, q_new. cbn. repeat split; constructor. Qed.

Definition q_accept (n : Z) (h : list (qop * res)) : bool := h_accept q_step (q_new n) h.
Definition q_holds (n : Z) (h : list (qop * res)) : bool := h_holds (q_chk n) q_upd [] h.

Theorem q_accept_sound n h : q_accept n h = true -> q_holds n h = true.
Proof.
  apply (h_sound q_step (q_chk n) q_upd (q_rel n)).
  - intros s g o. apply q_step_ok.
  - apply q_new_rel.
Qed.
Theorem q_model_holds n ops : q_holds n (fst (h_run q_step (q_new n) ops)) = true.
Proof.
  apply (h_model_holds q_step (q_chk n) q_upd (q_rel n)).
  - intros s g o. apply q_step_ok.
  - apply q_new_rel.
Qed.

(* ------------------------------------------------------------------------------------------------ *)
(* Less is a strict total order on entries with distinct sequence numbers *)
Lemma less_irrefl a : less a a = false.
Proof. unfold less. rewrite Z.eqb_refl. apply Z.ltb_irrefl. Qed.
Lemma less_trans a b c : less a b = true -> less b c = true -> less a c = true.
Proof.
  unfold less. destruct (Z.eqb_spec (epri a) (epri b)), (Z.eqb_spec (epri b) (epri c)), (Z.eqb_spec (epri a) (epri c));
    rewrite ?Z.ltb_lt; try lia.
Qed.
Lemma less_asym a b : less a b = true -> less b a = false.
Proof.
  unfold less. destruct (Z.eqb_spec (epri a) (epri b)), (Z.eqb_spec (epri b) (epri a)); rewrite ?Z.ltb_lt, ?Z.ltb_ge; try lia.
Qed.
Lemma less_total a b : eseq a <> eseq b -> less a b = true \/ less b a = true.
Proof.
  unfold less. intros H. destruct (Z.eqb_spec (epri a) (epri b)), (Z.eqb_spec (epri b) (epri a)); rewrite ?Z.ltb_lt; try lia.
Qed.

(* container/heap's contract for Pop: the returned entry is in the heap and no entry is Less than it *)
Definition is_min (m : ent) (l : list ent) : Prop := In m l /\ forall x, In x l -> less x m = false.

(* a Less-minimum has the highest priority, and among the entries of that priority the smallest sequence number *)
Theorem min_is_highest_then_oldest m l : is_min m l ->
  forall x, In x l -> epri x <= epri m /\ (epri x = epri m -> eseq m <= eseq x).
Proof.
  intros [_ Hmin] x Hx. specialize (Hmin x Hx). unfold less in Hmin.
  destruct (Z.eqb_spec (epri x) (epri m)); apply Z.ltb_ge in Hmin; split; lia.
Qed.

(* with distinct sequence numbers the minimum is unique: the contract determines heap.Pop's result *)
Theorem min_unique m m' l : NoDup (map eseq l) -> is_min m l -> is_min m' l -> m = m'.
Proof.
  intros Hnd [Hin Hmin] [Hin' Hmin'].
  assert (Hs : eseq m = eseq m').
  { destruct (Z.eq_dec (eseq m) (eseq m')) as [|Hne]; [assumption|].
    destruct (less_total m m' Hne) as [H|H]; [rewrite (Hmin' m Hin) in H|rewrite (Hmin m' Hin') in H]; discriminate. }
  clear Hmin Hmin'. induction l as [|e l IH]; [destruct Hin|]. cbn [map] in Hnd. inversion Hnd as [|? ? Hni Hnd']; subst.
  destruct Hin as [->|Hin], Hin' as [->|Hin']; auto.
  - exfalso. apply Hni. rewrite Hs. now apply in_map.
  - exfalso. apply Hni. rewrite <- Hs. now apply in_map.
Qed.

Lemma seq_sorted_nodup l : seq_sorted l -> NoDup (map eseq l).
Proof.
  induction l as [|e l IH]; intros H; [constructor|]. destruct H as [H1 H2]. cbn [map]. constructor; [|auto].
  intros Hin. apply in_map_iff in Hin as (x & Hx & Hxin). rewrite Forall_forall in H1. specialize (H1 x Hxin). lia.
Qed.

(* the model's `best` satisfies the contract *)
Theorem best_is_min : forall l m, seq_sorted l -> best l = Some m -> is_min m l.
Proof.
  induction l as [|e l IH]; intros m Hs H; [discriminate|]. destruct Hs as [Hlt Hs]. cbn [best] in H.
  destruct (best l) as [m'|] eqn:Eb.
  - destruct (IH m' Hs eq_refl) as [Hin Hmin]. destruct (less m' e) eqn:El; inversion H; subst m; clear H.
    + split; [now right|]. intros x [->|Hx]; [now apply less_asym|now apply Hmin].
    + split; [now left|]. intros x [->|Hx]; [apply less_irrefl|].
      destruct (less x e) eqn:Exe; [|reflexivity]. exfalso.
      (* x less e and not (m' less e): then m' is not less-or-equal x ... use totality and transitivity *)
      rewrite Forall_forall in Hlt.
      destruct (Z.eq_dec (eseq m') (eseq e)) as [Heq|Hne]; [specialize (Hlt m' Hin); lia|].
      destruct (less_total m' e Hne) as [H|H]; [congruence|].
      pose proof (less_trans x e m' Exe H) as Hxm. rewrite (Hmin x Hx) in Hxm. discriminate.
  - inversion H; subst m. destruct l; [|cbn in Eb; destruct (best l) as [?|]; [destruct (less _ _)|]; discriminate].
    split; [now left|]. intros x [->|[]]. apply less_irrefl.
Qed.

(* hence: whatever satisfies container/heap's contract on a reachable heap returns exactly the model's entry *)
Theorem heap_contract_determines_pop s m : q_inv s -> is_min m (ents s) -> best (ents s) = Some m.
Proof.
  intros [Hs _] Hm. destruct (best (ents s)) as [m'|] eqn:Eb.
  - f_equal. symmetry. apply (min_unique m m' (ents s)); [now apply seq_sorted_nodup|exact Hm|now apply best_is_min].
  - destruct Hm as [Hin _]. destruct (ents s) as [|e l]; [destruct Hin|]. cbn in Eb. destruct (best l) as [?|]; [destruct (less _ _)|]; discriminate.
Qed.

(* reachable states satisfy the invariant *)
Theorem q_reachable_inv : forall ops s, q_inv s -> q_inv (snd (h_run q_step s ops)).
Proof.
  induction ops as [|o ops IH]; intros s Hs; [exact Hs|]. cbn [h_run].
  pose proof (q_step_inv s o Hs) as H1. destruct (q_step s o) as [s' r]. cbn [fst] in H1.
  specialize (IH s' H1). destruct (h_run q_step s' ops) as [h s'']. exact IH.
Qed.

(* the order clause on the model: Pop hands out an entry of the highest priority queued, the earliest pushed among those *)
Theorem q_pop_order s : q_inv s ->
  match best (ents s) with
  | None => ents s = [] /\ q_step s QPop = (s, RNone)
  | Some m => snd (q_step s QPop) = RItem (eid m) /\
      exists pre post, ents s = pre ++ m :: post /\ ents (fst (q_step s QPop)) = pre ++ post /\
        Forall (fun e => epri e < epri m) pre /\ Forall (fun e => epri e <= epri m) post /\
        Forall (fun e => eseq e < eseq m) pre /\ Forall (fun e => eseq m < eseq e) post
  end.
Proof.
  intros [Hs Hc]. cbn [q_step]. destruct (best (ents s)) as [m|] eqn:Eb.
  - cbn [fst snd ents]. split; [reflexivity|].
    pose proof (best_is_min _ _ Hs Eb) as [Hin Hmin].
    assert (G : forall l, seq_sorted l -> In m l -> (forall x, In x l -> less x m = false) ->
              exists pre post, l = pre ++ m :: post /\ remove_seq (eseq m) l = pre ++ post /\
                Forall (fun e => epri e < epri m) pre /\ Forall (fun e => epri e <= epri m) post /\
                Forall (fun e => eseq e < eseq m) pre /\ Forall (fun e => eseq m < eseq e) post).
    { induction l as [|e l IH]; intros Hsl Hinl Hminl; [destruct Hinl|]. destruct Hsl as [Hlt Hsl]. cbn [remove_seq].
      destruct (Z.eqb_spec (eseq e) (eseq m)) as [Heq|Hne].
      - assert (e = m).
        { destruct Hinl as [|Hinl]; [assumption|]. rewrite Forall_forall in Hlt. specialize (Hlt m Hinl). lia. }
        subst e. exists [], l. split; [reflexivity|]. split; [reflexivity|]. split; [constructor|]. split.
        + apply Forall_forall. intros x Hx. assert (Hl := Hminl x (or_intror Hx)). unfold less in Hl.
          destruct (Z.eqb_spec (epri x) (epri m)); apply Z.ltb_ge in Hl; lia.
        + split; [constructor|exact Hlt].
      - destruct Hinl as [->|Hinl]; [congruence|].
        destruct (IH Hsl Hinl (fun x Hx => Hminl x (or_intror Hx))) as (pre & post & E1 & E2 & F1 & F2 & F3 & F4).
        exists (e :: pre), post. split; [now rewrite E1|]. split; [now rewrite E2|].
        rewrite Forall_forall in Hlt. specialize (Hlt m Hinl).
        assert (Hl := Hminl e (or_introl eq_refl)). unfold less in Hl.
        split; [constructor; [|assumption]|]. { destruct (Z.eqb_spec (epri e) (epri m)); apply Z.ltb_ge in Hl; lia. }
        split; [assumption|]. split; [constructor; [lia|assumption]|assumption]. }
    apply (G (ents s) Hs Hin Hmin).
  - split; [|reflexivity]. destruct (ents s) as [|e l]; [reflexivity|]. cbn in Eb. destruct (best l) as [?|]; [destruct (less _ _)|]; discriminate.
Qed.

(* capacity: Push is refused exactly when the queue already holds its capacity; the queue never holds more *)
Theorem q_push_refused_iff_full s p i :
  (snd (q_step s (QPush p i)) = RFull <-> qcap s <= Z.of_nat (length (ents s))) /\
  (snd (q_step s (QPush p i)) <> RFull ->
   snd (q_step s (QPush p i)) = RDone /\ ents (fst (q_step s (QPush p i))) = ents s ++ [{| epri := p; eseq := cur s + 1; eid := i |}]).
Proof.
  cbn [q_step]. destruct (Z.leb_spec (qcap s) (Z.of_nat (length (ents s)))); cbn [fst snd ents].
  - split; [split; auto|congruence].
  - split; [split; [discriminate|lia]|auto].
Qed.

Theorem q_capacity : forall ops s, Z.of_nat (length (ents s)) <= Z.max 0 (qcap s) ->
  Z.of_nat (length (ents (snd (h_run q_step s ops)))) <= Z.max 0 (qcap s) /\ qcap (snd (h_run q_step s ops)) = qcap s.
Proof.
  induction ops as [|o ops IH]; intros s Hl; [cbn; auto|]. cbn [h_run].
  assert (H1 : Z.of_nat (length (ents (fst (q_step s o)))) <= Z.max 0 (qcap s) /\ qcap (fst (q_step s o)) = qcap s).
  { destruct o as [p i| |]; cbn [q_step].
    - destruct (Z.leb_spec (qcap s) (Z.of_nat (length (ents s)))); cbn [fst ents qcap]; [auto|]. rewrite app_length. cbn [length]. split; [lia|reflexivity].
    - destruct (best (ents s)) as [m|] eqn:Eb; cbn [fst ents qcap]; [|auto]. split; [|reflexivity].
      assert (G : forall sq l, (length (remove_seq sq l) <= length l)%nat).
      { intros sq l. induction l as [|e l IHl]; [cbn; lia|]. cbn [remove_seq]. destruct (eseq e =? sq); cbn [length]; lia. }
      specialize (G (eseq m) (ents s)). lia.
    - cbn [fst]. auto. }
  destruct (q_step s o) as [s' r]. cbn [fst] in H1. destruct H1 as [H1 H2]. rewrite <- H2 in H1.
  specialize (IH s' H1). destruct (h_run q_step s' ops) as [h s'']. cbn [snd] in *. rewrite H2 in IH. exact IH.
Qed.

(* conservation: handed-out ids ++ queued ids is a rearrangement of the accepted ids *)
Definition q_acc1 (e : qop * res) : list Z := match e with (QPush _ i, RDone) => [i] | _ => [] end.
Definition q_accs (h : list (qop * res)) : list Z := flat_map q_acc1 h.

Lemma remove_seq_perm : forall l m, In m l -> seq_sorted l -> Permutation (eid m :: map eid (remove_seq (eseq m) l)) (map eid l).
Proof.
  induction l as [|e l IH]; intros m Hin Hs; [destruct Hin|]. destruct Hs as [Hlt Hs]. cbn [remove_seq map].
  destruct (Z.eqb_spec (eseq e) (eseq m)) as [Heq|Hne].
  - assert (e = m) by (destruct Hin as [|Hin]; [assumption|]; rewrite Forall_forall in Hlt; specialize (Hlt m Hin); lia).
    subst e. reflexivity.
  - destruct Hin as [->|Hin]; [congruence|]. cbn [map]. eapply Permutation_trans; [apply perm_swap|]. constructor. now apply IH.
Qed.

Theorem q_conservation : forall ops s, q_inv s ->
  let r := h_run q_step s ops in
  Permutation (outs (fst r) ++ map eid (ents (snd r))) (map eid (ents s) ++ q_accs (fst r)).
Proof.
  cbn zeta. induction ops as [|o ops IH]; intros s HI; [cbn; rewrite app_nil_r; reflexivity|].
  cbn [h_run]. pose proof (q_step_inv s o HI) as HI'.
  assert (H1 : Permutation (match snd (q_step s o) with RItem x => [x] | _ => [] end ++ map eid (ents (fst (q_step s o))))
                           (map eid (ents s) ++ q_acc1 (o, snd (q_step s o)))).
  { destruct o as [p i| |]; cbn [q_step].
    - destruct (qcap s <=? Z.of_nat (length (ents s))); cbn; [rewrite app_nil_r; reflexivity|]. rewrite map_app. reflexivity.
    - destruct (best (ents s)) as [m|] eqn:Eb; cbn; rewrite app_nil_r; [|reflexivity].
      apply remove_seq_perm; [now apply best_in|exact (proj1 HI)].
    - cbn. rewrite app_nil_r. reflexivity. }
  destruct (q_step s o) as [s' r]. cbn [fst snd] in *.
  specialize (IH s' HI'). destruct (h_run q_step s' ops) as [h s'']. cbn [fst snd] in *.
  rewrite outs_cons. unfold q_accs in *. cbn [flat_map]. fold (q_acc1 (o, r)).
  rewrite <- app_assoc. rewrite (app_assoc (map eid (ents s))).
  eapply Permutation_trans; [apply Permutation_app_head; exact IH|].
  rewrite app_assoc. apply Permutation_app_tail. exact H1.
Qed.
