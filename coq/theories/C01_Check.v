(* C01: what the driver evaluates on every observed case.
   A case is either a forced schedule (labels issued one at a time through the public API, with what was observed after
   each of them) or the summary of a free-running stress run (in-section monitor counters).
   case_accept replays the labels in the keyed machine of C01_Model.v and compares every observation;
   case_holds is the property's monitor: it keeps its OWN book of who has returned from Acquire* and not yet released
   and of who was observed queued, in arrival order - it never runs the model (no `notify`, no `cur`). *)
From Coq Require Import ZArith List Lia Bool Arith.
Require Import Cases_Common.
Require Export Semap C01_Model.
Import ListNotations.
Open Scope Z_scope.

(* what the harness records after one label *)
Record obs := {
  o_ok : list nat;                 (* callers whose Acquire* returned nil in this step, in arrival order *)
  o_err : list nat;                (* callers whose Acquire* returned context.Canceled in this step *)
  o_bad : bool;                    (* anything else: other error, nil *Weighted with nil error, panic, a step that hung *)
  o_keys : list (Z * Z * bool);    (* per key 0..nkeys-1: VerifKeyState = (held tokens, queued waiters, entry present) *)
  o_entries : Z                    (* VerifEntries *)
}.
Definition ob ok err ks en := {| o_ok := ok; o_err := err; o_bad := false; o_keys := ks; o_entries := en |}.
Definition obx ok err ks en := {| o_ok := ok; o_err := err; o_bad := true; o_keys := ks; o_entries := en |}.

Inductive case :=
| Sched (size : Z) (nkeys : nat) (trace : list (lab * obs))
| Stress (size : Z) (maxr maxw : Z) (mixed : bool) (entries : Z) (bad : bool).

(* ---------------- equality tests ---------------- *)
Definition nl_eqb := list_eqb Nat.eqb.
Definition ks_eqb (a b : Z * Z * bool) : bool :=
  let '(h1, w1, p1) := a in let '(h2, w2, p2) := b in (h1 =? h2) && (w1 =? w2) && Bool.eqb p1 p2.
Definition obs_eqb (a b : obs) : bool :=
  nl_eqb (o_ok a) (o_ok b) && nl_eqb (o_err a) (o_err b) && Bool.eqb (o_bad a) (o_bad b)
  && list_eqb ks_eqb (o_keys a) (o_keys b) && (o_entries a =? o_entries b).

Lemma nl_eqb_eq a b : nl_eqb a b = true -> a = b.
Proof. apply list_eqb_eq. intros x y H. now apply Nat.eqb_eq. Qed.
Lemma ks_eqb_eq a b : ks_eqb a b = true -> a = b.
Proof.
  destruct a as [[h1 w1] p1], b as [[h2 w2] p2]. cbn. intros H.
  apply andb_prop in H as [H Hp]. apply andb_prop in H as [Hh Hw].
  apply Z.eqb_eq in Hh, Hw. apply Bool.eqb_prop in Hp. now subst.
Qed.
Lemma obs_eqb_eq a b : obs_eqb a b = true -> a = b.
Proof.
  destruct a, b. unfold obs_eqb. cbn. intros H.
  apply andb_prop in H as [H He]. apply andb_prop in H as [H Hk]. apply andb_prop in H as [H Hb].
  apply andb_prop in H as [Ho Hr].
  apply nl_eqb_eq in Ho, Hr. apply Bool.eqb_prop in Hb. apply (list_eqb_eq ks_eqb ks_eqb_eq) in Hk. apply Z.eqb_eq in He.
  now subst.
Qed.

(* ---------------- accept: replay in the model ---------------- *)
Definition kobs (s : st) : Z * Z * bool :=
  match ent s with Some e => (cur e, Z.of_nat (length (q e)), true) | None => (0, 0, false) end.
Definition countb (l : list bool) : Z := Z.of_nat (length (filter (fun b => b) l)).
Definition mobs (nk : nat) (S : kst) (g c : list nat) : obs :=
  let ks := map (fun j => kobs (S j)) (seq 0 nk) in
  {| o_ok := g; o_err := c; o_bad := false; o_keys := ks; o_entries := countb (map snd ks) |}.

Fixpoint acc (size : Z) (nk : nat) (S : kst) (tr : list (lab * obs)) : bool :=
  match tr with
  | [] => true
  | (l, o) :: tr' =>
      (lab_key l <? nk)%nat &&
      match kstep size S l with
      | None => false
      | Some (S', g, c) => obs_eqb o (mobs nk S' g c) && acc size nk S' tr'
      end
  end.

(* ---------------- holds: the monitor ---------------- *)
(* per key: callers that returned nil and have not released (with the tokens their call asks for), callers observed
   queued, in arrival order *)
Definition mst := nat -> (list (nat * Z) * list (nat * Z)).
Definition minit : mst := fun _ => ([], []).

(* the callers admitted in this step are the first ones in arrival order *)
Definition prefix_ids (g : list nat) (W : list (nat * Z)) : bool := nl_eqb (map fst (firstn (length g) W)) g.

(* exclusion: one writer alone, or at most rwRatio readers (a writer asks for rwRatio tokens, a reader for one) *)
Definition excl_ok (size : Z) (H : list (nat * Z)) : bool :=
  (Z.of_nat (length H) <=? size) && forallb (fun p => implb (snd p =? size) (Nat.eqb (length H) 1)) H.
(* no missed hand-off: whoever is first in line does not fit beside the current holders *)
Definition head_ok (size : Z) (H W : list (nat * Z)) : bool :=
  match W with [] => true | (_, n) :: _ => size - sumw H <? n end.

Definition mon_step (size : Z) (m : mst) (l : lab) (o : obs) : option mst :=
  let k := lab_key l in
  let '(H, W) := m k in
  if o_bad o then None else
  match l with
  | LAcq t _ w =>
      let n := wt size w in
      if negb (is_nil (o_err o)) then None else                    (* nobody is cancelled by an arrival *)
      if nl_eqb (o_ok o) [t]
      then (if is_nil W then Some (kupd m k (H ++ [(t, n)], W)) else None)   (* admitted at once only when nobody waits *)
      else if is_nil (o_ok o) then Some (kupd m k (H, W ++ [(t, n)]))        (* queued behind everybody *)
      else None                                                    (* an arrival admits nobody else *)
  | LRel t _ =>
      match lookup t H with
      | None => None
      | Some _ =>
        if negb (is_nil (o_err o)) then None else
        if prefix_ids (o_ok o) W
        then Some (kupd m k (remove_first t H ++ firstn (length (o_ok o)) W, skipn (length (o_ok o)) W))
        else None
      end
  | LCancel t _ =>
      match lookup t W with
      | Some _ =>
          (* a queued caller whose context ends returns the context error, holds nothing, and the callers admitted in
             the same step are the first of those who remain *)
          if nl_eqb (o_err o) [t]
          then let W1 := remove_t t W in
               if prefix_ids (o_ok o) W1
               then Some (kupd m k (H ++ firstn (length (o_ok o)) W1, skipn (length (o_ok o)) W1))
               else None
          else None
      | None =>
          (* the context of a caller that already holds ends: a successful acquire holds until its own release *)
          match lookup t H with
          | Some _ => if is_nil (o_ok o) && is_nil (o_err o) then Some m else None
          | None => None
          end
      end
  end.

Definition present (hw : list (nat * Z) * list (nat * Z)) : bool := negb (is_nil (fst hw) && is_nil (snd hw)).

(* residue: the container has an entry for a key exactly while somebody holds it or waits for it *)
Definition hook_ok (nk : nat) (m : mst) (o : obs) : bool :=
  let ps := map (fun j => present (m j)) (seq 0 nk) in
  list_eqb Bool.eqb (map snd (o_keys o)) ps && (o_entries o =? countb ps).

Definition state_ok (size : Z) (hw : list (nat * Z) * list (nat * Z)) : bool :=
  excl_ok size (fst hw) && head_ok size (fst hw) (snd hw).

Fixpoint mon (size : Z) (nk : nat) (m : mst) (tr : list (lab * obs)) : bool :=
  match tr with
  | [] => true
  | (l, o) :: tr' =>
      (lab_key l <? nk)%nat &&
      match mon_step size m l o with
      | None => false
      | Some m' => state_ok size (m' (lab_key l)) && hook_ok nk m' o && mon size nk m' tr'
      end
  end.

Definition stress_ok (size maxr maxw : Z) (mixed : bool) (entries : Z) (bad : bool) : bool :=
  (1 <=? size) && (maxr <=? size) && (maxw <=? 1) && negb mixed && (entries =? 0) && negb bad.

Definition case_accept (c : case) : bool :=
  match c with
  | Sched size nk tr => (1 <=? size) && acc size nk (kinit) tr
  | Stress size maxr maxw mixed entries bad => stress_ok size maxr maxw mixed entries bad
  end.

Definition case_holds (c : case) : bool :=
  match c with
  | Sched size nk tr => (1 <=? size) && mon size nk minit tr
  | Stress size maxr maxw mixed entries bad => stress_ok size maxr maxw mixed entries bad
  end.
