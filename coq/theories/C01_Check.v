(* C01: what the driver evaluates on every observed case.
   A case is either a forced schedule (labels issued one at a time through the public API, with what was observed after
   each of them) or the summary of a free-running stress run (in-section monitor counters).
   case_accept replays the labels in the keyed machine of C01_Model.v and compares every observation;
   case_holds is the property's monitor: it keeps its OWN book of who has returned from Acquire* and not yet released
   and of who was observed queued, in arrival order - it never runs the model (no `notify`, no `cur`). *)
From Coq Require Import ZArith List Lia Bool Arith.
Require Import Cases_Common.
Require Export Semap C01_Model C01_Options.
Import ListNotations.
Open Scope Z_scope.

(* what the harness records after one label *)
Record obs := {
  o_ok : list nat;                 (* callers whose Acquire* returned nil in this step, in arrival order *)
  o_err : list nat;                (* callers whose Acquire* returned context.Canceled in this step *)
  o_bad : bool;                    (* anything else: other error, nil *Weighted with nil error, panic, a step that hung *)
  o_keys : list (Z * Z * bool);    (* per key 0..nkeys-1: VerifKeyState = (held tokens, queued waiters, entry present) *)
  o_entries : Z                    (* VerifEntries *)
}.
Definition ob ok err ks en := {| o_ok := ok; o_err := err; o_bad := false; o_keys := ks; o_entries := en |}.
Definition obx ok err ks en := {| o_ok := ok; o_err := err; o_bad := true; o_keys := ks; o_entries := en |}.

(* one element of a forced schedule:
   Ev l o             label l was issued alone and o was observed once the container was quiescent again;
   Race cf h w k o    ReleaseX of holder h and the cancellation of the context of queued caller w (both on key k) were
                      issued back to back WITHOUT waiting in between (the race of the cancel path: w may notice the
                      cancellation only after it was granted); o is what was observed after both.  cf is the order of
                      the two critical sections as resolved by the harness from w's return value (true: w's cancel
                      section first - it returned the context error; false: the release first). *)
Inductive ev :=
| Ev (l : lab) (o : obs)
| Race (cancel_first : bool) (h w k : nat) (o : obs).

Inductive case :=
| Sched (size : Z) (nkeys : nat) (trace : list ev)
| Stress (size : Z) (maxr maxw : Z) (mixed : bool) (entries : Z) (bad : bool).

(* ---------------- equality tests ---------------- *)
Definition nl_eqb := list_eqb Nat.eqb.
Definition ks_eqb (a b : Z * Z * bool) : bool :=
  let '(h1, w1, p1) := a in let '(h2, w2, p2) := b in (h1 =? h2) && (w1 =? w2) && Bool.eqb p1 p2.
Definition obs_eqb (a b : obs) : bool :=
  nl_eqb (o_ok a) (o_ok b) && nl_eqb (o_err a) (o_err b) && Bool.eqb (o_bad a) (o_bad b)
  && list_eqb ks_eqb (o_keys a) (o_keys b) && (o_entries a =? o_entries b).

Lemma nl_eqb_eq a b : nl_eqb a b = true -> a = b.
Proof. apply list_eqb_eq. intros x y H. now apply Nat.eqb_eq. Qed.
Lemma ks_eqb_eq a b : ks_eqb a b = true -> a = b.
Proof.
  destruct a as [[h1 w1] p1], b as [[h2 w2] p2]. cbn. intros H.
  apply andb_prop in H as [H Hp]. apply andb_prop in H as [Hh Hw].
  apply Z.eqb_eq in Hh, Hw. apply Bool.eqb_prop in Hp. now subst.
Qed.
Lemma obs_eqb_eq a b : obs_eqb a b = true -> a = b.
Proof.
  destruct a, b. unfold obs_eqb. cbn. intros H.
  apply andb_prop in H as [H He]. apply andb_prop in H as [H Hk]. apply andb_prop in H as [H Hb].
  apply andb_prop in H as [Ho Hr].
  apply nl_eqb_eq in Ho, Hr. apply Bool.eqb_prop in Hb. apply (list_eqb_eq ks_eqb ks_eqb_eq) in Hk. apply Z.eqb_eq in He.
  now subst.
Qed.

(* ---------------- accept: replay in the model ---------------- *)
Definition kobs (s : st) : Z * Z * bool :=
  match ent s with Some e => (cur e, Z.of_nat (length (q e)), true) | None => (0, 0, false) end.
Definition countb (l : list bool) : Z := Z.of_nat (length (filter (fun b => b) l)).
Definition mobs (nk : nat) (S : kst) (g c : list nat) : obs :=
  let ks := map (fun j => kobs (S j)) (seq 0 nk) in
  {| o_ok := g; o_err := c; o_bad := false; o_keys := ks; o_entries := countb (map snd ks) |}.

Definition kstep2 (size : Z) (S : kst) (l1 l2 : lab) : option (kst * list nat * list nat) :=
  match kstep size S l1 with
  | Some (S1, g1, c1) =>
      match kstep size S1 l2 with
      | Some (S2, g2, c2) => Some (S2, g1 ++ g2, c1 ++ c2)
      | None => None
      end
  | None => None
  end.
Definition is_some {A} (o : option A) : bool := match o with Some _ => true | None => false end.

Fixpoint acc (size : Z) (nk : nat) (S : kst) (tr : list ev) : bool :=
  match tr with
  | [] => true
  | Ev l o :: tr' =>
      (lab_key l <? nk)%nat &&
      match kstep size S l with
      | None => false
      | Some (S', g, c) => obs_eqb o (mobs nk S' g c) && acc size nk S' tr'
      end
  | Race cf h w k o :: tr' =>
      (k <? nk)%nat && is_some (lookup h (held (S k))) && is_some (lookup w (qof (S k))) &&
      match (if cf then kstep2 size S (LCancel w k) (LRel h k) else kstep2 size S (LRel h k) (LCancel w k)) with
      | None => false
      | Some (S', g, c) => obs_eqb o (mobs nk S' g c) && acc size nk S' tr'
      end
  end.

(* ---------------- holds: the monitor ---------------- *)
(* per key: callers that returned nil and have not released (with the tokens their call asks for), callers observed
   queued, in arrival order *)
Definition mst := nat -> (list (nat * Z) * list (nat * Z)).
Definition minit : mst := fun _ => ([], []).

(* the callers admitted in this step are the first ones in arrival order *)
Definition prefix_ids (g : list nat) (W : list (nat * Z)) : bool := nl_eqb (map fst (firstn (length g) W)) g.

(* exclusion: one writer alone, or at most rwRatio readers (a writer asks for rwRatio tokens, a reader for one) *)
Definition excl_ok (size : Z) (H : list (nat * Z)) : bool :=
  (Z.of_nat (length H) <=? size) && forallb (fun p => implb (snd p =? size) (Nat.eqb (length H) 1)) H.
(* no missed hand-off: whoever is first in line does not fit beside the current holders *)
Definition head_ok (size : Z) (H W : list (nat * Z)) : bool :=
  match W with [] => true | (_, n) :: _ => size - sumw H <? n end.

Definition mon_step (size : Z) (m : mst) (l : lab) (o : obs) : option mst :=
  let k := lab_key l in
  let '(H, W) := m k in
  if o_bad o then None else
  match l with
  | LAcq t _ w =>
      let n := wt size w in
      if negb (is_nil (o_err o)) then None else                    (* nobody is cancelled by an arrival *)
      if nl_eqb (o_ok o) [t]
      then (if is_nil W then Some (kupd m k (H ++ [(t, n)], W)) else None)   (* admitted at once only when nobody waits *)
      else if is_nil (o_ok o) then Some (kupd m k (H, W ++ [(t, n)]))        (* queued behind everybody *)
      else None                                                    (* an arrival admits nobody else *)
  | LRel t _ =>
      match lookup t H with
      | None => None
      | Some _ =>
        if negb (is_nil (o_err o)) then None else
        if prefix_ids (o_ok o) W
        then Some (kupd m k (remove_first t H ++ firstn (length (o_ok o)) W, skipn (length (o_ok o)) W))
        else None
      end
  | LCancel t _ =>
      match lookup t W with
      | Some _ =>
          (* a queued caller whose context ends returns the context error, holds nothing, and the callers admitted in
             the same step are the first of those who remain *)
          if nl_eqb (o_err o) [t]
          then let W1 := remove_t t W in
               if prefix_ids (o_ok o) W1
               then Some (kupd m k (H ++ firstn (length (o_ok o)) W1, skipn (length (o_ok o)) W1))
               else None
          else None
      | None =>
          (* the context of a caller that already holds ends: a successful acquire holds until its own release *)
          match lookup t H with
          | Some _ => if is_nil (o_ok o) && is_nil (o_err o) then Some m else None
          | None => None
          end
      end
  end.

(* a release racing with the cancellation of a queued caller w: h holds no longer; w returns in this step - with the
   context error (then it holds nothing and waits no longer) or admitted (then it holds until its own release); nobody
   else leaves with an error; the callers admitted are the first in arrival order among those who remain *)
Definition memb (t : nat) (l : list nat) : bool := existsb (Nat.eqb t) l.
Definition mon_race (m : mst) (h w k : nat) (o : obs) : option mst :=
  let '(H, W) := m k in
  if o_bad o then None else
  match lookup h H, lookup w W with
  | Some _, Some _ =>
      let cancelled := nl_eqb (o_err o) [w] in
      if cancelled || is_nil (o_err o) then
        let W1 := if cancelled then remove_t w W else W in
        if prefix_ids (o_ok o) W1 && (cancelled || memb w (o_ok o))
        then Some (kupd m k (remove_first h H ++ firstn (length (o_ok o)) W1, skipn (length (o_ok o)) W1))
        else None
      else None
  | _, _ => None
  end.

Definition present (hw : list (nat * Z) * list (nat * Z)) : bool := negb (is_nil (fst hw) && is_nil (snd hw)).

(* residue: the container has an entry for a key exactly while somebody holds it or waits for it *)
Definition hook_ok (nk : nat) (m : mst) (o : obs) : bool :=
  let ps := map (fun j => present (m j)) (seq 0 nk) in
  list_eqb Bool.eqb (map snd (o_keys o)) ps && (o_entries o =? countb ps).

Definition state_ok (size : Z) (hw : list (nat * Z) * list (nat * Z)) : bool :=
  excl_ok size (fst hw) && head_ok size (fst hw) (snd hw).

Fixpoint mon (size : Z) (nk : nat) (m : mst) (tr : list ev) : bool :=
  match tr with
  | [] => true
  | Ev l o :: tr' =>
      (lab_key l <? nk)%nat &&
      match mon_step size m l o with
      | None => false
      | Some m' => state_ok size (m' (lab_key l)) && hook_ok nk m' o && mon size nk m' tr'
      end
  | Race _ h w k o :: tr' =>
      (k <? nk)%nat &&
      match mon_race m h w k o with
      | None => false
      | Some m' => state_ok size (m' k) && hook_ok nk m' o && mon size nk m' tr'
      end
  end.

Definition stress_ok (size maxr maxw : Z) (mixed : bool) (entries : Z) (bad : bool) : bool :=
  (1 <=? size) && (maxr <=? size) && (maxw <=? 1) && negb mixed && (entries =? 0) && negb bad.

Definition case_accept (c : case) : bool :=
  match c with
  | Sched size nk tr => (1 <=? size) && acc size nk (kinit) tr
  | Stress size maxr maxw mixed entries bad => stress_ok size maxr maxw mixed entries bad
  end.

Definition case_holds (c : case) : bool :=
  match c with
  | Sched size nk tr => (1 <=? size) && mon size nk minit tr
  | Stress size maxr maxw mixed entries bad => stress_ok size maxr maxw mixed entries bad
  end.

(* ---------------- soundness: what the model produces satisfies the monitor ---------------- *)
Definition Rel_ms (m : mst) (S : kst) : Prop := forall k, m k = (held (S k), qof (S k)).

Lemma nl_eqb_refl l : nl_eqb l l = true.
Proof. apply list_eqb_refl. apply Nat.eqb_refl. Qed.

Lemma firstn_ids {A B} (f : A -> B) (gw w : list A) : firstn (length (map f gw)) (gw ++ w) = gw.
Proof. rewrite map_length. rewrite firstn_app, Nat.sub_diag, firstn_all. cbn. apply app_nil_r. Qed.
Lemma skipn_ids {A B} (f : A -> B) (gw w : list A) : skipn (length (map f gw)) (gw ++ w) = w.
Proof. rewrite map_length. rewrite skipn_app, Nat.sub_diag, skipn_all. reflexivity. Qed.
Lemma prefix_ids_app gw w : prefix_ids (map fst gw) (gw ++ w) = true.
Proof. unfold prefix_ids. rewrite firstn_ids. apply nl_eqb_refl. Qed.

Lemma Rel_ms_upd m S k s' : Rel_ms m S -> Rel_ms (kupd m k (held s', qof s')) (kupd S k s').
Proof. intros H j. unfold kupd. destruct (Nat.eqb j k); [reflexivity|apply H]. Qed.

Ltac fin := match goal with
  | Hh : held ?s' = _ |- Rel_ms (kupd _ _ ?X) (kupd _ _ ?s') =>
      replace X with (held s', qof s') by (rewrite Hh; try match goal with Hq : qof s' = _ |- _ => rewrite Hq end; reflexivity);
      now apply Rel_ms_upd
  end.

Lemma mon_step_model size m S l S' g c nk : 1 <= size ->
  Rel_ms m S -> KInv size S -> kstep size S l = Some (S', g, c) ->
  exists m', mon_step size m l (mobs nk S' g c) = Some m' /\ Rel_ms m' S'.
Proof.
  intros Hs Hrel Hinv Hk. unfold kstep in Hk.
  destruct (stepo size (S (lab_key l)) (lab_sem size l)) as [[[s' g0] c0]|] eqn:E; [|discriminate].
  inversion Hk; subst; clear Hk.
  pose proof (Hinv (lab_key l)) as Hi.
  unfold mon_step. rewrite (Hrel (lab_key l)). cbn [mobs o_bad o_ok o_err].
  destruct l as [t k w|t k|t k]; cbn [lab_key lab_sem] in *.
  - destruct (stepo_acq size _ _ _ _ _ _ Hi E) as (-> & [(-> & Hq & _ & Hh & Hq')|(-> & _ & Hh & Hq')]); cbn [is_nil negb].
    + unfold nl_eqb at 1. cbn [list_eqb]. rewrite Nat.eqb_refl. cbn [andb]. rewrite Hq. cbn [is_nil].
      eexists; split; [reflexivity|]. fin.
    + unfold nl_eqb at 1. cbn [list_eqb is_nil].
      eexists; split; [reflexivity|]. fin.
  - destruct (stepo_cancel size _ _ _ _ _ Hi E) as [(n & Hl & -> & gw & -> & Hr & Hh)|(Hl & (n & Hl2) & -> & -> & ->)].
    + rewrite Hl. unfold nl_eqb at 1. cbn [list_eqb]. rewrite Nat.eqb_refl. cbn [andb].
      rewrite Hr, prefix_ids_app, firstn_ids, skipn_ids.
      eexists; split; [reflexivity|]. fin.
    + rewrite Hl, Hl2. cbn [is_nil andb]. eexists; split; [reflexivity|].
      intros j. unfold kupd. destruct (Nat.eqb j k) eqn:Ej; [|apply Hrel]. apply Nat.eqb_eq in Ej. subst. apply Hrel.
  - destruct (stepo_rel size _ _ _ _ _ Hi E) as (-> & n & gw & Hl & -> & Hq & Hh).
    rewrite Hl. cbn [is_nil negb]. rewrite Hq, prefix_ids_app, firstn_ids, skipn_ids.
    eexists; split; [reflexivity|]. fin.
Qed.

Lemma wf_len_sum size l : wf_w size l -> Z.of_nat (length l) <= sumw l.
Proof.
  unfold wf_w, sumw. induction 1 as [|[t n] l Hx Hl IH]; cbn [length fold_right snd]; [cbn; lia|].
  rewrite Nat2Z.inj_succ. cbn in Hx. lia.
Qed.
Lemma wf_in_sum size l p : wf_w size l -> In p l -> snd p + Z.of_nat (length l) - 1 <= sumw l.
Proof.
  unfold wf_w. induction 1 as [|[t n] l Hx Hl IH]; intros Hin; [destruct Hin|].
  change (sumw ((t, n) :: l)) with (n + sumw l). cbn [length]. rewrite Nat2Z.inj_succ. cbn in Hx.
  destruct Hin as [<-|Hin].
  - pose proof (wf_len_sum size l Hl). cbn. lia.
  - specialize (IH Hin). lia.
Qed.

Lemma inv_sum_le size s : 1 <= size -> Inv size s -> sumw (held s) <= size.
Proof.
  intros Hs [Hh He]. destruct (ent s) as [e|]; [destruct He as (-> & ? & _); lia | rewrite He; cbn; lia].
Qed.

Lemma state_ok_inv size s : 1 <= size -> Inv size s -> state_ok size (held s, qof s) = true.
Proof.
  intros Hs Hi. pose proof (inv_sum_le size s Hs Hi) as Hsum. destruct Hi as [Hh He].
  unfold state_ok. cbn [fst snd]. apply andb_true_intro. split.
  - unfold excl_ok. apply andb_true_intro. split.
    + apply Z.leb_le. pose proof (wf_len_sum size _ Hh). lia.
    + apply forallb_forall. intros p Hp. destruct (snd p =? size) eqn:E; [|reflexivity]. cbn [implb].
      apply Z.eqb_eq in E. apply Nat.eqb_eq. pose proof (wf_in_sum size _ p Hh Hp).
      destruct (held s); [destruct Hp|]. cbn [length] in *. lia.
  - unfold head_ok, qof. destruct (ent s) as [e|]; [|reflexivity].
    destruct He as (Hc & _ & _ & Hu). destruct (q e) as [|[t n] r]; [reflexivity|]. cbn in Hu. apply Z.ltb_lt. lia.
Qed.

Lemma present_inv size s : 1 <= size -> Inv size s -> snd (kobs s) = present (held s, qof s).
Proof.
  intros Hs [Hh He]. unfold kobs, present, qof. cbn [fst snd]. destruct (ent s) as [e|].
  - destruct He as (Hc & Hb & _). cbn [snd]. destruct (held s); [cbn in Hc; lia|reflexivity].
  - rewrite He. reflexivity.
Qed.

Lemma beqb_list_refl l : list_eqb Bool.eqb l l = true.
Proof. apply list_eqb_refl. intros []; reflexivity. Qed.

Lemma hook_ok_model size nk m S g c : 1 <= size -> Rel_ms m S -> KInv size S -> hook_ok nk m (mobs nk S g c) = true.
Proof.
  intros Hs Hrel Hinv. unfold hook_ok, mobs. cbn [o_keys o_entries].
  assert (E : map snd (map (fun j => kobs (S j)) (seq 0 nk)) = map (fun j => present (m j)) (seq 0 nk)).
  { rewrite map_map. apply map_ext. intros j. rewrite (Hrel j). apply (present_inv size); auto. }
  rewrite E. rewrite beqb_list_refl, Z.eqb_refl. reflexivity.
Qed.

(* ---- the racing pair ---- *)
Lemma remove_t_notin t l : ~ In t (map fst l) -> remove_t t l = l.
Proof.
  unfold remove_t. induction l as [|[t' n] l IH]; cbn; [reflexivity|]. intros H.
  destruct (Nat.eqb t' t) eqn:E; cbn.
  - apply Nat.eqb_eq in E. subst. tauto.
  - f_equal. apply IH. tauto.
Qed.
Lemma remove_t_app' t a b : remove_t t (a ++ b) = remove_t t a ++ remove_t t b.
Proof. unfold remove_t. apply filter_app. Qed.
Lemma lookup_some_in_fst t l n : lookup t l = Some n -> In t (map fst l).
Proof. intros H. apply lookup_some_in in H. apply in_map_iff. exists (t, n). auto. Qed.
Lemma nodup_app_notin {A} (l1 l2 : list A) x : NoDup (l1 ++ l2) -> In x l2 -> ~ In x l1.
Proof.
  induction l1 as [|y l1 IH]; cbn; [tauto|]. intros Hn H2 [->|H1].
  - inversion Hn as [|? ? Hx _]; subst. apply Hx. apply in_or_app. auto.
  - inversion Hn; subst. apply IH; auto.
Qed.
Lemma nodup_app_r' {A} (a b : list A) : NoDup (a ++ b) -> NoDup b.
Proof. induction a as [|x a IH]; cbn; auto. intros H. inversion H; auto. Qed.
Lemma remove_first_app t l g n : lookup t l = Some n -> remove_first t (l ++ g) = remove_first t l ++ g.
Proof.
  unfold lookup. induction l as [|[t' n'] l IH]; cbn; [discriminate|].
  destruct (Nat.eqb t' t); cbn; [reflexivity|]. intros H. now rewrite IH.
Qed.
Lemma memb_in t l : In t l -> memb t l = true.
Proof. intros H. unfold memb. apply existsb_exists. exists t. split; auto. apply Nat.eqb_refl. Qed.
Lemma nl_eqb_nil_cons t : nl_eqb [] [t] = false.
Proof. reflexivity. Qed.
Lemma nl_eqb_single t : nl_eqb [t] [t] = true.
Proof. unfold nl_eqb. cbn. now rewrite Nat.eqb_refl. Qed.

Lemma Rel_ms_upd2 m S k s1 s2 : Rel_ms m S -> Rel_ms (kupd m k (held s2, qof s2)) (kupd (kupd S k s1) k s2).
Proof. intros H j. unfold kupd. destruct (Nat.eqb j k); [reflexivity|apply H]. Qed.

Lemma kstep_shape size S l S' g c : kstep size S l = Some (S', g, c) ->
  exists s', stepo size (S (lab_key l)) (lab_sem size l) = Some (s', g, c) /\ S' = kupd S (lab_key l) s'.
Proof.
  unfold kstep. destruct (stepo size (S (lab_key l)) (lab_sem size l)) as [[[s' g0] c0]|]; [|discriminate].
  intros H. inversion H; subst. eauto.
Qed.

Lemma mon_race_model size m S (cf : bool) h w k S' g c nk : 1 <= size ->
  Rel_ms m S -> KInv size S -> KNoDup S ->
  is_some (lookup h (held (S k))) = true -> is_some (lookup w (qof (S k))) = true ->
  (if cf then kstep2 size S (LCancel w k) (LRel h k) else kstep2 size S (LRel h k) (LCancel w k)) = Some (S', g, c) ->
  exists m', mon_race m h w k (mobs nk S' g c) = Some m' /\ Rel_ms m' S'.
Proof.
  intros Hs Hrel Hinv Hnd Hh Hw Hk.
  destruct (lookup h (held (S k))) as [nh|] eqn:Elh; [|discriminate].
  destruct (lookup w (qof (S k))) as [nw|] eqn:Elw; [|discriminate].
  pose proof (Hinv k) as Hi.
  assert (Hndq : NoDup (map fst (qof (S k)))).
  { specialize (Hnd k). unfold tids in Hnd. rewrite map_app in Hnd. apply (nodup_app_r' _ _ Hnd). }
  unfold mon_race. rewrite (Hrel k). cbn [mobs o_bad o_ok o_err]. rewrite Elh, Elw.
  unfold kstep2 in Hk. destruct cf.
  - (* the cancel section first, then the release *)
    destruct (kstep size S (LCancel w k)) as [[[S1 g1] c1]|] eqn:E1; [|discriminate].
    destruct (kstep size S1 (LRel h k)) as [[[S2 g2] c2]|] eqn:E2; [|discriminate].
    inversion Hk; subst; clear Hk.
    pose proof (kstep_inv size Hs _ _ _ _ _ Hinv E1) as Hinv1.
    apply kstep_shape in E1 as (s1 & E1 & ->). apply kstep_shape in E2 as (s2 & E2 & ->).
    cbn [lab_key lab_sem] in *. rewrite kupd_same in E2.
    destruct (stepo_cancel size _ _ _ _ _ Hi E1) as [(n & _ & -> & gw1 & -> & Hr1 & Hh1)|(Hl & _)]; [|congruence].
    assert (Hi1 : Inv size s1) by (specialize (Hinv1 k); now rewrite kupd_same in Hinv1).
    destruct (stepo_rel size _ _ _ _ _ Hi1 E2) as (-> & n2 & gw2 & _ & -> & Hq2 & Hh2).
    cbn [app]. rewrite nl_eqb_single. cbn [orb].
    rewrite Hr1, Hq2. rewrite <- map_app. rewrite app_assoc, prefix_ids_app, firstn_ids, skipn_ids. cbn [andb].
    eexists; split; [reflexivity|].
    replace (remove_first h (held (S k)) ++ gw1 ++ gw2, qof s2) with (held s2, qof s2).
    + now apply Rel_ms_upd2.
    + rewrite Hh2, Hh1. rewrite (remove_first_app _ _ _ _ Elh). now rewrite app_assoc.
  - (* the release first, then the cancel section *)
    destruct (kstep size S (LRel h k)) as [[[S1 g1] c1]|] eqn:E1; [|discriminate].
    destruct (kstep size S1 (LCancel w k)) as [[[S2 g2] c2]|] eqn:E2; [|discriminate].
    inversion Hk; subst; clear Hk.
    pose proof (kstep_inv size Hs _ _ _ _ _ Hinv E1) as Hinv1.
    apply kstep_shape in E1 as (s1 & E1 & ->). apply kstep_shape in E2 as (s2 & E2 & ->).
    cbn [lab_key lab_sem] in *. rewrite kupd_same in E2.
    destruct (stepo_rel size _ _ _ _ _ Hi E1) as (-> & n1 & gw1 & _ & -> & Hq1 & Hh1).
    assert (Hi1 : Inv size s1) by (specialize (Hinv1 k); now rewrite kupd_same in Hinv1).
    cbn [app].
    destruct (stepo_cancel size _ _ _ _ _ Hi1 E2) as [(n & Hl2 & -> & gw2 & -> & Hr2 & Hh2)|(Hl2 & _ & -> & -> & ->)].
    + (* w was not admitted by the release: it leaves with the error *)
      rewrite nl_eqb_single. cbn [orb].
      assert (Hnot : ~ In w (map fst gw1)).
      { rewrite Hq1, map_app in Hndq. apply (nodup_app_notin _ _ w Hndq). eapply lookup_some_in_fst; eauto. }
      rewrite Hq1, remove_t_app', (remove_t_notin _ _ Hnot), Hr2. rewrite <- map_app.
      rewrite app_assoc, prefix_ids_app, firstn_ids, skipn_ids. cbn [andb].
      eexists; split; [reflexivity|].
      replace (remove_first h (held (S k)) ++ gw1 ++ gw2, qof s2) with (held s2, qof s2).
      * now apply Rel_ms_upd2.
      * rewrite Hh2, Hh1. now rewrite app_assoc.
    + (* w was admitted by the release: the cancellation comes too late *)
      rewrite app_nil_r. rewrite nl_eqb_nil_cons. cbn [orb is_nil].
      rewrite Hq1, prefix_ids_app, firstn_ids, skipn_ids.
      assert (Hin : In w (map fst gw1)).
      { apply lookup_some_in_fst in Elw. rewrite Hq1, map_app in Elw. apply in_app_or in Elw as [H|H]; [exact H|].
        exfalso. apply lookup_none_notin in Hl2. contradiction. }
      rewrite (memb_in _ _ Hin). cbn [andb].
      eexists; split; [reflexivity|].
      replace (remove_first h (held (S k)) ++ gw1, qof s1) with (held s1, qof s1) by (now rewrite Hh1).
      now apply Rel_ms_upd2.
Qed.

Lemma kstep2_inv size S l1 l2 S' g c : 1 <= size -> KInv size S -> KNoDup S -> kstep2 size S l1 l2 = Some (S', g, c) ->
  KInv size S' /\ KNoDup S'.
Proof.
  intros Hs Hi Hn H. unfold kstep2 in H.
  destruct (kstep size S l1) as [[[S1 g1] c1]|] eqn:E1; [|discriminate].
  destruct (kstep size S1 l2) as [[[S2 g2] c2]|] eqn:E2; [|discriminate].
  inversion H; subst.
  pose proof (kstep_inv size Hs _ _ _ _ _ Hi E1) as Hi1. pose proof (kstep_nodup size _ _ _ _ _ Hi Hn E1) as Hn1.
  split; [eapply kstep_inv; eauto | eapply kstep_nodup; eauto].
Qed.

Lemma acc_mon size nk : 1 <= size -> forall tr S m,
  Rel_ms m S -> KInv size S -> KNoDup S -> acc size nk S tr = true -> mon size nk m tr = true.
Proof.
  intros Hs. induction tr as [|[l o|cf h w k o] tr IH]; intros S m Hrel Hinv Hnd H; [reflexivity| |].
  - cbn [acc mon] in *. apply andb_prop in H as [Hk H]. rewrite Hk. cbn [andb].
    destruct (kstep size S l) as [[[S' g] c]|] eqn:E; [|discriminate].
    apply andb_prop in H as [Ho H]. apply obs_eqb_eq in Ho. subst o.
    destruct (mon_step_model size m S l S' g c nk Hs Hrel Hinv E) as (m' & Hm & Hrel').
    rewrite Hm. pose proof (kstep_inv size Hs _ _ _ _ _ Hinv E) as Hinv'.
    pose proof (kstep_nodup size _ _ _ _ _ Hinv Hnd E) as Hnd'.
    rewrite (Hrel' (lab_key l)). rewrite (state_ok_inv size _ Hs (Hinv' _)).
    rewrite (hook_ok_model size nk m' S' g c Hs Hrel' Hinv'). cbn [andb].
    apply (IH S' m' Hrel' Hinv' Hnd' H).
  - cbn [acc mon] in *. apply andb_prop in H as [H H2]. apply andb_prop in H as [H Hw]. apply andb_prop in H as [Hk Hh].
    rewrite Hk. cbn [andb].
    destruct (if cf then kstep2 size S (LCancel w k) (LRel h k) else kstep2 size S (LRel h k) (LCancel w k))
      as [[[S' g] c]|] eqn:E; [|discriminate].
    apply andb_prop in H2 as [Ho H2]. apply obs_eqb_eq in Ho. subst o.
    destruct (mon_race_model size m S cf h w k S' g c nk Hs Hrel Hinv Hnd Hh Hw E) as (m' & Hm & Hrel').
    rewrite Hm.
    assert (Hboth : KInv size S' /\ KNoDup S').
    { destruct cf; eapply kstep2_inv; eauto. }
    destruct Hboth as [Hinv' Hnd'].
    rewrite (Hrel' k). rewrite (state_ok_inv size _ Hs (Hinv' _)).
    rewrite (hook_ok_model size nk m' S' g c Hs Hrel' Hinv'). cbn [andb].
    apply (IH S' m' Hrel' Hinv' Hnd' H2).
Qed.

Theorem case_sound : forall c, case_accept c = true -> case_holds c = true.
Proof.
  intros [size nk tr|size maxr maxw mixed entries bad]; cbn [case_accept case_holds]; [|auto].
  intros H. apply andb_prop in H as [Hs H]. rewrite Hs. cbn [andb]. apply Z.leb_le in Hs.
  apply (acc_mon size nk Hs tr (kinit) minit); auto.
  - intros k. reflexivity.
  - intros k. apply init_inv.
  - apply kinit_nodup.
Qed.

(* ---------------- non-vacuity: the monitor rejects, the model accepts ---------------- *)
(* what the pinned tree did (defect 1): two readers, one releases, the entry disappears although caller 2 still holds,
   a writer is then admitted beside it *)
Example defect1_rejected :
  case_holds (Sched 3 1 [Ev (LAcq 1 0 false) (ob [1]%nat [] [(1,0,true)]%Z 1);
                          Ev (LAcq 2 0 false) (ob [2]%nat [] [(2,0,true)]%Z 1);
                          Ev (LRel 1 0) (ob [] [] [(0,0,false)]%Z 0);
                          Ev (LAcq 3 0 true) (ob [3]%nat [] [(3,0,true)]%Z 1)]) = false.
Proof. vm_compute. reflexivity. Qed.
(* the same history with the residue hook silenced: the exclusion clause alone rejects it at the last step *)
Example defect1_rejected_by_exclusion :
  case_holds (Sched 3 1 [Ev (LAcq 1 0 false) (ob [1]%nat [] [(1,0,true)]%Z 1);
                          Ev (LAcq 2 0 false) (ob [2]%nat [] [(2,0,true)]%Z 1);
                          Ev (LRel 1 0) (ob [] [] [(1,0,true)]%Z 1)]) = true /\
  case_holds (Sched 3 1 [Ev (LAcq 1 0 false) (ob [1]%nat [] [(1,0,true)]%Z 1);
                          Ev (LAcq 2 0 false) (ob [2]%nat [] [(2,0,true)]%Z 1);
                          Ev (LRel 1 0) (ob [] [] [(1,0,true)]%Z 1);
                          Ev (LAcq 3 0 true) (ob [3]%nat [] [(4,0,true)]%Z 1)]) = false.
Proof. split; vm_compute; reflexivity. Qed.
(* what the repaired tree does on the same calls *)
Example repaired_accepted :
  case_accept (Sched 3 1 [Ev (LAcq 1 0 false) (ob [1]%nat [] [(1,0,true)]%Z 1);
                           Ev (LAcq 2 0 false) (ob [2]%nat [] [(2,0,true)]%Z 1);
                           Ev (LRel 1 0) (ob [] [] [(1,0,true)]%Z 1);
                           Ev (LAcq 3 0 true) (ob [] [] [(1,1,true)]%Z 1);
                           Ev (LRel 2 0) (ob [3]%nat [] [(3,0,true)]%Z 1);
                           Ev (LRel 3 0) (ob [] [] [(0,0,false)]%Z 0)]) = true.
Proof. vm_compute. reflexivity. Qed.
(* the race of the cancel path: both outcomes are admitted; a cancelled waiter that keeps its tokens is rejected *)
Example race_both_outcomes_accepted :
  case_accept (Sched 3 1 [Ev (LAcq 1 0 true) (ob [1]%nat [] [(3,0,true)]%Z 1);
                           Ev (LAcq 2 0 true) (ob [] [] [(3,1,true)]%Z 1);
                           Race false 1 2 0 (ob [2]%nat [] [(3,0,true)]%Z 1);
                           Ev (LRel 2 0) (ob [] [] [(0,0,false)]%Z 0)]) = true /\
  case_accept (Sched 3 1 [Ev (LAcq 1 0 true) (ob [1]%nat [] [(3,0,true)]%Z 1);
                           Ev (LAcq 2 0 true) (ob [] [] [(3,1,true)]%Z 1);
                           Race true 1 2 0 (ob [] [2]%nat [(0,0,false)]%Z 0)]) = true.
Proof. split; vm_compute; reflexivity. Qed.
Example race_leak_rejected :
  case_holds (Sched 3 1 [Ev (LAcq 1 0 true) (ob [1]%nat [] [(3,0,true)]%Z 1);
                          Ev (LAcq 2 0 true) (ob [] [] [(3,1,true)]%Z 1);
                          Race true 1 2 0 (ob [] [2]%nat [(3,0,true)]%Z 1)]) = false.
Proof. vm_compute. reflexivity. Qed.
