(* C01 core: the per-key machine of SemMap (acquire / cancel / release at mutex granularity) *)
From Coq Require Import ZArith List Lia Bool Arith.
Import ListNotations.
Open Scope Z_scope.

Record entry := { cur : Z; q : list (nat * Z) }.            (* tokens held, FIFO of (tid, weight) *)
Record st := { ent : option entry; held : list (nat * Z) }. (* map entry for the key, ghost holders *)
Inductive label := Acq (t : nat) (n : Z) | Cancel (t : nat) | Rel (t : nat).

Definition lookup (t : nat) (l : list (nat * Z)) : option Z :=
  option_map snd (find (fun p => Nat.eqb (fst p) t) l).
Definition remove_t (t : nat) (l : list (nat * Z)) := filter (fun p => negb (Nat.eqb (fst p) t)) l.
Fixpoint remove_first (t : nat) (l : list (nat * Z)) : list (nat * Z) :=
  match l with [] => [] | p :: r => if Nat.eqb (fst p) t then r else p :: remove_first t r end.
Definition sumw (l : list (nat * Z)) := fold_right (fun p a => snd p + a) 0 l.
Definition is_nil {A} (l : list A) := match l with [] => true | _ => false end.

Section S.
Variable size : Z.            (* rwRatio *)
Variable fixed : bool.        (* true: release deletes only when cur = 0; false: the pinned tree's rule *)

(* notifyWaiters: grant strictly from the head while the head fits *)
Fixpoint notify (c : Z) (w g : list (nat * Z)) : Z * list (nat * Z) * list (nat * Z) :=
  match w with
  | [] => (c, [], g)
  | (t, n) :: w' => if size - c <? n then (c, w, g) else notify (c + n) w' (g ++ [(t, n)])
  end.

Definition step (s : st) (l : label) : option st :=
  match l with
  | Acq t n =>
      match lookup t (held s) with Some _ => None | None =>
      let e := match ent s with Some e => e | None => {| cur := 0; q := [] |} end in
      match lookup t (q e) with Some _ => None | None =>
      if (n <=? size - cur e) && is_nil (q e)
      then Some {| ent := Some {| cur := cur e + n; q := [] |}; held := held s ++ [(t, n)] |}
      else Some {| ent := Some {| cur := cur e; q := q e ++ [(t, n)] |}; held := held s |}
      end end
  | Cancel t =>
      match ent s with None => None | Some e =>
      match lookup t (q e) with None => None | Some _ =>
        let isfront := match q e with (t', _) :: _ => Nat.eqb t t' | [] => false end in
        let q' := remove_t t (q e) in
        if isfront && (cur e <? size)
        then let '(c, w, g) := notify (cur e) q' [] in Some {| ent := Some {| cur := c; q := w |}; held := held s ++ g |}
        else Some {| ent := Some {| cur := cur e; q := q' |}; held := held s |}
      end end
  | Rel t =>
      match ent s, lookup t (held s) with
      | Some e, Some n =>
        let '(c, w, g) := notify (cur e - n) (q e) [] in
        let h := remove_first t (held s) ++ g in
        if is_nil w && (if fixed then c =? 0 else true)
        then Some {| ent := None; held := h |}
        else Some {| ent := Some {| cur := c; q := w |}; held := h |}
      | _, _ => None
      end
  end.

Fixpoint run (s : st) (ls : list label) : option st :=
  match ls with [] => Some s | l :: ls => match step s l with Some s' => run s' ls | None => None end end.

Definition init := {| ent := None; held := [] |}.
End S.

(* the pinned tree's release rule lets a writer in beside a reader: R(1) R(2) release(1) W(3), rwRatio 3 *)
Example release_prefix_refuted :
  exists s, run 3 false init [Acq 1 1; Acq 2 1; Rel 1; Acq 3 3] = Some s /\ held s = [(2%nat, 1); (3%nat, 3)].
Proof. eexists. split; vm_compute; reflexivity. Qed.

(* ---------------- invariants of the repaired machine ---------------- *)
Section Inv.
Variable size : Z.
Hypothesis size_pos : 1 <= size.
Notation step := (step size true).
Notation run := (run size true).

Definition wf_w (l : list (nat * Z)) := Forall (fun p => 1 <= snd p <= size) l.
Definition head_unfit (c : Z) (w : list (nat * Z)) := match w with [] => True | (_, n) :: _ => size - c < n end.

Definition Inv (s : st) : Prop :=
  wf_w (held s) /\
  match ent s with
  | None => held s = []
  | Some e => cur e = sumw (held s) /\ 0 < cur e <= size /\ wf_w (q e) /\ head_unfit (cur e) (q e)
  end.

Lemma sumw_app a b : sumw (a ++ b) = sumw a + sumw b.
Proof. unfold sumw. induction a as [|x a IH]; cbn in *; lia. Qed.

Lemma sumw_pos l : wf_w l -> 0 <= sumw l /\ (sumw l = 0 -> l = []).
Proof.
  unfold wf_w, sumw. induction 1 as [|x l Hx Hl [IH1 IH2]]; cbn; [split; [lia|auto]|]. split; [lia|]. intros H0. exfalso. lia.
Qed.

Lemma notify_spec : forall w c g c' w' g',
  notify size c w g = (c', w', g') -> wf_w w -> 0 <= c <= size ->
  exists g2, g' = g ++ g2 /\ w = g2 ++ w' /\ c' = c + sumw g2 /\ 0 <= c' <= size /\ wf_w g2 /\ wf_w w' /\ head_unfit c' w'.
Proof.
  induction w as [|[t n] w IH]; cbn [notify]; intros c g c' w' g' H Hw Hc.
  - inversion H; subst. exists []. rewrite app_nil_r. cbn. repeat split; try lia; constructor.
  - inversion Hw as [|? ? Hn Hw']; subst. cbn in Hn.
    destruct (size - c <? n) eqn:E.
    + inversion H; subst. apply Z.ltb_lt in E. exists []. rewrite app_nil_r. cbn.
      repeat split; try lia; try constructor; auto.
    + apply Z.ltb_ge in E. apply IH in H; auto; try lia.
      destruct H as (g2 & -> & -> & -> & ? & ? & ? & ?).
      exists ((t, n) :: g2). rewrite <- app_assoc. cbn. unfold sumw in *. cbn. repeat split; auto; try lia.
      constructor; auto.
Qed.

Lemma lookup_weight t l n : wf_w l -> lookup t l = Some n -> 1 <= n <= size.
Proof.
  unfold lookup, wf_w. intros Hl. destruct (find _ l) as [[t' n']|] eqn:F; cbn; [|discriminate].
  intros [= ->]. apply find_some in F as [Hin _]. rewrite Forall_forall in Hl. apply (Hl _ Hin).
Qed.

Lemma remove_first_spec t l n : wf_w l -> lookup t l = Some n ->
  sumw (remove_first t l) = sumw l - n /\ wf_w (remove_first t l).
Proof.
  unfold lookup, wf_w, sumw. induction l as [|[t' n'] l IH]; cbn; [discriminate|].
  intros Hl. inversion Hl as [|? ? Hx Hl']; subst. destruct (Nat.eqb t' t) eqn:E; cbn.
  - intros [= ->]. split; [lia|auto].
  - intros H. destruct (IH Hl' H) as [IH1 IH2]. split; [lia|]. constructor; auto.
Qed.

Lemma wf_remove_t t l : wf_w l -> wf_w (remove_t t l).
Proof. unfold wf_w, remove_t. rewrite !Forall_forall. intros H x Hx. apply filter_In in Hx. apply H, Hx. Qed.

Lemma head_unfit_remove t c w : head_unfit c w ->
  (match w with (t', _) :: _ => Nat.eqb t t' | [] => false end) = false -> head_unfit c (remove_t t w).
Proof.
  destruct w as [|[t' n] w]; cbn; auto. intros H E. rewrite Nat.eqb_sym in E. rewrite E. cbn. exact H.
Qed.

Lemma step_inv s l s' : Inv s -> (match l with Acq _ n => 1 <= n <= size | _ => True end) ->
  step s l = Some s' -> Inv s'.
Proof.
  intros [Hh He] Hl H. destruct l as [t n|t|t]; cbn [step] in H.
  - (* acquire *)
    destruct (lookup t (held s)); [discriminate|].
    set (e := match ent s with Some e => e | None => {| cur := 0; q := [] |} end) in *.
    assert (Hee : cur e = sumw (held s) /\ 0 <= cur e <= size /\ wf_w (q e) /\ head_unfit (cur e) (q e)).
    { subst e. destruct (ent s) as [e|]; [destruct He as (? & ? & ? & ?); repeat split; auto; lia|].
      rewrite He. cbn. repeat split; try lia; constructor. }
    destruct Hee as (Hc & Hb & Hq & Hu).
    destruct (lookup t (q e)); [discriminate|].
    destruct ((n <=? size - cur e) && is_nil (q e)) eqn:E; inversion H; subst; clear H; unfold Inv; cbn [ent held].
    + apply andb_prop in E as [E1 E2]. apply Z.leb_le in E1.
      split; [apply Forall_app; split; auto; constructor; auto|].
      rewrite sumw_app. unfold sumw at 2. cbn.
      split; [lia|]. split; [lia|]. split; [constructor | exact I].
    + split; auto. assert (Hcur : 0 < cur e).
      { apply andb_false_iff in E as [E|E].
        - apply Z.leb_gt in E. lia.
        - destruct (q e) as [|[t0 n0] r]; [discriminate|]. cbn in Hu. inversion Hq; subst. cbn in *. lia. }
      cbn [cur q]. split; [lia|]. split; [lia|]. split.
      * apply Forall_app; split; auto.
      * destruct (q e) as [|[t0 n0] r] eqn:Eq; cbn; auto.
        apply andb_false_iff in E as [E|E]; [apply Z.leb_gt in E; lia | discriminate].
  - (* cancel *)
    destruct (ent s) as [e|]; [|discriminate]. destruct He as (Hc & Hb & Hq & Hu).
    destruct (lookup t (q e)); [|discriminate].
    set (isfront := match q e with (t', _) :: _ => Nat.eqb t t' | [] => false end) in *.
    destruct (isfront && (cur e <? size)) eqn:E.
    + destruct (notify size (cur e) (remove_t t (q e)) []) as [[c w] g] eqn:En.
      inversion H; subst; clear H.
      destruct (notify_spec _ _ _ _ _ _ En (wf_remove_t t _ Hq) ltac:(lia)) as (g2 & -> & _ & -> & ? & ? & ? & ?).
      unfold Inv; cbn [ent held app cur q]. split; [apply Forall_app; split; auto|].
      rewrite sumw_app. pose proof (sumw_pos g2 ltac:(auto)) as [Hg0 _].
      split; [lia|]. split; [lia|]. split; auto.
    + inversion H; subst; clear H. unfold Inv; cbn [ent held cur q]. split; auto.
      split; [lia|]. split; [lia|]. split; [apply wf_remove_t; auto|].
      apply andb_false_iff in E as [E|E].
      * apply head_unfit_remove; auto.
      * apply Z.ltb_ge in E. assert (cur e = size) by lia.
        destruct (remove_t t (q e)) as [|[t0 n0] r] eqn:Er; cbn; auto.
        pose proof (wf_remove_t t _ Hq) as Hw. rewrite Er in Hw. inversion Hw; subst. cbn in *. lia.
  - (* release *)
    destruct (ent s) as [e|]; [|discriminate]. destruct He as (Hc & Hb & Hq & Hu).
    destruct (lookup t (held s)) as [n|] eqn:El; [|discriminate].
    pose proof (lookup_weight _ _ _ Hh El) as Hn.
    destruct (remove_first_spec _ _ _ Hh El) as [Hsum Hwf].
    destruct (notify size (cur e - n) (q e) []) as [[c w] g] eqn:En.
    assert (Hcn : 0 <= cur e - n <= size).
    { pose proof (sumw_pos _ Hwf). lia. }
    destruct (notify_spec _ _ _ _ _ _ En Hq Hcn) as (g2 & -> & _ & -> & ? & ? & ? & Hu').
    cbn [app] in *.
    assert (Hsum' : sumw (remove_first t (held s) ++ g2) = cur e - n + sumw g2) by (rewrite sumw_app; lia).
    assert (Hwf' : wf_w (remove_first t (held s) ++ g2)) by (apply Forall_app; split; auto).
    destruct (is_nil w && (cur e - n + sumw g2 =? 0)) eqn:E; inversion H; subst; clear H; unfold Inv; cbn [ent held cur q].
    + apply andb_prop in E as [_ E]. apply Z.eqb_eq in E. split; auto.
      apply (sumw_pos _ Hwf'). lia.
    + split; auto. split; [lia|]. split; [|split; auto].
      apply andb_false_iff in E as [E|E].
      * destruct w as [|[t0 n0] r]; [discriminate|]. cbn in Hu'.
        match goal with Hw : wf_w ((t0, n0) :: r) |- _ => inversion Hw; subst end. cbn in *. lia.
      * apply Z.eqb_neq in E. lia.
Qed.

Theorem run_inv : forall ls s s',
  Inv s -> Forall (fun l => match l with Acq _ n => n = 1 \/ n = size | _ => True end) ls ->
  run s ls = Some s' -> Inv s'.
Proof.
  induction ls as [|l ls IH]; intros s s' Hs Hl H; cbn in H.
  - now inversion H; subst.
  - inversion Hl as [|? ? Hl1 Hl2]; subst. destruct (step s l) as [s1|] eqn:E; [|discriminate].
    apply (IH s1 s'); auto. apply (step_inv s l s1); auto. destruct l; auto. lia.
Qed.

(* exclusion: the holders are one writer or at most rwRatio readers *)
Theorem exclusion s : Inv s -> Forall (fun p => snd p = 1 \/ snd p = size) (held s) ->
  (forall t, In (t, size) (held s) -> 1 < size -> held s = [(t, size)]) /\ Z.of_nat (length (held s)) <= size.
Proof.
  intros [Hh He] Hk.
  assert (Hsum : sumw (held s) <= size).
  { destruct (ent s) as [e|]; [destruct He as (-> & ? & _); lia | rewrite He; cbn; lia]. }
  split.
  - intros t Hin Hsz. clear He Hk. unfold wf_w in Hh.
    induction (held s) as [|[t0 n0] l IH]; [destruct Hin|].
    inversion Hh as [|? ? Hx Hl]; subst. cbn in Hx.
    pose proof (sumw_pos l Hl) as [Hp Hz].
    change (sumw ((t0, n0) :: l)) with (n0 + sumw l) in Hsum.
    destruct Hin as [Heq|Hin].
    + inversion Heq; subst. rewrite (Hz ltac:(lia)). reflexivity.
    + exfalso. assert (size <= sumw l); [|lia].
      clear - Hin Hl. unfold wf_w in Hl. induction l as [|[a b] l IHl]; [destruct Hin|].
      inversion Hl; subst. pose proof (sumw_pos l H2) as [Hp _]. change (sumw ((a, b) :: l)) with (b + sumw l).
      destruct Hin as [Heq|Hin]; [inversion Heq; subst; lia | specialize (IHl Hin H2); cbn in *; lia].
  - clear He Hk. unfold wf_w in Hh. revert Hsum. induction (held s) as [|[t0 n0] l IH]; intros Hsum; [cbn; lia|].
    inversion Hh as [|? ? Hx Hl]; subst. change (sumw ((t0, n0) :: l)) with (n0 + sumw l) in Hsum.
    cbn [length]. cbn in Hx. rewrite Nat2Z.inj_succ.
    assert (Z.of_nat (length l) <= sumw l); [|lia].
    clear - Hl. induction l as [|[a b] l IHl]; [cbn; lia|]. inversion Hl; subst. cbn [length]. rewrite Nat2Z.inj_succ.
    change (sumw ((a, b) :: l)) with (b + sumw l). cbn in *. specialize (IHl H2). lia.
Qed.

(* no residue: the entry exists exactly while someone holds *)
Theorem no_residue s : Inv s -> (ent s = None <-> held s = []).
Proof.
  intros [Hh He]. destruct (ent s) as [e|]; split; intros H; try discriminate; auto.
  destruct He as (Hc & Hb & _). rewrite H in Hc. cbn in Hc. lia.
Qed.
End Inv.
Print Assumptions run_inv.
Print Assumptions exclusion.
