(* C20: strconv's integer text forms in bases 10, 16 and 32 (FormatInt / FormatUint / Atoi / ParseInt / ParseUint),
   re-modelled over Z, with the independent arbitrary-precision reading of a digit string used by the monitor. *)
From Coq Require Import ZArith List Lia Bool.
Import ListNotations.
Open Scope Z_scope.

(* ---------------- characters ---------------- *)
(* strconv's digit alphabet "0123456789abcdefghijklmnopqrstuvwxyz" *)
Definition digit_char (d : Z) : Z := if d <? 10 then 48 + d else 87 + d.

(* ParseUint's classification of one byte: '0'..'9', or a letter after lower(c) = c | ('x' - 'X') *)
Definition char_val_go (c : Z) : option Z :=
  if (48 <=? c) && (c <=? 57) then Some (c - 48)
  else let l := Z.lor c 32 in
       if (97 <=? l) && (l <=? 122) then Some (l - 97 + 10) else None.
(* the same classification by explicit ranges (no bit operation); equal on every byte, see char_val_go_eq *)
Definition char_val (c : Z) : option Z :=
  if (48 <=? c) && (c <=? 57) then Some (c - 48)
  else if (97 <=? c) && (c <=? 122) then Some (c - 87)
  else if (65 <=? c) && (c <=? 90) then Some (c - 55)
  else None.

Definition oz_eqb (a b : option Z) : bool :=
  match a, b with Some x, Some y => x =? y | None, None => true | _, _ => false end.
Lemma oz_eqb_eq a b : oz_eqb a b = true -> a = b.
Proof. destruct a, b; cbn; try discriminate; auto. intros H. apply Z.eqb_eq in H. now subst. Qed.

Definition bytes256 : list Z := map Z.of_nat (seq 0 256).
Lemma in_bytes256 c : 0 <= c < 256 -> In c bytes256.
Proof.
  intros H. unfold bytes256. rewrite <- (Z2Nat.id c) by lia. apply in_map. apply in_seq. lia.
Qed.
Lemma char_val_go_eq c : 0 <= c < 256 -> char_val_go c = char_val c.
Proof.
  intros H. assert (A : forallb (fun c => oz_eqb (char_val_go c) (char_val c)) bytes256 = true) by (vm_compute; reflexivity).
  rewrite forallb_forall in A. apply oz_eqb_eq, A, in_bytes256, H.
Qed.

Definition digit_ok (base c : Z) : bool := match char_val c with Some d => d <? base | None => false end.
Definition digit_of (c : Z) : Z := match char_val c with Some d => d | None => 0 end.

(* ---------------- parsing ---------------- *)
Inductive res (A : Type) := Ok (v : A) | Err | Panic.
Arguments Ok {A} v. Arguments Err {A}. Arguments Panic {A}.

(* the digit loop of ParseUint, most significant first, without the width cut-off (arbitrary precision) *)
Fixpoint parse_acc (base : Z) (l : list Z) (acc : Z) : option Z :=
  match l with
  | [] => Some acc
  | c :: r => match char_val c with
              | Some d => if d <? base then parse_acc base r (acc * base + d) else None
              | None => None
              end
  end.
Definition parse_nat (base : Z) (l : list Z) : option Z := match l with [] => None | _ => parse_acc base l 0 end.

(* strconv.ParseUint(s, base, 64): no sign, at least one digit, below 2^64 (an overflow is ErrRange) *)
Definition parse_uint (base : Z) (l : list Z) : res Z :=
  match parse_nat base l with Some v => if v <? 2 ^ 64 then Ok v else Err | None => Err end.

(* strconv.ParseInt(s, base, 64) and strconv.Atoi (base 10, 64-bit int): optional sign, then ParseUint, then the
   cut-off 2^63 (positive: un >= cutoff is ErrRange; negative: un > cutoff is ErrRange) *)
Definition parse_int (base : Z) (l : list Z) : res Z :=
  match l with
  | [] => Err
  | c :: r =>
      if c =? 43 then match parse_nat base r with Some un => if un <? 2 ^ 63 then Ok un else Err | None => Err end
      else if c =? 45 then match parse_nat base r with Some un => if un <=? 2 ^ 63 then Ok (- un) else Err | None => Err end
      else match parse_nat base l with Some un => if un <? 2 ^ 63 then Ok un else Err | None => Err end
  end.

(* ---------------- formatting ---------------- *)
(* least significant digit first; fuel = maximal number of digits *)
Fixpoint digits_rev (base : Z) (fuel : nat) (n : Z) : list Z :=
  match fuel with
  | O => []
  | S f => if n <? base then [digit_char n] else digit_char (n mod base) :: digits_rev base f (n / base)
  end.
Definition fmt_uint (base n : Z) : list Z := rev (digits_rev base 64 n).                       (* FormatUint *)
Definition fmt_int (base v : Z) : list Z := if v <? 0 then 45 :: fmt_uint base (- v) else fmt_uint base v.   (* FormatInt *)

(* ---------------- the independent reading ---------------- *)
Definition value (base : Z) (l : list Z) : Z := fold_left (fun a c => a * base + digit_of c) l 0.
Definition all_digits (base : Z) (l : list Z) : bool := forallb (digit_ok base) l.
(* a non-empty string of base-`base` digits and the number it denotes *)
Definition read_nat (base : Z) (l : list Z) : option Z :=
  match l with [] => None | _ => if all_digits base l then Some (value base l) else None end.
(* optional sign, then read_nat *)
Definition read_int (base : Z) (l : list Z) : option Z :=
  match l with
  | [] => None
  | c :: r => if c =? 43 then read_nat base r
              else if c =? 45 then match read_nat base r with Some v => Some (- v) | None => None end
              else read_nat base l
  end.

Lemma fold_value base l acc : fold_left (fun a c => a * base + digit_of c) l acc = acc * base ^ Z.of_nat (length l) + value base l.
Proof.
  unfold value. revert acc. induction l as [|c l IH]; intros acc; cbn [fold_left length].
  - cbn. lia.
  - rewrite IH. rewrite (IH (0 * base + digit_of c)). rewrite Nat2Z.inj_succ, Z.pow_succ_r by lia. ring.
Qed.

Lemma parse_acc_spec base : forall l acc,
  parse_acc base l acc = if all_digits base l then Some (acc * base ^ Z.of_nat (length l) + value base l) else None.
Proof.
  induction l as [|c l IH]; intros acc.
  - cbn. f_equal; try lia.
  - cbn [parse_acc all_digits forallb]. unfold digit_ok at 1. destruct (char_val c) as [d|] eqn:Ec; [|reflexivity].
    destruct (d <? base); [|reflexivity]. cbn [andb]. rewrite IH. fold (all_digits base l).
    destruct (all_digits base l); [|reflexivity]. f_equal.
    unfold value at 2. cbn [fold_left length]. rewrite fold_value. unfold digit_of. rewrite Ec.
    rewrite Nat2Z.inj_succ, Z.pow_succ_r by lia. ring.
Qed.

(* the model's digit loop is the independent reading *)
Theorem parse_nat_read base l : parse_nat base l = read_nat base l.
Proof.
  unfold parse_nat, read_nat. destruct l as [|c l]; [reflexivity|]. rewrite parse_acc_spec.
  destruct (all_digits base (c :: l)); [|reflexivity]. f_equal; try lia.
Qed.

Lemma value_nonneg base l : 0 <= base -> 0 <= value base l.
Proof.
  intros Hb. unfold value.
  assert (G : forall l acc, 0 <= acc -> 0 <= fold_left (fun a c => a * base + digit_of c) l acc).
  { clear l. induction l as [|c l IH]; intros acc Ha; cbn [fold_left]; [exact Ha|]. apply IH.
    assert (0 <= digit_of c).
    { unfold digit_of, char_val. destruct ((48 <=? c) && (c <=? 57)) eqn:E1.
      - apply andb_prop in E1 as [A _]. apply Z.leb_le in A. lia.
      - destruct ((97 <=? c) && (c <=? 122)) eqn:E2.
        + apply andb_prop in E2 as [A _]. apply Z.leb_le in A. lia.
        + destruct ((65 <=? c) && (c <=? 90)) eqn:E3; [|lia]. apply andb_prop in E3 as [A _]. apply Z.leb_le in A. lia. }
    nia. }
  apply G. lia.
Qed.
Lemma read_nat_nonneg base l v : 0 <= base -> read_nat base l = Some v -> 0 <= v.
Proof.
  intros Hb H. unfold read_nat in H. destruct l as [|c l]; [discriminate|]. destruct (all_digits base (c :: l)); [|discriminate].
  inversion H. apply value_nonneg, Hb.
Qed.

(* exactness of the two parsers against the reading: what is accepted is the number the text denotes, and it fits *)
Theorem parse_uint_exact base l v : 0 <= base -> parse_uint base l = Ok v -> read_nat base l = Some v /\ 0 <= v < 2 ^ 64.
Proof.
  intros Hb. unfold parse_uint. rewrite parse_nat_read. destruct (read_nat base l) as [w|] eqn:E; [|discriminate].
  destruct (w <? 2 ^ 64) eqn:Ew; [|discriminate]. intros H. inversion H; subst. apply Z.ltb_lt in Ew.
  split; [reflexivity|]. split; [apply (read_nat_nonneg base l v Hb E)|exact Ew].
Qed.
(* ... and, conversely, every text that denotes a number that fits is accepted (no false rejection) *)
Theorem parse_uint_complete base l v : read_nat base l = Some v -> v < 2 ^ 64 -> parse_uint base l = Ok v.
Proof.
  intros H Hv. unfold parse_uint. rewrite parse_nat_read, H. replace (v <? 2 ^ 64) with true by (symmetry; apply Z.ltb_lt; exact Hv). reflexivity.
Qed.

Theorem parse_int_exact base l v : 0 <= base -> parse_int base l = Ok v -> read_int base l = Some v /\ - 2 ^ 63 <= v < 2 ^ 63.
Proof.
  intros Hb. unfold parse_int, read_int. destruct l as [|c r]; [discriminate|]. rewrite !parse_nat_read.
  destruct (c =? 43).
  - destruct (read_nat base r) as [w|] eqn:E; [|discriminate]. destruct (w <? 2 ^ 63) eqn:Ew; [|discriminate].
    intros H. inversion H; subst. apply Z.ltb_lt in Ew. pose proof (read_nat_nonneg base r v Hb E). split; [reflexivity|lia].
  - destruct (c =? 45).
    + destruct (read_nat base r) as [w|] eqn:E; [|discriminate]. destruct (w <=? 2 ^ 63) eqn:Ew; [|discriminate].
      intros H. inversion H; subst. apply Z.leb_le in Ew. pose proof (read_nat_nonneg base r w Hb E). split; [reflexivity|lia].
    + destruct (read_nat base (c :: r)) as [w|] eqn:E; [|discriminate]. destruct (w <? 2 ^ 63) eqn:Ew; [|discriminate].
      intros H. inversion H; subst. apply Z.ltb_lt in Ew. pose proof (read_nat_nonneg base _ v Hb E). split; [reflexivity|lia].
Qed.
Theorem parse_int_complete base l v : 0 <= base -> read_int base l = Some v -> - 2 ^ 63 <= v < 2 ^ 63 -> parse_int base l = Ok v.
Proof.
  intros Hb. unfold parse_int, read_int. destruct l as [|c r]; [discriminate|]. rewrite !parse_nat_read.
  destruct (c =? 43).
  - intros H Hv. rewrite H. replace (v <? 2 ^ 63) with true by (symmetry; apply Z.ltb_lt; lia). reflexivity.
  - destruct (c =? 45).
    + destruct (read_nat base r) as [w|] eqn:E; [|discriminate]. intros H Hv. inversion H; subst.
      replace (w <=? 2 ^ 63) with true by (symmetry; apply Z.leb_le; lia). reflexivity.
    + intros H Hv. rewrite H. replace (v <? 2 ^ 63) with true by (symmetry; apply Z.ltb_lt; lia). reflexivity.
Qed.

(* ---------------- format, then parse ---------------- *)
Lemma char_val_digit_char d : 0 <= d < 36 -> char_val (digit_char d) = Some d.
Proof.
  intros H. unfold digit_char, char_val. destruct (d <? 10) eqn:E.
  - apply Z.ltb_lt in E. replace ((48 <=? 48 + d) && (48 + d <=? 57)) with true; [f_equal; lia|].
    symmetry. apply andb_true_intro. split; apply Z.leb_le; lia.
  - apply Z.ltb_ge in E. replace ((48 <=? 87 + d) && (87 + d <=? 57)) with false.
    + replace ((97 <=? 87 + d) && (87 + d <=? 122)) with true; [f_equal; lia|].
      symmetry. apply andb_true_intro. split; apply Z.leb_le; lia.
    + symmetry. apply andb_false_intro2. apply Z.leb_gt. lia.
Qed.
Lemma digit_ok_digit_char base d : base <= 36 -> 0 <= d < base -> digit_ok base (digit_char d) = true /\ digit_of (digit_char d) = d.
Proof.
  intros Hb Hd. unfold digit_ok, digit_of. rewrite char_val_digit_char by lia. split; [apply Z.ltb_lt; lia|reflexivity].
Qed.

Fixpoint value_rev (base : Z) (l : list Z) : Z := match l with [] => 0 | c :: r => digit_of c + base * value_rev base r end.

Lemma digits_rev_spec base : 2 <= base <= 36 -> forall f n, 0 <= n < base ^ Z.of_nat f ->
  all_digits base (digits_rev base f n) = true /\ value_rev base (digits_rev base f n) = n /\ (f <> O -> digits_rev base f n <> []).
Proof.
  intros Hb. induction f as [|f IH]; intros n Hn.
  - cbn in Hn. assert (n = 0) by lia. subst. cbn. repeat split; auto; congruence.
  - cbn [digits_rev]. destruct (n <? base) eqn:E.
    + apply Z.ltb_lt in E. destruct (digit_ok_digit_char base n ltac:(lia) ltac:(lia)) as [A B].
      cbn [all_digits forallb value_rev]. rewrite A, B. split; [reflexivity|]. split; [lia|discriminate].
    + apply Z.ltb_ge in E.
      assert (Hq : 0 <= n / base < base ^ Z.of_nat f).
      { rewrite Nat2Z.inj_succ, Z.pow_succ_r in Hn by lia. split; [apply Z.div_pos; lia|].
        apply Z.div_lt_upper_bound; lia. }
      destruct (IH (n / base) Hq) as (Hd & Hv & _).
      pose proof (Z.mod_pos_bound n base ltac:(lia)) as Hm.
      destruct (digit_ok_digit_char base (n mod base) ltac:(lia) ltac:(lia)) as [A B].
      cbn [all_digits forallb value_rev]. rewrite A, B. cbn [andb]. split; [exact Hd|]. split; [|discriminate].
      rewrite Hv. pose proof (Z.div_mod n base ltac:(lia)). lia.
Qed.

Lemma all_digits_app base a b : all_digits base (a ++ b) = all_digits base a && all_digits base b.
Proof. unfold all_digits. apply forallb_app. Qed.
Lemma all_digits_rev base l : all_digits base (rev l) = all_digits base l.
Proof.
  induction l as [|c l IH]; [reflexivity|]. cbn [rev]. rewrite all_digits_app, IH. cbn [all_digits forallb].
  rewrite andb_true_r. apply andb_comm.
Qed.
Lemma value_app base a c : value base (a ++ [c]) = value base a * base + digit_of c.
Proof. unfold value. rewrite fold_left_app. reflexivity. Qed.
Lemma value_rev_rev base l : value base (rev l) = value_rev base l.
Proof. induction l as [|c l IH]; [reflexivity|]. cbn [rev value_rev]. rewrite value_app, IH. ring. Qed.

Theorem read_fmt_uint base n : 2 <= base <= 36 -> 0 <= n < 2 ^ 64 -> read_nat base (fmt_uint base n) = Some n.
Proof.
  intros Hb Hn. assert (Hp : 2 ^ 64 <= base ^ Z.of_nat 64).
  { change (Z.of_nat 64) with 64. apply Z.pow_le_mono_l. lia. }
  destruct (digits_rev_spec base Hb 64 n ltac:(lia)) as (Hd & Hv & Hne). specialize (Hne ltac:(discriminate)).
  unfold read_nat, fmt_uint. destruct (rev (digits_rev base 64 n)) eqn:E.
  - exfalso. apply Hne. rewrite <- (rev_involutive (digits_rev base 64 n)), E. reflexivity.
  - rewrite <- E. rewrite all_digits_rev, Hd, value_rev_rev, Hv. reflexivity.
Qed.

Lemma fmt_uint_head base n : 2 <= base <= 36 -> 0 <= n < 2 ^ 64 ->
  exists c r, fmt_uint base n = c :: r /\ c <> 43 /\ c <> 45.
Proof.
  intros Hb Hn. pose proof (read_fmt_uint base n Hb Hn) as H. unfold read_nat in H.
  destruct (fmt_uint base n) as [|c r] eqn:E; [discriminate|]. exists c, r. split; [reflexivity|].
  destruct (all_digits base (c :: r)) eqn:A; [|discriminate]. cbn [all_digits forallb] in A. apply andb_prop in A as [A _].
  unfold digit_ok, char_val in A.
  split; intros ->; vm_compute in A; discriminate.
Qed.

Theorem parse_fmt_uint base n : 2 <= base <= 36 -> 0 <= n < 2 ^ 64 -> parse_uint base (fmt_uint base n) = Ok n.
Proof. intros Hb Hn. apply parse_uint_complete; [apply read_fmt_uint; assumption|lia]. Qed.

Theorem parse_fmt_int base v : 2 <= base <= 36 -> - 2 ^ 63 <= v < 2 ^ 63 -> parse_int base (fmt_int base v) = Ok v.
Proof.
  intros Hb Hv. apply parse_int_complete; [lia| |exact Hv]. unfold fmt_int. destruct (v <? 0) eqn:E.
  - apply Z.ltb_lt in E. cbn [read_int]. change (45 =? 43) with false. change (45 =? 45) with true. cbn match.
    rewrite read_fmt_uint by lia. f_equal. lia.
  - apply Z.ltb_ge in E. destruct (fmt_uint_head base v Hb ltac:(lia)) as (c & r & Ef & H1 & H2).
    pose proof (read_fmt_uint base v Hb ltac:(lia)) as R. rewrite Ef in *. cbn [read_int].
    replace (c =? 43) with false by (symmetry; apply Z.eqb_neq; exact H1).
    replace (c =? 45) with false by (symmetry; apply Z.eqb_neq; exact H2). exact R.
Qed.

Example radix_demo :
  fmt_int 16 (-255) = [45; 102; 102] /\ fmt_uint 32 (2 ^ 64 - 1) = [102; 118; 118; 118; 118; 118; 118; 118; 118; 118; 118; 118; 118]
  /\ parse_int 16 [45; 70; 102] = Ok (-255) /\ parse_int 10 [49; 95; 48] = Err /\ parse_uint 10 [43; 53] = Err
  /\ parse_int 10 [45; 57; 50; 50; 51; 51; 55; 50; 48; 51; 54; 56; 53; 52; 55; 55; 53; 56; 48; 56] = Ok (- 2 ^ 63)
  /\ parse_int 10 [57; 50; 50; 51; 51; 55; 50; 48; 51; 54; 56; 53; 52; 55; 55; 53; 56; 48; 56] = Err.
Proof. vm_compute. repeat split. Qed.
