(* C02: the keyed-lock LTS in Coq (per-key RWMutex with announced / queued writers, parked readers and
   reader tokens; per-thread requests acquiring their keys one by one and releasing them one by one),
   the invariant of every reachable state, mutual exclusion between returned callers, and key independence *)
From Coq Require Import List Lia Bool Arith.
Import ListNotations.

Record rwm := { writer : option nat; pending : option nat; readers : list nat;
                wwait : list nat; rblocked : list nat; tokens : nat }.
Definition idle : rwm := {| writer := None; pending := None; readers := []; wwait := []; rblocked := []; tokens := 0 |}.
Inductive phase := Acq (next : nat) | Rel (rem : list nat).
Record req := { rkeys : list nat; rwrite : bool; rphase : phase }.
Record st := { locks : nat -> rwm; reqs : nat -> option req; running : nat -> bool }.
Definition init : st := {| locks := fun _ => idle; reqs := fun _ => None; running := fun _ => false |}.

Inductive label :=
| Start (t : nat) (ks : list nat) (w : bool)   (* a caller enters Lock/RLock/Locks/RLocks; ks in acquisition order *)
| Arrive (t : nat)                              (* the running caller reaches its next key (or returns when none is left) *)
| Announce (k i : nat)                          (* the i-th queued writer of k takes rw.w and announces itself *)
| Grant (k : nat)                               (* the announced writer gets k: no counted reader, no outstanding token *)
| Token (k i : nat)                             (* the i-th parked reader of k consumes a token *)
| Release (t : nat)                             (* the caller that holds everything enters Unlock/RUnlock/Unlocks/RUnlocks *)
| UnlockKey (t : nat).                          (* ... and releases its next key *)

Definition upd {A} (f : nat -> A) (k : nat) (v : A) : nat -> A := fun x => if Nat.eqb x k then v else f x.
Definition set_lock (s : st) k m := {| locks := upd (locks s) k m; reqs := reqs s; running := running s |}.
Definition set_req (s : st) t r := {| locks := locks s; reqs := upd (reqs s) t r; running := running s |}.
Definition set_run (s : st) t b := {| locks := locks s; reqs := reqs s; running := upd (running s) t b |}.
Definition with_phase (r : req) (p : phase) := {| rkeys := rkeys r; rwrite := rwrite r; rphase := p |}.
Definition free (m : rwm) : bool := match writer m, pending m with None, None => true | _, _ => false end.
Fixpoint remove_nth {A} (i : nat) (l : list A) : list A :=
  match l, i with [], _ => [] | _ :: r, O => r | x :: r, S j => x :: remove_nth j r end.
Definition remove_id (t : nat) (l : list nat) : list nat := filter (fun x => negb (Nat.eqb x t)) l.
Fixpoint nodupb (l : list nat) : bool :=
  match l with [] => true | x :: r => negb (existsb (Nat.eqb x) r) && nodupb r end.
Definition is_nil {A} (l : list A) := match l with [] => true | _ => false end.

(* the thread x is parked on key k in mode w (its own view; the lock's queues are the lock's view) *)
Definition waits_on (s : st) (x k : nat) (w : bool) : option (req * nat) :=
  match reqs s x with
  | Some r => match rphase r with
              | Acq n => match nth_error (rkeys r) n with
                         | Some k' => if Nat.eqb k' k && Bool.eqb (rwrite r) w && negb (running s x) then Some (r, n) else None
                         | None => None end
              | Rel _ => None end
  | None => None
  end.

Definition step (s : st) (l : label) : option st :=
  match l with
  | Start t ks w =>
      match reqs s t with
      | Some _ => None
      | None => if nodupb ks
                then Some (set_req (set_run s t true) t (Some {| rkeys := ks; rwrite := w; rphase := Acq 0 |}))
                else None
      end
  | Arrive t =>
      if running s t then
        match reqs s t with
        | Some r =>
            match rphase r with
            | Acq n =>
                match nth_error (rkeys r) n with
                | None => Some (set_run s t false)
                | Some k =>
                    let m := locks s k in
                    if rwrite r then
                      if free m
                      then Some (set_lock (set_run s t false) k
                             {| writer := writer m; pending := Some t; readers := readers m; wwait := wwait m; rblocked := rblocked m; tokens := tokens m |})
                      else Some (set_lock (set_run s t false) k
                             {| writer := writer m; pending := pending m; readers := readers m; wwait := wwait m ++ [t]; rblocked := rblocked m; tokens := tokens m |})
                    else
                      if free m
                      then Some (set_lock (set_req s t (Some (with_phase r (Acq (S n))))) k
                             {| writer := writer m; pending := pending m; readers := t :: readers m; wwait := wwait m; rblocked := rblocked m; tokens := tokens m |})
                      else Some (set_lock (set_run s t false) k
                             {| writer := writer m; pending := pending m; readers := readers m; wwait := wwait m; rblocked := rblocked m ++ [t]; tokens := tokens m |})
                end
            | Rel _ => None
            end
        | None => None
        end
      else None
  | Announce k i =>
      let m := locks s k in
      match writer m, pending m, nth_error (wwait m) i with
      | None, None, Some w =>
          Some (set_lock s k {| writer := None; pending := Some w; readers := readers m; wwait := remove_nth i (wwait m); rblocked := rblocked m; tokens := tokens m |})
      | _, _, _ => None
      end
  | Grant k =>
      let m := locks s k in
      match pending m, writer m, readers m, tokens m with
      | Some w, None, [], O =>
          match waits_on s w k true with
          | Some (r, n) =>
              Some (set_lock (set_run (set_req s w (Some (with_phase r (Acq (S n))))) w true) k
                     {| writer := Some w; pending := None; readers := []; wwait := wwait m; rblocked := rblocked m; tokens := 0 |})
          | None => None
          end
      | _, _, _, _ => None
      end
  | Token k i =>
      let m := locks s k in
      match tokens m, nth_error (rblocked m) i with
      | S tk, Some x =>
          match waits_on s x k false with
          | Some (r, n) =>
              Some (set_lock (set_run (set_req s x (Some (with_phase r (Acq (S n))))) x true) k
                     {| writer := writer m; pending := pending m; readers := x :: readers m; wwait := wwait m; rblocked := remove_nth i (rblocked m); tokens := tk |})
          | None => None
          end
      | _, _ => None
      end
  | Release t =>
      match reqs s t with
      | Some r => match rphase r with
                  | Acq n => if Nat.eqb n (length (rkeys r)) && negb (running s t)
                             then Some (set_req s t (match rkeys r with [] => None | _ => Some (with_phase r (Rel (rkeys r))) end)) else None
                  | Rel _ => None end
      | None => None
      end
  | UnlockKey t =>
      match reqs s t with
      | Some r =>
          match rphase r with
          | Rel (k :: rem) =>
              let m := locks s k in
              let m' := if rwrite r
                        then {| writer := None; pending := pending m; readers := readers m; wwait := wwait m; rblocked := rblocked m; tokens := tokens m + length (rblocked m) |}
                        else {| writer := writer m; pending := pending m; readers := remove_id t (readers m); wwait := wwait m; rblocked := rblocked m; tokens := tokens m |} in
              Some (set_lock (set_req s t (match rem with [] => None | _ => Some (with_phase r (Rel rem)) end)) k m')
          | _ => None
          end
      | None => None
      end
  end.

Definition run (s : st) (ls : list label) : option st :=
  fold_left (fun o l => match o with Some s => step s l | None => None end) ls (Some s).

(* ---------------- the invariant ---------------- *)
Definition holds (s : st) (k t : nat) (w : bool) : Prop :=
  if w then writer (locks s k) = Some t else In t (readers (locks s k)).
Definition lock_ok (m : rwm) : Prop := forall w, writer m = Some w -> readers m = [] /\ tokens m = 0.
Definition req_ok (s : st) (t : nat) (r : req) : Prop :=
  NoDup (rkeys r) /\
  match rphase r with
  | Acq n => n <= length (rkeys r) /\ forall i k, i < n -> nth_error (rkeys r) i = Some k -> holds s k t (rwrite r)
  | Rel rem => NoDup rem /\ forall k, In k rem -> holds s k t (rwrite r)
  end.
Definition Inv (s : st) : Prop := (forall k, lock_ok (locks s k)) /\ (forall t r, reqs s t = Some r -> req_ok s t r).

Lemma upd_same {A} (f : nat -> A) k v : upd f k v k = v.
Proof. unfold upd. rewrite Nat.eqb_refl. reflexivity. Qed.
Lemma upd_other {A} (f : nat -> A) k v x : x <> k -> upd f k v x = f x.
Proof. unfold upd. intros H. apply Nat.eqb_neq in H. rewrite H. reflexivity. Qed.
Lemma nodupb_NoDup l : nodupb l = true -> NoDup l.
Proof.
  induction l as [|x r IH]; cbn [nodupb]; intros H; [constructor|]. apply andb_prop in H. destruct H as [H1 H2].
  constructor; [|apply IH, H2]. intros Hin. apply negb_true_iff in H1.
  assert (existsb (Nat.eqb x) r = true) by (apply existsb_exists; exists x; split; [exact Hin|apply Nat.eqb_refl]). congruence.
Qed.
Lemma in_remove_id t x l : In x (remove_id t l) <-> In x l /\ x <> t.
Proof. unfold remove_id. rewrite filter_In, negb_true_iff, Nat.eqb_neq. tauto. Qed.
Lemma waits_on_spec s x k w r n : waits_on s x k w = Some (r, n) ->
  reqs s x = Some r /\ rphase r = Acq n /\ nth_error (rkeys r) n = Some k /\ rwrite r = w /\ running s x = false.
Proof.
  unfold waits_on. destruct (reqs s x) as [r0|]; [|discriminate]. destruct (rphase r0) as [n0|] eqn:Ep; [|discriminate].
  destruct (nth_error (rkeys r0) n0) as [k'|] eqn:En; [|discriminate].
  destruct (Nat.eqb k' k && Bool.eqb (rwrite r0) w && negb (running s x)) eqn:E; [|discriminate].
  intros H. inversion H; subst. apply andb_prop in E. destruct E as [E E3]. apply andb_prop in E. destruct E as [E1 E2].
  apply Nat.eqb_eq in E1. apply Bool.eqb_prop in E2. apply negb_true_iff in E3. subst. auto.
Qed.

(* what a step on lock k0 must guarantee to the threads that are not acting *)
Definition keeps (m m' : rwm) (t : nat) : Prop :=
  (writer m = Some t -> writer m' = Some t) /\ (In t (readers m) -> In t (readers m')).

Lemma upd_id_pt {A} (f : nat -> A) k x : upd f k (f k) x = f x.
Proof. unfold upd. destruct (Nat.eqb x k) eqn:E; [apply Nat.eqb_eq in E; subst; reflexivity|reflexivity]. Qed.

(* the invariant of a request survives when its holdings are kept *)
Lemma req_ok_other s s' t r :
  (forall k w, holds s k t w -> holds s' k t w) -> req_ok s t r -> req_ok s' t r.
Proof.
  intros Hk (Hnd & Hp). split; [exact Hnd|]. destruct (rphase r) as [n|rem].
  - destruct Hp as [Hn Hh]. split; [exact Hn|]. intros i k Hi He. apply Hk, (Hh i k Hi He).
  - destruct Hp as [Hn Hh]. split; [exact Hn|]. intros k Hin. apply Hk, Hh, Hin.
Qed.

Lemma holds_set_lock s s' k0 m' t k w :
  (forall x, locks s' x = upd (locks s) k0 m' x) -> keeps (locks s k0) m' t -> holds s k t w -> holds s' k t w.
Proof.
  intros E [K1 K2] H. unfold holds in *. rewrite E. destruct (Nat.eq_dec k k0) as [->|Hne].
  - rewrite upd_same. destruct w; auto.
  - rewrite upd_other by exact Hne. exact H.
Qed.

(* steps that change no holder, no reader count and no request *)
Lemma inv_same s s' : Inv s ->
  (forall k, writer (locks s' k) = writer (locks s k) /\ readers (locks s' k) = readers (locks s k) /\ tokens (locks s' k) = tokens (locks s k)) ->
  (forall t, reqs s' t = reqs s t) -> Inv s'.
Proof.
  intros [HL HR] El Er. split.
  - intros k w Hw. destruct (El k) as (E1 & E2 & E3). rewrite E1 in Hw. rewrite E2, E3. apply (HL k w Hw).
  - intros t r Ht. rewrite Er in Ht. apply (req_ok_other s s' t r); [|apply HR, Ht].
    intros k w. unfold holds. destruct (El k) as (E1 & E2 & _). rewrite E1, E2. auto.
Qed.

(* the generic preservation lemma: one lock k0 becomes m', the request of one actor a becomes ra' *)
Lemma inv_update s k0 m' a ra' s' :
  Inv s ->
  (forall k, locks s' k = upd (locks s) k0 m' k) -> (forall t, reqs s' t = upd (reqs s) a ra' t) ->
  lock_ok m' ->
  (forall t, t <> a -> keeps (locks s k0) m' t) ->
  (forall r, ra' = Some r -> req_ok s' a r) ->
  Inv s'.
Proof.
  intros [HL HR] El Er Hm Hkeep Ha. split.
  - intros k. rewrite El. destruct (Nat.eq_dec k k0) as [->|Hne]; [rewrite upd_same; exact Hm|rewrite upd_other by exact Hne; apply HL].
  - intros t r Ht. rewrite Er in Ht. destruct (Nat.eq_dec t a) as [->|Hne].
    + rewrite upd_same in Ht. apply Ha, Ht.
    + rewrite upd_other in Ht by exact Hne. apply (req_ok_other s s' t r); [|apply HR, Ht].
      intros k w Hh. apply (holds_set_lock s s' k0 m' t k w El); [apply Hkeep, Hne|exact Hh].
Qed.

Lemma nth_error_lt {A} (l : list A) n x : nth_error l n = Some x -> n < length l.
Proof. intros H. apply nth_error_Some. congruence. Qed.

(* a thread that moves on to its next key after obtaining key k in its own mode *)
Lemma advance_ok s s' k m' x r n :
  Inv s -> reqs s x = Some r -> rphase r = Acq n -> nth_error (rkeys r) n = Some k ->
  (forall y, locks s' y = upd (locks s) k m' y) ->
  (forall t, reqs s' t = upd (reqs s) x (Some (with_phase r (Acq (S n)))) t) ->
  lock_ok m' -> (forall t, keeps (locks s k) m' t) ->
  (if rwrite r then writer m' = Some x else In x (readers m')) ->
  Inv s'.
Proof.
  intros HI Hx Ep En El Er Hm Hk Hmine. pose proof HI as [HL HR].
  apply (inv_update s k m' x (Some (with_phase r (Acq (S n)))) s' HI El Er Hm); [intros; apply Hk|].
  intros r' E. inversion E; subst r'; clear E. destruct (HR x r Hx) as [Hnd Hp]. rewrite Ep in Hp. destruct Hp as [Hn Hh].
  split; [exact Hnd|]. cbn [with_phase rphase rkeys rwrite]. split; [apply nth_error_lt in En; lia|].
  intros i ki Hi Hki. destruct (Nat.eq_dec i n) as [->|Hne].
  - rewrite En in Hki. inversion Hki; subst ki. unfold holds. rewrite El, upd_same. exact Hmine.
  - apply (holds_set_lock s s' k m' x ki (rwrite r) El (Hk x)). apply (Hh i ki ltac:(lia) Hki).
Qed.

Theorem inv_step s l s' : Inv s -> step s l = Some s' -> Inv s'.
Proof.
  intros HI H. pose proof HI as [HL HR]. destruct l as [t ks w|t|k i|k|k i|t|t]; cbn [step] in H.
  - (* Start *)
    destruct (reqs s t) eqn:Et; [discriminate|]. destruct (nodupb ks) eqn:Eg; [|discriminate].
    inversion H; subst s'; clear H.
    split; [exact HL|]. intros t' r. cbn [reqs set_req set_run]. destruct (Nat.eq_dec t' t) as [->|Hne].
    + rewrite upd_same. intros E. inversion E; subst r. split; [apply nodupb_NoDup, Eg|]. cbn [rphase rkeys]. split; [lia|]. intros i k Hi. lia.
    + rewrite upd_other by exact Hne. intros E. apply (req_ok_other s); [|apply HR, E]. intros k w0 Hh. exact Hh.
  - (* Arrive *)
    destruct (running s t); [|discriminate]. destruct (reqs s t) as [r|] eqn:Et; [|discriminate].
    destruct (rphase r) as [n|] eqn:Ep; [|discriminate].
    destruct (nth_error (rkeys r) n) as [k|] eqn:En.
    + assert (Hsame : forall mm, writer mm = writer (locks s k) -> readers mm = readers (locks s k) -> tokens mm = tokens (locks s k) ->
                Inv (set_lock (set_run s t false) k mm)).
      { intros mm E1 E2 E3. apply (inv_same s); [exact HI| |reflexivity].
        intros k'. cbn [locks set_lock set_run]. destruct (Nat.eq_dec k' k) as [->|Hne]; [rewrite upd_same; auto|rewrite upd_other by exact Hne; auto]. }
      destruct (rwrite r) eqn:Ew.
      * destruct (free (locks s k)); inversion H; subst s'; clear H; apply Hsame; reflexivity.
      * destruct (free (locks s k)) eqn:Ef; inversion H; subst s'; clear H; [|apply Hsame; reflexivity].
        unfold free in Ef. destruct (writer (locks s k)) eqn:Ewr; [discriminate|].
        eapply (advance_ok s _ k _ t r n HI Et Ep En); [reflexivity|reflexivity| | |].
        { intros w0 Hw0. cbn [writer] in Hw0. congruence. }
        { intros x. split; [rewrite Ewr; discriminate|cbn [readers]; intros Hin; right; exact Hin]. }
        { rewrite Ew. cbn [readers]. left. reflexivity. }
    + inversion H; subst s'; clear H. apply (inv_same s); [exact HI| |reflexivity]. intros k'. cbn [locks set_run]. auto.
  - (* Announce *)
    destruct (writer (locks s k)) eqn:Ewr; [discriminate|]. destruct (pending (locks s k)); [discriminate|].
    destruct (nth_error (wwait (locks s k)) i); [|discriminate]. inversion H; subst s'; clear H.
    apply (inv_same s); [exact HI| |reflexivity].
    intros k'. cbn [locks set_lock]. destruct (Nat.eq_dec k' k) as [->|Hne]; [rewrite upd_same; cbn [writer readers tokens]; auto|rewrite upd_other by exact Hne; auto].
  - (* Grant *)
    destruct (pending (locks s k)) as [w|]; [|discriminate]. destruct (writer (locks s k)) eqn:Ewr; [discriminate|].
    destruct (readers (locks s k)) eqn:Erd; [|discriminate]. destruct (tokens (locks s k)) eqn:Etk; [|discriminate].
    destruct (waits_on s w k true) as [[r n]|] eqn:Ewo; [|discriminate]. inversion H; subst s'; clear H.
    destruct (waits_on_spec _ _ _ _ _ _ Ewo) as (Hr & Ep & En & Ew & _).
    eapply (advance_ok s _ k _ w r n HI Hr Ep En); [reflexivity|reflexivity| | |].
    + intros w0 _. cbn [readers tokens]. auto.
    + intros x. split; [rewrite Ewr; discriminate|rewrite Erd; intros []].
    + rewrite Ew. reflexivity.
  - (* Token *)
    destruct (tokens (locks s k)) as [|tk] eqn:Etk; [discriminate|]. destruct (nth_error (rblocked (locks s k)) i) as [x|]; [|discriminate].
    destruct (waits_on s x k false) as [[r n]|] eqn:Ewo; [|discriminate]. inversion H; subst s'; clear H.
    destruct (waits_on_spec _ _ _ _ _ _ Ewo) as (Hr & Ep & En & Ew & _).
    assert (Hnow : writer (locks s k) = None).
    { destruct (writer (locks s k)) as [w0|] eqn:Ewr; [|reflexivity]. destruct (HL k w0 Ewr) as [_ E0]. lia. }
    eapply (advance_ok s _ k _ x r n HI Hr Ep En); [reflexivity|reflexivity| | |].
    + intros w0 Hw0. cbn [writer] in Hw0. congruence.
    + intros y. split; [cbn [writer]; auto|cbn [readers]; intros Hin; right; exact Hin].
    + rewrite Ew. cbn [readers]. left. reflexivity.
  - (* Release *)
    destruct (reqs s t) as [r|] eqn:Et; [|discriminate]. destruct (rphase r) as [n|] eqn:Ep; [|discriminate].
    destruct (Nat.eqb n (length (rkeys r)) && negb (running s t)) eqn:Eg; [|discriminate]. inversion H; subst s'; clear H.
    apply andb_prop in Eg. destruct Eg as [Eg _]. apply Nat.eqb_eq in Eg.
    apply (inv_update s 0 (locks s 0) t (match rkeys r with [] => None | _ => Some (with_phase r (Rel (rkeys r))) end)); [exact HI| | |apply HL| |].
    + intros k. cbn [locks set_req]. symmetry. apply upd_id_pt.
    + reflexivity.
    + intros x _. split; auto.
    + intros r' E. assert (E' : with_phase r (Rel (rkeys r)) = r') by (destruct (rkeys r); [discriminate|inversion E; reflexivity]).
      subst r'; clear E. destruct (HR t r Et) as [Hnd Hp]. rewrite Ep in Hp. destruct Hp as [_ Hh].
      split; [exact Hnd|]. cbn [with_phase rphase rkeys rwrite]. split; [exact Hnd|].
      intros k Hin. destruct (In_nth_error _ _ Hin) as [i Hi]. unfold holds. cbn [locks set_req].
      apply (Hh i k); [apply nth_error_lt in Hi; lia|exact Hi].
  - (* UnlockKey *)
    destruct (reqs s t) as [r|] eqn:Et; [|discriminate]. destruct (rphase r) as [n|[|k rem]] eqn:Ep; try discriminate.
    inversion H; subst s'; clear H. destruct (HR t r Et) as [Hnd Hp]. rewrite Ep in Hp. destruct Hp as [Hndr Hh].
    inversion Hndr as [|? ? Hnotin Hndrem]; subst.
    pose proof (Hh k (or_introl eq_refl)) as Hmine.
    eapply (inv_update s k _ t _ _ HI); [reflexivity|reflexivity| | |].
    + (* the lock stays consistent *)
      destruct (rwrite r); intros w0 Hw0; cbn [writer readers tokens] in *; [discriminate|].
      destruct (HL k w0 Hw0) as [E1 E2]. rewrite E1. split; [reflexivity|exact E2].
    + (* the others keep what they hold *)
      intros t' Hne. unfold holds in Hmine. destruct (rwrite r); split; cbn [writer readers]; auto.
      * intros E. rewrite Hmine in E. inversion E. congruence.
      * intros Hin. apply in_remove_id. split; [exact Hin|exact Hne].
    + (* the releasing thread still holds the rest *)
      intros r' E. destruct rem as [|k2 rem]; [discriminate|]. inversion E; subst r'; clear E.
      split; [exact Hnd|]. cbn [with_phase rphase rkeys rwrite]. split; [exact Hndrem|].
      intros k' Hin. assert (Hk' : k' <> k) by (intros ->; apply Hnotin, Hin).
      specialize (Hh k' (or_intror Hin)). unfold holds in *. cbn [locks set_lock set_req]. rewrite upd_other by exact Hk'. exact Hh.
Qed.

Lemma init_inv : Inv init.
Proof. split; [intros k w; cbn; discriminate|intros t r; cbn; discriminate]. Qed.

Theorem run_inv ls : forall s s', Inv s -> run s ls = Some s' -> Inv s'.
Proof.
  unfold run. induction ls as [|l ls IH]; intros s s' HI H; cbn [fold_left] in H.
  - inversion H; subst. exact HI.
  - destruct (step s l) as [s1|] eqn:E.
    + apply (IH s1 s' (inv_step s l s1 HI E) H).
    + exfalso. clear -H. induction ls as [|l' ls IH]; cbn [fold_left] in H; [discriminate|auto].
Qed.
Corollary reachable_inv ls s : run init ls = Some s -> Inv s.
Proof. apply run_inv, init_inv. Qed.

(* ---------------- exclusion between callers ---------------- *)
(* t has obtained key k (and not yet given it back) *)
Definition has_key (r : req) (k : nat) : Prop :=
  match rphase r with
  | Acq n => exists i, i < n /\ nth_error (rkeys r) i = Some k
  | Rel rem => In k rem
  end.
Lemma has_key_holds s t r k : Inv s -> reqs s t = Some r -> has_key r k -> holds s k t (rwrite r).
Proof.
  intros [_ HR] Ht Hk. destruct (HR t r Ht) as [_ Hp]. unfold has_key in Hk. destruct (rphase r) as [n|rem].
  - destruct Hk as (i & Hi & He). destruct Hp as [_ Hh]. apply (Hh i k Hi He).
  - destruct Hp as [_ Hh]. apply Hh, Hk.
Qed.

Lemma exclusion_inv s t1 t2 r1 r2 k :
  Inv s -> t1 <> t2 ->
  reqs s t1 = Some r1 -> reqs s t2 = Some r2 -> has_key r1 k -> has_key r2 k ->
  rwrite r1 = false /\ rwrite r2 = false.
Proof.
  intros HI Hne H1 H2 K1 K2.
  pose proof (has_key_holds s t1 r1 k HI H1 K1) as A. pose proof (has_key_holds s t2 r2 k HI H2 K2) as B.
  destruct HI as [HL _]. unfold holds in *.
  destruct (rwrite r1), (rwrite r2); auto; exfalso.
  - rewrite A in B. inversion B. congruence.
  - destruct (HL k t1 A) as [E _]. rewrite E in B. exact B.
  - destruct (HL k t2 B) as [E _]. rewrite E in A. exact A.
Qed.
Theorem exclusion ls s t1 t2 r1 r2 k :
  run init ls = Some s -> t1 <> t2 ->
  reqs s t1 = Some r1 -> reqs s t2 = Some r2 -> has_key r1 k -> has_key r2 k ->
  rwrite r1 = false /\ rwrite r2 = false.
Proof. intros Hrun. apply exclusion_inv, (reachable_inv ls s Hrun). Qed.

(* a caller that has returned holds every key it asked for *)
Corollary returned_holds_all ls s t r k :
  run init ls = Some s -> reqs s t = Some r -> rphase r = Acq (length (rkeys r)) -> In k (rkeys r) -> holds s k t (rwrite r).
Proof.
  intros Hrun Ht Ep Hin. apply (has_key_holds s t r k (reachable_inv ls s Hrun) Ht). unfold has_key. rewrite Ep.
  destruct (In_nth_error _ _ Hin) as [i Hi]. exists i. split; [apply nth_error_lt in Hi; exact Hi|exact Hi].
Qed.

(* ---------------- key independence ---------------- *)
(* every step touches at most one lock *)
Theorem one_lock_per_step s l s' : step s l = Some s' -> exists k0, forall k, k <> k0 -> locks s' k = locks s k.
Proof.
  intros H. destruct l as [t ks w|t|k i|k|k i|t|t]; cbn [step] in H.
  - destruct (reqs s t); [discriminate|]. destruct (nodupb ks); [|discriminate]. inversion H; subst. exists 0. reflexivity.
  - destruct (running s t); [|discriminate]. destruct (reqs s t) as [r|]; [|discriminate]. destruct (rphase r) as [n|]; [|discriminate].
    destruct (nth_error (rkeys r) n) as [k|]; [|inversion H; subst; exists 0; reflexivity].
    exists k. intros k' Hne. destruct (rwrite r); destruct (free (locks s k)); inversion H; subst; cbn [locks set_lock set_run set_req]; apply upd_other, Hne.
  - destruct (writer (locks s k)); [discriminate|]. destruct (pending (locks s k)); [discriminate|]. destruct (nth_error (wwait (locks s k)) i); [|discriminate].
    inversion H; subst. exists k. intros k' Hne. cbn [locks set_lock]. apply upd_other, Hne.
  - destruct (pending (locks s k)); [|discriminate]. destruct (writer (locks s k)); [discriminate|]. destruct (readers (locks s k)); [|discriminate].
    destruct (tokens (locks s k)); [|discriminate]. destruct (waits_on s n k true) as [[r n0]|]; [|discriminate].
    inversion H; subst. exists k. intros k' Hne. cbn [locks set_lock set_run set_req]. apply upd_other, Hne.
  - destruct (tokens (locks s k)); [discriminate|]. destruct (nth_error (rblocked (locks s k)) i) as [x|]; [|discriminate].
    destruct (waits_on s x k false) as [[r n0]|]; [|discriminate].
    inversion H; subst. exists k. intros k' Hne. cbn [locks set_lock set_run set_req]. apply upd_other, Hne.
  - destruct (reqs s t) as [r|]; [|discriminate]. destruct (rphase r) as [n|]; [|discriminate].
    destruct (Nat.eqb n (length (rkeys r)) && negb (running s t)); [|discriminate]. inversion H; subst. exists 0. reflexivity.
  - destruct (reqs s t) as [r|]; [|discriminate]. destruct (rphase r) as [n|[|k rem]]; try discriminate.
    inversion H; subst. exists k. intros k' Hne. cbn [locks set_lock set_req]. apply upd_other, Hne.
Qed.

(* a writer whose next key nobody holds or waits for gets it in two steps of its own, whatever the rest of the table looks like *)
Theorem uncontended_write s t r n k :
  running s t = true -> reqs s t = Some r -> rphase r = Acq n -> nth_error (rkeys r) n = Some k -> rwrite r = true ->
  writer (locks s k) = None -> pending (locks s k) = None -> readers (locks s k) = [] -> tokens (locks s k) = 0 ->
  exists s1 s2, step s (Arrive t) = Some s1 /\ step s1 (Grant k) = Some s2 /\
                writer (locks s2 k) = Some t /\ reqs s2 t = Some (with_phase r (Acq (S n))) /\ running s2 t = true.
Proof.
  intros Hrun Hr Ep En Ew Hw Hp Hrd Htk.
  eexists. eexists. split; [|split].
  - cbn [step]. rewrite Hrun, Hr, Ep, En, Ew. unfold free. rewrite Hw, Hp. reflexivity.
  - cbn [step locks set_lock set_run]. rewrite upd_same. cbn [pending writer readers tokens]. rewrite Hrd, Htk.
    unfold waits_on. cbn [reqs set_lock set_run running]. rewrite Hr, Ep, En, Ew, upd_same, Nat.eqb_refl. cbn [andb Bool.eqb negb]. reflexivity.
  - cbn [locks set_lock set_run set_req reqs running]. rewrite !upd_same. auto.
Qed.

(* a reader whose next key has no writer (holding, announced) passes at once *)
Theorem uncontended_read s t r n k :
  running s t = true -> reqs s t = Some r -> rphase r = Acq n -> nth_error (rkeys r) n = Some k -> rwrite r = false ->
  writer (locks s k) = None -> pending (locks s k) = None ->
  exists s1, step s (Arrive t) = Some s1 /\ In t (readers (locks s1 k)) /\ reqs s1 t = Some (with_phase r (Acq (S n))) /\ running s1 t = true.
Proof.
  intros Hrun Hr Ep En Ew Hw Hp. eexists. split.
  - cbn [step]. rewrite Hrun, Hr, Ep, En, Ew. unfold free. rewrite Hw, Hp. reflexivity.
  - cbn [locks set_lock set_req reqs running]. rewrite !upd_same. cbn [readers]. split; [left; reflexivity|split; [reflexivity|exact Hrun]].
Qed.

(* non-vacuity: two writers and a reader on overlapping keys; the second writer and the reader wait, then pass *)
Example demo : exists s, run init
  [Start 1 [0; 1] true; Arrive 1; Grant 0; Arrive 1; Grant 1; Arrive 1;
   Start 2 [1] true; Arrive 2; Start 3 [0] false; Arrive 3;
   Release 1; UnlockKey 1; Token 0 0; Arrive 3; UnlockKey 1; Announce 1 0; Grant 1; Arrive 2] = Some s
  /\ writer (locks s 1) = Some 2 /\ readers (locks s 0) = [3] /\ reqs s 1 = None.
Proof. eexists. split; [vm_compute; reflexivity|]. vm_compute. auto. Qed.

Print Assumptions exclusion.
Print Assumptions uncontended_write.
