(* C03: every operation of the model (inner tree of any degree >= 2, and the wrapper) is the corresponding operation
   of the sorted map: same result, and the resulting tree again stands for the resulting map.  This is the
   refinement step behind `case_sound` and behind the history theorems. *)
From Coq Require Import ZArith List Lia Bool Sorting.Sorted.
Require Import C03_Model C03_Spec C03_D C03_Ins C03_Tree C03_Scan C03_ScanSpec C03_Hist C03_Steps.
Import ListNotations.
Open Scope Z_scope.

Lemma lookup_none_del k (L : list item) : s_lookup k L = None -> s_del k L = L.
Proof.
  unfold s_lookup, s_del. induction L as [|x L IH]; cbn [find filter]; [reflexivity|].
  destruct (key x =? k) eqn:E; [discriminate|]. cbn [negb]. intros H. now rewrite IH.
Qed.
Lemma spec_list_del k L : spec_list (IRmItem k) L = s_del k L.
Proof. reflexivity. Qed.

Section Refine.
Variable deg : nat.
Hypothesis deg_ok : (2 <= deg)%nat.

Theorem i_step_refines t L o : refines deg t L ->
  exists t', i_step deg t o = Some (t', snd (is_step L o)) /\ refines0 deg t' (fst (is_step L o)).
Proof.
  intros H. pose proof (proj1 H) as H0.
  destruct o as [x|k| | |k|k| | | |e p q m]; cbn [i_step is_step fst snd].
  - destruct (refines_insert deg deg_ok t L x H) as (t' & E & R). rewrite E. exists t'. split; [reflexivity|exact R].
  - destruct (refines_delete deg deg_ok t L (IRmItem k) H) as (t' & E & [R _]). rewrite E. exists t'. split; [reflexivity|exact R].
  - destruct (refines_delete deg deg_ok t L IRmMin H) as (t' & E & [R _]). rewrite E. exists t'. split; [reflexivity|exact R].
  - destruct (refines_delete deg deg_ok t L IRmMax H) as (t' & E & [R _]). rewrite E. exists t'. split; [reflexivity|exact R].
  - exists t. rewrite (refines_get deg t L k H0). split; [reflexivity|exact H0].
  - exists t. rewrite (refines_get deg t L k H0). split; [destruct (s_lookup k L); reflexivity|exact H0].
  - exists t. rewrite (refines_min deg deg_ok t L H0). split; [reflexivity|exact H0].
  - exists t. rewrite (refines_max deg deg_ok t L H0). split; [reflexivity|exact H0].
  - exists t. rewrite (refines_len deg t L H0). split; [reflexivity|exact H0].
  - exists t. rewrite (refines_collect deg t L e p q m H0). split; [reflexivity|exact H0].
Qed.
End Refine.

Lemma wdeg_ok : (2 <= WDEG)%nat.
Proof. unfold WDEG. lia. Qed.

Theorem w_step_refines t L o : refines WDEG t L ->
  exists t', w_step t o = Some (t', snd (ws_step L o)) /\ refines0 WDEG t' (fst (ws_step L o)).
Proof.
  intros H. pose proof (proj1 H) as H0.
  destruct o as [x|k n|k n|k|k|w k f n]; cbn [w_step ws_step].
  - destruct (refines_insert WDEG wdeg_ok t L x H) as (t' & E & R). rewrite E. exists t'. split; [reflexivity|exact R].
  - unfold w_update. cbn [key fst].
    destruct (refines_delete WDEG wdeg_ok t L (IRmItem k) H) as (t1 & E1 & R1). rewrite E1. cbn [tree_out].
    destruct (s_lookup k L) as [old|] eqn:El; cbn [is_some fst snd].
    + destruct (refines_insert WDEG wdeg_ok t1 _ n R1) as (t2 & E2 & R2). rewrite E2. exists t2. split; [reflexivity|exact R2].
    + exists t1. split; [reflexivity|]. rewrite spec_list_del, (lookup_none_del k L El) in R1. exact (proj1 R1).
  - unfold w_update_or_insert. cbn [key fst].
    destruct (refines_delete WDEG wdeg_ok t L (IRmItem k) H) as (t1 & E1 & R1). rewrite E1. cbn [tree_out fst snd].
    destruct (refines_insert WDEG wdeg_ok t1 _ n R1) as (t2 & E2 & R2). rewrite E2. exists t2.
    split; [destruct (s_lookup k L); reflexivity|exact R2].
  - destruct (refines_delete WDEG wdeg_ok t L (IRmItem k) H) as (t1 & E1 & [R1 _]). rewrite E1. cbn [tree_out fst snd]. exists t1.
    split; [destruct (s_lookup k L); reflexivity|exact R1].
  - exists t. cbn [fst snd]. rewrite (refines_get WDEG t L k H0). split; [reflexivity|exact H0].
  - exists t. cbn [fst snd]. rewrite (refines_walk WDEG t L w k f n H0). split; [reflexivity|exact H0].
Qed.
