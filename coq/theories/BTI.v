From Coq Require Import ZArith List Lia Bool Sorting.Sorted.
Import ListNotations.
Open Scope Z_scope.

Inductive node := Node (items : list Z) (children : list node).
Definition items_of n := match n with Node i _ => i end.
Definition children_of n := match n with Node _ c => c end.

Definition hd_rec {B} (F : node -> B) (d : B) (ch : list node) : B :=
  match ch with c :: _ => F c | [] => d end.

(* in-order interleaving of children and items *)
Fixpoint inter (F : node -> list Z) (its : list Z) (ch : list node) : list Z :=
  match its with
  | [] => hd_rec F [] ch
  | x :: its' => hd_rec F [] ch ++ x :: inter F its' (tl ch)
  end.

Fixpoint flat (f : nat) (n : node) : list Z :=
  match f with O => [] | S f' => inter (flat f') (items_of n) (children_of n) end.

(* shape: leaf, or exactly one more child than items, to depth f *)
Fixpoint wf (f : nat) (n : node) : Prop :=
  match f with O => False | S f' =>
    children_of n = [] \/
    (length (children_of n) = S (length (items_of n)) /\ Forall (wf f') (children_of n))
  end.

Section Iter.
Variable A : Type.
Variable visit : A -> Z -> A * bool.
Variable start : option Z.
Variable incl : bool.

Definition lt_s (x : Z) : bool := match start with Some s => x <? s | None => false end.
Definition le_s (x : Z) : bool := match start with Some s => x <=? s | None => false end.
Definition keep (x : Z) : bool := negb (lt_s x) && (incl || negb (le_s x)).
Definition skipb (hit : bool) (x : Z) : bool := negb incl && negb hit && le_s x.

Fixpoint feed (l : list Z) (a : A) : A * bool :=
  match l with
  | [] => (a, true)
  | x :: l' => let '(a', cont) := visit a x in if cont then feed l' a' else (a', false)
  end.

Definition rec_t := node -> bool -> A -> A * bool * bool.

Fixpoint loop (rc : rec_t) (its : list Z) (ch : list node) (hit : bool) (a : A) : A * bool * bool :=
  match its with
  | [] => hd_rec (fun c => rc c hit a) (a, hit, true) ch
  | x :: its' =>
     let '(a1, hit1, ok1) := hd_rec (fun c => rc c hit a) (a, hit, true) ch in
     if negb ok1 then (a1, hit1, false) else
     if skipb hit1 x then loop rc its' (tl ch) true a1 else
     let '(a2, cont) := visit a1 x in
     if cont then loop rc its' (tl ch) true a2 else (a2, true, false)
  end.

(* index = items.find(start): drop the items below start, and as many children *)
Fixpoint drop_lt (its : list Z) (ch : list node) : list Z * list node :=
  match its with
  | x :: r => if lt_s x then drop_lt r (tl ch) else (its, ch)
  | [] => ([], ch)
  end.

Fixpoint asc (f : nat) (n : node) (hit : bool) (a : A) : A * bool * bool :=
  match f with O => (a, hit, false) | S f' =>
    let '(its, ch) := drop_lt (items_of n) (children_of n) in
    loop (asc f') its ch hit a
  end.

(* what a scan over the in-order list does, given the incoming hit flag *)
Definition keepH (hit : bool) (x : Z) : bool := if hit then true else keep x.

Lemma feed_app l1 l2 a :
  feed (l1 ++ l2) a = let '(a', c) := feed l1 a in if c then feed l2 a' else (a', false).
Proof.
  revert a; induction l1 as [|x l1 IH]; intros a; cbn; [reflexivity|].
  destruct (visit a x) as [a' c]. destruct c; [apply IH | reflexivity].
Qed.


(* ---------- basic facts about the start-relative predicates ---------- *)
Lemma le_s_false_lt x : le_s x = false -> lt_s x = false.
Proof. unfold le_s, lt_s. destruct start as [s|]; auto. intros H. apply Z.leb_gt in H. apply Z.ltb_ge. lia. Qed.

Lemma gt_after x y : lt_s x = false -> x < y -> le_s y = false.
Proof. unfold le_s, lt_s. destruct start as [s|]; auto. intros H Hxy. apply Z.ltb_ge in H. apply Z.leb_gt. lia. Qed.

Lemma lt_before x y : lt_s x = true -> y < x -> lt_s y = true.
Proof. unfold lt_s. destruct start as [s|]; [|discriminate]. intros H Hxy. apply Z.ltb_lt in H. apply Z.ltb_lt. lia. Qed.

Lemma le_eq_lt x y : le_s x = true -> y < x -> lt_s y = true.
Proof. unfold le_s, lt_s. destruct start as [s|]; [|discriminate]. intros H Hxy. apply Z.leb_le in H. apply Z.ltb_lt. lia. Qed.

Lemma keep_gt x : le_s x = false -> keep x = true.
Proof. intros H. unfold keep. rewrite (le_s_false_lt _ H), H. cbn. now rewrite orb_true_r. Qed.

Lemma keep_lt x : lt_s x = true -> keep x = false.
Proof. intros H. unfold keep. now rewrite H. Qed.

Lemma filter_all {B} (P : B -> bool) l : Forall (fun x => P x = true) l -> filter P l = l.
Proof. induction 1 as [|x l Hx _ IH]; cbn; [reflexivity|]. now rewrite Hx, IH. Qed.

Lemma filter_none {B} (P : B -> bool) l : Forall (fun x => P x = false) l -> filter P l = [].
Proof. induction 1 as [|x l Hx _ IH]; cbn; [reflexivity|]. now rewrite Hx. Qed.

Lemma existsb_none {B} (P : B -> bool) l : Forall (fun x => P x = false) l -> existsb P l = false.
Proof. induction 1 as [|x l Hx _ IH]; cbn; [reflexivity|]. now rewrite Hx. Qed.

Lemma ss_app_inv (l1 : list Z) x l2 :
  StronglySorted Z.lt (l1 ++ x :: l2) ->
  StronglySorted Z.lt l1 /\ StronglySorted Z.lt l2 /\ Forall (fun y => y < x) l1 /\ Forall (fun y => x < y) l2
  /\ Forall (fun y => Forall (fun z => y < z) l2) l1.
Proof.
  induction l1 as [|y l1 IH]; cbn; intros H.
  - inversion H; subst. repeat split; auto; constructor.
  - inversion H as [|? ? Hs Hf]; subst. destruct (IH Hs) as (S1 & S2 & F1 & F2 & F3).
    rewrite Forall_app in Hf. destruct Hf as [Hf1 Hf2]. inversion Hf2; subst.
    repeat split; auto; constructor; auto.
Qed.


Lemma ss_app_inv_app (l1 l2 : list Z) :
  StronglySorted Z.lt (l1 ++ l2) -> StronglySorted Z.lt l1 /\ StronglySorted Z.lt l2.
Proof.
  induction l1 as [|y l1 IH]; cbn; intros H; [split; [constructor|assumption]|].
  inversion H as [|? ? Hs Hf]; subst. destruct (IH Hs). rewrite Forall_app in Hf. split; auto. constructor; tauto.
Qed.

(* ---------- specification of one (sub)scan ---------- *)
Definition ge_s (x : Z) : bool := negb (lt_s x).

Definition spec_res (hit : bool) (L : list Z) (a : A) (r : A * bool * bool) : Prop :=
  let '(a', c) := feed (filter (keepH hit) L) a in
  fst (fst r) = a' /\ snd r = c /\ (c = true -> snd (fst r) = hit || existsb ge_s L).

Definition all_gt (L : list Z) := Forall (fun x => le_s x = false) L.

Definition rc_ok (f : nat) (rc : rec_t) : Prop :=
  forall c hit a, wf f c -> StronglySorted Z.lt (flat f c) ->
    (hit = true -> all_gt (flat f c)) -> spec_res hit (flat f c) a (rc c hit a).

Lemma filter_keepH_all hit L : all_gt L -> filter (keepH hit) L = L.
Proof.
  intros H. apply filter_all. unfold all_gt in H. rewrite Forall_forall in *. intros x Hx.
  unfold keepH. destruct hit; [reflexivity|]. apply keep_gt, H, Hx.
Qed.

Lemma spec_hd f rc (Hrc : rc_ok f rc) ch hit a :
  Forall (wf f) ch -> StronglySorted Z.lt (hd_rec (flat f) [] ch) ->
  (hit = true -> all_gt (hd_rec (flat f) [] ch)) ->
  spec_res hit (hd_rec (flat f) [] ch) a (hd_rec (fun c => rc c hit a) (a, hit, true) ch).
Proof.
  destruct ch as [|c ch]; cbn; intros Hwf Hs Hh.
  - unfold spec_res; cbn. repeat split; auto. intros _. now rewrite orb_false_r.
  - apply Hrc; auto. now inversion Hwf.
Qed.

Lemma loop_spec f rc (Hrc : rc_ok f rc) : forall its ch hit a,
  (ch = [] \/ length ch = S (length its)) -> Forall (wf f) ch ->
  StronglySorted Z.lt (inter (flat f) its ch) ->
  Forall (fun x => lt_s x = false) its ->
  (hit = true -> all_gt (inter (flat f) its ch)) ->
  spec_res hit (inter (flat f) its ch) a (loop rc its ch hit a).
Proof.
  induction its as [|x its IH]; intros ch hit a Hshape Hwf Hs Hits Hh.
  - cbn [inter loop]. apply spec_hd; auto.
  - cbn [inter loop] in *.
    set (Lc := hd_rec (flat f) [] ch) in *.
    set (rest := inter (flat f) its (tl ch)) in *.
    destruct (ss_app_inv _ _ _ Hs) as (SLc & Srest & FLc & Frest & _).
    inversion Hits as [|? ? Hx Hits']; subst.
    assert (Hrest_gt : all_gt rest).
    { unfold all_gt. rewrite Forall_forall in *. intros y Hy. eapply gt_after; eauto. }
    assert (Hshape' : tl ch = [] \/ length (tl ch) = S (length its)).
    { destruct Hshape as [->|Hl]; [now left|]. destruct ch; cbn in *; [discriminate|]. right. lia. }
    assert (Hwf' : Forall (wf f) (tl ch)).
    { destruct ch; cbn; auto. now inversion Hwf. }
    assert (Hh1 : hit = true -> all_gt Lc).
    { intros E. specialize (Hh E). unfold all_gt in *. rewrite Forall_app in Hh. tauto. }
    pose proof (spec_hd f rc Hrc ch hit a Hwf SLc Hh1) as H1.
    fold Lc in H1.
    destruct (hd_rec (fun c => rc c hit a) (a, hit, true) ch) as [[a1 h1] ok1].
    unfold spec_res in H1 |- *. cbn [fst snd] in H1.
    rewrite filter_app. cbn [filter]. rewrite feed_app.
    destruct (feed (filter (keepH hit) Lc) a) as [a1' c1].
    destruct H1 as (-> & -> & Hh1').
    destruct c1; cbn [negb].
    2:{ cbn. repeat split; auto; try discriminate. }
    specialize (Hh1' eq_refl). subst h1.
    (* the rest of the list is entirely kept *)
    assert (Hfr : filter (keepH hit) rest = rest) by (apply filter_keepH_all; exact Hrest_gt).
    assert (Hfr' : filter (keepH true) rest = rest) by (apply filter_keepH_all; exact Hrest_gt).
    assert (Hex : existsb ge_s (Lc ++ x :: rest) = true).
    { rewrite existsb_app. cbn. unfold ge_s at 2. rewrite Hx. cbn. now rewrite orb_true_r. }
    (* what IH gives for the tail, entered with hit = true *)
    assert (IHt : forall a0, spec_res true rest a0 (loop rc its (tl ch) true a0)).
    { intros a0. apply IH; auto. }
    destruct (le_s x) eqn:Ele.
    + (* x = start: nothing before it counted as a hit *)
      assert (Hhit : hit = false).
      { destruct hit; auto. specialize (Hh eq_refl). unfold all_gt in Hh.
        rewrite Forall_app in Hh. destruct Hh as [_ Hh]. inversion Hh; congruence. }
      assert (HexLc : existsb ge_s Lc = false).
      { apply existsb_none. rewrite Forall_forall in *. intros y Hy. unfold ge_s.
        rewrite (le_eq_lt x y Ele (FLc y Hy)). reflexivity. }
      subst hit. rewrite HexLc. cbn [orb].
      unfold skipb. cbn [negb andb]. rewrite Ele, andb_true_r.
      unfold keepH at 1. unfold keep. rewrite Hx, Ele. cbn [negb andb orb]. rewrite orb_false_r.
      destruct incl; cbn [negb].
      * (* inclusive: x is visited *)
        cbn [feed app]. destruct (visit a1' x) as [a2 cont]. destruct cont.
        -- specialize (IHt a2). unfold spec_res in IHt. rewrite Hfr' in IHt. rewrite Hfr.
           destruct (loop rc its (tl ch) true a2) as [[a3 h3] ok3]. cbn [fst snd] in *.
           destruct (feed rest a2) as [a4 c4]. destruct IHt as (-> & -> & Hh3).
           repeat split; auto. intros E. rewrite (Hh3 E). cbn. now rewrite Hex.
        -- cbn. repeat split; auto; try discriminate.
      * (* exclusive: x is skipped *)
        cbn [app]. specialize (IHt a1'). unfold spec_res in IHt. rewrite Hfr' in IHt. rewrite Hfr.
        destruct (loop rc its (tl ch) true a1') as [[a3 h3] ok3]. cbn [fst snd] in *.
        destruct (feed rest a1') as [a4 c4]. destruct IHt as (-> & -> & Hh3).
        repeat split; auto. intros E. rewrite (Hh3 E). cbn. now rewrite Hex.
    + (* x > start: visited *)
      unfold skipb. rewrite Ele, andb_false_r.
      assert (Hk : keepH hit x = true).
      { unfold keepH. destruct hit; auto. now apply keep_gt. }
      rewrite Hk. cbn [feed app]. destruct (visit a1' x) as [a2 cont]. destruct cont.
      * specialize (IHt a2). unfold spec_res in IHt. rewrite Hfr' in IHt. rewrite Hfr.
        destruct (loop rc its (tl ch) true a2) as [[a3 h3] ok3]. cbn [fst snd] in *.
        destruct (feed rest a2) as [a4 c4]. destruct IHt as (-> & -> & Hh3).
        repeat split; auto. intros E. rewrite (Hh3 E). cbn. rewrite Hex. now rewrite orb_true_r.
      * cbn. repeat split; auto; try discriminate.
Qed.


(* ---------- dropping the prefix below start (items.find) ---------- *)
Lemma drop_lt_spec f : forall its ch,
  (ch = [] \/ length ch = S (length its)) -> Forall (wf f) ch ->
  StronglySorted Z.lt (inter (flat f) its ch) ->
  exists dropped,
    let '(its', ch') := drop_lt its ch in
    inter (flat f) its ch = dropped ++ inter (flat f) its' ch' /\
    Forall (fun x => lt_s x = true) dropped /\
    Forall (fun x => lt_s x = false) its' /\
    (ch' = [] \/ length ch' = S (length its')) /\ Forall (wf f) ch'.
Proof.
  induction its as [|x its IH]; intros ch Hshape Hwf Hs.
  - exists []. cbn. repeat split; auto.
  - cbn [drop_lt]. destruct (lt_s x) eqn:Ex.
    + cbn [inter] in Hs.
      destruct (ss_app_inv _ _ _ Hs) as (SLc & Srest & FLc & Frest & _).
      assert (Hshape' : tl ch = [] \/ length (tl ch) = S (length its)).
      { destruct Hshape as [->|Hl]; [now left|]. destruct ch; cbn in *; [discriminate|]. right. lia. }
      assert (Hwf' : Forall (wf f) (tl ch)) by (destruct ch; cbn; auto; now inversion Hwf).
      destruct (IH (tl ch) Hshape' Hwf' Srest) as [d Hd].
      destruct (drop_lt its (tl ch)) as [its' ch'].
      destruct Hd as (Heq & Hd1 & Hd2 & Hd3 & Hd4).
      exists (hd_rec (flat f) [] ch ++ x :: d). cbn [inter]. rewrite Heq.
      repeat split; auto.
      * now rewrite <- app_assoc.
      * rewrite Forall_app. split.
        -- rewrite Forall_forall in *. intros y Hy. eapply lt_before; eauto.
        -- constructor; auto.
    + exists []. cbn [app]. repeat split; auto.
      constructor; auto.
      cbn [inter] in Hs. destruct (ss_app_inv _ _ _ Hs) as (_ & Srest & _ & Frest & _).
      (* every later item is greater than x, hence not below start *)
      clear IH Hshape Hwf Hs. revert ch Srest Frest. induction its as [|y its IH2]; intros ch Srest Frest; [constructor|].
      cbn [inter] in *. rewrite Forall_app in Frest. destruct Frest as [_ Fr]. inversion Fr as [|? ? Hy Fr']; subst.
      constructor.
      * destruct (lt_s y) eqn:Ey; auto. rewrite (lt_before y x Ey Hy) in Ex. discriminate.
      * destruct (ss_app_inv _ _ _ Srest) as (_ & S2 & _ & _ & _). eapply IH2; eauto.
Qed.

Lemma asc_spec : forall f, rc_ok f (asc f).
Proof.
  induction f as [|f IH]; intros n hit a Hwf Hs Hh; [destruct Hwf|].
  cbn [asc flat] in *. cbn [wf] in Hwf.
  assert (Hshape : children_of n = [] \/ length (children_of n) = S (length (items_of n))) by tauto.
  assert (Hwfc : Forall (wf f) (children_of n)).
  { destruct Hwf as [->|[_ H]]; auto. }
  destruct (drop_lt_spec f _ _ Hshape Hwfc Hs) as [d Hd].
  destruct (drop_lt (items_of n) (children_of n)) as [its' ch'].
  destruct Hd as (Heq & Hd1 & Hd2 & Hd3 & Hd4).
  rewrite Heq in *.
  destruct (ss_app_inv_app d (inter (flat f) its' ch') Hs) as [Sd Sr].
  assert (Hd_nil : hit = true -> d = []).
  { intros E. specialize (Hh E). unfold all_gt in Hh. rewrite Forall_app in Hh. destruct Hh as [Hh _].
    destruct d as [|y d]; auto. inversion Hh; subst. inversion Hd1; subst.
    rewrite (le_s_false_lt _ H1) in H3. discriminate. }
  assert (Hh' : hit = true -> all_gt (inter (flat f) its' ch')).
  { intros E. specialize (Hh E). unfold all_gt in *. rewrite Forall_app in Hh. tauto. }
  pose proof (loop_spec f (asc f) IH its' ch' hit a Hd3 Hd4 Sr Hd2 Hh') as HL.
  unfold spec_res in *. rewrite filter_app, existsb_app.
  assert (Hex : existsb ge_s d = false).
  { apply existsb_none. rewrite Forall_forall in *. intros y Hy. unfold ge_s. now rewrite (Hd1 y Hy). }
  rewrite Hex. cbn [orb].
  assert (Hfd : filter (keepH hit) d = []).
  { destruct hit; [now rewrite (Hd_nil eq_refl)|].
    apply filter_none. rewrite Forall_forall in *. intros y Hy. unfold keepH. apply keep_lt, Hd1, Hy. }
  rewrite Hfd. cbn [app]. exact HL.
Qed.
End Iter.

(* ---------- the property-level statement ---------- *)
Theorem ascend_scan_correct A (visit : A -> Z -> A * bool) (start : option Z) (incl : bool) f n a :
  wf f n -> StronglySorted Z.lt (flat f n) ->
  let r := asc A visit start incl f n false a in
  (fst (fst r), snd r) = feed A visit (filter (keep start incl) (flat f n)) a.
Proof.
  intros Hwf Hs r.
  pose proof (asc_spec A visit start incl f n false a Hwf Hs (fun E => False_ind _ (Bool.diff_false_true E))) as H.
  unfold spec_res, keepH in H. fold r in H.
  destruct (feed A visit (filter (keep start incl) (flat f n)) a) as [a' c].
  destruct H as (-> & -> & _). reflexivity.
Qed.
Print Assumptions ascend_scan_correct.
