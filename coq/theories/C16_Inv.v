(* C16: the invariant of one session and of the composed machine, over all label sequences *)
From Coq Require Import ZArith List Bool Lia Arith.
Require Import C16_Model.
Import ListNotations.
Open Scope Z_scope.

(* something in the queue has bytes to write *)
Definition has_data (l : list (list Z)) : bool := existsb (fun x => negb (is_nil x)) l.
Lemma has_data_app a b : has_data (a ++ b) = has_data a || has_data b.
Proof. apply existsb_app. Qed.

(* the invariant of a started session *)
Record SInv (s : sess) : Prop := {
  i_onexit : onexit s = if exited s then 1%nat else 0%nat;
  i_exit_closed : exited s = true -> qclosed s = true /\ copen s = false;
  i_open : exited s = false -> copen s = true;
  i_loops : sendl s = false \/ recvl s = false -> exited s = true;
  i_exact : sendl s = true -> peer_open s = true -> concat (accepted s) = inbox s ++ concat (q s);
  i_prefix : exists rest, concat (accepted s) = inbox s ++ rest;
  i_clean : clean s = true ->
            rcause s = false /\ wfail s = false /\ peer_open s = true /\ wsend s = false /\
            (exited s = true -> concat (accepted s) = inbox s);
  i_lclosed : lclosed s = true -> qclosed s = true;
  i_wsend : wsend s = true -> wfail s = true /\ (sendl s = true -> has_data (q s) = true);
  i_peer : peer_open s = false -> rcause s = true;
  i_qc : qclosed s = true -> lclosed s = true \/ exited s = true;
  i_cause : exited s = true -> rcause s = true \/ lclosed s = true \/ wfail s = true;   (* no exit without something that was asked for *)
  i_amb : amb (hx s) = false -> picked (hx s) = true \/ exited s = true -> exit_h (hx s) = hid (hx s);   (* the handler told is the one in charge *)
  i_pick : picked (hx s) = true -> rcause s = true \/ lclosed s = true \/ wfail s = true;
  i_expick : exited s = true -> picked (hx s) = true
}.

Lemma fresh_inv t r h : SInv (fresh t r h).
Proof.
  constructor; cbn; try discriminate; auto.
  - intros [H|H]; discriminate.
  - exists []. reflexivity.
  - intros _ [H|H]; discriminate.
Qed.

Lemma concat_app1 {A} (l : list (list A)) x : concat (l ++ [x]) = concat l ++ x.
Proof. rewrite concat_app. cbn. now rewrite app_nil_r. Qed.


(* what one action does to the flags that the count depends on *)
Definition flag_ok (s s' : sess) (d : bool) : Prop :=
  started s' = started s /\ if d then exited s = false /\ exited s' = true else exited s' = exited s.

Ltac des s := destruct s as [t st q0 qc co sl rl ex oe wf rc po pr rv ib ac cl lc ws [hi he ha hp]].
Ltac fin := constructor; cbn in *; intros; try solve [intuition (auto; try discriminate; try congruence)];
  try solve [match goal with |- context [if ?b then _ else _] => destruct b; intuition (auto; try discriminate; try congruence) end].

Lemma inv_recvend s s' d : SInv s -> sess_step s RecvEnd = Some (s', d) -> SInv s' /\ flag_ok s s' d.
Proof.
  intros I H. des s. destruct I as [I1 I2 I3 I4 I5 I6 I7 I8 I9 J1 J2 J3 J4 J5 J6]. unfold flag_ok. cbn in *.
  destruct rl; cbn in H; [|discriminate].
  destruct (rc || negb co) eqn:E; [|discriminate].
  unfold leave_recv, quit in H; cbn in H. destruct ex; inversion H; subst; clear H; cbn.
  - split; [fin|auto].
  - split; [|auto]. specialize (I3 eq_refl). subst co. rewrite orb_false_r in E. subst rc. fin.
Qed.

Lemma inv_sendstep s s' d : SInv s -> sess_step s SendStep = Some (s', d) -> SInv s' /\ flag_ok s s' d.
Proof.
  intros I H. des s. destruct I as [I1 I2 I3 I4 I5 I6 I7 I8 I9 J1 J2 J3 J4 J5 J6]. unfold flag_ok. cbn in *.
  destruct sl; cbn in H; [|discriminate].
  destruct q0 as [|x r].
  - (* empty queue *)
    destruct qc; [|discriminate]. unfold leave_send, quit in H; cbn in H.
    destruct ex; inversion H; subst; clear H; cbn.
    + split; [fin|auto].
    + split; [|auto]. specialize (I3 eq_refl). subst co. fin.
      destruct I7 as (A & B & C & E & F); auto. repeat split; auto. intros _. rewrite I5; auto. cbn. now rewrite app_nil_r.
  - destruct x as [|x0 x]; cbn [is_nil] in H.
    + (* zero-length payload: skipped *)
      inversion H; subst; clear H; cbn. split; [|auto]. fin.
    + cbn [negb] in H. destruct (negb co || wf || negb po) eqn:E.
      * (* failing write: leave *)
        unfold leave_send, quit in H; cbn in H.
        destruct ex; inversion H; subst; clear H; cbn.
        -- split; [|auto]. fin.
        -- split; [|auto]. specialize (I3 eq_refl). subst co. fin.
           ++ destruct I7 as (A & B & C & E' & F); auto. subst wf po. cbn in E. discriminate.
           ++ destruct wf; [auto|]. cbn in E. apply negb_true_iff in E. subst po. left. apply J1. reflexivity.
           ++ destruct wf; [auto|]. cbn in E. apply negb_true_iff in E. subst po. left. apply J1. reflexivity.
      * (* the write succeeds if the peer reads *)
        destruct pr; [|discriminate]. inversion H; subst; clear H; cbn.
        apply orb_false_elim in E as [E E4]. apply orb_false_elim in E as [E2 E3].
        apply negb_false_iff in E2, E4. subst co wf po.
        split; [|auto]. fin.
        -- rewrite I5; auto. rewrite <- app_assoc. reflexivity.
        -- exists (concat r). rewrite I5; auto. rewrite <- app_assoc. reflexivity.
Qed.

Lemma inv_sendlost s s' d : SInv s -> sess_step s SendLost = Some (s', d) -> SInv s' /\ flag_ok s s' d.
Proof.
  intros I H. des s. destruct I as [I1 I2 I3 I4 I5 I6 I7 I8 I9 J1 J2 J3 J4 J5 J6]. unfold flag_ok. cbn in *.
  destruct sl; cbn in H; [|discriminate].
  destruct q0 as [|x r]; [discriminate|].
  destruct (negb (is_nil x) && co && negb wf && negb po && is_tcp t) eqn:E; [|discriminate].
  inversion H; subst; clear H; cbn.
  apply andb_prop in E as [E E5]. apply andb_prop in E as [E E4]. apply andb_prop in E as [E E3]. apply andb_prop in E as [E1 E2].
  apply negb_true_iff in E3, E4. subst co wf po.
  split; [|auto]. fin.
Qed.

Lemma inv_send s bs ok s' d : SInv s -> sess_step s (Send bs ok) = Some (s', d) -> SInv s' /\ flag_ok s s' d.
Proof.
  intros I H. des s. destruct I as [I1 I2 I3 I4 I5 I6 I7 I8 I9 J1 J2 J3 J4 J5 J6]. unfold flag_ok. cbn in *.
  destruct (Bool.eqb ok (negb qc)) eqn:E; [|discriminate]. apply eqb_prop in E. subst ok.
  destruct qc; cbn in H; inversion H; subst; clear H; cbn.
  - split; [fin|auto].
  - split; [|auto]. destruct ex; [destruct (I2 eq_refl); discriminate|]. fin.
    + rewrite !concat_app1. rewrite I5; auto. now rewrite app_assoc.
    + destruct I6 as [rest I6]. exists (rest ++ bs). rewrite concat_app1, I6. now rewrite app_assoc.
    + destruct I7 as (A & B & C & E' & F); auto.
      subst wf. rewrite E'. repeat split; auto. discriminate.
    + apply orb_prop in H as [H|H].
      * destruct I9 as [I9a I9b]; auto. split; auto. intros Hs. rewrite existsb_app, I9b; auto.
      * apply andb_prop in H as [Hw Hn]. split; auto. intros _. rewrite existsb_app. cbn. rewrite Hn. cbn. apply orb_true_r.
Qed.

Lemma inv_other s a s' d : SInv s ->
  match a with LocalClose | StartAgain | SetHandler _ | PeerClose | PeerRead | PeerPause | PeerByte | RecvFault _ | WriteFault _ => True | _ => False end ->
  sess_step s a = Some (s', d) -> SInv s' /\ flag_ok s s' d.
Proof.
  intros I Ha H. des s. destruct I as [I1 I2 I3 I4 I5 I6 I7 I8 I9 J1 J2 J3 J4 J5 J6]. unfold flag_ok.
  destruct a; try contradiction; cbn in *.
  - inversion H; subst; clear H; cbn. split; [fin|auto].
  - inversion H; subst; clear H; cbn. split; [fin|auto].
  - (* UpdateHandler *)
    inversion H; subst; clear H; cbn. split; [|auto]. fin.
    exfalso. apply orb_false_elim in H as [H Hw]. apply orb_false_elim in H as [H Hl]. apply orb_false_elim in H as [_ Hr].
    assert (Hp : hp = true) by (destruct H0 as [X|X]; [exact X|exact (J6 X)]).
    destruct (J5 Hp) as [X|[X|X]]; congruence.
  - destruct po; [|discriminate]. inversion H; subst; clear H; cbn. split; [fin|auto].
  - destruct (po && negb pr); [|discriminate]. inversion H; subst; clear H; cbn. split; [fin|auto].
  - destruct po; [|discriminate]. destruct (rl && negb rc && co); inversion H; subst; clear H; cbn; (split; [fin|auto]).
  - destruct (po && pr); [|discriminate]. inversion H; subst; clear H; cbn. split; [fin|auto].
  - destruct (match k with RErr | RTimeout => true | _ => po end); [|discriminate].
    inversion H; subst; clear H; cbn. split; [fin|auto].
  - inversion H; subst; clear H; cbn. split; [fin|auto].
Qed.

Lemma can_leave_cause s : SInv s -> exited s = false -> can_leave s = true -> rcause s = true \/ lclosed s = true \/ wfail s = true.
Proof.
  intros I Ex C. pose proof (i_open s I Ex) as Co. unfold can_leave in C. rewrite Co in C. cbn [negb] in C. rewrite !orb_false_r in C.
  apply orb_prop in C as [C|C].
  - apply andb_prop in C as [_ C]. auto.
  - apply andb_prop in C as [_ C]. destruct (q s) as [|x r].
    + destruct (i_qc s I C) as [X|X]; [auto|congruence].
    + apply andb_prop in C as [_ C]. cbn [orb] in C. apply orb_prop in C as [C|C]; [auto|].
      apply negb_true_iff in C. left. exact (i_peer s I C).
Qed.

Lemma inv_pick s s' d : SInv s -> sess_step s Pick = Some (s', d) -> SInv s' /\ flag_ok s s' d.
Proof.
  intros I H. pose proof (can_leave_cause s I) as CC. des s. destruct I as [I1 I2 I3 I4 I5 I6 I7 I8 I9 J1 J2 J3 J4 J5 J6]. unfold flag_ok.
  cbn [sess_step hx picked exited] in H.
  destruct (negb hp && negb ex && can_leave _) eqn:E; [|discriminate].
  apply andb_prop in E as [E Ec]. apply andb_prop in E as [Ep Ee]. apply negb_true_iff in Ep, Ee. subst hp ex.
  inversion H; subst; clear H. cbn in *. split; [|auto]. fin.
Qed.

Theorem sess_step_inv s a s' d : SInv s -> sess_step s a = Some (s', d) -> SInv s' /\ flag_ok s s' d.
Proof.
  intros I H. destruct a.
  - eapply inv_send; eauto.
  - eapply inv_other; eauto; exact Logic.I.
  - eapply inv_other; eauto; exact Logic.I.
  - eapply inv_other; eauto; exact Logic.I.
  - eapply inv_other; eauto; exact Logic.I.
  - eapply inv_other; eauto; exact Logic.I.
  - eapply inv_other; eauto; exact Logic.I.
  - eapply inv_other; eauto; exact Logic.I.
  - eapply inv_other; eauto; exact Logic.I.
  - eapply inv_other; eauto; exact Logic.I.
  - eapply inv_sendstep; eauto.
  - eapply inv_sendlost; eauto.
  - eapply inv_recvend; eauto.
  - eapply inv_pick; eauto.
Qed.

(* ------------------------------------------------------------------ the composed machine *)

Definition Inv1 (s : sess) : Prop := if started s then SInv s else s = rejected.
Definition live (s : sess) : Z := if started s && negb (exited s) then 1 else 0.
Fixpoint total (l : list sess) : Z := match l with [] => 0 | s :: r => live s + total r end.

(* the accept goroutine *)
Record AInv (t : st) : Prop := {
  a_dead : aloop (al t) = false -> sclosed (al t) = true \/ (amax (al t) <= aretry (al t))%nat;   (* it ends only by Close or by exhausting its retries *)
  a_closed : sclosed (al t) = true -> aloop (al t) = false;
  a_fresh : aloop (al t) = true -> pend t = 0%nat -> aretry (al t) = 0%nat
}.

Record GInv (c0 : Z) (t : st) : Prop := {
  g_cnt : cnt t = c0 + total (ss t);          (* the count is its initial value plus the sessions started and not yet exited *)
  g_all : Forall Inv1 (ss t);
  g_al : AInv t
}.

Lemma live_range s : 0 <= live s <= 1.
Proof. unfold live. destruct (started s && negb (exited s)); lia. Qed.
Lemma total_nonneg l : 0 <= total l.
Proof. induction l as [|s l IH]; cbn; [lia|]. pose proof (live_range s). lia. Qed.
Lemma total_app a b : total (a ++ b) = total a + total b.
Proof. induction a as [|s a IH]; cbn; lia. Qed.
Lemma total_upd l : forall i s s', nth_error l i = Some s -> total (upd i s' l) = total l - live s + live s'.
Proof.
  induction l as [|y l IH]; intros [|i] s s' H; cbn in *; try discriminate.
  - inversion H; subst. lia.
  - rewrite (IH i s s' H). lia.
Qed.
Lemma Forall_upd {A} (P : A -> Prop) l : forall i x, Forall P l -> P x -> Forall P (upd i x l).
Proof.
  induction l as [|y l IH]; intros [|i] x HF Hx; cbn; auto; inversion HF; subst; constructor; auto.
Qed.
Lemma Forall_nth {A} (P : A -> Prop) l i x : Forall P l -> nth_error l i = Some x -> P x.
Proof. intros HF H. rewrite Forall_forall in HF. apply HF. eapply nth_error_In; eauto. Qed.
Lemma upd_length {A} (l : list A) : forall i x, length (upd i x l) = length l.
Proof. induction l as [|y l IH]; intros [|i] x; cbn; auto. Qed.
Lemma nth_upd_same {A} (l : list A) : forall i x, (i < length l)%nat -> nth_error (upd i x l) i = Some x.
Proof. induction l as [|y l IH]; intros [|i] x H; cbn in *; try lia; auto. apply IH. lia. Qed.
Lemma nth_upd_other {A} (l : list A) : forall i j x, i <> j -> nth_error (upd i x l) j = nth_error l j.
Proof. induction l as [|y l IH]; intros [|i] [|j] x H; cbn; auto; try congruence. Qed.

Lemma flag_live s s' d : flag_ok s s' d -> started s = true -> live s' = live s - (if d then 1 else 0).
Proof.
  intros [Hs Hd] St. unfold live. rewrite Hs, St. cbn. destruct d.
  - destruct Hd as [A B]. rewrite A, B. reflexivity.
  - rewrite Hd. lia.
Qed.

Lemma init_ginv m c0 r : GInv c0 (init m c0 r).
Proof. constructor; cbn; [lia|constructor|]. constructor; cbn; auto; discriminate. Qed.

Lemma rejected_inv1 : Inv1 rejected.
Proof. reflexivity. Qed.
Lemma fresh_inv1 t r h : Inv1 (fresh t r h).
Proof. unfold Inv1. cbn. apply fresh_inv. Qed.

Theorem step_ginv c0 t l t' : GInv c0 t -> step t l = Some t' -> GInv c0 t' /\ maxc t' = maxc t.
Proof.
  intros [Hc Ha [A1 A2 A3]] H. destruct l as [i trp reads h0|i|i| | | | |i a]; cbn [step] in H.
  - destruct (Nat.eqb i (length (ss t)) && Nat.eqb (pend t) 0) eqn:E; [|discriminate]. apply andb_prop in E as [_ E]. apply Nat.eqb_eq in E.
    inversion H; subst; clear H. cbn. split; [|reflexivity].
    constructor; cbn.
    + rewrite total_app. cbn. lia.
    + apply Forall_app. split; [exact Ha|]. constructor; [apply fresh_inv1|constructor].
    + constructor; cbn; auto.
  - destruct (Nat.eqb i (length (ss t) + pend t)); [|discriminate]. inversion H; subst; clear H. cbn. split; [|reflexivity].
    constructor; cbn; auto. constructor; cbn; auto. discriminate.
  - destruct (Nat.eqb i (length (ss t)) && negb (Nat.eqb (pend t) 0) && aloop (al t) && negb (fdlim (al t))) eqn:E; [|discriminate].
    apply andb_prop in E as [E _]. apply andb_prop in E as [_ E].
    assert (AI : forall p, AInv (mkSt (maxc t) p (ss t) (pred (pend t)) (set_aretry (al t) 0%nat)) -> True) by auto.
    destruct (maxc t <=? cnt t); inversion H; subst; clear H; cbn; (split; [|reflexivity]); constructor; cbn.
    + rewrite total_app. cbn. lia.
    + apply Forall_app. split; [exact Ha|]. constructor; [apply rejected_inv1|constructor].
    + constructor; cbn; auto. congruence.
    + rewrite total_app. cbn. lia.
    + apply Forall_app. split; [exact Ha|]. constructor; [apply fresh_inv1|constructor].
    + constructor; cbn; auto. congruence.
  - (* a temporary error of Accept *)
    destruct (negb (Nat.eqb (pend t) 0) && aloop (al t) && fdlim (al t)) eqn:E; [|discriminate].
    apply andb_prop in E as [E _]. apply andb_prop in E as [Ep El]. apply negb_true_iff, Nat.eqb_neq in Ep.
    inversion H; subst; clear H. cbn. split; [|reflexivity]. constructor; cbn; auto.
    destruct (Nat.leb (amax (al t)) (S (aretry (al t)))) eqn:Em; constructor; cbn; auto.
    + intros _. right. apply Nat.leb_le. exact Em.
    + discriminate.
    + congruence.
    + intros _ X. congruence.
  - destruct (fdlim (al t)); [discriminate|]. inversion H; subst; clear H. cbn. split; [|reflexivity]. constructor; cbn; auto. constructor; cbn; auto.
  - destruct (fdlim (al t)); [|discriminate]. inversion H; subst; clear H. cbn. split; [|reflexivity]. constructor; cbn; auto. constructor; cbn; auto.
  - destruct (Nat.eqb (pend t) 0); [|discriminate]. inversion H; subst; clear H. cbn. split; [|reflexivity]. constructor; cbn; auto.
    constructor; cbn; auto. discriminate.
  - destruct (nth_error (ss t) i) as [s|] eqn:En; [|discriminate].
    destruct (started s) eqn:St; [|discriminate].
    destruct (sess_step s a) as [[s' d]|] eqn:Es; [|discriminate]. inversion H; subst; clear H. cbn.
    assert (I : SInv s) by (pose proof (Forall_nth _ _ _ _ Ha En) as X; unfold Inv1 in X; now rewrite St in X).
    destruct (sess_step_inv _ _ _ _ I Es) as [I' F]. split; [|reflexivity]. constructor; cbn.
    + rewrite (total_upd _ _ _ s' En), (flag_live _ _ _ F St). destruct d; lia.
    + apply Forall_upd; [exact Ha|]. unfold Inv1. destruct F as [F _]. rewrite F, St. exact I'.
    + constructor; cbn; auto.
Qed.

Lemma step_amax t l t' : step t l = Some t' -> amax (al t') = amax (al t).
Proof.
  intros H. destruct l as [i trp reads h0|i|i| | | | |i a]; cbn [step] in H.
  - destruct (Nat.eqb i (length (ss t)) && Nat.eqb (pend t) 0); [|discriminate]. now inversion H.
  - destruct (Nat.eqb i (length (ss t) + pend t)); [|discriminate]. now inversion H.
  - destruct (Nat.eqb i (length (ss t)) && negb (Nat.eqb (pend t) 0) && aloop (al t) && negb (fdlim (al t))); [|discriminate].
    destruct (maxc t <=? cnt t); now inversion H.
  - destruct (negb (Nat.eqb (pend t) 0) && aloop (al t) && fdlim (al t)); [|discriminate]. inversion H; subst. cbn.
    destruct (Nat.leb (amax (al t)) (S (aretry (al t)))); reflexivity.
  - destruct (fdlim (al t)); [discriminate|]. now inversion H.
  - destruct (fdlim (al t)); [|discriminate]. now inversion H.
  - destruct (Nat.eqb (pend t) 0); [|discriminate]. now inversion H.
  - destruct (nth_error (ss t) i) as [s|]; [|discriminate]. destruct (started s); [|discriminate].
    destruct (sess_step s a) as [[s' d]|]; [|discriminate]. now inversion H.
Qed.

Lemma run_amax ls : forall t t', run t ls = Some t' -> amax (al t') = amax (al t).
Proof.
  induction ls as [|l ls IH]; intros t t' H; cbn in H; [now inversion H|].
  destruct (step t l) as [t1|] eqn:E; [|discriminate]. rewrite (IH _ _ H). exact (step_amax _ _ _ E).
Qed.

Theorem run_ginv c0 ls : forall t t', GInv c0 t -> run t ls = Some t' -> GInv c0 t' /\ maxc t' = maxc t.
Proof.
  induction ls as [|l ls IH]; intros t t' G H; cbn in H.
  - inversion H; subst. auto.
  - destruct (step t l) as [t1|] eqn:E; [|discriminate]. destruct (step_ginv _ _ _ _ G E) as [G1 M1].
    destruct (IH _ _ G1 H) as [G' M']. split; [exact G'|congruence].
Qed.

(* ---- the bound: only the accept loop starts sessions ---- *)
Definition not_start (l : label) : bool := match l with Start _ _ _ _ => false | _ => true end.

Lemma step_bound c0 t l t' : GInv c0 t -> 0 <= c0 -> step t l = Some t' -> not_start l = true ->
  cnt t <= Z.max c0 (maxc t) -> cnt t' <= Z.max c0 (maxc t').
Proof.
  intros G H0 H Hn Hb. destruct (step_ginv _ _ _ _ G H) as [G' M]. rewrite M.
  destruct l as [i trp reads h0|i|i| | | | |i a]; cbn [step] in H; [discriminate| | | | | | |].
  - destruct (Nat.eqb i (length (ss t) + pend t)); [|discriminate]. inversion H; subst; clear H; cbn in *. lia.
  - destruct (Nat.eqb i (length (ss t)) && negb (Nat.eqb (pend t) 0) && aloop (al t) && negb (fdlim (al t))); [|discriminate].
    destruct (maxc t <=? cnt t) eqn:E; inversion H; subst; clear H; cbn in *; [lia|]. apply Z.leb_gt in E. lia.
  - destruct (negb (Nat.eqb (pend t) 0) && aloop (al t) && fdlim (al t)); [|discriminate]. inversion H; subst; clear H; cbn in *. lia.
  - destruct (fdlim (al t)); [discriminate|]. inversion H; subst; clear H; cbn in *. lia.
  - destruct (fdlim (al t)); [|discriminate]. inversion H; subst; clear H; cbn in *. lia.
  - destruct (Nat.eqb (pend t) 0); [|discriminate]. inversion H; subst; clear H; cbn in *. lia.
  - destruct (nth_error (ss t) i) as [s|]; [|discriminate]. destruct (started s); [|discriminate].
    destruct (sess_step s a) as [[s' d]|]; [|discriminate]. inversion H; subst; clear H. cbn in *.
    destruct d; [|lia]. destruct G' as [Gc _]. cbn in Gc. pose proof (total_nonneg (upd i s' (ss t))). lia.
Qed.

Theorem run_bound c0 ls : forall t t', GInv c0 t -> 0 <= c0 -> run t ls = Some t' -> forallb not_start ls = true ->
  cnt t <= Z.max c0 (maxc t) -> cnt t' <= Z.max c0 (maxc t').
Proof.
  induction ls as [|l ls IH]; intros t t' G H0 H Hn Hb; cbn in H.
  - inversion H; subst. exact Hb.
  - cbn in Hn. apply andb_prop in Hn as [Hn1 Hn2]. destruct (step t l) as [t1|] eqn:E; [|discriminate].
    destruct (step_ginv _ _ _ _ G E) as [G1 _].
    assert (B1 : cnt t1 <= Z.max c0 (maxc t1)) by (apply (step_bound c0 t l t1 G H0 E Hn1 Hb)).
    exact (IH t1 t' G1 H0 H Hn2 B1).
Qed.

(* ---- quiescence ---- *)
Definition must_end (s : sess) : bool := rcause s || (lclosed s && peer_reads s) || wsend s.

Lemma quiet_started s : started s = true -> quiet s = true ->
  sess_step s SendStep = None /\ sess_step s SendLost = None /\ sess_step s RecvEnd = None.
Proof.
  intros St Q. unfold quiet in Q. rewrite St in Q. change (negb true) with false in Q. rewrite orb_false_l in Q.
  apply andb_prop in Q as [Q Q3]. apply andb_prop in Q as [Q1 Q2]. unfold none_opt in Q1, Q2, Q3.
  destruct (sess_step s SendStep); [discriminate|]. destruct (sess_step s SendLost); [discriminate|].
  destruct (sess_step s RecvEnd); [discriminate|]. auto.
Qed.

Lemma leave_send_some s : leave_send s <> None.
Proof. unfold leave_send. destruct (quit s). discriminate. Qed.
Lemma leave_recv_some s : leave_recv s <> None.
Proof. unfold leave_recv. destruct (quit s). discriminate. Qed.

Lemma quiet_no_pick s : started s = true -> quiet s = true -> sess_step s Pick = None.
Proof.
  intros St Q. destruct (quiet_started s St Q) as (A & _ & C). unfold sess_step.
  destruct (negb (picked (hx s)) && negb (exited s) && can_leave s) eqn:E; [|reflexivity]. exfalso.
  apply andb_prop in E as [_ E]. unfold can_leave in E. apply orb_prop in E as [E|E].
  - unfold sess_step in C. rewrite E in C. eapply leave_recv_some; eauto.
  - apply andb_prop in E as [Sl E]. unfold sess_step in A. rewrite Sl in A. cbn in A. destruct (q s) as [|x r].
    + rewrite E in A. eapply leave_send_some; eauto.
    + apply andb_prop in E as [E1 E2]. apply negb_true_iff in E1. rewrite E1, E2 in A. eapply leave_send_some; eauto.
Qed.

(* a send loop that still runs at quiescence is parked in PopAnyway on an open empty queue, or blocked in a write
   towards a peer that does not read, with no fault pending and the connection up *)
Lemma quiet_sendl s : started s = true -> quiet s = true -> sendl s = true ->
  (q s = [] /\ qclosed s = false) \/
  (has_data (q s) = true /\ peer_reads s = false /\ wfail s = false /\ copen s = true /\ peer_open s = true).
Proof.
  intros St Q Sl. destruct (quiet_started s St Q) as [H _]. des s. cbn in *. subst sl. cbn in H.
  destruct q0 as [|x r].
  - left. destruct qc; [exfalso; eapply leave_send_some; eauto|auto].
  - right. destruct x as [|x0 x]; [discriminate|]. cbn in H.
    destruct (negb co || wf || negb po) eqn:E; [exfalso; eapply leave_send_some; eauto|].
    apply orb_false_elim in E as [E E4]. apply orb_false_elim in E as [E2 E3].
    apply negb_false_iff in E2, E4. destruct pr; [discriminate|]. repeat split; auto.
Qed.

Lemma quiet_exited s : SInv s -> started s = true -> quiet s = true -> exited s = true -> sendl s = false /\ recvl s = false.
Proof.
  intros I St Q Ex. destruct (i_exit_closed s I Ex) as [Qc Co]. split.
  - destruct (sendl s) eqn:Sl; [|reflexivity]. destruct (quiet_sendl s St Q Sl) as [[_ A]|(_ & _ & _ & A & _)]; congruence.
  - destruct (quiet_started s St Q) as (_ & _ & H). unfold sess_step in H. rewrite Co in H.
    destruct (recvl s); [|reflexivity]. rewrite orb_true_r in H. cbn in H. exfalso. eapply leave_recv_some; eauto.
Qed.

Lemma quiet_must_end s : SInv s -> started s = true -> quiet s = true -> must_end s = true -> exited s = true.
Proof.
  intros I St Q M. destruct (exited s) eqn:Ex; [reflexivity|exfalso].
  assert (Sl : sendl s = true) by (destruct (sendl s) eqn:X; auto; rewrite (i_loops s I) in Ex; [discriminate|auto]).
  assert (Rl : recvl s = true) by (destruct (recvl s) eqn:X; auto; rewrite (i_loops s I) in Ex; [discriminate|auto]).
  unfold must_end in M. apply orb_prop in M as [M|M]; [apply orb_prop in M as [M|M]|].
  - destruct (quiet_started s St Q) as (_ & _ & H). unfold sess_step in H. rewrite Rl, M in H. cbn in H.
    eapply leave_recv_some; eauto.
  - apply andb_prop in M as [L P]. pose proof (i_lclosed s I L) as Qc.
    destruct (quiet_sendl s St Q Sl) as [[_ A]|(_ & A & _)]; congruence.
  - destruct (i_wsend s I M) as [W Hq]. destruct (quiet_sendl s St Q Sl) as [[A _]|(_ & _ & A & _)]; [|congruence].
    specialize (Hq Sl). rewrite A in Hq. discriminate.
Qed.

(* ---- the session's own steps terminate ---- *)
Definition b2n (b : bool) : nat := if b then 1%nat else 0%nat.
Definition mu (s : sess) : nat := (2 * (length (q s) + b2n (sendl s) + b2n (recvl s)) + b2n (negb (picked (hx s))))%nat.

Lemma quit_mu s s1 d : quit s = (s1, d) -> q s1 = q s /\ sendl s1 = sendl s /\ recvl s1 = recvl s /\
  (b2n (negb (picked (hx s1))) <= b2n (negb (picked (hx s))))%nat.
Proof. unfold quit. destruct (exited s); intros H; inversion H; subst; cbn; repeat split; auto. destruct (picked (hx s)); cbn; lia. Qed.

Lemma internal_decreases s a s' d : internal_act a = true -> sess_step s a = Some (s', d) -> (mu s' < mu s)%nat.
Proof.
  intros Ia H. destruct a; try discriminate; unfold sess_step in H.
  - destruct (sendl s) eqn:Sl; cbn in H; [|discriminate]. destruct (q s) as [|x r] eqn:Eq.
    + destruct (qclosed s); [|discriminate]. unfold leave_send in H. destruct (quit s) as [s1 d1] eqn:Eqt.
      inversion H; subst; clear H. destruct (quit_mu _ _ _ Eqt) as (A & B & C & D). cbn [hx set_q] in D. unfold mu. cbn. rewrite A, C, Eq, Sl. cbn. lia.
    + destruct (is_nil x); [inversion H; subst; clear H; unfold mu; cbn; rewrite Eq, Sl; cbn; lia|].
      destruct (negb (copen s) || wfail s || negb (peer_open s)).
      * unfold leave_send in H. destruct (quit (set_q s r)) as [s1 d1] eqn:Eqt.
        inversion H; subst; clear H. destruct (quit_mu _ _ _ Eqt) as (A & B & C & D). cbn [hx set_q] in D. unfold mu. cbn in *. rewrite A, C, Eq, Sl. cbn. lia.
      * destruct (peer_reads s); [|discriminate]. inversion H; subst; clear H. unfold mu. cbn. rewrite Eq, Sl. cbn. lia.
  - destruct (sendl s) eqn:Sl; cbn in H; [|discriminate]. destruct (q s) as [|x r] eqn:Eq; [discriminate|].
    destruct (negb (is_nil x) && copen s && negb (wfail s) && negb (peer_open s) && is_tcp (tr s)); [|discriminate].
    inversion H; subst; clear H. unfold mu. cbn. rewrite Eq, Sl. cbn. lia.
  - destruct (recvl s) eqn:Rl; cbn in H; [|discriminate]. destruct (rcause s || negb (copen s)); [|discriminate].
    unfold leave_recv in H. destruct (quit s) as [s1 d1] eqn:Eqt. inversion H; subst; clear H.
    destruct (quit_mu _ _ _ Eqt) as (A & B & C & D). cbn [hx set_q] in D. unfold mu. cbn. rewrite A, B, Rl. cbn. lia.
  - destruct (negb (picked (hx s)) && negb (exited s) && can_leave s) eqn:E; [|discriminate].
    apply andb_prop in E as [E _]. apply andb_prop in E as [E _]. apply negb_true_iff in E.
    inversion H; subst; clear H. unfold mu. cbn. rewrite E. cbn. lia.
Qed.

Fixpoint Mu (l : list sess) : nat := match l with [] => 0%nat | s :: r => (mu s + Mu r)%nat end.
Lemma Mu_upd l : forall i s s', nth_error l i = Some s -> (Mu (upd i s' l) + mu s = Mu l + mu s')%nat.
Proof.
  induction l as [|y l IH]; intros [|i] s s' H; cbn in *; try discriminate.
  - inversion H; subst. lia.
  - pose proof (IH i s s' H). lia.
Qed.

(* the accept goroutine's steps: a successful Accept consumes a waiting connection (which may become a session with
   its two loops, and gives the loop its full number of retries back), a failing one consumes a retry *)
Definition loop_budget (a : aloopst) : nat := if aloop a then S (amax a - aretry a) else 0%nat.
Definition MU (t : st) : nat := (Mu (ss t) + (amax (al t) + 7) * pend t + loop_budget (al t))%nat.
Lemma Mu_app a b : Mu (a ++ b) = (Mu a + Mu b)%nat.
Proof. induction a as [|s a IH]; cbn; lia. Qed.

Theorem internal_step_decreases t l t' : internal l = true -> step t l = Some t' -> (MU t' < MU t)%nat.
Proof.
  intros Il H. unfold MU, loop_budget. destruct l as [| |i| | | | |i a]; try discriminate.
  - cbn [step] in H. destruct (Nat.eqb i (length (ss t)) && negb (Nat.eqb (pend t) 0) && aloop (al t) && negb (fdlim (al t))) eqn:E; [|discriminate].
    apply andb_prop in E as [E _]. apply andb_prop in E as [E El]. apply andb_prop in E as [_ E]. apply negb_true_iff, Nat.eqb_neq in E.
    destruct (pend t) as [|p] eqn:Ep; [congruence|].
    destruct (maxc t <=? cnt t); inversion H; subst; clear H; cbn [ss pend al set_aretry amax aloop aretry Nat.pred];
      rewrite Mu_app, El, Nat.mul_succ_r; cbn [Mu mu rejected fresh q sendl recvl length b2n]; generalize ((amax (al t) + 7) * p)%nat; intros X; unfold mu, rejected, fresh; cbn; lia.
  - cbn [step] in H. destruct (negb (Nat.eqb (pend t) 0) && aloop (al t) && fdlim (al t)) eqn:E; [|discriminate].
    apply andb_prop in E as [E _]. apply andb_prop in E as [_ El].
    inversion H; subst; clear H. cbn [ss pend al]. rewrite El.
    destruct (Nat.leb (amax (al t)) (S (aretry (al t)))) eqn:Em; cbn [set_aloop set_aretry amax aloop aretry].
    + lia.
    + apply Nat.leb_gt in Em. rewrite ?El. generalize ((amax (al t) + 7) * pend t)%nat; intros X. lia.
  - cbn in Il. cbn [step] in H.
    destruct (nth_error (ss t) i) as [s|] eqn:En; [|discriminate]. destruct (started s); [|discriminate].
    destruct (sess_step s a) as [[s' d]|] eqn:Es; [|discriminate]. inversion H; subst; clear H. cbn [ss pend al].
    pose proof (internal_decreases _ _ _ _ Il Es). pose proof (Mu_upd _ _ _ s' En). lia.
Qed.

(* every run of the goroutines of the implementation alone (accept loop, session loops) is bounded by the measure: nothing spins *)
Theorem internal_run_bounded ls : forall t t', forallb internal ls = true -> run t ls = Some t' ->
  (length ls + MU t' <= MU t)%nat.
Proof.
  induction ls as [|l ls IH]; intros t t' Hi H; cbn in *.
  - inversion H; subst. lia.
  - apply andb_prop in Hi as [H1 H2]. destruct (step t l) as [t1|] eqn:E; [|discriminate].
    pose proof (internal_step_decreases _ _ _ H1 E). pose proof (IH _ _ H2 H). lia.
Qed.

(* ---- the accept loop ends only through Server.Close or after acceptMaxRetry temporary errors in a row ---- *)
Definition is_fail (l : label) : bool := match l with AcceptFail => true | _ => false end.
Definition count_fail (ls : list label) : nat := length (filter is_fail ls).
Definition is_srvclose (l : label) : bool := match l with SrvClose => true | _ => false end.

Lemma step_aretry t l t' : step t l = Some t' ->
  (aretry (al t') <= aretry (al t) + (if is_fail l then 1 else 0))%nat /\ (is_srvclose l = false -> sclosed (al t') = sclosed (al t)).
Proof.
  intros H. destruct l as [i trp reads h0|i|i| | | | |i a]; cbn [step] in H; cbn [is_fail is_srvclose].
  - destruct (Nat.eqb i (length (ss t)) && Nat.eqb (pend t) 0); [|discriminate]. inversion H; subst; cbn. split; [lia|auto].
  - destruct (Nat.eqb i (length (ss t) + pend t)); [|discriminate]. inversion H; subst; cbn. split; [lia|auto].
  - destruct (Nat.eqb i (length (ss t)) && negb (Nat.eqb (pend t) 0) && aloop (al t) && negb (fdlim (al t))); [|discriminate].
    destruct (maxc t <=? cnt t); inversion H; subst; cbn; (split; [lia|auto]).
  - destruct (negb (Nat.eqb (pend t) 0) && aloop (al t) && fdlim (al t)); [|discriminate]. inversion H; subst; cbn.
    destruct (Nat.leb (amax (al t)) (S (aretry (al t)))); cbn; (split; [lia|auto]).
  - destruct (fdlim (al t)); [discriminate|]. inversion H; subst; cbn. split; [lia|auto].
  - destruct (fdlim (al t)); [|discriminate]. inversion H; subst; cbn. split; [lia|auto].
  - destruct (Nat.eqb (pend t) 0); [|discriminate]. inversion H; subst; cbn. split; [lia|discriminate].
  - destruct (nth_error (ss t) i) as [s|]; [|discriminate]. destruct (started s); [|discriminate].
    destruct (sess_step s a) as [[s' d]|]; [|discriminate]. inversion H; subst; cbn. split; [lia|auto].
Qed.

Lemma run_aretry ls : forall t t', run t ls = Some t' ->
  (aretry (al t') <= aretry (al t) + count_fail ls)%nat /\ (existsb is_srvclose ls = false -> sclosed (al t') = sclosed (al t)).
Proof.
  induction ls as [|l ls IH]; intros t t' H; cbn in H.
  - inversion H; subst. cbn. split; [lia|auto].
  - destruct (step t l) as [t1|] eqn:E; [|discriminate]. destruct (step_aretry _ _ _ E) as [A B]. destruct (IH _ _ H) as [A' B'].
    unfold count_fail in *. cbn [filter existsb]. split.
    + destruct (is_fail l); cbn [length]; lia.
    + intros X. apply orb_false_elim in X as [X1 X2]. rewrite (B' X2). exact (B X1).
Qed.

Theorem loop_death_needs_retries c0 t ls t' : GInv c0 t -> aloop (al t) = true -> pend t = 0%nat -> run t ls = Some t' ->
  aloop (al t') = false -> existsb is_srvclose ls = false -> (amax (al t) <= count_fail ls)%nat.
Proof.
  intros G Al P H D NS. destruct (run_ginv c0 ls _ _ G H) as [G' _]. destruct (run_aretry ls _ _ H) as [A B].
  pose proof (g_al _ _ G) as [_ Ac Af]. pose proof (g_al _ _ G') as [Ad' _ _].
  rewrite (Af Al P) in A. rewrite <- (run_amax ls _ _ H).
  destruct (Ad' D) as [X|X]; [|lia]. rewrite (B NS) in X. rewrite (Ac X) in Al. discriminate.
Qed.
