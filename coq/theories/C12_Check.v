(* C12: what the driver evaluates on every observed case.
   A case is one sequential history of non-blocking calls on one freshly constructed queue, with the result every call
   returned (calls that would block are recorded as RNotIssued and were not made).
     case_accept: the implementation returned exactly what the model returns, call by call;
     case_holds:  the property's clauses hold for every call of the observed history (monitors p_chk / m_chk / s_chk / q_chk,
                  which follow the OBSERVED results and never look at the model's state). *)
From Coq Require Import ZArith List Bool.
Require Export C12_Base C12_Pipe C12_MQ C12_Sync C12_Pri C12_Race C12_More C12_Runs.
Import ListNotations.

Inductive case :=
  | CPipe (k : pkind) (n : Z) (h : list (pop * res))        (* q.NewQ(WithSize(n)) / async.NewQ(n) / mux.NewQ(n) *)
  | CMQ (cm rm : Z) (h : list (mop * res))                  (* mq.NewMQ(WithQCtrlSize(cm), WithQReqSize(rm)) *)
  | CSync (h : list (sop * res))                            (* syncq.NewSyncQueue() *)
  | CPri (n : Z) (h : list (qop * res))                     (* priq.NewPriQueue(n) *)
  (* concurrent rounds "add versus close" (C12_Race.v): the calls with results and invocation / response ticks, and the
     harness' witness linearisation (indices into the call list) *)
  | CRacePipe (k : pkind) (n : Z) (cs : list (pop * res * Z * Z)) (lin : list nat)
  | CRaceMQ (cm rm : Z) (cs : list (mop * res * Z * Z)) (lin : list nat)
  | CRaceSync (cs : list (sop * res * Z * Z)) (lin : list nat)
  (* constructor histories (C12_More.v): queues built one after the other, each with its own options (None = option not given)
     and its own history; the calls on the different queues were interleaved in time *)
  | CGroupPipe (l : list (pkind * option Z * list (pop * res)))
  | CGroupMQ (l : list (option Z * option Z * list (mop * res)))
  (* PriQueue under parallel pushers and poppers: calls with results and invocation / response ticks *)
  | CParPri (n : Z) (cs : list (qop * res * Z * Z))
  (* run-length encoded sequential histories (C12_Runs.v): ((op, result), n) = n consecutive steps with consecutive items *)
  | CRunPipe (k : pkind) (n : Z) (l : list ((pop * res) * nat))
  | CRunMQ (cm rm : Z) (l : list ((mop * res) * nat))
  | CRunSync (l : list ((sop * res) * nat))
  | CRunPri (n : Z) (l : list ((qop * res) * nat)).

Definition case_accept (c : case) : bool :=
  match c with
  | CPipe k n h => p_accept k n h
  | CMQ cm rm h => m_accept cm rm h
  | CSync h => s_accept h
  | CPri n h => q_accept n h
  | CRacePipe k n cs lin => pr_accept k n cs lin
  | CRaceMQ cm rm cs lin => mr_accept cm rm cs lin
  | CRaceSync cs lin => sr_accept cs lin
  | CGroupPipe l => pg_accept l
  | CGroupMQ l => mg_accept l
  | CParPri n cs => pp_holds cs        (* no witness search for this class: the clauses themselves *)
  | CRunPipe k n l => pl_accept k n l
  | CRunMQ cm rm l => ml_accept cm rm l
  | CRunSync l => sl_accept l
  | CRunPri n l => ql_accept n l
  end.
Definition case_holds (c : case) : bool :=
  match c with
  | CPipe k n h => p_holds n h
  | CMQ cm rm h => m_holds cm rm h
  | CSync h => s_holds h
  | CPri n h => q_holds n h
  | CRacePipe k n cs lin => pr_holds cs
  | CRaceMQ cm rm cs lin => mr_holds cs
  | CRaceSync cs lin => sr_holds cs
  | CGroupPipe l => pg_holds l
  | CGroupMQ l => mg_holds l
  | CParPri n cs => pp_holds cs
  | CRunPipe k n l => pl_holds n l
  | CRunMQ cm rm l => ml_holds cm rm l
  | CRunSync l => sl_holds l
  | CRunPri n l => ql_holds n l
  end.

Theorem case_sound : forall c, case_accept c = true -> case_holds c = true.
Proof.
  intros [k n h|cm rm h|h|n h|k n cs lin|cm rm cs lin|cs lin|l|l|n cs|k n l|cm rm l|l|n l]; cbn [case_accept case_holds].
  - apply p_accept_sound.
  - apply m_accept_sound.
  - apply s_accept_sound.
  - apply q_accept_sound.
  - apply r_accept_holds.
  - apply r_accept_holds.
  - apply r_accept_holds.
  - apply pg_accept_sound.
  - apply mg_accept_sound.
  - auto.
  - apply pl_sound.
  - apply ml_sound.
  - apply sl_sound.
  - apply ql_sound.
Qed.

(* ---- non-vacuity: concrete histories (every clause of the property shows up at least once) ---- *)
Example ex_pipe_accept :
  case_accept (CPipe KQ 2%Z [(PAdd 1%Z, RDone); (PAdd 2%Z, RDone); (PAdd 3%Z, RFull); (PPrior 9%Z, RDone); (PPop, RItem 9%Z);
                             (PClose, RDone); (PAdd 4%Z, RClosed); (PPrior 5%Z, RClosed); (PPop, RClosed);
                             (PPopAnyway, RItem 1%Z); (PPopAnyway, RItem 2%Z); (PPopAnyway, RClosed)]) = true.
Proof. vm_compute. reflexivity. Qed.
(* the mutants of DESIGN 3.4 produce histories the monitor rejects *)
Example ex_pipe_bound_off_by_one : case_holds (CPipe KQ 1%Z [(PAdd 1%Z, RDone); (PAdd 2%Z, RDone)]) = false.
Proof. vm_compute. reflexivity. Qed.
Example ex_pipe_prior_at_back : case_holds (CPipe KMux 0%Z [(PAdd 1%Z, RDone); (PPrior 2%Z, RDone); (PPopAnyway, RItem 1%Z)]) = false.
Proof. vm_compute. reflexivity. Qed.
Example ex_pipe_pop_ignores_close : case_holds (CPipe KAsync 0%Z [(PAdd 1%Z, RDone); (PClose, RDone); (PPop, RItem 1%Z)]) = false.
Proof. vm_compute. reflexivity. Qed.
Example ex_mq_accept :
  case_accept (CMQ 1%Z 0%Z [(MAddReq 1%Z, RDone); (MAddCtrl 2%Z, RDone); (MAddCtrl 3%Z, RCtrlFull); (MPriorCtrl 4%Z, RDone);
                            (MTryClose, RFlag false); (MTryClear, RFlag false); (MPop, RItem 4%Z); (MClose, RDone); (MPop, RClosed);
                            (MTryClear, RFlag false); (MPopAnyway, RItem 2%Z); (MPopAnyway, RItem 1%Z); (MPopAnyway, RClosed);
                            (MTryClose, RFlag true); (MIsCleared, RFlag false); (MTryClear, RFlag true); (MIsCleared, RFlag true)]) = true.
Proof. vm_compute. reflexivity. Qed.
Example ex_mq_tryclose_ignores_requests : case_holds (CMQ 0%Z 0%Z [(MAddReq 1%Z, RDone); (MTryClose, RFlag true)]) = false.
Proof. vm_compute. reflexivity. Qed.
Example ex_mq_request_before_control : case_holds (CMQ 0%Z 0%Z [(MAddReq 1%Z, RDone); (MAddCtrl 2%Z, RDone); (MPop, RItem 1%Z)]) = false.
Proof. vm_compute. reflexivity. Qed.
Example ex_sync_accept :
  case_accept (CSync [(SPush 1%Z, RDone); (SPush 2%Z, RDone); (SLen, RLen 2%Z); (SClose, RDone); (SPush 3%Z, RDone); (SLen, RLen 2%Z);
                      (SPop, RItem 1%Z); (STryPop, RItem 2%Z); (STryPop, RClosed); (SPop, RClosed)]) = true.
Proof. vm_compute. reflexivity. Qed.
Example ex_sync_push_after_close_kept : case_holds (CSync [(SClose, RDone); (SPush 1%Z, RDone); (STryPop, RItem 1%Z)]) = false.
Proof. vm_compute. reflexivity. Qed.
Example ex_pri_accept :
  case_accept (CPri 3%Z [(QPush 1%Z 1%Z, RDone); (QPush 5%Z 2%Z, RDone); (QPush 5%Z 3%Z, RDone); (QPush 9%Z 4%Z, RFull); (QLen, RLen 3%Z);
                         (QPop, RItem 2%Z); (QPop, RItem 3%Z); (QPop, RItem 1%Z); (QPop, RNone)]) = true.
Proof. vm_compute. reflexivity. Qed.
Example ex_pri_lifo_among_equals : case_holds (CPri 3%Z [(QPush 5%Z 1%Z, RDone); (QPush 5%Z 2%Z, RDone); (QPop, RItem 2%Z)]) = false.
Proof. vm_compute. reflexivity. Qed.
Example ex_pri_zero_capacity : case_accept (CPri 0%Z [(QPush 5%Z 1%Z, RFull); (QPop, RNone)]) = true.
Proof. vm_compute. reflexivity. Qed.
