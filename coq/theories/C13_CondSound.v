(* C13: conservation of items, and soundness of the correspondence check for the condition-variable queues:
   whatever trace the replay accepts satisfies the monitor *)
From Coq Require Import List Bool ZArith Arith Lia Permutation.
Require Import C13_Cond C13_CondProofs.
Import ListNotations.

(* ---------------- conservation: delivered + taken + queued = accepted ---------------- *)
Definition Cons (s : st) : Prop := Permutation (ritems (cs s) ++ taken s ++ items s) (added s).

(* permutation goals over ++ and :: are decided by counting occurrences *)
Ltac perm_hyp z H := let P := fresh "P" in
  pose proof (proj1 (Permutation_count_occ Z.eq_dec _ _) H z) as P; cbn [ritem app] in P;
  repeat first [rewrite count_occ_app in P | progress cbn [count_occ] in P].
Ltac perm_goal z := apply (Permutation_count_occ Z.eq_dec); intros z; cbn [ritem app];
  repeat first [rewrite count_occ_app | progress cbn [count_occ]].
Ltac perm_fin := repeat match goal with
                        | H : context [Z.eq_dec ?a ?b] |- _ => destruct (Z.eq_dec a b)
                        | |- context [Z.eq_dec ?a ?b] => destruct (Z.eq_dec a b)
                        end; lia.

Lemma ritems_upd_fresh t v l : t < length l -> ritem (getc t l) = [] -> Permutation (ritems (upd t v l)) (ritem v ++ ritems l).
Proof. intros Ht Hn. pose proof (ritems_upd t v l Ht) as P. rewrite Hn, app_nil_r in P. exact P. Qed.

Lemma pop_body_cons k a t s :
  t < length (cs s) -> ritem (getc t (cs s)) = [] -> Cons s -> Cons (pop_body k a t s).
Proof.
  intros Ht Hn HC. unfold Cons, items in *.
  assert (U : forall v, Permutation (ritems (upd t v (cs s))) (ritem v ++ ritems (cs s)))
    by (intros v; apply ritems_upd_fresh; auto).
  unfold pop_body. destruct (ctrl s) as [|c cr] eqn:Ec; [destruct (req s) as [|r rr] eqn:Er|]; cbn [app] in HC.
  - destruct (closed s); cbn [cs set_cs taken ctrl req added]; rewrite ?Ec, ?Er.
    + perm_goal z. perm_hyp z HC. perm_hyp z (U (Done RClosed)). perm_fin.
    + perm_goal z. perm_hyp z HC. perm_hyp z (U (Waiting a)). perm_fin.
  - destruct (take_ok k a s); cbn [cs set_cs set_lists taken ctrl req added]; rewrite ?Ec, ?Er.
    + perm_goal z. perm_hyp z HC. perm_hyp z (U (Done (RItem r))). perm_fin.
    + perm_goal z. perm_hyp z HC. perm_hyp z (U (Done RClosed)). perm_fin.
  - destruct (take_ok k a s); cbn [cs set_cs set_lists taken ctrl req added]; rewrite ?Ec.
    + perm_goal z. perm_hyp z HC. perm_hyp z (U (Done (RItem c))). perm_fin.
    + perm_goal z. perm_hyp z HC. perm_hyp z (U (Done RClosed)). perm_fin.
Qed.

Lemma add_cons s x c' r' : Cons s -> Permutation (c' ++ r') (x :: ctrl s ++ req s) ->
  Cons (wake_all (note_added (set_lists s c' r') x)).
Proof.
  unfold Cons, items, wake_all. cbn [cs set_cs note_added set_lists taken ctrl req added]. intros HC HP.
  rewrite ritems_wake. perm_goal z. perm_hyp z HC. perm_hyp z HP. perm_fin.
Qed.

Lemma perm_snoc (a b : list Z) x : Permutation (a ++ b ++ [x]) (x :: a ++ b).
Proof. perm_goal z. perm_fin. Qed.
Lemma perm_mid (a b : list Z) x : Permutation (a ++ x :: b) (x :: a ++ b).
Proof. perm_goal z. perm_fin. Qed.
Lemma perm_snoc_mid (a b : list Z) x : Permutation ((a ++ [x]) ++ b) (x :: a ++ b).
Proof. perm_goal z. perm_fin. Qed.

Theorem step_cons c s l s' o : Cons s -> step c s l = Some (s', o) -> Cons s'.
Proof.
  intros HC H. destruct l; cbn [step] in H.
  - destruct (Nat.ltb t (length (cs s))) eqn:Et; [|discriminate]. apply Nat.ltb_lt in Et.
    destruct (getc t (cs s)) eqn:Eg; try discriminate. inversion H; subst.
    apply pop_body_cons; auto. now rewrite Eg.
  - destruct (getc t (cs s)) eqn:Eg; try discriminate. inversion H; subst.
    apply pop_body_cons; auto; [apply getc_lt; congruence|now rewrite Eg].
  - destruct (is_sync (knd c)).
    + destruct (closed s).
      * destruct w; [discriminate|]. inversion H; subst. exact HC.
      * assert (P : forall l', Permutation (ritems l') (ritems (cs s)) ->
                      Cons (set_cs (note_added (set_lists s (ctrl s) (req s ++ [x])) x) l')).
        { intros l' Hl. unfold Cons, items in *. cbn [cs set_cs note_added set_lists taken ctrl req added].
          perm_goal z. perm_hyp z HC. perm_hyp z Hl. perm_fin. }
        destruct w as [t|].
        -- destruct (getc t (cs s)) eqn:Eg; try discriminate. inversion H; subst. apply P.
           assert (Ht : t < length (cs s)) by (apply getc_lt; congruence).
           pose proof (ritems_upd_fresh t (Woken a) (cs s) Ht) as Q. rewrite Eg in Q. exact (Q eq_refl).
        -- destruct (existsb is_waiting (cs s)); [discriminate|]. inversion H; subst.
           change (note_added (set_lists s (ctrl s) (req s ++ [x])) x)
             with (set_cs (note_added (set_lists s (ctrl s) (req s ++ [x])) x) (cs s)).
           apply P. apply Permutation_refl.
    + destruct w; [discriminate|]. destruct (closed s); [inversion H; subst; exact HC|].
      destruct (full (reqmax c) (req s)); inversion H; subst; [exact HC|].
      apply add_cons; [exact HC|apply perm_snoc].
  - destruct (is_sync (knd c)); [discriminate|]. destruct (closed s); inversion H; subst; [exact HC|].
    apply add_cons; [exact HC|apply perm_mid].
  - destruct (negb (is_mq (knd c))); [discriminate|]. destruct (closed s); [inversion H; subst; exact HC|].
    destruct (full (ctrlmax c) (ctrl s)); inversion H; subst; [exact HC|].
    apply add_cons; [exact HC|apply perm_snoc_mid].
  - destruct (negb (is_mq (knd c))); [discriminate|]. destruct (closed s); inversion H; subst; [exact HC|].
    apply add_cons; [exact HC|apply Permutation_refl].
  - destruct (closed s); inversion H; subst; [exact HC|].
    unfold Cons, items, wake_all in *. cbn [cs set_cs set_closed taken ctrl req added]. now rewrite ritems_wake.
  - destruct (negb (is_mq (knd c))); [discriminate|]. destruct (closed s); [inversion H; subst; exact HC|].
    destruct (ctrl s) eqn:Ec; [destruct (req s) eqn:Er|]; inversion H; subst; try exact HC.
    unfold Cons, items, wake_all in *. cbn [cs set_cs set_closed taken ctrl req added]. now rewrite ritems_wake.
  - destruct (negb (is_sync (knd c))); [discriminate|]. destruct (req s) as [|y r] eqn:Er.
    + destruct (closed s); inversion H; subst; exact HC.
    + inversion H; subst. unfold Cons, items in *. cbn [cs note_taken set_lists taken ctrl req added].
      rewrite Er in HC. perm_goal z. perm_hyp z HC. perm_fin.
  - destruct (negb (is_mq (knd c))); [discriminate|]. inversion H; subst. exact HC.
Qed.

Lemma ritems_repeat_idle n : ritems (repeat Idle n) = [].
Proof. induction n; cbn; auto. Qed.

Lemma init_cons c : Cons (init c).
Proof. unfold Cons, items, init. cbn. rewrite ritems_repeat_idle. constructor. Qed.

Theorem run_cons c : forall ls s s', Cons s -> run c s ls = Some s' -> Cons s'.
Proof.
  induction ls as [|l ls IH]; intros s s' HI H; cbn in H; [inversion H; subst; exact HI|].
  destruct (step c s l) as [[s1 o]|] eqn:E; [|discriminate]. eapply IH; [eapply step_cons; eauto|exact H].
Qed.

(* no item is lost or duplicated: what consumers returned, what TryPop took and what is still queued is exactly what
   was accepted *)
Theorem conservation c ls s : run c (init c) ls = Some s -> Permutation (ritems (cs s) ++ taken s ++ items s) (added s).
Proof. intros H. exact (run_cons c ls _ _ (init_cons c) H). Qed.

(* ---------------- what a consumer can return ---------------- *)
(* "closed" is returned only by a closed queue; the model never returns anything else than an item or "closed" *)
Definition DC (s : st) : Prop :=
  forall t, (getc t (cs s) = Done RClosed -> closed s = true) /\ getc t (cs s) <> Done RBogus.

Lemma pop_body_dc k a t s : t < length (cs s) -> DC s -> DC (pop_body k a t s).
Proof.
  intros Ht HD u. destruct (HD u) as [H1 H2].
  rewrite pop_body_closed.
  destruct (Nat.eq_dec t u) as [->|N]; [|rewrite pop_body_cs_other by exact N; auto].
  unfold pop_body. destruct (ctrl s); [destruct (req s)|]; [destruct (closed s) eqn:Ecl| |];
    try destruct (take_ok k a s) eqn:Et; cbn [cs set_cs set_lists]; rewrite getc_upd_same by exact Ht;
    (split; [|discriminate]); intros Q; try discriminate; auto;
    unfold take_ok in Et; destruct (closed s); cbn in Et; auto; discriminate.
Qed.

Lemma wake1_done c r : wake1 c = Done r -> c = Done r.
Proof. destruct c; cbn; congruence. Qed.

Theorem step_dc c s l s' o : DC s -> step c s l = Some (s', o) -> DC s'.
Proof.
  intros HD H.
  assert (Hmono : closed s = true -> closed s' = true) by (eapply step_closed_stays; eauto).
  assert (Gen : (forall u, getc u (cs s') = getc u (cs s) \/ getc u (cs s') = wake1 (getc u (cs s))) -> DC s').
  { intros G u. destruct (HD u) as [H1 H2]. destruct (G u) as [Q|Q]; rewrite Q.
    - split; auto.
    - split; [intros E; apply wake1_done in E; auto|intros E; apply wake1_done in E; auto]. }
  destruct l; try (apply Gen; intros u; destruct (step_thread c s _ s' o u H) as [Q|[Q|Q]]; auto; discriminate).
  - cbn [step] in H. destruct (Nat.ltb t (length (cs s))) eqn:Et; [|discriminate]. apply Nat.ltb_lt in Et.
    destruct (getc t (cs s)); try discriminate. inversion H; subst. now apply pop_body_dc.
  - cbn [step] in H. destruct (getc t (cs s)) eqn:Eg; try discriminate. inversion H; subst.
    apply pop_body_dc; auto. apply getc_lt. congruence.
  - destruct w as [t|]; [|apply Gen; intros u; destruct (step_thread c s _ s' o u H) as [Q|[Q|Q]]; auto; discriminate].
    cbn [step] in H. destruct (is_sync (knd c)); [|discriminate]. destruct (closed s) eqn:Ecl; [discriminate|].
    destruct (getc t (cs s)) eqn:Eg; try discriminate. inversion H; subst. intros u. cbn [cs set_cs closed note_added set_lists].
    assert (Ht : t < length (cs s)) by (apply getc_lt; congruence).
    destruct (Nat.eq_dec t u) as [->|N].
    + rewrite getc_upd_same by exact Ht. split; discriminate.
    + rewrite getc_upd_other by exact N. destruct (HD u) as [H1 H2]. split; auto.
Qed.

Lemma getc_repeat_idle u n : getc u (repeat Idle n) = Idle.
Proof. unfold getc. revert u; induction n; intros [|u]; cbn; auto. Qed.

Lemma init_dc c : DC (init c).
Proof. intros u. unfold init. cbn [cs]. rewrite getc_repeat_idle. split; discriminate. Qed.

(* ---------------- reflection of the boolean tests ---------------- *)
Lemma zmem_in x l : zmem x l = true <-> In x l.
Proof.
  induction l as [|y l IH]; cbn; [split; [discriminate|tauto]|].
  rewrite orb_true_iff, IH, Z.eqb_eq. split; intros [H|H]; auto.
Qed.

Lemma znodup_iff l : znodup l = true <-> NoDup l.
Proof.
  induction l as [|x l IH]; cbn; [split; [constructor|auto]|].
  rewrite andb_true_iff, negb_true_iff, IH. split.
  - intros [H1 H2]. constructor; auto. intros Hin. apply zmem_in in Hin. congruence.
  - intros H. inversion H; subst. split; auto. destruct (zmem x l) eqn:E; auto. apply zmem_in in E. contradiction.
Qed.

Lemma zincl_iff a b : zincl a b = true <-> incl a b.
Proof.
  unfold zincl, incl. rewrite forallb_forall. split; intros H x Hx; [apply zmem_in|apply zmem_in]; auto.
Qed.

Lemma res_eqb_eq a b : res_eqb a b = true -> a = b.
Proof. destruct a, b; cbn; try discriminate; auto. intros H. apply Z.eqb_eq in H. now subst. Qed.

Lemma rets_eqb_eq x y : rets_eqb x y = true -> x = y.
Proof.
  revert y; induction x as [|[a r] x IH]; destruct y as [|[b q] y]; cbn; try discriminate; auto.
  intros H. apply andb_prop in H as [H H3]. apply andb_prop in H as [H1 H2].
  apply Nat.eqb_eq in H1. apply res_eqb_eq in H2. subst. f_equal. auto.
Qed.

Lemma nats_eqb_eq x y : nats_eqb x y = true -> x = y.
Proof.
  revert y; induction x as [|a x IH]; destruct y as [|b y]; cbn; try discriminate; auto.
  intros H. apply andb_prop in H as [H1 H2]. apply Nat.eqb_eq in H1. subst. f_equal. auto.
Qed.

Lemma out_eqb_eq a b : out_eqb a b = true -> a = b.
Proof.
  destruct a as [|x|x|[x|]], b as [|y|y|[y|]]; cbn; try discriminate; auto; intros H.
  - destruct x, y; cbn in H; try discriminate; auto.
  - apply Bool.eqb_prop in H. now subst.
  - apply res_eqb_eq in H. now subst.
Qed.

(* ---------------- the simulation between the model and the monitor ---------------- *)
Record Rel (s : st) (m : mon) : Prop := {
  r_inv : Inv s;
  r_cons : Cons s;
  r_dc : DC s;
  r_closed : m_closed m = closed s;
  r_taken : m_taken m = taken s;
  r_incl : incl (added s) (m_added m);
  r_open : closed s = false -> m_added m = added s }.

Lemma rel_init c : Rel (init c) mon0.
Proof.
  constructor; cbn; auto using init_inv, init_cons, init_dc. intros x H. exact H.
Qed.

Lemma incl_app_keep (a b : list Z) x : incl a b -> incl a (b ++ [x]).
Proof. intros H y Hy. apply in_or_app. left. auto. Qed.
Lemma incl_app_both (a b : list Z) x : incl a b -> incl (a ++ [x]) (b ++ [x]).
Proof. intros H y Hy. apply in_app_or in Hy as [Hy|Hy]; apply in_or_app; [left; auto|right; auto]. Qed.

(* items mentioned by a label *)
Definition lab_item (l : label) : list Z :=
  match l with LAdd x _ | LAddPrior x | LAddCtrl x | LAddPriorCtrl x => [x] | _ => [] end.

Lemma lab_items_cons l o r : lab_items (ELab l o :: r) = lab_item l ++ lab_items r.
Proof. destruct l; reflexivity. Qed.

(* the ghost history grows only by the item of the label *)
Lemma step_added c s l s' o : step c s l = Some (s', o) -> added s' = added s \/ exists x, lab_item l = [x] /\ added s' = added s ++ [x].
Proof.
  intros H. destruct l; cbn [step] in H; cbn [lab_item].
  - destruct (Nat.ltb t (length (cs s))); [|discriminate]. destruct (getc t (cs s)); try discriminate. inversion H; subst.
    left. unfold pop_body. destruct (ctrl s); [destruct (req s)|]; [destruct (closed s)| |]; try destruct (take_ok (knd c) a s); reflexivity.
  - destruct (getc t (cs s)); try discriminate. inversion H; subst.
    left. unfold pop_body. destruct (ctrl s); [destruct (req s)|]; [destruct (closed s)| |]; try destruct (take_ok (knd c) a s); reflexivity.
  - destruct (is_sync (knd c)).
    + destruct (closed s); [destruct w; [discriminate|]; inversion H; subst; auto|].
      destruct w as [t|].
      * destruct (getc t (cs s)); try discriminate. inversion H; subst. right. eauto.
      * destruct (existsb is_waiting (cs s)); [discriminate|]. inversion H; subst. right. eauto.
    + destruct w; [discriminate|]. destruct (closed s); [inversion H; subst; auto|].
      destruct (full (reqmax c) (req s)); inversion H; subst; auto. right. eauto.
  - destruct (is_sync (knd c)); [discriminate|]. destruct (closed s); inversion H; subst; auto. right. eauto.
  - destruct (negb (is_mq (knd c))); [discriminate|]. destruct (closed s); [inversion H; subst; auto|].
    destruct (full (ctrlmax c) (ctrl s)); inversion H; subst; auto. right. eauto.
  - destruct (negb (is_mq (knd c))); [discriminate|]. destruct (closed s); inversion H; subst; auto. right. eauto.
  - destruct (closed s); inversion H; subst; auto.
  - destruct (negb (is_mq (knd c))); [discriminate|]. destruct (closed s); [inversion H; subst; auto|].
    destruct (ctrl s); [destruct (req s)|]; inversion H; subst; auto.
  - destruct (negb (is_sync (knd c))); [discriminate|]. destruct (req s); [destruct (closed s)|]; inversion H; subst; auto.
  - destruct (negb (is_mq (knd c))); [discriminate|]. inversion H; subst; auto.
Qed.

Ltac rel_fin Hop :=
  cbn [mon_lab m_closed m_taken m_added closed taken added wake_all set_cs note_added set_lists set_closed note_taken];
  first [ assumption | reflexivity | congruence
        | (apply incl_app_both; assumption) | (apply incl_app_keep; assumption)
        | (let Hx := fresh in intros Hx; first [congruence | (rewrite Hop by congruence; reflexivity)])
        | idtac ].

Lemma pop_body_ghost k a t s : added (pop_body k a t s) = added s /\ taken (pop_body k a t s) = taken s.
Proof.
  unfold pop_body. destruct (ctrl s); [destruct (req s)|]; [destruct (closed s)| |]; try destruct (take_ok k a s); auto.
Qed.

Lemma rel_step c s m l s' o : Rel s m -> step c s l = Some (s', o) -> Rel s' (mon_lab (knd c) m l o).
Proof.
  intros [HI HC HD Hcl Htk Hin Hop] H.
  assert (HI' : Inv s') by (eapply step_inv; eauto).
  assert (HC' : Cons s') by (eapply step_cons; eauto).
  assert (HD' : DC s') by (eapply step_dc; eauto).
  destruct l; cbn [step] in H.
  - (* LPop *)
    destruct (Nat.ltb t (length (cs s))); [|discriminate]. destruct (getc t (cs s)); try discriminate. inversion H; subst.
    destruct (pop_body_ghost (knd c) a t s) as [E1 E2].
    constructor; auto; cbn [mon_lab]; rewrite ?pop_body_closed, ?E1, ?E2; auto.
  - destruct (getc t (cs s)); try discriminate. inversion H; subst.
    destruct (pop_body_ghost (knd c) a t s) as [E1 E2].
    constructor; auto; cbn [mon_lab]; rewrite ?pop_body_closed, ?E1, ?E2; auto.
  - (* LAdd *)
    destruct (is_sync (knd c)) eqn:Ek.
    + destruct (closed s) eqn:Ecl.
      * destruct w; [discriminate|]. inversion H; subst. cbn [mon_lab]. rewrite Ek.
        constructor; auto; rel_fin Hop.
      * assert (P : forall l', o = ONone -> s' = set_cs (note_added (set_lists s (ctrl s) (req s ++ [x])) x) l' ->
                      Rel s' (mon_lab (knd c) m (LAdd x w) o)).
        { intros l' -> ->. cbn [mon_lab]. rewrite Ek. constructor; auto; rel_fin Hop. }
        destruct w as [t|].
        -- destruct (getc t (cs s)); try discriminate. inversion H; subst. eapply P; reflexivity.
        -- destruct (existsb is_waiting (cs s)); [discriminate|]. inversion H; subst. apply (P (cs s)); reflexivity.
    + destruct w; [discriminate|]. destruct (closed s) eqn:Ecl.
      * inversion H; subst. cbn [mon_lab]. constructor; auto; rel_fin Hop.
      * destruct (full (reqmax c) (req s)); inversion H; subst; cbn [mon_lab]; constructor; auto; rel_fin Hop.
  - (* LAddPrior *)
    destruct (is_sync (knd c)); [discriminate|]. destruct (closed s) eqn:Ecl; inversion H; subst; cbn [mon_lab];
      constructor; auto; rel_fin Hop.
  - destruct (negb (is_mq (knd c))); [discriminate|]. destruct (closed s) eqn:Ecl; [inversion H; subst; cbn [mon_lab]; constructor; auto; rel_fin Hop|].
    destruct (full (ctrlmax c) (ctrl s)); inversion H; subst; cbn [mon_lab]; constructor; auto; rel_fin Hop.
  - destruct (negb (is_mq (knd c))); [discriminate|]. destruct (closed s) eqn:Ecl; inversion H; subst; cbn [mon_lab];
      constructor; auto; rel_fin Hop.
  - (* LClose *)
    destruct (closed s) eqn:Ecl; inversion H; subst; cbn [mon_lab]; constructor; auto; rel_fin Hop.
  - (* LTryClose *)
    destruct (negb (is_mq (knd c))); [discriminate|]. destruct (closed s) eqn:Ecl.
    + inversion H; subst. cbn [mon_lab]. constructor; auto; rel_fin Hop.
    + destruct (ctrl s); [destruct (req s)|]; inversion H; subst; cbn [mon_lab]; constructor; auto; rel_fin Hop.
  - (* LTryPop *)
    destruct (negb (is_sync (knd c))); [discriminate|]. destruct (req s) as [|y r].
    + destruct (closed s) eqn:Ecl; inversion H; subst; cbn [mon_lab]; constructor; auto; rel_fin Hop.
    + inversion H; subst. cbn [mon_lab]. constructor; auto; rel_fin Hop.
  - (* LTryClear *)
    destruct (negb (is_mq (knd c))); [discriminate|]. inversion H; subst. cbn [mon_lab]. constructor; auto; rel_fin Hop.
Qed.

Lemma nodup_app_l (a b : list Z) : NoDup (a ++ b) -> NoDup a.
Proof.
  induction a as [|x a IH]; cbn; intros H; [constructor|]. inversion H; subst. constructor; auto.
  intros Hin. apply H2. apply in_or_app. now left.
Qed.

Lemma tids_from_cnt0 i p l : length (filter p l) = 0 -> tids_from i p l = [].
Proof.
  revert i; induction l as [|a l IH]; intros i; cbn; auto. destruct (p a); cbn; [discriminate|]. apply IH.
Qed.

Lemma dones_of_in s t r : In (t, r) (dones_of s) -> getc t (cs s) = Done r.
Proof. unfold dones_of. intros H. apply dones_from_in in H as [_ H]. now rewrite Nat.sub_0_r in H. Qed.

(* at a quiescent point the model's observation satisfies the monitor *)
Lemma rel_obs k s m ob : Rel s m -> NoDup (added s) -> obs_ok s ob = true -> mon_obs k m ob = true.
Proof.
  intros [HI HC HD Hcl Htk Hin Hop] Hnd H. unfold obs_ok in H.
  apply andb_prop in H as [H Ewc]. apply andb_prop in H as [H Ecl]. apply andb_prop in H as [H Elen].
  apply andb_prop in H as [H Estk]. apply andb_prop in H as [H Epark]. apply andb_prop in H as [Hq Eret].
  apply rets_eqb_eq in Eret. apply nats_eqb_eq in Epark.
  unfold mon_obs. rewrite <- Eret, <- Epark, Htk. unfold dones_of at 2 3 4. rewrite res_items_dones.
  assert (Hperm : Permutation ((ritems (cs s) ++ taken s) ++ items s) (added s)) by (rewrite <- app_assoc; exact HC).
  assert (Hnd2 : NoDup (ritems (cs s) ++ taken s)).
  { apply (nodup_app_l _ (items s)). eapply Permutation_NoDup; [apply Permutation_sym; exact Hperm|exact Hnd]. }
  repeat (apply andb_true_intro; split); auto.
  - apply forallb_forall. intros [t r] Hin'. apply dones_of_in in Hin'. destruct (HD t) as [D1 D2].
    unfold good_res. cbn [snd]. destruct r as [x| |]; [reflexivity|rewrite Hcl; apply D1; exact Hin'|exfalso; apply D2; exact Hin'].
  - apply znodup_iff. exact Hnd2.
  - apply zincl_iff. intros x Hx. apply Hin. eapply Permutation_in; [exact Hperm|]. apply in_or_app. left. exact Hx.
  - destruct (parked_of s) eqn:Ep; [reflexivity|]. cbn [is_nil orb].
    assert (Hw : 0 < nwaiting s).
    { unfold nwaiting. destruct (length (filter is_waiting (cs s))) eqn:El; [|lia]. exfalso.
      unfold parked_of in Ep. rewrite (tids_from_cnt0 0 is_waiting (cs s) El) in Ep. discriminate. }
    destruct (HI Hw) as [Hopen Hle]. rewrite (quiescent_nwoken s Hq) in Hle.
    assert (Hit : items s = []) by (destruct (items s); [reflexivity|cbn in Hle; lia]).
    rewrite Hcl, Hopen. cbn [negb andb]. apply andb_true_intro. split.
    + destruct (o_len ob) as [n0|].
      * apply Nat.eqb_eq in Elen. rewrite Elen, Hit. reflexivity.
      * apply Nat.leb_le. rewrite (Hop Hopen). rewrite Hit, app_nil_r in Hperm.
        rewrite (Permutation_length Hperm). lia.
    + rewrite Hopen in Ecl. destruct (o_closed ob) as [[|]|]; cbn in Ecl; try discriminate; reflexivity.
  - rewrite Hcl. exact Ewc.
Qed.

Lemma nodup_app_drop (a b : list Z) x : NoDup (a ++ x :: b) -> NoDup (a ++ b).
Proof. apply NoDup_remove_1. Qed.
Lemma nodup_app_shift (a b : list Z) x : NoDup (a ++ x :: b) -> NoDup ((a ++ [x]) ++ b).
Proof. rewrite <- app_assoc. auto. Qed.

Theorem replay_monitor c : forall tr s m, Rel s m -> NoDup (added s ++ lab_items tr) ->
  replay c s tr = true -> monitor (knd c) m tr = true.
Proof.
  induction tr as [|e tr IH]; intros s m HR Hnd H; [reflexivity|].
  destruct e as [l o|ob]; cbn [replay monitor] in *.
  - destruct (step c s l) as [[s' o']|] eqn:E; [|discriminate]. apply andb_prop in H as [Ho H].
    apply out_eqb_eq in Ho. subst o'. apply (IH s'); auto; [eapply rel_step; eauto|].
    rewrite lab_items_cons in Hnd.
    destruct (step_added c s l s' o E) as [Q|(x & Q1 & Q2)]; rewrite ?Q, ?Q2.
    + destruct (lab_item l) as [|x [|y r]] eqn:El; cbn [app] in Hnd; auto.
      * eapply nodup_app_drop; eauto.
      * destruct l; cbn in El; discriminate.
    + rewrite Q1 in Hnd. cbn [app] in Hnd. now apply nodup_app_shift.
  - apply andb_prop in H as [Ho H]. apply andb_true_intro. split.
    + eapply rel_obs; eauto. eapply nodup_app_l; eauto.
    + eapply IH; eauto.
Qed.

(* whatever the correspondence check accepts satisfies the property's monitor *)
Theorem cond_accept_sound c tr : cond_accept c tr = true -> cond_holds c tr = true.
Proof.
  unfold cond_accept, cond_holds. intros H. apply andb_prop in H as [H1 H2]. apply znodup_iff in H1.
  eapply replay_monitor; [apply rel_init| |exact H2]. exact H1.
Qed.
