(* C17: the multi-key calls of TKeyLockerGrp (Locks / Unlocks / RLocks / RUnlocks): calculateSortedMultiKeys groups the
   keys by shard index, ascending, each group in input order; every group is handed to its shard.  For a cell
   container (the key lockers' reference-counted table) the per-key effect is the unsharded call's. *)
From Coq Require Import List Bool Arith Lia Sorting.Sorted.
Require Import Shard C17_Shard.
Import ListNotations.

Section Groups.
Variable K : Type.
Variable route : K -> nat.

(* the distinct indices, ascending: the keys of the Go map m, sorted by slices.SortFunc *)
Fixpoint nins (i : nat) (l : list nat) : list nat :=
  match l with
  | [] => [i]
  | j :: l' => if i <? j then i :: l else if i =? j then l else j :: nins i l'
  end.
Definition indices (keys : list K) : list nat := fold_right (fun k acc => nins (route k) acc) [] keys.
(* m[i] = the keys routed to i, in input order *)
Definition group (i : nat) (keys : list K) : list K := filter (fun k => route k =? i) keys.
Definition groups (keys : list K) : list (nat * list K) := map (fun i => (i, group i keys)) (indices keys).

Lemma nins_in i l x : In x (nins i l) <-> x = i \/ In x l.
Proof.
  induction l as [|j l IH]; cbn [nins].
  - cbn. split; [intros [H|[]]; left; now symmetry | intros [H|[]]; left; now symmetry].
  - destruct (i <? j) eqn:E1.
    + cbn. split; [intros [H|H]; [left; now symmetry|right; exact H] | intros [H|H]; [left; now symmetry|right; exact H]].
    + destruct (i =? j) eqn:E2.
      * apply Nat.eqb_eq in E2. subst j. cbn. split; [intros H; right; exact H | intros [H|H]; [left; now symmetry|exact H]].
      * cbn [In]. rewrite IH. split; [intros [H|[H|H]]; auto | intros [H|[H|H]]; auto].
Qed.

Lemma nins_sorted i l : StronglySorted lt l -> StronglySorted lt (nins i l).
Proof.
  induction l as [|j l IH]; cbn [nins]; intros H; [repeat constructor|].
  inversion H as [|? ? Hs Hf]; subst.
  destruct (i <? j) eqn:E1.
  - apply Nat.ltb_lt in E1. constructor; [exact H|]. constructor; [exact E1|].
    rewrite Forall_forall in *. intros x Hx. specialize (Hf x Hx). lia.
  - destruct (i =? j) eqn:E2; [exact H|]. apply Nat.ltb_ge in E1. apply Nat.eqb_neq in E2.
    constructor; [now apply IH|]. rewrite Forall_forall in *. intros x Hx. apply nins_in in Hx as [->|Hx]; [lia|now apply Hf].
Qed.

Lemma indices_in keys i : In i (indices keys) <-> exists k, In k keys /\ route k = i.
Proof.
  induction keys as [|k keys IH]; cbn [indices fold_right]; [split; [contradiction|intros (k & [] & _)]|].
  fold (indices keys). rewrite nins_in, IH. split.
  - intros [->|(k' & H1 & H2)]; [exists k; cbn; auto|exists k'; cbn; auto].
  - intros (k' & [->|H1] & H2); [now left|right; now exists k'].
Qed.

(* the groups come in strictly ascending order of shard index: the lock acquisition order *)
Theorem groups_sorted keys : StronglySorted lt (map fst (groups keys)).
Proof.
  unfold groups. rewrite map_map. cbn [fst]. rewrite map_id.
  unfold indices. induction keys as [|k keys IH]; cbn [fold_right]; [constructor|now apply nins_sorted].
Qed.

Lemma sorted_nodup l : StronglySorted lt l -> NoDup l.
Proof.
  induction l as [|a l IH]; intros H; [constructor|]. inversion H as [|? ? Hs Hf]; subst.
  constructor; [|now apply IH]. intros Hin. rewrite Forall_forall in Hf. specialize (Hf a Hin). lia.
Qed.

(* each group is exactly the keys of that shard, in input order; no group is empty; no key is lost *)
Theorem groups_spec keys i ks : In (i, ks) (groups keys) -> ks = group i keys /\ ks <> [] /\ Forall (fun k => route k = i) ks.
Proof.
  unfold groups. intros H. apply in_map_iff in H as (j & Hj & Hin). inversion Hj; subst.
  split; [reflexivity|]. split.
  - apply indices_in in Hin as (k & Hk & Hr). intros E.
    assert (In k (group i keys)) by (apply filter_In; split; [exact Hk|now apply Nat.eqb_eq]). rewrite E in H. contradiction.
  - apply Forall_forall. intros k Hk. apply filter_In in Hk as [_ Hk]. now apply Nat.eqb_eq.
Qed.

Theorem groups_cover keys k : In k keys -> In (route k, group (route k) keys) (groups keys) /\ In k (group (route k) keys).
Proof.
  intros Hk. split.
  - unfold groups. apply in_map_iff. exists (route k). split; [reflexivity|]. apply indices_in. now exists k.
  - apply filter_In. split; [exact Hk|apply Nat.eqb_refl].
Qed.

Lemma group_not_index keys i : ~ In i (indices keys) -> group i keys = [].
Proof.
  intros H. unfold group. induction keys as [|k keys IH]; [reflexivity|]. cbn [filter].
  destruct (route k =? i) eqn:E.
  - exfalso. apply H. apply indices_in. exists k. split; [now left|now apply Nat.eqb_eq].
  - apply IH. intros Hin. apply H. apply indices_in. apply indices_in in Hin as (k' & H1 & H2). exists k'. split; [now right|exact H2].
Qed.
End Groups.

(* ---- a multi-key call on a sharded cell container ---- *)
Section MultiCall.
Variables K C O R : Type.
Variable key : O -> K.
Variable keq : K -> K -> bool.
Hypothesis keq_spec : forall a b, keq a b = true <-> a = b.
Variable cstep : C -> O -> C * R.
Variable route : K -> nat.
Variable op : K -> O.                         (* the per-key operation the call performs: Lock, Unlock, RLock, RUnlock *)
Hypothesis key_op : forall k, key (op k) = k.

Local Notation cstate := (cstate K C).
Local Notation cell_step := (cell_step K C O R key keq cstep).
Local Notation run := (run_state cstate O R cell_step).

(* TKeyLocker.Locks(keys): one critical section of the table, key after key *)
Definition multi_un (s : cstate) (keys : list K) : cstate := run s (map op keys).
(* TKeyLockerGrp.Locks(keys): group after group, each inside its own shard *)
Definition multi_sh (sh : nat -> cstate) (keys : list K) : nat -> cstate :=
  fold_left (fun sh g => upd sh (fst g) (run (sh (fst g)) (map op (snd g)))) (groups K route keys) sh.

Lemma fold_left_map' {A B X} (f : A -> X -> A) (g : B -> X) : forall l a, fold_left f (map g l) a = fold_left (fun a b => f a (g b)) l a.
Proof. induction l as [|b l IH]; intros a; [reflexivity|]. cbn [map fold_left]. apply IH. Qed.

Lemma fold_upd_nodup (f : nat -> cstate -> cstate) : forall (l : list nat) (sh : nat -> cstate) j, NoDup l ->
  fold_left (fun sh i => upd sh i (f i (sh i))) l sh j = if existsb (Nat.eqb j) l then f j (sh j) else sh j.
Proof.
  induction l as [|i l IH]; intros sh j Hnd; [reflexivity|]. inversion Hnd; subst. cbn [fold_left existsb].
  rewrite IH by assumption. unfold upd. destruct (j =? i) eqn:E.
  - apply Nat.eqb_eq in E. subst. cbn [orb].
    replace (existsb (Nat.eqb i) l) with false; [reflexivity|].
    symmetry. apply not_true_is_false. intros Hex. apply existsb_exists in Hex as (x & Hx & Hxe). apply Nat.eqb_eq in Hxe. subst. contradiction.
  - cbn [orb]. destruct (existsb (Nat.eqb j) l); reflexivity.
Qed.

(* shard i ends up as if it had been handed exactly the keys routed to it, in input order *)
Theorem multi_sh_shard sh keys i : multi_sh sh keys i = run (sh i) (map op (group K route i keys)).
Proof.
  unfold multi_sh, groups. rewrite fold_left_map'. cbn [fst snd].
  rewrite (fold_upd_nodup (fun i s => run s (map op (group K route i keys)))).
  - destruct (existsb (Nat.eqb i) (indices K route keys)) eqn:E; [reflexivity|].
    rewrite group_not_index; [reflexivity|]. intros Hin.
    assert (existsb (Nat.eqb i) (indices K route keys) = true) by (apply existsb_exists; exists i; split; [exact Hin|apply Nat.eqb_refl]).
    congruence.
  - apply sorted_nodup. pose proof (groups_sorted K route keys) as H. unfold groups in H. rewrite map_map in H. cbn [fst] in H. now rewrite map_id in H.
Qed.

Lemma same_group k keys :
  same K O key keq k (map op (group K route (route k) keys)) = same K O key keq k (map op keys).
Proof.
  unfold same, group. induction keys as [|k' keys IH]; [reflexivity|]. cbn [filter map].
  destruct (route k' =? route k) eqn:E; cbn [map filter]; rewrite key_op.
  - destruct (keq k' k); [f_equal|]; exact IH.
  - destruct (keq k' k) eqn:E2; [|exact IH]. apply keq_spec in E2. subst. rewrite Nat.eqb_refl in E. discriminate.
Qed.

(* the per-key effect of the sharded multi-key call is the unsharded call's: if every key's cell agrees before,
   it agrees after (so the agreement is an invariant of any mix of single and multi-key calls) *)
Theorem multi_sharded_equals_unsharded sh s keys :
  (forall k, sh (route k) k = s k) -> forall k, multi_sh sh keys (route k) k = multi_un s keys k.
Proof.
  intros Hag k. rewrite multi_sh_shard. unfold multi_un.
  rewrite (cell_at_key K C O R key keq keq_spec cstep k _ (sh (route k)) s (Hag k)).
  rewrite same_group.
  symmetry. apply (cell_at_key K C O R key keq keq_spec cstep k _ s s eq_refl).
Qed.
End MultiCall.

Print Assumptions groups_sorted.
Print Assumptions multi_sharded_equals_unsharded.
