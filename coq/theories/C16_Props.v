(* C16 stcp session: single exit, balanced count, flush before local close - the property, clause by clause, over
   every label sequence (every order and combination of terminating events, any number of queued sends, any number
   of sessions and connection attempts) of the composed machine of C16_Model.v.
   This file contains statements closed by `exact` only. *)
From Coq Require Import ZArith List Bool Arith.
Require Import C16_Model C16_Inv C16_Thm C16_Check C16_Compose.
Require Accept.
Import ListNotations.
Open Scope Z_scope.

(* whatever the driver accepts satisfies the monitor *)
Theorem c16_case_sound : forall c, case_accept c = true -> case_holds c = true.
Proof. exact case_sound. Qed.

(* the invariant of the composed machine holds after every label sequence: the count is its initial value plus the
   sessions started and not yet over, and every session satisfies the session invariant *)
Theorem c16_run_invariant : forall c0 ls t t', GInv c0 t -> run t ls = Some t' -> GInv c0 t' /\ maxc t' = maxc t.
Proof. exact run_ginv. Qed.

(* the exit callback runs at most once *)
Theorem c16_exit_at_most_once : forall m c0 t i s, reachable m c0 t -> nth_error (ss t) i = Some s -> (onexit s <= 1)%nat.
Proof. exact exit_at_most_once. Qed.

(* as soon as one loop has stopped, for whatever reason: the callback ran exactly once, the connection and the queue are closed *)
Theorem c16_single_exit : forall m c0 t i s, reachable m c0 t -> nth_error (ss t) i = Some s -> started s = true ->
  sendl s = false \/ recvl s = false ->
  onexit s = 1%nat /\ copen s = false /\ qclosed s = true /\ exited s = true.
Proof. exact single_exit. Qed.

(* the connection is closed exactly when the callback has run; until then both loops run *)
Theorem c16_closed_iff_exited : forall m c0 t i s, reachable m c0 t -> nth_error (ss t) i = Some s -> started s = true ->
  (copen s = false <-> onexit s = 1%nat) /\ (onexit s = 0%nat -> copen s = true /\ sendl s = true /\ recvl s = true).
Proof. exact closed_iff_exited. Qed.

(* every terminating event ends the session: at quiescence both goroutines have stopped, the callback ran exactly
   once, the connection is closed (must_end = peer close / read error / read timeout / handler error / handler
   panic, or local Close towards a reading peer, or a payload accepted after a write error / timeout was armed) *)
Theorem c16_both_loops_stop : forall m c0 t i s, reachable m c0 t -> nth_error (ss t) i = Some s -> started s = true ->
  stable t = true -> must_end s = true ->
  sendl s = false /\ recvl s = false /\ onexit s = 1%nat /\ copen s = false.
Proof. exact both_loops_stop. Qed.

(* whatever way the read handler ends the receive loop (error, panic with any value - nil included -, Goexit) the
   session must be over at quiescence *)
Theorem c16_handler_end_kinds : forall m c0 t i s k t' s', reachable m c0 t -> nth_error (ss t) i = Some s -> started s = true ->
  step t (On i (RecvFault k)) = Some t' -> nth_error (ss t') i = Some s' -> must_end s' = true.
Proof. exact handler_end_kinds. Qed.

(* a send loop that still runs at quiescence is parked on an open, empty queue, or blocked in a write nobody reads with
   no write fault armed and the connection up (so a write error or an expired write deadline always ends it) *)
Theorem c16_send_loop_at_rest : forall m c0 t i s, reachable m c0 t -> nth_error (ss t) i = Some s -> started s = true ->
  stable t = true -> sendl s = true ->
  (q s = [] /\ qclosed s = false) \/ (has_data (q s) = true /\ peer_reads s = false /\ wfail s = false /\ copen s = true /\ peer_open s = true).
Proof. exact send_loop_at_rest. Qed.

(* the goroutines of the implementation (accept loop, session loops) cannot run forever on their own: every
   sequence of their steps is bounded by the measure *)
Theorem c16_internal_run_bounded : forall ls t t', forallb internal ls = true -> run t ls = Some t' ->
  (length ls + MU t' <= MU t)%nat.
Proof. exact internal_run_bounded. Qed.

(* the count: initial value plus sessions not yet over - every exit returns exactly its unit *)
Theorem c16_count_balanced : forall m c0 t, reachable m c0 t -> cnt t = c0 + total (ss t).
Proof. exact count_balanced. Qed.

(* ... so it is back at its previous value when the sessions are over *)
Theorem c16_count_returns : forall m c0 t, reachable m c0 t ->
  (forall s, In s (ss t) -> started s = true -> exited s = true) -> cnt t = c0.
Proof. exact count_returns. Qed.

(* one step of a session changes the count by one exactly when it is the step in which the session exits *)
Theorem c16_exit_decrements : forall t i a t' s, step t (On i a) = Some t' -> nth_error (ss t) i = Some s -> Inv1 s ->
  exists s', nth_error (ss t') i = Some s' /\ cnt t' = cnt t - (if negb (exited s) && exited s' then 1 else 0).
Proof. exact exit_decrements. Qed.

(* the count never exceeds the configured maximum when sessions come through the accept loop *)
Theorem c16_count_le_max : forall m t, (exists r ls, run (init m 0 r) ls = Some t /\ forallb not_start ls = true) ->
  0 <= cnt t <= Z.max 0 m.
Proof. exact count_le_max. Qed.

(* surplus connections are closed on accept and never counted *)
Theorem c16_surplus_closed : forall t i t', step t (Accept i) = Some t' -> maxc t <= cnt t ->
  cnt t' = cnt t /\ ss t' = ss t ++ [rejected] /\ started rejected = false /\ copen rejected = false.
Proof. exact surplus_closed. Qed.

Theorem c16_accepted_below_max : forall t i t', step t (Accept i) = Some t' -> cnt t < maxc t ->
  cnt t' = cnt t + 1 /\ ss t' = ss t ++ [fresh Tcp true 0%nat].
Proof. exact accepted_below_max. Qed.

(* flush before a local close: nothing but Sends (any payloads, zero-length included) and Close happened, the connection is closed:
   the peer has read every accepted byte, in order *)
Theorem c16_flush_before_local_close : forall m c0 t i s, reachable m c0 t -> nth_error (ss t) i = Some s -> started s = true ->
  clean s = true -> copen s = false -> inbox s = concat (accepted s).
Proof. exact flush_before_local_close. Qed.

(* ... and with a reading peer the Close ends the session, so at quiescence everything is delivered and over *)
Theorem c16_local_close_flushes : forall m c0 t i s, reachable m c0 t -> nth_error (ss t) i = Some s -> started s = true ->
  stable t = true -> clean s = true -> lclosed s = true -> peer_reads s = true ->
  copen s = false /\ onexit s = 1%nat /\ sendl s = false /\ recvl s = false /\ inbox s = concat (accepted s).
Proof. exact local_close_flushes. Qed.

(* the peer only ever reads accepted bytes, in the order of acceptance *)
Theorem c16_inbox_in_order : forall m c0 t i s, reachable m c0 t -> nth_error (ss t) i = Some s -> started s = true ->
  exists rest, concat (accepted s) = inbox s ++ rest.
Proof. exact inbox_in_order. Qed.

(* after the exit nothing is accepted *)
Theorem c16_no_send_after_exit : forall m c0 t i s bs, reachable m c0 t -> nth_error (ss t) i = Some s -> started s = true ->
  exited s = true -> sess_step s (Send bs true) = None.
Proof. exact no_send_after_exit. Qed.

(* the composed machine refines the accept-loop prototype of DESIGN appendix AJ (Accept.v): the accept goroutine's step
   is its Accept, the step in which a session's exitOnce fires is its Exit, everything else is invisible to it *)
Theorem c16_refines_accept_machine : forall ls t t', GInv 0 t -> run t ls = Some t' -> forallb not_start ls = true ->
  Accept.run (abs t) (proj_run t ls) = Some (abs t').
Proof. exact run_refines. Qed.

(* ... so the prototype's bound is a corollary: the count is the number of live sessions and at most the maximum *)
Theorem c16_count_bounded_via_accept : forall m r ls t, 0 <= m -> run (init m 0 r) ls = Some t -> forallb not_start ls = true ->
  (Z.to_nat (cnt t) <= Z.to_nat m)%nat /\ Z.to_nat (cnt t) = length (ids is_live 0 (ss t)).
Proof. exact count_bounded_via_accept. Qed.

(* UpdateHandler: the exit callback goes to the handler in charge at the moment of the exit (s.rh, else the manager's),
   once; reading s.rh is a step of its own (Pick) since the callback may run for a while before the rest of quit; when
   every UpdateHandler came before anything that can end the session, the handler told is the one installed last *)
Theorem c16_pick_records_current_handler : forall s s' d, sess_step s Pick = Some (s', d) ->
  exit_h (hx s') = hid (hx s) /\ picked (hx s') = true /\ d = false /\ exited s' = exited s /\ qclosed s' = qclosed s /\ copen s' = copen s.
Proof. exact pick_records_current_handler. Qed.
Theorem c16_quit_keeps_the_pick : forall s s1 d, quit s = (s1, d) -> d = true ->
  exit_h (hx s1) = (if picked (hx s) then exit_h (hx s) else hid (hx s)).
Proof. exact quit_keeps_the_pick. Qed.
Theorem c16_exit_handler : forall m c0 t i s, reachable m c0 t -> nth_error (ss t) i = Some s -> started s = true ->
  amb (hx s) = false -> exited s = true -> exit_h (hx s) = hid (hx s).
Proof. exact exit_handler. Qed.

(* the accept loop under errors of Accept: a temporary error below acceptMaxRetry keeps the loop and changes nothing
   else; the acceptMaxRetry-th in a row ends it; it ends only that way or by Server.Close; if it was alive with nothing
   waiting and is gone later without a Close, at least acceptMaxRetry Accept calls failed in between; none of this
   touches the count, so the bound theorems above hold over every interleaving with these errors (they quantify over
   all label lists, AcceptFail / FdExhaust / FdRestore / SrvClose included) *)
Theorem c16_temporary_error_below_limit : forall t t', step t AcceptFail = Some t' -> (S (aretry (al t)) < amax (al t))%nat ->
  aloop (al t') = true /\ aretry (al t') = S (aretry (al t)) /\ cnt t' = cnt t /\ ss t' = ss t /\ pend t' = pend t.
Proof. exact temporary_error_below_limit. Qed.
Theorem c16_temporary_error_at_limit : forall t t', step t AcceptFail = Some t' -> (amax (al t) <= S (aretry (al t)))%nat ->
  aloop (al t') = false /\ cnt t' = cnt t /\ ss t' = ss t /\ pend t' = pend t.
Proof. exact temporary_error_at_limit. Qed.
Theorem c16_accept_loop_ends_only : forall c0 t, (exists m r ls, run (init m c0 r) ls = Some t) -> aloop (al t) = false ->
  sclosed (al t) = true \/ (amax (al t) <= aretry (al t))%nat.
Proof. exact accept_loop_ends_only. Qed.
Theorem c16_loop_death_needs_retries : forall c0 t ls t', GInv c0 t -> aloop (al t) = true -> pend t = 0%nat -> run t ls = Some t' ->
  aloop (al t') = false -> existsb is_srvclose ls = false -> (amax (al t) <= count_fail ls)%nat.
Proof. exact loop_death_needs_retries. Qed.

(* non-vacuity: runs of the model that satisfy the hypotheses above *)
Theorem c16_demo_handler : exists t s, run (init 0 0 3)
    [Start 0 Pipe true 1; On 0 (SetHandler 2); On 0 LocalClose; On 0 SendStep; On 0 RecvEnd; On 0 (SetHandler 3)] = Some t
  /\ nth_error (ss t) 0 = Some s /\ stable t = true /\ onexit s = 1%nat /\ exit_h (hx s) = 2%nat /\ hid (hx s) = 3%nat.
Proof. exact demo_handler. Qed.
Theorem c16_demo_accept_errors : exists t, run (init 1 0 2)
    [FdExhaust; Arrive 0; AcceptFail; FdRestore; Accept 0; FdExhaust; Arrive 1; AcceptFail; AcceptFail] = Some t
  /\ stable t = true /\ cnt t = 1 /\ pend t = 1%nat /\ aloop (al t) = false /\ length (ss t) = 1%nat.
Proof. exact demo_accept_errors. Qed.
Theorem c16_demo_flush : exists t s, run (init 0 0 3)
    [Start 0 Pipe true 0; On 0 (Send [1;2] true); On 0 (Send [3] true); On 0 LocalClose; On 0 SendStep; On 0 SendStep; On 0 SendStep; On 0 RecvEnd] = Some t
  /\ nth_error (ss t) 0 = Some s /\ stable t = true /\ clean s = true /\ lclosed s = true /\ inbox s = [1;2;3] /\ onexit s = 1%nat /\ cnt t = 0.
Proof. exact demo_flush. Qed.
Theorem c16_demo_race : exists t s, run (init 0 0 3)
    [Start 0 Tcp true 0; On 0 (Send [7] true); On 0 (RecvFault RPanic); On 0 LocalClose; On 0 RecvEnd; On 0 SendStep] = Some t
  /\ nth_error (ss t) 0 = Some s /\ stable t = true /\ must_end s = true /\ inbox s = [] /\ onexit s = 1%nat /\ cnt t = 0.
Proof. exact demo_race. Qed.
Theorem c16_demo_accept : exists t, run (init 2 0 3)
    [Arrive 0; Arrive 1; Arrive 2; Accept 0; Accept 1; Accept 2; On 0 PeerClose; On 0 RecvEnd; On 0 SendStep; Arrive 3; Arrive 4; Accept 3; Accept 4] = Some t
  /\ cnt t = 2 /\ map started (ss t) = [true; true; false; true; false].
Proof. exact demo_accept. Qed.
(* a zero-length payload is skipped; the payloads behind it are delivered (repair 225387c) *)
Theorem c16_empty_payload_skipped : exists t s, run (init 0 0 3)
    [Start 0 Pipe true 0; On 0 (Send [1] true); On 0 (Send [] true); On 0 (Send [2] true); On 0 LocalClose;
     On 0 SendStep; On 0 SendStep; On 0 SendStep; On 0 SendStep; On 0 RecvEnd] = Some t
  /\ nth_error (ss t) 0 = Some s /\ stable t = true /\ accepted s = [[1]; []; [2]] /\ inbox s = [1; 2] /\ onexit s = 1%nat /\ clean s = true.
Proof. exact empty_payload_skipped. Qed.

(* the pre-fix send loop (sess_step_prefix: a zero-length payload ends the loop) violates the flush clause *)
Theorem c16_prefix_flush_refuted : exists t s, run_prefix (init 0 0 3)
    [Start 0 Pipe true 0; On 0 (Send [1] true); On 0 (Send [] true); On 0 (Send [2] true); On 0 LocalClose;
     On 0 SendStep; On 0 SendStep; On 0 RecvEnd] = Some t
  /\ nth_error (ss t) 0 = Some s /\ stable t = true /\ clean s = true /\ lclosed s = true /\ peer_reads s = true /\ copen s = false
  /\ accepted s = [[1]; []; [2]] /\ inbox s = [1] /\ inbox s <> concat (accepted s).
Proof. exact prefix_flush_refuted. Qed.

Print Assumptions c16_case_sound.
Print Assumptions c16_run_invariant.
Print Assumptions c16_exit_at_most_once.
Print Assumptions c16_single_exit.
Print Assumptions c16_closed_iff_exited.
Print Assumptions c16_both_loops_stop.
Print Assumptions c16_handler_end_kinds.
Print Assumptions c16_send_loop_at_rest.
Print Assumptions c16_internal_run_bounded.
Print Assumptions c16_count_balanced.
Print Assumptions c16_count_returns.
Print Assumptions c16_exit_decrements.
Print Assumptions c16_count_le_max.
Print Assumptions c16_surplus_closed.
Print Assumptions c16_accepted_below_max.
Print Assumptions c16_flush_before_local_close.
Print Assumptions c16_local_close_flushes.
Print Assumptions c16_inbox_in_order.
Print Assumptions c16_no_send_after_exit.
Print Assumptions c16_refines_accept_machine.
Print Assumptions c16_count_bounded_via_accept.
Print Assumptions c16_pick_records_current_handler.
Print Assumptions c16_quit_keeps_the_pick.
Print Assumptions c16_exit_handler.
Print Assumptions c16_temporary_error_below_limit.
Print Assumptions c16_temporary_error_at_limit.
Print Assumptions c16_accept_loop_ends_only.
Print Assumptions c16_loop_death_needs_retries.
Print Assumptions c16_demo_handler.
Print Assumptions c16_demo_accept_errors.
Print Assumptions c16_demo_flush.
Print Assumptions c16_demo_race.
Print Assumptions c16_demo_accept.
Print Assumptions c16_empty_payload_skipped.
Print Assumptions c16_prefix_flush_refuted.
