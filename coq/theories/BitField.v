(* C06/C07: shifts, masks and ors of the snowflake layout as arithmetic *)
From Coq Require Import ZArith Lia.
Open Scope Z_scope.

Lemma land_shiftl_small t s r : 0 <= s -> 0 <= r < 2 ^ s -> Z.land (Z.shiftl t s) r = 0.
Proof.
  intros Hs Hr. apply Z.bits_inj'. intros n Hn. rewrite Z.land_spec, Z.bits_0.
  destruct (Z.lt_ge_cases n s) as [Hlt|Hge].
  - rewrite Z.shiftl_spec_low by lia. reflexivity.
  - assert (Z.testbit r n = false); [|now rewrite H, Bool.andb_false_r].
    destruct (Z.eq_dec r 0) as [->|Hne]; [apply Z.bits_0|].
    apply Z.bits_above_log2; [lia|].
    apply Z.log2_lt_pow2; [lia|]. eapply Z.lt_le_trans; [apply Hr|]. apply Z.pow_le_mono_r; lia.
Qed.

Lemma lor_shiftl_small t s r : 0 <= s -> 0 <= r < 2 ^ s -> Z.lor (Z.shiftl t s) r = t * 2 ^ s + r.
Proof.
  intros Hs Hr. rewrite <- Z.shiftl_mul_pow2 by lia.
  pose proof (land_shiftl_small t s r Hs Hr) as H0.
  rewrite <- (Z.lxor_lor _ _ H0). symmetry. apply Z.add_nocarry_lxor. exact H0.
Qed.

Lemma shiftr_compose t s r : 0 <= s -> 0 <= r < 2 ^ s -> Z.shiftr (t * 2 ^ s + r) s = t.
Proof.
  intros Hs Hr. rewrite Z.shiftr_div_pow2 by lia.
  rewrite Z.add_comm, Z.div_add by lia. rewrite Z.div_small by lia. lia.
Qed.

Lemma land_ones_compose t s r : 0 <= s -> 0 <= r < 2 ^ s -> Z.land (t * 2 ^ s + r) (2 ^ s - 1) = r.
Proof.
  intros Hs Hr. replace (2 ^ s - 1) with (Z.ones s) by (rewrite Z.ones_equiv; lia).
  rewrite Z.land_ones by lia. rewrite Z.add_comm, Z.mod_add by lia. apply Z.mod_small; lia.
Qed.

(* the id order is the order of (timestamp, rest) pairs *)
Lemma compose_order t1 r1 t2 r2 s : 0 <= s -> 0 <= r1 < 2 ^ s -> 0 <= r2 < 2 ^ s ->
  (t1 * 2 ^ s + r1 < t2 * 2 ^ s + r2 <-> t1 < t2 \/ (t1 = t2 /\ r1 < r2)).
Proof. intros Hs H1 H2. assert (0 < 2 ^ s) by (apply Z.pow_pos_nonneg; lia). nia. Qed.

(* three fields (time | node | step), either layout *)
Lemma three_fields time node step nb sb :
  0 <= nb -> 0 <= sb -> 0 <= node < 2 ^ nb -> 0 <= step < 2 ^ sb ->
  Z.lor (Z.lor (Z.shiftl time (nb + sb)) (Z.shiftl node sb)) step
  = time * 2 ^ (nb + sb) + (node * 2 ^ sb + step).
Proof.
  intros Hn Hs Hnode Hstep.
  assert (H2 : 0 <= node * 2 ^ sb + step < 2 ^ (nb + sb)).
  { rewrite Z.pow_add_r by lia. assert (0 < 2 ^ sb) by (apply Z.pow_pos_nonneg; lia). nia. }
  rewrite <- Z.lor_assoc. rewrite (lor_shiftl_small node sb step) by lia.
  apply lor_shiftl_small; lia.
Qed.
Print Assumptions three_fields.
