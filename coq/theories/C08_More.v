(* C08 proofs, part 4: the specification unfolded into the property's own words.
   The member lists are strictly ascending and contain exactly the members; an iterator that has room returns
   k = min(max n 0, Len), leaves the slice untouched outside [pos, pos+k) and puts the t-th member (in the chosen
   direction) plus add, wrapped to the element type, at pos+t; without room it panics, and only then. *)
From Coq Require Import List Bool ZArith NArith Lia Sorted.
Require Import BitSet C08_Model C08_Spec C08_Word C08_Iter C08_Set.
Import ListNotations.
Open Scope Z_scope.

(* ---------------- the member lists ---------------- *)
Lemma zseq_sorted : forall k a, StronglySorted Z.lt (zseq a k).
Proof.
  induction k as [|k IH]; intros a; cbn [zseq]; constructor; [apply IH|].
  apply Forall_forall. intros x Hx. apply in_zseq in Hx. lia.
Qed.
Lemma filter_sorted {A} (R : A -> A -> Prop) (p : A -> bool) l : StronglySorted R l -> StronglySorted R (filter p l).
Proof.
  induction 1 as [|x l Hs IH Hall]; cbn [filter]; [constructor|].
  destruct (p x); [|exact IH]. constructor; [exact IH|].
  apply Forall_forall. intros y Hy. apply filter_In in Hy. destruct Hy as [Hy _].
  rewrite Forall_forall in Hall. now apply Hall.
Qed.

Theorem members64_sorted w : StronglySorted Z.lt (members64 w).
Proof. apply filter_sorted, zseq_sorted. Qed.
Theorem members1024_sorted ws : StronglySorted Z.lt (members1024 ws).
Proof. apply filter_sorted, zseq_sorted. Qed.

Theorem members64_In w j : In j (members64 w) <-> mem64 w j = true.
Proof.
  unfold members64. rewrite filter_In, in_zseq. split; [tauto|]. intros H. split; [|exact H].
  unfold mem64 in H. apply andb_prop in H. destruct H as [H _]. apply andb_prop in H. destruct H as [H1 H2].
  apply Z.leb_le in H1. apply Z.ltb_lt in H2. lia.
Qed.
Theorem members1024_In ws j : In j (members1024 ws) <-> mem1024 ws j = true.
Proof.
  unfold members1024. rewrite filter_In, in_zseq. split; [tauto|]. intros H. split; [|exact H].
  unfold mem1024 in H. apply andb_prop in H. destruct H as [H _]. apply andb_prop in H. destruct H as [H1 H2].
  apply Z.leb_le in H1. apply Z.ltb_lt in H2. lia.
Qed.

(* ---------------- the slice after a write ---------------- *)
Lemma nth_skipn {A} : forall m (l : list A) i d, nth i (skipn m l) d = nth (m + i) l d.
Proof.
  induction m as [|m IH]; intros l i d; [reflexivity|].
  destruct l as [|x l]; cbn [skipn Nat.add nth]; [now destruct i|apply IH].
Qed.
Lemma nth_firstn_lt {A} : forall m (l : list A) i d, (i < m)%nat -> nth i (firstn m l) d = nth i l d.
Proof.
  induction m as [|m IH]; intros l i d H; [lia|].
  destruct l as [|x l]; cbn [firstn nth]; [reflexivity|]. destruct i as [|i]; [reflexivity|]. apply IH. lia.
Qed.

Lemma splice_length s pos vals : 0 <= pos -> pos + Z.of_nat (length vals) <= Z.of_nat (length s) ->
  length (splice s pos vals) = length s.
Proof.
  intros H1 H2. unfold splice. rewrite !app_length, firstn_length, skipn_length. lia.
Qed.
Lemma splice_outside s pos vals j : 0 <= pos -> pos + Z.of_nat (length vals) <= Z.of_nat (length s) ->
  (j < Z.to_nat pos \/ Z.to_nat pos + length vals <= j)%nat -> nth j (splice s pos vals) 0 = nth j s 0.
Proof.
  intros H1 H2 Hj. unfold splice.
  assert (Hf : length (firstn (Z.to_nat pos) s) = Z.to_nat pos) by (rewrite firstn_length; lia).
  destruct Hj as [Hj|Hj].
  - rewrite app_nth1 by lia. now apply nth_firstn_lt.
  - rewrite app_nth2 by lia. rewrite app_nth2 by lia. rewrite nth_skipn, Hf. f_equal. lia.
Qed.
Lemma splice_inside s pos vals t : 0 <= pos -> pos + Z.of_nat (length vals) <= Z.of_nat (length s) -> (t < length vals)%nat ->
  nth (Z.to_nat pos + t) (splice s pos vals) 0 = nth t vals 0.
Proof.
  intros H1 H2 Ht. unfold splice.
  rewrite app_nth2 by (rewrite firstn_length; lia).
  rewrite firstn_length, Nat.min_l by lia.
  replace (Z.to_nat pos + t - Z.to_nat pos)%nat with t by lia. now apply app_nth1.
Qed.

(* ---------------- the property in its own words ---------------- *)
Lemma nth_ztake {A} n (l : list A) t d : (t < length (ztake n l))%nat -> nth t (ztake n l) d = nth t l d.
Proof.
  rewrite ztake_firstn. intros H. apply nth_firstn_lt. rewrite firstn_length in H. lia.
Qed.

Theorem spec_iter_prop ty rev ms s pos add n :
  let k := Z.min (Z.max n 0) (Z.of_nat (length ms)) in
  0 <= pos -> pos + k <= Z.of_nat (length s) ->
  exists s', spec_iter ty rev ms s pos add n = Ok s' k
    /\ length s' = length s
    /\ (forall j, (j < Z.to_nat pos \/ Z.to_nat (pos + k) <= j)%nat -> nth j s' 0 = nth j s 0)
    /\ (forall t, (t < Z.to_nat k)%nat -> nth (Z.to_nat pos + t) s' 0 = norm ty (nth t (dirl rev ms) 0 + add)).
Proof.
  intros k Hpos Hroom. unfold spec_iter. fold (dirl rev ms).
  set (sel := ztake n (dirl rev ms)).
  set (vals := map (fun m => norm ty (m + add)) sel).
  assert (Hk : Z.of_nat (length vals) = k).
  { unfold vals, sel. rewrite map_length, ztake_length. unfold k, dirl. destruct rev; [rewrite rev_length|]; reflexivity. }
  destruct vals as [|v r] eqn:Ev.
  - exists s. cbn [length] in Hk. repeat split.
    + f_equal. lia.
    + intros t Ht. lia.
  - rewrite <- Ev in *. rewrite Hk.
    replace (0 <=? pos) with true by (symmetry; apply Z.leb_le; lia).
    replace (pos + k <=? Z.of_nat (length s)) with true by (symmetry; apply Z.leb_le; lia). cbn [andb].
    exists (splice s pos vals). split; [rewrite Ev; reflexivity|]. split; [apply splice_length; lia|]. split.
    + intros j Hj. apply splice_outside; lia.
    + intros t Ht. rewrite splice_inside by lia. unfold vals.
      assert (Hlen : (t < length sel)%nat) by (unfold vals in Hk; rewrite map_length in Hk; lia).
      transitivity (nth t (map (fun m => norm ty (m + add)) sel) ((fun m => norm ty (m + add)) 0)).
      { apply nth_indep. rewrite map_length. exact Hlen. }
      rewrite (map_nth (fun m => norm ty (m + add)) sel 0 t). f_equal. f_equal.
      unfold sel. apply nth_ztake. exact Hlen.
Qed.

(* it panics exactly when something has to be written that does not fit *)
Theorem spec_iter_panic_iff ty rev ms s pos add n :
  let k := Z.min (Z.max n 0) (Z.of_nat (length ms)) in
  spec_iter ty rev ms s pos add n = Panic <-> (0 < k /\ ~ (0 <= pos /\ pos + k <= Z.of_nat (length s))).
Proof.
  intros k. unfold spec_iter. fold (dirl rev ms).
  set (vals := map (fun m => norm ty (m + add)) (ztake n (dirl rev ms))).
  assert (Hk : Z.of_nat (length vals) = k).
  { unfold vals. rewrite map_length, ztake_length. unfold k, dirl. destruct rev; [rewrite rev_length|]; reflexivity. }
  destruct vals as [|v r] eqn:Ev.
  - cbn [length] in Hk. split; [discriminate|]. intros [H _]. lia.
  - rewrite <- Ev in *. rewrite Hk.
    destruct ((0 <=? pos) && (pos + k <=? Z.of_nat (length s))) eqn:E.
    + apply andb_prop in E. destruct E as [E1 E2]. apply Z.leb_le in E1. apply Z.leb_le in E2.
      split; [discriminate|]. intros [_ H]. exfalso. apply H. lia.
    + split; [|reflexivity]. intros _. split; [rewrite Ev in Hk; cbn [length] in Hk; lia|].
      intros [H1 H2]. apply andb_false_iff in E. destruct E as [E|E]; [apply Z.leb_gt in E|apply Z.leb_gt in E]; lia.
Qed.

(* never out of fuel: the find-first-set loop clears one member per round *)
Theorem spec_iter_not_out_of_fuel ty rev ms s pos add n : spec_iter ty rev ms s pos add n <> OutOfFuel.
Proof.
  unfold spec_iter. destruct (map (fun m => norm ty (m + add)) (ztake n (if rev then List.rev ms else ms))); [discriminate|].
  destruct ((0 <=? pos) && _); discriminate.
Qed.

(* ---------------- instantiated for the two layers ---------------- *)
Theorem iter64_prop ty add rev magic w s pos n : wfw w = true ->
  let k := Z.min (Z.max n 0) (len64 w) in
  0 <= pos -> pos + k <= Z.of_nat (length s) ->
  exists s', iter64 ty add rev magic w s pos n = Ok s' k
    /\ length s' = length s
    /\ (forall j, (j < Z.to_nat pos \/ Z.to_nat (pos + k) <= j)%nat -> nth j s' 0 = nth j s 0)
    /\ (forall t, (t < Z.to_nat k)%nat -> nth (Z.to_nat pos + t) s' 0 = norm ty (nth t (dirl rev (members64 w)) 0 + add)).
Proof.
  intros Hw. rewrite (iter64_spec ty add rev magic w s pos n Hw), (len64_members w Hw). apply spec_iter_prop.
Qed.
Theorem iter1024_prop ty rev magic ws s pos add n : wfws ws = true ->
  let k := Z.min (Z.max n 0) (len1024 ws) in
  0 <= pos -> pos + k <= Z.of_nat (length s) ->
  exists s', iter1024 ty rev magic ws s pos add n = Ok s' k
    /\ length s' = length s
    /\ (forall j, (j < Z.to_nat pos \/ Z.to_nat (pos + k) <= j)%nat -> nth j s' 0 = nth j s 0)
    /\ (forall t, (t < Z.to_nat k)%nat -> nth (Z.to_nat pos + t) s' 0 = norm ty (nth t (dirl rev (members1024 ws)) 0 + add)).
Proof.
  intros Hw. rewrite (iter1024_spec ty rev magic ws s pos add n Hw), (len1024_members ws Hw). apply spec_iter_prop.
Qed.
Theorem iter1024_panic_iff ty rev magic ws s pos add n : wfws ws = true ->
  let k := Z.min (Z.max n 0) (len1024 ws) in
  iter1024 ty rev magic ws s pos add n = Panic <-> (0 < k /\ ~ (0 <= pos /\ pos + k <= Z.of_nat (length s))).
Proof.
  intros Hw. rewrite (iter1024_spec ty rev magic ws s pos add n Hw), (len1024_members ws Hw). apply spec_iter_panic_iff.
Qed.
Theorem iter64_panic_iff ty add rev magic w s pos n : wfw w = true ->
  let k := Z.min (Z.max n 0) (len64 w) in
  iter64 ty add rev magic w s pos n = Panic <-> (0 < k /\ ~ (0 <= pos /\ pos + k <= Z.of_nat (length s))).
Proof.
  intros Hw. rewrite (iter64_spec ty add rev magic w s pos n Hw), (len64_members w Hw). apply spec_iter_panic_iff.
Qed.
