(* C17 shard routing and sharded = unsharded: the property clause by clause, for every key, every shard count,
   every hash value (oracle argument h) and every history.  Statements closed by `exact` only. *)
From Coq Require Import List Bool ZArith.
From Coq Require Import Permutation.
Require Import Remap Shard C17_Index C17_Shard C17_LruView C17_Multi C17_Burst C17_Check.
Import ListNotations.
Open Scope Z_scope.

(* ---- routing: total on the supported keys, in [0, shards) ---- *)
Theorem c17_index_range : forall xh n k h, 1 <= n -> supported xh k = true ->
  exists i, index xh n k h = Some i /\ 0 <= i < n.
Proof. exact index_range. Qed.

Theorem c17_simple_index_range : forall n k h, 1 <= n -> simple_supported k = true ->
  exists i, simple_index n k h = Some i /\ 0 <= i < n.
Proof. exact simple_index_range. Qed.

Theorem c17_xhash_index_range : forall n k h, 1 <= n -> xhash_supported k = true ->
  exists i, xhash_index n k h = Some i /\ 0 <= i < n.
Proof. exact xhash_index_range. Qed.

(* integer keys of every width (negative values as two's complement) and HitGroup keys: value modulo shards *)
Theorem c17_simple_index_int : forall n k it h, 1 <= n -> simple_u64 k = Some it -> simple_index n k h = Some (it mod n).
Proof. exact simple_index_int. Qed.

(* signed keys: non-negative values route by the value, negative ones by their two's complement value + 2^64 *)
Theorem c17_simple_index_signed : forall n k v h, 1 <= n -> signed_val k = Some v -> - 2 ^ 63 <= v < 2 ^ 63 ->
  simple_index n k h = Some ((if v <? 0 then v + 2 ^ 64 else v) mod n).
Proof. exact simple_index_signed. Qed.

(* unsupported keys are rejected, never silently sent to a shard *)
Theorem c17_index_unsupported : forall xh n k h, supported xh k = false -> index xh n k h = None.
Proof. exact index_unsupported. Qed.

(* the hash route sees a key only through its bytes *)
Theorem c17_xhash_index_bytes : forall n k k' h, xhash_supported k = true -> xhash_supported k' = true ->
  xhash_index n k h = xhash_index n k' h.
Proof. exact xhash_index_bytes. Qed.

(* ---- the hash partition ---- *)
(* NewReMap's products never wrap *)
Theorem c17_boundaries_no_wrap : forall n i, 1 <= n -> 0 <= i < n -> 0 <= (MaxU64 / n) * (i + 1) <= MaxU64.
Proof. exact mul_no_wrap. Qed.

Theorem c17_boundaries_monotone : forall n a b, 1 <= n -> 0 <= a <= b -> b < n -> nps n a <= nps n b.
Proof. exact nps_monotone. Qed.

Theorem c17_boundaries_cover : forall n, nps n (n - 1) = MaxU64.
Proof. exact nps_last. Qed.

(* sort.Search returns the first index at which a monotone predicate holds *)
Theorem c17_binsearch_first_true : forall fuel f i j,
  monotone f -> 0 <= i <= j -> j - i < 2 ^ Z.of_nat fuel ->
  (forall a, 0 <= a < i -> f a = false) -> (forall a, j <= a -> f a = true) ->
  let r := search fuel f i j in
  i <= r <= j /\ (forall a, 0 <= a < r -> f a = false) /\ (forall a, r <= a -> f a = true).
Proof. exact search_spec. Qed.

(* every hash value falls in the cell (nps[i-1], nps[i]] of the index SearchIndex returns, which is in range *)
Theorem c17_search_index_cell : forall n x, 1 <= n < 2 ^ 63 -> 0 <= x <= MaxU64 ->
  0 <= search_index_c n x < n /\ x <= nps n (search_index_c n x) /\
  (forall a, 0 <= a < search_index_c n x -> nps n a < x).
Proof. exact search_index_c_spec. Qed.

(* ... and in no other cell: exactly one shard *)
Theorem c17_partition_exactly_one : forall n x j, 1 <= n < 2 ^ 63 -> 0 <= x <= MaxU64 -> 0 <= j < n ->
  x <= nps n j -> (forall a, 0 <= a < j -> nps n a < x) -> search_index_c n x = j.
Proof. exact search_index_c_unique. Qed.

Theorem c17_search_index_monotone : forall n x x', 1 <= n < 2 ^ 63 -> 0 <= x <= x' -> x' <= MaxU64 ->
  search_index_c n x <= search_index_c n x'.
Proof. exact search_index_c_monotone. Qed.

(* every shard is reachable; the two ends of the range go to the two end shards *)
Theorem c17_search_index_onto : forall n i, 1 <= n < 2 ^ 63 -> 0 <= i < n -> search_index_c n (nps n i) = i.
Proof. exact search_index_c_onto. Qed.
Theorem c17_search_index_zero : forall n, 1 <= n < 2 ^ 63 -> search_index_c n 0 = 0.
Proof. exact search_index_c_zero. Qed.
Theorem c17_search_index_max : forall n, 1 <= n < 2 ^ 63 -> search_index_c n MaxU64 = n - 1.
Proof. exact search_index_c_max. Qed.

(* the defensive clamp of SearchIndex is dead code; even for arbitrary input the result is a legal slice index *)
Theorem c17_search_index_no_clamp : forall n x, 1 <= n < 2 ^ 63 -> 0 <= x <= MaxU64 ->
  search_index_c n x = search 64 (fun i => x <=? nps n i) 0 n.
Proof. exact search_index_no_clamp. Qed.
Theorem c17_search_index_total : forall n x, 1 <= n -> 0 <= search_index_c n x < n.
Proof. exact search_index_c_total. Qed.

(* ---- sharded containers ---- *)
(* any container, any routing, any history: shard i is the single container run on the sub-history routed to i *)
Theorem c17_sharded_projection : forall (K S O R : Type) (key : O -> K) (step : S -> O -> S * R) (init : S) (route : K -> nat) h i,
  sh_run K S O R key step route (fun _ => init) h i = run_state S O R step init (sub K O key route i h).
Proof. exact sharded_projection. Qed.

Theorem c17_sharded_result : forall (K S O R : Type) (key : O -> K) (step : S -> O -> S * R) (init : S) (route : K -> nat) h o,
  sh_result K S O R key step init route h o = result S O R step init (sub K O key route (route (key o)) h) o.
Proof. exact sharded_result. Qed.

(* key-local containers: every answer of the sharded container is the unsharded container's answer *)
Theorem c17_sharded_equals_unsharded : forall (K S O R : Type) (key : O -> K) (step : S -> O -> S * R) (init : S) (route : K -> nat)
  (keq : K -> K -> bool), (forall a b, keq a b = true <-> a = b) ->
  (forall h o, result S O R step init h o = result S O R step init (same K O key keq (key o) h) o) ->
  forall h o, sh_result K S O R key step init route h o = result S O R step init h o.
Proof. exact sharded_equals_unsharded. Qed.

(* instances, as whole answer traces: map, key lockers, semaphore map; for every key type with decidable equality *)
Theorem c17_sharded_map : forall (K : Type) (keq : K -> K -> bool), (forall a b, keq a b = true <-> a = b) ->
  forall (route : K -> nat) h,
  sh_trace K _ (cop K) cres (okey K) (cell_step K _ (cop K) cres (okey K) keq (map_cstep K)) route (fun _ => cinit K _ None) h
  = trace _ (cop K) cres (cell_step K _ (cop K) cres (okey K) keq (map_cstep K)) (cinit K _ None) h.
Proof. exact sharded_map_trace. Qed.

Theorem c17_sharded_keylock : forall (K : Type) (keq : K -> K -> bool), (forall a b, keq a b = true <-> a = b) ->
  forall (route : K -> nat) h,
  sh_trace K _ (cop K) cres (okey K) (cell_step K _ (cop K) cres (okey K) keq (lock_cstep K)) route (fun _ => cinit K _ None) h
  = trace _ (cop K) cres (cell_step K _ (cop K) cres (okey K) keq (lock_cstep K)) (cinit K _ None) h.
Proof. exact sharded_lock_trace. Qed.

Theorem c17_sharded_semap : forall (K : Type) (keq : K -> K -> bool), (forall a b, keq a b = true <-> a = b) ->
  forall (ratio : Z) (route : K -> nat) h,
  sh_trace K _ (cop K) cres (okey K) (cell_step K _ (cop K) cres (okey K) keq (sem_cstep K ratio)) route (fun _ => cinit K _ None) h
  = trace _ (cop K) cres (cell_step K _ (cop K) cres (okey K) keq (sem_cstep K ratio)) (cinit K _ None) h.
Proof. exact sharded_sem_trace. Qed.

(* the LRUs ("apart from capacity being applied per shard"): every answer is the answer of the single cache of the
   per-shard capacity that has seen exactly the earlier operations routed to the same shard *)
Theorem c17_sharded_lru : forall (K : Type) (keq : K -> K -> bool) tiny cap (route : K -> nat) h,
  sh_trace K (lru K) (cop K) cres (okey K) (lru_step K keq tiny) route (fun _ => lru_init K cap) h
  = ref_trace K (lru K) (cop K) cres (okey K) (lru_step K keq tiny) (lru_init K cap) route [] h.
Proof. exact sharded_lru_trace. Qed.

(* while the sizes set so far fit the capacity, an LRU answers Get / Peek / Exist / Set / Delete as the per-key view
   (last value set and not deleted), which is key-local *)
Theorem c17_lru_view : forall (K : Type) (keq : K -> K -> bool), (forall a b, keq a b = true <-> a = b) ->
  forall tiny cap h o, forallb (nonneg_op K) (h ++ [o]) = true -> W K tiny (h ++ [o]) <= cap ->
  result _ _ _ (lru_step K keq tiny) (lru_init K cap) h o
  = result _ _ _ (cell_step K (option Z) (cop K) cres (okey K) keq (view_cstep K)) (cinit K (option Z) None) h o.
Proof. exact lru_result_view. Qed.

(* hence: a sharded LRU (per-shard capacity cap') answers a whole history exactly as the unsharded LRU (capacity cap)
   whenever the history fits both capacities - capacity is the only difference between the two *)
Theorem c17_sharded_lru_equals_lru : forall (K : Type) (keq : K -> K -> bool), (forall a b, keq a b = true <-> a = b) ->
  forall tiny cap cap' (route : K -> nat) h,
  forallb (nonneg_op K) h = true -> W K tiny h <= cap -> W K tiny h <= cap' ->
  sh_trace K (lru K) (cop K) cres (okey K) (lru_step K keq tiny) route (fun _ => lru_init K cap') h
  = trace (lru K) (cop K) cres (lru_step K keq tiny) (lru_init K cap) h.
Proof. exact sharded_lru_trace_noevict. Qed.

(* ---- multi-key calls of the sharded generic locker (calculateSortedMultiKeys) ---- *)
(* groups come in strictly ascending shard order (the lock acquisition order), each is exactly the keys of its
   shard in input order, none is empty, no key is lost *)
Theorem c17_groups_sorted : forall (K : Type) (route : K -> nat) keys,
  Sorted.StronglySorted lt (map fst (groups K route keys)).
Proof. exact groups_sorted. Qed.
Theorem c17_groups_spec : forall (K : Type) (route : K -> nat) keys i ks, In (i, ks) (groups K route keys) ->
  ks = group K route i keys /\ ks <> [] /\ Forall (fun k => route k = i) ks.
Proof. exact groups_spec. Qed.
Theorem c17_groups_cover : forall (K : Type) (route : K -> nat) keys k, In k keys ->
  In (route k, group K route (route k) keys) (groups K route keys) /\ In k (group K route (route k) keys).
Proof. exact groups_cover. Qed.

(* per key, the sharded multi-key call does what the unsharded call does (any cell container, any routing) *)
Theorem c17_multi_sharded_equals_unsharded : forall (K C O R : Type) (key : O -> K) (keq : K -> K -> bool),
  (forall a b, keq a b = true <-> a = b) ->
  forall (cstep : C -> O -> C * R) (route : K -> nat) (op : K -> O), (forall k, key (op k) = k) ->
  forall sh s keys, (forall k, sh (route k) k = s k) ->
  forall k, multi_sh K C O R key keq cstep route op sh keys (route k) k = multi_un K C O R key keq cstep op s keys k.
Proof. exact multi_sharded_equals_unsharded. Qed.

(* ---- concurrent writes on pairwise distinct keys (the harness' burst class) ---- *)
(* whatever order the writes of a burst took effect in, every key's cell, and so every later answer, is the same *)
Theorem c17_burst_order_free : forall (K C O R : Type) (key : O -> K) (keq : K -> K -> bool),
  (forall a b, keq a b = true <-> a = b) -> forall (cstep : C -> O -> C * R) s h h',
  Permutation h h' -> NoDup (map key h) ->
  forall k, run_state _ O R (cell_step K C O R key keq cstep) s h k = run_state _ O R (cell_step K C O R key keq cstep) s h' k.
Proof. exact burst_order_free. Qed.
Theorem c17_burst_then_requests : forall (K C O R : Type) (key : O -> K) (keq : K -> K -> bool),
  (forall a b, keq a b = true <-> a = b) -> forall (cstep : C -> O -> C * R) (c0 : C) h h' tl,
  Permutation h h' -> NoDup (map key h) ->
  trace _ O R (cell_step K C O R key keq cstep) (run_state _ O R (cell_step K C O R key keq cstep) (cinit K C c0) h) tl
  = trace _ O R (cell_step K C O R key keq cstep) (run_state _ O R (cell_step K C O R key keq cstep) (cinit K C c0) h') tl.
Proof. exact burst_then_requests. Qed.

(* ---- the driver's evaluation is sound ---- *)
Theorem c17_case_sound : forall c, case_accept c = true -> case_holds c = true.
Proof. exact case_sound. Qed.

Print Assumptions c17_index_range.
Print Assumptions c17_simple_index_range.
Print Assumptions c17_xhash_index_range.
Print Assumptions c17_simple_index_int.
Print Assumptions c17_simple_index_signed.
Print Assumptions c17_index_unsupported.
Print Assumptions c17_xhash_index_bytes.
Print Assumptions c17_boundaries_no_wrap.
Print Assumptions c17_boundaries_monotone.
Print Assumptions c17_boundaries_cover.
Print Assumptions c17_binsearch_first_true.
Print Assumptions c17_search_index_cell.
Print Assumptions c17_partition_exactly_one.
Print Assumptions c17_search_index_monotone.
Print Assumptions c17_search_index_onto.
Print Assumptions c17_search_index_zero.
Print Assumptions c17_search_index_max.
Print Assumptions c17_search_index_no_clamp.
Print Assumptions c17_search_index_total.
Print Assumptions c17_sharded_projection.
Print Assumptions c17_sharded_result.
Print Assumptions c17_sharded_equals_unsharded.
Print Assumptions c17_sharded_map.
Print Assumptions c17_sharded_keylock.
Print Assumptions c17_sharded_semap.
Print Assumptions c17_sharded_lru.
Print Assumptions c17_lru_view.
Print Assumptions c17_sharded_lru_equals_lru.
Print Assumptions c17_groups_sorted.
Print Assumptions c17_groups_spec.
Print Assumptions c17_groups_cover.
Print Assumptions c17_multi_sharded_equals_unsharded.
Print Assumptions c17_burst_order_free.
Print Assumptions c17_burst_then_requests.
Print Assumptions c17_case_sound.
