(* C19: the per-window send limit of the verification-code service (as coded: the test is `sendCount > maxCount`,
   so maxCount + 1 sends fit into one window), and the generated nonce *)
From Coq Require Import ZArith List Bool Lia.
Require Import Vcode.
Import ListNotations.
Open Scope Z_scope.

Section W.
Variable c : cfg.
Hypothesis max_ok : 0 <= maxCount c.

Definition count_ok (e : option vc) : Prop := match e with Some v => 0 <= sendCount v <= maxCount c + 1 | None => True end.

(* the counter never leaves [0, maxCount + 1], whatever the clock does *)
Theorem send_count_inv e now cd hs : count_ok e -> count_ok (fst (send c e now cd hs)).
Proof.
  intros H. unfold send.
  set (v := match e with Some v => v | None => _ end).
  assert (Hv : 0 <= sendCount v <= maxCount c + 1) by (subst v; destruct e as [v0|]; [exact H|cbn; lia]).
  destruct (now - setTime v <? minInterval c); [exact H|].
  destruct (counterDuration c <? now - counterTime v) eqn:Ew.
  - cbn [fst count_ok sendCount]. lia.
  - destruct (maxCount c <? sendCount v) eqn:Eb; [exact H|]. apply Z.ltb_ge in Eb. cbn [fst count_ok sendCount]. lia.
Qed.

(* once maxCount + 1 sends have gone out in a window, every further send in that window is refused *)
Theorem window_limit v now cd hs : sendCount v = maxCount c + 1 -> now - counterTime v <= counterDuration c ->
  exists e, snd (send c (Some v) now cd hs) = Some e /\ (e = TooFreq \/ e = CountLimit) /\ fst (send c (Some v) now cd hs) = Some v.
Proof.
  intros Hc Hw. unfold send. destruct (now - setTime v <? minInterval c); [exists TooFreq; auto|].
  replace (counterDuration c <? now - counterTime v) with false by (symmetry; apply Z.ltb_ge; lia).
  replace (maxCount c <? sendCount v) with true by (symmetry; apply Z.ltb_lt; lia).
  exists CountLimit. auto.
Qed.

(* a successful send inside the window counts exactly one; the first send after the window starts a new count at one *)
Theorem send_counts v now cd hs v' : send c (Some v) now cd hs = (Some v', None) ->
  (now - counterTime v <= counterDuration c /\ sendCount v' = sendCount v + 1 /\ counterTime v' = counterTime v) \/
  (counterDuration c < now - counterTime v /\ sendCount v' = 1 /\ counterTime v' = now).
Proof.
  unfold send. destruct (now - setTime v <? minInterval c); [discriminate|].
  destruct (counterDuration c <? now - counterTime v) eqn:Ew.
  - apply Z.ltb_lt in Ew. intros H. inversion H; subst. cbn. right. auto.
  - apply Z.ltb_ge in Ew. destruct (maxCount c <? sendCount v); [discriminate|]. intros H. inversion H; subst. cbn. left. auto.
Qed.
End W.

(* the nonce: n draws below the alphabet size, each mapped through the alphabet (repaired: Intn(len), not Intn(len - 1)) *)
Definition nonce (alphabet : list Z) (draws : list nat) : list Z := map (fun i => nth i alphabet 0) draws.
Theorem nonce_spec alphabet draws : Forall (fun i => (i < length alphabet)%nat) draws ->
  length (nonce alphabet draws) = length draws /\ Forall (fun ch => In ch alphabet) (nonce alphabet draws).
Proof.
  intros H. unfold nonce. split; [apply map_length|]. apply Forall_forall. intros ch Hin. apply in_map_iff in Hin. destruct Hin as (i & <- & Hi).
  rewrite Forall_forall in H. apply nth_In, H, Hi.
Qed.
(* every character of the alphabet can occur: the pre-fix generator could never produce the last one *)
Theorem nonce_reaches_all alphabet ch : In ch alphabet -> exists i, (i < length alphabet)%nat /\ nonce alphabet [i] = [ch].
Proof. intros H. destruct (In_nth _ _ 0 H) as (i & Hi & E). exists i. split; [exact Hi|]. cbn. rewrite E. reflexivity. Qed.
Lemma last_nth {A} (l : list A) d : l <> [] -> last l d = nth (length l - 1) l d.
Proof.
  induction l as [|a l IH]; [congruence|]. intros _. destruct l as [|b l]; [reflexivity|].
  change (last (a :: b :: l) d) with (last (b :: l) d). rewrite IH by discriminate.
  cbn [length]. replace (S (S (length l)) - 1)%nat with (S (length l)) by lia. replace (S (length l) - 1)%nat with (length l) by lia. reflexivity.
Qed.
Theorem prefix_misses_last alphabet draws : alphabet <> [] -> NoDup alphabet ->
  Forall (fun i => (i < length alphabet - 1)%nat) draws -> ~ In (last alphabet 0) (nonce alphabet draws).
Proof.
  intros Hne Hnd H Hin. unfold nonce in Hin. apply in_map_iff in Hin. destruct Hin as (i & E & Hi).
  rewrite Forall_forall in H. specialize (H i Hi).
  pose proof (last_nth alphabet 0 Hne) as El.
  rewrite El in E. apply (proj1 (NoDup_nth alphabet 0) Hnd) in E; lia.
Qed.

Print Assumptions send_count_inv.
Print Assumptions prefix_misses_last.
