(* C14: one serial lane of each of the four executors.
     KLine   : line.Line and every lane of mline.MultiLine (q.Q, worker drains with PopAnyway, runs every call)
     KRunner : async.RunnerQ, all three call forms share ctxRunnerI.run: the context is tested before the call;
               a call whose context is already done is not executed, its wait channel is closed with ctx.Err()
     KProc   : async.ProcChan: a Go channel instead of a queue, Stop closes stopChan; the worker's select may leave
               with calls still in the channel, a waiting caller may return ErrClosed once stopChan is closed
   Labels: Submit, Pop (worker takes the head and starts the callee), Skip (worker takes the head, context done: no
   callee), Done (callee returns, result published), Stop, Exit (lane goroutine returns), Cancel, Recv (the caller's
   select; any ready case may be taken).  The theorems are over ALL label sequences from the initial state. *)
From Coq Require Import List Bool Arith Lia.
Import ListNotations.

Inductive kind := KLine | KRunner | KProc.
Inductive event := EStart (c : nat) | EEnd (c : nat).
Inductive answer := Val (v : nat) | CtxErr (c : nat) | StopErr | Weird (w : nat).
Inductive subres := SAcc | SFull | SClosed.
Inductive src := FromSlot | FromCtx | FromStop.

Definition is_line (k : kind) : bool := match k with KLine => true | _ => false end.
Definition is_proc (k : kind) : bool := match k with KProc => true | _ => false end.

Record lane := {
  kd : kind;
  cap : nat;                        (* queue size; 0 = unbounded (q.Q / async.Q) *)
  queue : list nat;                 (* accepted and not yet taken by the worker, oldest first *)
  closed : bool;                    (* Stop has closed the queue / stopChan *)
  worker : option nat;              (* the call the lane goroutine is executing *)
  exited : bool;                    (* the lane goroutine has returned *)
  slot : nat -> option answer;      (* the buffered result channel / closed wait channel of call c *)
  cancelled : nat -> bool;          (* the context of call c is done *)
  got : nat -> option answer;       (* what the caller of c has received *)
  seen : list nat;                  (* every call id ever submitted (accepted or refused) *)
  outcome : nat -> option subres;   (* what the submitting caller was told at enqueue time *)
  accepted : list nat;              (* ghost: calls whose enqueue succeeded, in order *)
  poplog : list (nat * bool);       (* ghost: calls the worker has taken, in order; true = callee started, false = skipped *)
  finished : list nat;              (* ghost: calls the callee has completed, in order *)
  events : list event               (* ghost: what the callee records *)
}.

Definition started (s : lane) : list nat := map fst (filter snd (poplog s)).
Definition skipped (s : lane) : list nat := map fst (filter (fun x => negb (snd x)) (poplog s)).

Definition new_lane (k : kind) (n : nat) : lane :=
  {| kd := k; cap := n; queue := []; closed := false; worker := None; exited := false; slot := fun _ => None;
     cancelled := fun _ => false; got := fun _ => None; seen := []; outcome := fun _ => None; accepted := [];
     poplog := []; finished := []; events := [] |}.

Inductive label := Submit (c : nat) | Pop | Skip | Done | Stop | Exit | Cancel (c : nat) | Recv (c : nat) (from : src).

Definition upd {A} (f : nat -> A) (k : nat) (v : A) : nat -> A := fun x => if Nat.eqb x k then v else f x.
Definition mem (c : nat) (l : list nat) : bool := existsb (Nat.eqb c) l.

Section Model.
(* the value the callee of call c computes (the harness makes it 2c or 2c+1: own value / own error) *)
Variable val : nat -> nat.

Definition refuse (s : lane) (c : nat) (r : subres) : lane :=
  {| kd := kd s; cap := cap s; queue := queue s; closed := closed s; worker := worker s; exited := exited s; slot := slot s;
     cancelled := cancelled s; got := got s; seen := c :: seen s; outcome := upd (outcome s) c (Some r); accepted := accepted s;
     poplog := poplog s; finished := finished s; events := events s |}.
Definition enqueue (s : lane) (c : nat) : lane :=
  {| kd := kd s; cap := cap s; queue := queue s ++ [c]; closed := closed s; worker := worker s; exited := exited s; slot := slot s;
     cancelled := cancelled s; got := got s; seen := c :: seen s; outcome := upd (outcome s) c (Some SAcc); accepted := accepted s ++ [c];
     poplog := poplog s; finished := finished s; events := events s |}.
Definition take (s : lane) (c : nat) (q : list nat) : lane :=
  {| kd := kd s; cap := cap s; queue := q; closed := closed s; worker := Some c; exited := false; slot := slot s;
     cancelled := cancelled s; got := got s; seen := seen s; outcome := outcome s; accepted := accepted s;
     poplog := poplog s ++ [(c, true)]; finished := finished s; events := events s ++ [EStart c] |}.
Definition pass (s : lane) (c : nat) (q : list nat) : lane :=
  {| kd := kd s; cap := cap s; queue := q; closed := closed s; worker := None; exited := false; slot := upd (slot s) c (Some (CtxErr c));
     cancelled := cancelled s; got := got s; seen := seen s; outcome := outcome s; accepted := accepted s;
     poplog := poplog s ++ [(c, false)]; finished := finished s; events := events s |}.
Definition finish (s : lane) (c : nat) : lane :=
  {| kd := kd s; cap := cap s; queue := queue s; closed := closed s; worker := None; exited := exited s; slot := upd (slot s) c (Some (Val (val c)));
     cancelled := cancelled s; got := got s; seen := seen s; outcome := outcome s; accepted := accepted s;
     poplog := poplog s; finished := finished s ++ [c]; events := events s ++ [EEnd c] |}.
Definition close (s : lane) : lane :=
  {| kd := kd s; cap := cap s; queue := queue s; closed := true; worker := worker s; exited := exited s; slot := slot s;
     cancelled := cancelled s; got := got s; seen := seen s; outcome := outcome s; accepted := accepted s;
     poplog := poplog s; finished := finished s; events := events s |}.
Definition leave (s : lane) : lane :=
  {| kd := kd s; cap := cap s; queue := queue s; closed := true; worker := None; exited := true; slot := slot s;
     cancelled := cancelled s; got := got s; seen := seen s; outcome := outcome s; accepted := accepted s;
     poplog := poplog s; finished := finished s; events := events s |}.
Definition cancel (s : lane) (c : nat) : lane :=
  {| kd := kd s; cap := cap s; queue := queue s; closed := closed s; worker := worker s; exited := exited s; slot := slot s;
     cancelled := upd (cancelled s) c true; got := got s; seen := seen s; outcome := outcome s; accepted := accepted s;
     poplog := poplog s; finished := finished s; events := events s |}.
Definition deliver (s : lane) (c : nat) (a : answer) : lane :=
  {| kd := kd s; cap := cap s; queue := queue s; closed := closed s; worker := worker s; exited := exited s; slot := slot s;
     cancelled := cancelled s; got := upd (got s) c (Some a); seen := seen s; outcome := outcome s; accepted := accepted s;
     poplog := poplog s; finished := finished s; events := events s |}.

Definition full (s : lane) : bool := Nat.ltb 0 (cap s) && Nat.leb (cap s) (length (queue s)).

(* what the caller's select may take from the given ready case *)
Definition ready (s : lane) (c : nat) (f : src) : option answer :=
  match f with
  | FromSlot => slot s c
  | FromCtx => if cancelled s c then Some (CtxErr c) else None
  | FromStop => if is_proc (kd s) && closed s then Some StopErr else None
  end.

Definition step (s : lane) (l : label) : option lane :=
  match l with
  | Submit c =>
      if mem c (seen s) then None else
      if closed s then Some (refuse s c SClosed)          (* AddReq / Add: closed first; ProcChan: stopChan tested first *)
      else if full s then Some (refuse s c SFull)         (* a bounded queue (size > 0) / the channel is full *)
      else Some (enqueue s c)
  | Pop =>
      match worker s, exited s, queue s with
      | None, false, c :: q => if is_line (kd s) || negb (cancelled s c) then Some (take s c q) else None
      | _, _, _ => None
      end
  | Skip =>
      match worker s, exited s, queue s with
      | None, false, c :: q => if negb (is_line (kd s)) && cancelled s c then Some (pass s c q) else None
      | _, _, _ => None
      end
  | Done => match worker s with Some c => Some (finish s c) | None => None end
  | Stop => Some (close s)
  | Exit =>
      match worker s, closed s, exited s with
      | None, true, false => match queue s with [] => Some (leave s) | _ :: _ => if is_proc (kd s) then Some (leave s) else None end
      | _, _, _ => None
      end
  | Cancel c => Some (cancel s c)
  | Recv c f =>
      if mem c (accepted s) then
        match got s c with
        | Some _ => None
        | None => match ready s c f with Some a => Some (deliver s c a) | None => None end
        end
      else None
  end.

Definition run (s : lane) (ls : list label) : option lane :=
  fold_left (fun o l => match o with Some s => step s l | None => None end) ls (Some s).

(* ---------------- the invariant ---------------- *)
Fixpoint serial (ev : list event) (open : option nat) : Prop :=
  match ev with
  | [] => open = None
  | EStart c :: r => open = None /\ serial_from r c
  | EEnd _ :: _ => False
  end
with serial_from (ev : list event) (c : nat) : Prop :=
  match ev with
  | [] => True
  | EEnd c' :: r => c' = c /\ serial r None
  | EStart _ :: _ => False
  end.

Fixpoint pairs (l : list nat) : list event := match l with [] => [] | c :: r => EStart c :: EEnd c :: pairs r end.
Definition open_of (w : option nat) : list event := match w with Some c => [EStart c] | None => [] end.
Definition cur (w : option nat) : list nat := match w with Some c => [c] | None => [] end.

(* what an answer held in a slot or by a caller is justified by *)
Definition justified (s : lane) (c : nat) (a : answer) : Prop :=
  match a with
  | Val v => v = val c /\ In c (finished s)
  | CtxErr c' => c' = c /\ cancelled s c = true
  | StopErr => kd s = KProc /\ closed s = true
  | Weird _ => False
  end.

Definition Inv (s : lane) : Prop :=
  accepted s = map fst (poplog s) ++ queue s /\
  started s = finished s ++ cur (worker s) /\
  events s = pairs (finished s) ++ open_of (worker s) /\
  NoDup (accepted s) /\
  (forall c, In c (accepted s) -> In c (seen s)) /\
  (forall c a, slot s c = Some a -> a <> StopErr /\ justified s c a) /\
  (forall c a, got s c = Some a -> justified s c a /\ In c (accepted s)) /\
  (cap s = 0 \/ length (queue s) <= cap s) /\
  (exited s = true -> closed s = true /\ worker s = None /\ (kd s <> KProc -> queue s = [])) /\
  (forall c, outcome s c = Some SAcc <-> In c (accepted s)) /\
  (forall c, In (c, false) (poplog s) -> cancelled s c = true /\ kd s <> KLine).

Lemma mem_In c l : mem c l = true <-> In c l.
Proof. unfold mem. rewrite existsb_exists. split; [intros (x & Hx & E); apply Nat.eqb_eq in E; subst; exact Hx|intros H; exists c; split; [exact H|apply Nat.eqb_refl]]. Qed.
Lemma pairs_app a b : pairs (a ++ b) = pairs a ++ pairs b.
Proof. induction a as [|x a IH]; [reflexivity|]. cbn [pairs app]. rewrite IH. reflexivity. Qed.
Lemma upd_same {A} (f : nat -> A) k v : upd f k v k = v.
Proof. unfold upd. rewrite Nat.eqb_refl. reflexivity. Qed.
Lemma upd_cases {A} (f : nat -> A) k v x : (x = k /\ upd f k v x = v) \/ (x <> k /\ upd f k v x = f x).
Proof. unfold upd. destruct (Nat.eqb x k) eqn:E; [left; apply Nat.eqb_eq in E; auto|right; apply Nat.eqb_neq in E; auto]. Qed.

Lemma NoDup_app_snoc (l : list nat) c : NoDup l -> ~ In c l -> NoDup (l ++ [c]).
Proof.
  induction l as [|x l IH]; intros Hn Hc; cbn [app]; [constructor; [intros []|constructor]|].
  inversion Hn; subst. constructor.
  - intros Hin. apply in_app_or in Hin. destruct Hin as [Hin|[->|[]]]; [contradiction|apply Hc; left; reflexivity].
  - apply IH; [assumption|]. intros Hin. apply Hc. right. exact Hin.
Qed.
Lemma NoDup_app_l (a b : list nat) : NoDup (a ++ b) -> NoDup a.
Proof. induction a as [|x a IH]; cbn [app]; intros H; [constructor|]. inversion H; subst. constructor; [intros Hin; apply H2, in_or_app; left; exact Hin|apply IH; assumption]. Qed.

Lemma started_app s x : map fst (filter snd (poplog s ++ [x])) = started s ++ (if snd x then [fst x] else []).
Proof. unfold started. rewrite filter_app, map_app. cbn [filter]. destruct (snd x); reflexivity. Qed.

Lemma new_inv k n : Inv (new_lane k n).
Proof.
  unfold Inv, new_lane, started; cbn.
  split; [reflexivity|]. split; [reflexivity|]. split; [reflexivity|]. split; [constructor|].
  split; [intros c []|]. split; [intros c a H; discriminate|]. split; [intros c a H; discriminate|].
  split; [right; apply Nat.le_0_l|]. split; [intros H; discriminate|]. split; [intros c; split; [intros H; discriminate|intros []]|].
  intros c [].
Qed.

Ltac split11 := split; [|split; [|split; [|split; [|split; [|split; [|split; [|split; [|split; [|split]]]]]]]]].
Ltac fields := cbn [kd cap queue closed worker exited slot cancelled got seen outcome accepted poplog finished events].

Lemma justified_mono s s' c a :
  kd s' = kd s -> (forall x, In x (finished s) -> In x (finished s')) -> (forall x, cancelled s x = true -> cancelled s' x = true) ->
  (closed s = true -> closed s' = true) -> justified s c a -> justified s' c a.
Proof.
  intros Hk Hf Hc Hcl. destruct a as [v|c'| |w]; cbn [justified].
  - intros [A B]. split; [exact A|apply Hf, B].
  - intros [A B]. split; [exact A|apply Hc, B].
  - intros [A B]. split; [rewrite Hk; exact A|apply Hcl, B].
  - intros [].
Qed.

Ltac keep6 I6 := let c0 := fresh "c0" in let a0 := fresh "a0" in let Hs := fresh "Hs" in let A := fresh "A" in let B := fresh "B" in
  intros c0 a0 Hs; destruct (I6 c0 a0 Hs) as [A B]; split; [exact A|]; revert B; apply justified_mono; fields; auto using in_or_app.
Ltac keep7 I7 := let c0 := fresh "c0" in let a0 := fresh "a0" in let Hs := fresh "Hs" in let A := fresh "A" in let B := fresh "B" in
  intros c0 a0 Hs; destruct (I7 c0 a0 Hs) as [A B]; split; [|auto using in_or_app]; revert A; apply justified_mono; fields; auto using in_or_app.

Theorem inv_step s l s' : Inv s -> step s l = Some s' -> Inv s'.
Proof.
  intros (I1 & I2 & I3 & I4 & I5 & I6 & I7 & I8 & I9 & I10 & I11) H.
  destruct l as [c| | | | | |c|c fs]; cbn [step] in H.
  - (* Submit *)
    destruct (mem c (seen s)) eqn:Em; [discriminate|].
    assert (Hfresh : ~ In c (accepted s)) by (intros Hin; apply I5, mem_In in Hin; congruence).
    assert (Href : forall r, r <> SAcc -> Inv (refuse s c r)).
    { intros r Hr. unfold Inv, started, refuse; fields. split11; try assumption; try solve [keep6 I6]; try solve [keep7 I7].
      - intros c0 Hc0. right. apply I5, Hc0.
      - intros c0. destruct (upd_cases (outcome s) c (Some r) c0) as [[-> E]|[Hne E]]; rewrite E.
        + split; [intros X; inversion X; congruence|intros X; contradiction].
        + apply I10. }
    destruct (closed s) eqn:Ec; [inversion H; subst s'; apply Href; discriminate|].
    destruct (full s) eqn:Ef; [inversion H; subst s'; apply Href; discriminate|].
    inversion H; subst s'; clear H Href. unfold Inv, started, enqueue; fields. split11; try assumption; try solve [keep6 I6]; try solve [keep7 I7].
    + rewrite I1, app_assoc. reflexivity.
    + apply NoDup_app_snoc; assumption.
    + intros c0 Hc0. apply in_app_or in Hc0. destruct Hc0 as [Hc0|[->|[]]]; [right; apply I5, Hc0|left; reflexivity].
    + rewrite app_length. cbn [length]. unfold full in Ef.
      apply andb_false_iff in Ef. destruct Ef as [Ef|Ef]; [apply Nat.ltb_ge in Ef; left; lia|apply Nat.leb_gt in Ef; right; lia].
    + intros E. destruct (I9 E) as (A & _). congruence.
    + intros c0. destruct (upd_cases (outcome s) c (Some SAcc) c0) as [[-> E]|[Hne E]]; rewrite E.
      * split; [intros _; apply in_or_app; right; left; reflexivity|reflexivity].
      * rewrite I10. split; [intros X; apply in_or_app; left; exact X|].
        intros X. apply in_app_or in X. destruct X as [X|[X|[]]]; [exact X|congruence].
  - (* Pop *)
    destruct (worker s) eqn:Ew; [discriminate|]. destruct (exited s) eqn:Ee; [discriminate|]. destruct (queue s) as [|c q] eqn:Eq; [discriminate|].
    destruct (is_line (kd s) || negb (cancelled s c)); [|discriminate].
    inversion H; subst s'; clear H. unfold Inv, take. fields. unfold started. fields. rewrite started_app. cbn [snd fst cur open_of] in *.
    rewrite ?app_nil_r in *. split11; try assumption; try solve [keep6 I6]; try solve [keep7 I7].
    + rewrite I1, map_app, <- app_assoc. reflexivity.
    + rewrite I2. reflexivity.
    + rewrite I3. reflexivity.
    + cbn [length] in I8. destruct I8 as [I8|I8]; [left; exact I8|right; lia].
    + discriminate.
    + intros c0 Hin. apply in_app_or in Hin. destruct Hin as [Hin|[Hin|[]]]; [apply I11, Hin|discriminate].
  - (* Skip *)
    destruct (worker s) eqn:Ew; [discriminate|]. destruct (exited s) eqn:Ee; [discriminate|]. destruct (queue s) as [|c q] eqn:Eq; [discriminate|].
    destruct (negb (is_line (kd s)) && cancelled s c) eqn:Eg; [|discriminate].
    apply andb_prop in Eg. destruct Eg as [Ek Ecn].
    inversion H; subst s'; clear H. unfold Inv, pass. fields. unfold started. fields. rewrite started_app. cbn [snd fst cur open_of] in *.
    rewrite ?app_nil_r in *. split11; try assumption; try solve [keep7 I7].
    + rewrite I1, map_app, <- app_assoc. reflexivity.
    + intros c0 a Hs. destruct (upd_cases (slot s) c (Some (CtxErr c)) c0) as [[-> E]|[Hne E]]; rewrite E in Hs.
      * inversion Hs. split; [discriminate|]. cbn [justified]. fields. auto.
      * revert c0 a Hs Hne E. intros c0 a Hs _ _. revert c0 a Hs. keep6 I6.
    + cbn [length] in I8. destruct I8 as [I8|I8]; [left; exact I8|right; lia].
    + discriminate.
    + intros c0 Hin. apply in_app_or in Hin. destruct Hin as [Hin|[Hin|[]]]; [apply I11, Hin|].
      inversion Hin; subst c0. split; [exact Ecn|]. intros Hk. rewrite Hk in Ek. discriminate.
  - (* Done *)
    destruct (worker s) as [c|] eqn:Ew; [|discriminate]. inversion H; subst s'; clear H. unfold Inv, finish, started in *. fields. cbn [cur open_of] in *.
    split11; try assumption; try solve [keep7 I7].
    + rewrite app_nil_r. exact I2.
    + rewrite pairs_app, app_nil_r, I3, <- app_assoc. reflexivity.
    + intros c0 a Hs. destruct (upd_cases (slot s) c (Some (Val (val c))) c0) as [[-> E]|[Hne E]]; rewrite E in Hs.
      * inversion Hs. split; [discriminate|]. cbn [justified]. fields. split; [reflexivity|apply in_or_app; right; left; reflexivity].
      * revert c0 a Hs Hne E. intros c0 a Hs _ _. revert c0 a Hs. keep6 I6.
    + intros E. destruct (I9 E) as (_ & A & _). congruence.
  - (* Stop *)
    inversion H; subst s'; clear H. unfold Inv, close, started in *. fields. split11; try assumption; try solve [keep6 I6]; try solve [keep7 I7].
    intros E. destruct (I9 E) as (A & B & C). auto.
  - (* Exit *)
    destruct (worker s) eqn:Ew; [discriminate|]. destruct (closed s) eqn:Ec; [|discriminate]. destruct (exited s) eqn:Ee; [discriminate|].
    assert (Hq : s' = leave s /\ (kd s <> KProc -> queue s = [])).
    { destruct (queue s) as [|x q]; [inversion H; auto|]. destruct (kd s); cbn [is_proc] in H; try discriminate. inversion H. split; [reflexivity|]. intros X. congruence. }
    destruct Hq as [-> Hq]. clear H. unfold Inv, leave, started in *. fields. split11; try assumption; try solve [keep6 I6]; try solve [keep7 I7].
    intros _. auto.
  - (* Cancel *)
    inversion H; subst s'; clear H. unfold Inv, cancel, started in *. fields.
    assert (Hmono : forall x, cancelled s x = true -> upd (cancelled s) c true x = true).
    { intros x Hx. destruct (upd_cases (cancelled s) c true x) as [[-> E]|[Hne E]]; rewrite E; [reflexivity|exact Hx]. }
    split11; try assumption; try solve [keep6 I6]; try solve [keep7 I7].
    intros c0 Hin. destruct (I11 c0 Hin) as [A B]. split; [apply Hmono, A|exact B].
  - (* Recv *)
    destruct (mem c (accepted s)) eqn:Em; [|discriminate]. apply mem_In in Em. destruct (got s c) eqn:Eg; [discriminate|].
    destruct (ready s c fs) as [a|] eqn:Er; [|discriminate]. inversion H; subst s'; clear H.
    assert (Ja : justified s c a).
    { destruct fs; cbn [ready] in Er.
      - apply (I6 c a Er).
      - destruct (cancelled s c) eqn:Ecn; [|discriminate]. inversion Er. cbn [justified]. auto.
      - destruct (is_proc (kd s) && closed s) eqn:Ep; [|discriminate]. inversion Er. apply andb_prop in Ep. destruct Ep as [A B].
        cbn [justified]. split; [destruct (kd s); cbn in A; try discriminate; reflexivity|exact B]. }
    unfold Inv, deliver, started in *. fields. split11; try assumption; try solve [keep6 I6].
    intros c0 a0 Hg. destruct (upd_cases (got s) c (Some a) c0) as [[-> E]|[Hne E]]; rewrite E in Hg.
    + inversion Hg; subst a0. split; [|exact Em]. revert Ja. apply justified_mono; fields; auto.
    + revert c0 a0 Hg Hne E. intros c0 a0 Hg _ _. revert c0 a0 Hg. keep7 I7.
Qed.

Lemma fold_none ls : fold_left (fun o l => match o with Some s => step s l | None => None end) ls None = None.
Proof. induction ls as [|l ls IH]; [reflexivity|exact IH]. Qed.

Theorem run_inv ls : forall s s', Inv s -> run s ls = Some s' -> Inv s'.
Proof.
  unfold run. induction ls as [|l ls IH]; intros s s' HI H; cbn [fold_left] in H.
  - inversion H; subst. exact HI.
  - destruct (step s l) as [s1|] eqn:E.
    + apply (IH s1 s' (inv_step s l s1 HI E) H).
    + rewrite fold_none in H. discriminate.
Qed.

Lemma step_kd s l s' : step s l = Some s' -> kd s' = kd s /\ cap s' = cap s.
Proof.
  destruct l as [c| | | | | |c|c fs]; cbn [step]; intros H.
  - destruct (mem c (seen s)); [discriminate|]. destruct (closed s); [inversion H; auto|]. destruct (full s); inversion H; auto.
  - destruct (worker s); [discriminate|]. destruct (exited s); [discriminate|]. destruct (queue s); [discriminate|].
    destruct (is_line (kd s) || negb (cancelled s n)); inversion H; auto.
  - destruct (worker s); [discriminate|]. destruct (exited s); [discriminate|]. destruct (queue s); [discriminate|].
    destruct (negb (is_line (kd s)) && cancelled s n); inversion H; auto.
  - destruct (worker s); inversion H; auto.
  - inversion H; auto.
  - destruct (worker s); [discriminate|]. destruct (closed s); [|discriminate]. destruct (exited s); [discriminate|].
    destruct (queue s); [inversion H; auto|]. destruct (is_proc (kd s)); inversion H; auto.
  - inversion H; auto.
  - destruct (mem c (accepted s)); [|discriminate]. destruct (got s c); [discriminate|]. destruct (ready s c fs); inversion H; auto.
Qed.

Lemma run_kd ls : forall s s', run s ls = Some s' -> kd s' = kd s /\ cap s' = cap s.
Proof.
  unfold run. induction ls as [|l ls IH]; intros s s' H; cbn [fold_left] in H.
  - inversion H; auto.
  - destruct (step s l) as [s1|] eqn:E; [|rewrite fold_none in H; discriminate].
    destruct (IH s1 s' H) as [A B]. destruct (step_kd s l s1 E) as [C D]. split; congruence.
Qed.

(* ---------------- the clauses of C14, for every reachable state of a lane of any kind and any queue size ---------------- *)
Section Clauses.
Variables (k : kind) (n : nat) (ls : list label) (s : lane).
Hypothesis reach : run (new_lane k n) ls = Some s.
Let HI : Inv s := run_inv ls (new_lane k n) s (new_inv k n) reach.

Lemma reach_kd : kd s = k /\ cap s = n.
Proof. apply (run_kd ls (new_lane k n) s reach). Qed.

(* calls never overlap: the callee's record is Start c, End c, Start c', End c', ... *)
Lemma pairs_serial l w : serial (pairs l ++ open_of w) None.
Proof. induction l as [|c l IH]; [destruct w; cbn; auto|]. cbn [pairs app serial serial_from]. auto. Qed.
Theorem lane_serial : serial (events s) None.
Proof. destruct HI as (_ & _ & E & _). rewrite E. apply pairs_serial. Qed.

(* the worker takes calls in the order they were accepted; the calls it starts are those it took, in that order, minus the
   ones it skipped; a skipped call had a done context and the lane is not a Line lane *)
Theorem lane_fifo :
  accepted s = map fst (poplog s) ++ queue s /\ started s = map fst (filter snd (poplog s)) /\
  (forall c, In (c, false) (poplog s) -> cancelled s c = true /\ k <> KLine).
Proof.
  destruct HI as (E & _ & _ & _ & _ & _ & _ & _ & _ & _ & I11). split; [exact E|]. split; [reflexivity|].
  intros c Hc. destruct (I11 c Hc) as [A B]. split; [exact A|]. destruct reach_kd as [Ek _]. rewrite <- Ek. exact B.
Qed.

Lemma filter_all_true (l : list (nat * bool)) : (forall x, In x l -> snd x = true) -> filter snd l = l.
Proof. induction l as [|x l IH]; intros H; [reflexivity|]. cbn [filter]. rewrite (H x (or_introl eq_refl)). f_equal. apply IH. intros y Hy. apply H. right. exact Hy. Qed.

(* Line / MultiLine lanes skip nothing: start order is acceptance order *)
Theorem line_fifo_start : k = KLine -> accepted s = started s ++ queue s.
Proof.
  intros Hk. destruct lane_fifo as (E & _ & Hs). rewrite E. unfold started. rewrite filter_all_true; [reflexivity|].
  intros [c b] Hin. destruct b; [reflexivity|]. destruct (Hs c Hin) as [_ X]. contradiction.
Qed.

Lemma NoDup_map_filter (p : nat * bool -> bool) (l : list (nat * bool)) : NoDup (map fst l) -> NoDup (map fst (filter p l)).
Proof.
  induction l as [|x l IH]; intros H; [constructor|]. cbn [map] in H. inversion H; subst. cbn [filter]. destruct (p x).
  - cbn [map]. constructor; [|apply IH; assumption]. intros Hin. apply H2. apply in_map_iff in Hin. destruct Hin as (y & Ey & Hy).
    apply filter_In in Hy. destruct Hy as [Hy _]. apply in_map_iff. exists y. auto.
  - apply IH; assumption.
Qed.

(* no call runs twice *)
Theorem call_at_most_once : NoDup (started s).
Proof.
  destruct HI as (E & _ & _ & Hnd & _). rewrite E in Hnd. apply NoDup_app_l in Hnd. unfold started. apply NoDup_map_filter. exact Hnd.
Qed.

(* only accepted calls run *)
Theorem started_accepted c : In c (started s) -> In c (accepted s).
Proof.
  destruct HI as (E & _). intros Hin. rewrite E. apply in_or_app. left. unfold started in Hin. apply in_map_iff in Hin.
  destruct Hin as (y & Ey & Hy). apply filter_In in Hy. destruct Hy as [Hy _]. apply in_map_iff. exists y. auto.
Qed.

(* a caller receives the result of its own completed call, or its own context's error (or, ProcChan only, ErrClosed after Stop) *)
Theorem result_routed c a : got s c = Some a ->
  In c (accepted s) /\
  match a with
  | Val v => v = val c /\ In c (finished s)
  | CtxErr c' => c' = c /\ cancelled s c = true
  | StopErr => k = KProc /\ closed s = true
  | Weird _ => False
  end.
Proof.
  destruct HI as (_ & _ & _ & _ & _ & _ & I7 & _). intros Hg. destruct (I7 c a Hg) as [A B]. split; [exact B|].
  destruct a; cbn [justified] in A; try exact A. destruct reach_kd as [Ek _]. rewrite <- Ek. exact A.
Qed.

(* after Stop nothing is accepted: every executor, ProcChan included (stopChan is tested before the send) *)
Theorem stop_refuses c s' : closed s = true -> step s (Submit c) = Some s' ->
  accepted s' = accepted s /\ queue s' = queue s /\ outcome s' c = Some SClosed.
Proof.
  intros Hc H. cbn [step] in H. destruct (mem c (seen s)); [discriminate|]. rewrite Hc in H. inversion H; subst. unfold refuse; fields.
  split; [reflexivity|]. split; [reflexivity|]. apply upd_same.
Qed.

(* a call is accepted exactly when its caller was told so *)
Theorem outcome_accepted c : outcome s c = Some SAcc <-> In c (accepted s).
Proof. destruct HI as (_ & _ & _ & _ & _ & _ & _ & _ & _ & I10 & _). apply I10. Qed.

(* the queue never exceeds its size *)
Theorem queue_bounded : n = 0 \/ length (queue s) <= n.
Proof. destruct reach_kd as [_ Ec]. rewrite <- Ec. apply HI. Qed.

(* a runner does not execute a call whose context is done when the worker takes it *)
Theorem runner_checks_ctx s' c : k <> KLine -> step s Pop = Some s' -> worker s' = Some c -> cancelled s c = false.
Proof.
  intros Hk H Hw. destruct reach_kd as [Ek _]. cbn [step] in H. destruct (worker s); [discriminate|]. destruct (exited s); [discriminate|].
  destruct (queue s) as [|c0 q]; [discriminate|]. destruct (is_line (kd s) || negb (cancelled s c0)) eqn:Eg; [|discriminate].
  inversion H; subst s'. unfold take in Hw; cbn [worker] in Hw. inversion Hw; subst c0.
  apply orb_prop in Eg. destruct Eg as [Eg|Eg]; [rewrite Ek in Eg; destruct k; cbn in Eg; try discriminate; contradiction|].
  apply negb_true_iff in Eg. exact Eg.
Qed.

(* Line / MultiLine / RunnerQ: after Stop, when the lane can do nothing more, the goroutine has exited, nothing is queued,
   every accepted call was taken by the worker, and every call it started has completed *)
Theorem stop_drains : k <> KProc -> closed s = true ->
  step s Pop = None -> step s Skip = None -> step s Done = None -> step s Exit = None ->
  exited s = true /\ queue s = [] /\ accepted s = map fst (poplog s) /\ started s = finished s.
Proof.
  intros Hk Hc HP HS HD HE. destruct reach_kd as [Ek _]. destruct HI as (I1 & I2 & _ & _ & _ & _ & _ & _ & I9 & _).
  cbn [step] in HP, HS, HD, HE. destruct (worker s) as [c|] eqn:Ew; [discriminate|]. cbn [cur] in I2. rewrite app_nil_r in I2.
  destruct (exited s) eqn:Ee.
  - destruct (I9 eq_refl) as (_ & _ & Eq). rewrite Ek in Eq. specialize (Eq Hk). rewrite I1, Eq, app_nil_r. auto.
  - rewrite Hc in HE. destruct (queue s) as [|c q] eqn:Eq; [discriminate|].
    exfalso. destruct (is_line (kd s)) eqn:El; cbn [orb negb andb] in HP, HS; [discriminate|].
    destruct (cancelled s c); cbn [negb] in HP, HS; discriminate.
Qed.

(* for Line / MultiLine that is: every accepted call has completed *)
Theorem line_stop_drains : k = KLine -> closed s = true ->
  step s Pop = None -> step s Skip = None -> step s Done = None -> step s Exit = None ->
  exited s = true /\ finished s = accepted s.
Proof.
  intros Hk Hc HP HS HD HE. assert (Hk' : k <> KProc) by (rewrite Hk; discriminate).
  destruct (stop_drains Hk' Hc HP HS HD HE) as (A & B & C & D). split; [exact A|].
  rewrite (line_fifo_start Hk), B, app_nil_r. symmetry. exact D.
Qed.

(* ProcChan: after Stop, when the lane can do nothing more, its goroutine has exited (calls may be left in the channel) *)
Theorem proc_stop_terminates : k = KProc -> closed s = true ->
  step s Pop = None -> step s Skip = None -> step s Done = None -> step s Exit = None -> exited s = true.
Proof.
  intros Hk Hc HP HS HD HE. destruct reach_kd as [Ek _]. cbn [step] in HP, HS, HD, HE.
  destruct (worker s) as [c|] eqn:Ew; [discriminate|]. destruct (exited s) eqn:Ee; [reflexivity|]. rewrite Hc in HE.
  rewrite Ek, Hk in HE. cbn [is_proc] in HE. destruct (queue s); discriminate.
Qed.
End Clauses.

(* the lane's own steps terminate: each of them decreases this measure *)
Definition measure (s : lane) : nat := 2 * length (queue s) + (match worker s with Some _ => 1 | None => 0 end) + (if exited s then 0 else 1).
Theorem internal_steps_terminate s l s' : (l = Pop \/ l = Skip \/ l = Done \/ l = Exit) -> step s l = Some s' -> measure s' < measure s.
Proof.
  intros [->|[->|[->| ->]]] H; cbn [step] in H; unfold measure.
  - destruct (worker s); [discriminate|]. destruct (exited s); [discriminate|]. destruct (queue s) as [|c q]; [discriminate|].
    destruct (is_line (kd s) || negb (cancelled s c)); [|discriminate]. inversion H; subst; cbn. lia.
  - destruct (worker s); [discriminate|]. destruct (exited s); [discriminate|]. destruct (queue s) as [|c q]; [discriminate|].
    destruct (negb (is_line (kd s)) && cancelled s c); [|discriminate]. inversion H; subst; cbn. lia.
  - destruct (worker s); [|discriminate]. inversion H; subst; cbn. lia.
  - destruct (worker s); [discriminate|]. destruct (closed s); [|discriminate]. destruct (exited s); [discriminate|].
    destruct (queue s) as [|x q] eqn:Eq; [inversion H; subst; cbn; rewrite Eq; cbn; lia|]. destruct (is_proc (kd s)); [|discriminate].
    inversion H; subst; cbn. rewrite Eq. cbn [length]. lia.
Qed.

(* hence a lane cannot go on for ever on its own: any sequence of its own steps is no longer than the measure it starts from *)
Definition internal (l : label) : bool := match l with Pop => true | Skip => true | Done => true | Exit => true | _ => false end.
Theorem internal_run_bounded ls : forall s s', forallb internal ls = true -> run s ls = Some s' -> length ls + measure s' <= measure s.
Proof.
  induction ls as [|l ls IH]; intros s s' Hall H; unfold run in H; cbn [fold_left] in H.
  - inversion H. cbn [length]. lia.
  - cbn [forallb] in Hall. apply andb_prop in Hall. destruct Hall as [Hl Hall].
    destruct (step s l) as [s1|] eqn:E; [|rewrite fold_none in H; discriminate].
    assert (Hi : l = Pop \/ l = Skip \/ l = Done \/ l = Exit) by (destruct l; cbn in Hl; try discriminate; auto).
    pose proof (internal_steps_terminate s l s1 Hi E) as Hm. pose proof (IH s1 s' Hall H) as Hr. cbn [length]. lia.
Qed.

(* ---------------- ProcChan before the repair: select over {send, stopChan, default} ---------------- *)
(* with stopChan closed and room in the channel the runtime may choose the send: the call is accepted after Stop *)
Definition step_prefix (s : lane) (l : label) : option lane :=
  match l with
  | Submit c => if negb (mem c (seen s)) && is_proc (kd s) && closed s && negb (full s) then Some (enqueue s c) else step s l
  | _ => step s l
  end.
Definition run_prefix (s : lane) (ls : list label) : option lane :=
  fold_left (fun o l => match o with Some s => step_prefix s l | None => None end) ls (Some s).
End Model.

(* non-vacuity *)
Definition v2 (c : nat) : nat := 2 * c.

(* Line, queue size 2: a refused call (queue full), a cancelled caller whose call still runs, Stop with a call queued *)
Example demo_line : exists s, run v2 (new_lane KLine 2)
  [Submit 1; Submit 2; Pop; Submit 3; Submit 4; Cancel 2; Done; Recv 1 FromSlot; Stop; Submit 5; Pop; Recv 2 FromCtx; Done; Pop; Done; Recv 3 FromSlot; Exit] = Some s
  /\ accepted s = [1; 2; 3] /\ finished s = [1; 2; 3] /\ got s 1 = Some (Val 2) /\ got s 2 = Some (CtxErr 2) /\ got s 3 = Some (Val 6)
  /\ outcome s 4 = Some SFull /\ outcome s 5 = Some SClosed /\ exited s = true
  /\ events s = [EStart 1; EEnd 1; EStart 2; EEnd 2; EStart 3; EEnd 3].
Proof. eexists. split; [vm_compute; reflexivity|]. vm_compute. repeat split. Qed.

(* RunnerQ: call 2 is cancelled while queued and is skipped, its caller may take either ready case *)
Example demo_runner : exists s, run v2 (new_lane KRunner 0)
  [Submit 1; Pop; Submit 2; Submit 3; Cancel 2; Done; Skip; Recv 2 FromSlot; Pop; Stop; Done; Exit; Recv 3 FromSlot; Recv 1 FromSlot] = Some s
  /\ started s = [1; 3] /\ skipped s = [2] /\ got s 2 = Some (CtxErr 2) /\ got s 3 = Some (Val 6) /\ exited s = true.
Proof. eexists. split; [vm_compute; reflexivity|]. vm_compute. repeat split. Qed.
Example runner_never_runs_cancelled : run v2 (new_lane KRunner 0) [Submit 1; Cancel 1; Pop] = None.
Proof. vm_compute. reflexivity. Qed.

(* ProcChan: Stop with a backlog; the worker may leave at once, the waiting caller gets ErrClosed *)
Example demo_proc : exists s, run v2 (new_lane KProc 4)
  [Submit 1; Pop; Submit 2; Stop; Submit 3; Recv 2 FromStop; Done; Exit; Recv 1 FromSlot] = Some s
  /\ accepted s = [1; 2] /\ finished s = [1] /\ queue s = [2] /\ got s 2 = Some StopErr /\ got s 1 = Some (Val 2)
  /\ outcome s 3 = Some SClosed /\ exited s = true.
Proof. eexists. split; [vm_compute; reflexivity|]. vm_compute. repeat split. Qed.

(* the pinned ProcChan: a call submitted after Stop is accepted and executed *)
Example procchan_accept_after_stop_refuted : exists s, run_prefix v2 (new_lane KProc 4) [Submit 1; Pop; Stop; Submit 2; Done; Pop; Done] = Some s
  /\ closed s = true /\ accepted s = [1; 2] /\ finished s = [1; 2].
Proof. eexists. split; [vm_compute; reflexivity|]. vm_compute. repeat split. Qed.
(* the repaired one refuses it *)
Example procchan_refuses_after_stop : exists s, run v2 (new_lane KProc 4) [Submit 1; Pop; Stop; Submit 2; Done] = Some s
  /\ accepted s = [1] /\ outcome s 2 = Some SClosed /\ step v2 s Pop = None.
Proof. eexists. split; [vm_compute; reflexivity|]. vm_compute. repeat split. Qed.

Print Assumptions lane_serial.
Print Assumptions stop_drains.
Print Assumptions result_routed.
