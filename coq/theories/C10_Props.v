(* C10 bytex: typed stream codec round-trips; stream and buffer readers agree.
   The property, clause by clause, for every write sequence, every value, every byte string, every truncation point,
   every limit and every chunking of the source.  This file contains statements closed by `exact` only.

   Model (C10_Model.v): bstep / brun = BufferX method by method over the unread bytes; rstep / rrun = ReaderX over a
   source = (chunks still to deliver, "last data arrives with io.EOF"); enc_op = the bytes a typed write appends. *)
From Coq Require Import List Bool ZArith.
Require Import LE Varint C10_Model C10_Monitor C10_Codec C10_Proofs C10_Stream C10_Large C10_Reuse C10_Check.
Import ListNotations.
Open Scope Z_scope.

(* whatever the driver accepts satisfies the monitors of the property *)
Theorem c10_case_sound : forall c, case_accept c = true -> case_holds c = true.
Proof. exact case_sound. Qed.

(* ---- clause 1: any sequence of typed writes followed by the same sequence of typed reads returns the written values
        and leaves the buffer empty (is_write: bool, u8, 16/32/64-bit signed and unsigned, the four varints, float64 as
        its bit pattern - every NaN payload -, strings, limited strings, raw bytes; wok: the value fits its Go type, a
        string fits its limit and a 32-bit length: the empty string included) ---- *)
Theorem c10_codec_roundtrip : forall ws, forallb is_write ws = true -> forallb wok ws = true ->
  brun [] (ws ++ map reader_of ws) = (map (fun _ => ODone) ws ++ map val_of ws, []).
Proof. exact codec_roundtrip. Qed.

(* ... and in front of any continuation the reads consume exactly what the writes produced *)
Theorem c10_reads_leave_continuation : forall ws rest, forallb is_write ws = true -> forallb wok ws = true ->
  brun (enc_all ws ++ rest) (map reader_of ws) = (map val_of ws, rest).
Proof. exact reads_run. Qed.

Theorem c10_writes_append : forall ws bs, forallb is_write ws = true -> forallb wok ws = true ->
  brun bs ws = (map (fun _ => ODone) ws, bs ++ enc_all ws).
Proof. exact writes_run. Qed.

(* a write that reports an error has not touched the buffer: a refused write is the identity on Len / Bytes *)
Theorem c10_failed_write_identity : forall bs w, is_write w = true -> is_err (fst (bstep bs w)) = true ->
  snd (bstep bs w) = bs.
Proof. exact failed_write_identity. Qed.
(* ... so the accepted writes of a sequence in which some limited strings are refused still read back, value for
   value, and leave the buffer empty (valid = fits its Go type, or is a limited string over its limit) *)
Theorem c10_roundtrip_with_refused : forall ws, forallb is_write ws = true -> forallb valid ws = true ->
  brun [] (ws ++ map reader_of (filter accepted ws)) = (map wout ws ++ map val_of (filter accepted ws), []).
Proof. exact roundtrip_with_refused. Qed.

(* re-use of one buffer: Reset is the empty buffer, so what follows a Reset does not depend on anything before it ... *)
Theorem c10_reset_independent : forall a b bs,
  brun bs (a ++ XReset :: b) = (fst (brun bs a) ++ ODone :: fst (brun [] b), snd (brun [] b)).
Proof. exact reset_independent. Qed.
(* ... and a history of messages separated by Reset is the concatenation of independent per-message runs on a fresh buffer *)
Theorem c10_messages_independent : forall msgs bs,
  fst (brun bs (flat_map (fun m => XReset :: m) msgs)) = flat_map (fun m => ODone :: fst (brun [] m)) msgs.
Proof. exact messages_independent. Qed.
(* on every history of one buffer the FIFO monitor holds: empty after Reset, known lengths stay true, refused writes and
   rewrites keep the length, every matching read returns the oldest value written and not yet read *)
Theorem c10_reuse_monitor : forall ops, reuse_ok ops (map dig (fst (brun [] ops))) = true.
Proof. exact reuse_sound. Qed.

(* one codec at a time *)
Theorem c10_read_write : forall w rest, is_write w = true -> wok w = true ->
  bstep (enc_op w ++ rest) (reader_of w) = (val_of w, rest).
Proof. exact read_write. Qed.

(* encoding/binary's uvarint with the ten-byte rule, and the zig-zag map of the signed varints *)
Theorem c10_uvarint_roundtrip : forall x rest, 0 <= x < 2 ^ 64 -> uvar (put_uvarint 10 x ++ rest) = VOk x rest.
Proof. exact uvar_put. Qed.
Theorem c10_zigzag_roundtrip : forall x, - 2 ^ 63 <= x < 2 ^ 63 -> unzigzag (zigzag x) = x.
Proof. exact unzigzag_zigzag. Qed.
(* the signed reinterpretation intN(uintN(v)) = v *)
Theorem c10_signed_reinterpretation : forall w x, 0 < w -> - 2 ^ (w - 1) <= x < 2 ^ (w - 1) -> swrap w (uwrap w x) = x.
Proof. exact swrap_uwrap. Qed.

(* size limits: a string over the limit is refused by the writer (nothing is written) and by the reader *)
Theorem c10_limit_write_refused : forall bs limit s, limit < uwrap 32 (zlen s) ->
  bstep bs (WLimStr limit s) = (OErr ESizeLimit, bs).
Proof. exact limit_write_refused. Qed.
Theorem c10_limit_read_refused : forall limit n rest, 0 <= n < 2 ^ 32 -> limit < n ->
  bstep (le_bytes 4 n ++ rest) (RLimStr limit) = (OErr ESizeLimit, rest).
Proof. exact limit_read_refused. Qed.

(* ---- clause 2: an in-place rewrite changes exactly the addressed bytes of the unread region; a position outside
        0..len panics and changes nothing ---- *)
Theorem c10_rewrite_exact : forall bs pos p,
  (0 <= pos <= zlen bs ->
     exists bs', bstep bs (XReWrite pos p) = (ODone, bs') /\ length bs' = length bs /\
       forall i, (i < length bs)%nat ->
         nth i bs' 0 = if (pos <=? Z.of_nat i) && (Z.of_nat i <? pos + zlen p) then nth (Z.to_nat (Z.of_nat i - pos)) p 0 else nth i bs 0)
  /\ (pos < 0 \/ zlen bs < pos -> bstep bs (XReWrite pos p) = (OPanic, bs)).
Proof. exact rewrite_exact. Qed.
(* the argument may be a slice of the buffer's own unread bytes (moving a body in place to make room for a header): the
   addressed bytes become the values that slice had at the call, whether or not source and destination overlap *)
Theorem c10_rewrite_from_self : forall bs pos from m,
  0 <= pos <= zlen bs -> (from + m <= length bs)%nat ->
  exists bs', bstep bs (XReWrite pos (firstn m (skipn from bs))) = (ODone, bs') /\ length bs' = length bs /\
    forall i, (i < length bs)%nat ->
      nth i bs' 0 = if (pos <=? Z.of_nat i) && (Z.of_nat i <? pos + Z.of_nat m)
                    then nth (from + Z.to_nat (Z.of_nat i - pos)) bs 0 else nth i bs 0.
Proof. exact rewrite_from_self. Qed.
Theorem c10_rewrite_u32 : forall bs pos v, 0 <= v < 2 ^ 32 ->
  bstep bs (XReWriteU32 pos v) = bstep bs (XReWrite pos [v mod 256; (v / 256) mod 256; (v / 65536) mod 256; (v / 16777216) mod 256]).
Proof. exact rewrite_u32_is_rewrite. Qed.

(* ---- clause 3: arbitrary bytes: a read never panics, reports a value of its type or an error, and consumes a
        prefix of its input ---- *)
Theorem c10_decode_total : forall bs o, is_read o = true ->
  fst (bstep bs o) <> OPanic /\ shape_ok o (fst (bstep bs o)) = true /\ exists pre, bs = pre ++ snd (bstep bs o).
Proof. exact decode_total. Qed.
(* on every history of writes, reads, rewrites and queries every outcome has the shape the monitor demands *)
Theorem c10_history_shapes : forall ops init, hist_ok init ops (fst (brun init ops)) = true.
Proof. exact hist_sound. Qed.

(* truncation inside one encoding, at every byte: an error, and nothing is left *)
Theorem c10_proper_prefix_is_error : forall w k, is_write w = true -> wok w = true -> (k < length (enc_op w))%nat ->
  exists e, bstep (firstn k (enc_op w)) (reader_of w) = (OErr e, []).
Proof. exact proper_prefix. Qed.
(* truncation of a whole stream at every point: each read returns the written value or an error (never another
   value), nothing is left unread, a real truncation is reported by an error, a complete stream reads back *)
Theorem c10_truncated_stream : forall ws, forallb is_write ws = true -> forallb wok ws = true -> forall cut,
  exists obs, brun (firstn cut (enc_all ws)) (map reader_of ws) = (obs, [])
    /\ val_or_err ws obs = true
    /\ ((cut < length (enc_all ws))%nat -> existsb is_err obs = true)
    /\ ((length (enc_all ws) <= cut)%nat -> obs = map val_of ws).
Proof. exact trunc_run. Qed.

(* ---- clause 4: however the io.Reader fragments the bytes (chunks of any sizes, empty reads, EOF together with the
        last data or after it), ReaderX.Read returns what BufferX.Read returns on the concatenation - same data or the
        same error, same bytes left ---- *)
Theorem c10_read_agrees : forall s n,
  match rx_read s n, buf_read (src_bytes s) n with
  | RdOk d s', RdOk d' r' => d = d' /\ src_bytes s' = r'
  | RdErr e s', RdErr e' r' => e = e' /\ src_bytes s' = r'
  | _, _ => False
  end.
Proof. exact rx_read_buf. Qed.
(* ... and every read program decodes the same: equal values, an error exactly where the buffer reader reports one
   (sims; no panic), the same bytes left over *)
Theorem c10_readerx_agrees : forall ops s, forallb stream_op ops = true -> bytes_ok (src_bytes s) ->
  sims (fst (rrun s ops)) (fst (brun (src_bytes s) ops)) = true
  /\ src_bytes (snd (rrun s ops)) = snd (brun (src_bytes s) ops).
Proof. exact run_agree. Qed.

(* clause 1 through the stream reader: typed writes, delivered in any fragmentation, read back value for value and the
   source is drained (the types ReaderX has readers for: everything but the varints) *)
Theorem c10_stream_roundtrip : forall ws chunks fl,
  forallb is_write ws = true -> forallb wok ws = true -> forallb stream_op (map reader_of ws) = true ->
  concat chunks = enc_all ws -> bytes_ok (enc_all ws) ->
  rrun (chunks, fl) (map reader_of ws) = (map val_of ws, snd (rrun (chunks, fl) (map reader_of ws)))
  /\ src_bytes (snd (rrun (chunks, fl) (map reader_of ws))) = [].
Proof. exact stream_roundtrip. Qed.
(* (the side condition holds whenever the strings are bytes: every encoding consists of bytes) *)
Theorem c10_encoding_is_bytes : forall w,
  (match w with WStr s | WLimStr _ s | WRaw s => bytes_ok s | _ => True end) -> bytes_ok (enc_op w).
Proof. exact enc_op_ok. Qed.

(* the same agreement seen through the digests by which values of 64 KiB and more are compared (CLarge): whatever the
   sizes of the chunks, the digests of what the stream reader returns are those of the buffer reader, errors at the
   same reads, the same digest of the bytes left *)
Theorem c10_large_values_agree : forall data sizes eofl ops,
  forallb stream_op ops = true -> forallb byte_okb data = true ->
  large_ok (map dig (fst (rrun (split_sizes sizes data, eofl) ops)))
           (dig (OBytes (src_bytes (snd (rrun (split_sizes sizes data, eofl) ops)))))
           (map dig (fst (brun data ops))) (dig (OBytes (snd (brun data ops)))) = true.
Proof. exact large_sound. Qed.

(* the two repaired defects stay refuted: a single reader.Read fails on a one-byte-at-a-time source; ZReadN(0) *)
Theorem c10_prefix_single_read_refuted :
  rx_read_prefix ([[1]; [2]; [3]; [4]], false) 4 = RdErr EEmpty ([[2]; [3]; [4]], false)
  /\ buf_read [1; 2; 3; 4] 4 = RdOk [1; 2; 3; 4] []
  /\ rx_read ([[1]; [2]; [3]; [4]], false) 4 = RdOk [1; 2; 3; 4] ([], false).
Proof. exact prefix_single_read_refuted. Qed.
Theorem c10_prefix_empty_string_refuted :
  fst (rx_zreadn_prefix ([[7]], false) 0) = OErr EWrongNum
  /\ fst (bytes_of (buf_next [7] 0)) = OBytes []
  /\ fst (rx_zreadn ([[7]], false) 0) = OBytes [].
Proof. exact prefix_empty_string_refuted. Qed.

(* non-vacuity *)
Theorem c10_roundtrip_demo :
  let ws := [WStr []; WLimStr 2 [104; 105]; WF64 9218868437227405313; WI64 (- 9223372036854775808);
             WVarU64 18446744073709551615; WVarI32 (- 2147483648); WRaw [1; 2; 3]; WBool true; WI16 (- 1)] in
  forallb is_write ws && forallb wok ws = true
  /\ brun [] (ws ++ map reader_of ws) = (map (fun _ => ODone) ws ++ map val_of ws, [])
  /\ fst (brun (firstn 30 (snd (brun [] ws))) (map reader_of ws)) =
       [OBytes []; OBytes [104; 105]; OInt 9218868437227405313; OInt (- 9223372036854775808);
        OErr EUnexpected; OErr EEOF; OErr EEOF; OErr EEOF; OErr EEOF].
Proof. exact roundtrip_demo. Qed.
Theorem c10_stream_demo :
  rrun ([[5]; []; [0; 0]; [0; 104; 101]; [108; 108; 111; 9]], true) [RStr; RU8; RU8]
  = ([OBytes [104; 101; 108; 108; 111]; OInt 9; OErr EEOF], ([], true))
  /\ brun [5; 0; 0; 0; 104; 101; 108; 108; 111; 9] [RStr; RU8; RU8]
  = ([OBytes [104; 101; 108; 108; 111]; OInt 9; OErr EEOF], []).
Proof. exact stream_demo. Qed.

Print Assumptions c10_case_sound.
Print Assumptions c10_codec_roundtrip.
Print Assumptions c10_reads_leave_continuation.
Print Assumptions c10_writes_append.
Print Assumptions c10_failed_write_identity.
Print Assumptions c10_roundtrip_with_refused.
Print Assumptions c10_reset_independent.
Print Assumptions c10_messages_independent.
Print Assumptions c10_reuse_monitor.
Print Assumptions c10_read_write.
Print Assumptions c10_uvarint_roundtrip.
Print Assumptions c10_zigzag_roundtrip.
Print Assumptions c10_signed_reinterpretation.
Print Assumptions c10_limit_write_refused.
Print Assumptions c10_limit_read_refused.
Print Assumptions c10_rewrite_exact.
Print Assumptions c10_rewrite_from_self.
Print Assumptions c10_rewrite_u32.
Print Assumptions c10_decode_total.
Print Assumptions c10_history_shapes.
Print Assumptions c10_proper_prefix_is_error.
Print Assumptions c10_truncated_stream.
Print Assumptions c10_read_agrees.
Print Assumptions c10_readerx_agrees.
Print Assumptions c10_stream_roundtrip.
Print Assumptions c10_encoding_is_bytes.
Print Assumptions c10_large_values_agree.
Print Assumptions c10_prefix_single_read_refuted.
Print Assumptions c10_prefix_empty_string_refuted.
Print Assumptions c10_roundtrip_demo.
Print Assumptions c10_stream_demo.
