(* C11: one step of the concrete model of tex.Buffer simulates one step of the contract (same result, related
   states), for every operation; lifted to whole histories in C11_Thm.v *)
From Coq Require Import ZArith List Lia Bool Arith.
Import ListNotations.
Require Import ReWrite C11_Utf8 TexModel C11_Spec TexRef.

Lemma R_len g b s : R g b s -> length (un s) = blen b.
Proof. intros (_ & Hl & _). rewrite <- Hl. apply live_len. Qed.

Lemma weaken g b s : R false b s -> R g b s.
Proof. intros (A & B & C & D). split; [exact A|split; [exact B|split; [exact C|intros _; apply D; reflexivity]]]. Qed.

(* ---- consuming k unread bytes ---- *)
Definition lk_ok (c : list Z) (v : Z) (lk : option (bool * list Z)) : Prop :=
  match lk with
  | None => v = 0%Z
  | Some (isr, bs) => bs <> [] /\ (exists h, c = h ++ bs) /\ v = (if isr : bool then zn (length bs) else (-1)%Z)
  end.

Lemma consume_sim b s k v lk : Inv b -> live b = un s -> Rp b s -> k <= blen b ->
  lk_ok (firstn k (un s)) v lk ->
  R false (set_off b (off b + k) v) (consume s k lk).
Proof.
  intros HI Hl Hp Hk Hlk. pose proof HI as (Ho & Hc & Hn).
  assert (Hlen : length (un s) = blen b) by (rewrite <- Hl; apply live_len).
  assert (Hb : bytes b = (consumed b ++ firstn k (un s)) ++ skipn k (un s)).
  { rewrite <- app_assoc, firstn_skipn, <- Hl. apply consumed_live. }
  assert (Hx : off b + k = length (consumed b ++ firstn k (un s))).
  { rewrite app_length, consumed_len by exact Ho. rewrite firstn_length. lia. }
  destruct (split_at b _ _ _ v Hb Hx) as [Hcons Hlive].
  unfold R. split; [|split; [|split]].
  - apply Inv_set_off; [exact HI|]. unfold blen in Hk. lia.
  - rewrite Hlive. reflexivity.
  - unfold Rp, consume; cbn [pre mk]. unfold Rp in Hp. destruct (pre s) as [l|]; cbn [pre_app option_map]; [|exact I].
    rewrite Hcons, Hp. reflexivity.
  - intros _. unfold Rk, consume; cbn [lastk mk]. unfold lk_ok in Hlk.
    destruct lk as [[isr bs]|]; [|exact Hlk].
    destruct Hlk as (Hne & (h & Hh) & Hv). split; [exact Hne|split; [|exact Hv]].
    exists (consumed b ++ h). rewrite Hcons, Hh. apply app_assoc.
Qed.

Lemma last_read_ok c : c <> [] -> lk_ok c (-1)%Z (last_read c).
Proof.
  intros Hc. unfold last_read. destruct c as [|a c']; [congruence|].
  unfold lk_ok. split; [discriminate|split; [|reflexivity]].
  exists (removelast (a :: c')). apply app_removelast_last. discriminate.
Qed.

Lemma firstn_nonempty {A} (l : list A) k : 1 <= k -> l <> [] -> firstn k l <> [].
Proof. intros Hk Hl. destruct k as [|k]; [lia|]. destruct l; [congruence|]. discriminate. Qed.

(* a read of k bytes (Read, Next): lastRead = opRead iff k > 0 *)
Lemma read_sim b s k : Inv b -> live b = un s -> Rp b s -> k <= blen b ->
  R false (set_off b (off b + k) (if Nat.eqb k 0 then 0%Z else (-1)%Z)) (consume s k (last_read (firstn k (un s)))).
Proof.
  intros HI Hl Hp Hk. apply consume_sim; auto.
  destruct (Nat.eqb k 0) eqn:E.
  - apply Nat.eqb_eq in E. subst k. cbn. reflexivity.
  - apply Nat.eqb_neq in E. apply last_read_ok. apply firstn_nonempty; [lia|].
    intros Hu. assert (blen b = 0) by (rewrite <- live_len, Hl, Hu; reflexivity). lia.
Qed.

Lemma reset_sim g b : Inv b -> R g (reset b) emptied.
Proof.
  intros (Ho & Hc & Hn). unfold R, Inv, Rp, Rk, reset, emptied, live, consumed; cbn.
  split; [split; [lia|split; [lia|]]|split; [reflexivity|split; [reflexivity|reflexivity]]].
  intros H. split; [reflexivity|apply Hn, H].
Qed.

(* ---- appending p after making room for n >= |p| bytes ---- *)
Lemma write_sim b s p n b1 m : Inv b -> live b = un s -> Rp b s -> lastr b = 0%Z -> length p <= n ->
  grow_for_write b n = (b1, m) -> R false (write_at b1 m p) (mk (un s ++ p) None (pre_w (pre s))).
Proof.
  intros HI Hl Hp Hr Hpn Hg. pose proof HI as (Ho & Hc & Hn).
  destruct (grow_for_write_spec _ _ _ _ HI Hg) as ((Ho1 & Hc1 & Hn1) & Hlen & Hom & Hk & Hlr & Hoff).
  assert (Hfl : length (firstn m (bytes b1)) = m) by (rewrite firstn_length; lia).
  unfold R. split; [|split; [|split]].
  - unfold Inv, write_at, set_bytes; cbn [bytes off cap isnil]. rewrite app_length, Hfl.
    split; [lia|split; [lia|]]. intros H. destruct (Hn1 H) as [E1 E2]. split; [|exact E2].
    rewrite E1 in Hlen. cbn [length] in Hlen. assert (Hp0 : length p = 0) by lia.
    apply length_zero_iff_nil in Hp0. subst p. rewrite E1, firstn_nil. reflexivity.
  - unfold live, write_at, set_bytes; cbn [bytes off un mk]. rewrite skipn_app_le by lia. rewrite Hk, Hl. reflexivity.
  - unfold Rp; cbn [pre mk]. unfold Rp in Hp. destruct (pre s) as [[|x l]|]; cbn [pre_w]; try exact I.
    assert (Hoff0 : off b = 0) by (rewrite <- (consumed_len b Ho), Hp; reflexivity).
    unfold consumed, write_at, set_bytes; cbn [bytes off]. replace (off b1) with 0 by lia. reflexivity.
  - intros _. unfold Rk; cbn [lastk mk]. unfold write_at, set_bytes; cbn [lastr]. destruct Hlr as [E|E]; congruence.
Qed.

(* ---- Grow ---- *)
Lemma grow_sim b s n b1 m : Inv b -> live b = un s -> Rp b s -> grow b n = (b1, m) ->
  R true (set_bytes b1 (firstn m (bytes b1))) (mk (un s) (lastk s) (pre_w (pre s))).
Proof.
  intros HI Hl Hp Hg. pose proof HI as (Ho & Hc & Hn).
  destruct (grow_spec _ _ _ _ HI Hg) as ((Ho1 & Hc1 & Hn1) & Hlen & Hom & Hk & Hlr & Hoff).
  assert (Hfl : length (firstn m (bytes b1)) = m) by (rewrite firstn_length; lia).
  unfold R. split; [|split; [|split]].
  - unfold Inv, set_bytes; cbn [bytes off cap isnil]. rewrite Hfl. split; [lia|split; [lia|]].
    intros H. destruct (Hn1 H) as [E1 E2]. rewrite E1, firstn_nil. auto.
  - unfold live, set_bytes; cbn [bytes off un mk]. rewrite Hk. exact Hl.
  - unfold Rp; cbn [pre mk]. unfold Rp in Hp. destruct (pre s) as [[|x l]|]; cbn [pre_w]; try exact I.
    assert (Hoff0 : off b = 0) by (rewrite <- (consumed_len b Ho), Hp; reflexivity).
    unfold consumed, set_bytes; cbn [bytes off]. replace (off b1) with 0 by lia. reflexivity.
  - discriminate.
Qed.

(* ---- ReadFrom ---- *)
Lemma read_from_sim sc : forall b u n, Inv b -> live b = u -> lastr b = 0%Z -> forallb chunk_ok sc = true ->
  snd (read_from b sc n) = snd (sread_from u sc n) /\
  Inv (fst (read_from b sc n)) /\ live (fst (read_from b sc n)) = fst (sread_from u sc n) /\
  lastr (fst (read_from b sc n)) = 0%Z /\ off (fst (read_from b sc n)) <= off b.
Proof.
  induction sc as [|[chunk e] sc IH]; intros b u n HI Hl Hr Hok.
  - cbn [read_from sread_from]. destruct (grow b min_read) as [b1 i] eqn:Eg. cbn [fst snd].
    destruct (grow_spec _ _ _ _ HI Eg) as ((Ho1 & Hc1 & Hn1) & Hlen & Hom & Hk & Hlr & Hoff).
    assert (Hfl : length (firstn i (bytes b1)) = i) by (rewrite firstn_length; lia).
    split; [reflexivity|]. split; [|split; [|split]].
    + unfold Inv, set_bytes; cbn [bytes off cap isnil]. rewrite Hfl. split; [lia|split; [lia|]].
      intros H. destruct (Hn1 H) as [E1 E2]. rewrite E1, firstn_nil. auto.
    + unfold live, set_bytes; cbn [bytes off]. rewrite Hk. exact Hl.
    + unfold set_bytes; cbn [lastr]. destruct Hlr as [E|E]; congruence.
    + unfold set_bytes; cbn [off]. exact Hoff.
  - cbn [forallb] in Hok. apply andb_prop in Hok. destruct Hok as [Hck Hok].
    unfold chunk_ok in Hck. cbn [fst] in Hck. apply Nat.leb_le in Hck.
    cbn [read_from sread_from]. destruct (grow b min_read) as [b1 i] eqn:Eg.
    destruct (grow_spec _ _ _ _ HI Eg) as ((Ho1 & Hc1 & Hn1) & Hlen & Hom & Hk & Hlr & Hoff).
    assert (Hfl : length (firstn i (bytes b1)) = i) by (rewrite firstn_length; lia).
    set (b2 := set_bytes b1 (firstn i (bytes b1))).
    assert (HI2 : Inv b2).
    { unfold Inv, b2, set_bytes; cbn [bytes off cap isnil]. rewrite Hfl. split; [lia|split; [lia|]].
      intros H. destruct (Hn1 H) as [E1 E2]. rewrite E1, firstn_nil. auto. }
    assert (Hl2 : live b2 = u) by (unfold live, b2, set_bytes; cbn [bytes off]; rewrite Hk; exact Hl).
    assert (Hr2 : lastr b2 = 0%Z) by (unfold b2, set_bytes; cbn [lastr]; destruct Hlr as [E|E]; congruence).
    destruct (e =? -1)%Z.
    { cbn [fst snd]. split; [reflexivity|]. split; [exact HI2|split; [exact Hl2|split; [exact Hr2|exact Hoff]]]. }
    assert (Hmin : Nat.min (length chunk) (cap b2 - i) = length chunk).
    { unfold b2, set_bytes; cbn [cap]. apply Nat.min_l. lia. }
    rewrite Hmin, firstn_all.
    set (b3 := set_bytes b2 (bytes b2 ++ chunk)).
    assert (HI3 : Inv b3).
    { unfold Inv, b3, b2, set_bytes; cbn [bytes off cap isnil]. rewrite app_length, Hfl. split; [lia|split; [lia|]].
      intros H. destruct (Hn1 H) as [E1 E2]. rewrite E1 in Hlen. cbn [length] in Hlen. unfold min_read in Hlen. lia. }
    assert (Hl3 : live b3 = u ++ chunk).
    { unfold live, b3, set_bytes; cbn [bytes off]. change (off b2) with (off b1). unfold b2 at 1, set_bytes; cbn [bytes].
      rewrite skipn_app_le by lia. rewrite Hk, Hl. reflexivity. }
    assert (Hr3 : lastr b3 = 0%Z) by exact Hr2.
    assert (Ho3 : off b3 <= off b) by exact Hoff.
    destruct (e =? 1)%Z.
    { cbn [fst snd]. split; [reflexivity|]. split; [exact HI3|split; [exact Hl3|split; [exact Hr3|exact Ho3]]]. }
    destruct (e =? 0)%Z.
    { destruct (IH b3 (u ++ chunk) (n + zn (length chunk))%Z HI3 Hl3 Hr3 Hok) as (A & B & C & D & E).
      split; [exact A|split; [exact B|split; [exact C|split; [exact D|lia]]]]. }
    cbn [fst snd]. split; [reflexivity|]. split; [exact HI3|split; [exact Hl3|split; [exact Hr3|exact Ho3]]].
Qed.

(* ---- small facts about runes ---- *)
Lemma small_rune_byte r : (uint32 r <? 128)%Z = true -> encode_rune r = [(r mod 256)%Z].
Proof.
  intros H. apply Z.ltb_lt in H. unfold encode_rune.
  replace (uint32 r <=? 127)%Z with true by (symmetry; apply Z.leb_le; lia).
  f_equal. unfold uint32 in *.
  pose proof (Z.div_mod r 4294967296%Z ltac:(lia)) as Hdm.
  assert (0 <= r mod 4294967296)%Z by (apply Z.mod_pos_bound; lia).
  apply (Z.mod_unique r 256%Z (16777216 * (r / 4294967296))%Z (r mod 4294967296)%Z); [left; lia|lia].
Qed.

(* ---- sizes that cannot be allocated, and the capacity bound k ---- *)
Lemma cap_reset_if_empty b : cap (reset_if_empty b) = cap b.
Proof. unfold reset_if_empty. destruct (Nat.eqb (blen b) 0 && negb (Nat.eqb (off b) 0)); reflexivity. Qed.

Lemma half_le n : n / 2 <= n.
Proof. apply Nat.div_le_upper_bound; lia. Qed.

(* beyond max_alloc grow always ends in panic(ErrTooLarge): no reslice, no small allocation, no slide, and either the
   overflow guard or makeSlice fails *)
Lemma too_large_true b n : (zn (cap b) <= max_alloc)%Z -> (max_alloc < n)%Z -> too_large b n = true.
Proof.
  intros Hc Hn. unfold too_large. unfold zn, max_alloc, max_int, small_buffer_size in *.
  pose proof (half_le (cap b)) as Hh.
  replace (n <=? Z.of_nat (cap b - length (bytes b)))%Z with false by (symmetry; apply Z.leb_gt; lia).
  replace (n <=? Z.of_nat 64)%Z with false by (symmetry; apply Z.leb_gt; lia).
  replace (n <=? Z.of_nat (cap b / 2 - blen b))%Z with false by (symmetry; apply Z.leb_gt; lia).
  replace (281474976710656 <? 2 * Z.of_nat (cap b) + n)%Z with true by (symmetry; apply Z.ltb_lt; lia).
  rewrite andb_false_r, orb_true_r. reflexivity.
Qed.
(* while even the worst-case reallocation 2c+n is allocatable, grow never panics: the overflow guard of grow is
   unreachable there *)
Lemma too_large_false b n : (0 <= n)%Z -> (2 * zn (cap b) + n <= max_alloc)%Z -> too_large b n = false.
Proof.
  intros Hn Hc. unfold too_large. unfold zn, max_alloc, max_int in *.
  replace (9223372036854775807 - Z.of_nat (cap b) - n <? Z.of_nat (cap b))%Z with false by (symmetry; apply Z.ltb_ge; lia).
  replace (281474976710656 <? 2 * Z.of_nat (cap b) + n)%Z with false by (symmetry; apply Z.ltb_ge; lia).
  cbn [orb]. apply andb_false_r.
Qed.
(* the guard `c > maxInt-c-n` alone: whenever it fires the request is beyond max_alloc anyway (TooLarge either way) *)
Lemma overflow_guard_is_too_large c n : (0 <= c)%Z -> (max_int - c - n < c)%Z -> (max_alloc < 2 * c + n)%Z.
Proof. unfold max_int, max_alloc. lia. Qed.

Lemma reset_if_empty_sim b s : Inv b -> live b = un s -> Rp b s ->
  R true (reset_if_empty b) (mk (un s) (lastk s) (pre_w (pre s))).
Proof.
  intros HI Hl Hp. pose proof HI as (Ho & Hc & Hn). unfold reset_if_empty.
  destruct (Nat.eqb (blen b) 0 && negb (Nat.eqb (off b) 0)) eqn:E.
  - apply andb_prop in E. destruct E as [E _]. apply Nat.eqb_eq in E.
    assert (Hu : un s = []) by (apply length_zero_iff_nil; rewrite <- Hl, live_len; exact E).
    split; [|split; [|split]].
    + unfold Inv, reset; cbn [bytes off cap isnil length]. split; [lia|split; [lia|]]. intros H. split; [reflexivity|apply Hn, H].
    + cbn [un mk]. rewrite Hu. reflexivity.
    + unfold Rp; cbn [pre mk]. destruct (pre s) as [[|x l]|]; cbn [pre_w]; try exact I. reflexivity.
    + discriminate.
  - split; [exact HI|split; [exact Hl|split; [|discriminate]]].
    unfold Rp; cbn [pre mk]. unfold Rp in Hp. destruct (pre s) as [[|x l]|]; cbn [pre_w]; try exact I. exact Hp.
Qed.

Lemma grow_k_ge k m n : (k <= grow_k k m n)%Z.
Proof. unfold grow_k. lia. Qed.
Lemma grow_k_mono k k' m m' n n' : (k <= k')%Z -> (m <= m')%Z -> (n <= n')%Z -> (grow_k k m n <= grow_k k' m' n')%Z.
Proof. unfold grow_k. lia. Qed.
Lemma rf_k_ge sc : forall k m, (k <= rf_k k m sc)%Z.
Proof.
  induction sc as [|x sc IH]; intros k m; cbn [rf_k]; [apply grow_k_ge|].
  pose proof (grow_k_ge k m (Z.of_nat min_read)). pose proof (IH (grow_k k m (Z.of_nat min_read)) (m + zn (length (fst x)))%Z). lia.
Qed.

(* grow reallocates (to 2c+n) only when c < 2(m+n): the capacity stays below 5(m+n)+2 *)
Lemma grow_cap b n b1 m : grow b n = (b1, m) -> (zn (cap b1) <= grow_k (zn (cap b)) (zn (blen b)) (zn n))%Z.
Proof.
  unfold grow.
  set (b' := if Nat.eqb (blen b) 0 && negb (Nat.eqb (off b) 0) then reset b else b).
  assert (Hc : cap b' = cap b) by (subst b'; destruct (Nat.eqb (blen b) 0 && negb (Nat.eqb (off b) 0)); reflexivity).
  clearbody b'. unfold grow_k, zn, small_buffer_size. cbv zeta.
  destruct (Nat.leb n (cap b' - length (bytes b'))); [intros H; inversion H; subst; cbn [cap]; lia|].
  destruct (isnil b' && Nat.leb n 64); [intros H; inversion H; subst; cbn [cap]; lia|].
  destruct (Nat.leb n (cap b' / 2 - blen b)) eqn:E; intros H; inversion H; subst; cbn [cap]; [lia|].
  apply Nat.leb_gt in E.
  pose proof (Nat.div_mod (cap b') 2 ltac:(lia)) as Hd. pose proof (Nat.mod_upper_bound (cap b') 2 ltac:(lia)) as Hm.
  lia.
Qed.
Lemma grow_for_write_cap b n b1 m : grow_for_write b n = (b1, m) -> (zn (cap b1) <= grow_k (zn (cap b)) (zn (blen b)) (zn n))%Z.
Proof.
  unfold grow_for_write. destruct (Nat.leb n (cap b - length (bytes b))).
  - intros H; inversion H; subst; cbn [cap]. apply grow_k_ge.
  - apply grow_cap.
Qed.

(* one iteration of ReadFrom's loop *)
Lemma read_iter b b1 i chunk : Inv b -> grow b min_read = (b1, i) -> length chunk <= min_read ->
  let b2 := set_bytes b1 (firstn i (bytes b1)) in
  let b3 := set_bytes b2 (bytes b2 ++ firstn (Nat.min (length chunk) (cap b2 - i)) chunk) in
  Inv b2 /\ live b2 = live b /\ Inv b3 /\ live b3 = live b ++ chunk.
Proof.
  intros HI Eg Hck.
  destruct (grow_spec _ _ _ _ HI Eg) as ((Ho1 & Hc1 & Hn1) & Hlen & Hom & Hk & Hlr & Hoff).
  assert (Hfl : length (firstn i (bytes b1)) = i) by (rewrite firstn_length; lia).
  cbv zeta.
  assert (Hmin : Nat.min (length chunk) (cap (set_bytes b1 (firstn i (bytes b1))) - i) = length chunk).
  { unfold set_bytes; cbn [cap]. apply Nat.min_l. lia. }
  rewrite Hmin, firstn_all.
  split; [|split; [|split]].
  - unfold Inv, set_bytes; cbn [bytes off cap isnil]. rewrite Hfl. split; [lia|split; [lia|]].
    intros H. destruct (Hn1 H) as [E1 E2]. rewrite E1, firstn_nil. auto.
  - unfold live, set_bytes; cbn [bytes off]. exact Hk.
  - unfold Inv, set_bytes; cbn [bytes off cap isnil]. rewrite app_length, Hfl. split; [lia|split; [lia|]].
    intros H. destruct (Hn1 H) as [E1 E2]. rewrite E1 in Hlen. cbn [length] in Hlen. unfold min_read in Hlen. lia.
  - unfold live, set_bytes; cbn [bytes off]. rewrite skipn_app_le by lia. rewrite Hk. reflexivity.
Qed.

Lemma read_from_cap sc : forall b n k m, Inv b -> forallb chunk_ok sc = true -> (zn (cap b) <= k)%Z -> (zn (blen b) <= m)%Z ->
  (zn (cap (fst (read_from b sc n))) <= rf_k k m sc)%Z.
Proof.
  induction sc as [|[chunk e] sc IH]; intros b n k m HI Hok Hk Hm; cbn [read_from rf_k].
  - destruct (grow b min_read) as [b1 i] eqn:Eg. cbn [fst]. unfold set_bytes; cbn [cap].
    pose proof (grow_cap _ _ _ _ Eg) as H.
    pose proof (grow_k_mono _ _ _ _ (zn min_read) (zn min_read) Hk Hm ltac:(lia)). unfold zn in *. lia.
  - cbn [forallb] in Hok. apply andb_prop in Hok. destruct Hok as [Hck Hok].
    unfold chunk_ok in Hck. cbn [fst] in Hck. apply Nat.leb_le in Hck.
    destruct (grow b min_read) as [b1 i] eqn:Eg.
    pose proof (grow_cap _ _ _ _ Eg) as H.
    pose proof (grow_k_mono _ _ _ _ (zn min_read) (zn min_read) Hk Hm ltac:(lia)) as H2.
    assert (H1 : (zn (cap b1) <= grow_k k m (Z.of_nat min_read))%Z) by (unfold zn in *; lia).
    pose proof (rf_k_ge sc (grow_k k m (Z.of_nat min_read)) (m + zn (length chunk))%Z) as H3. cbn [fst].
    destruct (read_iter b b1 i chunk HI Eg Hck) as (HI2 & Hl2 & HI3 & Hl3).
    destruct (e =? -1)%Z; [cbn [fst]; unfold set_bytes; cbn [cap]; lia|].
    destruct (e =? 1)%Z; [cbn [fst]; unfold set_bytes; cbn [cap]; lia|].
    destruct (e =? 0)%Z; [|cbn [fst]; unfold set_bytes; cbn [cap]; lia].
    apply IH; [exact HI3|exact Hok|unfold set_bytes; cbn [cap]; exact H1|].
    rewrite <- live_len, Hl3, app_length, live_len. unfold zn in *. lia.
Qed.
