(* C05 core (memory back-end, repaired): an expired key behaves exactly like a key that was never set; bound *)
From Coq Require Import ZArith List Lia Bool.
Import ListNotations.
Open Scope Z_scope.

Definition MAXI := 2 ^ 63 - 1.
(* Go's int64 addition wraps; now() + ttl is computed in int64 *)
Definition wrap64 (x : Z) : Z := (x + 2 ^ 63) mod 2 ^ 64 - 2 ^ 63.
Record node := { key : Z; val : Z; dl : Z }.
Record cache := { size : Z; dttl : Z; l : list node }.          (* l: most recently used first *)
Record setopt := { s_ttl : option Z; mne : bool; keep : bool }.
Record getopt := { rag : bool; upd : option Z }.
Inductive res := Ok (v : Z) | Done | Exists | NotFound | Fail (e : Z).   (* Fail: any other error / panic; the memory back-end never produces it *)

Definition deadline (ttl now : Z) : Z := if ttl <=? 0 then MAXI else wrap64 (now + ttl).
(* the int64 sum does not overflow: the clock is an int64 reading and now + ttl fits *)
Definition fits (ttl now : Z) : Prop := - 2 ^ 63 <= now <= MAXI /\ (0 < ttl -> now + ttl <= MAXI).
Lemma wrap64_id x : - 2 ^ 63 <= x <= MAXI -> wrap64 x = x.
Proof. intros H. unfold wrap64, MAXI in *. rewrite Z.mod_small by lia. lia. Qed.
Lemma deadline_fits ttl now : fits ttl now -> deadline ttl now = if ttl <=? 0 then MAXI else now + ttl.
Proof.
  intros [Hn Ht]. unfold deadline. destruct (ttl <=? 0) eqn:E; [reflexivity|]. apply Z.leb_gt in E.
  apply wrap64_id. specialize (Ht E). unfold MAXI in *. lia.
Qed.
Definition find_k (k : Z) (l : list node) : option node := find (fun n => key n =? k) l.
Definition erase (k : Z) (l : list node) : list node := filter (fun n => negb (key n =? k)) l.

Definition set_ttl (c : cache) (o : setopt) : Z := match s_ttl o with Some t => t | None => dttl c end.
Definition upd_ttl (c : cache) (t : Z) : Z := if t =? 0 then dttl c else t.

Definition set (c : cache) (k v : Z) (o : setopt) (now : Z) : cache * res :=
  let ttl := set_ttl c o in
  (* repaired: an expired entry is removed first and the key counts as absent *)
  let '(l0, cur) := match find_k k (l c) with
                    | Some n => if dl n <? now then (erase k (l c), None) else (l c, Some n)
                    | None => (l c, None) end in
  match cur with
  | Some n =>
      if mne o then ({| size := size c; dttl := dttl c; l := l0 |}, Exists)
      else ({| size := size c; dttl := dttl c;
               l := {| key := k; val := v; dl := if keep o then dl n else deadline ttl now |} :: erase k l0 |}, Done)
  | None =>
      let l1 := {| key := k; val := v; dl := deadline ttl now |} :: l0 in
      ({| size := size c; dttl := dttl c; l := if size c <? Z.of_nat (length l1) then removelast l1 else l1 |}, Done)
  end.

Definition get (c : cache) (k : Z) (o : getopt) (now : Z) : cache * res :=
  match find_k k (l c) with
  | None => (c, NotFound)
  | Some n =>
    if dl n <? now then ({| size := size c; dttl := dttl c; l := erase k (l c) |}, NotFound)
    else if rag o then ({| size := size c; dttl := dttl c; l := erase k (l c) |}, Ok (val n))
    else let d := match upd o with
                  | Some t => deadline (upd_ttl c t) now
                  | None => dl n end in
         ({| size := size c; dttl := dttl c; l := {| key := k; val := val n; dl := d |} :: erase k (l c) |}, Ok (val n))
  end.

Lemma set_cfg c k v o now : size (fst (set c k v o now)) = size c /\ dttl (fst (set c k v o now)) = dttl c.
Proof.
  unfold set. destruct (find_k k (l c)) as [n|]; [destruct (dl n <? now); [|destruct (mne o)]|]; cbn [fst size dttl]; split; reflexivity.
Qed.
Lemma get_cfg c k o now : size (fst (get c k o now)) = size c /\ dttl (fst (get c k o now)) = dttl c.
Proof.
  unfold get. destruct (find_k k (l c)) as [n|]; [destruct (dl n <? now); [|destruct (rag o)]|]; cbn [fst size dttl]; split; reflexivity.
Qed.

Definition expired (c : cache) (k now : Z) : Prop := exists n, find_k k (l c) = Some n /\ dl n < now.
Definition without (c : cache) (k : Z) : cache := {| size := size c; dttl := dttl c; l := erase k (l c) |}.

Lemma find_erase k l0 : find_k k (erase k l0) = None.
Proof.
  unfold find_k, erase. induction l0 as [|n r IH]; cbn; auto.
  destruct (key n =? k) eqn:E; cbn; auto. now rewrite E.
Qed.
Lemma erase_idem k l0 : erase k (erase k l0) = erase k l0.
Proof.
  unfold erase. induction l0 as [|n r IH]; cbn; auto. destruct (key n =? k) eqn:E; cbn; auto. now rewrite E, IH.
Qed.

(* Set, with any options, on an expired key = the same Set on the cache where the key was never set *)
Theorem set_expired_like_absent c k v o now : expired c k now -> set c k v o now = set (without c k) k v o now.
Proof.
  intros (n & Hf & Hd). unfold set. cbn [l size dttl without]. rewrite Hf, find_erase.
  replace (dl n <? now) with true by (symmetry; apply Z.ltb_lt; lia). reflexivity.
Qed.

(* Get on an expired key reports not-found and leaves exactly the cache without the key *)
Theorem get_expired_like_absent c k o now : expired c k now ->
  get c k o now = (without c k, NotFound) /\ get (without c k) k o now = (without c k, NotFound).
Proof.
  intros (n & Hf & Hd). unfold get. cbn [l size dttl without]. rewrite Hf, find_erase.
  replace (dl n <? now) with true by (symmetry; apply Z.ltb_lt; lia). split; reflexivity.
Qed.

(* set-if-absent succeeds on an expired key *)
Corollary set_if_absent_succeeds c k v now t : expired c k now ->
  snd (set c k v {| s_ttl := t; mne := true; keep := false |} now) = Done.
Proof.
  intros H. rewrite (set_expired_like_absent c k v _ now H). unfold set. cbn [l size dttl without mne].
  rewrite find_erase. reflexivity.
Qed.

(* the number of entries never exceeds the configured size (size 0 included) *)
Lemma length_erase k l0 : (length (erase k l0) <= length l0)%nat.
Proof. unfold erase. induction l0 as [|n r IH]; cbn; auto. destruct (negb _); cbn; lia. Qed.

Lemma length_erase_found k l0 n : find_k k l0 = Some n -> (S (length (erase k l0)) <= length l0)%nat.
Proof.
  unfold find_k, erase. induction l0 as [|m r IH]; cbn; [discriminate|].
  destruct (key m =? k) eqn:E; cbn.
  - intros _. pose proof (length_erase k r). unfold erase in H. lia.
  - intros H. specialize (IH H). lia.
Qed.

Theorem set_bound c k v o now : 0 <= size c -> Z.of_nat (length (l c)) <= size c ->
  Z.of_nat (length (l (fst (set c k v o now)))) <= size c /\ size (fst (set c k v o now)) = size c.
Proof.
  intros H0 Hb. unfold set.
  destruct (find_k k (l c)) as [n|] eqn:Hf.
  - destruct (dl n <? now).
    + cbn [fst l size]. pose proof (length_erase_found k (l c) n Hf).
      destruct (size c <? Z.of_nat (length (_ :: erase k (l c)))) eqn:E; cbn [fst l size]; split; auto.
      * apply Z.ltb_lt in E. cbn [length] in *. lia.
      * apply Z.ltb_ge in E. exact E.
    + destruct (mne o); cbn [fst l size]; split; auto.
      pose proof (length_erase_found k (l c) n Hf). cbn [length]. lia.
  - cbn [fst l size].
    destruct (size c <? Z.of_nat (length (_ :: l c))) eqn:E; cbn [fst l size]; split; auto.
    + set (x := {| key := k; val := v; dl := deadline _ now |}).
      assert (Hl : length (removelast (x :: l c)) = length (l c)).
      { rewrite (removelast_firstn_len (x :: l c)). rewrite firstn_length. cbn [length]. lia. }
      rewrite Hl. exact Hb.
    + apply Z.ltb_ge in E. exact E.
Qed.
Print Assumptions set_expired_like_absent.
Print Assumptions set_bound.
