(* C05 TTL cache: the property, clause by clause, over all keys, values, ttls, option combinations, clock readings,
   sizes and histories.  This file contains statements closed by `exact` only. *)
From Coq Require Import ZArith List Bool.
Require Import TTL TTLView C05_Hist C05_Frame C05_Ttl C05_Mon C05_Hammer C05_Rds C05_RdsAgree C05_Check C05_Refuted.
Import ListNotations.
Open Scope Z_scope.

(* whatever the driver accepts satisfies the monitor (memory histories incl. racing segments and the probe; redis agreement) *)
Theorem c05_case_sound : forall c, case_accept c = true -> case_holds c = true.
Proof. exact case_sound. Qed.

(* HEADLINE: for every size, default ttl and history (inside the int64 domain) the trace of the cache satisfies the
   monitor of C05_Mon: a hit returns the value of the latest Set and only for a key not removed / cleared / consumed /
   elapsed; set-if-absent reports already-exists only for such a key; a miss (or a successful set-if-absent) on such a
   key happens only after `size` other distinct keys were touched more recently *)
Theorem c05_model_satisfies_monitor : forall sz dt h,
  dom_all dt (trace_of (empty sz dt) h) = true -> mrun sz dt mon0 (trace_of (empty sz dt) h) = true.
Proof. exact model_satisfies_monitor. Qed.

(* one step of it, from any state related to a monitor state *)
Theorem c05_step_sim : forall c m now o, sim c m -> op_dom (dttl c) now o = true ->
  exists m', mstep (size c) (dttl c) m now o (snd (step c now o)) = Some m' /\ sim (fst (step c now o)) m'.
Proof. exact step_sim. Qed.

(* Get, with any options, answers exactly what is retrievable: hit with that value, else not-found *)
Theorem c05_get_answers_view : forall c k o now,
  snd (get c k o now) = match view c k now with Some v => Ok v | None => NotFound end.
Proof. exact get_spec. Qed.

(* a Set that reports success makes its value retrievable at once (size >= 1, any ttl / keep-ttl combination) *)
Theorem c05_set_then_get : forall c k v o now, 1 <= size c -> fits (set_ttl c o) now ->
  snd (set c k v o now) = Done -> view (fst (set c k v o now)) k now = Some v.
Proof. exact set_then_get. Qed.

(* the latest Set wins *)
Theorem c05_latest_set_wins : forall c k v1 v2 o1 o2 now, 1 <= size c -> fits (set_ttl c o2) now -> mne o2 = false ->
  let c1 := fst (set c k v1 o1 now) in view (fst (set c1 k v2 o2 now)) k now = Some v2.
Proof. exact latest_set_wins. Qed.

(* set-if-absent on a live key reports already-exists and changes nothing retrievable *)
Theorem c05_set_if_absent_live : forall c k v o now w, mne o = true -> view c k now = Some w ->
  snd (set c k v o now) = Exists /\ forall k' now', view (fst (set c k v o now)) k' now' = view c k' now'.
Proof. exact set_mne_live. Qed.

(* an elapsed key behaves exactly like a key that was never set, for every operation: same result, same resulting cache *)
Theorem c05_expired_like_absent : forall c k now o, expired c k now ->
  match o with OSet k' _ _ | OGet k' _ | ORemove k' => k' = k | OClear => True end ->
  snd (step c now o) = snd (step (without c k) now o) /\ l (fst (step c now o)) = l (fst (step (without c k) now o)).
Proof. exact expired_like_absent. Qed.

Theorem c05_get_expired_not_found : forall c k o now, expired c k now ->
  get c k o now = (without c k, NotFound) /\ get (without c k) k o now = (without c k, NotFound).
Proof. exact get_expired_like_absent. Qed.

Theorem c05_set_if_absent_succeeds_on_expired : forall c k v now t, expired c k now ->
  snd (set c k v {| s_ttl := t; mne := true; keep := false |} now) = Done.
Proof. exact set_if_absent_succeeds. Qed.

(* one-shot reads: after a remove-after-get read no later Get, at any time, returns the entry
   (with the lint "every method is one critical section" this is: at most one of the racing callers succeeds) *)
Theorem c05_one_shot : forall c k o now now', rag o = true -> view (fst (get c k o now)) k now' = None.
Proof. exact get_consumes. Qed.

(* a plain Get keeps the key retrievable; a Get on k never changes what is retrievable under another key *)
Theorem c05_get_keeps : forall c k o now v, rag o = false -> upd o = None -> view c k now = Some v -> view (fst (get c k o now)) k now = Some v.
Proof. exact get_keeps. Qed.
Theorem c05_get_frame : forall c k k' o now now', k' <> k -> view (fst (get c k o now)) k' now' = view c k' now'.
Proof. exact get_frame. Qed.

(* which deadline governs a key, at every later clock reading: update-ttl installs deadline (ttl or default) now ... *)
Theorem c05_update_ttl : forall c k o now t v, view c k now = Some v -> rag o = false -> upd o = Some t ->
  forall now', view (fst (get c k o now)) k now' = live_until (deadline (upd_ttl c t) now) v now'.
Proof. exact update_ttl_spec. Qed.
(* ... a Get without update-ttl leaves it alone ... *)
Theorem c05_get_keeps_deadline : forall c k o now v, view c k now = Some v -> rag o = false -> upd o = None ->
  forall now', view (fst (get c k o now)) k now' = view c k now'.
Proof. exact get_keeps_deadline. Qed.
(* ... keep-ttl on a live key: new value, old deadline ... *)
Theorem c05_keep_ttl : forall c k v o now w, view c k now = Some w -> mne o = false -> keep o = true ->
  forall now', view (fst (set c k v o now)) k now' = match view c k now' with Some _ => Some v | None => None end.
Proof. exact keep_ttl_spec. Qed.
(* ... a storing Set without keep-ttl, or any Set on a key that is not retrievable, installs deadline ttl now *)
Theorem c05_set_deadline : forall c k v o now, 1 <= size c -> mne o = false -> keep o = false ->
  forall now', view (fst (set c k v o now)) k now' = live_until (deadline (set_ttl c o) now) v now'.
Proof. exact set_deadline_spec. Qed.
Theorem c05_set_absent_deadline : forall c k v o now, 1 <= size c -> view c k now = None ->
  forall now', view (fst (set c k v o now)) k now' = live_until (deadline (set_ttl c o) now) v now'.
Proof. exact set_absent_deadline_spec. Qed.

(* the frame of Set: a Set on k changes what is retrievable under at most one other key, the entry evicted from the cold end *)
Theorem c05_set_frame : forall c k v o now, wf c -> forall k' now', k' <> k -> k' <> evictee c k ->
  view (fst (set c k v o now)) k' now' = view c k' now'.
Proof. exact set_frame. Qed.

(* Remove and Clear *)
Theorem c05_remove_gone : forall c k now now', view (fst (step c now (ORemove k))) k now' = None.
Proof. exact remove_gone. Qed.
Theorem c05_remove_frame : forall c k k' now now', k' <> k -> view (fst (step c now (ORemove k))) k' now' = view c k' now'.
Proof. exact remove_frame. Qed.
Theorem c05_clear_gone : forall c k now now', view (fst (step c now OClear)) k now' = None.
Proof. exact clear_gone. Qed.

(* bounded: after every history from the empty cache no key is held twice and at most max(0,size) entries are held ... *)
Theorem c05_bound_all_histories : forall sz dt h, wf (fst (run (empty sz dt) h)).
Proof. exact run_bound. Qed.
(* ... hence at most max(0,size) distinct keys are retrievable at any instant *)
Theorem c05_retrievable_bound : forall c now ks, wf c -> NoDup ks -> (forall k, In k ks -> view c k now <> None) ->
  Z.of_nat (length ks) <= Z.max 0 (size c).
Proof. exact retrievable_bound. Qed.

(* LRU guarantee over histories: a key the ideal map still holds and that was touched more recently than `size` other
   distinct keys is still in the cache with the value of its latest Set *)
Theorem c05_lru_guarantee : forall sz dt h m k e, dom_all dt (trace_of (empty sz dt) h) = true ->
  mfinal sz dt mon0 (trace_of (empty sz dt) h) = Some m ->
  ifind k (ents m) = Some e -> Z.of_nat (index k (rcy m)) < sz ->
  exists n, find_k k (l (fst (run (empty sz dt) h))) = Some n /\ val n = iv e /\ In (dl n) (ids e).
Proof. exact lru_guarantee. Qed.

(* callers racing on ONE key of a fresh cache: whatever they did and in whatever order the mutex served them, after a
   Remove of that key the cache is the empty cache, and reports from then on what it reports after Remove alone *)
Theorem c05_hammer_collapses : forall sz dt k h now, (forall s, In s h -> on_key k (snd s)) ->
  fst (run (empty sz dt) (h ++ [(now, ORemove k)])) = empty sz dt.
Proof. exact hammer_collapses. Qed.
Theorem c05_hammer_tail : forall sz dt k h now rest, (forall s, In s h -> on_key k (snd s)) ->
  exists pre, snd (run (empty sz dt) (h ++ (now, ORemove k) :: rest)) = pre ++ snd (run (empty sz dt) ((now, ORemove k) :: rest))
              /\ length pre = length h.
Proof. exact hammer_tail. Qed.

(* redis agreement: on every restricted history (positive ttls that fit, keep-ttl on live keys only, no clock reading on
   the deadline of the touched key, at most `size` distinct keys) the redis-backed model reports the same hit / miss,
   value and already-exists outcome at every step *)
Theorem c05_rds_agrees : forall sz dt h, restricted sz dt h = true ->
  snd (run (empty sz dt) h) = map fst (rds_run dt [] h).
Proof. exact rds_agrees. Qed.

(* ... and therefore satisfies the same monitor (one-shot reads, expiry, latest value) on every restricted history *)
Theorem c05_rds_satisfies_monitor : forall sz dt h, restricted sz dt h = true ->
  mrun sz dt mon0 (combine h (map fst (rds_run dt [] h))) = true.
Proof. exact rds_satisfies_monitor. Qed.

(* inside the int64 domain the deadline is the mathematical one *)
Theorem c05_deadline_in_domain : forall ttl now, fits ttl now -> deadline ttl now = if ttl <=? 0 then MAXI else now + ttl.
Proof. exact deadline_fits. Qed.

(* the repaired defects stay refuted; the observed pre-fix traces are rejected by the monitor *)
Theorem c05_prefix_set_refuted :
  expired c_old 1 20 /\
  snd (set_old c_old 1 8 {| s_ttl := None; mne := true; keep := false |} 20) = Exists /\
  snd (set c_old 1 8 {| s_ttl := None; mne := true; keep := false |} 20) = Done.
Proof. exact set_old_refuted. Qed.
Theorem c05_prefix_rds_refuted : forall ttl, 0 < ttl < MSEC -> expiry_of (dur_old ttl) = XPx 1.
Proof. exact rds_old_refuted. Qed.
Theorem c05_prefix_size0_trace_rejected :
  case_holds (CMem 0 0 [(5, S_ 0 1 None false false, Done); (5, S_ 1 2 None false false, Done)]
                       [(5, G_ 0 false None, Ok 1); (5, G_ 1 false None, Ok 2)]) = false.
Proof. exact prefix_size0_trace_rejected. Qed.
Theorem c05_prefix_expired_mne_trace_rejected :
  case_holds (CMem 4 0 [(10, S_ 1 7 (Some 3) false false, Done); (20, S_ 1 8 None true false, Exists)] []) = false.
Proof. exact prefix_expired_mne_trace_rejected. Qed.
Theorem c05_prefix_rds_px1_trace_rejected :
  case_holds (CRds 8 0 [(10, S_ 1 7 (Some 10) false false, Done, (Done, [RSet 1 7 (XPx 1) false]));
                        (11, G_ 1 false None, Ok 7, (NotFound, [RGet 1]))]) = false.
Proof. exact prefix_rds_px1_trace_rejected. Qed.

(* non-vacuity *)
Theorem c05_demo_in_domain : dom_all 4 (trace_of (empty 2 4) h_demo) = true.
Proof. exact demo_in_domain. Qed.
Theorem c05_demo_results : snd (run (empty 2 4) h_demo) = [Done; Done; Ok 7; Done; NotFound; NotFound; Done; NotFound; NotFound].
Proof. exact demo_results. Qed.
Theorem c05_demo_restricted : restricted 2 4 h_demo = false /\
  restricted 3 4 [(10, S_ 1 7 (Some 3) false false); (11, S_ 1 8 None false true); (12, G_ 1 false (Some 0)); (17, G_ 1 true None); (17, G_ 1 false None)] = true.
Proof. exact demo_restricted. Qed.

Print Assumptions c05_case_sound.
Print Assumptions c05_model_satisfies_monitor.
Print Assumptions c05_step_sim.
Print Assumptions c05_get_answers_view.
Print Assumptions c05_set_then_get.
Print Assumptions c05_latest_set_wins.
Print Assumptions c05_set_if_absent_live.
Print Assumptions c05_expired_like_absent.
Print Assumptions c05_get_expired_not_found.
Print Assumptions c05_set_if_absent_succeeds_on_expired.
Print Assumptions c05_one_shot.
Print Assumptions c05_get_keeps.
Print Assumptions c05_get_frame.
Print Assumptions c05_update_ttl.
Print Assumptions c05_get_keeps_deadline.
Print Assumptions c05_keep_ttl.
Print Assumptions c05_set_deadline.
Print Assumptions c05_set_absent_deadline.
Print Assumptions c05_set_frame.
Print Assumptions c05_rds_satisfies_monitor.
Print Assumptions c05_remove_gone.
Print Assumptions c05_remove_frame.
Print Assumptions c05_clear_gone.
Print Assumptions c05_bound_all_histories.
Print Assumptions c05_retrievable_bound.
Print Assumptions c05_lru_guarantee.
Print Assumptions c05_hammer_collapses.
Print Assumptions c05_hammer_tail.
Print Assumptions c05_rds_agrees.
Print Assumptions c05_deadline_in_domain.
Print Assumptions c05_prefix_set_refuted.
Print Assumptions c05_prefix_rds_refuted.
Print Assumptions c05_prefix_size0_trace_rejected.
Print Assumptions c05_prefix_expired_mne_trace_rejected.
Print Assumptions c05_prefix_rds_px1_trace_rejected.
Print Assumptions c05_demo_in_domain.
Print Assumptions c05_demo_results.
Print Assumptions c05_demo_restricted.
