(* C16 core: the session state machine - single exit, balanced count, flush before a local close *)
From Coq Require Import ZArith List Bool Lia Arith.
Import ListNotations.

Record st := {
  q : list nat; qclosed : bool;            (* sendQ: queued payload ids, closed flag *)
  conn : bool;                             (* connection open *)
  sendl : bool; recvl : bool;              (* the two loops are running *)
  exited : bool; onexit : nat;             (* exitOnce fired, number of OnExit calls *)
  count : Z;                               (* SessionMgr.count *)
  accepted : list nat; delivered : list nat (* ghost: payloads accepted by Send / written to the peer, in order *)
}.

Inductive label :=
| Send (x : nat)        (* Session.Send *)
| LocalClose            (* Session.Close: closes the queue *)
| SendStep              (* one iteration of loopSend: PopAnyway, then write or leave *)
| RecvEnd               (* loopReceive leaves: peer close, read error or timeout, handler error, handler panic *)
| ConnBreak.            (* the peer goes away / a write will fail from now on *)

(* quit(): exitOnce { OnExit; count.Dec; sendQ.Close; conn.Close } *)
Definition quit (s : st) : st :=
  if exited s then s else
  {| q := q s; qclosed := true; conn := false; sendl := sendl s; recvl := recvl s;
     exited := true; onexit := S (onexit s); count := (count s - 1)%Z;
     accepted := accepted s; delivered := delivered s |}.

Definition step (s : st) (l : label) : option st :=
  match l with
  | Send x => if qclosed s then Some s
              else Some {| q := q s ++ [x]; qclosed := false; conn := conn s; sendl := sendl s; recvl := recvl s;
                           exited := exited s; onexit := onexit s; count := count s;
                           accepted := accepted s ++ [x]; delivered := delivered s |}
  | LocalClose => Some {| q := q s; qclosed := true; conn := conn s; sendl := sendl s; recvl := recvl s;
                          exited := exited s; onexit := onexit s; count := count s;
                          accepted := accepted s; delivered := delivered s |}
  | SendStep =>
      if negb (sendl s) then None else
      match q s with
      | x :: r =>
          if conn s
          then Some {| q := r; qclosed := qclosed s; conn := true; sendl := true; recvl := recvl s;
                       exited := exited s; onexit := onexit s; count := count s;
                       accepted := accepted s; delivered := delivered s ++ [x] |}
          else (* write error: leave the loop through the deferred quit *)
               let s1 := quit s in
               Some {| q := r; qclosed := qclosed s1; conn := conn s1; sendl := false; recvl := recvl s1;
                       exited := exited s1; onexit := onexit s1; count := count s1;
                       accepted := accepted s1; delivered := delivered s1 |}
      | [] =>
          if qclosed s
          then let s1 := quit s in
               Some {| q := []; qclosed := qclosed s1; conn := conn s1; sendl := false; recvl := recvl s1;
                       exited := exited s1; onexit := onexit s1; count := count s1;
                       accepted := accepted s1; delivered := delivered s1 |}
          else None                                   (* blocked in PopAnyway *)
      end
  | RecvEnd =>
      if negb (recvl s) then None else
      let s1 := quit s in
      Some {| q := q s1; qclosed := qclosed s1; conn := conn s1; sendl := sendl s1; recvl := false;
              exited := exited s1; onexit := onexit s1; count := count s1;
              accepted := accepted s1; delivered := delivered s1 |}
  | ConnBreak => Some {| q := q s; qclosed := qclosed s; conn := false; sendl := sendl s; recvl := recvl s;
                         exited := exited s; onexit := onexit s; count := count s;
                         accepted := accepted s; delivered := delivered s |}
  end.

Fixpoint run (s : st) (ls : list label) : option st :=
  match ls with [] => Some s | l :: r => match step s l with Some s' => run s' r | None => None end end.

(* Start(): count.Inc, both loops running *)
Definition started (c0 : Z) : st :=
  {| q := []; qclosed := false; conn := true; sendl := true; recvl := true; exited := false; onexit := 0;
     count := (c0 + 1)%Z; accepted := []; delivered := [] |}.

Section P.
Variable c0 : Z.
Definition Inv (s : st) : Prop :=
  onexit s = (if exited s then 1 else 0) /\
  count s = (if exited s then c0 else c0 + 1)%Z /\
  (exited s = true -> qclosed s = true /\ conn s = false) /\
  (sendl s = false \/ recvl s = false -> exited s = true) /\
  (* while nothing has broken, what was accepted is what was delivered plus what is still queued *)
  (conn s = true -> accepted s = delivered s ++ q s).

Lemma quit_facts s : Inv s -> let s1 := quit s in
  exited s1 = true /\ onexit s1 = 1 /\ count s1 = c0 /\ qclosed s1 = true /\ conn s1 = false.
Proof.
  intros (H1 & H2 & H3 & _ & _). unfold quit. destruct (exited s) eqn:E; cbn.
  - destruct (H3 eq_refl). repeat split; auto.
  - repeat split; auto; lia.
Qed.

Ltac five := unfold Inv; cbn; split; [|split; [|split; [|split]]].
Ltac after_quit A B C D E := unfold Inv; cbn; rewrite ?A, ?B, ?C, ?D, ?E;
  split; [reflexivity|split; [reflexivity|split; [auto|split; [auto|discriminate]]]].

Lemma step_inv s l s' : Inv s -> step s l = Some s' -> Inv s'.
Proof.
  intros H Hs. pose proof H as (H1 & H2 & H3 & H4 & H5). destruct l; cbn [step] in Hs.
  - (* Send *)
    destruct (qclosed s) eqn:Eq; inversion Hs; subst; clear Hs; [exact H|]. five.
    + exact H1.
    + exact H2.
    + intros E. destruct (H3 E). congruence.
    + exact H4.
    + intros E. rewrite (H5 E). now rewrite app_assoc.
  - (* LocalClose *)
    inversion Hs; subst; clear Hs. five.
    + exact H1.
    + exact H2.
    + intros E. destruct (H3 E). auto.
    + exact H4.
    + exact H5.
  - (* SendStep *)
    destruct (sendl s) eqn:Es; cbn [negb] in Hs; [|discriminate].
    destruct (q s) as [|x r] eqn:Eq.
    + destruct (qclosed s) eqn:Ec; [|discriminate]. inversion Hs; subst; clear Hs.
      destruct (quit_facts s H) as (A & B & C & D & E). after_quit A B C D E.
    + destruct (conn s) eqn:Ecn; inversion Hs; subst; clear Hs.
      * five.
        -- exact H1.
        -- exact H2.
        -- intros E. destruct (H3 E). congruence.
        -- intros [E|E]; [discriminate|]. apply H4. auto.
        -- intros _. rewrite (H5 eq_refl). now rewrite <- app_assoc.
      * destruct (quit_facts s H) as (A & B & C & D & E). after_quit A B C D E.
  - (* RecvEnd *)
    destruct (recvl s) eqn:Er; cbn [negb] in Hs; [|discriminate]. inversion Hs; subst; clear Hs.
    destruct (quit_facts s H) as (A & B & C & D & E). after_quit A B C D E.
  - (* ConnBreak *)
    inversion Hs; subst; clear Hs. five.
    + exact H1.
    + exact H2.
    + intros E. destruct (H3 E). auto.
    + exact H4.
    + discriminate.
Qed.

Theorem run_inv : forall ls s s', Inv s -> run s ls = Some s' -> Inv s'.
Proof.
  induction ls as [|l ls IH]; intros s s' H Hr; cbn in Hr; [now inversion Hr; subst|].
  destruct (step s l) as [s1|] eqn:E; [|discriminate]. eapply IH; [eapply step_inv; eauto|eauto].
Qed.

Lemma started_inv : Inv (started c0).
Proof. unfold Inv, started; cbn. repeat split; auto; try discriminate. intros [E|E]; discriminate. Qed.

(* whatever ends the session, in whatever order: OnExit ran exactly once when both loops are gone, the count is
   back, the connection is closed *)
Theorem single_exit ls s : run (started c0) ls = Some s -> sendl s = false -> recvl s = false ->
  onexit s = 1 /\ count s = c0 /\ conn s = false /\ qclosed s = true.
Proof.
  intros Hr Hs _. destruct (run_inv ls _ _ started_inv Hr) as (H1 & H2 & H3 & H4 & _).
  assert (E : exited s = true) by (apply H4; auto). rewrite E in *. destruct (H3 eq_refl). auto.
Qed.

Theorem exit_at_most_once ls s : run (started c0) ls = Some s -> onexit s <= 1 /\ (c0 <= count s <= c0 + 1)%Z.
Proof.
  intros Hr. destruct (run_inv ls _ _ started_inv Hr) as (H1 & H2 & _). destruct (exited s); lia.
Qed.

(* flush: if the send loop leaves because the queue was closed locally while the connection was still up,
   the peer has received every accepted payload, in order *)
Theorem flush_before_local_close ls s : run (started c0) ls = Some s ->
  conn s = true -> q s = [] -> delivered s = accepted s.
Proof.
  intros Hr Hc Hq. destruct (run_inv ls _ _ started_inv Hr) as (_ & _ & _ & _ & H5).
  rewrite (H5 Hc), Hq. now rewrite app_nil_r.
Qed.
End P.
Print Assumptions single_exit.
Print Assumptions flush_before_local_close.
