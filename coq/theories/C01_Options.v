(* C01: the configuration of a semaphore map is a FUNCTION of the options given to ITS OWN constructor call
   (option.go: RangeOption starts from a fresh _Option{rwRatio: DefaultRWRatio} and applies the options in order;
   NewSemMap / NewWideSemMap / NewWideXHashSemMap all go through it).  No WithRwRatio => DefaultRWRatio = 10;
   no WithPrime (or 0) => the remap package default.  Earlier constructor calls cannot matter. *)
From Coq Require Import ZArith List Lia.
Import ListNotations.
Open Scope Z_scope.

Inductive opt := WithRwRatio (r : Z) | WithPrime (p : Z).
Record ocfg := { o_ratio : Z; o_prime : Z }.          (* o_prime = 0: the remap default (73 shards) *)
Definition default_ratio : Z := 10.                   (* DefaultRWRatio *)
Definition default_cfg : ocfg := {| o_ratio := default_ratio; o_prime := 0 |}.
Definition apply_opt (c : ocfg) (o : opt) : ocfg :=
  match o with
  | WithRwRatio r => {| o_ratio := r; o_prime := o_prime c |}
  | WithPrime p => {| o_ratio := o_ratio c; o_prime := p |}
  end.
Definition options (l : list opt) : ocfg := fold_left apply_opt l default_cfg.

Definition is_ratio (o : opt) : bool := match o with WithRwRatio _ => true | _ => false end.

Lemma fold_ratio_keep l : forall c, forallb (fun o => negb (is_ratio o)) l = true -> o_ratio (fold_left apply_opt l c) = o_ratio c.
Proof.
  induction l as [|o l IH]; intros c H; [reflexivity|]. cbn in H. apply andb_prop in H as [Ho Hl].
  cbn [fold_left]. rewrite (IH _ Hl). destruct o; [discriminate|reflexivity].
Qed.

(* a map built without WithRwRatio has the default ratio, whatever else is passed *)
Theorem options_default_ratio l : forallb (fun o => negb (is_ratio o)) l = true -> o_ratio (options l) = default_ratio.
Proof. intros H. unfold options. now rewrite fold_ratio_keep. Qed.

(* the last WithRwRatio wins *)
Theorem options_last_ratio l r l' : forallb (fun o => negb (is_ratio o)) l' = true ->
  o_ratio (options (l ++ WithRwRatio r :: l')) = r.
Proof. intros H. unfold options. rewrite fold_left_app. cbn [fold_left]. now rewrite fold_ratio_keep. Qed.

(* a history of constructor calls: the i-th map is configured by the i-th option list alone *)
Definition ctor_history (h : list (list opt)) : list ocfg := map options h.
Theorem ctor_independent h i : nth i (ctor_history h) default_cfg = options (nth i h []).
Proof. unfold ctor_history. change default_cfg with (options []). apply map_nth. Qed.
Theorem ctor_independent_of_earlier h1 h2 l : nth (length h1) (ctor_history (h1 ++ l :: h2)) default_cfg = options l.
Proof. rewrite ctor_independent. rewrite app_nth2, Nat.sub_diag by lia. reflexivity. Qed.

(* refuted variant: one shared default object written through a pointer - every option leaks into the later maps *)
Fixpoint leaky_history (c : ocfg) (h : list (list opt)) : list ocfg :=
  match h with [] => [] | l :: h' => let c' := fold_left apply_opt l c in c' :: leaky_history c' h' end.
Example shared_default_refuted :
  map o_ratio (leaky_history default_cfg [[WithRwRatio 30]; []]) = [30; 30] /\
  map o_ratio (ctor_history [[WithRwRatio 30]; []]) = [30; 10].
Proof. split; reflexivity. Qed.

Print Assumptions ctor_independent_of_earlier.
