(* C10: typed write / read programs over BufferX.  Every codec decodes its own encoding off the front of any
   continuation; therefore any sequence of typed writes is read back, value for value, by the same sequence of reads *)
From Coq Require Import ZArith List Lia Bool.
Require Import LE Varint.
Import ListNotations.
Open Scope Z_scope.

Inductive ty := TU8 | TU16 | TU32 | TU64 | TVarU64 | TBool | TStr.
Inductive value := VInt (z : Z) | VBool (b : bool) | VStr (s : list Z).

Definition ok (t : ty) (v : value) : Prop :=
  match t, v with
  | TU8, VInt z => 0 <= z < 2 ^ 8
  | TU16, VInt z => 0 <= z < 2 ^ 16
  | TU32, VInt z => 0 <= z < 2 ^ 32
  | TU64, VInt z | TVarU64, VInt z => 0 <= z < 2 ^ 64
  | TBool, VBool _ => True
  | TStr, VStr s => Z.of_nat (length s) < 2 ^ 32                 (* uint32(len(val)) does not wrap *)
  | _, _ => False
  end.

Definition enc (t : ty) (v : value) : list Z :=
  match t, v with
  | TU8, VInt z => le_bytes 1 z
  | TU16, VInt z => le_bytes 2 z
  | TU32, VInt z => le_bytes 4 z
  | TU64, VInt z => le_bytes 8 z
  | TVarU64, VInt z => put_uvarint 10 z
  | TBool, VBool b => [if b then 1 else 0]
  | TStr, VStr s => le_bytes 4 (Z.of_nat (length s)) ++ s        (* WriteU32(size); WriteString(val) *)
  | _, _ => []
  end.

(* Read(p): all len(p) bytes or an error *)
Definition take (n : nat) (bs : list Z) : option (list Z * list Z) :=
  if Nat.ltb (length bs) n then None else Some (firstn n bs, skipn n bs).
Definition dec_fixed (n : nat) (bs : list Z) : option (value * list Z) :=
  match take n bs with Some (a, r) => Some (VInt (le_val a), r) | None => None end.

Definition dec (t : ty) (bs : list Z) : option (value * list Z) :=
  match t with
  | TU8 => dec_fixed 1 bs
  | TU16 => dec_fixed 2 bs
  | TU32 => dec_fixed 4 bs
  | TU64 => dec_fixed 8 bs
  | TVarU64 => match get_uvarint bs 0 0 0 with Ok x r => Some (VInt x, r) | _ => None end
  | TBool => match take 1 bs with Some (a, r) => Some (VBool (negb (le_val a =? 0)), r) | None => None end
  | TStr => match dec_fixed 4 bs with
            | Some (VInt n, r) => match take (Z.to_nat n) r with Some (s, r') => Some (VStr s, r') | None => None end   (* Next(size); len(data) != size *)
            | _ => None
            end
  end.

Lemma take_app a r n : length a = n -> take n (a ++ r) = Some (a, r).
Proof.
  intros H. unfold take. rewrite app_length. replace (Nat.ltb (length a + length r) n) with false by (symmetry; apply Nat.ltb_ge; lia).
  rewrite (firstn_exact a r n H), (skipn_exact a r n H). reflexivity.
Qed.
Lemma dec_fixed_enc n z r : 0 <= z < 256 ^ Z.of_nat n -> dec_fixed n (le_bytes n z ++ r) = Some (VInt z, r).
Proof. intros H. unfold dec_fixed. rewrite (take_app _ _ n (le_bytes_length n z)). rewrite (le_roundtrip n z H). reflexivity. Qed.

(* each codec reads back its own encoding from the front of any continuation *)
Theorem dec_enc t v rest : ok t v -> dec t (enc t v ++ rest) = Some (v, rest).
Proof.
  destruct t, v; cbn [ok enc dec]; intros H; try contradiction.
  - apply (dec_fixed_enc 1). change (256 ^ Z.of_nat 1) with (2 ^ 8). exact H.
  - apply (dec_fixed_enc 2). change (256 ^ Z.of_nat 2) with (2 ^ 16). exact H.
  - apply (dec_fixed_enc 4). change (256 ^ Z.of_nat 4) with (2 ^ 32). exact H.
  - apply (dec_fixed_enc 8). change (256 ^ Z.of_nat 8) with (2 ^ 64). exact H.
  - rewrite (uvarint_roundtrip z rest H). reflexivity.
  - rewrite (take_app [if b then 1 else 0] rest 1 eq_refl). destruct b; reflexivity.
  - rewrite <- app_assoc. rewrite (dec_fixed_enc 4) by (change (256 ^ Z.of_nat 4) with (2 ^ 32); lia).
    rewrite Nat2Z.id. rewrite (take_app s rest (length s) eq_refl). reflexivity.
Qed.

(* ---- programs ---- *)
Fixpoint enc_all (p : list (ty * value)) : list Z :=
  match p with [] => [] | (t, v) :: r => enc t v ++ enc_all r end.
Fixpoint dec_all (ts : list ty) (bs : list Z) : option (list value * list Z) :=
  match ts with
  | [] => Some ([], bs)
  | t :: r => match dec t bs with
              | Some (v, bs') => match dec_all r bs' with Some (vs, rest) => Some (v :: vs, rest) | None => None end
              | None => None
              end
  end.

Theorem program_roundtrip p rest : Forall (fun tv => ok (fst tv) (snd tv)) p ->
  dec_all (map fst p) (enc_all p ++ rest) = Some (map snd p, rest).
Proof.
  induction 1 as [|[t v] p Hv _ IH]; [reflexivity|].
  cbn [map fst snd enc_all dec_all] in *. rewrite <- app_assoc. rewrite (dec_enc t v _ Hv). rewrite IH. reflexivity.
Qed.

(* a truncated stream never yields a value of a fixed-width type: the reader reports an error instead *)
Theorem fixed_truncated n bs : (length bs < n)%nat -> dec_fixed n bs = None.
Proof. intros H. unfold dec_fixed, take. replace (Nat.ltb (length bs) n) with true by (symmetry; apply Nat.ltb_lt; exact H). reflexivity. Qed.

Example demo : dec_all [TU16; TStr; TVarU64; TBool; TU8]
    (enc_all [(TU16, VInt 513); (TStr, VStr [104; 105]); (TVarU64, VInt 300); (TBool, VBool true); (TU8, VInt 7)] ++ [99])
  = Some ([VInt 513; VStr [104; 105]; VInt 300; VBool true; VInt 7], [99]).
Proof. vm_compute. reflexivity. Qed.

Print Assumptions program_roundtrip.
