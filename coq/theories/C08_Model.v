(* C08 bitmap1024: executable model of bitmap1024/internal/bit64.go and bitmap1024/bit1024.go.
   A word is an N below 2^64 (what a case file carries, what BitSet.v states And/Or/Reverse on);
   the loops below mirror the Go loops statement by statement:
     w & tab[i] != 0      N.testbit w i
     w &= ^tab[i]         N.clearbit w i
     w == 0               (w =? 0)%N
     TrailingZeros64(w)   ctz w          (structural on the binary representation)
     Len64(w) - 1         N.log2 w
     OnesCount64(w)       popcount w     (structural on the binary representation)
     s[cursor] = v        store s cursor v   (None = index out of range = Go panic)
     T(i) + add           norm ty (i + add)  (wrap-around of the element type T)              *)
From Coq Require Import List Bool ZArith NArith Lia.
Require Import BitSet.
Import ListNotations.
Open Scope Z_scope.

(* ---------------- element types of the twenty iterator copies ---------------- *)
Inductive ity := I8 | I16 | I32 | U32 | I64.

Definition norm (ty : ity) (x : Z) : Z :=
  match ty with
  | I8 => (x + 128) mod 256 - 128
  | I16 => (x + 32768) mod 65536 - 32768
  | I32 => (x + 2147483648) mod 4294967296 - 2147483648
  | U32 => x mod 4294967296
  | I64 => (x + 9223372036854775808) mod 18446744073709551616 - 9223372036854775808
  end.

(* ---------------- outcomes ---------------- *)
Inductive out := Panic | OutOfFuel | Ok (buf : list Z) (count : Z).

(* ---------------- the slice ---------------- *)
Fixpoint upd_nth (l : list Z) (k : nat) (v : Z) : list Z :=
  match l, k with
  | [], _ => []
  | _ :: r, O => v :: r
  | x :: r, S k' => x :: upd_nth r k' v
  end.

(* s[cursor] = v : panics unless 0 <= cursor < len(s) *)
Definition store (s : list Z) (cursor v : Z) : option (list Z) :=
  if (0 <=? cursor) && (cursor <? Z.of_nat (length s)) then Some (upd_nth s (Z.to_nat cursor) v) else None.

(* ---------------- math/bits ---------------- *)
Fixpoint pc (p : positive) : nat := match p with xH => 1 | xO q => pc q | xI q => S (pc q) end.
Definition popcount (w : N) : nat := match w with N0 => O | Npos p => pc p end.
Fixpoint ctzP (p : positive) : N := match p with xO q => N.succ (ctzP q) | _ => 0%N end.
Definition ctz (w : N) : N := match w with N0 => 64%N | Npos p => ctzP p end.

(* Bit64.Len / NLen / Full *)
Definition full64 (w : N) : bool := N.eqb w ones.
Definition len64 (w : N) : Z := if full64 w then 64 else Z.of_nat (popcount w).
Definition nlen64 (w : N) : Z := 64 - len64 w.

(* ---------------- loop index sequences ---------------- *)
Fixpoint asc (i : N) (k : nat) : list N := match k with O => [] | S k' => i :: asc (N.succ i) k' end.
Fixpoint desc (k : nat) : list N := match k with O => [] | S k' => N.of_nat k' :: desc k' end.
(* for i := 0; i < 64; i++   /   for i := 63; i >= 0; i-- *)
Definition ord (rev : bool) : list N := if rev then desc 64 else asc 0 64.
(* the find-first-set of the sparse branch *)
Definition pick (rev : bool) (w : N) : N := if rev then N.log2 w else ctz w.

Section Iter.
  Variable ty : ity.
  Variable add : Z.
  Definition val (i : N) : Z := norm ty (Z.of_N i + add).

  (* for i := ... { if w&tab[i] != 0 { if c >= n || c >= l {break}; s[cursor] = i + add; cursor++; c++; w &= ^tab[i]; if w == 0 {break} } } *)
  Fixpoint dense (order : list N) (w : N) (n l c cursor : Z) (s : list Z) : out :=
    match order with
    | [] => Ok s c
    | i :: rest =>
      if N.testbit w i then
        if (c >=? n) || (c >=? l) then Ok s c
        else match store s cursor (val i) with
             | None => Panic
             | Some s' =>
               let w' := N.clearbit w i in
               if N.eqb w' 0 then Ok s' (c + 1) else dense rest w' n l (c + 1) (cursor + 1) s'
             end
      else dense rest w n l c cursor s
    end.

  (* for w != 0 { i = ctz(w) | Len64(w)-1; if c >= n || c >= l {break}; s[cursor] = T(i) + add; cursor++; c++; w &= ^tab[i] } *)
  Fixpoint sparse (fuel : nat) (rev : bool) (w : N) (n l c cursor : Z) (s : list Z) : out :=
    match fuel with
    | O => OutOfFuel
    | S f =>
      if N.eqb w 0 then Ok s c
      else
        let i := pick rev w in
        if (c >=? n) || (c >=? l) then Ok s c
        else match store s cursor (val i) with
             | None => Panic
             | Some s' => sparse f rev (N.clearbit w i) n l (c + 1) (cursor + 1) s'
             end
    end.

  (* Bit64.IterAsT / RIterAsT *)
  Definition iter64 (rev : bool) (magic : Z) (w : N) (s : list Z) (pos n : Z) : out :=
    let l := len64 w in
    if l =? 0 then Ok s 0
    else if magic <? l then dense (ord rev) w n l 0 pos s
    else sparse 65 rev w n l 0 pos s.
End Iter.

(* ---------------- Bit1024 ---------------- *)
Definition word (ws : list N) (k : Z) : N := nth (Z.to_nat k) ws 0%N.
(* for i := 0; i < 16; i++   /   for i := 15; i >= 0; i-- *)
Definition words_ord (rev : bool) : list Z := map Z.of_N (if rev then desc 16 else asc 0 16).

(* for i ... { if iterN >= n {break}; e = b[i].IterAsT(s, cursor, 64*i+add, left); iterN += e; cursor += e; left = n - iterN } *)
Fixpoint chain (ty : ity) (rev : bool) (magic : Z) (ws : list N) (add n : Z)
               (ks : list Z) (iterN left cursor : Z) (s : list Z) : out :=
  match ks with
  | [] => Ok s iterN
  | k :: ks' =>
    if iterN >=? n then Ok s iterN
    else match iter64 ty (norm ty (64 * k + add)) rev magic (word ws k) s cursor left with
         | Panic => Panic
         | OutOfFuel => OutOfFuel
         | Ok s' e => chain ty rev magic ws add n ks' (iterN + e) (n - (iterN + e)) (cursor + e) s'
         end
  end.

Definition iter1024 (ty : ity) (rev : bool) (magic : Z) (ws : list N) (s : list Z) (pos add n : Z) : out :=
  chain ty rev magic ws add n (words_ord rev) 0 n pos s.

(* ---------------- GetNAsT / RGetNAsT: make([]T, n), iterate at pos 0 with add 0, s[:iterN] (nil when 0) ---------------- *)
Inductive gout := GPanic | GOutOfFuel | GOk (l : list Z).
Definition zeros (n : Z) : list Z := repeat 0 (Z.to_nat n).
Definition getn_of (n : Z) (run : list Z -> out) : gout :=
  if n <? 0 then GPanic                      (* make with a negative length *)
  else match run (zeros n) with
       | Panic => GPanic
       | OutOfFuel => GOutOfFuel
       | Ok s c => if c =? 0 then GOk [] else GOk (firstn (Z.to_nat c) s)
       end.
Definition getn64 ty rev magic w n := getn_of n (fun s => iter64 ty 0 rev magic w s 0 n).
Definition getn1024 ty rev magic ws n := getn_of n (fun s => iter1024 ty rev magic ws s 0 0 n).

(* ---------------- the set half on lists of 16 words (BitSet.v has it on functions nat -> N) ---------------- *)
Definition to_list (b : bitmap) : list N := map b (seq 0 16).
Inductive pkind := PSetI32 | PUnsetI32 | PSetI16 | PUnsetI16.
(* SetI16 / UnsetI16 are the same statements on an int16 argument *)
Definition point (k : pkind) (ws : list N) (i : Z) : list N :=
  match k with
  | PSetI32 | PSetI16 => to_list (set_i32 (of_list ws) i)
  | PUnsetI32 | PUnsetI16 => to_list (unset_i32 (of_list ws) i)
  end.
Inductive bkind := BAnd | BOr | BOrThenReverse.
Definition binop (k : bkind) (a b : list N) : list N :=
  match k with
  | BAnd => to_list (band (of_list a) (of_list b))
  | BOr => to_list (bor (of_list a) (of_list b))
  | BOrThenReverse => to_list (bor_rev (of_list a) (of_list b))
  end.
Definition reverse1024 (a : list N) : list N := to_list (brev (of_list a)).
Definition equal1024 (a b : list N) : bool := bequal (of_list a) (of_list b).
(* for i := 0; i < 16; i++ { c += b[i].Len() } *)
Definition len1024 (ws : list N) : Z := fold_left (fun c k => c + len64 (word ws k)) (words_ord false) 0.
Definition nlen1024 (ws : list N) : Z := 1024 - len1024 ws.

(* Bit64's own methods *)
Inductive wkind := WSet | WUnset | WAnd | WOr | WReverse.
Definition wordop (k : wkind) (w : N) (arg : Z) : N :=
  match k with
  | WSet => set64 w arg                       (* arg : byte *)
  | WUnset => unset64 w arg
  | WAnd => N.land w (Z.to_N arg)
  | WOr => N.lor w (Z.to_N arg)
  | WReverse => N.lxor w ones
  end.
