(* C12: run-length encoded sequential histories (class "backlog sizes x operation").
   A run ((o, r), n) stands for the n steps (o, r), (o+1, r+1), ..., (o+n-1, r+n-1) where "+i" adds i to the item of an add
   and to the item of an RItem result (items are consecutive integers) and leaves everything else alone: n ordinary adds of
   consecutive items, n pops handing out consecutive items, n identical calls with identical answers.
   A run-length case is judged by EXPANDING it and applying the ordinary accept / holds of the queue type, so soundness is the
   sequential simulation theorem.  This lets a history with a backlog of 1025 items travel as a dozen runs. *)
From Coq Require Import ZArith List Bool Lia.
Require Import C12_Base C12_Pipe C12_MQ C12_Sync C12_Pri.
Import ListNotations.

Definition shift_res (i : Z) (r : res) : res := match r with RItem x => RItem (x + i) | _ => r end.
Definition shift_pop (i : Z) (o : pop) : pop :=
  match o with PAdd x => PAdd (x + i) | PAddAnyway x => PAddAnyway (x + i) | PPrior x => PPrior (x + i) | _ => o end.
Definition shift_mop (i : Z) (o : mop) : mop :=
  match o with
  | MAddCtrl x => MAddCtrl (x + i) | MAddCtrlAnyway x => MAddCtrlAnyway (x + i) | MPriorCtrl x => MPriorCtrl (x + i)
  | MAddReq x => MAddReq (x + i) | MAddReqAnyway x => MAddReqAnyway (x + i) | MPriorReq x => MPriorReq (x + i)
  | _ => o end.
Definition shift_sop (i : Z) (o : sop) : sop := match o with SPush x => SPush (x + i) | _ => o end.
Definition shift_qop (i : Z) (o : qop) : qop := match o with QPush p x => QPush p (x + i) | _ => o end.

Section Runs.
  Context {O : Type}.
  Variable shift : Z -> O -> O.
  Definition run := ((O * res) * nat)%type.
  Definition expand1 (e : run) : list (O * res) :=
    map (fun i => (shift (Z.of_nat i) (fst (fst e)), shift_res (Z.of_nat i) (snd (fst e)))) (seq 0 (snd e)).
  Definition expand (l : list run) : list (O * res) := flat_map expand1 l.

  Lemma expand_single o r : expand1 ((o, r), 1%nat) = [(shift 0%Z o, shift_res 0%Z r)].
  Proof. reflexivity. Qed.
  Lemma expand_length l : length (expand l) = fold_right (fun e n => (snd e + n)%nat) 0%nat l.
  Proof.
    induction l as [|e l IH]; [reflexivity|]. unfold expand in *. cbn [flat_map fold_right]. rewrite app_length, IH.
    unfold expand1. now rewrite map_length, seq_length.
  Qed.
End Runs.

Definition pl_accept (k : pkind) (n : Z) (l : list (@run pop)) : bool := p_accept k n (expand shift_pop l).
Definition pl_holds (n : Z) (l : list (@run pop)) : bool := p_holds n (expand shift_pop l).
Definition ml_accept (cm rm : Z) (l : list (@run mop)) : bool := m_accept cm rm (expand shift_mop l).
Definition ml_holds (cm rm : Z) (l : list (@run mop)) : bool := m_holds cm rm (expand shift_mop l).
Definition sl_accept (l : list (@run sop)) : bool := s_accept (expand shift_sop l).
Definition sl_holds (l : list (@run sop)) : bool := s_holds (expand shift_sop l).
Definition ql_accept (n : Z) (l : list (@run qop)) : bool := q_accept n (expand shift_qop l).
Definition ql_holds (n : Z) (l : list (@run qop)) : bool := q_holds n (expand shift_qop l).

Theorem pl_sound k n l : pl_accept k n l = true -> pl_holds n l = true.
Proof. apply p_accept_sound. Qed.
Theorem ml_sound cm rm l : ml_accept cm rm l = true -> ml_holds cm rm l = true.
Proof. apply m_accept_sound. Qed.
Theorem sl_sound l : sl_accept l = true -> sl_holds l = true.
Proof. apply s_accept_sound. Qed.
Theorem ql_sound n l : ql_accept n l = true -> ql_holds n l = true.
Proof. apply q_accept_sound. Qed.

(* the statement the class is about, for every backlog size b and every number h of earlier pops, on the model:
   after h items have come and gone and b items are queued, a prior add goes in front of all b and an ordinary add behind all b,
   and the drain hands out exactly that order. *)
Lemma p_drain_open : forall (l : list Z) c cp,
  h_run p_step {| items := l; closed := c; cap := cp |} (repeat PPopAnyway (length l)) =
  (map (fun y => (PPopAnyway, RItem y)) l, {| items := []; closed := c; cap := cp |}).
Proof.
  induction l as [|y l IH]; intros c cp; [reflexivity|].
  cbn [length repeat map]. change (h_run p_step {| items := y :: l; closed := c; cap := cp |} (PPopAnyway :: repeat PPopAnyway (length l))) with
    (let '(h, s'') := h_run p_step {| items := l; closed := c; cap := cp |} (repeat PPopAnyway (length l)) in ((PPopAnyway, RItem y) :: h, s'')).
  rewrite IH. reflexivity.
Qed.

Theorem p_backlog_prior : forall (l : list Z) (x : Z) s, closed s = false -> items s = l ->
  h_run p_step s (PPrior x :: repeat PPopAnyway (S (length l))) =
  ((PPrior x, RDone) :: map (fun y => (PPopAnyway, RItem y)) (x :: l), set_items s []).
Proof.
  intros l x [it c cp] Hc Hi. cbn [closed items] in Hc, Hi. subst c it.
  change (PPrior x :: repeat PPopAnyway (S (length l))) with ([PPrior x] ++ repeat PPopAnyway (length (x :: l))).
  rewrite h_run_app.
  assert (E : h_run p_step {| items := l; closed := false; cap := cp |} [PPrior x] =
              ([(PPrior x, RDone)], {| items := x :: l; closed := false; cap := cp |})) by reflexivity.
  rewrite E. cbn [fst snd]. rewrite p_drain_open. reflexivity.
Qed.

Theorem p_backlog_add : forall (l : list Z) (x : Z) s, closed s = false -> items s = l -> full (cap s) (length l) = false ->
  h_run p_step s (PAdd x :: repeat PPopAnyway (S (length l))) =
  ((PAdd x, RDone) :: map (fun y => (PPopAnyway, RItem y)) (l ++ [x]), set_items s []).
Proof.
  intros l x [it c cp] Hc Hi Hf. cbn [closed items cap] in Hc, Hi, Hf. subst c it.
  replace (S (length l)) with (length (l ++ [x])) by (rewrite app_length; cbn; lia).
  change (PAdd x :: repeat PPopAnyway (length (l ++ [x]))) with ([PAdd x] ++ repeat PPopAnyway (length (l ++ [x]))).
  rewrite h_run_app.
  assert (E : h_run p_step {| items := l; closed := false; cap := cp |} [PAdd x] =
              ([(PAdd x, RDone)], {| items := l ++ [x]; closed := false; cap := cp |})).
  { cbn [h_run p_step]. unfold p_add. cbn [closed items cap]. rewrite Hf. reflexivity. }
  rewrite E. cbn [fst snd]. rewrite p_drain_open. reflexivity.
Qed.

Example ex_runs_expand :
  expand shift_pop [((PAdd 1%Z, RDone), 3%nat); ((PPrior 9%Z, RDone), 1%nat); ((PPopAnyway, RItem 9%Z), 1%nat); ((PPopAnyway, RItem 1%Z), 3%nat)] =
  [(PAdd 1%Z, RDone); (PAdd 2%Z, RDone); (PAdd 3%Z, RDone); (PPrior 9%Z, RDone); (PPopAnyway, RItem 9%Z);
   (PPopAnyway, RItem 1%Z); (PPopAnyway, RItem 2%Z); (PPopAnyway, RItem 3%Z)].
Proof. vm_compute. reflexivity. Qed.
(* seeded change r6-m1: a prior add on a backlog of exactly 16 overwrites the last queued item and the pops return nil (-1) *)
Example ex_runs_ring_stale_mask :
  pl_holds 0%Z [((PAdd 1%Z, RDone), 16%nat); ((PPrior 99%Z, RDone), 1%nat); ((PPopAnyway, RItem (-1)%Z), 1%nat)] = false.
Proof. vm_compute. reflexivity. Qed.
Example ex_runs_backlog_ok :
  pl_accept KAsync 0%Z [((PAdd 1%Z, RDone), 19%nat); ((PPopAnyway, RItem 1%Z), 3%nat); ((PPrior 99%Z, RDone), 1%nat);
                        ((PPopAnyway, RItem 99%Z), 1%nat); ((PPopAnyway, RItem 4%Z), 16%nat); ((PPopAnyway, RNotIssued), 2%nat)] = true.
Proof. vm_compute. reflexivity. Qed.
