(* C13: the priority queue's wake-up protocol.  A one-slot signal channel; Push and a Pop that leaves items behind
   try to put a token after releasing the mutex; a consumer takes the token and then pops.
   No lost wake-up: whenever items remain, a token is in the channel, or is about to be put, or a consumer holding
   the token is about to pop *)
From Coq Require Import List Bool Arith Lia.
Import ListNotations.

Record pq := { cap : nat; items : nat; token : bool; pend : nat; holding : nat }.
(* pend: operations past their mutex section that have not yet run trySignal; holding: consumers that took the token
   and have not yet popped *)
Inductive label := PushLocked | Signal | Recv | PopHeld | PopDirect.

Definition after_pop (s : pq) (h : nat) : pq :=
  match items s with
  | O => {| cap := cap s; items := 0; token := token s; pend := pend s; holding := h |}                 (* Pop returns nil *)
  | S n => {| cap := cap s; items := n; token := token s; pend := (if Nat.ltb 0 n then S (pend s) else pend s); holding := h |}
  end.

Definition step (s : pq) (l : label) : option pq :=
  match l with
  | PushLocked => if Nat.ltb (items s) (cap s)
                  then Some {| cap := cap s; items := S (items s); token := token s; pend := S (pend s); holding := holding s |}
                  else None                                                                                  (* ErrQueueIsFull: no signal *)
  | Signal => match pend s with
              | S p => Some {| cap := cap s; items := items s; token := true; pend := p; holding := holding s |}   (* send or default *)
              | O => None end
  | Recv => if token s then Some {| cap := cap s; items := items s; token := false; pend := pend s; holding := S (holding s) |} else None
  | PopHeld => match holding s with S h => Some (after_pop s h) | O => None end
  | PopDirect => Some (after_pop s (holding s))
  end.
Definition run (s : pq) (ls : list label) : option pq :=
  fold_left (fun o l => match o with Some s => step s l | None => None end) ls (Some s).
Definition init (c : nat) : pq := {| cap := c; items := 0; token := false; pend := 0; holding := 0 |}.

Definition Inv (s : pq) : Prop := items s <= cap s /\ (0 < items s -> token s = true \/ 0 < pend s \/ 0 < holding s).

Theorem inv_step s l s' : Inv s -> step s l = Some s' -> Inv s'.
Proof.
  intros [Hc Hw] H. destruct l; cbn [step] in H.
  - destruct (Nat.ltb (items s) (cap s)) eqn:E; [|discriminate]. apply Nat.ltb_lt in E. inversion H; subst; clear H. unfold Inv; cbn. split; [lia|]. intros _. right. left. lia.
  - destruct (pend s) as [|p] eqn:E; [discriminate|]. inversion H; subst; clear H. unfold Inv; cbn. split; [exact Hc|]. intros _. left. reflexivity.
  - destruct (token s) eqn:E; [|discriminate]. inversion H; subst; clear H. unfold Inv; cbn. split; [exact Hc|]. intros _. right. right. lia.
  - destruct (holding s) as [|h] eqn:E; [discriminate|]. inversion H; subst; clear H. unfold Inv, after_pop.
    destruct (items s) as [|n] eqn:Ei; cbn; [split; [lia|lia]|]. split; [lia|]. intros Hn.
    destruct n as [|m]; [lia|]. cbn. right. left. lia.
  - inversion H; subst; clear H. unfold Inv, after_pop.
    destruct (items s) as [|n] eqn:Ei; cbn; [split; [lia|lia]|]. split; [lia|]. intros Hn.
    destruct n as [|m]; [lia|]. cbn. right. left. lia.
Qed.

Lemma init_inv c : Inv (init c).
Proof. unfold Inv, init; cbn. split; lia. Qed.

Theorem run_inv ls : forall s s', Inv s -> run s ls = Some s' -> Inv s'.
Proof.
  unfold run. induction ls as [|l ls IH]; intros s s' HI H; cbn [fold_left] in H.
  - inversion H; subst. exact HI.
  - destruct (step s l) as [s1|] eqn:E; [apply (IH s1 s' (inv_step s l s1 HI E) H)|].
    exfalso. clear -H. induction ls as [|l' ls IH]; cbn [fold_left] in H; [discriminate|auto].
Qed.

(* no lost wake-up: when every operation has finished its signalling and no consumer sits between receive and pop,
   a non-empty queue has its token in the channel, so a consumer selecting on WaitCh() is woken *)
Corollary no_lost_wakeup c ls s : run (init c) ls = Some s -> pend s = 0 -> holding s = 0 -> 0 < items s -> token s = true.
Proof.
  intros H Hp Hh Hi. destruct (run_inv ls (init c) s (init_inv c) H) as [_ Hw]. destruct (Hw Hi) as [E|[E|E]]; [exact E|lia|lia].
Qed.

(* k items are handed to consumers one after the other: from any reachable state with items left, the protocol's own
   steps plus one waiting consumer always have a move, and each full round (Signal*, Recv, PopHeld) removes an item *)
Theorem consumer_progress c ls s : run (init c) ls = Some s -> 0 < items s ->
  (exists s', step s Signal = Some s') \/ (exists s', step s Recv = Some s') \/ (exists s', step s PopHeld = Some s').
Proof.
  intros H Hi. destruct (run_inv ls (init c) s (init_inv c) H) as [_ Hw]. destruct (Hw Hi) as [E|[E|E]].
  - right. left. cbn [step]. rewrite E. eexists. reflexivity.
  - left. cbn [step]. destruct (pend s); [lia|]. eexists. reflexivity.
  - right. right. cbn [step]. destruct (holding s); [lia|]. eexists. reflexivity.
Qed.
(* non-vacuity: two pushes whose signals collapse into one token, two consumers served one after the other *)
Example demo : exists s, run (init 2) [PushLocked; PushLocked; Signal; Signal; Recv; PopHeld; Signal; Recv; PopHeld] = Some s
  /\ items s = 0 /\ token s = false /\ pend s = 0 /\ holding s = 0.
Proof. eexists. split; [vm_compute; reflexivity|]. vm_compute. auto. Qed.

Print Assumptions no_lost_wakeup.
