(* C04: first touches.  Calls that only Set pairwise distinct keys (and read) into a cache that can hold all the items Set:
   in EVERY order of the calls every item that was Set is in the cache at the end, with its value and size.  For a wide
   cache this holds shard by shard (each shard is the single cache run on the calls routed to it), whatever the routing and
   the shard count: the monitor first_ok of C04_Check.v expects exactly the Set keys to be present. *)
From Coq Require Import ZArith List Lia Bool.
Require Import LRU Shard Cases_Common LRUOps C04_Model C04_Refine C04_Wide C04_Theorems C04_Check C04_Burst.
Import ListNotations.
Open Scope Z_scope.

Definition fop (o : op) : Prop := match o with Set_ _ _ _ | Get _ | Peek _ | Exist _ => True | _ => False end.
(* the item a call writes, as the variant sees it *)
Definition wr (v : variant) (o : op) : list bwrite := match norm v o with Set_ k x s => [(k, x, s)] | _ => [] end.
Definition wkeyw (w : bwrite) : Z := fst (fst w).

Lemma nodup_key_inj (W : list bwrite) w1 w2 : NoDup (map wkeyw W) -> In w1 W -> In w2 W -> wkeyw w1 = wkeyw w2 -> w1 = w2.
Proof.
  induction W as [|w W IH]; intros Hnd H1 H2 E; [contradiction|]. cbn [map] in Hnd. inversion Hnd as [|? ? Hn Hnd']; subst.
  destruct H1 as [<-|H1]; destruct H2 as [<-|H2]; [reflexivity| | |apply IH; assumption].
  - exfalso. apply Hn. rewrite E. apply in_map, H2.
  - exfalso. apply Hn. rewrite <- E. apply in_map, H1.
Qed.

Section First.
Variables (v : variant) (cap0 : Z) (ops : list op).
Hypothesis Hcap : cap_dom cap0.
Hypothesis Hd : Forall op_dom ops.
Hypothesis Hf : Forall fop ops.
Let W := flat_map (wr v) ops.
Let univ := map wkeyw W.
Hypothesis Hnd : NoDup univ.
Hypothesis Hfit : zsum (map snd W) <= cap0.

Lemma first_wf : wfW W univ.
Proof.
  split.
  - intros w Hw. split; [exact (in_map wkeyw W w Hw)|]. unfold W in Hw. apply in_flat_map in Hw. destruct Hw as (o & Ho & Hw).
    rewrite Forall_forall in Hd. destruct (Hd o Ho) as [Hok _]. unfold wr in Hw. destruct v, o; cbn in Hw, Hok; try contradiction;
      destruct Hw as [<-|[]]; cbn; lia.
  - intros w1 w2 H1 H2 E. f_equal. apply (nodup_key_inj W w1 w2 Hnd H1 H2 E).
Qed.

Lemma first_need : need W univ = zsum (map snd W).
Proof.
  unfold need, univ. rewrite map_map. f_equal. apply map_ext_in. intros w Hw. destruct w as [[k x] s].
  apply (ksize_of W univ k x s first_wf Hw).
Qed.

Lemma first_lin : Forall (lin_op v W false) ops.
Proof.
  apply Forall_forall. intros o Ho. unfold lin_op. rewrite Forall_forall in Hf. specialize (Hf o Ho).
  assert (Hin : forall w, In w (wr v o) -> In w W) by (intros w Hw; unfold W; apply in_flat_map; exists o; auto).
  unfold wr in Hin. destruct v, o; cbn in *; try contradiction; auto.
Qed.

Theorem sets_all_present : forall w, In w W -> In w (lst (fst (mrun v (new_lru cap0) ops))).
Proof.
  intros w Hw.
  assert (HK0 : KInv W false univ cap0 (abs (new_lru cap0)) []).
  { unfold KInv, abs, icap, ilist, new_lru. cbn. split; [reflexivity|]. split; [constructor|]. split; [lia|]. intros _. split; [reflexivity|]. intros _ k []. }
  destruct (kinv_run v W false univ cap0 first_wf ltac:(unfold cap_dom in Hcap; lia) ops (new_lru cap0) [] (new_MInv v cap0 Hcap) HK0 Hd first_lin) as [HI HK].
  rewrite app_nil_r in HK. destruct HK as (_ & Kall & _ & Kfit). unfold abs, ilist in Kall, Kfit. cbn [fst snd] in Kall, Kfit.
  assert (Hfits : fits W univ cap0) by (unfold fits; rewrite first_need; exact Hfit).
  destruct (Kfit Hfits) as [_ Hseen]. specialize (Hseen eq_refl (wkeyw w)).
  assert (Hk : In (wkeyw w) (rev (wkeys ops))).
  { apply in_rev. rewrite rev_involutive. unfold W in Hw. apply in_flat_map in Hw. destruct Hw as (o & Ho & Hw).
    unfold wkeys. apply in_flat_map. exists o. split; [exact Ho|]. unfold wr in Hw. destruct v, o; cbn in Hw; try contradiction;
      destruct Hw as [<-|[]]; cbn; auto. }
  specialize (Hseen Hk). apply in_map_iff in Hseen. destruct Hseen as (e & Ek & He).
  rewrite Forall_forall in Kall. pose proof (Kall e He) as Hent. unfold ent_in in Hent.
  assert (E : (keyof e, valof e, snd e) = w) by (apply (nodup_key_inj W _ w Hnd Hent Hw); exact Ek).
  destruct e as [[k x] s]. cbn in E. subst w. exact He.
Qed.
End First.

(* shard by shard for a wide cache, any routing, any shard count *)
Theorem wide_first_touch v route capacity n h i :
  wide_dom capacity n -> Forall wop_dom h -> Forall (fun o => fop (to_op o)) h ->
  let ops := map to_op (sub Z wop wkey route i h) in
  NoDup (map wkeyw (flat_map (wr v) ops)) -> zsum (map snd (flat_map (wr v) ops)) <= shard_cap capacity n ->
  forall w, In w (flat_map (wr v) ops) -> In w (lst (fst (wide_run v route (wide_init capacity n) h) i)).
Proof.
  intros Hdom Hd Hf. cbn zeta. intros Hnd Hfit w Hw. rewrite wide_shard_is_single.
  destruct Hdom as (Hn & Hc & Hb). pose proof (shard_cap_range capacity n Hn Hc) as Hr.
  apply sets_all_present; try assumption.
  - unfold cap_dom. lia.
  - apply Forall_forall. intros o Ho. apply in_map_iff in Ho. destruct Ho as (o' & <- & Ho'). unfold sub in Ho'. apply filter_In in Ho'.
    rewrite Forall_forall in Hd. apply (Hd o' (proj1 Ho')).
  - apply Forall_forall. intros o Ho. apply in_map_iff in Ho. destruct Ho as (o' & <- & Ho'). unfold sub in Ho'. apply filter_In in Ho'.
    rewrite Forall_forall in Hf. apply (Hf o' (proj1 Ho')).
Qed.

Print Assumptions wide_first_touch.
