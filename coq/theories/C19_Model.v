(* C19 vcode: executable model of vcode.sender (SendSMSCode / VerifySMSCode over the LRU cache it owns),
   of the mock code rule and of random.genNonceStr.  Mirrors /repo/vcode/{vlogic,code,config}.go,
   /repo/cache/lru.go (Get / Peek / Set with every value of Size 1) and /repo/idgen/random/util.go
   branch for branch.  Time is an explicit argument (nanoseconds on any monotone clock); the hash
   (random.MD5UUID) and, with a real sender, the generated code are oracle inputs taken from the
   observation. *)
From Coq Require Import ZArith NArith List Bool Lia String Ascii.
Import ListNotations.
Open Scope Z_scope.

(* ------------------------------------------------------------------ time *)
(* time.Time.Sub saturates at +-(2^63-1) ns; the zero time.Time is so far in the past that
   now.Sub(zero) is the maximal duration. *)
Definition MAXDUR : Z := 9223372036854775807.
Definition NEVER : Z := -9223372036854775808 * 4.
Definition tsub (a b : Z) : Z := Z.max (- MAXDUR) (Z.min (a - b) MAXDUR).

(* ------------------------------------------------------------------ configuration, entry *)
Record cfg := { cacheSize : Z; mock : bool; codeLen : Z; ttl : Z; minInterval : Z;
                counterDuration : Z; maxCount : Z; maxVerify : Z }.

Record vc := { counterTime : Z; setTime : Z; sendCount : Z; verifyCount : Z; code : string; hash : Z }.

Inductive err := TooFreq | CountLimit | RetryLimit | NotExist | NotMatch | HashNotMatch | Timeout | SmsFail | Unknown.

Definition err_eqb (a b : err) : bool :=
  match a, b with
  | TooFreq, TooFreq | CountLimit, CountLimit | RetryLimit, RetryLimit | NotExist, NotExist
  | NotMatch, NotMatch | HashNotMatch, HashNotMatch | Timeout, Timeout | SmsFail, SmsFail | Unknown, Unknown => true
  | _, _ => false
  end.
Lemma err_eqb_eq a b : err_eqb a b = true <-> a = b.
Proof. destruct a, b; cbn; split; intros H; try reflexivity; try discriminate. Qed.
Lemma err_eqb_refl a : err_eqb a a = true.
Proof. destruct a; reflexivity. Qed.

Definition oerr_eqb (a b : option err) : bool :=
  match a, b with Some x, Some y => err_eqb x y | None, None => true | _, _ => false end.
Lemma oerr_eqb_eq a b : oerr_eqb a b = true <-> a = b.
Proof.
  destruct a as [x|], b as [y|]; cbn; split; intros H; try reflexivity; try discriminate.
  - apply err_eqb_eq in H. now subst.
  - inversion H; subst. apply err_eqb_refl.
Qed.
Lemma oerr_eqb_refl a : oerr_eqb a a = true.
Proof. now apply oerr_eqb_eq. Qed.

(* ------------------------------------------------------------------ strings *)
Definition zlen (s : string) : Z := Z.of_nat (String.length s).

(* the cache key of a pair: fmt.Sprintf("%s-%s", areaCode, phone) - the same in send and verify *)
Definition key (a p : string) : string := (a ++ "-" ++ p)%string.
(* the key VerifySMSCode used before the repair: fmt.Sprintf("%s%s", areaCode, phone) *)
Definition key_prefix (a p : string) : string := (a ++ p)%string.

Fixpoint zeros (n : nat) : string := match n with O => EmptyString | S n' => String "0"%char (zeros n') end.

(* genCode in mock mode: the last codeLen bytes of the phone, left-padded with '0';
   phone[l-codeLen:] panics for a negative codeLen (None) *)
Definition mock_code (p : string) (n : Z) : option string :=
  let l := zlen p in
  if n <=? l then
    if n <? 0 then None else Some (substring (Z.to_nat (l - n)) (Z.to_nat n) p)
  else Some (zeros (Z.to_nat (n - l)) ++ p)%string.

Fixpoint str_mem (ch : ascii) (s : string) : bool :=
  match s with EmptyString => false | String x r => Ascii.eqb ch x || str_mem ch r end.
Fixpoint str_all (f : ascii -> bool) (s : string) : bool :=
  match s with EmptyString => true | String x r => f x && str_all f r end.

Definition numChars : string := "0123456789".
(* what a real-sender code looks like: random.SecGenNonceStr(numChars, CodeLen) *)
Definition valid_code (n : Z) (s : string) : bool :=
  (zlen s =? Z.max 0 n) && str_all (fun ch => str_mem ch numChars) s.

(* ------------------------------------------------------------------ the LRU cache (cache.LRUCache, every value of size 1) *)
Definition cache := list (string * vc).          (* most recently used first *)

Fixpoint lookup (k : string) (l : cache) : option vc :=
  match l with [] => None | (k', v) :: r => if String.eqb k k' then Some v else lookup k r end.
Fixpoint remove (k : string) (l : cache) : cache :=
  match l with [] => [] | (k', v) :: r => if String.eqb k k' then remove k r else (k', v) :: remove k r end.
(* checkCapacity: evict from the back while size > capacity = keep the first `capacity` entries *)
Fixpoint take (n : Z) (l : cache) : cache :=
  match l with [] => [] | x :: r => if n <=? 0 then [] else x :: take (n - 1) r end.
(* Set: update in place or add, move to front, evict; with a negative capacity the eviction loop
   empties the list and then dereferences list.Back() = nil: panic (None), the cache is left empty *)
Definition lru_set (cap : Z) (k : string) (v : vc) (l : cache) : option cache :=
  if cap <? 0 then None else Some (take cap ((k, v) :: remove k l)).

(* ------------------------------------------------------------------ operations and observations *)
Inductive op :=
| Send (a p : string) (now : Z) (smsok : bool)            (* smsok: what the SMS sender will answer *)
| Verify (a p cd : string) (hs now : Z).

Definition call := (string * string * string)%type.          (* what the SMS sender was given *)
Inductive obs :=
| RSend (h : Z) (e : option err) (calls : list call)         (* returned hash (0 = ""), error class, sender calls *)
| RVerify (e : option err)
| RPanic.

Definition fresh (now : Z) : vc :=
  {| counterTime := now; setTime := NEVER; sendCount := 0; verifyCount := 0; code := EmptyString; hash := 0 |}.

Definition gen_code (c : cfg) (p oc : string) : option string :=
  if mock c then mock_code p (codeLen c) else Some oc.

(* SendSMSCode; oc / oh = the code the generator drew (real sender only) and the fresh hash *)
Definition send (c : cfg) (st : cache) (a p : string) (now : Z) (smsok : bool) (oc : string) (oh : Z) : cache * obs :=
  let k := key a p in
  let v := match lookup k st with Some v => v | None => fresh now end in          (* Peek *)
  if tsub now (setTime v) <? minInterval c then (st, RSend 0 (Some TooFreq) [])
  else
    let refresh := counterDuration c <? tsub now (counterTime v) in
    if negb refresh && (maxCount c <? sendCount v) then (st, RSend 0 (Some CountLimit) [])
    else
      match gen_code c p oc with
      | None => (st, RPanic)
      | Some cd =>
        let v' := {| counterTime := if refresh then now else counterTime v;
                     setTime := now;
                     sendCount := (if refresh then 0 else sendCount v) + 1;
                     verifyCount := 0; code := cd; hash := oh |} in
        match lru_set (cacheSize c) k v' st with
        | None => ([], RPanic)
        | Some st' =>
          (st', if mock c then RSend oh None []
                else RSend oh (if smsok then None else Some SmsFail) [(a, p, cd)])
        end
      end.

(* VerifySMSCode on an explicit key *)
Definition verify_k (c : cfg) (st : cache) (k cd : string) (hs now : Z) : cache * obs :=
  match lookup k st with                                                         (* Get: moves to the front *)
  | None => (st, RVerify (Some NotExist))
  | Some v =>
    let v' := {| counterTime := counterTime v; setTime := setTime v; sendCount := sendCount v;
                 verifyCount := verifyCount v + 1; code := code v; hash := hash v |} in
    ((k, v') :: remove k st,
     RVerify (if maxVerify c <? verifyCount v' then Some RetryLimit
              else if negb (String.eqb (code v) cd) then Some NotMatch
              else if negb (hash v =? hs) then Some HashNotMatch
              else if ttl c <? tsub now (setTime v) then Some Timeout
              else None))
  end.
Definition verify (c : cfg) (st : cache) (a p cd : string) (hs now : Z) := verify_k c st (key a p) cd hs now.
(* the pre-repair VerifySMSCode *)
Definition verify_prefix (c : cfg) (st : cache) (a p cd : string) (hs now : Z) := verify_k c st (key_prefix a p) cd hs now.

Definition step (c : cfg) (st : cache) (o : op) (oc : string) (oh : Z) : cache * obs :=
  match o with
  | Send a p now smsok => send c st a p now smsok oc oh
  | Verify a p cd hs now => verify c st a p cd hs now
  end.

(* ------------------------------------------------------------------ observed histories *)
Notation item := (op * obs)%type (only parsing).

Definition call_eqb (x y : call) : bool :=
  let '(a, p, cd) := x in let '(a', p', cd') := y in String.eqb a a' && String.eqb p p' && String.eqb cd cd'.
Fixpoint calls_eqb (x y : list call) : bool :=
  match x, y with [], [] => true | a :: x', b :: y' => call_eqb a b && calls_eqb x' y' | _, _ => false end.
Definition obs_eqb (x y : obs) : bool :=
  match x, y with
  | RSend h e cs, RSend h' e' cs' => (h =? h') && oerr_eqb e e' && calls_eqb cs cs'
  | RVerify e, RVerify e' => oerr_eqb e e'
  | RPanic, RPanic => true
  | _, _ => false
  end.

Lemma call_eqb_eq x y : call_eqb x y = true -> x = y.
Proof.
  destruct x as [[a p] cd], y as [[a' p'] cd']. cbn. intros H.
  apply andb_prop in H as [H H3]. apply andb_prop in H as [H1 H2].
  apply String.eqb_eq in H1, H2, H3. now subst.
Qed.
Lemma calls_eqb_eq x y : calls_eqb x y = true -> x = y.
Proof.
  revert y; induction x as [|a x IH]; destruct y as [|b y]; cbn; try discriminate; auto.
  intros H. apply andb_prop in H as [H1 H2]. apply call_eqb_eq in H1. apply IH in H2. now subst.
Qed.
Lemma obs_eqb_eq x y : obs_eqb x y = true -> x = y.
Proof.
  destruct x as [h e cs|e|], y as [h' e' cs'|e'|]; cbn; try discriminate; auto.
  - intros H. apply andb_prop in H as [H H3]. apply andb_prop in H as [H1 H2].
    apply Z.eqb_eq in H1. apply oerr_eqb_eq in H2. apply calls_eqb_eq in H3. now subst.
  - intros H. apply oerr_eqb_eq in H. now subst.
Qed.
Lemma call_eqb_refl x : call_eqb x x = true.
Proof. destruct x as [[a p] cd]. cbn. now rewrite !String.eqb_refl. Qed.
Lemma calls_eqb_refl x : calls_eqb x x = true.
Proof. induction x as [|a x IH]; cbn; auto. now rewrite call_eqb_refl, IH. Qed.
Lemma obs_eqb_refl x : obs_eqb x x = true.
Proof. destruct x as [h e cs|e|]; cbn; auto. - now rewrite Z.eqb_refl, oerr_eqb_refl, calls_eqb_refl. - apply oerr_eqb_refl. Qed.

(* the oracle values an observation carries *)
Definition calls_code (calls : list call) : string :=
  match calls with (_, _, cd) :: _ => cd | [] => EmptyString end.
Definition oracle_code (ob : obs) : string := match ob with RSend _ _ calls => calls_code calls | _ => EmptyString end.
Definition oracle_hash (ob : obs) : Z := match ob with RSend h _ _ => h | _ => 0 end.
(* an error class that leaves the entry updated: nil, or the SMS sender's own failure *)
Definition accepted (e : option err) : bool := match e with None | Some SmsFail => true | _ => false end.
(* a code drawn by the real generator has the configured length over the digit alphabet *)
Definition oracle_ok (c : cfg) (it : item) : bool :=
  match it with
  | (Send _ _ _ _, RSend _ e calls) => negb (accepted e) || mock c || valid_code (codeLen c) (calls_code calls)
  | _ => true
  end.

(* one observed item is a behaviour of the model from state st: the next state *)
Definition conforms (c : cfg) (st : cache) (it : item) : option cache :=
  let '(st', ob') := step c st (fst it) (oracle_code (snd it)) (oracle_hash (snd it)) in
  if obs_eqb ob' (snd it) && oracle_ok c it then Some st' else None.

Fixpoint conforms_run (c : cfg) (st : cache) (items : list item) : bool :=
  match items with
  | [] => true
  | it :: r => match conforms c st it with Some st' => conforms_run c st' r | None => false end
  end.

(* ------------------------------------------------------------------ the nonce generator *)
(* random.genNonceStr(base, n, fn): n times index = fn(len base); base[index].
   The draws are what fn answered; each call is made with the bound len base.
   An index outside the string panics (None). *)
Fixpoint str_get (i : Z) (s : string) : option ascii :=
  match s with EmptyString => None | String x r => if i =? 0 then Some x else if i <? 0 then None else str_get (i - 1) r end.

Fixpoint gen_nonce (base : string) (draws : list Z) : option string :=
  match draws with
  | [] => Some EmptyString
  | d :: r => match str_get d base with
              | None => None
              | Some ch => match gen_nonce base r with Some s => Some (String ch s) | None => None end
              end
  end.

(* the bound every call of fn is made with (repaired: len base; before the repair: len base - 1) *)
Definition nonce_bound (base : string) : Z := zlen base.
Definition nonce_bound_prefix (base : string) : Z := zlen base - 1.

(* a scripted draw function: asked for a number below b, it answers the target t when that is
   in-range and the largest in-range number otherwise (raw: answers t whatever b is) *)
Definition clamp (raw : bool) (t b : Z) : Z := if raw then t else if b <=? 0 then t else Z.min t (b - 1).

(* the run with a scripted draw function: the bounds asked until the end or the panic, and the result *)
Fixpoint nonce_run (bound : Z) (base : string) (raw : bool) (targets : list Z) : list Z * option string :=
  match targets with
  | [] => ([], Some EmptyString)
  | t :: r =>
    match str_get (clamp raw t bound) base with
    | None => ([bound], None)
    | Some ch => let '(bs, o) := nonce_run bound base raw r in
                 (bound :: bs, match o with Some s => Some (String ch s) | None => None end)
    end
  end.

(* case files spell strings with bytes outside printable ASCII as byte lists *)
Definition sb (l : list N) : string := string_of_list_ascii (map ascii_of_N l).

Arguments tsub : simpl never.
Arguments key : simpl never.
Arguments mock_code : simpl never.
Arguments valid_code : simpl never.
