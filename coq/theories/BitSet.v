(* C08: a Bit1024 (16 words of 64 bits) is a set of integers in [0, 1023]:
   SetI32 / UnsetI32 with Go's truncating / and % and the byte conversion, And, Or, Reverse, OrThenReverse, Equal.
   The bitmap is the function word-index -> word (a case file's 16-element list is read through nth) *)
From Coq Require Import ZArith NArith List Lia Bool.
Import ListNotations.
Open Scope Z_scope.
Ltac Zify.zify_post_hook ::= Z.to_euclidean_division_equations.

Definition W : N := (2 ^ 64)%N.
Definition ones : N := N.ones 64.                               (* ^Bit64(0) *)
Definition bitmap := nat -> N.
Definition wf (b : bitmap) : Prop := forall k, (k < 16)%nat -> (b k < W)%N.
Definition of_list (l : list N) : bitmap := fun k => nth k l 0%N.
Definition upd (b : bitmap) (k : nat) (w : N) : bitmap := fun x => if Nat.eqb x k then w else b x.

(* membership of an integer *)
Definition member (b : bitmap) (j : Z) : bool :=
  (0 <=? j) && (j <? 1024) && N.testbit (b (Z.to_nat (j / 64))) (Z.to_N (j mod 64)).

(* Bit64.Set / Unset take a byte and ignore positions above 63 *)
Definition set64 (w : N) (i : Z) : N := if i <=? 63 then N.lor w (2 ^ Z.to_N i) else w.
Definition unset64 (w : N) (i : Z) : N := if i <=? 63 then N.ldiff w (2 ^ Z.to_N i) else w.      (* w & ^tab[i] *)
(* Bit1024.SetI32: index = i / 64 and i % 64 truncate toward zero; byte(...) wraps modulo 256 *)
Definition on_i32 (f : N -> Z -> N) (b : bitmap) (i : Z) : bitmap :=
  let index := Z.quot i 64 in
  if (0 <=? index) && (index <? 16)
  then upd b (Z.to_nat index) (f (b (Z.to_nat index)) ((Z.rem i 64) mod 256))
  else b.
Definition set_i32 := on_i32 set64.
Definition unset_i32 := on_i32 unset64.

Definition band (a b : bitmap) : bitmap := fun k => N.land (a k) (b k).
Definition bor (a b : bitmap) : bitmap := fun k => N.lor (a k) (b k).
Definition brev (a : bitmap) : bitmap := fun k => N.lxor (a k) ones.                 (* ^w on 64 bits *)
Definition bor_rev (a b : bitmap) : bitmap := fun k => N.lxor (N.lor (a k) (b k)) ones.
Definition bequal (a b : bitmap) : bool := forallb (fun k => N.eqb (a k) (b k)) (seq 0 16).

(* ---------------- Set / Unset ---------------- *)
Lemma out_of_range f b i : (forall w m, 63 < m -> f w m = w) -> ~ (0 <= i < 1024) -> forall k, on_i32 f b i k = b k.
Proof.
  intros Hf Hi k. unfold on_i32. destruct ((0 <=? Z.quot i 64) && (Z.quot i 64 <? 16)) eqn:Eg; [|reflexivity].
  apply andb_prop in Eg. destruct Eg as [E1 E2]. apply Z.leb_le in E1. apply Z.ltb_lt in E2.
  (* the guard lets through exactly -63 .. -1 besides the range: there the byte is 193 .. 255 *)
  assert (Hneg : -64 < i < 0) by lia.
  rewrite Hf by lia. unfold upd. destruct (Nat.eqb k (Z.to_nat (Z.quot i 64))) eqn:E; [apply Nat.eqb_eq in E; subst k; reflexivity|reflexivity].
Qed.
Theorem set_out_of_range b i : ~ (0 <= i < 1024) -> forall k, set_i32 b i k = b k.
Proof. apply out_of_range. intros w m Hm. unfold set64. replace (m <=? 63) with false by (symmetry; apply Z.leb_gt; lia). reflexivity. Qed.
Theorem unset_out_of_range b i : ~ (0 <= i < 1024) -> forall k, unset_i32 b i k = b k.
Proof. apply out_of_range. intros w m Hm. unfold unset64. replace (m <=? 63) with false by (symmetry; apply Z.leb_gt; lia). reflexivity. Qed.

Lemma in_range_shape f b i : 0 <= i < 1024 ->
  on_i32 f b i = upd b (Z.to_nat (i / 64)) (f (b (Z.to_nat (i / 64))) (i mod 64)).
Proof.
  intros Hi. unfold on_i32. assert (Hq : Z.quot i 64 = i / 64) by (apply Z.quot_div_nonneg; lia).
  assert (Hr : Z.rem i 64 = i mod 64) by (apply Z.rem_mod_nonneg; lia). rewrite Hq, Hr.
  replace ((0 <=? i / 64) && (i / 64 <? 16)) with true by (symmetry; apply andb_true_intro; split; [apply Z.leb_le|apply Z.ltb_lt]; lia).
  replace ((i mod 64) mod 256) with (i mod 64) by (symmetry; apply Z.mod_small; lia). reflexivity.
Qed.

Lemma same_cell i j : 0 <= i < 1024 -> 0 <= j < 1024 ->
  (Nat.eqb (Z.to_nat (j / 64)) (Z.to_nat (i / 64)) && N.eqb (Z.to_N (j mod 64)) (Z.to_N (i mod 64))) = (j =? i).
Proof.
  intros Hi Hj. destruct (j =? i) eqn:E.
  - apply Z.eqb_eq in E. subst j. rewrite Nat.eqb_refl, N.eqb_refl. reflexivity.
  - apply Z.eqb_neq in E. apply andb_false_iff.
    destruct (Nat.eqb (Z.to_nat (j / 64)) (Z.to_nat (i / 64))) eqn:E1; [right|left; reflexivity].
    apply Nat.eqb_eq in E1. apply N.eqb_neq. intros E2. apply E. lia.
Qed.

Theorem set_in_range b i j : 0 <= i < 1024 -> member (set_i32 b i) j = (j =? i) || member b j.
Proof.
  intros Hi. unfold set_i32. rewrite (in_range_shape set64 b i Hi). unfold member, upd, set64.
  replace (i mod 64 <=? 63) with true by (symmetry; apply Z.leb_le; lia).
  destruct ((0 <=? j) && (j <? 1024)) eqn:Ej.
  - apply andb_prop in Ej. destruct Ej as [E1 E2]. apply Z.leb_le in E1. apply Z.ltb_lt in E2. cbn [andb].
    rewrite <- (same_cell i j Hi ltac:(lia)).
    destruct (Nat.eqb (Z.to_nat (j / 64)) (Z.to_nat (i / 64))) eqn:Ek; cbn [andb].
    + apply Nat.eqb_eq in Ek. rewrite Ek. rewrite N.lor_spec, N.pow2_bits_eqb. rewrite orb_comm. f_equal. apply N.eqb_sym.
    + reflexivity.
  - cbn [andb]. destruct (j =? i) eqn:E; [|reflexivity]. apply Z.eqb_eq in E. subst j.
    apply andb_false_iff in Ej. destruct Ej as [E1|E1]; [apply Z.leb_gt in E1|apply Z.ltb_ge in E1]; lia.
Qed.

Theorem unset_in_range b i j : 0 <= i < 1024 -> member (unset_i32 b i) j = negb (j =? i) && member b j.
Proof.
  intros Hi. unfold unset_i32. rewrite (in_range_shape unset64 b i Hi). unfold member, upd, unset64.
  replace (i mod 64 <=? 63) with true by (symmetry; apply Z.leb_le; lia).
  destruct ((0 <=? j) && (j <? 1024)) eqn:Ej.
  - apply andb_prop in Ej. destruct Ej as [E1 E2]. apply Z.leb_le in E1. apply Z.ltb_lt in E2. cbn [andb].
    rewrite <- (same_cell i j Hi ltac:(lia)).
    destruct (Nat.eqb (Z.to_nat (j / 64)) (Z.to_nat (i / 64))) eqn:Ek; cbn [andb negb].
    + apply Nat.eqb_eq in Ek. rewrite Ek. rewrite N.ldiff_spec, N.pow2_bits_eqb. rewrite andb_comm. f_equal. f_equal. apply N.eqb_sym.
    + reflexivity.
  - cbn [andb]. rewrite andb_false_r. reflexivity.
Qed.

(* ---------------- the set algebra ---------------- *)
Theorem and_spec a b j : member (band a b) j = member a j && member b j.
Proof. unfold member, band. rewrite N.land_spec. destruct ((0 <=? j) && (j <? 1024)); cbn [andb]; [reflexivity|reflexivity]. Qed.
Theorem or_spec a b j : member (bor a b) j = member a j || member b j.
Proof. unfold member, bor. rewrite N.lor_spec. destruct ((0 <=? j) && (j <? 1024)); cbn [andb]; reflexivity. Qed.

Lemma ones_bit r : (r < 64)%N -> N.testbit ones r = true.
Proof. intros H. unfold ones. apply N.ones_spec_low. exact H. Qed.
Lemma bit_index j : 0 <= j < 1024 -> (Z.to_N (j mod 64) < 64)%N.
Proof. intros H. lia. Qed.

Theorem reverse_spec a j : 0 <= j < 1024 -> member (brev a) j = negb (member a j).
Proof.
  intros Hj. unfold member, brev. rewrite N.lxor_spec, (ones_bit _ (bit_index j Hj)).
  replace ((0 <=? j) && (j <? 1024)) with true by (symmetry; apply andb_true_intro; split; [apply Z.leb_le|apply Z.ltb_lt]; lia).
  cbn [andb]. rewrite xorb_true_r. reflexivity.
Qed.
Theorem reverse_outside a j : ~ (0 <= j < 1024) -> member (brev a) j = false.
Proof.
  intros Hj. unfold member. destruct ((0 <=? j) && (j <? 1024)) eqn:E; [|reflexivity].
  apply andb_prop in E. destruct E as [E1 E2]. apply Z.leb_le in E1. apply Z.ltb_lt in E2. lia.
Qed.
Theorem or_then_reverse_spec a b j : 0 <= j < 1024 -> member (bor_rev a b) j = negb (member a j || member b j).
Proof. intros Hj. rewrite <- or_spec. apply (reverse_spec (bor a b) j Hj). Qed.

(* Reverse keeps words within 64 bits (so Equal and Len stay meaningful) *)
Lemma rev_wf a : wf a -> wf (brev a).
Proof.
  intros H k Hk. unfold brev, W. specialize (H k Hk). unfold W in H.
  destruct (N.eq_dec (N.lxor (a k) ones) 0) as [E|E]; [rewrite E; reflexivity|].
  apply N.log2_lt_pow2; [lia|]. apply N.lt_nge. intros Hge.
  assert (Hb : N.testbit (N.lxor (a k) ones) (N.log2 (N.lxor (a k) ones)) = true) by (apply N.bit_log2, E).
  unfold ones in *. rewrite N.lxor_spec in Hb. rewrite N.ones_spec_high in Hb by exact Hge.
  rewrite xorb_false_r in Hb.
  assert (a k = 0 \/ N.log2 (a k) < 64)%N as [E0|Hl] by (destruct (N.eq_dec (a k) 0); [left; assumption|right; apply N.log2_lt_pow2; lia]).
  - rewrite E0 in Hb. rewrite N.bits_0 in Hb. discriminate.
  - rewrite N.bits_above_log2 in Hb by lia. discriminate.
Qed.

(* Equal is equality of the sets (for well-formed bitmaps: every word below 2^64) *)
Lemma word_bits_eq x y : (x < W)%N -> (y < W)%N -> (forall r, (r < 64)%N -> N.testbit x r = N.testbit y r) -> x = y.
Proof.
  intros Hx Hy H. apply N.bits_inj. intros r. destruct (N.lt_ge_cases r 64) as [Hr|Hr]; [apply H, Hr|].
  assert (Hhigh : forall z, (z < W)%N -> N.testbit z r = false).
  { intros z Hz. destruct (N.eq_dec z 0) as [->|Hne]; [apply N.bits_0|]. apply N.bits_above_log2.
    assert (N.log2 z < 64)%N by (apply N.log2_lt_pow2; [lia|exact Hz]). lia. }
  rewrite (Hhigh x Hx), (Hhigh y Hy). reflexivity.
Qed.

Theorem equal_spec a b : wf a -> wf b ->
  (bequal a b = true <-> forall j, 0 <= j < 1024 -> member a j = member b j).
Proof.
  intros Ha Hb. unfold bequal. rewrite forallb_forall. split.
  - intros H j Hj. unfold member. rewrite (proj1 (N.eqb_eq _ _) (H (Z.to_nat (j / 64)) ltac:(apply in_seq; lia))). reflexivity.
  - intros H k Hk. apply in_seq in Hk. apply N.eqb_eq. apply word_bits_eq; [apply Ha; lia|apply Hb; lia|].
    intros r Hr. specialize (H (64 * Z.of_nat k + Z.of_N r) ltac:(lia)). unfold member in H.
    replace ((0 <=? 64 * Z.of_nat k + Z.of_N r) && (64 * Z.of_nat k + Z.of_N r <? 1024)) with true in H
      by (symmetry; apply andb_true_intro; split; [apply Z.leb_le|apply Z.ltb_lt]; lia).
    cbn [andb] in H.
    replace (Z.to_nat ((64 * Z.of_nat k + Z.of_N r) / 64)) with k in H by lia.
    replace (Z.to_N ((64 * Z.of_nat k + Z.of_N r) mod 64)) with r in H by lia.
    exact H.
Qed.

(* non-vacuity, including the inputs whose truncated index is 0 although they are negative *)
Example demo :
  let b := set_i32 (set_i32 (set_i32 (fun _ => 0%N) 0) 63) 1023 in
  map (member b) [0; 1; 63; 64; 1023; 1024; -1] = [true; false; true; false; true; false; false]
  /\ map (fun k => set_i32 b (-1) k) [0%nat; 15%nat] = map b [0%nat; 15%nat]
  /\ map (fun k => set_i32 b (-63) k) [0%nat] = map b [0%nat]
  /\ member (unset_i32 b 63) 63 = false /\ member (brev b) 1 = true /\ bequal b b = true.
Proof. vm_compute. repeat split. Qed.

Print Assumptions set_in_range.
Print Assumptions equal_spec.
