(* C02: the lock queues and the threads' own view agree in every reachable state: whoever is announced, queued as a
   writer or parked as a reader on key k is a thread that is parked, on k, in that mode, and appears in no other
   queue position.  Consequently the extra guards of Grant and Token in KeyLTS.step never block *)
From Coq Require Import List Lia Bool Arith.
Require Import KeyLTS.
Import ListNotations.

Definition parked (s : st) (x k : nat) (w : bool) : Prop := exists r n, waits_on s x k w = Some (r, n).
Definition wq (m : rwm) : list nat := match pending m with Some w => w :: wwait m | None => wwait m end.
Definition Agree (s : st) : Prop := forall k,
  (forall w, In w (wq (locks s k)) -> parked s w k true) /\
  (forall x, In x (rblocked (locks s k)) -> parked s x k false) /\
  NoDup (wq (locks s k)) /\ NoDup (rblocked (locks s k)).

(* ---- waits_on depends only on the thread's own request and running flag ---- *)
Lemma waits_on_frame s s' x k w : reqs s' x = reqs s x -> running s' x = running s x -> waits_on s' x k w = waits_on s x k w.
Proof. intros E1 E2. unfold waits_on. rewrite E1, E2. reflexivity. Qed.
Lemma parked_frame s s' x k w : reqs s' x = reqs s x -> running s' x = running s x -> parked s x k w -> parked s' x k w.
Proof. intros E1 E2 (r & n & H). exists r, n. rewrite (waits_on_frame s s' x k w E1 E2). exact H. Qed.
Lemma parked_unique s x k w k' w' : parked s x k w -> parked s x k' w' -> k = k' /\ w = w'.
Proof.
  intros (r & n & H) (r' & n' & H'). destruct (waits_on_spec _ _ _ _ _ _ H) as (A & B & C & D & _).
  destruct (waits_on_spec _ _ _ _ _ _ H') as (A' & B' & C' & D' & _). rewrite A in A'. inversion A'; subst r'.
  rewrite B in B'. inversion B'; subst n'. rewrite C in C'. inversion C'. split; congruence.
Qed.
Lemma parked_not_running s x k w : parked s x k w -> running s x = false.
Proof. intros (r & n & H). apply (waits_on_spec _ _ _ _ _ _ H). Qed.

(* a thread that is not parked anywhere sits in no queue *)
Definition idle_thread (s : st) (x : nat) : Prop := forall k w, waits_on s x k w = None.
Lemma not_queued s x : Agree s -> idle_thread s x -> forall k, ~ In x (wq (locks s k)) /\ ~ In x (rblocked (locks s k)).
Proof.
  intros HA Hi k. destruct (HA k) as (A & B & _ & _). split; intros Hin.
  - destruct (A x Hin) as (r & n & H). rewrite (Hi k true) in H. discriminate.
  - destruct (B x Hin) as (r & n & H). rewrite (Hi k false) in H. discriminate.
Qed.
Lemma running_idle s x : running s x = true -> idle_thread s x.
Proof.
  intros H k w. unfold waits_on. destruct (reqs s x) as [r|]; [|reflexivity]. destruct (rphase r) as [n|]; [|reflexivity].
  destruct (nth_error (rkeys r) n); [|reflexivity]. rewrite H. cbn [negb]. rewrite andb_false_r. reflexivity.
Qed.

(* ---- list facts ---- *)
Lemma in_remove_nth {A} (x : A) : forall i l, In x (remove_nth i l) -> In x l.
Proof. induction i as [|i IH]; intros [|y l] H; cbn [remove_nth] in H; try contradiction; [right; exact H|destruct H as [->|H]; [left; reflexivity|right; apply IH, H]]. Qed.
Lemma nodup_remove_nth {A} : forall i (l : list A) x, NoDup l -> nth_error l i = Some x -> NoDup (remove_nth i l) /\ ~ In x (remove_nth i l).
Proof.
  induction i as [|i IH]; intros [|y l] x Hnd Hn; cbn [nth_error remove_nth] in *; try discriminate.
  - inversion Hn; subst. inversion Hnd; subst. split; assumption.
  - inversion Hnd as [|? ? Hy Hl]; subst. destruct (IH l x Hl Hn) as [P Q]. split.
    + constructor; [intros Hin; apply Hy, (in_remove_nth y i l Hin)|exact P].
    + intros [->|Hin]; [apply Hy, (nth_error_In _ _ Hn)|exact (Q Hin)].
Qed.
Lemma nodup_snoc {A} (l : list A) x : NoDup l -> ~ In x l -> NoDup (l ++ [x]).
Proof.
  induction l as [|y l IH]; intros Hnd Hx; cbn [app]; [constructor; [intros []|constructor]|].
  inversion Hnd; subst. constructor.
  - intros Hin. apply in_app_or in Hin. destruct Hin as [Hin|[->|[]]]; [contradiction|apply Hx; left; reflexivity].
  - apply IH; [assumption|]. intros Hin. apply Hx. right. exact Hin.
Qed.

(* ---- the generic step: one actor a changes its own request / running flag, one lock k0 changes its queues ---- *)
Lemma agree_update s s' a k0 :
  Agree s ->
  (forall x, x <> a -> reqs s' x = reqs s x /\ running s' x = running s x) ->
  (forall k, k <> k0 -> locks s' k = locks s k) ->
  (* the actor is in no queue of an untouched lock *)
  (forall k, k <> k0 -> ~ In a (wq (locks s k)) /\ ~ In a (rblocked (locks s k))) ->
  (* the queues of the touched lock: old members other than the actor, plus possibly the actor, correctly parked *)
  (forall x, In x (wq (locks s' k0)) -> (x <> a /\ In x (wq (locks s k0))) \/ (x = a /\ parked s' a k0 true)) ->
  (forall x, In x (rblocked (locks s' k0)) -> (x <> a /\ In x (rblocked (locks s k0))) \/ (x = a /\ parked s' a k0 false)) ->
  NoDup (wq (locks s' k0)) -> NoDup (rblocked (locks s' k0)) ->
  Agree s'.
Proof.
  intros HA Hoth Hlk Hact Hw Hr Nw Nr k. destruct (Nat.eq_dec k k0) as [->|Hne].
  - destruct (HA k0) as (A & B & _ & _). split; [|split; [|split; assumption]].
    + intros x Hin. destruct (Hw x Hin) as [[Hxa Hold]|[-> Hp]]; [|exact Hp].
      destruct (Hoth x Hxa) as [E1 E2]. apply (parked_frame s s' x k0 true E1 E2), A, Hold.
    + intros x Hin. destruct (Hr x Hin) as [[Hxa Hold]|[-> Hp]]; [|exact Hp].
      destruct (Hoth x Hxa) as [E1 E2]. apply (parked_frame s s' x k0 false E1 E2), B, Hold.
  - rewrite (Hlk k Hne). destruct (HA k) as (A & B & C & D). destruct (Hact k Hne) as [Na1 Na2]. split; [|split; [|split; assumption]].
    + intros x Hin. assert (Hxa : x <> a) by (intros ->; exact (Na1 Hin)). destruct (Hoth x Hxa) as [E1 E2].
      apply (parked_frame s s' x k true E1 E2), A, Hin.
    + intros x Hin. assert (Hxa : x <> a) by (intros ->; exact (Na2 Hin)). destruct (Hoth x Hxa) as [E1 E2].
      apply (parked_frame s s' x k false E1 E2), B, Hin.
Qed.

(* a parked thread is in no queue of another key, and in no queue of the other mode *)
Lemma parked_elsewhere s a k0 w : Agree s -> parked s a k0 w ->
  (forall k, k <> k0 -> ~ In a (wq (locks s k)) /\ ~ In a (rblocked (locks s k))) /\
  (w = true -> ~ In a (rblocked (locks s k0))) /\ (w = false -> ~ In a (wq (locks s k0))).
Proof.
  intros HA Hp. split; [|split].
  - intros k Hne. destruct (HA k) as (A & B & _ & _). split; intros Hin.
    + destruct (parked_unique s a k0 w k true Hp (A a Hin)) as [E _]. congruence.
    + destruct (parked_unique s a k0 w k false Hp (B a Hin)) as [E _]. congruence.
  - intros -> Hin. destruct (HA k0) as (_ & B & _ & _). destruct (parked_unique s a k0 true k0 false Hp (B a Hin)) as [_ E]. discriminate.
  - intros -> Hin. destruct (HA k0) as (A & _ & _ & _). destruct (parked_unique s a k0 false k0 true Hp (A a Hin)) as [_ E]. discriminate.
Qed.

(* steps that leave every queue as it was, taken by a thread that is parked nowhere *)
Lemma agree_same_queues s s' a : Agree s -> idle_thread s a ->
  (forall x, x <> a -> reqs s' x = reqs s x /\ running s' x = running s x) ->
  (forall k, wq (locks s' k) = wq (locks s k) /\ rblocked (locks s' k) = rblocked (locks s k)) -> Agree s'.
Proof.
  intros HA Hi Hoth Hq k. destruct (Hq k) as [E1 E2]. rewrite E1, E2. destruct (HA k) as (A & B & C & D).
  destruct (not_queued s a HA Hi k) as [N1 N2]. split; [|split; [|split; assumption]].
  - intros x Hin. assert (Hxa : x <> a) by (intros ->; exact (N1 Hin)). destruct (Hoth x Hxa) as [F1 F2]. apply (parked_frame s s' x k true F1 F2), A, Hin.
  - intros x Hin. assert (Hxa : x <> a) by (intros ->; exact (N2 Hin)). destruct (Hoth x Hxa) as [F1 F2]. apply (parked_frame s s' x k false F1 F2), B, Hin.
Qed.

Lemma idle_none s x : reqs s x = None -> idle_thread s x.
Proof. intros E k w. unfold waits_on. rewrite E. reflexivity. Qed.
Lemma idle_rel s x r rem : reqs s x = Some r -> rphase r = Rel rem -> idle_thread s x.
Proof. intros E Ep k w. unfold waits_on. rewrite E, Ep. reflexivity. Qed.
Lemma idle_done s x r n : reqs s x = Some r -> rphase r = Acq n -> nth_error (rkeys r) n = None -> idle_thread s x.
Proof. intros E Ep En k w. unfold waits_on. rewrite E, Ep, En. reflexivity. Qed.

Lemma upd_eq {A} (f : nat -> A) k v x : upd f k v x = if Nat.eqb x k then v else f x.
Proof. reflexivity. Qed.

Ltac others t := let y := fresh "y" in let Hy := fresh "Hy" in intros y Hy; cbn [reqs running set_req set_run set_lock]; rewrite ?upd_other by exact Hy; auto.

Theorem agree_step s l s' : Agree s -> step s l = Some s' -> Agree s'.
Proof.
  intros HA H. destruct l as [t ks w|t|k i|k|k i|t|t]; cbn [step] in H.
  - (* Start *)
    destruct (reqs s t) eqn:Et; [discriminate|]. destruct (nodupb ks); [|discriminate]. inversion H; subst s'; clear H.
    apply (agree_same_queues s _ t HA (idle_none s t Et)); [others t|intros k; cbn [locks set_req set_run]; auto].
  - (* Arrive *)
    destruct (running s t) eqn:Erun; [|discriminate]. destruct (reqs s t) as [r|] eqn:Et; [|discriminate].
    destruct (rphase r) as [n|] eqn:Ep; [|discriminate].
    pose proof (running_idle s t Erun) as Hidle.
    destruct (nth_error (rkeys r) n) as [k|] eqn:En.
    + destruct (not_queued s t HA Hidle k) as [Nq Nr]. destruct (HA k) as (A & B & C & D).
      assert (Hparks : forall s1 w0, reqs s1 t = Some r -> running s1 t = false -> rwrite r = w0 -> parked s1 t k w0).
      { intros s1 w0 E1 E2 E3. exists r, n. unfold waits_on. rewrite E1, Ep, En, E2, E3, Nat.eqb_refl, eqb_reflx. reflexivity. }
      destruct (rwrite r) eqn:Ew.
      * destruct (free (locks s k)) eqn:Ef; inversion H; subst s'; clear H.
        -- unfold free in Ef. destruct (writer (locks s k)); [discriminate|]. destruct (pending (locks s k)) eqn:Epd; [discriminate|].
           apply (agree_update s _ t k HA); [others t| | | | | |].
           ++ intros k' Hk'. cbn [locks set_lock set_run]. apply upd_other, Hk'.
           ++ intros k' _. apply (not_queued s t HA Hidle k').
           ++ cbn [locks set_lock set_run]. rewrite upd_same. unfold wq in *. cbn [pending wwait]. rewrite Epd in *. intros x [<-|Hin].
              ** right. split; [reflexivity|]. apply Hparks; [cbn [reqs set_lock set_run]; exact Et|cbn [running set_lock set_run]; apply upd_same|reflexivity].
              ** left. split; [intros ->; exact (Nq Hin)|exact Hin].
           ++ cbn [locks set_lock set_run]. rewrite upd_same. cbn [rblocked]. intros x Hin. left. split; [intros ->; exact (Nr Hin)|exact Hin].
           ++ cbn [locks set_lock set_run]. rewrite upd_same. unfold wq in *. cbn [pending wwait]. rewrite Epd in *. constructor; assumption.
           ++ cbn [locks set_lock set_run]. rewrite upd_same. cbn [rblocked]. exact D.
        -- apply (agree_update s _ t k HA); [others t| | | | | |].
           ++ intros k' Hk'. cbn [locks set_lock set_run]. apply upd_other, Hk'.
           ++ intros k' _. apply (not_queued s t HA Hidle k').
           ++ cbn [locks set_lock set_run]. rewrite upd_same. unfold wq in *. cbn [pending wwait].
              assert (Hin' : forall x, In x (match pending (locks s k) with Some w0 => w0 :: wwait (locks s k) ++ [t] | None => wwait (locks s k) ++ [t] end) ->
                              In x (match pending (locks s k) with Some w0 => w0 :: wwait (locks s k) | None => wwait (locks s k) end) \/ t = x).
              { intros x. destruct (pending (locks s k)); cbn [In]; rewrite in_app_iff; cbn [In]; tauto. }
              intros x Hin. destruct (Hin' x Hin) as [Hold| <-].
              ** left. split; [intros ->; exact (Nq Hold)|exact Hold].
              ** right. split; [reflexivity|]. apply Hparks; [cbn [reqs set_lock set_run]; exact Et|cbn [running set_lock set_run]; apply upd_same|reflexivity].
           ++ cbn [locks set_lock set_run]. rewrite upd_same. cbn [rblocked]. intros x Hin. left. split; [intros ->; exact (Nr Hin)|exact Hin].
           ++ cbn [locks set_lock set_run]. rewrite upd_same. unfold wq in *. cbn [pending wwait].
              destruct (pending (locks s k)) as [w0|].
              ** change (w0 :: wwait (locks s k) ++ [t]) with ((w0 :: wwait (locks s k)) ++ [t]). apply nodup_snoc; assumption.
              ** apply nodup_snoc; assumption.
           ++ cbn [locks set_lock set_run]. rewrite upd_same. cbn [rblocked]. exact D.
      * destruct (free (locks s k)) eqn:Ef; inversion H; subst s'; clear H.
        -- apply (agree_same_queues s _ t HA Hidle); [others t|].
           intros k'. cbn [locks set_lock set_req]. destruct (Nat.eq_dec k' k) as [->|Hne]; [rewrite upd_same; unfold wq; cbn [pending wwait rblocked]; auto|rewrite upd_other by exact Hne; auto].
        -- apply (agree_update s _ t k HA); [others t| | | | | |].
           ++ intros k' Hk'. cbn [locks set_lock set_run]. apply upd_other, Hk'.
           ++ intros k' _. apply (not_queued s t HA Hidle k').
           ++ cbn [locks set_lock set_run]. rewrite upd_same. unfold wq in *. cbn [pending wwait]. intros x Hin. left. split; [intros ->; exact (Nq Hin)|exact Hin].
           ++ cbn [locks set_lock set_run]. rewrite upd_same. cbn [rblocked]. intros x Hin. apply in_app_or in Hin. destruct Hin as [Hin|[<-|[]]].
              ** left. split; [intros ->; exact (Nr Hin)|exact Hin].
              ** right. split; [reflexivity|]. apply Hparks; [cbn [reqs set_lock set_run]; exact Et|cbn [running set_lock set_run]; apply upd_same|reflexivity].
           ++ cbn [locks set_lock set_run]. rewrite upd_same. unfold wq in *. cbn [pending wwait]. exact C.
           ++ cbn [locks set_lock set_run]. rewrite upd_same. cbn [rblocked]. apply nodup_snoc; assumption.
    + inversion H; subst s'; clear H. apply (agree_same_queues s _ t HA Hidle); [others t|intros k; cbn [locks set_run]; auto].
  - (* Announce *)
    destruct (writer (locks s k)) eqn:Ewr; [discriminate|]. destruct (pending (locks s k)) eqn:Epd; [discriminate|].
    destruct (nth_error (wwait (locks s k)) i) as [w|] eqn:Enth; [|discriminate]. inversion H; subst s'; clear H.
    destruct (HA k) as (A & B & C & D). unfold wq in A, C. rewrite Epd in A, C.
    assert (Hw : parked s w k true) by (apply A, (nth_error_In _ _ Enth)).
    destruct (nodup_remove_nth i _ w C Enth) as [Nd Nin].
    destruct (parked_elsewhere s w k true HA Hw) as (Helse & Hnr & _).
    apply (agree_update s _ w k HA); [intros x _; cbn [reqs running set_lock]; auto| | | | | |].
    + intros k' Hk'. cbn [locks set_lock]. apply upd_other, Hk'.
    + exact Helse.
    + cbn [locks set_lock]. rewrite upd_same. unfold wq. cbn [pending wwait]. rewrite Epd. intros x [<-|Hin].
      * right. split; [reflexivity|]. destruct Hw as (r & n & Hw). exists r, n. exact Hw.
      * left. split; [intros ->; exact (Nin Hin)|apply (in_remove_nth x i _ Hin)].
    + cbn [locks set_lock]. rewrite upd_same. cbn [rblocked]. intros x Hin. left. split; [intros ->; exact (Hnr eq_refl Hin)|exact Hin].
    + cbn [locks set_lock]. rewrite upd_same. unfold wq. cbn [pending wwait]. constructor; assumption.
    + cbn [locks set_lock]. rewrite upd_same. cbn [rblocked]. exact D.
  - (* Grant *)
    destruct (pending (locks s k)) as [w|] eqn:Epd; [|discriminate]. destruct (writer (locks s k)); [discriminate|].
    destruct (readers (locks s k)); [|discriminate]. destruct (tokens (locks s k)); [|discriminate].
    destruct (waits_on s w k true) as [[r n]|] eqn:Ewo; [|discriminate]. inversion H; subst s'; clear H.
    destruct (HA k) as (A & B & C & D). unfold wq in A, C. rewrite Epd in A, C. inversion C as [|? ? Hnin Cw]; subst.
    assert (Hw : parked s w k true) by (exists r, n; exact Ewo).
    destruct (parked_elsewhere s w k true HA Hw) as (Helse & Hnr & _).
    apply (agree_update s _ w k HA); [others w| | | | | |].
    + intros k' Hk'. cbn [locks set_lock set_run set_req]. apply upd_other, Hk'.
    + exact Helse.
    + cbn [locks set_lock set_run set_req]. rewrite upd_same. unfold wq. cbn [pending wwait]. rewrite Epd. intros x Hin. left. split; [intros ->; exact (Hnin Hin)|right; exact Hin].
    + cbn [locks set_lock set_run set_req]. rewrite upd_same. cbn [rblocked]. intros x Hin. left. split; [intros ->; exact (Hnr eq_refl Hin)|exact Hin].
    + cbn [locks set_lock set_run set_req]. rewrite upd_same. unfold wq. cbn [pending wwait]. exact Cw.
    + cbn [locks set_lock set_run set_req]. rewrite upd_same. cbn [rblocked]. exact D.
  - (* Token *)
    destruct (tokens (locks s k)) as [|tk]; [discriminate|]. destruct (nth_error (rblocked (locks s k)) i) as [x|] eqn:Enth; [|discriminate].
    destruct (waits_on s x k false) as [[r n]|] eqn:Ewo; [|discriminate]. inversion H; subst s'; clear H.
    destruct (HA k) as (A & B & C & D). destruct (nodup_remove_nth i _ x D Enth) as [Nd Nin].
    assert (Hx : parked s x k false) by (exists r, n; exact Ewo).
    destruct (parked_elsewhere s x k false HA Hx) as (Helse & _ & Hnw).
    apply (agree_update s _ x k HA); [others x| | | | | |].
    + intros k' Hk'. cbn [locks set_lock set_run set_req]. apply upd_other, Hk'.
    + exact Helse.
    + cbn [locks set_lock set_run set_req]. rewrite upd_same. unfold wq in *. cbn [pending wwait]. intros y Hin. left. split; [intros ->; exact (Hnw eq_refl Hin)|exact Hin].
    + cbn [locks set_lock set_run set_req]. rewrite upd_same. cbn [rblocked]. intros y Hin. left. split; [intros ->; exact (Nin Hin)|apply (in_remove_nth y i _ Hin)].
    + cbn [locks set_lock set_run set_req]. rewrite upd_same. unfold wq in *. cbn [pending wwait]. exact C.
    + cbn [locks set_lock set_run set_req]. rewrite upd_same. cbn [rblocked]. exact Nd.
  - (* Release *)
    destruct (reqs s t) as [r|] eqn:Et; [|discriminate]. destruct (rphase r) as [n|] eqn:Ep; [|discriminate].
    destruct (Nat.eqb n (length (rkeys r)) && negb (running s t)) eqn:Eg; [|discriminate]. inversion H; subst s'; clear H.
    apply andb_prop in Eg. destruct Eg as [Eg _]. apply Nat.eqb_eq in Eg.
    assert (Hidle : idle_thread s t) by (apply (idle_done s t r n Et Ep); apply nth_error_None; lia).
    apply (agree_same_queues s _ t HA Hidle); [others t|intros k; cbn [locks set_req]; auto].
  - (* UnlockKey *)
    destruct (reqs s t) as [r|] eqn:Et; [|discriminate]. destruct (rphase r) as [n|[|k rem]] eqn:Ep; try discriminate.
    inversion H; subst s'; clear H.
    apply (agree_same_queues s _ t HA (idle_rel s t r _ Et Ep)); [others t|].
    intros k'. cbn [locks set_lock set_req]. destruct (Nat.eq_dec k' k) as [->|Hne]; [rewrite upd_same; unfold wq; destruct (rwrite r); cbn [pending wwait rblocked]; auto|rewrite upd_other by exact Hne; auto].
Qed.

Lemma init_agree : Agree init.
Proof. intros k. unfold init, wq; cbn. repeat split; try (intros ? []); constructor. Qed.

Theorem run_agree ls : forall s s', Agree s -> run s ls = Some s' -> Agree s'.
Proof.
  unfold run. induction ls as [|l ls IH]; intros s s' HA H; cbn [fold_left] in H.
  - inversion H; subst. exact HA.
  - destruct (step s l) as [s1|] eqn:E; [apply (IH s1 s' (agree_step s l s1 HA E) H)|].
    exfalso. clear -H. induction ls as [|l' ls IH]; cbn [fold_left] in H; [discriminate|auto].
Qed.

(* the guards are redundant: in a reachable state, whoever the lock is about to wake is parked on it, in that mode *)
Corollary grant_guard_redundant ls s k w : run init ls = Some s -> pending (locks s k) = Some w -> exists r n, waits_on s w k true = Some (r, n).
Proof.
  intros H Hp. destruct (run_agree ls init s init_agree H k) as (A & _). apply A. unfold wq. rewrite Hp. left. reflexivity.
Qed.
Corollary token_guard_redundant ls s k i x : run init ls = Some s -> nth_error (rblocked (locks s k)) i = Some x -> exists r n, waits_on s x k false = Some (r, n).
Proof. intros H Hn. destruct (run_agree ls init s init_agree H k) as (_ & B & _). apply B, (nth_error_In _ _ Hn). Qed.

Print Assumptions grant_guard_redundant.
