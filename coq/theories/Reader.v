(* C10 core: ReaderX.Read (repaired: io.ReadFull) over any chunking = reading the concatenated bytes *)
From Coq Require Import List Arith Lia Bool.
Import ListNotations.

Section R.
Variable byte : Type.
Inductive res := Ok (bs : list byte) (rest : list (list byte)) | EOF | Short.

(* the source delivers at most one chunk per Read call, possibly fewer bytes than asked, possibly none *)
Fixpoint read_full (fuel : nat) (cs : list (list byte)) (n : nat) (acc : list byte) : res :=
  match n with
  | O => Ok acc cs
  | S _ =>
    match fuel with
    | O => Short
    | S f =>
      match cs with
      | [] => match acc with [] => EOF | _ => Short end          (* io.EOF / io.ErrUnexpectedEOF *)
      | c :: r =>
        let k := Nat.min n (length c) in
        let rest := match skipn k c with [] => r | c' => c' :: r end in
        read_full f rest (n - k) (acc ++ firstn k c)
      end
    end
  end.

(* reading from the whole byte string at once (bytes.Buffer): all or nothing *)
Definition read_buf (bs : list byte) (n : nat) : option (list byte * list byte) :=
  if Nat.leb n (length bs) then Some (firstn n bs, skipn n bs) else None.

Lemma read_full_spec : forall fuel cs n acc, length cs < fuel ->
  match read_full fuel cs n acc with
  | Ok out rest => n <= length (concat cs) /\ out = acc ++ firstn n (concat cs) /\ concat rest = skipn n (concat cs)
  | EOF => length (concat cs) < n /\ acc = [] /\ concat cs = []
  | Short => length (concat cs) < n /\ (acc <> [] \/ concat cs <> [])
  end.
Proof.
  induction fuel as [|f IH]; intros cs n acc Hf; [lia|].
  destruct n as [|n]; cbn [read_full].
  - cbn. repeat split; [lia | now rewrite app_nil_r].
  - destruct cs as [|c r].
    + destruct acc; cbn; repeat split; auto; try lia. left. discriminate.
    + cbn [length] in Hf. set (k := Nat.min (S n) (length c)).
      assert (Hk : k <= S n /\ k <= length c) by (unfold k; lia).
      cbn [concat].
      destruct (skipn k c) as [|b c'] eqn:Es.
      * (* the chunk is used up *)
        assert (Hkc : k = length c).
        { pose proof (skipn_length k c) as Hl. rewrite Es in Hl. cbn [length] in Hl. destruct Hk. lia. }
        assert (Hrf : length r < f) by lia.
        specialize (IH r (S n - k) (acc ++ firstn k c) Hrf).
        rewrite Hkc in *. rewrite firstn_all in *.
        destruct (read_full f r (S n - length c) (acc ++ c)) as [out rest| |].
        -- destruct IH as (H1 & H2 & H3). rewrite app_length. repeat split; [lia| |].
           ++ rewrite H2, <- app_assoc. f_equal. rewrite firstn_app. rewrite (firstn_all2 c) by lia. reflexivity.
           ++ rewrite H3, skipn_app. rewrite (skipn_all2 c) by lia. reflexivity.
        -- destruct IH as (H1 & H2 & H3). apply app_eq_nil in H2 as [-> ->]. cbn in *. repeat split; auto; lia.
        -- destruct IH as (H1 & H2). rewrite app_length. split; [lia|].
           destruct H2 as [H2|H2]; [|right; intros E; apply app_eq_nil in E; tauto].
           destruct acc; [|left; discriminate]. right. cbn in H2. intros E. apply app_eq_nil in E as [-> _]. congruence.
      * (* part of the chunk remains: the request is complete *)
        assert (Hkn : k = S n).
        { pose proof (skipn_length k c) as Hl. rewrite Es in Hl. cbn [length] in Hl. unfold k in *. lia. }
        rewrite Hkn in *. replace (S n - S n) with 0 by lia.
        destruct f as [|f']; cbn [read_full];
          (rewrite app_length; repeat split; [lia | |]).
        -- f_equal. rewrite firstn_app. replace (S n - length c) with 0 by lia. cbn. now rewrite app_nil_r.
        -- cbn [concat]. rewrite <- Es, skipn_app. replace (S n - length c) with 0 by lia. reflexivity.
        -- f_equal. rewrite firstn_app. replace (S n - length c) with 0 by lia. cbn. now rewrite app_nil_r.
        -- cbn [concat]. rewrite <- Es, skipn_app. replace (S n - length c) with 0 by lia. reflexivity.
Qed.

(* however the source fragments the bytes, the stream reader returns what the buffer reader returns *)
Theorem readerx_agrees cs n : 0 < n ->
  match read_full (S (length cs)) cs n [], read_buf (concat cs) n with
  | Ok out rest, Some (out', rest') => out = out' /\ concat rest = rest'
  | EOF, None => concat cs = []
  | Short, None => concat cs <> []
  | _, _ => False
  end.
Proof.
  intros Hn. pose proof (read_full_spec (S (length cs)) cs n [] ltac:(lia)) as H. unfold read_buf.
  destruct (read_full (S (length cs)) cs n []) as [out rest| |].
  - destruct H as (H1 & H2 & H3). replace (Nat.leb n (length (concat cs))) with true by (symmetry; apply Nat.leb_le; lia). auto.
  - destruct H as (H1 & _ & H3). replace (Nat.leb n (length (concat cs))) with false by (symmetry; apply Nat.leb_gt; lia). auto.
  - destruct H as (H1 & [H2|H2]); [congruence|]. replace (Nat.leb n (length (concat cs))) with false by (symmetry; apply Nat.leb_gt; lia). auto.
Qed.
End R.
Print Assumptions readerx_agrees.
