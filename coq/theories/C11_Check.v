(* C11: what the driver evaluates on every observed case *)
From Coq Require Import List Bool ZArith Arith Lia.
Require Import Cases_Common.
Require Export ReWrite C11_Utf8 TexModel C11_Spec.
Require Import TexRef C11_Sim C11_Step C11_Thm.
Import ListNotations.

(* what the harness saw after one call: the result, Len(), and Bytes() where it was sampled *)
Definition oview := (obs * (Z * option (list Z)))%type.

Inductive case :=
  (* the same history on tex.Buffer and on the installed bytes.Buffer: per step the operation, what tex.Buffer
     showed and what bytes.Buffer showed *)
  | CEq (i : init) (steps : list (op * oview * oview))
  (* a history on tex.Buffer alone (ReWrite, NewSizedBuffer have no counterpart in bytes.Buffer) *)
  | CTex (i : init) (steps : list (op * oview)).

Definition obs_eqb (a b : obs) : bool := (fst a =? fst b)%Z && zlist_eqb (snd a) (snd b).
Definition obytes_eqb (a b : option (list Z)) : bool := opt_eqb zlist_eqb a b.
Definition oview_eqb (a b : oview) : bool :=
  obs_eqb (fst a) (fst b) && (fst (snd a) =? fst (snd b))%Z && obytes_eqb (snd (snd a)) (snd (snd b)).
Definition same_shape (a b : oview) : bool :=
  match snd (snd a), snd (snd b) with Some _, Some _ | None, None => true | _, _ => false end.
(* a full view (of the model or of the contract) against an observed one *)
Definition view_match (v : view) (o : oview) : bool :=
  obs_eqb (fst v) (fst o) && (zn (fst (snd v)) =? fst (snd o))%Z
  && match snd (snd o) with None => true | Some y => zlist_eqb (snd (snd v)) y end.

(* the concrete model of tex.Buffer reproduces what tex.Buffer showed, step by step *)
Fixpoint tex_match (b : buf) (l : list (op * oview)) : bool :=
  match l with
  | [] => true
  | (o, ov) :: r => let '(b', ob) := step b o in view_match (ob, (blen b', live b')) ov && tex_match b' r
  end.
(* the contract reproduces what was shown, step by step *)
Fixpoint spec_match (s : spec) (l : list (op * oview)) : bool :=
  match l with
  | [] => true
  | (o, ov) :: r => let '(s', ob) := sstep s o in view_match (ob, (length (un s'), un s')) ov && spec_match s' r
  end.
(* ... as far as the contract determines the history (it stops at the first operation outside op_ok) *)
Fixpoint spec_match_ok (g : bool) (k : Z) (s : spec) (l : list (op * oview)) : bool :=
  match l with
  | [] => true
  | (o, ov) :: r =>
    if op_ok g k s o then
      let '(s', ob) := sstep s o in
      view_match (ob, (length (un s'), un s')) ov && spec_match_ok (next_g g o) (next_k k s o) s' r
    else true
  end.

Definition is_rewrite (o : op) : bool := match o with ReWrite _ _ => true | _ => false end.
Definition ops3 (l : list (op * oview * oview)) : list op := map (fun x => fst (fst x)) l.
Definition tex3 (l : list (op * oview * oview)) : list (op * oview) := map (fun x => (fst (fst x), snd (fst x))) l.
Definition ref3 (l : list (op * oview * oview)) : list (op * oview) := map (fun x => (fst (fst x), snd x)) l.

(* construction: NewSizedBuffer panics exactly on a negative size and otherwise has at least the requested capacity *)
Definition init_holds (i : init) : bool :=
  match i with
  | INewSized size None => (size <? 0)%Z
  | INewSized size (Some c) => (0 <=? size)%Z && (size <=? zn c)%Z
  | _ => true
  end.

(* ---- the property's observable clauses on one observed case ---- *)
Definition case_holds (c : case) : bool :=
  match c with
  | CEq i steps =>
      (* tex.Buffer and bytes.Buffer agree on every step of a history the property speaks about *)
      if ok_seq false (init_k i) (init_spec i) (ops3 steps)
      then forallb (fun x => oview_eqb (snd (fst x)) (snd x)) steps
      else true
  | CTex i steps =>
      (* construction as specified; then tex.Buffer shows what the contract (with ReWrite overwriting exactly the
         addressed bytes) determines *)
      init_holds i
      && (if init_panicked i then match steps with [] => true | _ => false end
          else spec_match_ok false (init_k i) (init_spec i) steps)
  end.

(* ---- the implementation behaved exactly as the model ---- *)
Definition model_matches (c : case) : bool :=
  match c with
  | CEq i steps =>
      init_wf i && negb (init_panicked i) && init_holds i
      && negb (existsb is_rewrite (ops3 steps))
      && ok_seq false (init_k i) (init_spec i) (ops3 steps)
      && forallb (fun x => same_shape (snd (fst x)) (snd x)) steps
      && tex_match (init_buf i) (tex3 steps)            (* model of tex.Buffer  vs tex.Buffer *)
      && spec_match (init_spec i) (ref3 steps)          (* contract             vs bytes.Buffer *)
  | CTex i steps =>
      init_wf i && Bool.eqb (init_panics i) (init_panicked i) && init_holds i
      && (if init_panicked i then match steps with [] => true | _ => false end
          else tex_match (init_buf i) steps)
  end.

Definition case_accept (c : case) : bool := model_matches c.

(* ---- whatever the driver accepts satisfies the monitor: through the refinement proof ---- *)
Lemma zlist_eqb_refl l : zlist_eqb l l = true.
Proof. apply list_eqb_refl. apply Z.eqb_refl. Qed.

Lemma obs_eqb_eq a b : obs_eqb a b = true -> a = b.
Proof.
  destruct a as [t d], b as [t' d']. unfold obs_eqb; cbn [fst snd]. intros H. apply andb_prop in H. destruct H as [H1 H2].
  apply Z.eqb_eq in H1. apply zlist_eqb_eq in H2. subst. reflexivity.
Qed.

Lemma view_match_trans v a b : view_match v a = true -> view_match v b = true -> same_shape a b = true -> oview_eqb a b = true.
Proof.
  destruct v as [vo [vn vy]], a as [ao [an ay]], b as [bo [bn by_]]. unfold view_match, same_shape, oview_eqb; cbn [fst snd].
  intros Ha Hb Hs.
  apply andb_prop in Ha. destruct Ha as [Ha Ha3]. apply andb_prop in Ha. destruct Ha as [Ha1 Ha2].
  apply andb_prop in Hb. destruct Hb as [Hb Hb3]. apply andb_prop in Hb. destruct Hb as [Hb1 Hb2].
  apply obs_eqb_eq in Ha1. apply obs_eqb_eq in Hb1. apply Z.eqb_eq in Ha2. apply Z.eqb_eq in Hb2. subst ao bo an bn.
  assert (Hoo : obs_eqb vo vo = true) by (unfold obs_eqb; rewrite Z.eqb_refl, zlist_eqb_refl; reflexivity).
  rewrite Hoo, Z.eqb_refl. cbn [andb].
  destruct ay as [y1|], by_ as [y2|]; try discriminate; cbn [obytes_eqb opt_eqb]; [|reflexivity].
  apply zlist_eqb_eq in Ha3. apply zlist_eqb_eq in Hb3. subst. apply zlist_eqb_refl.
Qed.

Lemma ceq_sound steps : forall g k b s, R g b s -> (zn (cap b) <= k)%Z -> ok_seq g k s (ops3 steps) = true ->
  forallb (fun x => same_shape (snd (fst x)) (snd x)) steps = true ->
  tex_match b (tex3 steps) = true -> spec_match s (ref3 steps) = true ->
  forallb (fun x => oview_eqb (snd (fst x)) (snd x)) steps = true.
Proof.
  induction steps as [|[[o a] c] steps IH]; intros g k b s HR Hcap Hok Hsh Ht Hs; [reflexivity|].
  cbn [ops3 tex3 ref3 map fst snd ok_seq forallb tex_match spec_match] in *.
  apply andb_prop in Hok. destruct Hok as [Hok1 Hok2]. apply andb_prop in Hsh. destruct Hsh as [Hsh1 Hsh2].
  destruct (step_sim g k b s o HR Hcap Hok1) as (Ho & HR' & Hcap').
  destruct (step b o) as [b' ob]. destruct (sstep s o) as [s' os]. cbn [fst snd] in *.
  apply andb_prop in Ht. destruct Ht as [Ht1 Ht2]. apply andb_prop in Hs. destruct Hs as [Hs1 Hs2].
  pose proof (R_len _ _ _ HR') as Hlen. pose proof HR' as (_ & Hl' & _).
  rewrite <- Ho, Hlen, <- Hl' in Hs1.
  rewrite (view_match_trans _ _ _ Ht1 Hs1 Hsh1). cbn [andb].
  apply (IH (next_g g o) (next_k k s o) b' s'); assumption.
Qed.

Lemma ctex_sound steps : forall g k b s, R g b s -> (zn (cap b) <= k)%Z -> tex_match b steps = true -> spec_match_ok g k s steps = true.
Proof.
  induction steps as [|[o a] steps IH]; intros g k b s HR Hcap Ht; [reflexivity|].
  cbn [tex_match spec_match_ok] in *. destruct (op_ok g k s o) eqn:Hok; [|reflexivity].
  destruct (step_sim g k b s o HR Hcap Hok) as (Ho & HR' & Hcap').
  destruct (step b o) as [b' ob]. destruct (sstep s o) as [s' os]. cbn [fst snd] in *.
  apply andb_prop in Ht. destruct Ht as [Ht1 Ht2].
  pose proof (R_len _ _ _ HR') as Hlen. pose proof HR' as (_ & Hl' & _).
  rewrite <- Ho, Hlen, <- Hl'. rewrite Ht1. cbn [andb]. apply (IH (next_g g o) (next_k k s o) b' s'); assumption.
Qed.

Theorem case_sound : forall c, case_accept c = true -> case_holds c = true.
Proof.
  intros [i steps|i steps] H; unfold case_accept, model_matches in H; cbn [case_holds].
  - repeat (apply andb_prop in H; destruct H as [H ?]).
    match goal with Hok : ok_seq _ _ _ _ = true |- _ => rewrite Hok end.
    apply (ceq_sound steps false (init_k i) (init_buf i) (init_spec i)); try assumption; [apply init_related; assumption|apply Z.le_refl].
  - repeat (apply andb_prop in H; destruct H as [H ?]).
    match goal with Hh : init_holds _ = true |- _ => rewrite Hh end. cbn [andb].
    destruct (init_panicked i); [assumption|].
    apply (ctex_sound steps false (init_k i) (init_buf i) (init_spec i)); [apply init_related; assumption|apply Z.le_refl|assumption].
Qed.
