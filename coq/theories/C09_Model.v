(* C09 bitmap1024: executable model of
     Bit1024.Marshal / Unmarshal            (bitmap1024/bit1024.go:108-159)
     Bit1024.IterAs* / RIterAs* / getNAs*   (the 16-word loop; the traversal of one word is C08's subject)
     BigU32, BigU32s                        (bitmap1024/bigu32.go)
     U32BitTip, U32BitTips                  (bitmap1024/u32bittip.go)
   A Bit1024 is the list of its 16 words (each 0 <= w < 2^64), integers are Z, Go's fixed-width
   arithmetic is written out where it can wrap. *)
From Coq Require Import ZArith List Bool Lia.
Require Import LE Marshal.
Import ListNotations.
Open Scope Z_scope.

(* ------------------------------------------------------------------ index lists *)
Definition zseq (n : nat) : list Z := map Z.of_nat (seq 0 n).
Definition z16 : list Z := Eval vm_compute in zseq 16.
Definition z64 : list Z := Eval vm_compute in zseq 64.
Definition z1024 : list Z := Eval vm_compute in zseq 1024.

(* s[:k] for a count k that may be <= 0 or beyond the length *)
Definition take {A} (k : Z) (l : list A) : list A :=
  firstn (Z.to_nat (Z.min k (Z.of_nat (length l)))) l.
Definition zlen {A} (l : list A) : Z := Z.of_nat (length l).
Definition memz (x : Z) (l : list Z) : bool := existsb (Z.eqb x) l.

(* ------------------------------------------------------------------ one word *)
Definition wbits (w : Z) : list Z := filter (Z.testbit w) z64.        (* set positions, ascending *)
Definition wlen (w : Z) : Z := zlen (wbits w).                         (* Bit64.Len *)
(* Bit64.Set(i byte): positions above 63 are ignored *)
Definition set64 (w i : Z) : Z := if i <=? 63 then Z.lor w (Z.shiftl 1 i) else w.

(* Bit64.IterAsT / RIterAsT (s, cursor, add, n): the first n set positions in the direction, each plus
   add in the element type T (wr = conversion into T).  Both traversals of the code (table scan above
   sparseMagic members, ctz/clz loop below) produce this list: that is C08's theorem iter_fwd_spec. *)
Definition witer (rv : bool) (wr : Z -> Z) (w add n : Z) : list Z :=
  map (fun i => wr (i + add)) (take n (if rv then rev (wbits w) else wbits w)).

(* ------------------------------------------------------------------ Bit1024 *)
Definition bitmap := list Z.
Definition zero : bitmap := Eval vm_compute in repeat 0 16.           (* NewBit1024 *)

Fixpoint upd (b : list Z) (k : nat) (f : Z -> Z) : list Z :=
  match b, k with
  | [], _ => []
  | w :: r, O => f w :: r
  | w :: r, S k' => w :: upd r k' f
  end.

(* SetI16(i): index = i / 64, mod = byte(i % 64) with Go's truncating / and % *)
Definition set_i16 (b : bitmap) (i : Z) : bitmap :=
  let index := Z.quot i 64 in
  if (0 <=? index) && (index <? 16)
  then upd b (Z.to_nat index) (fun w => set64 w ((Z.rem i 64) mod 256))
  else b.

Definition member (b : bitmap) (j : Z) : bool :=
  (0 <=? j) && (j <? 1024) && Z.testbit (nth (Z.to_nat (j / 64)) b 0) (j mod 64).

(* Len: sum of the words' Len *)
Definition blen (b : bitmap) : Z := fold_right (fun w a => wlen w + a) 0 b.

(* The loop shared by Bit1024.IterAsT / RIterAsT (over the 16 words) and by the list forms (over the blocks):
     for each element x in order { if iterN >= n {break};
        e = x.Iter(s, cursor, ..., left); iterN += e; cursor += e; left = n - iterN }
   it x left = what the element's iterator writes when it is allowed left entries *)
Fixpoint iter_loop {X} (it : X -> Z -> list Z) (xs : list X) (n iterN : Z) (acc : list Z) : list Z :=
  match xs with
  | [] => acc
  | x :: r =>
    if iterN >=? n then acc
    else let out := it x (n - iterN) in iter_loop it r n (iterN + zlen out) (acc ++ out)
  end.

(* IterAsT / RIterAsT of Bit1024: word i is iterated with add = 64*i + add *)
Definition iter_words (rv : bool) (wr : Z -> Z) (ws : list (Z * Z)) (add n iterN : Z) (acc : list Z) : list Z :=
  iter_loop (fun kw left => witer rv wr (snd kw) (64 * fst kw + add) left) ws n iterN acc.
Definition indexed (b : bitmap) : list (Z * Z) := combine z16 b.
Definition iter1024 (rv : bool) (wr : Z -> Z) (b : bitmap) (add n : Z) : list Z :=
  iter_words rv wr (if rv then rev (indexed b) else indexed b) add n 0 [].

(* getNAsT(n, reverse): make([]T, n) panics for n < 0; nil and the empty slice are not distinguished *)
Inductive iobs := IPanic | IList (l : list Z).
Definition getn (rv : bool) (wr : Z -> Z) (b : bitmap) (add n : Z) : iobs :=
  if n <? 0 then IPanic else IList (iter1024 rv wr b add n).

Definition idz (x : Z) : Z := x.

(* ------------------------------------------------------------------ Marshal / Unmarshal *)
Definition marshal (b : bitmap) : list Z :=
  let n := blen b in
  if n =? 0 then []
  else if n <? 64 then encode_sparse (iter1024 false idz b 0 n)       (* GetNAsI16(n), PutUint16 each *)
  else dense b.                                                         (* PutUint64 each word *)

Inductive ures := UPanic | UErr | UOk (b : bitmap).

(* the sparse loop: for i < n/2 { i16 = int16(Uint16(buf[2i:])); if i16 < 0 || i16 > 1023 {return err}; SetI16(i16) } *)
Fixpoint unm_sparse (b : bitmap) (bs : list Z) : ures :=
  match bs with
  | b0 :: b1 :: r =>
    let u := b0 + 256 * b1 in
    let i16 := if u <? 32768 then u else u - 65536 in
    if (i16 <? 0) || (1023 <? i16) then UErr else unm_sparse (set_i16 b i16) r
  | _ => UOk b
  end.

Definition unmarshal (b : bitmap) (bs : list Z) : ures :=
  let n := zlen bs in
  if n =? 0 then UOk b
  else if 128 <? n then UErr
  else if negb (Z.rem n 2 =? 0) then UErr
  else if n <? 128 then unm_sparse b bs
  else UOk (undense 16 bs).                                              (* b[i] = Uint64(buf[8i:]) *)

(* ------------------------------------------------------------------ blocks *)
Record block := { start : Z; bits : bitmap }.
Definition MAXI64 : Z := (2 ^ 32 - 1) * 1024.                           (* math.MaxUint32 * 1024 *)
Definition MAXTIP : Z := (2 ^ 32 - 1) / 1024.                           (* MaxU32TipStart *)
Definition u32 (x : Z) : Z := x mod 2 ^ 32.

(* NewBigU32FromI64 *)
Definition big_new (v : Z) : option block :=
  if (v <? 0) || (v >=? MAXI64) then None
  else Some {| start := u32 (Z.quot v 1024); bits := set_i16 zero (Z.rem v 1024) |}.
(* SetI64: None = error, receiver unchanged *)
Definition big_set (b : block) (v : Z) : option block :=
  if (v <? 0) || (v >=? MAXI64) then None
  else if negb (u32 (Z.quot v 1024) =? start b) then None
  else Some {| start := start b; bits := set_i16 (bits b) (Z.rem v 1024) |}.
(* IterAsI64 / RIterAsI64: add = int64(Start) * 1024 *)
Definition big_iter (rv : bool) (b : block) (n : Z) : list Z := iter1024 rv idz (bits b) (start b * 1024) n.
Definition big_getn (rv : bool) (b : block) (n : Z) : iobs := if n <? 0 then IPanic else IList (big_iter rv b n).
(* the behaviour before fix fe370f6: int64(Start * 1024) with the product taken in uint32 *)
Definition big_iter_prefix (rv : bool) (b : block) (n : Z) : list Z := iter1024 rv idz (bits b) (u32 (start b * 1024)) n.

(* NewU32BitTipFromU32 / SetU32 (uint32 arithmetic; never fails to build) *)
Definition tip_new (v : Z) : block := {| start := v / 1024; bits := set_i16 zero (v mod 1024) |}.
Definition tip_set (b : block) (v : Z) : option block :=
  if negb (v / 1024 =? start b) then None
  else Some {| start := start b; bits := set_i16 (bits b) (v mod 1024) |}.
(* IterAsU32 / RIterAsU32: add = Start * 1024 in uint32, every sum in uint32 *)
Definition tip_iter (rv : bool) (b : block) (n : Z) : list Z := iter1024 rv u32 (bits b) (u32 (start b * 1024)) n.
Definition tip_getn (rv : bool) (b : block) (n : Z) : iobs := if n <? 0 then IPanic else IList (tip_iter rv b n).
(* the behaviour before fix 3becea6: getNAsU32 dispatched reverse to the forward iterator and vice versa *)
Definition tip_getn_prefix (rv : bool) (b : block) (n : Z) : iobs := tip_getn (negb rv) b n.

(* Bit64.Reverse: ^b on uint64;  Bit1024.Reverse: a NEW slice of the 16 reversed words *)
Definition rev64 (w : Z) : Z := (Z.lnot w) mod 2 ^ 64.
Definition brev (b : bitmap) : bitmap := map rev64 b.
(* BigU32.Reverse / U32BitTip.Reverse: a new block over the same Start with the reversed bitmap; the receiver is not touched *)
Definition block_reverse (b : block) : block := {| start := start b; bits := brev (bits b) |}.
(* BigU32s.Reverse / U32BitTips.Reverse: nil for the empty list, otherwise element by element *)
Definition blocks_reverse (bl : list block) : list block := map block_reverse bl.
(* Bit1024.Equal *)
Definition bequal (a b : bitmap) : bool :=
  (fix go (x y : list Z) : bool := match x, y with [], [] => true | u :: x', v :: y' => (u =? v) && go x' y' | _, _ => false end) a b.

(* running a list of further integers through SetI64 / SetU32: which were accepted, and the final block *)
Fixpoint sets (st : block -> Z -> option block) (b : block) (us : list Z) : list bool * block :=
  match us with
  | [] => ([], b)
  | u :: r =>
    match st b u with
    | Some b' => let '(a, bf) := sets st b' r in (true :: a, bf)
    | None => let '(a, bf) := sets st b r in (false :: a, bf)
    end
  end.

(* NewBigU32FromData / NewU32BitTipFromData *)
Inductive dres := DPanic | DErr | DOk (b : block).
Definition from_unm (st : Z) (r : ures) : dres :=
  match r with UPanic => DPanic | UErr => DErr | UOk b => DOk {| start := st; bits := b |} end.
Definition big_from_data (st : Z) (bs : list Z) : dres := from_unm st (unmarshal zero bs).
Definition tip_from_data (st : Z) (bs : list Z) : dres :=
  if MAXTIP <? st then DErr else from_unm st (unmarshal zero bs).

(* ------------------------------------------------------------------ list forms *)
(* the same loop over the blocks: e = b[i].IterAsT(s, pos, left) *)
Definition iter_blocks (it : block -> Z -> list Z) (bl : list block) (n iterN : Z) (acc : list Z) : list Z :=
  iter_loop it bl n iterN acc.
(* len == 0 returns nil before make([]T, n) is reached *)
Definition list_getn (it : block -> Z -> list Z) (bl : list block) (n : Z) : iobs :=
  match bl with
  | [] => IList []
  | _ => if n <? 0 then IPanic else IList (iter_blocks it bl n 0 [])
  end.
(* BigU32s walks the blocks first to last in both directions *)
Definition bigs_getn (rv : bool) (bl : list block) (n : Z) : iobs := list_getn (big_iter rv) bl n.
(* U32BitTips walks them last to first for the reverse form *)
Definition tips_getn (rv : bool) (bl : list block) (n : Z) : iobs :=
  list_getn (tip_iter rv) (if rv then rev bl else bl) n.

(* a block given by its start and the positions set in it (how the case files describe list elements) *)
Definition mk_block (st : Z) (ms : list Z) : block := {| start := st; bits := fold_left set_i16 ms zero |}.

Example demo_marshal :
  marshal (set_i16 (set_i16 zero 5) 1023) = [5; 0; 255; 3]
  /\ unmarshal zero [5; 0; 255; 3] = UOk (set_i16 (set_i16 zero 5) 1023)
  /\ unmarshal zero [0; 4] = UErr /\ unmarshal zero [1; 2; 3] = UErr.
Proof. vm_compute. repeat split. Qed.

Example demo_blocks :
  option_map (fun b => (start b, big_iter false b 3, big_iter_prefix false b 3)) (big_new (2 ^ 32)) = Some (2 ^ 22, [2 ^ 32], [0])
  /\ big_new (-1) = None /\ big_new MAXI64 = None
  /\ (match tip_set (tip_new 5) 7 with Some b => (tip_getn false b 5, tip_getn true b 5, tip_getn_prefix false b 5) | None => (IPanic, IPanic, IPanic) end)
     = (IList [5; 7], IList [7; 5], IList [7; 5]).
Proof. vm_compute. repeat split. Qed.
