(* C13 core: condition-variable queues never leave a consumer parked beside an item or a closed flag *)
From Coq Require Import Arith List Lia Bool.
Import ListNotations.

Record st := { items : nat; closed : bool; waiting : nat; woken : nat }.
Inductive label := PopEnter | Resume | Add | Close.

Section Q.
Variable add_broadcast : bool.     (* pipe queues: true; SyncQueue.Push: false (Signal) *)
Variable close_broadcast : bool.   (* true everywhere after fix 9; false = SyncQueue.Close on the pinned tree *)

Definition wake (all : bool) (s : st) : st :=
  if all then {| items := items s; closed := closed s; waiting := 0; woken := woken s + waiting s |}
  else match waiting s with
       | O => s
       | S w => {| items := items s; closed := closed s; waiting := w; woken := S (woken s) |}
       end.

(* one pass of the pop loop under the lock *)
Definition pop_body (s : st) : st :=
  match items s with
  | O => if closed s then s else {| items := 0; closed := false; waiting := S (waiting s); woken := woken s |}
  | S n => {| items := n; closed := closed s; waiting := waiting s; woken := woken s |}
            (* (Pop of a pipe queue on a closed queue returns ErrClosed and leaves the item: also no waiter) *)
  end.

Definition step (s : st) (l : label) : option st :=
  match l with
  | PopEnter => Some (pop_body s)
  | Resume => match woken s with O => None | S w => Some (pop_body {| items := items s; closed := closed s; waiting := waiting s; woken := w |}) end
  | Add => if closed s then Some s
           else Some (wake add_broadcast {| items := S (items s); closed := false; waiting := waiting s; woken := woken s |})
  | Close => if closed s then Some s
             else Some (wake close_broadcast {| items := items s; closed := true; waiting := waiting s; woken := woken s |})
  end.

Fixpoint run (s : st) (ls : list label) : option st :=
  match ls with [] => Some s | l :: r => match step s l with Some s' => run s' r | None => None end end.
Definition init := {| items := 0; closed := false; waiting := 0; woken := 0 |}.
End Q.

(* every queue after the repair: a parked consumer implies the queue is open and every item is already
   promised to a woken consumer; with Broadcast on add there is no item at all *)
Definition Inv (s : st) : Prop := waiting s > 0 -> closed s = false /\ items s <= woken s.
Definition InvB (s : st) : Prop := waiting s > 0 -> closed s = false /\ items s = 0.

Lemma pop_body_inv i c w k :
  (w > 0 -> c = false /\ i <= S k) -> Inv (pop_body {| items := i; closed := c; waiting := w; woken := k |}).
Proof.
  unfold Inv, pop_body. cbn. intros H. destruct i as [|i]; [destruct c|]; cbn; intros Hw.
  - destruct (H Hw) as [Hc _]. discriminate.
  - split; [reflexivity|lia].
  - destruct (H Hw) as [Hc Hi]. split; [exact Hc|lia].
Qed.

Lemma step_inv ab s l s' : Inv s -> step ab true s l = Some s' -> Inv s'.
Proof.
  intros H Hs. destruct s as [i c w k]. unfold Inv in H. cbn in H.
  destruct l; cbn in Hs.
  - inversion Hs; subst; clear Hs. apply pop_body_inv. intros Hw. destruct (H Hw). split; auto; lia.
  - (* a woken thread runs: it takes the item promised to it, or finds none and parks again *)
    destruct k as [|k]; [discriminate|]. inversion Hs; subst; clear Hs. apply pop_body_inv. exact H.
  - destruct c; inversion Hs; subst; clear Hs; [exact H|].
    unfold Inv, wake; cbn. destruct ab; cbn; [intros; lia|].
    destruct w as [|w]; cbn; intros Hw; [lia|]. destruct (H ltac:(lia)) as [_ Hi]. split; [reflexivity|lia].
  - destruct c; inversion Hs; subst; clear Hs; [exact H|]. unfold Inv, wake; cbn. intros; lia.
Qed.

Theorem no_lost_wakeup ab : forall ls s s', Inv s -> run ab true s ls = Some s' -> Inv s'.
Proof.
  induction ls as [|l ls IH]; intros s s' Hs H; cbn in H; [now inversion H; subst|].
  destruct (step ab true s l) as [s1|] eqn:E; [|discriminate]. eapply IH; [eapply step_inv; eauto|eauto].
Qed.

(* at quiescence (no woken consumer left to run) a parked consumer sees an open, empty queue *)
Corollary quiescent_parked_means_empty ab ls s :
  run ab true init ls = Some s -> woken s = 0 -> waiting s > 0 -> closed s = false /\ items s = 0.
Proof.
  intros H Hq Hw. assert (Hi : Inv init) by (unfold Inv, init; cbn; lia).
  destruct (no_lost_wakeup ab ls init s Hi H Hw). split; auto. lia.
Qed.

(* after Close nobody stays parked *)
Theorem close_releases_all ab s s' : step ab true s Close = Some s' -> closed s = false -> waiting s' = 0.
Proof. cbn. intros H Hc. rewrite Hc in H. inversion H; subst. reflexivity. Qed.

(* the pinned SyncQueue: Signal on close leaves a consumer parked next to a closed queue *)
Example syncq_close_signal_refuted :
  exists s, run false false init [PopEnter; PopEnter; Close] = Some s /\ waiting s = 1 /\ closed s = true.
Proof. eexists. repeat split; vm_compute; reflexivity. Qed.
Print Assumptions no_lost_wakeup.
