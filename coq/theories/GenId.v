(* C06: from the (time, step) pair to the 63-bit id: the id order is the pair order for a fixed node, the node field
   reads back the configured node, and a node restarted from the last id it issued continues strictly above it *)
From Coq Require Import ZArith List Lia.
Require Import BitField Gen.
Import ListNotations.
Open Scope Z_scope.

Section Id.
Variables nb node : Z.                      (* node width (8, 9 or 10 bits) and the configured node number *)
Hypothesis nb_ok : 0 <= nb.
Hypothesis node_ok : 0 <= node < 2 ^ nb.

(* id = time << (nb + 12) | node << 12 | step *)
Definition id_of (s : st) : Z := Z.lor (Z.lor (Z.shiftl (time s) (nb + 12)) (Z.shiftl node 12)) (step s).

Lemma id_value s : wf s -> id_of s = time s * 2 ^ (nb + 12) + (node * 2 ^ 12 + step s).
Proof. intros H. unfold id_of. apply three_fields; [exact nb_ok|lia|exact node_ok|]. unfold wf, stepMax in H. cbn. lia. Qed.

Lemma low_bound s : wf s -> 0 <= node * 2 ^ 12 + step s < 2 ^ (nb + 12).
Proof.
  intros H. unfold wf, stepMax in H. rewrite Z.pow_add_r by lia. change (2 ^ 12) with 4096. lia.
Qed.

(* the id order is the (time, step) order *)
Theorem id_order s1 s2 : wf s1 -> wf s2 -> (id_of s1 < id_of s2 <-> key s1 < key s2).
Proof.
  intros H1 H2. rewrite (id_value s1 H1), (id_value s2 H2).
  rewrite (compose_order (time s1) _ (time s2) _ (nb + 12) ltac:(lia) (low_bound s1 H1) (low_bound s2 H2)).
  unfold key, wf, stepMax in *. lia.
Qed.

(* every id of a history is strictly above the one before, for every clock trajectory *)
Corollary generated_ids_increase s now : wf s -> id_of s < id_of (generate s now).
Proof. intros H. destruct (generate_step s now H) as (Hw & Hk & _). apply (id_order s _ H Hw). exact Hk. Qed.

(* the fields read back: time, node, step *)
Definition time_of (id : Z) : Z := Z.shiftr id (nb + 12).
Definition node_of (id : Z) : Z := Z.land (Z.shiftr id 12) (2 ^ nb - 1).
Definition step_of (id : Z) : Z := Z.land id 4095.

Theorem fields_read_back s : wf s -> time_of (id_of s) = time s /\ node_of (id_of s) = node /\ step_of (id_of s) = step s.
Proof.
  intros H. pose proof (low_bound s H) as Hl. unfold wf, stepMax in H. unfold time_of, node_of, step_of. rewrite (id_value s H).
  split; [apply shiftr_compose; lia|]. split.
  - replace (time s * 2 ^ (nb + 12) + (node * 2 ^ 12 + step s)) with ((time s * 2 ^ nb + node) * 2 ^ 12 + step s)
      by (rewrite Z.pow_add_r by lia; ring).
    rewrite (shiftr_compose _ 12 (step s)) by (cbn; lia). apply land_ones_compose; [exact nb_ok|exact node_ok].
  - replace (time s * 2 ^ (nb + 12) + (node * 2 ^ 12 + step s)) with ((time s * 2 ^ nb + node) * 2 ^ 12 + step s)
      by (rewrite Z.pow_add_r by lia; ring).
    change 4095 with (2 ^ 12 - 1). apply land_ones_compose; cbn; lia.
Qed.

(* restart: a node created from the last id it issued holds the same (time, step) and therefore continues above it *)
Definition restart (last : Z) : st := {| time := time_of last; step := step_of last |}.
Theorem restart_continues s now : wf s -> restart (id_of s) = s /\ id_of s < id_of (generate (restart (id_of s)) now).
Proof.
  intros H. destruct (fields_read_back s H) as (Ht & _ & Hs).
  assert (E : restart (id_of s) = s) by (unfold restart; rewrite Ht, Hs; destruct s; reflexivity).
  split; [exact E|]. rewrite E. apply generated_ids_increase, H.
Qed.
End Id.
Print Assumptions restart_continues.
