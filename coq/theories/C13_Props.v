(* C13 queues: no lost wake-ups; close releases every blocked consumer.
   The property clause by clause, for every label sequence (= every number of producers and consumers and every
   interleaving of add / pop / close, and of push / wait-channel receive / pop for the priority queue).
   Condition-variable queues (q.Q, async.Q, mux.Q = KPipe, mq.MQ = KMQ, syncq.SyncQueue = KSync): model C13_Cond.v;
   priq.PriQueue: model C13_Pri.v.  This file contains statements closed by `exact` only. *)
From Coq Require Import List Bool ZArith Arith Permutation.
Require CondQ PriTok.
Require Import C13_Cond C13_Pri C13_CondProofs C13_CondSound C13_CondMore C13_PriProofs C13_Check.
Import ListNotations.

(* ---- whatever the driver accepts satisfies the monitor ---- *)
Theorem c13_case_sound : forall c, case_accept c = true -> case_holds c = true.
Proof. exact case_sound. Qed.

(* ---- condition-variable queues ---- *)

(* no lost wake-up: in every reachable state of every queue type, a parked consumer implies that the queue is open and
   that every item in it is already promised to a consumer which has been woken and has not run yet *)
Theorem c13_no_lost_wakeup : forall c ls s,
  run c (init c) ls = Some s -> 0 < nwaiting s -> closed s = false /\ length (items s) <= nwoken s.
Proof. exact no_lost_wakeup. Qed.

(* hence at every quiescent point (every woken consumer has run) no consumer is parked beside an item or a closed queue *)
Theorem c13_quiescent_parked_means_open_empty : forall c ls s,
  run c (init c) ls = Some s -> quiescent s = true -> 0 < nwaiting s -> closed s = false /\ items s = [].
Proof. exact quiescent_parked_means_open_empty. Qed.

(* Close leaves nobody parked, whatever number of consumers was blocked *)
Theorem c13_close_leaves_nobody_waiting : forall c ls s s' o,
  run c (init c) ls = Some s -> step c s LClose = Some (s', o) -> closed s' = true /\ nwaiting s' = 0.
Proof. exact close_leaves_nobody_waiting_reach. Qed.

(* if k consumers are blocked and the queue is closed, all k return: each of them has returned at the next quiescent
   point, whatever happens in between *)
Theorem c13_close_releases_all : forall c ls s s1 o ls' s2 u,
  run c (init c) ls = Some s -> step c s LClose = Some (s1, o) -> run c s1 ls' = Some s2 -> quiescent s2 = true ->
  is_waiting (getc u (cs s)) = true -> exists r, getc u (cs s2) = Done r.
Proof. exact close_releases_all. Qed.

(* if k items are added, k blocked consumers return with k distinct items *)
Theorem c13_k_items_k_consumers : forall c ls0 s ls s',
  run c (init c) ls0 = Some s -> quiescent s = true -> closed s = false -> items s = [] ->
  forallb add_or_resume ls = true -> run c s ls = Some s' -> quiescent s' = true ->
  length (added s') = length (added s) + nwaiting s ->
  nwaiting s' = 0 /\ items s' = [] /\
  (forall u, is_waiting (getc u (cs s)) = true -> exists x, getc u (cs s') = Done (RItem x)) /\
  Permutation (ritems (cs s') ++ taken s') (added s').
Proof. exact k_items_k_consumers. Qed.

(* nothing is lost or handed out twice: delivered + taken by TryPop + queued = accepted, in every reachable state *)
Theorem c13_conservation : forall c ls s,
  run c (init c) ls = Some s -> Permutation (ritems (cs s) ++ taken s ++ items s) (added s).
Proof. exact conservation. Qed.

Theorem c13_delivered_distinct : forall c ls s,
  run c (init c) ls = Some s -> NoDup (added s) -> NoDup (ritems (cs s) ++ taken s).
Proof. exact delivered_distinct. Qed.

(* the ...Anyway adds are retry loops: an attempt answered "full" or "closed" is a no-op, the accepted attempt wakes
   every waiting consumer like any add; MQ.TryClear never touches what consumers see *)
Theorem c13_full_add_is_noop : forall c s l s' r, (exists x, l = LAdd x None \/ l = LAddCtrl x) ->
  step c s l = Some (s', OAdd r) -> r <> AOk -> s' = s.
Proof. exact full_add_is_noop. Qed.

Theorem c13_accepted_add_wakes_all : forall c s l s', knd c <> KSync ->
  (exists x, l = LAdd x None \/ l = LAddPrior x \/ l = LAddCtrl x \/ l = LAddPriorCtrl x) ->
  step c s l = Some (s', OAdd AOk) -> nwaiting s' = 0.
Proof. exact accepted_add_wakes_all. Qed.

Theorem c13_tryclear_spec : forall c s s' o, step c s LTryClear = Some (s', o) ->
  s' = s /\ o = OBool (closed s && is_nil (items s)).
Proof. exact tryclear_spec. Qed.

(* the decreasing measure: a woken consumer can always run, each such step lowers the number of woken consumers by
   one, so from every state the system reaches a quiescent state after exactly that many steps *)
Theorem c13_resume_enabled : forall c s u,
  is_woken (getc u (cs s)) = true -> exists s' o, step c s (LResume u) = Some (s', o).
Proof. exact resume_enabled. Qed.

Theorem c13_resume_decreases : forall c s u s' o, step c s (LResume u) = Some (s', o) -> nwoken s' + 1 = nwoken s.
Proof. exact resume_decreases. Qed.

Theorem c13_resumes_terminate : forall c n s, nwoken s = n ->
  exists ls s', length ls = n /\ run c s ls = Some s' /\ quiescent s' = true.
Proof. exact resumes_terminate. Qed.

(* the count model of DESIGN appendix J: Broadcast or Signal on add, Broadcast on close *)
Theorem c13_count_model_no_lost_wakeup : forall ab ls s s',
  CondQ.Inv s -> CondQ.run ab true s ls = Some s' -> CondQ.Inv s'.
Proof. exact CondQ.no_lost_wakeup. Qed.

(* the defect repaired by fix 9: with Signal on close a consumer stays parked beside a closed queue *)
Theorem c13_syncq_close_signal_refuted :
  exists s, CondQ.run false false CondQ.init [CondQ.PopEnter; CondQ.PopEnter; CondQ.Close] = Some s
            /\ CondQ.waiting s = 1 /\ CondQ.closed s = true.
Proof. exact CondQ.syncq_close_signal_refuted. Qed.

(* ---- the priority queue's wake-up token ---- *)

(* at every moment when the queue is non-empty, no Push or Pop call is in progress and no consumer holds a
   wait-channel signal it has not yet followed by a Pop, the wait channel is readable - and nobody sleeps on it *)
Theorem c13_pri_no_lost_wakeup : forall cap n ls s,
  prun (pinit cap n) ls = Some s -> 0 < length (ents s) -> pend s = 0 -> nholding s = 0 ->
  token s = true /\ nparked s = 0.
Proof. exact pri_no_lost_wakeup. Qed.

(* the invariant behind it, in every reachable state *)
Theorem c13_pri_token_invariant : forall cap n ls s, prun (pinit cap n) ls = Some s ->
  (0 < length (ents s) -> token s = true \/ 0 < pend s \/ 0 < nholding s) /\ (token s = true -> nparked s = 0).
Proof. exact pri_token_invariant. Qed.

(* progress with the number of items as measure: while items remain the protocol's next step is enabled, and every Pop
   of a token holder on a non-empty queue hands out one item *)
Theorem c13_pri_progress : forall cap n ls s, prun (pinit cap n) ls = Some s -> 0 < length (ents s) ->
  (exists w s' o, pstep s (PSignal w) = Some (s', o)) \/
  (exists t s' o, pstep s (PPopHeld t) = Some (s', o)) \/
  token s = true.
Proof. exact pri_progress. Qed.

Theorem c13_pri_pop_held_decreases : forall s t s' o, pstep s (PPopHeld t) = Some (s', o) -> 0 < length (ents s) ->
  S (length (ents s')) = length (ents s) /\ exists v, pgetc t (pcs s') = PDone (Some v).
Proof. exact pop_held_decreases. Qed.

Theorem c13_pri_conservation : forall cap n ls s, prun (pinit cap n) ls = Some s ->
  Permutation (pritems (pcs s) ++ ptaken s ++ vals (ents s)) (padded s).
Proof. exact pri_conservation. Qed.

(* the count model of DESIGN appendix AN *)
Theorem c13_pri_count_model_no_lost_wakeup : forall c ls s,
  PriTok.run (PriTok.init c) ls = Some s -> PriTok.pend s = 0 -> PriTok.holding s = 0 -> 0 < PriTok.items s ->
  PriTok.token s = true.
Proof. exact PriTok.no_lost_wakeup. Qed.

(* ---- non-vacuity ---- *)
Theorem c13_example_two_items_two_consumers :
  let c := {| knd := KSync; reqmax := 0; ctrlmax := 0; nthr := 2 |} in
  exists s, run c (init c) [LPop 0 true; LPop 1 true; LAdd 7 (Some 0); LAdd 8 (Some 1); LResume 1; LResume 0] = Some s
            /\ cs s = [Done (RItem 8%Z); Done (RItem 7%Z)] /\ items s = [].
Proof. exact two_items_two_consumers. Qed.

Theorem c13_example_three_blocked_close_all_return :
  let c := {| knd := KPipe; reqmax := 0; ctrlmax := 0; nthr := 3 |} in
  exists s, run c (init c) [LPop 0 false; LPop 1 true; LPop 2 false; LClose; LResume 2; LResume 0; LResume 1] = Some s
            /\ cs s = [Done RClosed; Done RClosed; Done RClosed].
Proof. exact three_blocked_close_all_return. Qed.

Print Assumptions c13_case_sound.
Print Assumptions c13_no_lost_wakeup.
Print Assumptions c13_quiescent_parked_means_open_empty.
Print Assumptions c13_close_leaves_nobody_waiting.
Print Assumptions c13_close_releases_all.
Print Assumptions c13_k_items_k_consumers.
Print Assumptions c13_conservation.
Print Assumptions c13_delivered_distinct.
Print Assumptions c13_full_add_is_noop.
Print Assumptions c13_accepted_add_wakes_all.
Print Assumptions c13_tryclear_spec.
Print Assumptions c13_resume_enabled.
Print Assumptions c13_resume_decreases.
Print Assumptions c13_resumes_terminate.
Print Assumptions c13_count_model_no_lost_wakeup.
Print Assumptions c13_syncq_close_signal_refuted.
Print Assumptions c13_pri_no_lost_wakeup.
Print Assumptions c13_pri_token_invariant.
Print Assumptions c13_pri_progress.
Print Assumptions c13_pri_pop_held_decreases.
Print Assumptions c13_pri_conservation.
Print Assumptions c13_pri_count_model_no_lost_wakeup.
Print Assumptions c13_example_two_items_two_consumers.
Print Assumptions c13_example_three_blocked_close_all_return.
