(* C06: what the driver evaluates on every observed case.
   case_accept = the implementation answered exactly what the model of C06_Model.v answers (HardNode and
   UnixNanoID: every id and every IDFields triple; MonoNode, whose clock cannot be injected: the observed run is a
   run the model allows for the readings the ids themselves carry, and those readings never go back).
   case_holds  = the property's clauses on the observed ids alone. *)
From Coq Require Import ZArith List Lia Bool Sorted.
Require Export Gen C06_Model C06_Hist.
Require Import Cases_Common.
Import ListNotations.
Open Scope Z_scope.

(* ---------------------------------------------------------------- observations *)
Definition obs := (Z * (Z * Z * Z))%type.          (* returned id, IDFields id = (time, node, step) *)

Definition fields_eqb (a b : Z * Z * Z) : bool :=
  (f_time a =? f_time b) && (f_node a =? f_node b) && (f_step a =? f_step b).
Definition obs_eqb (a b : obs) : bool := (fst a =? fst b) && fields_eqb (snd a) (snd b).

Lemma fields_eqb_eq a b : fields_eqb a b = true -> a = b.
Proof.
  destruct a as [[a1 a2] a3], b as [[b1 b2] b3]. unfold fields_eqb, f_time, f_node, f_step. cbn [fst snd].
  intros H. apply andb_prop in H as [H H3]. apply andb_prop in H as [H1 H2].
  apply Z.eqb_eq in H1, H2, H3. now subst.
Qed.
Lemma obs_eqb_eq a b : obs_eqb a b = true -> a = b.
Proof.
  destruct a as [a f], b as [b g]. unfold obs_eqb. cbn [fst snd]. intros H. apply andb_prop in H as [H1 H2].
  apply Z.eqb_eq in H1. apply fields_eqb_eq in H2. now subst.
Qed.

(* concurrent callers: the harness reports what each caller got, in the caller's own order, plus a witness for
   the lock order (which caller held the k-th critical section); Coq replays the witness.  owners = [] with a
   single caller is the sequential case. *)
Fixpoint pop {A} (g : nat) (per : list (list A)) : option (A * list (list A)) :=
  match per, g with
  | [], _ => None
  | l :: r, O => match l with [] => None | x :: l' => Some (x, l' :: r) end
  | l :: r, S g' => match pop g' r with None => None | Some (x, r') => Some (x, l :: r') end
  end.
Definition is_nil {A} (l : list A) : bool := match l with [] => true | _ => false end.
Fixpoint linearize {A} (owners : list nat) (per : list (list A)) : option (list A) :=
  match owners with
  | [] => if forallb is_nil per then Some [] else None
  | g :: o => match pop g per with
              | None => None
              | Some (x, per') => match linearize o per' with None => None | Some l => Some (x :: l) end
              end
  end.
Definition lin {A} (owners : list nat) (per : list (list A)) : option (list A) :=
  match owners, per with
  | [], [l] => Some l
  | _, _ => linearize owners per
  end.

(* ---------------------------------------------------------------- boolean monitors *)
Fixpoint incr_from (x : Z) (l : list Z) : bool := match l with [] => true | y :: r => (x <? y) && incr_from y r end.
Definition incr (l : list Z) : bool := match l with [] => true | x :: r => incr_from x r end.
Fixpoint nondec_from (x : Z) (l : list Z) : bool := match l with [] => true | y :: r => (x <=? y) && nondec_from y r end.
Fixpoint forall2b {A B} (p : A -> B -> bool) (l1 : list A) (l2 : list B) : bool :=
  match l1, l2 with
  | [], [] => true
  | a :: r1, b :: r2 => p a b && forall2b p r1 r2
  | _, _ => false
  end.

Lemma SS_incr_from x l : StronglySorted Z.lt (x :: l) -> incr_from x l = true.
Proof.
  revert x. induction l as [|y r IH]; intros x H; cbn [incr_from]; [reflexivity|].
  inversion H as [|? ? HS HF]; subst. inversion HF; subst. apply andb_true_intro. split; [now apply Z.ltb_lt|now apply IH].
Qed.
Lemma SS_incr l : StronglySorted Z.lt l -> incr l = true.
Proof. destruct l; [reflexivity|]. apply SS_incr_from. Qed.

Lemma nondec_from_SS x l : nondec_from x l = true -> StronglySorted Z.le (x :: l).
Proof.
  revert x. induction l as [|y r IH]; intros x H; cbn [nondec_from] in H; [repeat constructor|].
  apply andb_prop in H as [H1 H2]. apply Z.leb_le in H1. specialize (IH y H2).
  constructor; [exact IH|]. inversion IH as [|? ? _ HF]; subst. constructor; [exact H1|].
  eapply Forall_impl; [|exact HF]. cbn. intros; lia.
Qed.

Lemma F2_forall2b {A B} (P : A -> B -> Prop) (p : A -> B -> bool) l1 l2 :
  (forall a b, P a b -> p a b = true) -> Forall2 P l1 l2 -> forall2b p l1 l2 = true.
Proof. intros H. induction 1; cbn [forall2b]; auto. apply andb_true_intro. split; auto. Qed.

(* ================================================================ the case type *)
(* transport encoding: 19-digit numerals are slow to read (about 1 ms each), so the harness prints differences to the
   previous element (first element: difference to 0) and Coq adds them up again before anything is evaluated *)
Inductive dobs := O4 (did dt n s : Z).       (* id - previous id, time field - previous time field, node field, step field *)
Inductive dpair := P2 (dts did : Z).         (* ts - previous ts, id - previous id *)

Fixpoint undelta (prev : Z) (l : list Z) : list Z :=
  match l with [] => [] | d :: r => let x := prev + d in x :: undelta x r end.
Fixpoint dec_obs (pid pt : Z) (l : list dobs) : list obs :=
  match l with
  | [] => []
  | O4 did dt n s :: r => let id := pid + did in let t := pt + dt in (id, (t, n, s)) :: dec_obs id t r
  end.
Fixpoint dec_pairs (pts pid : Z) (l : list dpair) : list (Z * Z) :=
  match l with
  | [] => []
  | P2 dts did :: r => let ts := pts + dts in let id := pid + did in (ts, id) :: dec_pairs ts id r
  end.

Inductive case :=
  (* HardNode: layout, node, seed id `min` with IDFields(min) as observed, the scripted wall-clock readings (ms)
     in the order the clock hook was called, err = NewNode refused, lock-order witness, per caller (id, IDFields id) *)
| CHard (c : cfg) (node min : Z) (minf : Z * Z * Z) (dclocks : list Z) (err : bool) (owners : list nat) (per : list (list dobs))
  (* MonoNode (real monotonic clock) *)
| CMono (c : cfg) (node : Z) (err : bool) (owners : list nat) (per : list (list dobs))
  (* UnixNanoID: starting value, per caller (supplied ts, returned id) *)
| CNano (cur : Z) (owners : list nat) (per : list (list dpair))
  (* Setup: layout before, the options applied, then the probes IDParse(0).time, IDFields(MaxInt64), IDFields(1) *)
| CSetup (c0 : cfg) (opts : list opt) (p_epoch : Z) (f_max f_one : Z * Z * Z)
  (* stress run of one public generating entry point (GenID, GenIDByTS, HardNode.Generate, MonoNode.Generate) with many
     callers released from a barrier: a sample of what each caller got, in the caller's own order (differences), the
     restart point `floor`, and a witness order.  Order-free clauses only: pairwise distinct, per caller increasing,
     above the restart point *)
| CStress (floor : Z) (owners : list nat) (per : list (list Z))
  (* source audit of the entry points the lint cannot express (a method that only delegates to a locked one) *)
| CAudit (ok : bool).

(* ---------------------------------------------------------------- HardNode *)
Definition hard_model_obs (c : cfg) (node : Z) (s0 : st) (clocks : list Z) : list obs :=
  map (fun id => (id, id_fields c id)) (hard_ids c node s0 clocks).

Definition accept_hard c node min minf clocks (err : bool) owners (per : list (list obs)) : bool :=
  match new_node c node min with
  | None => err
  | Some s0 =>
    negb err && fields_eqb minf (id_fields c min) &&
    match lin owners per with
    | None => false
    | Some l => list_eqb obs_eqb l (hard_model_obs c node s0 clocks)
    end
  end.

(* the clauses, on the ids in lock order; guarded by the representability of the 63-bit format (hard_dom,
   computed from the inputs and the observed IDFields of the seed id).  No guard on the node number: whatever node
   NewNode accepted is the configured node, and its ids must satisfy every clause *)
Definition hard_clauses (c : cfg) (node min : Z) (minf : Z * Z * Z) (clocks : list Z) (l : list obs) : bool :=
  let s0 := {| time := f_time minf; step := f_step minf |} in
  if hard_dom c s0 clocks && (0 <=? f_step minf) && (f_step minf <=? 4095) then
    Nat.eqb (length l) (length clocks)
    (* every id above every earlier id *)
    && incr (map fst l)
    (* restarted with an id that carries this node's number: everything lies above it *)
    && (if (0 <=? min) && (min <? 9223372036854775808) && (f_node minf =? node)
        then forallb (fun o => min <? fst o) l else true)
    (* time field never before the clock reading, node field = configured node *)
    && forall2b (fun k o => (k - epoch c <=? f_time (snd o)) && (f_node (snd o) =? node)) clocks l
  else true.

Definition holds_hard c node min minf clocks (err : bool) owners (per : list (list obs)) : bool :=
  if err then true
  else match lin owners per with None => false | Some l => hard_clauses c node min minf clocks l end.

Lemma map_fst_model {A} (f : A -> Z) (g : A -> Z * Z * Z) (l : list A) : map fst (map (fun x => (f x, g x)) l) = map f l.
Proof. rewrite map_map. apply map_ext. reflexivity. Qed.

Theorem hard_model_holds c node min clocks : node_valid c node = true ->
  hard_clauses c node min (id_fields c min) clocks (hard_model_obs c node (seed c min) clocks) = true.
Proof.
  intros Hv. unfold hard_clauses. fold (seed c min).
  destruct (hard_dom c (seed c min) clocks && (0 <=? f_step (id_fields c min))
            && (f_step (id_fields c min) <=? 4095)) eqn:G; [|reflexivity].
  apply andb_prop in G as [G _]. apply andb_prop in G as [Hd _].
  pose proof (node_valid_ok c node Hv) as Hn. pose proof (seed_wf c min) as Hw.
  destruct (hard_dom_unfold c _ _ Hd) as (Hc & _).
  pose proof (hard_strictly_increasing c node _ clocks Hn Hw Hd) as HS.
  pose proof (hard_fields c node _ clocks Hn Hw Hd) as HF.
  unfold hard_model_obs.
  apply andb_true_intro. split; [apply andb_true_intro; split; [apply andb_true_intro; split|]|].
  - rewrite map_length. unfold hard_ids. rewrite map_length, hard_states_length. apply Nat.eqb_refl.
  - rewrite (map_fst_model (fun id => id)), map_id. apply SS_incr. now inversion HS.
  - destruct ((0 <=? min) && (min <? 9223372036854775808) && (f_node (id_fields c min) =? node)) eqn:Gm; [|reflexivity].
    apply andb_prop in Gm as [Gm G3]. apply andb_prop in Gm as [G1 G2].
    apply Z.leb_le in G1. apply Z.ltb_lt in G2. apply Z.eqb_eq in G3.
    destruct (seed_id c node min Hc ltac:(lia) G3) as (_ & _ & E). rewrite E in HS.
    inversion HS as [|? ? _ HFm]; subst. rewrite forallb_forall. intros o Ho.
    apply in_map_iff in Ho as (id & <- & Hid). cbn [fst]. apply Z.ltb_lt. rewrite Forall_forall in HFm. now apply HFm.
  - clear HS Hd. revert HF. generalize (hard_ids c node (seed c min) clocks) as ids. intros ids HF.
    induction HF as [|k id ks ids (t & stp & E & Hk & _) _ IH]; cbn [map forall2b]; [reflexivity|].
    rewrite IH, andb_true_r. cbn [snd]. rewrite E. unfold f_time, f_node. cbn [fst snd].
    apply andb_true_intro. split; [now apply Z.leb_le|apply Z.eqb_refl].
Qed.

Theorem hard_sound c node min minf clocks err owners per :
  accept_hard c node min minf clocks err owners per = true -> holds_hard c node min minf clocks err owners per = true.
Proof.
  unfold accept_hard, holds_hard, new_node. destruct (node_valid c node) eqn:Hv.
  - intros H. apply andb_prop in H as [H H3]. apply andb_prop in H as [H1 H2].
    apply negb_true_iff in H1. rewrite H1. apply fields_eqb_eq in H2. subst minf.
    destruct (lin owners per) as [l|]; [|discriminate].
    apply (list_eqb_eq obs_eqb obs_eqb_eq) in H3. subst l. now apply hard_model_holds.
  - intros ->. reflexivity.
Qed.

(* ---------------------------------------------------------------- MonoNode *)
Definition mono_model_obs (c : cfg) (node : Z) (sts : list st) : list obs :=
  map (fun s => (id_x c node s, id_fields c (id_x c node s))) sts.

(* witness readings = the observed time fields; they must never go back (monotonic clock) and stay representable *)
Definition mono_dom (c : cfg) (ts : list Z) : bool :=
  (0 <=? nb c) && (nb c <=? 50) && nondec_from 0 ts && forallb (fun t => t <? 2 ^ (51 - nb c)) ts.

Definition accept_mono c node (err : bool) owners (per : list (list obs)) : bool :=
  if node_valid c node then
    negb err &&
    match lin owners per with
    | None => false
    | Some l =>
      let ts := map (fun o => f_time (snd o)) l in
      mono_dom c ts &&
      match mono_states mono_init (map (fun t => (t, [])) ts) with
      | None => false
      | Some sts => list_eqb obs_eqb l (mono_model_obs c node sts)
      end
    end
  else err.

Definition mono_clauses (node : Z) (l : list obs) : bool :=
  incr (map fst l) && forallb (fun o => f_node (snd o) =? node) l.

Definition holds_mono (node : Z) (err : bool) owners (per : list (list obs)) : bool :=
  if err then true
  else match lin owners per with None => false | Some l => mono_clauses node l end.

Lemma flat_single ts : flat (map (fun t => (t, [])) ts) = ts.
Proof. unfold flat. induction ts as [|t r IH]; cbn; [reflexivity|]. now f_equal. Qed.

Theorem mono_model_holds c node ts sts : node_valid c node = true -> mono_dom c ts = true ->
  mono_states mono_init (map (fun t => (t, [])) ts) = Some sts ->
  mono_clauses node (mono_model_obs c node sts) = true.
Proof.
  intros Hv Hd Hm. pose proof (node_valid_ok c node Hv) as Hn.
  unfold mono_dom in Hd. apply andb_prop in Hd as [Hd H4]. apply andb_prop in Hd as [Hd H3]. apply andb_prop in Hd as [H1 H2].
  apply Z.leb_le in H1, H2. assert (Hc : cfg_ok c) by (unfold cfg_ok; lia).
  assert (Hw : wf mono_init) by (unfold wf, mono_init, stepMax; cbn; lia).
  assert (Ht : time_ok c mono_init).
  { unfold time_ok, mono_init. cbn [time]. split; [lia|]. apply Z.pow_pos_nonneg; lia. }
  destruct (mono_strictly_increasing c node (map (fun t => (t, [])) ts) mono_init sts Hc Hn Hw Ht) as [M1 M2]; [| |exact Hm|].
  - rewrite flat_single. now apply nondec_from_SS.
  - rewrite flat_single. rewrite Forall_forall. rewrite forallb_forall in H4. intros r Hr. apply Z.ltb_lt. now apply H4.
  - unfold mono_clauses, mono_model_obs. apply andb_true_intro. split.
    + rewrite (map_fst_model (id_x c node)). apply SS_incr. cbn [map] in M1. now inversion M1.
    + rewrite forallb_forall. intros o Ho. apply in_map_iff in Ho as (s & <- & Hs). cbn [snd].
      rewrite Forall_forall in M2. rewrite (M2 s Hs). apply Z.eqb_refl.
Qed.

Theorem mono_sound c node err owners per :
  accept_mono c node err owners per = true -> holds_mono node err owners per = true.
Proof.
  unfold accept_mono, holds_mono. destruct (node_valid c node) eqn:Hv.
  - intros H. apply andb_prop in H as [H1 H]. apply negb_true_iff in H1. rewrite H1.
    destruct (lin owners per) as [l|]; [|discriminate]. cbv zeta in H. apply andb_prop in H as [Hd H].
    destruct (mono_states mono_init _) as [sts|] eqn:Hm; [|discriminate].
    apply (list_eqb_eq obs_eqb obs_eqb_eq) in H. rewrite H at 1. rewrite H in Hd, Hm.
    eapply mono_model_holds; eauto.
  - intros ->. reflexivity.
Qed.

(* ---------------------------------------------------------------- UnixNanoID *)
Definition accept_nano (cur : Z) owners (per : list (list (Z * Z))) : bool :=
  match lin owners per with
  | None => false
  | Some l => list_eqb Z.eqb (map snd l) (nano_run cur (map fst l))
  end.

Definition nano_clauses (cur : Z) (l : list (Z * Z)) : bool :=
  if nano_dom cur (map fst l) then incr_from cur (map snd l) else true.

Definition holds_nano (cur : Z) owners (per : list (list (Z * Z))) : bool :=
  match lin owners per with None => false | Some l => nano_clauses cur l end.

Theorem nano_sound cur owners per : accept_nano cur owners per = true -> holds_nano cur owners per = true.
Proof.
  unfold accept_nano, holds_nano. destruct (lin owners per) as [l|]; [|discriminate].
  intros H. apply (list_eqb_eq Z.eqb) in H; [|intros a b Hab; now apply Z.eqb_eq].
  unfold nano_clauses. destruct (nano_dom cur (map fst l)) eqn:Hd; [|reflexivity].
  rewrite H. apply SS_incr_from. now apply nano_strictly_increasing.
Qed.

(* ---------------------------------------------------------------- Setup *)
Definition max63 : Z := 9223372036854775807.

Definition accept_setup (c0 : cfg) (opts : list opt) (p_epoch : Z) (f_max f_one : Z * Z * Z) : bool :=
  let c := setup c0 opts in
  (p_epoch =? wrap64 (f_time (id_fields c 0) + epoch c)) && fields_eqb f_max (id_fields c max63) && fields_eqb f_one (id_fields c 1).

(* the layout in force after any Setup has one of the three node widths, and time | node | step tile the 63 bits *)
Definition widthb (c : cfg) : bool := (nb c =? 8) || (nb c =? 9) || (nb c =? 10).
Definition holds_setup (c0 : cfg) (f_max : Z * Z * Z) : bool :=
  if widthb c0 then
    ((f_node f_max =? 255) || (f_node f_max =? 511) || (f_node f_max =? 1023))
    && ((f_time f_max + 1) * (f_node f_max + 1) =? 2 ^ 51) && (f_step f_max =? 4095)
  else true.

Lemma widthb_ok c : widthb c = true -> width_ok c.
Proof.
  unfold widthb, width_ok. intros H. apply orb_prop in H as [H|H]; [apply orb_prop in H as [H|H]|]; apply Z.eqb_eq in H; auto.
Qed.

Theorem setup_sound c0 opts p_epoch f_max f_one :
  accept_setup c0 opts p_epoch f_max f_one = true -> holds_setup c0 f_max = true.
Proof.
  unfold accept_setup, holds_setup. intros H. apply andb_prop in H as [H _]. apply andb_prop in H as [_ H].
  apply fields_eqb_eq in H. subst f_max.
  destruct (widthb c0) eqn:W; [|reflexivity].
  pose proof (setup_width_ok opts c0 (widthb_ok c0 W)) as HW.
  unfold id_fields, tshift, nshift, sshift, f_node, f_time, f_step. cbn [fst snd].
  destruct (lowest (setup c0 opts)); destruct HW as [-> | [-> | ->]]; vm_compute; reflexivity.
Qed.

(* ---------------------------------------------------------------- stress samples / audit *)
(* replaying the witness pops every caller's ids in the caller's order; the replayed sequence strictly increasing and
   above the floor says: all sampled ids pairwise distinct, each caller's own ids strictly increasing, all above the
   restart point.  This is what c06_hard_any_schedule / c06_nano_any_schedule / c06_mono_strictly_increasing give for
   every subset of the ids of any execution; accept and holds coincide (no clock is observable here). *)
Definition stress_ok (floor : Z) (owners : list nat) (per : list (list Z)) : bool :=
  match lin owners per with None => false | Some l => incr_from floor l end.

(* ================================================================ what the driver calls *)
Definition case_accept (x : case) : bool :=
  match x with
  | CHard c node min minf dclocks err owners per =>
      accept_hard c node min minf (undelta 0 dclocks) err owners (map (dec_obs 0 0) per)
  | CMono c node err owners per => accept_mono c node err owners (map (dec_obs 0 0) per)
  | CNano cur owners per => accept_nano cur owners (map (dec_pairs 0 0) per)
  | CSetup c0 opts p_epoch f_max f_one => accept_setup c0 opts p_epoch f_max f_one
  | CStress floor owners per => stress_ok floor owners (map (undelta 0) per)
  | CAudit ok => ok
  end.

Definition case_holds (x : case) : bool :=
  match x with
  | CHard c node min minf dclocks err owners per =>
      holds_hard c node min minf (undelta 0 dclocks) err owners (map (dec_obs 0 0) per)
  | CMono c node err owners per => holds_mono node err owners (map (dec_obs 0 0) per)
  | CNano cur owners per => holds_nano cur owners (map (dec_pairs 0 0) per)
  | CSetup c0 opts p_epoch f_max f_one => holds_setup c0 f_max
  | CStress floor owners per => stress_ok floor owners (map (undelta 0) per)
  | CAudit ok => true
  end.

Theorem case_sound : forall x, case_accept x = true -> case_holds x = true.
Proof.
  intros [c node min minf clocks err owners per | c node err owners per | cur owners per | c0 opts pe fm fo
          | fl owners per | ok]; cbn [case_accept case_holds].
  - apply hard_sound.
  - apply mono_sound.
  - apply nano_sound.
  - apply setup_sound.
  - auto.
  - auto.
Qed.
