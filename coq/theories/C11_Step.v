(* C11: the one-step simulation, operation by operation *)
From Coq Require Import ZArith List Lia Bool Arith.
Import ListNotations.
Require Import ReWrite C11_Utf8 TexModel C11_Spec TexRef C11_Sim.

Lemma panic_sim b s : Inv b -> live b = un s -> Rp b s -> R false (set_last b 0%Z) (mk (un s) None (pre s)).
Proof.
  intros HI Hl Hp. split; [exact HI|split; [exact Hl|split; [exact Hp|intros _; reflexivity]]].
Qed.

Lemma rewrite_at_length l pos p sto : rewrite_at l pos p = Done sto -> length sto = length l.
Proof. intros H. apply (rewrite_exact l pos p sto H). Qed.

Lemma nonempty_len {A} (l : list A) : l <> [] -> 1 <= length l.
Proof. destruct l; [congruence|cbn; lia]. Qed.

Lemma unread_byte_sim b s isr bs : R false b s -> lastk s = Some (isr, bs) ->
  R false (set_off b (off b - 1) 0%Z) (mk (last bs 0%Z :: un s) None (option_map (@removelast Z) (pre s))) /\ 1 <= off b /\ lastr b <> 0%Z.
Proof.
  intros (HI & Hl & Hp & Hk) El. pose proof HI as (Ho & Hc & Hn).
  specialize (Hk eq_refl). unfold Rk in Hk. rewrite El in Hk. destruct Hk as (Hne & (h & Hh) & Hv).
  pose proof (nonempty_len bs Hne) as Hbs.
  assert (Hoff : off b = length h + length bs) by (rewrite <- (consumed_len b Ho), Hh, app_length; reflexivity).
  assert (Hrl : bs = removelast bs ++ [last bs 0%Z]) by (apply app_removelast_last, Hne).
  assert (Hrlen : length bs = length (removelast bs) + 1) by (rewrite Hrl at 1; rewrite app_length; reflexivity).
  assert (Hb : bytes b = (h ++ removelast bs) ++ (last bs 0%Z :: un s)).
  { rewrite (consumed_live b), Hh, Hl. rewrite Hrl at 1. rewrite <- !app_assoc. reflexivity. }
  assert (Hx : off b - 1 = length (h ++ removelast bs)) by (rewrite app_length; lia).
  destruct (split_at b _ _ _ 0%Z Hb Hx) as [Hcons Hlive].
  split; [|split; [lia|]].
  - split; [|split; [|split]].
    + apply Inv_set_off; [exact HI|lia].
    + exact Hlive.
    + unfold Rp; cbn [pre mk]. unfold Rp in Hp. destruct (pre s) as [l|]; cbn [option_map]; [|exact I].
      rewrite Hcons, <- Hp, Hh. symmetry. apply removelast_app, Hne.
    + intros _. reflexivity.
  - rewrite Hv. destruct isr; [unfold zn; lia|lia].
Qed.

Lemma unread_rune_sim b s bs : R false b s -> lastk s = Some (true, bs) ->
  R false (set_off b (off b - length bs) 0%Z)
    (mk (bs ++ un s) None (option_map (fun l => firstn (length l - length bs) l) (pre s)))
  /\ lastr b = zn (length bs) /\ 1 <= length bs <= off b.
Proof.
  intros (HI & Hl & Hp & Hk) El. pose proof HI as (Ho & Hc & Hn).
  specialize (Hk eq_refl). unfold Rk in Hk. rewrite El in Hk. destruct Hk as (Hne & (h & Hh) & Hv).
  pose proof (nonempty_len bs Hne) as Hbs.
  assert (Hoff : off b = length h + length bs) by (rewrite <- (consumed_len b Ho), Hh, app_length; reflexivity).
  assert (Hb : bytes b = h ++ (bs ++ un s)).
  { rewrite (consumed_live b), Hh, Hl. rewrite <- app_assoc. reflexivity. }
  assert (Hx : off b - length bs = length h) by lia.
  destruct (split_at b _ _ _ 0%Z Hb Hx) as [Hcons Hlive].
  split; [|split; [exact Hv|lia]].
  split; [|split; [|split]].
  - apply Inv_set_off; [exact HI|lia].
  - exact Hlive.
  - unfold Rp; cbn [pre mk]. unfold Rp in Hp. destruct (pre s) as [l|]; cbn [option_map]; [|exact I].
    rewrite Hcons, <- Hp, Hh, app_length. replace (length h + length bs - length bs) with (length h) by lia.
    symmetry. apply firstn_app_exact.
  - intros _. reflexivity.
Qed.

Lemma truncate_sim b s n : Inv b -> live b = un s -> Rp b s -> n <= blen b ->
  R false {| bytes := firstn (off b + n) (bytes b); off := off b; lastr := 0%Z; cap := cap b; isnil := isnil b |}
          (mk (firstn n (un s)) None (pre s)).
Proof.
  intros HI Hl Hp Hn. pose proof HI as (Ho & Hc & Hnil). unfold blen in Hn.
  split; [|split; [|split]].
  - unfold Inv; cbn [bytes off cap isnil]. rewrite firstn_length. split; [lia|split; [lia|]].
    intros H. destruct (Hnil H) as [E1 E2]. rewrite E1, firstn_nil. auto.
  - unfold live; cbn [bytes off un mk]. rewrite <- Hl. unfold live. symmetry. apply firstn_skipn_comm.
  - unfold Rp; cbn [pre mk]. unfold Rp in Hp. destruct (pre s) as [l|]; [|exact I].
    rewrite <- Hp. unfold consumed; cbn [bytes off]. rewrite firstn_firstn. f_equal. lia.
  - intros _. reflexivity.
Qed.

Lemma rewrite_sim g b s l pos p sto : R g b s -> pre s = Some l -> rewrite_at (l ++ un s) pos p = Done sto ->
  R g (set_bytes b sto)
      (mk (skipn (length l) sto)
          (option_map (fun ib : bool * list Z => (fst ib, skipn (length l - length (snd ib)) (firstn (length l) sto))) (lastk s))
          (Some (firstn (length l) sto))).
Proof.
  intros (HI & Hl & Hp & Hk) Epre Erw. pose proof HI as (Ho & Hc & Hn).
  unfold Rp in Hp. rewrite Epre in Hp.
  assert (Hk0 : off b = length l) by (rewrite <- Hp; symmetry; apply consumed_len, Ho).
  assert (Hb : bytes b = l ++ un s) by (rewrite (consumed_live b), Hp, Hl; reflexivity).
  pose proof (rewrite_at_length _ _ _ _ Erw) as Hlen. rewrite <- Hb in Hlen.
  split; [|split; [|split]].
  - unfold Inv, set_bytes; cbn [bytes off cap isnil]. split; [lia|split; [lia|]].
    intros H. destruct (Hn H) as [E1 E2]. split; [|exact E2]. rewrite E1 in Hlen. apply length_zero_iff_nil. exact Hlen.
  - unfold live, set_bytes; cbn [bytes off un mk]. rewrite Hk0. reflexivity.
  - unfold Rp, consumed, set_bytes; cbn [bytes off pre mk]. rewrite Hk0. reflexivity.
  - intros Hg. specialize (Hk Hg). unfold Rk in *; cbn [lastk mk].
    destruct (lastk s) as [[isr bs]|]; cbn [option_map fst snd]; [|exact Hk].
    destruct Hk as (Hne & (h & Hh) & Hv). pose proof (nonempty_len bs Hne) as Hbs.
    assert (Hlh : length l = length h + length bs) by (rewrite <- Hp, Hh, app_length; reflexivity).
    assert (Hfl : length (firstn (length l) sto) = length l) by (rewrite firstn_length; lia).
    assert (Hnew : length (skipn (length l - length bs) (firstn (length l) sto)) = length bs)
      by (rewrite skipn_length, Hfl; lia).
    split; [|split].
    + intros E. rewrite E in Hnew. cbn [length] in Hnew. lia.
    + exists (firstn (length l - length bs) (firstn (length l) sto)).
      unfold consumed, set_bytes; cbn [bytes off]. rewrite Hk0. symmetry. apply firstn_skipn.
    + unfold set_bytes; cbn [lastr]. rewrite Hnew. exact Hv.
Qed.

(* ---- the step lemma ---- *)
Lemma step_sim_core g k b s o : R g b s -> (zn (cap b) <= k)%Z -> op_ok g k s o = true ->
  snd (step b o) = snd (sstep s o) /\ R (next_g g o) (fst (step b o)) (fst (sstep s o)).
Proof.
  intros HR Hcap Hok. pose proof HR as (HI & Hl & Hp & Hk).
  assert (Hlen : length (un s) = blen b) by (apply (R_len g), HR).
  unfold step. destruct o; cbn [step_gen sstep next_g].
  - (* Write *)
    destruct (grow_for_write (set_last b 0%Z) (length p)) as [b1 m] eqn:Eg. cbn [fst snd]. split; [reflexivity|].
    apply (write_sim (set_last b 0%Z) s p (length p) b1 m); [exact HI|exact Hl|exact Hp|reflexivity|lia|exact Eg].
  - (* WriteString *)
    destruct (grow_for_write (set_last b 0%Z) (length p)) as [b1 m] eqn:Eg. cbn [fst snd]. split; [reflexivity|].
    apply (write_sim (set_last b 0%Z) s p (length p) b1 m); [exact HI|exact Hl|exact Hp|reflexivity|lia|exact Eg].
  - (* WriteByte *)
    destruct (grow_for_write (set_last b 0%Z) 1) as [b1 m] eqn:Eg. cbn [fst snd]. split; [reflexivity|].
    apply (write_sim (set_last b 0%Z) s [c] 1 b1 m); [exact HI|exact Hl|exact Hp|reflexivity|cbn; lia|exact Eg].
  - (* WriteRune *)
    unfold write_rune, rune_is_byte. destruct (uint32 r <? 128)%Z eqn:E.
    + rewrite (small_rune_byte r E).
      destruct (grow_for_write (set_last b 0%Z) 1) as [b1 m] eqn:Eg. cbn [fst snd]. split; [reflexivity|].
      apply (write_sim (set_last b 0%Z) s [(r mod 256)%Z] 1 b1 m); [exact HI|exact Hl|exact Hp|reflexivity|cbn; lia|exact Eg].
    + destruct (grow_for_write (set_last b 0%Z) 4) as [b1 m] eqn:Eg. cbn [fst snd]. split; [reflexivity|].
      apply (write_sim (set_last b 0%Z) s (encode_rune r) 4 b1 m); [exact HI|exact Hl|exact Hp|reflexivity| |exact Eg].
      apply encode_rune_len.
  - (* Read *)
    change (blen (set_last b 0%Z)) with (blen b). rewrite Hlen.
    destruct (Nat.eqb (blen b) 0) eqn:E; cbn [fst snd].
    + split; [reflexivity|]. apply (reset_sim false (set_last b 0%Z)). exact HI.
    + apply Nat.eqb_neq in E. change (off (set_last b 0%Z)) with (off b). change (live (set_last b 0%Z)) with (live b).
      rewrite Hl. split; [reflexivity|].
      apply (read_sim (set_last b 0%Z) s); [exact HI|exact Hl|exact Hp|]. change (blen (set_last b 0%Z)) with (blen b). lia.
  - (* ReadByte *)
    rewrite Hlen. destruct (Nat.eqb (blen b) 0) eqn:E; cbn [fst snd].
    + split; [reflexivity|]. apply reset_sim. exact HI.
    + apply Nat.eqb_neq in E. rewrite Hl. split; [reflexivity|].
      replace (S (off b)) with (off b + 1) by lia. apply consume_sim; [exact HI|exact Hl|exact Hp|lia|].
      apply last_read_ok. apply firstn_nonempty; [lia|]. intros Hu. rewrite Hu in Hlen. cbn in Hlen. lia.
  - (* ReadRune *)
    rewrite Hlen. destruct (Nat.eqb (blen b) 0) eqn:E; cbn [fst snd].
    + split; [reflexivity|]. apply reset_sim. exact HI.
    + apply Nat.eqb_neq in E. rewrite Hl.
      assert (Hune : un s <> []) by (intros Hu; rewrite Hu in Hlen; cbn in Hlen; lia).
      destruct (hd 0%Z (un s) <? 128)%Z; cbn [fst snd].
      * split; [reflexivity|]. replace (S (off b)) with (off b + 1) by lia.
        apply consume_sim; [exact HI|exact Hl|exact Hp|lia|].
        unfold lk_ok. split; [apply firstn_nonempty; [lia|exact Hune]|split; [exists []; reflexivity|]].
        rewrite firstn_length. replace (Nat.min 1 (length (un s))) with 1 by lia. reflexivity.
      * pose proof (decode_rune_size (un s) Hune) as Hsz. destruct (decode_rune (un s)) as [r n]. cbn [fst snd] in *.
        split; [reflexivity|]. apply consume_sim; [exact HI|exact Hl|exact Hp|lia|].
        unfold lk_ok. split; [apply firstn_nonempty; [lia|exact Hune]|split; [exists []; reflexivity|]].
        rewrite firstn_length. replace (Nat.min n (length (un s))) with n by lia. reflexivity.
  - (* UnreadByte *)
    cbn [op_ok] in Hok. destruct g; [discriminate|].
    destruct (lastk s) as [[isr bs]|] eqn:El.
    + destruct (unread_byte_sim b s isr bs HR El) as (HR' & Hoff & Hlr).
      apply Z.eqb_neq in Hlr. rewrite Hlr. cbn [fst snd]. split; [reflexivity|].
      replace (Nat.eqb (off b) 0) with false by (symmetry; apply Nat.eqb_neq; lia). exact HR'.
    + specialize (Hk eq_refl). unfold Rk in Hk. rewrite El in Hk. rewrite Hk. cbn [Z.eqb fst snd]. split; [reflexivity|exact HR].
  - (* UnreadRune *)
    cbn [op_ok] in Hok. destruct g; [discriminate|].
    destruct (lastk s) as [[[|] bs]|] eqn:El.
    + destruct (unread_rune_sim b s bs HR El) as (HR' & Hlr & Hb1 & Hb2).
      rewrite Hlr. replace (zn (length bs) <=? 0)%Z with false by (symmetry; apply Z.leb_gt; unfold zn; lia).
      replace (zn (length bs) <=? zn (off b))%Z with true by (symmetry; apply Z.leb_le; unfold zn; lia).
      cbn [fst snd]. split; [reflexivity|]. unfold zn. rewrite Nat2Z.id. exact HR'.
    + specialize (Hk eq_refl). unfold Rk in Hk. rewrite El in Hk. destruct Hk as (_ & _ & Hv). rewrite Hv.
      cbn [Z.leb Z.compare fst snd]. split; [reflexivity|exact HR].
    + specialize (Hk eq_refl). unfold Rk in Hk. rewrite El in Hk. rewrite Hk. cbn [Z.leb Z.compare fst snd]. split; [reflexivity|exact HR].
  - (* Next *)
    destruct (n <? 0)%Z; cbn [fst snd].
    + split; [reflexivity|]. apply panic_sim; assumption.
    + rewrite Hlen, Hl. split; [reflexivity|]. apply read_sim; [exact HI|exact Hl|exact Hp|lia].
  - (* Truncate *)
    destruct (n =? 0)%Z eqn:E0; cbn [fst snd].
    + split; [reflexivity|]. apply reset_sim, HI.
    + rewrite Hlen. destruct ((n <? 0)%Z || (zn (blen b) <? n)%Z) eqn:E1; cbn [fst snd].
      * split; [reflexivity|]. apply panic_sim; assumption.
      * split; [reflexivity|]. apply orb_false_elim in E1. destruct E1 as [E1 E2]. apply Z.ltb_ge in E1. apply Z.ltb_ge in E2.
        apply truncate_sim; [exact HI|exact Hl|exact Hp|]. unfold zn in E2. lia.
  - (* Reset *)
    split; [reflexivity|]. apply reset_sim, HI.
  - (* Grow *)
    cbn [op_ok] in Hok.
    destruct (n <? 0)%Z eqn:En; cbn [fst snd].
    + split; [reflexivity|exact HR].
    + cbn [orb] in Hok. apply Z.ltb_ge in En. destruct (max_alloc <? n)%Z eqn:Em.
      * apply Z.ltb_lt in Em. apply Z.leb_le in Hok.
        rewrite (too_large_true (reset_if_empty b) n) by (try rewrite cap_reset_if_empty; lia).
        cbn [fst snd]. split; [reflexivity|]. apply reset_if_empty_sim; assumption.
      * apply Z.ltb_ge in Em. apply Z.leb_le in Hok.
        rewrite (too_large_false (reset_if_empty b) n) by (try rewrite cap_reset_if_empty; lia).
        destruct (grow b (Z.to_nat n)) as [b1 m] eqn:Eg. cbn [fst snd]. split; [reflexivity|].
        apply (grow_sim b s (Z.to_nat n) b1 m); assumption.
  - (* ReadFrom *)
    cbn [op_ok] in Hok.
    destruct (read_from_sim script (set_last b 0%Z) (un s) 0%Z HI Hl eq_refl Hok) as (A & B & C & D & E).
    destruct (read_from (set_last b 0%Z) script 0%Z) as [b' ob]. destruct (sread_from (un s) script 0%Z) as [u' ob'].
    cbn [fst snd] in *. split; [exact A|].
    split; [exact B|split; [exact C|split; [|intros _; exact D]]].
    unfold Rp; cbn [pre mk]. unfold Rp in Hp. destruct (pre s) as [[|x l]|]; cbn [pre_w]; try exact I.
    destruct HI as (Ho & _). assert (Hoff0 : off b = 0) by (rewrite <- (consumed_len b Ho), Hp; reflexivity).
    change (off (set_last b 0%Z)) with (off b) in E.
    unfold consumed. replace (off b') with 0 by lia. reflexivity.
  - (* WriteTo *)
    cbn [op_ok] in Hok. apply Z.leb_le in Hok.
    change (blen (set_last b 0%Z)) with (blen b). rewrite Hlen.
    destruct (Nat.eqb (blen b) 0) eqn:E; cbn [fst snd].
    + split; [reflexivity|]. apply (reset_sim false (set_last b 0%Z)). exact HI.
    + apply Nat.eqb_neq in E. change (live (set_last b 0%Z)) with (live b). rewrite Hl.
      destruct (zn (blen b) <? m)%Z eqn:E1; cbn [fst snd].
      * split; [reflexivity|]. apply panic_sim; assumption.
      * apply Z.ltb_ge in E1. change (off (set_last b 0%Z)) with (off b).
        assert (HR' : R false (set_off (set_last b 0%Z) (off b + Z.to_nat m) 0%Z) (consume s (Z.to_nat m) None)).
        { apply (consume_sim (set_last b 0%Z) s); [exact HI|exact Hl|exact Hp| |reflexivity].
          change (blen (set_last b 0%Z)) with (blen b). unfold zn in E1. lia. }
        destruct (negb (e =? 0)%Z); cbn [fst snd]; [split; [reflexivity|exact HR']|].
        destruct (negb (m =? zn (blen b))%Z); cbn [fst snd]; [split; [reflexivity|exact HR']|].
        split; [reflexivity|]. apply reset_sim. apply HR'.
  - (* OLen *) cbn [fst snd]. rewrite Hlen. split; [reflexivity|exact HR].
  - (* OBytes *) cbn [fst snd]. rewrite Hl. split; [reflexivity|exact HR].
  - (* OString *) cbn [fst snd]. rewrite Hl. split; [reflexivity|exact HR].
  - (* OCap *) cbn [fst snd]. split; [reflexivity|exact HR].
  - (* ReWrite *)
    cbn [op_ok] in Hok. destruct (pre s) as [l|] eqn:Epre; [|discriminate].
    assert (Hb : bytes b = l ++ un s).
    { unfold Rp in Hp. rewrite Epre in Hp. rewrite (consumed_live b), Hp, Hl. reflexivity. }
    rewrite Hb. destruct (rewrite_at (l ++ un s) pos p) as [sto|] eqn:Erw; cbn [fst snd].
    + split; [reflexivity|]. apply (rewrite_sim g b s l pos p sto HR Epre Erw).
    + split; [reflexivity|exact HR].
  - (* ONil *) cbn [fst snd]. split; [reflexivity|exact HR].
Qed.

(* the capacity stays below the bound the history implies *)
Lemma gfw_k b n n' b1 m k mm : (zn (cap b) <= k)%Z -> (zn (blen b) <= mm)%Z -> (zn n <= n')%Z ->
  grow_for_write (set_last b 0%Z) n = (b1, m) -> (zn (cap b1) <= grow_k k mm n')%Z.
Proof.
  intros Hk Hm Hn Hg. pose proof (grow_for_write_cap _ _ _ _ Hg) as H.
  change (cap (set_last b 0%Z)) with (cap b) in H. change (blen (set_last b 0%Z)) with (blen b) in H.
  pose proof (grow_k_mono _ _ _ _ _ _ Hk Hm Hn). lia.
Qed.

Ltac cap_simple Hcap :=
  repeat match goal with |- context [if ?c then _ else _] => destruct c end;
  cbn [fst cap reset set_off set_last set_bytes]; try exact Hcap.

Lemma cap_step g k b s o : R g b s -> (zn (cap b) <= k)%Z -> op_ok g k s o = true -> (zn (cap (fst (step b o))) <= next_k k s o)%Z.
Proof.
  intros HR Hcap Hok. pose proof (R_len _ _ _ HR) as Hlen. pose proof HR as (HI & _).
  assert (Hm : (zn (blen b) <= zn (length (un s)))%Z) by (rewrite Hlen; apply Z.le_refl).
  unfold step. destruct o; cbn [step_gen next_k]; cbv zeta.
  - destruct (grow_for_write (set_last b 0%Z) (length p)) as [b1 m] eqn:Eg. cbn [fst]. apply (gfw_k b _ _ b1 m k _ Hcap Hm (Z.le_refl _) Eg).
  - destruct (grow_for_write (set_last b 0%Z) (length p)) as [b1 m] eqn:Eg. cbn [fst]. apply (gfw_k b _ _ b1 m k _ Hcap Hm (Z.le_refl _) Eg).
  - destruct (grow_for_write (set_last b 0%Z) 1) as [b1 m] eqn:Eg. cbn [fst]. apply (gfw_k b 1 1%Z b1 m k _ Hcap Hm ltac:(cbn; lia) Eg).
  - unfold write_rune. destruct (rune_is_byte r).
    + destruct (grow_for_write (set_last b 0%Z) 1) as [b1 m] eqn:Eg. cbn [fst]. apply (gfw_k b 1 4%Z b1 m k _ Hcap Hm ltac:(cbn; lia) Eg).
    + destruct (grow_for_write (set_last b 0%Z) 4) as [b1 m] eqn:Eg. cbn [fst]. apply (gfw_k b 4 4%Z b1 m k _ Hcap Hm ltac:(cbn; lia) Eg).
  - cap_simple Hcap.
  - cap_simple Hcap.
  - destruct (decode_rune (live b)) as [r n]. cap_simple Hcap.
  - cap_simple Hcap.
  - cap_simple Hcap.
  - cap_simple Hcap.
  - cap_simple Hcap.
  - cap_simple Hcap.
  - (* Grow *)
    cbn [op_ok] in Hok. destruct (n <? 0)%Z eqn:En; cbn [orb fst]; [exact Hcap|].
    cbn [orb] in Hok. apply Z.ltb_ge in En. destruct (max_alloc <? n)%Z eqn:Em.
    + apply Z.ltb_lt in Em. apply Z.leb_le in Hok.
      rewrite (too_large_true (reset_if_empty b) n) by (try rewrite cap_reset_if_empty; lia).
      cbn [fst]. rewrite cap_reset_if_empty. exact Hcap.
    + apply Z.ltb_ge in Em. apply Z.leb_le in Hok.
      rewrite (too_large_false (reset_if_empty b) n) by (try rewrite cap_reset_if_empty; lia).
      destruct (grow b (Z.to_nat n)) as [b1 m] eqn:Eg. cbn [fst]. unfold set_bytes; cbn [cap].
      pose proof (grow_cap _ _ _ _ Eg) as H.
      pose proof (grow_k_mono _ _ _ _ (zn (Z.to_nat n)) n Hcap Hm ltac:(unfold zn; rewrite Z2Nat.id; lia)) as H2. lia.
  - (* ReadFrom *) cbn [op_ok] in Hok. apply (read_from_cap script (set_last b 0%Z) 0%Z k _ HI Hok Hcap Hm).
  - cap_simple Hcap.
  - exact Hcap.
  - exact Hcap.
  - exact Hcap.
  - exact Hcap.
  - destruct (rewrite_at (bytes b) pos p); cbn [fst cap set_bytes]; exact Hcap.
  - exact Hcap.
Qed.

Lemma step_sim g k b s o : R g b s -> (zn (cap b) <= k)%Z -> op_ok g k s o = true ->
  snd (step b o) = snd (sstep s o) /\ R (next_g g o) (fst (step b o)) (fst (sstep s o)) /\
  (zn (cap (fst (step b o))) <= next_k k s o)%Z.
Proof.
  intros HR Hcap Hok. destruct (step_sim_core g k b s o HR Hcap Hok) as [A B].
  split; [exact A|split; [exact B|apply (cap_step g k b s o HR Hcap Hok)]].
Qed.
