(* C12: two further classes.
   (1) Constructor histories: several queues built one after the other with different option sets (q.NewQ with or without
       WithSize, mq.NewMQ with any subset of WithQCtrlSize / WithQReqSize, async.NewQ / mux.NewQ with their size argument) and
       then used interleaved.  Every queue is judged against the model built from ITS OWN options: a queue's behaviour is a
       function of its own configuration and its own calls only.  An option that is not given is the option struct's zero
       value, i.e. capacity 0 = unbounded.
   (2) PriQueue under truly parallel pushers and poppers (no Close in this API): clauses that hold for EVERY linearisation of
       atomic Push / Pop, evaluated on the calls with results and invocation / response ticks:
         - nothing invented, nothing handed out twice; when a Pop invoked after every Push had returned said "empty", nothing lost;
         - first-in-first-out among equal priorities under real time;
         - highest priority first under real time: if a was pushed (returned) before the Pop that handed out a lower-priority b
           was invoked, then a was handed out, and not by a Pop that began after that Pop had returned. *)
From Coq Require Import ZArith List Bool Lia.
Require Import C12_Base C12_Pipe C12_MQ C12_Pri C12_Race.
Import ListNotations.

(* ---------------- (1) constructor histories ---------------- *)
Definition optcap (o : option Z) : Z := match o with Some n => n | None => 0%Z end.

Definition pgroup := list (pkind * option Z * list (pop * res)).
Definition pg_accept (l : pgroup) : bool := forallb (fun e => p_accept (fst (fst e)) (optcap (snd (fst e))) (snd e)) l.
Definition pg_holds (l : pgroup) : bool := forallb (fun e => p_holds (optcap (snd (fst e))) (snd e)) l.
Definition mgroup := list (option Z * option Z * list (mop * res)).
Definition mg_accept (l : mgroup) : bool := forallb (fun e => m_accept (optcap (fst (fst e))) (optcap (snd (fst e))) (snd e)) l.
Definition mg_holds (l : mgroup) : bool := forallb (fun e => m_holds (optcap (fst (fst e))) (optcap (snd (fst e))) (snd e)) l.

Lemma forallb_impl {A} (f g : A -> bool) l : (forall x, f x = true -> g x = true) -> forallb f l = true -> forallb g l = true.
Proof.
  intros H. induction l as [|a l IH]; cbn; [auto|]. intros E. apply andb_prop in E as [E1 E2]. now rewrite (H a E1), (IH E2).
Qed.
Theorem pg_accept_sound l : pg_accept l = true -> pg_holds l = true.
Proof. apply forallb_impl. intros [[k o] h]. apply p_accept_sound. Qed.
Theorem mg_accept_sound l : mg_accept l = true -> mg_holds l = true.
Proof. apply forallb_impl. intros [[a b] h]. apply m_accept_sound. Qed.

(* a queue built without a size option is the unbounded queue, whatever was built before it: its ordinary adds are never
   refused as full *)
Theorem p_unbounded_never_full : forall k ops,
  Forall (fun e => snd e <> RFull) (fst (h_run p_step (p_new k (optcap None)) ops)).
Proof.
  intros k ops.
  assert (G : forall ops s, cap s = 0%Z -> Forall (fun e => snd e <> RFull) (fst (h_run p_step s ops))).
  { induction ops0 as [|o ops0 IH]; intros s Hc; [constructor|]. cbn [h_run].
    pose proof (p_step_cap s o) as Hcap.
    assert (Hr : snd (p_step s o) <> RFull).
    { destruct o; cbn [p_step]; unfold p_add_anyway, p_add, p_prior, p_pop, p_close, full; rewrite ?Hc; cbn [Z.ltb Z.compare andb].
      - destruct (closed s); cbn; discriminate.
      - destruct (closed s); cbn; discriminate.
      - destruct (closed s); cbn; discriminate.
      - destruct (items s); destruct (closed s); cbn; discriminate.
      - destruct (items s); destruct (closed s); cbn; discriminate.
      - cbn; discriminate.
      - cbn; discriminate. }
    destruct (p_step s o) as [s' r]. cbn [fst snd] in *. specialize (IH s' (eq_trans Hcap Hc)).
    destruct (h_run p_step s' ops0) as [h s'']. cbn [fst] in *. constructor; [exact Hr|exact IH]. }
  apply G. destruct k; reflexivity.
Qed.

(* ---------------- (2) PriQueue, parallel pushers and poppers ---------------- *)
Definition qcall := (qop * res * Z * Z)%type.
Definition qc_op (c : qcall) : qop := fst (fst (fst c)).
Definition qc_res (c : qcall) : res := snd (fst (fst c)).
Definition qc_inv (c : qcall) : Z := snd (fst c).
Definition qc_resp (c : qcall) : Z := snd c.

Definition zmem (x : Z) (l : list Z) : bool := existsb (Z.eqb x) l.
Fixpoint znodup (l : list Z) : bool := match l with [] => true | x :: r => negb (zmem x r) && znodup r end.
Definition qc_handed (cs : list qcall) : list Z := flat_map (fun c => match qc_res c with RItem x => [x] | _ => [] end) cs.
(* an accepted push: (priority, id) *)
Definition qc_push (c : qcall) : option (Z * Z) :=
  match qc_op c, qc_res c with QPush p i, RDone => Some (p, i) | _, _ => None end.
Definition qc_is_push (c : qcall) : bool := match qc_op c with QPush _ _ => true | _ => false end.
Definition qc_accepted (cs : list qcall) : list Z := flat_map (fun c => match qc_push c with Some (_, i) => [i] | None => [] end) cs.
Definition qc_final_none (cs : list qcall) : bool :=
  existsb (fun p => match qc_op p, qc_res p with
                    | QPop, RNone => forallb (fun c => negb (qc_is_push c) || (qc_resp c <? qc_inv p)%Z) cs
                    | _, _ => false end) cs.
Definition qc_pop_of (cs : list qcall) (x : Z) : option qcall :=
  find (fun c => match qc_res c with RItem y => Z.eqb x y | _ => false end) cs.

Definition qcl_no_other (cs : list qcall) : bool := forallb (fun c => match qc_res c with ROther _ => false | _ => true end) cs.
Definition qcl_conservation (cs : list qcall) : bool :=
  znodup (qc_handed cs) && forallb (fun x => zmem x (qc_accepted cs)) (qc_handed cs) &&
  (negb (qc_final_none cs) || forallb (fun x => zmem x (qc_handed cs)) (qc_accepted cs)).
Definition qcl_order (cs : list qcall) : bool :=
  forallb (fun a => forallb (fun b =>
    match qc_push a, qc_push b with
    | Some (pa, x), Some (pb, y) =>
        match qc_pop_of cs y with
        | Some popb =>
            if ((pa =? pb)%Z && (qc_resp a <? qc_inv b)%Z) || ((pb <? pa)%Z && (qc_resp a <? qc_inv popb)%Z)
            then match qc_pop_of cs x with
                 | Some popa => negb (qc_resp popb <? qc_inv popa)%Z     (* a's pop did not begin after b's pop had returned *)
                 | None => false                                          (* a was still queued: b jumped the queue *)
                 end
            else true
        | None => true
        end
    | _, _ => true
    end) cs) cs.
Definition pp_holds (cs : list qcall) : bool := qcl_no_other cs && qcl_conservation cs && qcl_order cs.

(* sanity of the clauses: a SEQUENTIAL history of the model (calls stamped 1,2 / 3,4 / ...) satisfies them - checked on examples
   here, and on every sequential PriQueue case of a run by case_accept of CPri; the parallel clauses are evaluated as stated *)
Example ex_pp_ok :
  pp_holds [(QPush 1%Z 1%Z, RDone, 1%Z, 4%Z); (QPush 5%Z 2%Z, RDone, 2%Z, 3%Z); (QPop, RItem 2%Z, 5%Z, 8%Z); (QPop, RItem 1%Z, 6%Z, 7%Z);
            (QPop, RNone, 9%Z, 10%Z)] = true.
Proof. vm_compute. reflexivity. Qed.
(* seeded change r4-m1: a Pop returns the concurrently pushed item 3 instead of 1; 3 is then handed out again, 1 is lost *)
Example ex_pp_recycled_wrapper :
  pp_holds [(QPush 1%Z 1%Z, RDone, 1%Z, 2%Z); (QPop, RItem 3%Z, 3%Z, 6%Z); (QPush 1%Z 3%Z, RDone, 4%Z, 5%Z); (QPop, RItem 3%Z, 7%Z, 8%Z);
            (QPop, RNone, 9%Z, 10%Z)] = false.
Proof. vm_compute. reflexivity. Qed.
Example ex_pp_low_priority_first :
  pp_holds [(QPush 5%Z 1%Z, RDone, 1%Z, 2%Z); (QPush 1%Z 2%Z, RDone, 3%Z, 4%Z); (QPop, RItem 2%Z, 5%Z, 6%Z); (QPop, RItem 1%Z, 7%Z, 8%Z)] = false.
Proof. vm_compute. reflexivity. Qed.
Example ex_pg_leaked_option :
  pg_holds [(KQ, Some 2%Z, [(PAdd 1%Z, RDone)]); (KQ, None, [(PAdd 2%Z, RDone); (PAdd 3%Z, RDone); (PAdd 4%Z, RFull)])] = false.
Proof. vm_compute. reflexivity. Qed.
Example ex_pg_ok :
  pg_accept [(KQ, Some 2%Z, [(PAdd 1%Z, RDone); (PAdd 5%Z, RDone); (PAdd 6%Z, RFull)]); (KQ, None, [(PAdd 2%Z, RDone); (PAdd 3%Z, RDone); (PAdd 4%Z, RDone)])] = true.
Proof. vm_compute. reflexivity. Qed.
(* nil is an item like any other for the pipe queues (the harness writes nil as -1, a typed nil pointer as -2, "" as -3, ...) *)
Example ex_nil_item :
  p_accept KMux 1%Z [(PAdd (-1)%Z, RDone); (PAdd 2%Z, RFull); (PPop, RItem (-1)%Z); (PPrior (-1)%Z, RDone); (PPrior (-1)%Z, RDone);
                     (PClose, RDone); (PPopAnyway, RItem (-1)%Z); (PPopAnyway, RItem (-1)%Z); (PPopAnyway, RClosed)] = true.
Proof. vm_compute. reflexivity. Qed.
Example ex_nil_item_reported_as_error : p_holds 1%Z [(PAdd (-1)%Z, RDone); (PPop, ROther 1%Z)] = false.
Proof. vm_compute. reflexivity. Qed.

(* ---------------- held calls ----------------
   The harness may start a call that has to block (an add-anyway on a full open queue, a pop on an empty open queue) and issue
   ONE further call that releases it; the held call takes effect after the releasing one, so the case records them in that order.
   What the model says about these two-call patterns: *)
(* an add-anyway on a full open queue does not return and changes nothing *)
Theorem p_anyway_full_blocks s x : closed s = false -> full (cap s) (length (items s)) = true -> p_add_anyway s x = (s, RNotIssued).
Proof. intros Hc Hf. unfold p_add_anyway, p_add. now rewrite Hc, Hf. Qed.
(* otherwise it is the ordinary add (in particular: refused on a closed queue, which is left unchanged) *)
Theorem p_anyway_is_add s x : closed s = true \/ full (cap s) (length (items s)) = false -> p_add_anyway s x = p_add s x.
Proof.
  unfold p_add_anyway, p_add. intros [Hc|Hf]; [now rewrite Hc|]. destruct (closed s); [reflexivity|]. now rewrite Hf.
Qed.
(* released by a pop that makes room: the pop hands out the front item, then the add-anyway is accepted AT THE BACK *)
Theorem p_held_anyway_released_by_pop s x y r : closed s = false -> items s = y :: r ->
  (Z.of_nat (length (items s)) = cap s)%Z ->
  h_run p_step s [PPopAnyway; PAddAnyway x] = ([(PPopAnyway, RItem y); (PAddAnyway x, RDone)], set_items s (r ++ [x])) /\
  h_run p_step s [PPop; PAddAnyway x] = ([(PPop, RItem y); (PAddAnyway x, RDone)], set_items s (r ++ [x])).
Proof.
  intros Hc Hi Hl. cbn [h_run p_step]. unfold p_pop. rewrite Hi, Hc. cbn [andb].
  unfold p_add_anyway, p_add. cbn [closed items cap set_items]. rewrite Hc.
  assert (Hf : full (cap s) (length r) = false).
  { destruct (full (cap s) (length r)) eqn:E; [|reflexivity]. apply full_spec in E. rewrite Hi in Hl. cbn [length] in Hl. lia. }
  rewrite Hf. split; reflexivity.
Qed.
(* released by Close: refused as closed, nothing queued *)
Theorem p_held_anyway_released_by_close s x :
  h_run p_step s [PClose; PAddAnyway x] = ([(PClose, RDone); (PAddAnyway x, RClosed)], fst (p_close s)).
Proof. cbn [h_run p_step p_close]. unfold p_add_anyway, p_add. cbn [closed fst]. reflexivity. Qed.
(* a pop held on the empty open queue is released by an add (it gets that item, the queue is empty again) or by Close (closed) *)
Theorem p_held_pop_released (s : C12_Pipe.pq) (x : Z) (chk : bool) : closed s = false -> items s = [] ->
  h_run p_step s [PAdd x; if chk then PPop else PPopAnyway] =
    ([(PAdd x, RDone); (if chk then PPop else PPopAnyway, RItem x)], set_items s []) /\
  h_run p_step s [PPrior x; if chk then PPop else PPopAnyway] =
    ([(PPrior x, RDone); (if chk then PPop else PPopAnyway, RItem x)], set_items s []) /\
  h_run p_step s [PClose; if chk then PPop else PPopAnyway] =
    ([(PClose, RDone); (if chk then PPop else PPopAnyway, RClosed)], {| items := []; closed := true; cap := cap s |}).
Proof.
  intros Hc Hi.
  assert (Hf : full (cap s) (length (items s)) = false).
  { destruct (full (cap s) (length (items s))) eqn:E; [|reflexivity]. apply full_spec in E. rewrite Hi in E. cbn [length] in E. lia. }
  destruct chk; cbn [h_run p_step p_close]; unfold p_add, p_prior, p_pop; rewrite ?Hc, ?Hf, ?Hi; cbn [items closed cap set_items app andb fst];
    rewrite ?Hc, ?Hi; cbn [andb]; repeat split; reflexivity.
Qed.
