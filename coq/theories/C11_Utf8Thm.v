(* C11: the UTF-8 model round-trips: decoding the encoding of any Unicode scalar value (followed by anything) gives
   the value back with the right width; any other rune is encoded as U+FFFD.  So WriteRune r followed by ReadRune
   returns r for every scalar value - in the contract and therefore (refinement) in the model of tex.Buffer. *)
From Coq Require Import ZArith List Lia Bool Arith.
Import ListNotations.
Require Import C11_Utf8.
Local Open Scope Z_scope.

Definition valid_scalar (r : Z) : Prop := 0 <= r <= 1114111 /\ ~ (55296 <= r <= 57343).

Ltac zsolve := Z.div_mod_to_equations; lia.
Ltac btrue c := replace c with true by (symmetry; first [apply Z.ltb_lt | apply Z.leb_le | apply Z.eqb_eq]; zsolve).
Ltac bfalse c := replace c with false by (symmetry; first [apply Z.ltb_ge | apply Z.leb_gt | apply Z.eqb_neq]; zsolve).

Lemma uint32_small r : 0 <= r < 4294967296 -> uint32 r = r.
Proof. intros H. unfold uint32. apply Z.mod_small. exact H. Qed.

Theorem decode_encode r t : valid_scalar r ->
  decode_rune (encode_rune r ++ t) = (r, length (encode_rune r)).
Proof.
  intros [Hr Hs]. unfold encode_rune. rewrite (uint32_small r) by lia.
  destruct (Z.leb_spec r 127) as [H1|H1].
  { (* one byte *)
    cbn [app length]. unfold decode_rune. btrue (r <? 128). reflexivity. }
  destruct (Z.leb_spec r 2047) as [H2|H2].
  { (* two bytes *)
    cbn [app length]. unfold decode_rune.
    set (p0 := 192 + r / 64). set (b1 := 128 + r mod 64).
    assert (Hp0 : 194 <= p0 <= 223) by (subst p0; zsolve).
    assert (Hb1 : 128 <= b1 <= 191) by (subst b1; zsolve).
    bfalse (p0 <? 128). bfalse (p0 <? 194). bfalse (244 <? p0). cbn [orb].
    btrue (p0 <? 224). bfalse (p0 =? 224). bfalse (p0 =? 240). bfalse (p0 =? 237). bfalse (p0 =? 244).
    cbn [length Nat.ltb Nat.leb Nat.eqb]. bfalse (b1 <? 128). bfalse (191 <? b1). cbn [orb].
    f_equal. subst p0 b1. zsolve. }
  replace ((1114111 <? r) || ((55296 <=? r) && (r <=? 57343))) with false.
  2:{ symmetry. apply orb_false_iff. split; [apply Z.ltb_ge; lia|].
      apply andb_false_iff. destruct (Z.leb_spec 55296 r) as [A|A]; [right; apply Z.leb_gt; lia|left; reflexivity]. }
  destruct (Z.leb_spec r 65535) as [H3|H3].
  { (* three bytes *)
    cbn [app length]. unfold decode_rune.
    set (p0 := 224 + r / 4096). set (b1 := 128 + (r / 64) mod 64). set (b2 := 128 + r mod 64).
    assert (Hp0 : 224 <= p0 <= 239) by (subst p0; zsolve).
    assert (Hb2 : 128 <= b2 <= 191) by (subst b2; zsolve).
    bfalse (p0 <? 128). bfalse (p0 <? 194). bfalse (244 <? p0). cbn [orb].
    bfalse (p0 <? 224). btrue (p0 <? 240). bfalse (p0 =? 240). bfalse (p0 =? 244).
    cbn [length Nat.ltb Nat.leb Nat.eqb].
    assert (Hlo : ((b1 <? (if p0 =? 224 then 160 else 128)) || ((if p0 =? 237 then 159 else 191) <? b1)) = false).
    { apply orb_false_iff. split.
      - destruct (Z.eqb_spec p0 224) as [E|E]; apply Z.ltb_ge; subst p0 b1; zsolve.
      - destruct (Z.eqb_spec p0 237) as [E|E]; apply Z.ltb_ge; subst p0 b1; zsolve. }
    rewrite Hlo. unfold cont. btrue (128 <=? b2). btrue (b2 <=? 191). cbn [andb negb].
    f_equal. subst p0 b1 b2. zsolve. }
  (* four bytes *)
  cbn [app length]. unfold decode_rune.
  set (p0 := 240 + r / 262144). set (b1 := 128 + (r / 4096) mod 64). set (b2 := 128 + (r / 64) mod 64). set (b3 := 128 + r mod 64).
  assert (Hp0 : 240 <= p0 <= 244) by (subst p0; zsolve).
  assert (Hb2 : 128 <= b2 <= 191) by (subst b2; zsolve).
  assert (Hb3 : 128 <= b3 <= 191) by (subst b3; zsolve).
  bfalse (p0 <? 128). bfalse (p0 <? 194). bfalse (244 <? p0). cbn [orb].
  bfalse (p0 <? 224). bfalse (p0 <? 240). bfalse (p0 =? 224). bfalse (p0 =? 237).
  cbn [length Nat.ltb Nat.leb Nat.eqb].
  assert (Hlo : ((b1 <? (if p0 =? 240 then 144 else 128)) || ((if p0 =? 244 then 143 else 191) <? b1)) = false).
  { apply orb_false_iff. split.
    - destruct (Z.eqb_spec p0 240) as [E|E]; apply Z.ltb_ge; subst p0 b1; zsolve.
    - destruct (Z.eqb_spec p0 244) as [E|E]; apply Z.ltb_ge; subst p0 b1; zsolve. }
  rewrite Hlo. unfold cont. btrue (128 <=? b2). btrue (b2 <=? 191). btrue (128 <=? b3). btrue (b3 <=? 191). cbn [andb negb].
  f_equal. subst p0 b1 b2 b3. zsolve.
Qed.

(* anything that is not a scalar value (negative, a surrogate, beyond U+10FFFF; r an int32) is written as U+FFFD *)
Theorem encode_invalid r : -2147483648 <= r <= 2147483647 -> ~ valid_scalar r -> encode_rune r = [239; 191; 189].
Proof.
  intros Hr Hv. unfold valid_scalar in Hv. unfold encode_rune, uint32.
  set (i := r mod 4294967296).
  assert (Hi : (r < 0 /\ i = r + 4294967296) \/ (0 <= r /\ i = r)) by (subst i; zsolve).
  assert (Hbad : 1114111 < i \/ 55296 <= i <= 57343) by lia.
  bfalse (i <=? 127). bfalse (i <=? 2047).
  replace ((1114111 <? i) || ((55296 <=? i) && (i <=? 57343))) with true.
  2:{ symmetry. apply orb_true_iff. destruct Hbad as [A|A]; [left; apply Z.ltb_lt; lia|right].
      apply andb_true_iff. split; apply Z.leb_le; lia. }
  reflexivity.
Qed.

(* ---- at the level of the buffer contract ---- *)
Require Import ReWrite TexModel C11_Spec.

(* ReadRune is DecodeRune of the unread bytes (the ASCII shortcut in the code agrees with it) *)
Lemma read_rune_is_decode s : un s <> [] ->
  snd (sstep s ReadRune) = (st_ok, [fst (decode_rune (un s)); zn (snd (decode_rune (un s)))]).
Proof.
  intros Hne. cbn [sstep]. destruct (un s) as [|c t] eqn:E; [congruence|].
  cbn [length Nat.eqb hd]. destruct (c <? 128) eqn:Ec.
  - cbn [fst snd]. unfold decode_rune. rewrite Ec. reflexivity.
  - destruct (decode_rune (c :: t)) as [r n]. reflexivity.
Qed.

(* WriteRune r into an empty buffer, then ReadRune: r comes back, for every Unicode scalar value *)
Theorem write_read_rune s r : un s = [] -> valid_scalar r ->
  snd (sstep (fst (sstep s (WriteRune r))) ReadRune) = (st_ok, [r; zn (length (encode_rune r))]).
Proof.
  intros Hu Hv.
  assert (E : un (fst (sstep s (WriteRune r))) = encode_rune r ++ []).
  { cbn [sstep fst un mk]. rewrite Hu, app_nil_r. reflexivity. }
  rewrite read_rune_is_decode.
  - rewrite E, (decode_encode r [] Hv). reflexivity.
  - rewrite E, app_nil_r. intros H. pose proof (encode_rune_len r) as L. rewrite H in L. cbn in L. lia.
Qed.
