(* C10: every codec of BufferX reads its own encoding back off the front of any continuation (clause 1),
   a proper prefix of an encoding is an error that leaves nothing unread (clause 3) *)
From Coq Require Import ZArith List Lia Bool.
Require Import LE Varint C10_Model C10_Monitor.
Import ListNotations.
Open Scope Z_scope.

(* ---------------- arithmetic of the reinterpretations ---------------- *)
Lemma p8 : 2 ^ 8 = 256. Proof. reflexivity. Qed.
Lemma p15 : 2 ^ 15 = 32768. Proof. reflexivity. Qed.
Lemma p16 : 2 ^ 16 = 65536. Proof. reflexivity. Qed.
Lemma p31 : 2 ^ 31 = 2147483648. Proof. reflexivity. Qed.
Lemma p32 : 2 ^ 32 = 4294967296. Proof. reflexivity. Qed.
Lemma p63 : 2 ^ 63 = 9223372036854775808. Proof. reflexivity. Qed.
Lemma p64 : 2 ^ 64 = 18446744073709551616. Proof. reflexivity. Qed.

Lemma inr_spec lo hi v : inr lo hi v = true -> lo <= v < hi.
Proof. unfold inr. intros H. apply andb_prop in H as [H1 H2]. apply Z.leb_le in H1. apply Z.ltb_lt in H2. lia. Qed.

Lemma uwrap_small w x : 0 <= x < 2 ^ w -> uwrap w x = x.
Proof. intros H. unfold uwrap. apply Z.mod_small, H. Qed.
Lemma uwrap_range w x : 0 <= w -> 0 <= uwrap w x < 2 ^ w.
Proof. intros H. unfold uwrap. apply Z.mod_pos_bound. apply Z.pow_pos_nonneg; lia. Qed.
Lemma swrap_range w x : 0 < w -> - 2 ^ (w - 1) <= swrap w x < 2 ^ (w - 1).
Proof.
  intros H. unfold swrap. assert (E : 2 ^ w = 2 * 2 ^ (w - 1)).
  { replace w with (Z.succ (w - 1)) at 1 by lia. rewrite Z.pow_succ_r by lia. reflexivity. }
  pose proof (Z.mod_pos_bound (x + 2 ^ (w - 1)) (2 ^ w) ltac:(apply Z.pow_pos_nonneg; lia)). lia.
Qed.
Lemma swrap_small w x : 0 < w -> - 2 ^ (w - 1) <= x < 2 ^ (w - 1) -> swrap w x = x.
Proof.
  intros H Hx. unfold swrap. assert (E : 2 ^ w = 2 * 2 ^ (w - 1)).
  { replace w with (Z.succ (w - 1)) at 1 by lia. rewrite Z.pow_succ_r by lia. reflexivity. }
  rewrite Z.mod_small by lia. lia.
Qed.
(* intN(uintN(v)) = v *)
Lemma swrap_uwrap w x : 0 < w -> - 2 ^ (w - 1) <= x < 2 ^ (w - 1) -> swrap w (uwrap w x) = x.
Proof.
  intros H Hx. unfold swrap, uwrap. assert (E : 2 ^ w = 2 * 2 ^ (w - 1)).
  { replace w with (Z.succ (w - 1)) at 1 by lia. rewrite Z.pow_succ_r by lia. reflexivity. }
  assert (P : 0 < 2 ^ (w - 1)) by (apply Z.pow_pos_nonneg; lia).
  rewrite Zplus_mod_idemp_l. rewrite Z.mod_small by lia. lia.
Qed.

Lemma zigzag_range x : - 2 ^ 63 <= x < 2 ^ 63 -> 0 <= zigzag x < 2 ^ 64.
Proof. intros H. unfold zigzag. destruct (x <? 0); apply uwrap_range; lia. Qed.
Lemma unzigzag_zigzag x : - 2 ^ 63 <= x < 2 ^ 63 -> unzigzag (zigzag x) = x.
Proof.
  intros H. rewrite p63 in H. unfold zigzag, unzigzag. destruct (x <? 0) eqn:E.
  - apply Z.ltb_lt in E. rewrite uwrap_small by (rewrite p64; lia).
    replace (- (2 * x) - 1) with (1 + 2 * (- x - 1)) by lia. rewrite Z.even_add_mul_2. cbn [Z.even].
    replace ((1 + 2 * (- x - 1)) / 2) with (- x - 1) by (Z.div_mod_to_equations; lia). lia.
  - apply Z.ltb_ge in E. rewrite uwrap_small by (rewrite p64; lia).
    rewrite Z.even_mul. cbn [Z.even orb]. replace (2 * x / 2) with x by (Z.div_mod_to_equations; lia). reflexivity.
Qed.

(* ---------------- lists ---------------- *)
Lemma zlen_app a b : zlen (a ++ b) = zlen a + zlen b.
Proof. unfold zlen. rewrite app_length. lia. Qed.
Lemma zlen_nonneg l : 0 <= zlen l.
Proof. unfold zlen. lia. Qed.
Lemma zlen_nil_inv l : zlen l <= 0 -> l = [].
Proof. destruct l; [reflexivity|]. unfold zlen. cbn [length]. lia. Qed.
Lemma firstn_zlen a b : firstn (Z.to_nat (zlen a)) (a ++ b) = a.
Proof. unfold zlen. rewrite Nat2Z.id. apply firstn_exact. reflexivity. Qed.
Lemma skipn_zlen a b : skipn (Z.to_nat (zlen a)) (a ++ b) = b.
Proof. unfold zlen. rewrite Nat2Z.id. apply skipn_exact. reflexivity. Qed.

(* ---------------- the read primitives on a stream that starts with the data ---------------- *)
Lemma buf_read_app d rest : buf_read (d ++ rest) (zlen d) = RdOk d rest.
Proof.
  unfold buf_read. destruct (zlen d <=? 0) eqn:E.
  - apply Z.leb_le in E. apply zlen_nil_inv in E. subst d. reflexivity.
  - apply Z.leb_gt in E. destruct d as [|a d]; [unfold zlen in E; cbn in E; lia|].
    cbn [app]. change (a :: d ++ rest) with ((a :: d) ++ rest).
    replace (zlen ((a :: d) ++ rest) <? zlen (a :: d)) with false
      by (symmetry; apply Z.ltb_ge; rewrite zlen_app; pose proof (zlen_nonneg rest); lia).
    now rewrite firstn_zlen, skipn_zlen.
Qed.
Lemma buf_next_app d rest : buf_next (d ++ rest) (zlen d) = RdOk d rest.
Proof.
  unfold buf_next. replace (zlen (d ++ rest) <? zlen d) with false
    by (symmetry; apply Z.ltb_ge; rewrite zlen_app; pose proof (zlen_nonneg rest); lia).
  now rewrite firstn_zlen, skipn_zlen.
Qed.
Lemma zlen_le n w : zlen (le_bytes n w) = Z.of_nat n.
Proof. unfold zlen. now rewrite le_bytes_length. Qed.
Lemma buf_read_le n w rest : buf_read (le_bytes n w ++ rest) (Z.of_nat n) = RdOk (le_bytes n w) rest.
Proof. rewrite <- (zlen_le n w). apply buf_read_app. Qed.

(* a stream shorter than the request: an error, and nothing is left *)
Lemma buf_read_short l n : zlen l < n -> exists e, buf_read l n = RdErr e [].
Proof.
  intros H. unfold buf_read. pose proof (zlen_nonneg l).
  replace (n <=? 0) with false by (symmetry; apply Z.leb_gt; lia).
  destruct l as [|a l]; [eexists; reflexivity|].
  replace (zlen (a :: l) <? n) with true by (symmetry; apply Z.ltb_lt; lia). eexists; reflexivity.
Qed.
Lemma buf_next_short l n : zlen l < n -> buf_next l n = RdErr EEmpty [].
Proof. intros H. unfold buf_next. now replace (zlen l <? n) with true by (symmetry; apply Z.ltb_lt; lia). Qed.

(* ---------------- uvarint ---------------- *)
Lemma read_uvarint_cons k first b r x s :
  read_uvarint (S k) first (b :: r) x s =
  if b <? 128 then (if Nat.eqb k 0 && (1 <? b) then VErr EOverflow r else VOk (x + b * 2 ^ s) r)
  else read_uvarint k false r (x + (b - 128) * 2 ^ s) (s + 7).
Proof. reflexivity. Qed.

Lemma put_read : forall f x acc s i first rest,
  0 <= x < 2 ^ (7 * Z.of_nat (S f)) -> (i + S f = 10)%nat -> x < 2 ^ (64 - s) -> s = 7 * Z.of_nat i ->
  read_uvarint (S f) first (put_uvarint (S f) x ++ rest) acc s = VOk (acc + x * 2 ^ s) rest.
Proof.
  induction f as [|f IH]; intros x acc s i first rest Hx Hi10 H64 Hsi.
  - cbn [put_uvarint].
    assert (i = 9%nat) by lia. subst i. assert (s = 63) by lia. subst s.
    change (2 ^ (64 - 63)) with 2 in H64.
    replace (x <? 128) with true by (symmetry; apply Z.ltb_lt; lia).
    cbn [app read_uvarint Nat.eqb andb].
    replace (x <? 128) with true by (symmetry; apply Z.ltb_lt; lia).
    replace (1 <? x) with false by (symmetry; apply Z.ltb_ge; lia). reflexivity.
  - change (put_uvarint (S (S f)) x) with (if x <? 128 then [x] else (x mod 128 + 128) :: put_uvarint (S f) (x / 128)).
    destruct (x <? 128) eqn:E.
    + cbn [app]. rewrite read_uvarint_cons. rewrite E. cbn [Nat.eqb andb]. reflexivity.
    + apply Z.ltb_ge in E. cbn [app]. rewrite read_uvarint_cons.
      pose proof (Z.mod_pos_bound x 128 ltac:(lia)) as Hm.
      replace (x mod 128 + 128 <? 128) with false by (symmetry; apply Z.ltb_ge; lia).
      replace (x mod 128 + 128 - 128) with (x mod 128) by lia.
      rewrite (IH (x / 128) _ (s + 7) (S i) false rest).
      * f_equal. rewrite Z.pow_add_r by lia. pose proof (Z.div_mod x 128 ltac:(lia)). change (2 ^ 7) with 128. nia.
      * split; [apply Z.div_pos; lia|]. apply Z.div_lt_upper_bound; [lia|].
        replace (7 * Z.of_nat (S (S f))) with (7 + 7 * Z.of_nat (S f)) in Hx by lia.
        rewrite Z.pow_add_r in Hx by lia. change (2 ^ 7) with 128 in Hx. lia.
      * lia.
      * apply Z.div_lt_upper_bound; [lia|].
        replace (64 - s) with (7 + (64 - (s + 7))) in H64 by lia.
        assert (0 <= 64 - (s + 7)) by lia.
        rewrite Z.pow_add_r in H64 by lia. change (2 ^ 7) with 128 in H64. lia.
      * lia.
Qed.

Theorem uvar_put x rest : 0 <= x < 2 ^ 64 -> uvar (put_uvarint 10 x ++ rest) = VOk x rest.
Proof.
  intros H. assert (2 ^ 64 < 2 ^ 70) by (apply Z.pow_lt_mono_r; lia). unfold uvar.
  rewrite (put_read 9 x 0 0 0 true rest); try (change (7 * Z.of_nat 10) with 70; change (64 - 0) with 64; lia).
  f_equal. lia.
Qed.

Lemma put_length : forall f x, (length (put_uvarint f x) <= f)%nat.
Proof.
  induction f as [|f IH]; intros x; cbn [put_uvarint]; [cbn; lia|].
  destruct (x <? 128); cbn [length]; [lia|]. specialize (IH (x / 128)). lia.
Qed.
(* every byte of a proper prefix of an uvarint carries the continuation bit *)
Lemma put_prefix_cont : forall f x k, (k < length (put_uvarint f x))%nat ->
  Forall (fun b => 128 <= b) (firstn k (put_uvarint f x)).
Proof.
  induction f as [|f IH]; intros x k Hk; cbn [put_uvarint] in *; [cbn in Hk; lia|].
  destruct (x <? 128) eqn:E.
  - cbn [length] in Hk. assert (k = 0%nat) by lia. subst k. constructor.
  - destruct k as [|k]; [constructor|]. cbn [firstn length] in *. apply Z.ltb_ge in E.
    pose proof (Z.mod_pos_bound x 128 ltac:(lia)). constructor; [lia|]. apply IH. lia.
Qed.
Lemma read_cont : forall l k first x s, Forall (fun b => 128 <= b) l -> (length l < k)%nat ->
  exists e, read_uvarint k first l x s = VErr e [].
Proof.
  induction l as [|b r IH]; intros k first x s Hf Hk; (destruct k as [|k]; [lia|]); cbn [read_uvarint].
  - eexists; reflexivity.
  - inversion Hf as [|? ? Hb Hr]; subst. replace (b <? 128) with false by (symmetry; apply Z.ltb_ge; lia).
    apply IH; [assumption|]. cbn [length] in Hk. lia.
Qed.
Lemma uvar_prefix x k : (k < length (put_uvarint 10 x))%nat -> exists e, uvar (firstn k (put_uvarint 10 x)) = VErr e [].
Proof.
  intros Hk. unfold uvar. apply read_cont; [now apply put_prefix_cont|].
  rewrite firstn_length. pose proof (put_length 10 x). lia.
Qed.

(* ---------------- one typed write, one typed read ---------------- *)
Definition enc_all (ws : list op) : list Z := concat (map enc_op ws).

Lemma le_val_le n w : 0 <= w < 256 ^ Z.of_nat n -> le_val (le_bytes n w) = w.
Proof. apply le_roundtrip. Qed.

Lemma fixed_le n nz (f : Z -> Z) w rest : nz = Z.of_nat n -> 0 <= w < 256 ^ Z.of_nat n ->
  fixed (buf_read (le_bytes n w ++ rest) nz) f = (OInt (f w), rest).
Proof. intros -> H. rewrite buf_read_le. cbn [fixed]. now rewrite le_val_le. Qed.
Lemma buf_read_le' n nz w rest : nz = Z.of_nat n -> buf_read (le_bytes n w ++ rest) nz = RdOk (le_bytes n w) rest.
Proof. intros ->. apply buf_read_le. Qed.

(* a write whose value fits its Go type appends its encoding *)
Lemma write_step w bs : is_write w = true -> wok w = true -> bstep bs w = (ODone, bs ++ enc_op w).
Proof.
  destruct w; cbn [is_write]; try discriminate; intros _ Hw; try reflexivity.
  cbn [bstep wok] in *. apply andb_prop in Hw as [H1 H2]. apply Z.leb_le in H1. apply Z.ltb_lt in H2.
  rewrite uwrap_small by (pose proof (zlen_nonneg s); lia).
  now replace (limit <? zlen s) with false by (symmetry; apply Z.ltb_ge; lia).
Qed.

(* the matching read returns the written value and leaves exactly the continuation *)
Theorem read_write w rest : is_write w = true -> wok w = true ->
  bstep (enc_op w ++ rest) (reader_of w) = (val_of w, rest).
Proof.
  destruct w; cbn [is_write]; try discriminate; intros _ Hw; cbn [wok] in Hw; cbn [enc_op reader_of val_of bstep].
  - (* U8 *) apply inr_spec in Hw. rewrite uwrap_small by exact Hw. rewrite p8 in Hw.
    cbn [le_bytes app]. now rewrite Z.mod_small by lia.
  - (* Bool *) destruct b; reflexivity.
  - (* U16 *) apply inr_spec in Hw. rewrite uwrap_small by exact Hw.
    apply (fixed_le 2 2 (fun x => x)); [reflexivity|]. change (256 ^ Z.of_nat 2) with (2 ^ 16). exact Hw.
  - (* I16 *) apply inr_spec in Hw. rewrite (fixed_le 2 2 (swrap 16)); [|reflexivity|change (256 ^ Z.of_nat 2) with (2 ^ 16); apply uwrap_range; lia].
    now rewrite swrap_uwrap by (try lia; exact Hw).
  - (* U32 *) apply inr_spec in Hw. rewrite uwrap_small by exact Hw.
    apply (fixed_le 4 4 (fun x => x)); [reflexivity|]. change (256 ^ Z.of_nat 4) with (2 ^ 32). exact Hw.
  - (* I32 *) apply inr_spec in Hw. rewrite (fixed_le 4 4 (swrap 32)); [|reflexivity|change (256 ^ Z.of_nat 4) with (2 ^ 32); apply uwrap_range; lia].
    now rewrite swrap_uwrap by (try lia; exact Hw).
  - (* U64 *) apply inr_spec in Hw. rewrite uwrap_small by exact Hw.
    apply (fixed_le 8 8 (fun x => x)); [reflexivity|]. change (256 ^ Z.of_nat 8) with (2 ^ 64). exact Hw.
  - (* I64 *) apply inr_spec in Hw. rewrite (fixed_le 8 8 (swrap 64)); [|reflexivity|change (256 ^ Z.of_nat 8) with (2 ^ 64); apply uwrap_range; lia].
    now rewrite swrap_uwrap by (try lia; exact Hw).
  - (* F64 *) apply inr_spec in Hw. rewrite uwrap_small by exact Hw.
    apply (fixed_le 8 8 (fun x => x)); [reflexivity|]. change (256 ^ Z.of_nat 8) with (2 ^ 64). exact Hw.
  - (* VarU64 *) apply inr_spec in Hw. rewrite uwrap_small by exact Hw. now rewrite uvar_put by exact Hw.
  - (* VarI64 *) apply inr_spec in Hw. rewrite (swrap_small 64) by (try lia; exact Hw).
    rewrite uvar_put by (apply zigzag_range; exact Hw). cbn [varint]. now rewrite unzigzag_zigzag by exact Hw.
  - (* VarU32 *) apply inr_spec in Hw. rewrite uwrap_small by exact Hw.
    rewrite uvar_put by (rewrite p32 in Hw; rewrite p64; lia). cbn [varint]. now rewrite uwrap_small by exact Hw.
  - (* VarI32 *) apply inr_spec in Hw. rewrite (swrap_small 32) by (try lia; exact Hw).
    assert (H64 : - 2 ^ 63 <= v < 2 ^ 63) by (rewrite p31 in Hw; rewrite p63; lia).
    rewrite uvar_put by (apply zigzag_range; exact H64). cbn [varint].
    rewrite unzigzag_zigzag by exact H64. now rewrite (swrap_small 32) by (try lia; exact Hw).
  - (* Str *) apply Z.ltb_lt in Hw. pose proof (zlen_nonneg s). rewrite uwrap_small by lia.
    rewrite <- app_assoc. rewrite (buf_read_le' 4 4) by reflexivity.
    rewrite le_val_le by (change (256 ^ Z.of_nat 4) with (2 ^ 32); lia).
    now rewrite buf_next_app.
  - (* LimStr *) apply andb_prop in Hw as [H1 H2]. apply Z.leb_le in H1. apply Z.ltb_lt in H2.
    pose proof (zlen_nonneg s). rewrite uwrap_small by lia.
    rewrite <- app_assoc. rewrite (buf_read_le' 4 4) by reflexivity.
    rewrite le_val_le by (change (256 ^ Z.of_nat 4) with (2 ^ 32); lia).
    replace (limit <? zlen s) with false by (symmetry; apply Z.ltb_ge; lia).
    now rewrite buf_next_app.
  - (* Raw *) now rewrite buf_read_app.
Qed.
